/-
inverseBiPSIv2, part 1: the first loop (`biHist`): `freqs[c]` becomes the first row of symbol `c` and
`buckets[c<<8|d]` the number of rows of symbol `c` (the row `pIdx` excluded) whose BWT symbol is `d`.
For ARBITRARY source bytes and any `pIdx` in `0 .. n`.
-/
import Kanzi.Proofs.BWTTables

namespace Kanzi.BWT

theorem shl8_or (c d : Nat) (h : d < 256) : (c <<< 8) ||| d = c * 256 + d := by
  rw [← Nat.shiftLeft_add_eq_or_of_lt (i := 8) (by simpa using h) c, Nat.shiftLeft_eq]

theorem succ_mul256 (c : Nat) : (c + 1) * 256 = c * 256 + 256 := by rw [Nat.add_mul, Nat.one_mul]

theorem shl8 (c : Nat) : c <<< 8 = c * 256 := by rw [Nat.shiftLeft_eq]

/-- number of `j` in `[a, a+k)` with `P j` -/
def cntIf (P : Nat → Bool) (a k : Nat) : Nat := ((List.range' a k).filter P).length

theorem cntIf_zero (P : Nat → Bool) (a : Nat) : cntIf P a 0 = 0 := rfl

theorem cntIf_succ (P : Nat → Bool) (a k : Nat) :
    cntIf P a (k + 1) = (if P a then 1 else 0) + cntIf P (a + 1) k := by
  simp only [cntIf, List.range'_succ, List.filter_cons]
  split <;> simp <;> omega

theorem cntIf_add (P : Nat → Bool) (a k1 k2 : Nat) :
    cntIf P a (k1 + k2) = cntIf P a k1 + cntIf P (a + k1) k2 := by
  simp only [cntIf, ← List.range'_append_1, List.filter_append, List.length_append]

theorem cntIf_congr (P Q : Nat → Bool) (a k : Nat) (h : ∀ r, a ≤ r → r < a + k → P r = Q r) :
    cntIf P a k = cntIf Q a k := by
  simp only [cntIf]
  congr 1
  apply List.filter_congr
  intro r hr
  rw [List.mem_range'_1] at hr
  exact h r hr.1 hr.2

theorem cntIf_shift (Q : Nat → Bool) (a k : Nat) :
    cntIf (fun j => Q (j + 1)) a k = cntIf Q (a + 1) k := by
  induction k generalizing a with
  | zero => rfl
  | succ k ih => rw [cntIf_succ, cntIf_succ, ih]

theorem cntIf_le (P : Nat → Bool) (a k : Nat) : cntIf P a k ≤ k := by
  have := List.length_filter_le P (List.range' a k)
  simpa [cntIf] using this

/-! ### incRange -/

theorem incRange_spec (src : Array Nat) (hb : ∀ b ∈ src.toList, b < 256) (base k i : Nat) (bk : Array Nat)
    (hi : i + k ≤ src.size) (hbase : base + 256 ≤ bk.size) :
    ∃ bk', incRange src base k i bk = some bk' ∧ bk'.size = bk.size ∧
      (∀ d, d < 256 → rd bk' (base + d) = rd bk (base + d) + cntIf (fun j => rd src j = d) i k) ∧
      (∀ x, (x < base ∨ base + 256 ≤ x) → rd bk' x = rd bk x) := by
  induction k generalizing i bk with
  | zero => exact ⟨bk, rfl, rfl, by intro d _; simp [cntIf_zero], fun _ _ => rfl⟩
  | succ k ih =>
    have hi' : i < src.size := by omega
    have hsym : src[i] < 256 := hb _ (by simp)
    have hix : base + src[i] < bk.size := by omega
    obtain ⟨bk', h1, h2, h3, h4⟩ := ih (i + 1) (bk.modify (base + src[i]) (· + 1)) (by omega)
      (by rw [Array.size_modify]; exact hbase)
    refine ⟨bk', by simp only [incRange, hi', dite_true, hix, ite_true, h1], by rw [h2, Array.size_modify], ?_, ?_⟩
    · intro d hd
      rw [h3 d hd, rd_modify _ _ _ _ hix, cntIf_succ, rd_eq_getElem hi']
      by_cases hdd : rd src i = d
      · subst hdd; simp; omega
      · have : ¬ base + rd src i = base + d := by omega
        simp [hdd, this]
    · intro x hx
      rw [h4 x hx, rd_modify _ _ _ _ hix]
      have : ¬ base + src[i] = x := by omega
      simp [this]

/-! ### first rows of the symbols -/

/-- first row (in `SA'`) of the suffixes starting with `c`: `1 +` the number of smaller symbols -/
def fC (src : Array Nat) (c : Nat) : Nat := 1 + (src.toList.filter (fun x => x < c)).length

/-- BWT symbol of row `r` (`r ≠ p0`): `src[r]` in front of the end-marker row, `src[r-1]` behind it -/
def Lrow (src : Array Nat) (p0 r : Nat) : Nat := if r < p0 then rd src r else rd src (r - 1)

/-- number of rows of symbol `y` (row `p0` excluded) with BWT symbol `x` -/
def cntRow (src : Array Nat) (p0 y x : Nat) : Nat :=
  cntIf (fun r => r ≠ p0 && Lrow src p0 r = x) (fC src y) (src.toList.count y)

theorem fC_succ (src : Array Nat) (c : Nat) : fC src (c + 1) = fC src c + src.toList.count c := by
  unfold fC; rw [filter_lt_succ_length]; omega

theorem fC_le (src : Array Nat) (c : Nat) : fC src c + src.toList.count c ≤ src.size + 1 := by
  rw [← fC_succ]; unfold fC
  have := List.length_filter_le (fun x => decide (x < c + 1)) src.toList
  simp at this; omega

theorem fC_pos (src : Array Nat) (c : Nat) : 1 ≤ fC src c := by unfold fC; omega

/-- what the two `incRange` loops of one symbol count -/
theorem rows_count (src : Array Nat) (p0 f h d : Nat) (hf1 : 1 ≤ f) :
    cntIf (fun j => rd src j = d) f (min (f + h) p0 - f)
      + cntIf (fun j => rd src j = d) (max (f - 1) p0) (f + h - 1 - max (f - 1) p0)
      = cntIf (fun r => r ≠ p0 && Lrow src p0 r = d) f h := by
  by_cases hA : p0 < f
  · -- the end-marker row is in front of the range
    have e1 : min (f + h) p0 - f = 0 := by omega
    have e2 : max (f - 1) p0 = f - 1 := by omega
    have e3 : f + h - 1 - (f - 1) = h := by omega
    rw [e1, e2, e3, cntIf_zero, Nat.zero_add]
    have : cntIf (fun j => decide (rd src j = d)) (f - 1) h
        = cntIf (fun r => decide (rd src (r - 1) = d)) f h := by
      have : f = (f - 1) + 1 := by omega
      conv => rhs; rw [this, ← cntIf_shift]
      rfl
    rw [this]
    apply cntIf_congr; intro r hr _
    have h1 : ¬ r < p0 := by omega
    have h2 : r ≠ p0 := by omega
    simp [Lrow, h1, h2]
  · by_cases hB : p0 < f + h
    · -- inside
      have e1 : min (f + h) p0 - f = p0 - f := by omega
      have e2 : max (f - 1) p0 = p0 := by omega
      rw [e1, e2]
      have e3 : h = (p0 - f) + (1 + (f + h - 1 - p0)) := by omega
      conv => rhs; rw [e3, cntIf_add, cntIf_add]
      have e4 : f + (p0 - f) = p0 := by omega
      rw [e4]
      have e5 : cntIf (fun r => r ≠ p0 && Lrow src p0 r = d) p0 1 = 0 := by
        rw [cntIf_succ]; simp [cntIf_zero]
      rw [e5, Nat.zero_add]
      congr 1
      · apply cntIf_congr; intro r _ hr
        have : r < p0 := by omega
        have : r ≠ p0 := by omega
        simp [Lrow, *]
      · rw [← cntIf_shift]
        apply cntIf_congr; intro r hr _
        have h1 : ¬ r + 1 < p0 := by omega
        have h2 : r + 1 ≠ p0 := by omega
        simp [Lrow, h1, h2]
    · -- behind
      have e1 : min (f + h) p0 - f = h := by omega
      have e2 : f + h - 1 - max (f - 1) p0 = 0 := by omega
      rw [e1, e2, cntIf_zero, Nat.add_zero]
      apply cntIf_congr; intro r _ hr
      have : r < p0 := by omega
      have : r ≠ p0 := by omega
      simp [Lrow, *]

/-! ### biHist -/

/-- state of the first loop before symbol `c` -/
structure HistInv (src : Array Nat) (p0 c : Nat) (fr bk : Array Nat) : Prop where
  frsize : fr.size = c
  bksize : bk.size = 65536
  fr : ∀ y, y < c → rd fr y = fC src y
  done : ∀ y x, y < c → x < 256 → rd bk (y * 256 + x) = cntRow src p0 y x
  todo : ∀ ix, c * 256 ≤ ix → rd bk ix = 0

theorem biHist_spec (src : Array Nat) (hb : ∀ b ∈ src.toList, b < 256) (p0 : Nat) (hp0 : p0 ≤ src.size)
    (k c : Nat) (hkc : k + c = 256) (fr bk : Array Nat) (hinv : HistInv src p0 c fr bk) :
    ∃ fr' bk', biHist src (histogram src) p0 k c (fC src c) fr bk = some (fr', bk') ∧
      HistInv src p0 256 fr' bk' := by
  induction k generalizing c fr bk with
  | zero =>
    have : c = 256 := by omega
    subst this
    exact ⟨fr, bk, rfl, hinv⟩
  | succ k ih =>
    have hc : c < 256 := by omega
    have hh : (histogram src).getD c 0 = src.toList.count c := histogram_rd src c hc
    have hle := fC_le src c
    have hpos := fC_pos src c
    simp only [biHist, hh]
    -- the state after this symbol
    have hstep : ∀ bk2 : Array Nat, bk2.size = 65536 →
        (∀ d, d < 256 → rd bk2 (c * 256 + d) = cntRow src p0 c d) →
        (∀ x, (x < c * 256 ∨ c * 256 + 256 ≤ x) → rd bk2 x = rd bk x) →
        HistInv src p0 (c + 1) (fr.push (fC src c)) bk2 := by
      intro bk2 hs2 hd2 hu2
      refine ⟨by simp [hinv.frsize], hs2, ?_, ?_, ?_⟩
      · intro y hy
        rw [rd_push, hinv.frsize]
        by_cases hyc : y = c
        · subst hyc; simp
        · simp [hyc]; exact hinv.fr y (by omega)
      · intro y x hy hx
        by_cases hyc : y = c
        · subst hyc; exact hd2 x hx
        · have hlt : y < c := by omega
          rw [hu2 _ (Or.inl (by
            have : y * 256 + 256 ≤ c * 256 := by
              have := Nat.mul_le_mul_right 256 (show y + 1 ≤ c by omega)
              omega
            omega))]
          exact hinv.done y x hlt hx
      · intro ix hix
        have h0 : c * 256 ≤ ix := Nat.le_trans (Nat.mul_le_mul_right 256 (Nat.le_succ c)) hix
        rw [succ_mul256] at hix
        rw [hu2 ix (Or.inr hix)]
        exact hinv.todo ix h0
    by_cases hz : src.toList.count c = 0
    · -- absent symbol: nothing to count
      have hne : ¬ fC src c ≠ fC src c + src.toList.count c := by omega
      rw [if_neg hne]
      have hnext : fC src c + src.toList.count c = fC src (c + 1) := (fC_succ src c).symm
      rw [hnext]
      apply ih (c + 1) (by omega)
      apply hstep bk hinv.bksize
      · intro d hd
        rw [hinv.todo _ (by omega)]
        simp [cntRow, hz, cntIf_zero]
      · intro x _; rfl
    · have hne : fC src c ≠ fC src c + src.toList.count c := by omega
      rw [if_pos hne]
      obtain ⟨bk1, r1, s1, d1, u1⟩ := incRange_spec src hb (c <<< 8)
        (min (fC src c + src.toList.count c) p0 - fC src c) (fC src c) bk
        (by omega) (by rw [shl8, hinv.bksize]; omega)
      obtain ⟨bk2, r2, s2, d2, u2⟩ := incRange_spec src hb (c <<< 8)
        (fC src c + src.toList.count c - 1 - max (fC src c - 1) p0) (max (fC src c - 1) p0) bk1
        (by omega) (by rw [shl8, s1, hinv.bksize]; omega)
      simp only [r1, r2]
      have hnext : fC src c + src.toList.count c = fC src (c + 1) := (fC_succ src c).symm
      rw [hnext]
      apply ih (c + 1) (by omega)
      apply hstep bk2 (by rw [s2, s1, hinv.bksize])
      · intro d hd
        have := d2 d hd
        rw [shl8] at this
        rw [this]
        have := d1 d hd
        rw [shl8] at this
        rw [this, hinv.todo _ (by omega), Nat.zero_add]
        exact rows_count src p0 (fC src c) (src.toList.count c) d hpos
      · intro x hx
        rw [u2 x (by rw [shl8]; exact hx), u1 x (by rw [shl8]; exact hx)]

theorem histInv_init (src : Array Nat) (p0 : Nat) :
    HistInv src p0 0 (Array.emptyWithCapacity 256) (Array.replicate 65536 0) := by
  refine ⟨by simp, by simp, by intro y hy; omega, by intro y x hy; omega, ?_⟩
  intro ix _
  rw [rd_replicate]; split <;> rfl

/-- the first loop of `inverseBiPSIv2`, for any bytes and any `pIdx <= n` -/
theorem biHist_run (src : Array Nat) (hb : ∀ b ∈ src.toList, b < 256) (p0 : Nat) (hp0 : p0 ≤ src.size) :
    ∃ fr bk, biHist src (histogram src) p0 256 0 1 (Array.emptyWithCapacity 256) (Array.replicate 65536 0)
        = some (fr, bk) ∧ HistInv src p0 256 fr bk := by
  have h0 : fC src 0 = 1 := by
    unfold fC
    have : src.toList.filter (fun x => decide (x < 0)) = [] := List.filter_eq_nil_iff.2 (by simp)
    rw [this]; rfl
  have := biHist_spec src hb p0 hp0 256 0 rfl _ _ (histInv_init src p0)
  rw [h0] at this
  exact this

end Kanzi.BWT
