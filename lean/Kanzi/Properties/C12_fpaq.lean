/-
C12 (FPAQ) — `FPAQEncoder` / `FPAQDecoder` of v2/entropy/FPAQCodec.go (bitstream version ≥ 4:
`decodeBitV2`), as they are after the repair 1e1b76f.  Property theorems only; proofs live in
`Kanzi/Proofs/Fpaq.lean`, which INSTANTIATES the proof of the generic binary coder
(`Kanzi/Properties/C12_binary.lean`): FPAQ = the same 56-bit interval coder with first shift 8 and
16-bit probabilities (`fpaqP.shift = 8`), the built-in adaptive model (4 × 256 probabilities, table
chosen by the top two bits of the previous byte, entry by the bits of the current byte, `± >> 6`
adaptation) as the predictor — `C12_fpaq_model_safe`: every probability stays below 2^16, so the
contract of the coder holds — and its own chunk framing (4 MiB chunks, encoder buffer
`chunkSize + chunkSize>>3` that `flush` grows when needed, decoder test `szBytes >= 2*len(block)`,
decoder buffer `max(sz + sz>>2, 1024)` with 8 zeroed guard bytes).  The model
(`Kanzi/Model/Fpaq.lean`) is tied byte-identically to /repo by the `fpaq` correspondence stream,
including blocks above the 4 MiB chunk size (thorough tier).

Finding F37 (fixed by 1e1b76f): before the repair `flush` stored past the buffer; a 39-byte block that
keeps the coding interval across a multiple of 2^24 and then collapses it needs 44 bytes for a
43-byte buffer (`fpaq` stream, family `fenc-straddle`).  Now the encoder never fails
(`C12_fpaq_encode_total`) and the only residual condition is the decoder's acceptance test
`fFits2` (every chunk flushes fewer than `2·len(block)` bytes), stated explicitly; it is NOT
discharged from the model here (the adversaries of the stream reach an expansion of about 1.25).
-/
import Kanzi.Model.Fpaq
import Kanzi.Proofs.Fpaq

namespace Kanzi.C12
open Kanzi.Bits Kanzi.EntSmall Kanzi.BinEnt Kanzi.Fpaq

/-- the FPAQ adaptive model satisfies the predictor contract of the coder (16-bit probabilities,
shift 8) on the invariant "every table entry is `< 2^16`", which holds initially -/
theorem C12_fpaq_model_safe : fpaqP.Safe FR ∧ FR FState.init := ⟨fpaq_safe, fr_init⟩

/-- **C12_fpaq_encode_total.**  `Write` + `Dispose` never fail on a block of at most 2^30 bytes. -/
theorem C12_fpaq_encode_total (C : Nat) (blk : List Nat) (hlen : blk.length ≤ Fpaq.MAX_BLOCK) :
    ∃ out, fpaqEncode C blk = .ok out :=
  fpaqEncode_total C blk hlen

/-- **C12_fpaq_block.**  For every NON-EMPTY block of bytes of length `≤ 2^30` (`C` = the chunk
size `_FPAQ_DEFAULT_CHUNK_SIZE`, any value `0 < C < 2^27`: single-chunk and multi-chunk blocks) such
that every chunk flushes fewer than `2·len(block)` bytes (`fFits2`, the decoder's acceptance test):
`Write` + `Dispose` succeed and `Read` of the same length on the written bits followed by ANY bits
`rest` returns the block and leaves exactly `rest` unread. -/
theorem C12_fpaq_block (C : Nat) (hC : 0 < C) (hC27 : C < 2 ^ 27) (blk : List Nat) (hne : blk ≠ [])
    (hb : ∀ v ∈ blk, v < 256) (hlen : blk.length ≤ Fpaq.MAX_BLOCK) (hfit : fFits2 C blk = true) :
    ∃ out, fpaqEncode C blk = .ok out ∧
      ∀ rest : Bits, fpaqDecode C (out ++ rest) blk.length = .ok (blk, rest) := by
  obtain ⟨out, h1, h2, _⟩ := fpaq_block_full C hC hC27 blk hne hb hlen
  exact ⟨out, h1, h2 hfit⟩

/-- `fFits2` is exactly the decoder's acceptance: otherwise `Read` reports "Invalid chunk size" -/
theorem C12_fpaq_reject (C : Nat) (hC : 0 < C) (hC27 : C < 2 ^ 27) (blk : List Nat) (hne : blk ≠ [])
    (hb : ∀ v ∈ blk, v < 256) (hlen : blk.length ≤ Fpaq.MAX_BLOCK) (hfit : fFits2 C blk = false) :
    ∃ out, fpaqEncode C blk = .ok out ∧
      ∀ rest : Bits, fpaqDecode C (out ++ rest) blk.length = .error .invalid := by
  obtain ⟨out, h1, _, h3⟩ := fpaq_block_full C hC hC27 blk hne hb hlen
  exact ⟨out, h1, h3 hfit⟩

/-- the same with the real chunk size 4 MiB -/
theorem C12_fpaq_block_real (blk : List Nat) (hne : blk ≠ []) (hb : ∀ v ∈ blk, v < 256)
    (hlen : blk.length ≤ 2 ^ 30) (hfit : fFits2 DEFAULT_CHUNK blk = true) :
    ∃ out, fpaqEncode DEFAULT_CHUNK blk = .ok out ∧
      ∀ rest : Bits, fpaqDecode DEFAULT_CHUNK (out ++ rest) blk.length = .ok (blk, rest) :=
  C12_fpaq_block DEFAULT_CHUNK (by decide) (by decide) blk hne hb hlen hfit

/-- for a single-chunk block (`0 < n ≤ C`, i.e. up to 4 MiB) `fFits2` reads: the flushed bytes number
fewer than `2·n`; they never exceed `32·n` -/
theorem C12_fpaq_fits2_single (C : Nat) (blk : List Nat) (hne : blk ≠ []) (hC : blk.length ≤ C) :
    fFits2 C blk = decide (fFlushedLen blk < 2 * blk.length) ∧ fFlushedLen blk ≤ 32 * blk.length :=
  ⟨fFits2_single C blk hne hC, fFlushedLen_le blk⟩

/-- the empty block (known finding F11, FPAQ flavour): `Dispose` writes 56 bits, `Read` of 0 bytes
reads nothing -/
theorem C12_fpaq_empty_mismatch (C : Nat) (rest : Bits) :
    fpaqEncode C [] = .ok (natBits 0xFFFFFF 56) ∧
    fpaqDecode C (natBits 0xFFFFFF 56 ++ rest) 0 = .ok ([], natBits 0xFFFFFF 56 ++ rest) ∧
    natBits 0xFFFFFF 56 ++ rest ≠ rest :=
  ⟨fpaqEncode_nil C, fpaqDecode_zero C _, by
    intro h
    have := congrArg List.length h
    rw [List.length_append, natBits_length] at this
    omega⟩

end Kanzi.C12
