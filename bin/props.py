"""Per-property configuration of bin/check: theorems (proof obligations), correspondence /
search streams, fact bases, trusted base.  MANIFEST.json is generated from this (bin/mkmanifest)."""


def T(module, *names, partial=False):
    ns = {"Kanzi.Properties.C16": "Kanzi.C16", "Kanzi.Properties.C07": "Kanzi.C07",
          "Kanzi.Properties.StreamW": "Kanzi.StreamW", "Kanzi.Properties.StreamR": "Kanzi.StreamR",
          "Kanzi.Properties.ContainerP": "Kanzi.ContainerP", "Kanzi.Properties.C15": "Kanzi.C15",
          "Kanzi.Properties.C12_small": "Kanzi.C12", "Kanzi.Properties.C13_small": "Kanzi.C13",
          "Kanzi.Properties.C14_ibs": "Kanzi.C14", "Kanzi.Properties.C14_obs": "Kanzi.C14",
          "Kanzi.Properties.C06_ibs": "Kanzi.C06", "Kanzi.Properties.C08_ibs": "Kanzi.C08", "Kanzi.Properties.C08_obs": "Kanzi.C08",
          "Kanzi.Properties.C10_header": "Kanzi.C10", "Kanzi.Properties.C02_hash": "Kanzi.C02",
          "Kanzi.Properties.C03_facts": "Kanzi.C03", "Kanzi.Properties.C18_facts": "Kanzi.C18",
          "Kanzi.Properties.C01": "Kanzi.C01", "Kanzi.Properties.C19_cli": "Kanzi.C19",
          "Kanzi.Properties.C05_jobs": "Kanzi.C05", "Kanzi.Properties.C12_ans0": "Kanzi.C12",
          "Kanzi.Properties.C01_none": "Kanzi.C01none", "Kanzi.Properties.C03_bound": "Kanzi.C03", "Kanzi.Properties.C19_levels": "Kanzi.C19",
          "Kanzi.Properties.ConstsTie": "Kanzi.ConstsTie", "Kanzi.Properties.BitOpsTie": "Kanzi.BitOpsTie", "Kanzi.Properties.C12_range": "Kanzi.C12", "Kanzi.Properties.C13_rlt": "Kanzi.C13",
          "Kanzi.Properties.C12_ans1": "Kanzi.C12", "Kanzi.Properties.C12_cm": "Kanzi.C12", "Kanzi.Properties.C13_srt": "Kanzi.C13", "Kanzi.Properties.C01_blockgen": "Kanzi.C01gen",
          "Kanzi.Properties.C19_paths": "Kanzi.C19", "Kanzi.Properties.C13_alias": "Kanzi.C13", "Kanzi.Properties.C13_lzp": "Kanzi.C13", "Kanzi.Properties.C13_fsd": "Kanzi.C13", "Kanzi.Properties.C12_binary": "Kanzi.C12", "Kanzi.Properties.C12_fpaq": "Kanzi.C12",
          "Kanzi.Properties.C12_cm_codec": "Kanzi.C12", "Kanzi.Properties.C13_lz": "Kanzi.C13", "Kanzi.Properties.C13_lz_consts": "Kanzi.ConstsTie",
          "Kanzi.Properties.C12_tpaq": "Kanzi.C12", "Kanzi.Properties.C12_tpaq_codec": "Kanzi.C12", "Kanzi.Properties.C12_huffman": "Kanzi.C12", "Kanzi.Properties.C13_utf": "Kanzi.C13", "Kanzi.Properties.C13_bwts": "Kanzi.C13", "Kanzi.Properties.C01_blockgen2": "Kanzi.C01gen", "Kanzi.Properties.C13_exe": "Kanzi.C13", "Kanzi.Properties.C13_bwt": "Kanzi.C13", "Kanzi.Properties.C13_rolz": "Kanzi.C13", "Kanzi.Properties.C13_rolz_consts": "Kanzi.ConstsTie", "Kanzi.Properties.C13_text": "Kanzi.C13", "Kanzi.Properties.C01_blockgen3": "Kanzi.C01gen", "Kanzi.Properties.C01_text_inst": "Kanzi.C01gen", "Kanzi.Properties.C03_rangebin": "Kanzi.C03", "Kanzi.Properties.C03_ans": "Kanzi.C03", "Kanzi.Properties.C03_ans_ex": "Kanzi.C03", "Kanzi.Properties.AllocsTie": "Kanzi.AllocsTie", "Kanzi.Properties.C03_huffman": "Kanzi.C03", "Kanzi.Properties.C03_text": "Kanzi.C03", "Kanzi.Properties.C03_rolz": "Kanzi.C03", "Kanzi.Properties.C03_huffman_agree": "Kanzi.C03", "Kanzi.Properties.C03_rolz_link": "Kanzi.C03", "Kanzi.Properties.GuardsTie": "Kanzi.GuardsTie"}[module]
    return [{"module": module, "name": n if n.startswith("Kanzi.") else ns + "." + n, "partial": partial or n.endswith("_partial")} for n in names]


# ---- modules
M16, M07 = "Kanzi.Properties.C16", "Kanzi.Properties.C07"
W, R, K = "Kanzi.Properties.StreamW", "Kanzi.Properties.StreamR", "Kanzi.Properties.ContainerP"
M15, M12, M13 = "Kanzi.Properties.C15", "Kanzi.Properties.C12_small", "Kanzi.Properties.C13_small"
M14I, M06I, M08I = "Kanzi.Properties.C14_ibs", "Kanzi.Properties.C06_ibs", "Kanzi.Properties.C08_ibs"
M14O, M08O = "Kanzi.Properties.C14_obs", "Kanzi.Properties.C08_obs"
M10H, M02H = "Kanzi.Properties.C10_header", "Kanzi.Properties.C02_hash"
M03F, M18F = "Kanzi.Properties.C03_facts", "Kanzi.Properties.C18_facts"
M01 = "Kanzi.Properties.C01"

# ---- streams (kmodel => differential against the Lean model; otherwise oracle-only search on the real code)
NORM = {"name": "norm", "kmodel": "norm"}
PROTO = {"name": "proto", "kmodel": "proto", "timeout": 1800}
SW = {"name": "sw", "kmodel": "sw", "timeout": 1800}
SR = {"name": "sr", "kmodel": "sr", "timeout": 1800}
NAMES = {"name": "names", "kmodel": "names"}
HASH = {"name": "hash", "kmodel": "hash", "timeout": 3600}
IBS = {"name": "ibs", "kmodel": "ibs", "timeout": 3600}
OBS = {"name": "obs", "kmodel": "obs", "timeout": 3600}
ENTSMALL = {"name": "entsmall", "kmodel": "entsmall", "timeout": 3600}
TRSMALL = {"name": "trsmall", "kmodel": "trsmall", "timeout": 3600}
RT = {"name": "rt", "timeout": 7200}
RTBIG = {"name": "rtbig", "timeout": 7200}
DET = {"name": "det", "timeout": 7200}
NAMESRT = {"name": "namesrt", "timeout": 7200}
SHORTREAD = {"name": "shortread", "timeout": 7200}
ENTDIRECT = {"name": "entdirect", "timeout": 7200}
TRDIRECT = {"name": "trdirect", "timeout": 7200}
CORRUPT = {"name": "corrupt", "timeout": 7200}
TRUNC = {"name": "trunc", "timeout": 7200}
FUZZDEC = {"name": "fuzzdec", "timeout": 7200}
DECFORGE = {"name": "decforge", "kmodel": "decforge", "timeout": 3600}
ANSDEC = {"name": "ansdec", "kmodel": "ansdec", "timeout": 3600}
HUFDEC = {"name": "hufdec", "kmodel": "hufdec", "timeout": 3600}
TEXTDEC = {"name": "textdec", "kmodel": "textdec", "timeout": 3600}
ROLZDEC = {"name": "rolzdec", "kmodel": "rolzdec", "timeout": 3600}
RACE = {"name": "race", "race": True, "timeout": 7200}
CLI = {"name": "cli", "kmodel": "cli", "timeout": 7200}
GOLDEN = {"name": "golden", "timeout": 7200}
JOBS = {"name": "jobs", "kmodel": "jobs"}
IMAGE = {"name": "image", "kmodel": "image"}
LEVELS = {"name": "levels", "timeout": 7200}
RANGE = {"name": "range", "kmodel": "range", "timeout": 3600}
RLT = {"name": "rlt", "kmodel": "rlt", "timeout": 3600}
ANS1 = {"name": "ans1", "kmodel": "ans1", "timeout": 3600}
IMAGEGEN = {"name": "imagegen", "kmodel": "imagegen", "timeout": 3600}
ALIAS = {"name": "alias", "kmodel": "alias", "timeout": 3600}
CLIPATH = {"name": "clipath", "kmodel": "clipath", "timeout": 7200}
BINENT = {"name": "binent", "kmodel": "binent", "timeout": 7200}
FPAQ = {"name": "fpaq", "kmodel": "fpaq", "timeout": 7200}
LZ = {"name": "lz", "kmodel": "lz", "timeout": 7200}
TPAQPRED = {"name": "tpaqpred", "kmodel": "tpaqpred", "timeout": 7200}
HUFFMAN = {"name": "huffman", "kmodel": "huffman", "timeout": 7200}
UTF = {"name": "utf", "kmodel": "utf", "timeout": 7200}
BWTS = {"name": "bwts", "kmodel": "bwts", "timeout": 7200}
IMAGEGEN2 = {"name": "imagegen2", "kmodel": "imagegen2", "timeout": 7200}
EXE = {"name": "exe", "kmodel": "exe", "timeout": 7200}
BWT = {"name": "bwt", "kmodel": "bwt", "timeout": 7200}
ROLZ = {"name": "rolz", "kmodel": "rolz", "timeout": 7200}
TEXT = {"name": "text", "kmodel": "text", "timeout": 7200}
IMAGEGEN3 = {"name": "imagegen3", "kmodel": "imagegen3", "timeout": 7200}
LZP = {"name": "lzp", "kmodel": "lzp", "timeout": 3600}
FSD = {"name": "fsd", "kmodel": "fsd", "timeout": 3600}
SRT = {"name": "srt", "kmodel": "srt", "timeout": 3600}
CMPRED = {"name": "cmpred", "kmodel": "cmpred", "timeout": 3600}
MNONE = "Kanzi.Properties.C01_none"
MJOBS = "Kanzi.Properties.C05_jobs"
JOBS_T = ["C05_jobs_partition", "C05_jobs_fewer", "C05_jobs_closed_form", "C05_jobs_errors", "C05_bwt_chunks_covered_gen", "C05_bwt_chunks_covered"]

MCT = "Kanzi.Properties.ConstsTie"
MBO = "Kanzi.Properties.BitOpsTie"
C07_ALL = ["C07_enc_mutex", "C07_dec_mutex", "C07_enc_ordered", "C07_dec_ordered", "C07_enc_progress", "C07_dec_progress",
           "C07_enc_measure_mono", "C07_dec_measure_mono", "C07_enc_measure_init", "C07_dec_measure_init",
           "C07_enc_cancel_stable", "C07_dec_cancel_stable", "C07_enc_crit_failure_blocks", "C07_dec_crit_failure_blocks",
           "C07_failure_reported", "C07_first_failure", "C04_schedule_independent", "C05_schedule_independent", "C07_runTrace_sound"]

BASE_NOTE = "Trusted: Lean 4.33.0 kernel (axioms propext, Classical.choice, Quot.sound only; audited with #print axioms on every run; no sorry/native_decide/bv_decide); the hand-written models, tied to /repo on every run by the differential streams named in the evidence (generator-bounded); Go toolchain and Lean compiler for the driver. "

PROPS = {}

PROPS["C01"] = {
    "title": "Lossless round trip through the stream API", "design_ref": "5.1", "level": "proof",
    "technique": "Lean 4 theorems: writer emits chunks(B,data) for every partition/jobs/hint, container frames parse back, reader returns their concatenation for every jobs/hint/read sizes (composition = round trip under H_codec); transform-sequence skip-flag round trip; NONE codec proved; real-code round-trip search over all codecs",
    "facts": ["Consts", "BitOps"],
    "theorems": T(M01, "C01_roundtrip", "C01_empty_stream") + T(W, "C04_writer_blocks") + T(R, "C05_reader_refines_spec") + T(K, "C10_stream_layout")
                + T(M13, "C13_sequence", "C13_sequence_mode_byte", "C13_sequence_small") + T(M12, "C12_none")
                + T(MJOBS, "C05_bwt_chunks_covered", "C05_jobs_partition")
                + T(MNONE, "C01_codec_NONE", "C01_codec_NONE_task", "C01_codec_NONE_bits", "C01_stream_image_layers", "C01_stream_image_parses", "C01_stream_image_fast", "C01_none_end_to_end")
                + T("Kanzi.Properties.C01_blockgen", "C01_block_roundtrip", "C01_laws_spelled_out", "C01_encode_errors", "C01_codec_small_none", "C01_codec_small_ans0", "C01_small_transforms", "C01_codec_of_header",
                    "C01_small_dst_independent", "C01_gen_none_encode", "C01_gen_none_decode", "C01_gen_none_image", "C01_stream_image_gen", "C01_stream_image_small_none", "C01_ans0_block_size",
                    "C01_stream_image_small_ans0", "C01_stream_image_gen_fast", "C01_gen_end_to_end", "C01_gen_end_to_end_ans0")
                + T("Kanzi.Properties.C01_blockgen", "C01_stream_image_small_ans0_partial", "C01_gen_end_to_end_ans0_partial", partial=True)
                + T("Kanzi.Properties.C01_blockgen2", "C01_grow_spelled_out", "C01_chain_fits_nonexpanding", "C01_chain_fits_srt", "C01_codec_chain", "C01_codec_chain_nonexpanding", "C01_codec_chain_ent",
                    "C01_chain_components", "C01_chain_no_fault", "C01_codec_of_header2", "C01_level0", "C01_level1", "C01_level2", "C01_levels_modelled", "C01_levels_out_of_reach", "C01_chain_expansion_limit",
                    "C01_stream_image_chain_none")
                + T("Kanzi.Properties.C01_blockgen2", "C01_codec_chain_fpaq_partial", "C01_codec_chain_cm_partial", "C01_stream_image_chain_partial", partial=True)
                + T("Kanzi.Properties.C01_blockgen3", "C01_textLaw_spelled_out", "C01_codec_chain3", "C01_codec_chain3_no_text", "C01_codec_chain3_none", "C01_chain3_extends", "C01_codec_chain3_ent",
                    "C01_tpaqFits_spelled_out", "C01_chain3_components", "C01_chain3_components_concrete", "C01_grow3_spelled_out", "C01_chain3_adapters", "C01_chain3_no_fault",
                    "C01_chain3_encoder_jobs_independent", "C01_codec_chain3_jobs", "C01_chain3_size_limits", "C01_codec_of_header3", "C01_level3", "C01_level4", "C01_level5",
                    "C01_levels_all_modelled", "C01_newSeq3_extends", "C01_stream_image_chain3_none")
                + T("Kanzi.Properties.C01_blockgen3", "C01_codec_chain3_fpaq_partial", "C01_codec_chain3_cm_partial", "C01_codec_chain3_tpaq_partial", "C01_level6_partial", "C01_level7_partial",
                    "C01_level8_partial", "C01_level9_partial", "C01_stream_image_chain3_partial", partial=True)
                + T("Kanzi.Properties.C01_text_inst", "textLaw_text", "C01_level3_closed", "C01_level4_closed", "C01_level5_closed")
                + T(MCT, "io_consts", "kanzi_consts", "consts_nonvacuous") + T(MBO, "writeHeader_layout", "readHeader_layout", "frame_layout", "block_prologue_layout"),
    "streams": [SW, SR, JOBS, IMAGE, IMAGEGEN, IMAGEGEN2, IMAGEGEN3, RT, RTBIG],
    "level_text": "PROOF of the stream layer under assumption H_codec, plus search. Proved for all data, all partitions into Write calls, all job counts on both sides, all size-hint values, all read sizes: Write/Close succeed, the blocks are chunks(B,data), the framed stream parses back to them, and the reader returns exactly data then end-of-stream (C01_roundtrip = C04_writer_blocks + C10_stream_layout + C05_reader_refines_spec); the transform sequence with any pattern of declined stages and both skip-flag layouts round-trips (C13_sequence*); NONE entropy proved (C12_none); for the NONE/NONE codec H_codec is PROVED incl. the copy-block branch and the three checksum widths (C01_codec_NONE) and the whole chain is closed at the byte level: the bytes the Writer model emits, for any partition/jobs/hint, parse back through header, framing and block decode to the data (C01_none_end_to_end), and that byte image is byte-identical to the real Writer's output (image stream). The per-block codec is now modelled GENERICALLY (Model.BlockGen: copy-block branch, the skipBlocks entropy test with the real magic-number and first-order-entropy code, mode byte, skip flags in the nibble or the extra byte, length field, checksum, entropy coder, inverse sequence): C01_block_roundtrip reduces H_codec to per-stage and per-entropy-codec laws, and it is discharged with NO remaining hypothesis for every chain of up to 8 transforms over NONE/ZRLT/MTFT/RANK with entropy NONE or ANS0 (C01_codec_small_none, C01_codec_small_ans0, C01_codec_of_header), up to the byte image of the whole stream (C01_gen_end_to_end, C01_gen_end_to_end_ans0 for block sizes <= 128 KiB; above that PARTIAL under the decidable hypothesis that the ANS0 payload fits the reader's frame bound); the imagegen stream compares that image byte for byte with the real Writer and the real Reader's verdict on damaged images. Second instantiation (Model.BlockGen2, data-type hint threaded through the chain as the real ctx does, the task's output-buffer length threaded per task): H_codec is a THEOREM for every chain of up to 8 stages over {NONE, ZRLT, MTFT, RANK, RLT, SRT, PACK, DNA, LZ, LZX, LZP, MM} with entropy {NONE, ANS0, ANS1, RANGE, HUFFMAN} (C01_codec_chain), hypothesis-free for chains without SRT and MM (C01_codec_chain_nonexpanding) and otherwise under the decidable side condition ChainFits = 'the stages cannot expand the block beyond the decoder's bound' - which is exactly the known finding F43 (C01_chain_expansion_limit proves the failing configuration); the CLI levels 0, 1, 2 are hypothesis-free corollaries tied to the regenerated level table (C01_level0/1/2, C01_levels_modelled); FPAQ / CM conditional on fits2; the imagegen2 stream reproduces the real Writer's bytes for whole streams over all these configurations (it exposed F44: RLT made the stream depend on the job count). Third instantiation (Model.BlockGen3): ALL NINETEEN transforms - UTF, EXE, ROLZ, ROLZX, BWT and BWTS (forward = the specification of the suffix sort, tied to DivSufSort by the bwt / bwts / imagegen3 streams, not proved) and TEXT (first as an abstract implementation under the law TextLaw, then instantiated with the proved TEXT model: textLaw_text) - so C01_codec_chain3 makes H_codec a THEOREM for every chain of up to 8 transforms with entropy NONE / ANS0 / ANS1 / RANGE / HUFFMAN (with TEXT in the chain the only residual condition is the Reader's frame bound of 2^34 payload bits, proved for entropy NONE), FPAQ / CM / TPAQ / TPAQX conditional on the decoder's chunk acceptance test fits2; every CLI level is a named corollary tied to the regenerated level table: levels 0, 1, 2, 4 hypothesis-free (C01_level4_closed), 3 and 5 up to the frame bound (C01_level3_closed, C01_level5_closed), 6-9 PARTIAL under fits2 (C01_level6..9_partial); imagegen3 reproduces the real Writer's bytes for whole streams over the new transforms (small blocks for the spec suffix sort). NOTHING is left assumed at the level of H_codec except: real DivSufSort = spec (stream-tied) and fits2 for the four adaptive binary codecs: decode(encode(block)) = block - searched on the real code (rt/rtbig: every transform and entropy, chains up to 8, all data shapes, block sizes, jobs, hints, headerless).",
    "level_note": BASE_NOTE + "H_codec for 17 transforms and 8 entropy codecs is an assumption covered only by the rt/rtbig search; buffer-size sufficiency of the decoder for chained expanding transforms is searched, not proved.",
    "assumptions": ["the real suffix sort (DivSufSort) computes the suffix array of the block (specification of BWT/BWTS forward; tied by the bwt, bwts and imagegen3 streams)", "fits2: no chunk of an adaptive binary codec (FPAQ, CM, TPAQ, TPAQX) doubles in size - the decoder's own acceptance test; maximum reached by adversarial search: 1.35x"],
}

PROPS["C02"] = {
    "title": "Checksummed streams never yield wrong bytes", "design_ref": "5.2", "level": "proof",
    "technique": "Lean 4 theorems on the reader state machine (nothing after an error; every returned byte precedes the failed block) + executable XXHash32/64 and header-CRC models tied differentially; payload-corruption search on real streams",
    "facts": ["Consts", "BitOps"],
    "theorems": T(R, "C02_nothing_after_error", "C05_error_position") + T(M02H, "C02_hash_total", "C02_hash_stripes", "C02_hash_xxh32_vectors") + T(M10H, "C10_header_crc_detects_single_field")
                + T(MNONE, "C02_crc_mismatch_detected", "C02_crc_field_checked", "C02_damaged_payload_shape") + T(MCT, "hash_consts", "io_crc_seed", "kanzi_consts") + T(MBO, "block_prologue_layout"),
    "streams": [SR, HASH, IMAGE, CORRUPT],
    "level_text": "PROOF of the mechanism, hash quality out of scope. Proved on the reader model for every stream, job count and read-size sequence: a block whose decode/verification fails is reported by the Read that reaches it, every byte ever returned lies before it, and no later Read returns any byte (C05_error_position, C02_nothing_after_error). For the NONE/NONE block decoder: a payload whose data bytes or checksum field were replaced is rejected with a CRC error whenever the two hashes differ (C02_crc_mismatch_detected, C02_crc_field_checked). The XXHash32/64 functions and the header checksum are modelled bit-exactly (BitVec) and tied to the Go code differentially (hash stream). That a modified payload makes the recomputed hash differ is NOT provable for a 32/64-bit hash (collisions exist): searched - bit flips / substitutions / swaps at payload positions computed by an independent container parser, all entropy codecs, checksum 32/64; results must be error or original; true collisions are recognised and logged.",
    "level_note": BASE_NOTE + "Collision resistance of XXHash is not assumed and not proved; the per-codec decode of corrupted payloads is real code only.",
    "assumptions": ["a corrupted block either fails to decode or decodes to bytes whose hash differs from the stored one, except for hash collisions (probability 2^-32 / 2^-64 per trial)"],
}

ANS_THMS = ["C03_ans_params", "C03_ans_inv_fresh", "C03_ans_terminates", "C03_ans_loop_bound", "C03_ans_table_sum", "C03_ans_no_fault", "C03_ans_alloc_bound", "C03_ans_alloc_bound_fresh", "C03_ans_total", "C03_ans_inv_kept", "C03_ans_buf_kept", "C03_ans0_agrees", "C03_ans1_agrees", "C03_ans0_header_agrees", "C03_ans0_loop_agrees", "C03_ans_overrun_iff", "C03_ans_alloc_bound_any", "C03_ans_v1_alloc_bound", "C03_ans_v1_renorm_fuel"]

PROPS["C03"] = {
    "title": "Decoder is total: arbitrary input never crashes or hangs the process", "design_ref": "5.3", "level": "proof",
    "technique": "PARTIAL Lean proof: recover discipline decided over a fact base regenerated from /repo on every run + protocol termination theorems for every N + totality/termination/allocation-bound theorems for the modelled decoders on arbitrary input (differential correspondence on forged input); remaining codec internals searched by structure-aware mutation in child processes",
    "facts": ["GoSites", "Consts", "BitOps", "Allocs"],
    "theorems": T(M03F, "C03_every_panic_site_recovered", "C03_facts_nonvacuous")
                + T(M07, "C07_dec_progress", "C07_dec_measure_mono", "C07_dec_measure_init", "C07_dec_cancel_stable")
                + T("Kanzi.Properties.C03_bound", "C03_frame_bound", "C03_frame_bound_linear") + T(MJOBS, "C05_bwt_chunks_covered") + T(MCT, "io_consts")
                + T("Kanzi.Properties.C13_bwt", "C13_bwt_total", "C13_bwt_total_biPSI", "C13_bwt_total_mergeTPSI")
                + T("Kanzi.Properties.C13_rlt", "C13_rlt_total") + T("Kanzi.Properties.C13_fsd", "C13_fsd_total") + T("Kanzi.Properties.C13_exe", "C13_exe_total")
                + T("Kanzi.Properties.C13_bwts", "C13_bwts_total") + T("Kanzi.Properties.C12_huffman", "C12_huf_decoder_machine")
                + T("Kanzi.Properties.C03_rangebin", "C03_range_renorm_bounded", "C03_range_classes", "C03_range_terminates", "C03_range_alloc_bound", "C03_range_header_no_fault", "C03_range_fault_site", "C03_range_fault_reachable", "C03_range_stale_f2s", "C03_range_agrees", "C03_range_roundtrip", "C03_binary_interval_total", "C03_binary_no_fault_if", "C03_binary_fault_reachable", "C03_binary_terminates", "C03_binary_alloc_bound", "C03_binary_alloc_bound_real", "C03_binary_agrees", "C03_fpaq_interval_total", "C03_fpaq_no_fault_if", "C03_fpaq_terminates", "C03_fpaq_alloc_bound", "C03_fpaq_models_safe", "C03_fpaq_v1_refill_once", "C03_fpaq_agrees")
                + T(MBO, "decoder_layouts", "bitops_nonvacuous") + T("Kanzi.Properties.AllocsTie", "decoder_side_functions", "ans_decoder_allocs", "ans_model_rules", "range_binary_decoder_allocs", "huffman_decoder_allocs", "reader_allocs", "inverse_transform_allocs", "allocs_nonvacuous") + T(MCT, "entropy_consts", "range_consts") + T("Kanzi.Properties.C03_ans", *ANS_THMS) + T("Kanzi.Properties.C03_huffman_agree", "C03_huf_agrees", "C03_huf_agrees_decode", "C03_huf_agrees_twice", "C03_huf_chunk_agrees", "C03_huf_substream_walk") + T("Kanzi.Properties.C03_rolz_link", "C03_rolz_ans_fuel", "C03_rolz_ans_loop_fuel", "C03_rolz_ans_reads_terminate", "C03_rolz_terminates", "C03_rolz_ans_link_partial", "C03_rolz_ans_stale_witness") + T("Kanzi.Properties.C03_rolz", "C03_rolzx_terminates", "C03_rolzx_refill_once", "C03_rolzx_fault_classes", "C03_rolzx_short_input", "C03_rolzx_alloc_bound", "C03_rolzx_output_bound", "C03_rolzx_agree", "C03_rolz_terminates_partial", "C03_rolz_fault_classes", "C03_rolz_forged_length", "C03_rolz_alloc_bound", "C03_rolz_ans_alloc", "C03_rolz_output_bound", "C03_rolz_agree") + T("Kanzi.Properties.C03_text", "C03_text1_total", "C03_text2_total", "C03_text_iterations", "C03_text_step", "C03_text_trace", "C03_text1_alloc_bound", "C03_text2_alloc_bound", "C03_text1_panic_iff", "C03_text1_readidx_panic_iff", "C03_text2_readidx", "C03_text2_readidx_panic_iff", "C03_text_reuse_total", "C03_text_reuse_sizes", "C03_text1_agrees", "C03_text2_agrees") + T("Kanzi.Properties.C03_huffman", "C03_huf_params", "C03_huf_terminates", "C03_huf_v6_alloc", "C03_huf_v5_alloc_bound", "C03_huf_alloc_bound", "C03_huf_v5_alloc_rule", "C03_huf_v5_forged_size_rejected", "C03_huf_v6_no_fault", "C03_huf_fault_only_v5", "C03_huf_header_no_fault", "C03_huf_table_no_fault", "C03_huf_table_entries", "C03_huf_v6_readstate_safe", "C03_huf_v5_fault_example", "C03_huf_header_agrees", "C03_huf_table_agrees") + T("Kanzi.Properties.C03_ans_ex", "C03_ans_v1_forged_size_rejected", "C03_ans_v1_forged_size_no_alloc", "C03_ans_overrun_example"),
    "streams": [IMAGE, JOBS, SR, FUZZDEC, DECFORGE, ANSDEC, HUFDEC, TEXTDEC, ROLZDEC],
    "level_text": "PARTIAL PROOF. Proved: (1) every `go` statement of the library spawns a function with a deferred recover and the caller-goroutine entry points recover (theorem by `decide` over Generated/GoSites.lean, re-extracted from /repo's AST on every run, so a new unrecovered goroutine breaks the proof); (2) the decode hand-off protocol has no deadlock or endless wait for any number of tasks and any failure placement (C07_dec_progress etc.); (3) a task never allocates for or reads a frame longer than a bound that depends on the block size only (C03_frame_bound over the frame parser that the image stream compares with the real Reader on damaged and cut streams). (4) several decoders are proved TOTAL on arbitrary (attacker-controlled) input: RLT, MM, EXE and BWTS Inverse never index out of range, BWTBlockCodec.Inverse returns a block or an error on any input (C13_*_total), the Huffman table decoder stays inside its buffer on corrupted payloads (C12_huf_decoder_machine); for SRT, LZ, LZP, PACK/DNA and UTF the exact malformed inputs on which Inverse faults are theorems (recovered by the task). (5) the entropy decoders RANGE, BINARY (CM/TPAQ/TPAQX), FPAQ and ANS order 0/1 are modelled on ARBITRARY bit strings from arbitrary prior object states: every loop is bounded (C03_range_terminates, C03_binary_terminates, C03_fpaq_terminates, C03_ans_terminates), every allocation is bounded by the declared sizes on every path (C03_*_alloc_bound; the ANS version-1 bound only holds since fix a7dd04c = F47), the reachable panics are exactly named (C03_range_fault_site, C03_binary_no_fault_if, C03_ans_no_fault, C03_ans_overrun_iff) and recovered by the task; streams decforge / ansdec compare class and buffer capacities with the real decoders on forged input. Huffman decoder likewise (C03_huf_terminates, C03_huf_alloc_bound, C03_huf_v6_no_fault: the version-6 decoder never faults on any input; the legacy version-5 bound only holds since fix 97146d4 = F48; stream hufdec). TEXT Inverse (both delegates, fresh or reused codec object) is total on every input: outcome classes, at most len(src) iterations, dictionary bounded by what the source length pays for, exact panic conditions (C03_text1_total, C03_text2_total, C03_text_iterations, C03_text*_alloc_bound, C03_text*_panic_iff; stream textdec). ROLZX Inverse: terminates on every input, faults only in three named index classes, allocates nothing sized from the stream (C03_rolzx_*); ROLZ Inverse: chunk / main / registration loops terminate, nine named fault classes, forged sub-stream lengths rejected before any decoder is created, allocation <= 2*len(dst) + 65536*2^lpc (C03_rolz_*, C03_rolz_terminates: the fuel the model gives its ANS calls is never binding - C03_rolz_ans_fuel - and AnsDec.read terminates with exactly the parameters ROLZ uses - C03_rolz_ans_reads_terminate; the two ANS models agree decoder-to-decoder on the raw path only, C03_rolz_ans_link_partial, and provably DIFFER in the decoded bytes when a forged sub-stream reads bytes a previous Read left in the shared decoder object, C03_rolz_ans_stale_witness: a limit of the rolz slice's model, so the rolzdec stream compares class, length and table sizes but not bytes for forged ROLZ input); stream rolzdec. What is still only searched: the CM/TPAQ predictors' Update on forged bits beyond Pred.Safe, DivSufSort (encoder side only) (fuzzdec: structure-aware mutations - re-checksummed headers, forged lengths, forged codec headers, splices, truncations - decoded in child processes with a watchdog).",
    "level_note": BASE_NOTE + "The syntactic fact extractor harness/cmd/kv/facts_ast.go (go/parser; one level of callee resolution; self-tested). Codec internals are outside the model.",
    "assumptions": ["a deferred recover at the top of every spawned function converts every panic of that goroutine into a task error", "the ANS sub-decoders inside ROLZ Inverse terminate (proved for the stand-alone ANS model, linked by the rolzdec stream only)"],
}

PROPS["C04"] = {
    "title": "Compressed output is a pure function of data and parameters", "design_ref": "5.4", "level": "proof",
    "technique": "Lean 4 theorems: block sequence independent of Write partition, jobs and hint (Writer model); every interleaving of N tasks appends blocks 1..N in order (protocol model, all N); differential correspondence + byte-identity search on the real code",
    "theorems": T(W, "C04_writer_blocks", "C04_partition_independent", "C04_jobs_independent")
                + T(M07, "C04_schedule_independent", "C07_enc_ordered", "C07_enc_mutex"),
    "streams": [SW, PROTO, DET],
    "level_text": "PROOF (buffering + protocol) under assumption H_pure. Proved for all data, all partitions into Write calls, all job counts and hints: the sequence of blocks handed to the shared stream is chunks(B,data) (C04_writer_blocks), and for every N and every interleaving the N tasks of a batch append their blocks in id order exactly once (C04_schedule_independent). ASSUMED, searched: the per-block encoder is a pure function of (block, parameters) (H_pure) - det stream: real outputs compared byte for byte across job counts 1..64, Write partitions and hook-perturbed schedules for all codecs, including mixed content with more blocks than jobs.",
    "level_note": BASE_NOTE + "H_pure (no state carried between blocks, `jobs` ignored by encoders) is an assumption backed by the global-state fact base (C18) and the byte-identity search.",
    "assumptions": ["H_pure: per-block encoding depends only on block bytes and (transform, entropy, block size, checksum, bsVersion)"],
}

PROPS["C05"] = {
    "title": "Decoded output is independent of parallelism and preserves block order", "design_ref": "5.5", "level": "proof",
    "technique": "Lean 4 refinement theorem Reader model -> cursor over the concatenated blocks for all jobs/hints/read sizes; protocol theorems for every N; differential correspondence incl. failing blocks",
    "theorems": T(R, "C05_reader_refines_spec", "C05_error_position", "C02_nothing_after_error")
                + T(M07, "C05_schedule_independent", "C07_dec_ordered", "C07_dec_mutex", "C07_dec_cancel_stable")
                + T(MJOBS, *JOBS_T),
    "streams": [SR, PROTO, JOBS],
    "level_text": "PROOF. For every well-formed stream, every decoder job count, every size hint and every sequence of Read sizes the reader model returns exactly the next bytes of the concatenation of the blocks in stream order, each once (refinement to a cursor, C05_reader_refines_spec); when a block fails, every byte ever returned lies before it and nothing is returned after the error (C05_error_position, C02_nothing_after_error); every interleaving of the decode tasks reads frame k by task k only (C05_schedule_independent, all N); the split of jobs among block tasks and of the 8 inverse-BWT chunks among goroutines is a partition for every job count (C05_jobs_partition, C05_bwt_chunks_covered; model of internal.ComputeJobsPerTask tied exhaustively for jobs,tasks <= 70 through a verif-tagged export). Tie: streams built by an independent container builder, read by the real Reader (jobs 1..64, wrong hints, short source reads, failing/oversize/truncated frames), compared call by call; hook traces of real batches replayed through the protocol model.",
    "level_note": BASE_NOTE + "Codec decode is abstracted to 'frame decodes to block / fails in or after the critical section'.",
    "assumptions": ["H_codec for the blocks (decode of an encoded block returns the block)"],
}

PROPS["C06"] = {
    "title": "Transparent to I/O granularity on both sides", "design_ref": "5.6", "level": "proof",
    "technique": "Lean 4 refinement of the input bitstream model to a chunking-free bit string (any two chunkings, any buffer sizes); Reader refinement for all read sizes; Writer partition independence; short-read search on real streams",
    "theorems": T(M06I, "C06_source_chunking", "C06_source_chunking_full", "C06_refill_alignment") + T(M14I, "C14_ibs_readBits", "C14_ibs_readArray")
                + T(R, "C05_reader_refines_spec") + T(W, "C04_partition_independent"),
    "streams": [IBS, SR, SW, SHORTREAD],
    "level_text": "PROOF. Source side: for any two chunkings of the same bytes (any sizes incl. 1 and non-multiples of 8, any buffer sizes) every program of ReadBit/ReadBits/ReadArray yields identical values, counters and errors (C06_source_chunking; after a panic for programs without ReadArray: C06_source_chunking_full) - by refinement of the input bitstream model to a bit string that does not contain the chunking. Read side: the bytes returned depend only on the sum of earlier request sizes (C05_reader_refines_spec, all size sequences incl. 0). Write side: C04_partition_independent. Sink side: whole-buffer writes; short writes without error are excluded by the io.Writer contract. Search: real streams of every entropy codec decoded through readers delivering 1,7,8,13,... byte and adversarial odd-then-multiple-of-8 pieces.",
    "level_note": BASE_NOTE + "ReadArray after an earlier panic on the same stream is outside C06_source_chunking (the stream layer never reuses a bitstream after a panic).",
    "assumptions": ["io.Reader contract: (0, nil) reads make no progress and are reported (io.ErrNoProgress)", "io.Writer contract: no short write without error"],
}

PROPS["C07"] = {
    "title": "Block hand-off protocol: exclusive, ordered, and always terminating", "design_ref": "5.7", "level": "proof",
    "technique": "Lean 4 invariant proofs for every N and every interleaving over a step-function model of the atomic-counter protocol; hook traces of the real code replayed through the same step functions",
    "facts": ["Consts"],
    "theorems": T(M07, *C07_ALL) + T(MCT, "io_consts"),
    "streams": [PROTO, SR],
    "level_text": "PROOF for every number of tasks N and every reachable state (all interleavings, failure at any step): mutual exclusion on the shared stream, blocks appended/taken in id order exactly once, deadlock freedom with a measure bounded by 9N (every weakly fair run terminates), cancel value stable, a failure while holding the token blocks all later tasks, batch result = first failed task. Tie: the real encode/decode tasks run under the build-tag hook with perturbed schedules and injected failures; every recorded atomic action (with the counter value it observed) must be an enabled transition of encStep/decStep and the batch outcome must match; hangs are caught by a watchdog.",
    "level_note": BASE_NOTE + "The protocol model (atomic actions of encode/decode transcribed by hand) is tied by trace replay of hook-instrumented real runs: the hook serialises each atomic op between PRE/POST calls so the recorded order is the real order; Go memory model / sync.WaitGroup semantics are not modelled; 'stop promptly' is formalised as bounded own steps + stable cancel.",
    "assumptions": ["sync/atomic operations are sequentially consistent (Go memory model)", "WaitGroup.Wait returns only after every Done"],
}

PROPS["C08"] = {
    "title": "I/O failures are never swallowed", "design_ref": "5.8", "level": "proof",
    "technique": "Lean 4 theorems over the Writer model with arbitrary fault placement (closed => complete; error state sticky), over the bitstream models (source/sink errors surface as the failing operation's panic) + fault-annotated differential correspondence with sink-call failure plans",
    "theorems": T(W, "C08_closed_means_complete", "C08_failed_sticky_reachable", "C08_close_fault_reported") + T(W, "C08_failed_sticky", partial=True)
                + T(R, "C02_nothing_after_error") + T(R, "C09_no_eof_without_marker", partial=True)
                + T(M08I, "C08_ibs_error_surfaced", "C08_ibs_pending_bytes", "C08_ibs_deferred")
                + T(M08O, "C08_obs_no_silent_loss", "C08_obs_close_retry", "C08_obs_io_surfaces", "C08_obs_close_io", "C08_obs_run_no_swallow"),
    "streams": [SW, SR, IBS, OBS],
    "level_text": "PROOF (writer/reader state machines + input bitstream). For every program and every placement of sink faults: a writer that ends up closed has emitted every accepted byte in order plus the end marker (C08_closed_means_complete); after a failed block the writer is dead: every Write/Close returns an error (C08_failed_sticky_reachable); a sink error surfaces as the panic of the very bitstream operation whose flush failed, success of all ops + Close implies the sink holds the packed image for every failure plan, and a failed final flush can be retried (C08_obs_*); a source error is surfaced as the failing operation's error after the bytes delivered before it, never converted to end-of-stream (C08_ibs_*); a source that ends or fails before the end marker never yields io.EOF without a prior error (C09_no_eof_without_marker). Tie: the real Writer over a sink that fails its k-th Write (transient/permanent) or Close; where the failure lands (task / end marker / final flush / closer, batch index) is observed and the model must predict every return value; input bitstream with failing sources at every call index.",
    "level_note": BASE_NOTE + "C08_failed_sticky is PARTIAL as first stated (false on an unreachable state: failed && finalized); the reachable-state version is proved in full.",
    "assumptions": ["io.Writer contract: a short write returns an error"],
}

PROPS["C09"] = {
    "title": "Truncated streams are always detected", "design_ref": "5.9", "level": "proof",
    "technique": "Lean 4 theorems: bit-level prefix of a framed stream never parses to an end marker; reader model never reports EOF without having consumed the end marker; input bitstream raises end-of-stream instead of fabricating bits; truncation search on real streams",
    "facts": ["BitOps"],
    "theorems": T(K, "C09_prefix_truncated", "C10_stream_layout", "C10_frame_layout") + T(R, "C09_no_eof_without_marker", partial=True) + T(M14I, "C14_ibs_eos") + T(MBO, "endMarker_layout", "frame_layout"),
    "streams": [SR, IBS, TRUNC],
    "level_text": "PROOF. (1) Container: any strict bit prefix of frames++endmarker parses to a prefix of the payloads followed by `truncated`, never to an end marker (C09_prefix_truncated; a cut of whole bytes always drops a real bit since Close pads < 8 bits). (2) Input bitstream: asking for more bits than remain raises end-of-stream, never fabricated zero bits, in every read path incl. the unaligned bulk loops (C14_ibs_eos). (3) Reader: for ANY frame list without end marker no sequence of Reads returns io.EOF unless an error was returned before (C09_no_eof_without_marker; PARTIAL: under the hypothesis that no frame decodes to zero bytes without error - true of every frame a writer produces, since blocks are never empty; the unrestricted statement is false for the model and the counterexample is kept as theorem no_eof_without_marker_counterexample), with or without checksums. Search: every cut position of small real streams of every codec, boundary and random cuts of large ones.",
    "level_note": BASE_NOTE + "Truncation inside the header is reported by readHeader (real code, covered by the hash/trunc streams, header parse model C10_header_roundtrip).",
    "assumptions": [],
}

PROPS["C10"] = {
    "title": "Streams written by the reference encoder keep decoding (format stability)", "design_ref": "5.10", "level": "proof",
    "technique": "PARTIAL Lean proof: header and frame layout written by hand from the format and proved to round-trip; models tied to the current code differentially; cross-version differential against a vendored pinned reference + archived golden corpus",
    "facts": ["Consts", "BitOps"],
    "theorems": T(M10H, "C10_header_roundtrip", "C10_header_writer_wf", "C10_header_length", "C10_header_crc_detects_single_field") + T(K, "C10_frame_layout", "C10_end_marker", "C10_stream_layout") + T(MCT, "io_consts", "io_crc_seed", "hash_consts", "entropy_type_codes", "transform_consts", "consts_nonvacuous") + T(MBO, "headerBits_length", "writeHeader_layout", "readHeader_layout", "endMarker_layout", "frame_layout", "frameBits_length", "block_prologue_layout", "encodeNone_length", "entropy_layouts", "entropy_pairs_mirror", "bitops_nonvacuous"),
    "streams": [HASH, SR, GOLDEN],
    "level_text": "PARTIAL PROOF + cross-version differential. Proved: the version-6 header layout (constants written by hand from the format) and the frame layout parse back exactly (C10_header_roundtrip, C10_frame_layout, C10_stream_layout); these make the Lean/Go container builders independent encoders whose NONE/NONE streams the current Reader must decode (sr stream), so a symmetric change of header layout, CRC, hash or length coding is detected. NOT modelled: codec bit formats other than NONE: covered by decoding streams produced by the vendored pinned reference (never edited) and an archived golden corpus with SHA-256 of the originals.",
    "level_note": BASE_NOTE + "The vendored reference snapshot ref/kanzi-go-v2 (pinned commit 76efab5) and the golden corpus are trusted as the definition of format 6.",
    "assumptions": [],
}

PROPS["C11"] = {
    "title": "Block-range decoding returns exactly the requested slice", "design_ref": "5.11", "level": "proof",
    "technique": "Lean 4 refinement theorem with arbitrary from/to (all ranges, all job counts) + exhaustive-range differential correspondence",
    "theorems": T(R, "C05_reader_refines_spec", "C11_skipped_not_decoded") + T(W, "C04_writer_blocks"),
    "streams": [SR],
    "level_text": "PROOF. C05_reader_refines_spec is stated with arbitrary optional from/to: the bytes returned are exactly the concatenation of blocks from..to-1 (empty ranges and ranges beyond the last block included, all-skipped batches repeated until data or end marker), for every job count and read-size sequence; C11_skipped_not_decoded: only ids in range are ever handed to the codec; block k covers bytes (k-1)B..kB-1 because the writer emits chunks(B,data) (C04_writer_blocks). Tie: exhaustive (from,to) over streams of 1..12 blocks x jobs 1..8 on the real Reader, decoded ids observed through the public listener API.",
    "level_note": BASE_NOTE,
    "assumptions": ["valid stream"],
}

PROPS["C12"] = {
    "title": "Entropy codecs: exact inverse pairs with bit-exact consumption", "design_ref": "5.12", "level": "proof",
    "technique": "PARTIAL Lean proof: varint, alphabet, NONE codec, frequency headers, ALL NINE entropy codecs modelled: NONE, HUFFMAN, ANS0, ANS1, RANGE proved as inverse pairs with no hypothesis; FPAQ, CM, TPAQ, TPAQX proved (generic binary coder + predictor models) under the decoder's own chunk-size acceptance test; with exact consumption on bit strings, models tied byte-exactly to the Go encoders; all 9 codecs searched directly on the real code",
    "facts": ["Consts", "BitOps"],
    "theorems": T(M12, "C12_varint", "C12_alphabet", "C12_none", "C12_freq_header", "C12_freq_header_needs_sum", "C12_freq_header_after_normalize", "C12_ans_reciprocal", "C12_ans_encode_closed_form", "C12_ans_step")
                + T(M16, "C16_normalize")
                + T("Kanzi.Properties.C12_ans0", "C12_ans0_single_state", "C12_ans0_interleaved", "C12_ans0_payload_le", "C12_ans0_chunk", "C12_ans0_chunk_sz", "C12_ans0_one_chunk", "C12_ans0_block")
                + T("Kanzi.Properties.C12_range", "C12_range_init", "C12_range_renorm", "C12_range_renorm_model", "C12_range_step", "C12_range_tables", "C12_range_payload", "C12_range_chunk", "C12_range_one_chunk", "C12_range_chunk_lr", "C12_range_block")
                + T("Kanzi.Properties.C12_ans1", "C12_ans1_params", "C12_ans1_header", "C12_ans1_header_exact", "C12_ans1_single_state", "C12_ans1_interleaved", "C12_ans1_payload_le", "C12_ans1_chunk", "C12_ans1_chunk_sz", "C12_ans1_one_chunk", "C12_ans1_block", "C12_ans1_block_ctor")
                + T("Kanzi.Properties.C12_cm", "C12_cm_init", "C12_cm_new", "C12_cm_step", "C12_cm_get_range", "C12_cm_get_rangeZ", "C12_cm_no_fault", "C12_cm_int32", "C12_cm_int32_go", "C12_cm_run", "C12_cm_consts", "C12_cm_pred_safe")
                + T("Kanzi.Properties.C12_binary", "C12_binary_bits", "C12_binary_bits_number", "C12_binary_code_value_in_interval", "C12_binary_encode_total", "C12_binary_block", "C12_binary_reject", "C12_binary_block_real",
                    "C12_binary_fits2_single", "C12_binary_block_states", "C12_binary_empty_mismatch", "C12_binary_flushed_le", "C12_binary_encode_single", "C12_binary_estimate_exceeded_adversarial", "C12_binary_expansion_limit")
                + T("Kanzi.Properties.C12_fpaq", "C12_fpaq_model_safe", "C12_fpaq_encode_total", "C12_fpaq_block", "C12_fpaq_reject", "C12_fpaq_block_real", "C12_fpaq_fits2_single", "C12_fpaq_empty_mismatch")
                + T("Kanzi.Properties.C12_cm_codec", "C12_cm_codec_safe", "C12_cm_encode_total", "C12_cm_block", "C12_cm_reject", "C12_cm_block_states")
                + T("Kanzi.Properties.C12_tpaq", "C12_tpaq_init", "C12_tpaq_init_sizes", "C12_tpaq_new", "C12_tpaq_step", "C12_tpaq_get_range", "C12_tpaq_get_rangeZ", "C12_tpaq_final_pr", "C12_tpaq_no_fault",
                    "C12_tpaq_no_fault_squash", "C12_tpaq_apm", "C12_tpaq_run", "C12_tpaq_pred_safe", "C12_tpaq_consts", "C12_tpaq_tables")
                + T("Kanzi.Properties.C12_tpaq_codec", "C12_tpaq_codec_safe", "C12_tpaq_encode_total", "C12_tpaq_block", "C12_tpaq_reject")
                + T("Kanzi.Properties.C12_huffman", "C12_huf_inplace_kraft", "C12_huf_fast_limit", "C12_huf_lengths_kraft", "C12_huf_canonical_prefix_free", "C12_huf_encoder_codes", "C12_huf_expgolomb", "C12_huf_header",
                    "C12_huf_header_of_histogram", "C12_huf_symbols", "C12_huf_encoder_machine", "C12_huf_decoder_machine", "C12_huf_chunk", "C12_huf_block") + T(MCT, "entropy_consts", "range_consts", "consts_nonvacuous") + T(MBO, "entropy_layouts", "entropy_pairs_mirror"),
    "streams": [ENTSMALL, RANGE, ANS1, HUFFMAN, CMPRED, TPAQPRED, BINENT, FPAQ, ENTDIRECT],
    "level_text": "PARTIAL PROOF. Proved in Lean, each as `decode (encode x ++ rest) = (x, rest)` for every trailing bit string (exact consumption): VarInt, alphabet (all three encodings), the NONE codec for every length incl. 0 and > 2^23, the ANS order-0 and Range frequency headers (correct iff the table sums to 2^lr - which C16_normalize guarantees: C12_freq_header_after_normalize), one rANS step incl. the reciprocal-multiply division for every frequency and state. The whole ANS order-0 codec is proved: one state over any symbol list, the 4 interleaved states sharing one word stream, header + chunk, and the complete block Write/Read with per-chunk normalised tables (C12_ans0_block: for all bytes, lr in [8,15], chunk size < 2^26, decode(encode blk ++ rest) = (blk, rest)); the same model is tied differentially (byte-identical output on thousands of blocks). The whole order-0 RANGE codec is proved too: the carry-less renormalisation loop leaves after at most 2 shifts with range > 0xFFFF (C12_range_renorm), one encodeByte/decodeByte pair keeps both sides' registers equal with the decoder's code inside [low, low+range) and exact consumption (C12_range_step), and Write+Dispose followed by any bits then Read returns the block and leaves those bits, for every length incl. 0, every chunk size and logRange 8..15 (C12_range_block); tied byte-exactly by the range stream incl. searched blocks that take the rare truncation / double-shift branches. The whole ANS order-1 codec is proved as well (256-context header with stale-table threading, one state over a quarter, the 4 interleaved quarters, chunk of every length incl. 0..3, whole block through the constructor's parameter rules: C12_ans1_block_ctor), byte-exact ans1 stream. The CM predictor is modelled with its int32 arithmetic and proved to be a safe predictor: counters stay within [0,65520] (one column 65535), every Get() is in [0,4095] for both bitstream versions, no index fault, no int32 wrap (C12_cm_*; C12_cm_pred_safe is the instance hypothesis of the generic binary-coder theorem); cmpred stream compares every Get() value. The binary arithmetic coder (BinaryEntropyCodec.go: engine of CM, TPAQ, TPAQX) is modelled with its exact 64-bit arithmetic and proved for EVERY predictor given as a deterministic state machine with Get() in [0,4095]: the encoder never fails (it grows its buffer: fixes F36), the code value stays in [low, high] (C12_binary_code_value_in_interval), and Write+Dispose followed by any bits then Read returns the block with exact consumption and equal predictor states, for every non-empty block, single or multi chunk (C12_binary_block*), under the explicit decidable hypothesis fits2 = 'every chunk flushes fewer than twice its length', which is proved to be EXACTLY the decoder's acceptance test (C12_binary_reject; a synthetic predictor violating it: C12_binary_expansion_limit); instantiated with the CM predictor model it gives the whole CM codec (C12_cm_block, either bitstream version). FPAQ (own probability model, 4 MiB chunks) is modelled and proved the same way (C12_fpaq_block under the decoder's size test). fits2 is NOT discharged for the real predictors (it needs a bound on total code length; the searched maximum expansion is 1.35x). binent / fpaq streams: exact bytes for table-driven predictors and for the real CM codec, oracle round trips with the real CM/TPAQ/TPAQX predictors incl. greedy and interval-straddling adversaries. The whole HUFFMAN codec (bitstream version 6) is proved: the in-place length computation satisfies Kraft's equality for every weight list, the fast length limiting and both fallbacks (renormalisation to 2048, last resort) always end with lengths in [1,12] and Kraft sum <= 1 (C12_huf_lengths_kraft, every histogram, every branch), canonical codes are prefix-free and the encoder's codes are exactly the ones the decoder rebuilds from the transmitted lengths in every branch (C12_huf_canonical_prefix_free, C12_huf_encoder_codes), the Exp-Golomb coded header round-trips, the 64-bit register machines of encoder and decoder equal the plain code concatenation / table walk (also on corrupted payloads), and Write then Read returns every block with exact consumption (C12_huf_block: all lengths, all distributions, 4 interleaved sub-streams); byte-exact huffman stream with every branch of updateFrequencies reached. NOT modelled: the encoders' finite output buffers of ANS/Huffman. The TPAQ / TPAQX predictor is modelled with REAL int32 wrap-around (mixer dot products, hashes), sparse tables of the real sizes, the SQUASH/STRETCH tables built by the same loops as init() and compared by hash with the real ones through a verif-tagged export: on every reachable state 1 <= Get() <= 4095 and no table index is out of range, for every constructor context with block size and size >= 1 (C12_tpaq_run, C12_tpaq_no_fault, C12_tpaq_pred_safe), hence the TPAQ and TPAQX codecs are instances of the binary-coder theorem too (C12_tpaq_block); tpaqpred stream compares every Get() value of the real predictor - searched directly on the real code (entdirect: all 9 codecs, lengths around every chunk boundary, 1..256 symbols, adversarial histograms, misaligned start, trailing sentinel, Read()==Written()).",
    "level_note": BASE_NOTE + "logRange restricted to [8,15] as used by the factory (16 is accepted by the public constructors but unusable: observation in DESIGN.md).",
    "assumptions": ["adaptive binary codecs run the identical predictor on both sides (searched)"],
}

PROPS["C13"] = {
    "title": "Transforms: exact inverse pairs, in bounds, clean decline", "design_ref": "5.13", "level": "proof",
    "technique": "Lean proof for all 19 transforms (PARTIAL only in that the suffix sort DivSufSort is represented by its specification): Null, ZRLT, SBRT (all modes), TEXT, RLT (incl. totality of Inverse on arbitrary input), SRT, PACK/DNA (alias codec), LZ/LZX, LZP, MM, UTF, EXE, ROLZ, ROLZX, BWT and BWTS (inverse algorithms against the spec of the suffix sort) and the transform sequence with skip flags proved as inverse pairs with output bounds; byte-identical differential tie; all 19 transforms searched directly with canaries",
    "facts": ["Consts"],
    "theorems": T(M13, "C13_null", "C13_zrlt", "C13_zrlt_bytes", "C13_zrlt_no_wrap", "C13_sbrt", "C13_sequence", "C13_sequence_plain", "C13_sequence_all_declined", "C13_sequence_mode_byte", "C13_sequence_len", "C13_sequence_small", "C13_sequence_dst")
                + T("Kanzi.Properties.C13_rlt", "C13_rlt", "C13_rlt_total", "C13_rlt_bytes", "C13_rlt_shorter")
                + T("Kanzi.Properties.C13_srt", "C13_srt_header", "C13_srt_header_sharp", "C13_srt_header_bound", "C13_srt", "C13_srt_len", "C13_srt_size_sharp", "C13_srt_total_forward", "C13_srt_bytes", "C13_srt_preprocess_perm", "C13_srt_preprocess_sorted", "C13_srt_inverse_faults_short", "C13_srt_inverse_faults_sum", "C13_srt_inverse_faults_freq")
                + T("Kanzi.Properties.C13_srt", "C13_srt_total_inverse_partial", partial=True)
                + T("Kanzi.Properties.C13_alias", "C13_alias", "C13_alias_total", "C13_alias_bytes", "C13_alias_shorter", "C13_alias_any_injective_map", "C13_alias_one_symbol_accepted", "C13_alias_consts")
                + T("Kanzi.Properties.C13_lz", "C13_lz_lengths", "C13_lz_lengths_wrap", "C13_lz_format", "C13_lz_forward_valid", "C13_lz", "C13_lz_bound", "C13_lz_total", "C13_lz_hash_fifth_byte")
                + T("Kanzi.Properties.C13_lz", "C13_lz_inverse_fuel_partial", partial=True)
                + T("Kanzi.Properties.C13_lz_consts", "lz_consts")
                + T("Kanzi.Properties.C13_utf", "C13_utf_pack", "C13_utf_sizes", "C13_utf", "C13_utf_shorter", "C13_utf_total", "C13_utf_fault_overlap", "C13_utf_bytes", "C13_utf_consts")
                + T("Kanzi.Properties.C13_bwts", "C13_bwts_lyndon", "C13_bwts_inverse", "C13_bwts_bijective", "C13_bwts_total", "C13_bwts_len", "C13_bwts_pure", "C13_bwts_matrix", "C13_bwts_lex", "C13_bwts_omega",
                    "C13_bwts_isLyndon", "C13_bwts_suffixArray", "C13_bwts_inverse_declines", "C13_bwts_forward_small")
                + T("Kanzi.Properties.C13_exe", "C13_exe_x86_jump", "C13_exe_x86", "C13_exe_arm_branch", "C13_exe_arm", "C13_exe", "C13_exe_total", "C13_exe_total_parts", "C13_exe_bytes", "C13_exe_ctx",
                    "C13_exe_consts", "C13_exe_max_encoded_len")
                + T("Kanzi.Properties.C13_bwt", "C13_bwt_chunks", "C13_bwt_header", "C13_bwt_header_width", "C13_bwt_header_reject", "C13_bwt_forward_fits", "C13_bwt_inverse_mergeTPSI", "C13_bwt_inverse_biPSI", "C13_bwt_inverse_biPSI_tables", "C13_bwt_roundtrip_small", "C13_bwt_roundtrip_big", "C13_bwt_total_mergeTPSI", "C13_bwt_total_biPSI", "C13_bwt_total", "C13_bwt_tasks_disjoint")
                + T("Kanzi.Properties.C13_rolz", "C13_rolzx_coder", "C13_rolzx_coder_bit", "C13_rolz_sync", "C13_rolz_sync_register", "C13_rolzx", "C13_rolzx_real", "C13_rolzx_bound", "C13_rolzx_total",
                    "C13_rolzx_forward_total_one_chunk", "C13_rolzx_fresh_symbol", "C13_rolz_forward_total", "C13_rolz_length_bytes", "C13_rolz", "C13_rolz_real", "C13_rolz_bound", "C13_rolz_total")
                + T("Kanzi.Properties.C13_rolz_consts", "rolz_consts")
                + T("Kanzi.Properties.C13_text", "C13_text_tokens1", "C13_text_tokens2", "C13_text_hash", "C13_text_static", "C13_text_total", "C13_text1", "C13_text2", "C13_text_bytes", "C13_text_sync",
                    "C13_text_sync_step", "C13_text_sync_decide", "C13_text_maxlen", "C13_text_inverse_nil", "C13_text_small_dst", "C13_text_no_fault")
                + T("Kanzi.Properties.C13_lzp", "C13_lzp", "C13_lzp_sync", "C13_lzp_total", "C13_lzp_bytes", "C13_lzp_shorter")
                + T("Kanzi.Properties.C13_fsd", "C13_fsd", "C13_fsd_total", "C13_fsd_bytes", "C13_fsd_any_choice", "C13_fsd_zigzag", "C13_fsd_zigzag_delta") + T(MCT, "transform_consts", "io_consts", "rlt_consts"),
    "streams": [TRSMALL, RLT, SRT, ALIAS, LZ, LZP, FSD, UTF, BWT, BWTS, EXE, ROLZ, TEXT, TRDIRECT],
    "level_text": "PARTIAL PROOF. Proved for all blocks: Null, ZRLT (output <= MaxEncodedLen, inverse restores), SBRT in every mode; the transform sequence for up to 8 stages and every pattern of declining stages (skip flags in the mode byte or the extra byte recover exactly; all-declined leaves the block; composed MaxEncodedLen bounds the output). Models tied by byte-identical outputs on tens of thousands of blocks. RLT is modelled completely (escape selection, DetectSimpleType, both early declines, 1/2/3-byte run lengths, pending byte, tail) and proved: accepted blocks are strictly shorter, fit MaxEncodedLen and are restored by Inverse into any destination >= the original length, and NEITHER direction can index out of range - Inverse on ARBITRARY input returns ok or a clean error (C13_rlt, C13_rlt_total, C13_rlt_shorter); byte-exact rlt stream (both defects F28/F29 are flagged on the pre-fix file). SRT is modelled completely (Shell sort of the symbols proved to be a sorting permutation, 1..5-byte varint header, rank coding): for every block below 2^31 bytes Forward never declines or faults, its output is at most len+1028 <= MaxEncodedLen bytes (len <= 2^30) and Inverse restores the block (C13_srt, C13_srt_len, C13_srt_size_sharp); Inverse cannot fault on a well-formed header (C13_srt_total_inverse_partial - PARTIAL: on malformed input it DOES index out of range, proved as C13_srt_inverse_faults_*; such faults are outside C13 and are recovered by the decoding task, see DESIGN §6 observations); byte-exact srt stream. The alias codec (PACK and DNA) is modelled completely (one-symbol, 2-bit and 4-bit packing, the digram path with its order-1 histogram, merge sort and alias map, every decline, the dataType write-back): accepted blocks are strictly shorter, fit MaxEncodedLen and are restored exactly for both variants and every hint; correctness holds for ANY injective alias map onto unused bytes (C13_alias_any_injective_map); Forward never faults, Inverse never faults on a Forward output, and on arbitrary input it faults exactly when the decidable predicate invSafe is false (C13_alias_total; those malformed-input faults are observations, recovered by the decoding task); byte-exact alias stream. LZP is modelled completely (uint32 context hash, 65536-entry position table, 254-step length coding, both copy branches): accepted blocks are restored by Inverse, and the encoder and decoder hash tables and contexts are proved equal at EVERY step (C13_lzp, C13_lzp_sync); Forward never faults; Inverse on arbitrary input returns data, a clean error or exactly one of two index faults whose conditions are proved (observations). MM (fixed-step delta codec) is modelled completely incl. the magic-number test, the three-window entropy sampling with the real log2 tables and the delta/xor choice: round trip for every (distance, mode) choice (C13_fsd_any_choice), accepted blocks fit and are restored (C13_fsd), and BOTH directions are total - Inverse cannot fault on any input (C13_fsd_total); zigzag tables proved mutually inverse. Byte-exact lzp and fsd streams. LZ / LZX (the LZ77 codec, bitstream version 6) is modelled completely - both 64-bit hash functions, hash table, lazy matching, repeat distances, token / length / distance coding in four sections, every decline; the decoder with its 16-byte overshooting copy loop - and proved: the 1/3/4-byte length coding is an inverse pair below 2^24+255 and wraps beyond (the cause of F31: C13_lz_lengths, C13_lz_lengths_wrap); the decoder is correct for EVERY valid token stream (C13_lz_format); every stream the encoder emits is a valid token stream denoting the block (C13_lz_forward_valid: no claim about match quality); hence Inverse(Forward b) = b, within MaxEncodedLen (C13_lz, C13_lz_bound); Forward never faults - incl. the never-grown token buffer, which is large enough only because both hashes are injective in the fifth byte (C13_lz_hash_fifth_byte) - and Inverse never faults on a Forward output (C13_lz_total); faults of Inverse on forged input are observations (the model is the exact no-panic predicate: C13_lz_inverse_fuel_partial). Byte-exact lz stream. UTF (code point aliasing) is modelled completely (validation tables, head / tail bytes, BOM test, 32768-symbol limit, ranking sort, both unpack variants) and proved after the repair F41: pack/unpack is lossless on every accepted sequence (C13_utf_pack), accepted blocks are strictly shorter and restored exactly for every hint (C13_utf), Forward never faults, Inverse never faults on a Forward output and its exact fault condition on forged input is a theorem (C13_utf_total); correctness holds for any injective ranking. BWTS (bijective BWT): the INVERSE is modelled completely and proved against the mathematical definition - Lyndon factorisation (existence and Chen-Fox-Lyndon uniqueness, C13_bwts_lyndon), rotations of the factors sorted by the order of infinite powers (C13_bwts_matrix), and the Gil-Scott/Kufleitner theorem in full: bwtsInverse (bwtsSpec s) = s for every block, the inverse is total on EVERY byte string and is a bijection (C13_bwts_inverse, C13_bwts_total, C13_bwts_bijective); the Forward (suffix sort by DivSufSort + Lyndon repair) is tied to the definition only by the bwts stream (real Forward = bwtsSpec = an independent naive Go reference, exhaustive small alphabets, Forward(Inverse x) = x on arbitrary strings), not by proof. EXE (executable filter) is modelled completely as repaired by F39/F40 (ELF32/64 LE/BE, PE and Mach-O header parsing with int64 wrap-around and every bounds check, the heuristic scan, x86 CALL/JMP/Jcc and ARM64 B/BL rewriting with escapes, the legacy v2 inverse): every operand / branch word survives encode-decode (C13_exe_x86_jump, C13_exe_arm_branch), the section transforms are inverse pairs for EVERY byte sequence and every code range the parser can return (C13_exe_x86, C13_exe_arm), the whole transform round-trips within MaxEncodedLen (C13_exe), and BOTH directions are total: Forward never faults on any bytes (headers are attacker-controlled on the compression side too) and Inverse never faults on any input (C13_exe_total); 49 constants tied by decide. BWT: the forward suffix sort (DivSufSort) is represented by its SPEC (suffix array of the block, primary indexes of the 8 chunks) and tied to the real Forward by the stream (every output byte and index vs the spec on small blocks and vs an independent Go suffix-array reference up to 1 MiB); BOTH inverse algorithms are modelled faithfully and PROVED against the spec for every block: inverseMergeTPSI (blocks <= 4 MiB) and the bi-gram inverseBiPSIv2 (larger blocks, any job count, destination of exactly the block size included - after fix F46) (C13_bwt_inverse_mergeTPSI, C13_bwt_inverse_biPSI, C13_bwt_roundtrip_small/big); the block header of BWTBlockCodec round-trips and forged headers are rejected (C13_bwt_header*); BWTBlockCodec.Inverse on a fresh instance is total on ANY input (C13_bwt_total: the fixes F24/F30 as theorems); the tasks of the parallel inverse write pairwise disjoint index ranges (C13_bwt_tasks_disjoint). ROLZ and ROLZX are modelled completely as repaired by F42/F45 (context-key hashes, rings of candidate positions, lazy match, side buffers with the Go capacities and the ANS transport for ROLZ, the adaptive binary range coder of ROLZX, 16 MiB chunks): the ROLZX coder round-trips every symbol sequence (C13_rolzx_coder), encoder and decoder match tables stay equal at every step (C13_rolz_sync), both codecs restore every accepted block (C13_rolzx, C13_rolz, also at the chunk boundaries that were defective), within MaxEncodedLen, and Forward never faults (C13_rolzx_total with a quantitative flush budget, C13_rolz_total: token / length / literal buffers cannot overrun). TEXT (both delegates) is modelled completely - the block analysis (detectTextType, magic numbers, thresholds), the static dictionary built by the same procedure from the same string, the hash size rule from block size and (upper-cased) entropy name, the dynamic dictionary with ring replacement and expansion, 1-3 byte index coding with escapes and case flipping, CR+LF handling, both Inverse loops incl. the old codec-2 token format - and proved: index coding is an inverse pair (C13_text_tokens1/2), the collision test on hashes is exact (C13_text_hash), Forward never faults on any block (C13_text_total), after every token encoder and decoder hold the same dictionary (C13_text_sync*), and accepted blocks are restored into every destination >= len (C13_text2; for codec 1 into every destination > len, or >= len when the block does not end in an escape byte - C13_text1: the decoder always provides len + len/16, see DESIGN Observations). ALL NINETEEN transforms are now modelled; only DivSufSort (the suffix sort behind BWT/BWTS) is represented by its specification - searched directly on the real code (trdirect: every transform and the CLI chains, pipeline buffer sizes with canaries, input-intact checks, data-type hints, all data shapes).",
    "level_note": BASE_NOTE + "'input left unmodified' is immediate in the value-level model and checked on the real buffers by the trdirect oracle.",
    "assumptions": [],
}

PROPS["C14"] = {
    "title": "Bitstream writer and reader are exact mirrors for every operation sequence", "design_ref": "5.14", "level": "proof",
    "technique": "Lean 4 refinement of BitVec-64 models of both bitstreams (aligned and unaligned bulk paths included) to abstract bit strings; differential correspondence op by op incl. counters",
    "theorems": T(M14I, "C14_ibs_readBits", "C14_ibs_readBit", "C14_ibs_readArray", "C14_ibs_eos", "C14_ibs_hasMore", "C14_ibs_closed", "C14_mirror", "C14_mirror_ibs")
                + T(M14O, "C14_obs_writeBit", "C14_obs_writeBits", "C14_obs_writeArray", "C14_obs_program", "C14_obs_closed"),
    "streams": [IBS, OBS],
    "level_text": "PROOF. Input bitstream: every ReadBit/ReadBits(1..64)/ReadArray(k bits, any k, any alignment, aligned bulk copy with refills, 256-bit and 64-bit unaligned word loops) returns the next bits of the source and advances Read() by exactly that many; too few bits => end-of-stream error; closed streams refuse operations (C14_ibs_*). Mirror: reading the packed image of written bits with the same op sizes returns the written values (C14_mirror). Output bitstream: every WriteBit/WriteBits/WriteArray (any k, any alignment, any buffer position: aligned bulk copy, 256-bit and 64-bit unaligned loops) appends exactly its bits to the abstract content, Written() equals the number of bits after every op, Close yields the big-endian packed image zero padded, closed streams refuse every write without side effects (C14_obs_*, C14_obs_program for every program). Tie: both real bitstreams driven op by op (values, counters after every op, final image, panics) against the models and against an independent Go bit-vector oracle, generators forcing every (alignment, length mod 64, distance to buffer end) class.",
    "level_note": BASE_NOTE,
    "assumptions": [],
}

PROPS["C15"] = {
    "title": "Codec names: case-insensitive, canonical, and consistent end to end", "design_ref": "5.15", "level": "proof",
    "technique": "Lean 4: name/type/variant tables regenerated from the real functions on every run and decided exhaustively; general chain-packing law proved for all token lists; differential correspondence; full Writer/Reader path search over spellings",
    "facts": ["Names", "Consts"],
    "theorems": T(M15, "C15_case_tables_exact", "C15_case_insensitive", "C15_tables_inverse", "C15_variant_consistent", "C15_variant_probes_discriminate", "C15_upper_special",
                  "C15_chain_canonical", "C15_chain_canonical_strong", "C15_chain_fits48", "C15_name_roundtrip", "C15_getType_errors", "C15_entropy_roundtrip") + T(MCT, "transform_consts", "entropy_type_codes"),
    "streams": [NAMES, NAMESRT],
    "level_text": "PROOF. Tables (regenerated by calling the real GetType/GetName/constructors for EVERY case variant of every name, then decided in the kernel): every spelling maps to the canonical token, name<->type tables are inverse, every spelling selects the same codec variant as the canonical one at all five variant-selection sites (ROLZX, TPAQX predictor, TEXT hash size x2, fast-entropy check). General: for every list of 1..8 tokens in any spelling GetName(GetType(chain)) is the upper-cased chain with NONE removed (C15_name_roundtrip, C15_chain_canonical for all token lists). Search: the full Writer path - streams for every spelling byte-identical to the canonical spelling and decodable, including headerless readers given differently spelled names.",
    "level_note": BASE_NOTE + "Variant selection is observed through public behaviour on fixed probe blocks (C15_variant_probes_discriminate shows the probes tell the variants apart).",
    "assumptions": [],
}

PROPS["C16"] = {
    "title": "Frequency scaling always yields a valid table", "design_ref": "5.16", "level": "proof",
    "technique": "Lean 4 theorem (all histograms, all scales) over a hand-written model of NormalizeFrequencies + differential correspondence model<->Go",
    "theorems": T(M16, "C16_normalize", "C16_errors", "C16_no_overflow"),
    "streams": [NORM],
    "level_text": "PROOF: for every histogram over <=256 symbols with positive total and every scale in [256,65536] the model of NormalizeFrequencies returns a table that sums to scale, preserves the support and lists it in increasing order (Lean theorem C16_normalize, no bound on counts). The model is tied to the Go function on every run by the `norm` correspondence (tens of thousands of histograms incl. exhaustive small families; outputs compared entry by entry) and the property oracle is evaluated on the real function for each of them.",
    "level_note": BASE_NOTE + "Caller contract totalFreq = sum(freqs) (inputs violating it are outside the model and refused with `pre`).",
    "assumptions": ["caller passes totalFreq = sum of freqs (true at all three call sites)", "Go int is 64-bit (C16_no_overflow bounds intermediates below 2^63 for totals < 2^31)"],
}

PROPS["C17"] = {
    "title": "Stream object lifecycle behaves like the documented state machine", "design_ref": "5.17", "level": "proof",
    "technique": "Lean 4 theorems over state-machine models of Writer/Reader (all call sequences) + differential correspondence of random call programs against the real code",
    "theorems": T(W, "C17_closed_absorbing", "C17_getWritten_monotone", "C17_getWritten_final", "C04_writer_blocks")
                + T(R, "C17_reader_closed", "C05_reader_refines_spec"),
    "streams": [SW, SR],
    "level_text": "PROOF over the Writer/Reader models for every call sequence: Close idempotent and absorbing (Write/Read after Close return an error and change nothing), Write returns its full length on success, a writer closed without any Write emits header + end marker only (decodes to empty by C05_reader_refines_spec on the empty block list), GetWritten monotone and equal to the image size after a successful Close. Tie: random call programs (zero-length calls, repeated Close, calls after Close, jobs 1..64, aligned/unaligned sizes) on the real Writer and Reader compared call by call with the models; oracles on the real run: counters, closer called once, sink size = GetWritten.",
    "level_note": BASE_NOTE + "The per-block codec is NONE/NONE in the correspondence (lifecycle logic does not depend on the codec).",
    "assumptions": ["healthy sink/source for the lifecycle theorems (failures: see C08)"],
}

PROPS["C18"] = {
    "title": "Independent streams do not interfere and internals are race-free", "design_ref": "5.18", "level": "proof",
    "technique": "PARTIAL Lean proof: no package-level variable is written after init (decided over a fact base regenerated from /repo) + protocol mutual-exclusion theorems; data races observed with the race detector under perturbed schedules",
    "facts": ["Globals", "Guards"],
    "theorems": T(M18F, "C18_globals_readonly", "C18_global_aliases_reviewed", "C18_facts_nonvacuous") + T("Kanzi.Properties.GuardsTie", "bwt_pair_guards") + T(M07, "C07_enc_mutex", "C07_dec_mutex")
                + T("Kanzi.Properties.C13_bwt", "C13_bwt_tasks_disjoint"),
    "streams": [RACE], "race": True,
    "level_text": "PARTIAL PROOF. Proved: (1) every package-level variable of the library is written only by init / its own initialiser, and every place where a reference into a global table escapes is pinned and reviewed (theorems by `decide` over Generated/Globals.lean, re-extracted from /repo's AST on every run); (2) the shared bitstream is accessed by at most one task at a time for every N and every interleaving (C07 mutex theorems). (3) the worker goroutines of the parallel inverse BWT write pairwise disjoint ranges of the destination for every job count and every block (C13_bwt_tasks_disjoint, over the model of inverseBiPSIv2 that the bwt stream ties to the real code; before fix F46 they did not: two tasks wrote the same byte when the chunk size was odd, which the race detector never reported). NOT proved: the Go memory model itself and accesses inside the other codecs - observed only, with the race detector under hook-perturbed schedules.",
    "level_note": BASE_NOTE + "The syntactic extractor lists writes through aliases as aliases, it does not prove their absence; race detector for the observed part.",
    "assumptions": ["reads of immutable package-level tables need no synchronisation", "writes through the reviewed aliases do not occur (reviewed by hand, pinned by C18_global_aliases_reviewed)"],
}

PROPS["C19"] = {
    "title": "Command-line tool: tree round trip and file safety", "design_ref": "5.19", "level": "proof", "needs_cli": True,
    "technique": "PARTIAL Lean proof over a file-system effect model of one file task (no clobber, input untouched, remove-safe at every crash point) with an acceptor run on strace projections of the real binary; tree round trips, refusals and SIGKILL runs on the real binary",
    "facts": ["Levels", "Names"],
    "theorems": T("Kanzi.Properties.C19_cli", "C19_no_clobber", "C19_input_untouched", "C19_remove_safe", "C19_acceptor_sound", "C19_trace_accepted")
                + T("Kanzi.Properties.C19_levels", "C19_level_table_complete", "C19_level_names_valid", "C19_level_default_consistent", "C19_level_blocksizes_valid")
                + T("Kanzi.Properties.C19_paths", "C19_paths_outputs_distinct", "C19_paths_checked", "C19_paths_dichotomy", "C19_paths_refusal_real", "C19_paths_no_spurious_refusal", "C19_paths_no_spurious_refusal_decompress",
                    "C19_paths_injective", "C19_paths_injective_decompress", "C19_paths_injective_inplace", "C19_paths_injective_inplace_decompress", "C19_paths_output_not_input", "C19_paths_output_not_input_decompress",
                    "C19_paths_output_not_input_inplace", "C19_paths_within_outdir", "C19_paths_within_outdir_decompress", "C19_paths_roundtrip", "C19_paths_roundtrip_names", "C19_paths_roundtrip_inplace",
                    "C19_paths_no_special_output", "C19_paths_formatted_input_ok", "C19_paths_file", "C19_clean_idempotent", "C19_walk_names_injective"),
    "streams": [CLI, CLIPATH, LEVELS],
    "level_text": "PARTIAL PROOF. Proved on the effect model of one file task (openOut excl|trunc, write*, closeOut, closeIn, unlink src; crash after any prefix): without force an existing output is never opened for writing and nothing else happens; no effect targets the input except the final unlink; at every crash point the source still has its content or the output is complete and closed; any trace accepted by `cliAccepts` has these properties at every prefix (C19_acceptor_sound). Tie: strace projections (openat/write/close/unlink on the input and output paths) of real runs of the built binary must be accepted. The PATH LOGIC of a whole run is modelled too (Model.CliPaths: filepath.Clean / Join / Rel / Base over bytes, the file list of a directory walk incl. the non-recursive form and the skip options, formattedInName / formattedOutName, the .knz / .bak name maps, both the single-file and the multi-file branch, the pre-flight name check, the special outputs) and proved for EVERY spelling of -i: distinct inputs get distinct outputs, no output is any input of the run (else the run is refused with status 7 before anything is opened - exact dichotomy C19_paths_dichotomy), every output lies under the output directory, a derived name is never taken for NONE/STDOUT, and decompress(compress) maps every relative path back (C19_paths_*); tied by the clipath stream, which runs the real binary on generated trees (adversarial names, spellings ./T T// T/../T . T. .., one/two-file trees, shadowing names) and compares the task list / refusal with the model. NOT modelled: kernel durability (no fsync: power loss out of scope, SIGKILL is not), option parsing, stdin. The level table (re-extracted from the CLI source on every run) has exactly the levels 0..9, every level maps to codec names accepted by the library (through the C15 name model), default level and block sizes are valid (C19_level_*). Search on the real binary: random trees (empty files, nested dirs, names with spaces) x levels 0-9 / -t -e -b -j -x / --rm / -f / stdin-stdout / -o dir: tree restored byte for byte with exit 0; refusals leave existing files untouched; SIGKILL at random times during --rm runs then every source is intact or its output decodes to it.",
    "level_note": BASE_NOTE + "strace and the kernel for the observed part; TPAQ-level scenarios are capped in size.",
    "assumptions": ["close(2) reports deferred write errors", "unlink is atomic"],
}

HOOK_COMMITS = ["a321cbc", "4ed9fca", "2a9b696", "833f0d9", "d190990"]

# properties not (yet) claimed: reason shown in MANIFEST.not_applicable
NOT_APPLICABLE = {}
