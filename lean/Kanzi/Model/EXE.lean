/-
Model of the executable-code filter `transform.EXECodec` (v2/transform/EXECodec.go, transform name
"EXE"), slice `exe`, property C13.

  * `exeMaxEncodedLen`                   Go `EXECodec.MaxEncodedLen`
  * `parseExeHeader s magic h`           Go `parseExeHeader(src, magic, &arch, &codeStart, &codeEnd)`
  * `detectExeType s cs ce`              Go `detectExeType(src, &codeStart, &codeEnd)`
  * `fwdX86 src dstLen cs ce`            Go `forwardX86(src, dst, codeStart, codeEnd)`, `len(dst) = dstLen`
  * `fwdARM src dstLen cs ce`            Go `forwardARM(src, dst, codeStart, codeEnd)`
  * `invX86 src dstLen`, `invARM`, `invV2`   Go `inverseX86`, `inverseARM`, `inverseV2`
  * `exeForward dt src dstLen`           Go `EXECodec.Forward(src, dst)`
  * `exeInverse v2 src dstLen`           Go `EXECodec.Inverse(src, dst)`
  * `exeCtxWrite ...`                    the value Forward stores in `ctx["dataType"]`

Core Lean only (linked into `kmodel`).  Bytes are `Nat` (< 256).  Go `int` is 64 bit: values that can be
negative or wrap (the ELF64 / Mach-O header fields, code offsets returned by the header parser, branch
target addresses) are `Int`, with `i64` = wrap to int64 where the Go code adds two attacker controlled
64-bit values.  Outcomes (`Kanzi.RLT.Out`): `.ok`, `.err c` = non-nil Go error of class `c`, `.fault` = a
Go run-time panic: every slice read / write of the Go code is modelled with its bounds check (`rd`, `leN`,
`beN` = `binary.X.UintN(src[i:])`, `wr` = stores into `dst`) or exhausted loop fuel.

Forward decline classes carry the values the Go call returns with the error: the class, `srcIdx`,
`dstIdx`, the mode byte stored in `dst[0]` (`-` when nothing was stored) and a hash of `dst[9:dstIdx]`
(`declInfo`): the correspondence stream compares them, the theorems never look at them.

The code mirrored is the file AS REPAIRED by 5f9fdb7 (bounds tests of the scan, the ELF section table and
the Mach-O commands) and f305690 (ARM64 escape of targets that are multiples of 2^28).

The four loops over the code section are "iterate one step": `x86FwdStep` / `armFwdStep` (result `Step`) and
`x86InvStep` / `armInvStep` (result `IStep`) are the loop bodies, branch for branch, returning the bytes
stored and the number of source bytes consumed; `x86FwdLoop` … do the stores (`wr`), the index updates and
the loop conditions.  They read `src[srcIdx+k]` as `rest[k]?` where `rest = src.drop srcIdx` is carried
along with `srcIdx`; the destination is the `Array Nat` of the bytes stored so far (`out.size` = Go `dstIdx`;
bytes 1..8, the header written at the end, are placeholders until then).

The ctx enters `Forward` through its `dataType` entry only (`dt : Option Nat`; `none` = no ctx or no
entry); `Inverse` through `bsVersion` (`v2 = true` iff the codec was built by `NewEXECodecWithCtx` with
no `bsVersion` entry or one below 3).  Not modelled: the aliasing test `&src[0] == &dst[0]`, the type
assertions on ctx values.  The dead `isCB` branches of forwardARM / inverseARM (`isBL` is always true
where they are tested) are omitted.
-/
import Kanzi.Model.RLT
import Kanzi.Model.FSD

namespace Kanzi.EXE
open Kanzi.RLT (Out wr fq detectSimpleType)

abbrev Res := Out (List Nat)

/-! ## constants -/

abbrev X86_MASK_JUMP : Nat := 0xFE
abbrev X86_INSTRUCTION_JUMP : Nat := 0xE8
abbrev X86_INSTRUCTION_JCC : Nat := 0x80
abbrev X86_TWO_BYTE_PREFIX : Nat := 0x0F
abbrev X86_MASK_JCC : Nat := 0xF0
abbrev X86_ESCAPE : Nat := 0x9B
abbrev NOT_EXE : Nat := 0x80
abbrev X86 : Nat := 0x40
abbrev ARM64 : Nat := 0x20
abbrev MASK_DT : Nat := 0x0F
abbrev X86_ADDR_MASK : Nat := (1 <<< 24) - 1
abbrev MASK_ADDRESS : Nat := 0xF0F0F0F0
abbrev ARM_B_ADDR_MASK : Nat := (1 <<< 26) - 1
abbrev ARM_B_OPCODE_MASK : Nat := 0xFFFFFFFF ^^^ ARM_B_ADDR_MASK
abbrev ARM_B_ADDR_SGN_MASK : Nat := 1 <<< 25
abbrev ARM_OPCODE_B : Nat := 0x14000000
abbrev ARM_OPCODE_BL : Nat := 0x94000000
abbrev ARM_CB_OPCODE_MASK : Nat := 0x7F000000
abbrev ARM_OPCODE_CBZ : Nat := 0x34000000
abbrev ARM_OPCODE_CBNZ : Nat := 0x3500000
abbrev WIN_PE : Nat := 0x00004550
abbrev WIN_X86_ARCH : Nat := 0x014C
abbrev WIN_AMD64_ARCH : Nat := 0x8664
abbrev WIN_ARM64_ARCH : Nat := 0xAA64
abbrev ELF_X86_ARCH : Nat := 0x03
abbrev ELF_AMD64_ARCH : Nat := 0x3E
abbrev ELF_ARM64_ARCH : Nat := 0xB7
abbrev MAC_AMD64_ARCH : Nat := 0x01000007
abbrev MAC_ARM64_ARCH : Nat := 0x0100000C
abbrev MAC_MH_EXECUTE : Nat := 0x02
abbrev MAC_LC_SEGMENT : Nat := 0x01
abbrev MAC_LC_SEGMENT64 : Nat := 0x19
abbrev MIN_BLOCK_SIZE : Nat := 4096
abbrev MAX_BLOCK_SIZE : Nat := (1 <<< (26 + 2)) - 1
abbrev WIN_MAGIC : Nat := 0x4D5A
abbrev ELF_MAGIC : Nat := 0x7F454C46
abbrev MAC_MAGIC32 : Nat := 0xFEEDFACE
abbrev MAC_CIGAM32 : Nat := 0xCEFAEDFE
abbrev MAC_MAGIC64 : Nat := 0xFEEDFACF
abbrev MAC_CIGAM64 : Nat := 0xCFFAEDFE
abbrev DT_UNDEFINED : Nat := 0
abbrev DT_EXE : Nat := 3
abbrev DT_BIN : Nat := 7

/-- Go: `EXECodec.MaxEncodedLen` -/
def exeMaxEncodedLen (srcLen : Nat) : Nat := if srcLen ≤ 256 then srcLen + 32 else srcLen + srcLen / 8

/-! ## byte order helpers -/

/-- wrap to Go `int` (int64) -/
def i64 (x : Int) : Int := Int.bmod x (2 ^ 64)

/-- `int(int32(uint32(v)))` / `int(int32(v))` -/
def i32 (v : Int) : Int := Int.bmod v (2 ^ 32)

/-- Go: `src[i : i+n]` as used by `binary.X.UintN(src[i:])`: panics when `i < 0`, `i > len(src)` or fewer
    than `n` bytes are left -/
def rdN (src : Array Nat) (i : Int) (n : Nat) : Option (List Nat) :=
  if i < 0 ∨ i.toNat + n > src.size then none else some (src.extract i.toNat (i.toNat + n)).toList

def leVal (l : List Nat) : Nat := l.foldr (fun b acc => b + 256 * acc) 0
def beVal (l : List Nat) : Nat := l.foldl (fun acc b => 256 * acc + b) 0

/-- `binary.LittleEndian.Uint{16,32,64}(src[i:])` for `n` = 2, 4, 8 -/
def leN (src : Array Nat) (i : Int) (n : Nat) : Option Nat := (rdN src i n).map leVal
/-- `binary.BigEndian.Uint{16,32,64}(src[i:])` -/
def beN (src : Array Nat) (i : Int) (n : Nat) : Option Nat := (rdN src i n).map beVal
/-- read with the byte order of the ELF header -/
def boN (be : Bool) (src : Array Nat) (i : Int) (n : Nat) : Option Nat := if be then beN src i n else leN src i n

def le32Bytes (v : Nat) : List Nat := [v % 256, v / 256 % 256, v / 65536 % 256, v / 16777216 % 256]
def be32Bytes (v : Nat) : List Nat := [v / 16777216 % 256, v / 65536 % 256, v / 256 % 256, v % 256]

/-- lift a bounds-checked read -/
def need {α : Type} (o : Option α) (f : α → Out β) : Out β :=
  match o with
  | none => .fault "src-index"
  | some a => f a

/-! ## header parsing -/

/-- the three values `parseExeHeader` updates through pointers -/
structure Hdr where
  arch : Nat
  cs : Int
  ce : Int
deriving Repr, DecidableEq

/-- Go: the section loop of the four ELF branches (`be` = big endian, `is64`), entries `i, i+1, …`, one unit
    of fuel per remaining entry; `(false, _)` = `return false` -/
def elfLoop (s : Array Nat) (be is64 : Bool) (pos szEntry : Int) : Nat → Nat → Int → Int → Out (Bool × Int × Int)
  | 0, _, cs, ce => .ok (true, cs, ce)
  | f + 1, i, cs, ce =>
    let startEntry := i64 (pos + (i : Int) * szEntry)
    if startEntry < 0 ∨ startEntry ≥ (s.size : Int) - (if is64 then 0x28 else 0x18) then .ok (false, cs, ce)
    else
      need (boN be s (i64 (startEntry + 4)) 4) fun typeSection =>
      need (if is64 then boN be s (i64 (startEntry + 0x18)) 8 else boN be s (i64 (startEntry + 0x10)) 4) fun off =>
      need (if is64 then boN be s (i64 (startEntry + 0x20)) 8 else boN be s (i64 (startEntry + 0x14)) 4) fun len =>
        let offSection := i64 off
        let lenSection := i64 len
        if typeSection = 1 ∧ lenSection ≥ 64 then
          elfLoop s be is64 pos szEntry f (i + 1) (if cs = 0 then offSection else cs) (i64 (offSection + lenSection))
        else elfLoop s be is64 pos szEntry f (i + 1) cs ce

/-- Go: the load command loop of the Mach-O branch, one unit of fuel per remaining command -/
def machLoop (s : Array Nat) (is64 : Bool) : Nat → Int → Int → Int → Out (Bool × Int × Int)
  | 0, _, cs, ce => .ok (true, cs, ce)
  | f + 1, pos, cs, ce =>
    let count : Int := s.size
    if pos < 0 ∨ pos + 8 > count then .ok (false, cs, ce)
    else
      need (leN s pos 4) fun ldCmd =>
      need (leN s (pos + 4) 4) fun szCmd =>
        let szSegHdr : Int := if is64 then 0x48 else 0x38
        if ldCmd = MAC_LC_SEGMENT ∨ ldCmd = MAC_LC_SEGMENT64 then
          if pos + 16 > count then .ok (false, cs, ce)
          else
            need (beN s (pos + 8) 8) fun nameSegment =>
              if nameSegment >>> 16 = 0x5F5F54455854 then
                let posSection := pos + szSegHdr
                if posSection + 0x38 > count then .ok (false, cs, ce)
                else
                  need (beN s posSection 8) fun nameSection =>
                    if nameSection >>> 16 = 0x5F5F74657874 then
                      if is64 then
                        need (leN s (posSection + 0x30) 8) fun a =>
                        need (leN s (posSection + 0x28) 4) fun l =>
                          .ok (true, i32 a, i32 a + i32 l)
                      else
                        need (leN s (posSection + 0x2C) 4) fun a =>
                        need (leN s (posSection + 0x28) 4) fun l =>
                          .ok (true, i32 a, i32 a + i32 l)
                    else machLoop s is64 f (pos + szCmd) cs ce
              else machLoop s is64 f (pos + szCmd) cs ce
        else machLoop s is64 f (pos + szCmd) cs ce

/-- Go: `parseExeHeader(src, magic, &arch, &codeStart, &codeEnd)`; the result holds the returned bool and
    the values of `*arch`, `*codeStart`, `*codeEnd` after the call (also when it returns false) -/
def parseExeHeader (s : Array Nat) (magic : Nat) (h : Hdr) : Out (Bool × Hdr) :=
  let count : Int := s.size
  if magic = WIN_MAGIC then
    if count ≥ 64 then
      need (leN s 60 4) fun posPE =>
        if (posPE : Int) > 0 ∧ (posPE : Int) ≤ count - 48 then
          need (leN s posPE 4) fun sig =>
            if sig = WIN_PE then
              need (leN s ((posPE : Int) + 44) 4) fun a =>
              need (leN s ((posPE : Int) + 28) 4) fun l =>
              need (leN s ((posPE : Int) + 4) 2) fun ar =>
                let cs : Int := min (a : Int) count
                .ok (true, ⟨ar, cs, min (cs + (l : Int)) count⟩)
            else .ok (true, h)
        else .ok (true, h)
    else .ok (false, h)
  else if magic = ELF_MAGIC then
    need s[5]? fun b5 =>
      if count ≥ 64 then
        need s[4]? fun b4 =>
          let be := b5 ≠ 1
          let is64 := b4 = 2
          need (boN be s (if is64 then 0x3C else 0x30) 2) fun nbEntries =>
          need (boN be s (if is64 then 0x3A else 0x2E) 2) fun szEntry =>
          need (if is64 then boN be s 0x28 8 else boN be s 0x20 4) fun posSection =>
            (elfLoop s be is64 (i64 posSection) szEntry nbEntries 0 0 h.ce).bind fun r =>
              if r.1 then
                need (boN be s 18 2) fun ar => .ok (true, ⟨ar, min r.2.1 count, min r.2.2 count⟩)
              else .ok (false, ⟨h.arch, r.2.1, r.2.2⟩)
      else .ok (false, h)
  else if magic = MAC_MAGIC32 ∨ magic = MAC_CIGAM32 ∨ magic = MAC_MAGIC64 ∨ magic = MAC_CIGAM64 then
    let is64 : Bool := magic = MAC_MAGIC64 ∨ magic = MAC_CIGAM64
    if count ≥ 64 then
      need (leN s 12 4) fun mode =>
        if mode ≠ MAC_MH_EXECUTE then .ok (false, ⟨h.arch, 0, h.ce⟩)
        else
          need (leN s 4 4) fun ar =>
          need (leN s 0x10 4) fun nbCmds =>
            (machLoop s is64 nbCmds (if is64 then 0x20 else 0x1C) 0 h.ce).bind fun r =>
              if r.1 then .ok (true, ⟨ar, min r.2.1 count, min r.2.2 count⟩)
              else .ok (false, ⟨ar, r.2.1, r.2.2⟩)
    else .ok (false, ⟨h.arch, 0, h.ce⟩)
  else .ok (false, h)

/-! ## heuristic detection -/

/-- counters of the scan -/
structure Scan where
  histo : Array Nat
  jx : Nat
  ja : Nat

/-- the "ARM" tail of one scan iteration at index `i` (the Go `i` may have been advanced by the 0x0F
    branch): returns the new ARM counter -/
def scanArm (s : Array Nat) (i ja : Nat) : Out Nat :=
  if i &&& 3 ≠ 0 ∨ i + 4 > s.size then .ok ja
  else
    need (leN s i 4) fun instr =>
      let opcode1 := instr &&& ARM_B_OPCODE_MASK
      let opcode2 := instr &&& ARM_CB_OPCODE_MASK
      if opcode1 = ARM_OPCODE_B ∨ opcode1 = ARM_OPCODE_BL ∨ opcode2 = ARM_OPCODE_CBZ ∨ opcode2 = ARM_OPCODE_CBNZ then
        .ok (ja + 1)
      else .ok ja

/-- Go: `for i := *codeStart; i < *codeEnd; i++ { … }` of `detectExeType`, one unit of fuel per iteration -/
def scanLoop (s : Array Nat) (ce : Nat) : Nat → Nat → Scan → Out Scan
  | 0, i, st => if i < ce then .fault "fuel" else .ok st
  | f + 1, i, st =>
    if i < ce then
      need s[i]? fun b =>
        let h := st.histo.modify b (· + 1)
        if b &&& X86_MASK_JUMP = X86_INSTRUCTION_JUMP then
          need s[i + 4]? fun b4 =>
            if b4 = 0 ∨ b4 = 0xFF then scanLoop s ce f (i + 1) ⟨h, st.jx + 1, st.ja⟩
            else (scanArm s i st.ja).bind fun ja => scanLoop s ce f (i + 1) ⟨h, st.jx, ja⟩
        else if b = X86_TWO_BYTE_PREFIX then
          need s[i + 1]? fun c =>
            let i2 := if c = 0x38 ∨ c = 0x3A then i + 2 else i + 1
            need s[i2]? fun d =>
              if d &&& X86_MASK_JCC = X86_INSTRUCTION_JCC then scanLoop s ce f (i2 + 1) ⟨h, st.jx + 1, st.ja⟩
              else (scanArm s i2 st.ja).bind fun ja => scanLoop s ce f (i2 + 1) ⟨h, st.jx, ja⟩
        else (scanArm s i st.ja).bind fun ja => scanLoop s ce f (i + 1) ⟨h, st.jx, ja⟩
    else .ok st

/-- Go: the part of `detectExeType` after the header (clamping, scan, thresholds); returns the mode byte -/
def heuristic (s : Array Nat) (cs0 ce0 : Int) : Out Nat :=
  let cs : Int := max cs0 0
  let ce : Int := min ce0 ((s.size : Int) - 4)
  let count : Nat := (max (i64 (ce - cs)) 0).toNat
  (scanLoop s ce.toNat (ce.toNat - cs.toNat + 1) cs.toNat ⟨Array.replicate 256 0, 0, 0⟩).bind fun st =>
    let dt := detectSimpleType count st.histo
    if dt ≠ DT_BIN then .ok (NOT_EXE ||| dt)
    else
      let smallVals := ((List.range 16).map (fq st.histo)).foldl (· + ·) 0
      if fq st.histo 0 < count / 10 ∨ smallVals > count / 2 ∨ fq st.histo 255 < count / 100 then .ok (NOT_EXE ||| dt)
      else if st.jx ≥ count / 200 then .ok X86
      else if st.ja ≥ count / 200 then .ok ARM64
      else .ok (NOT_EXE ||| dt)

/-- the architecture test after a recognised header -/
def archMode (arch : Nat) : Option Nat :=
  if arch = ELF_X86_ARCH ∨ arch = ELF_AMD64_ARCH then some X86
  else if arch = WIN_X86_ARCH ∨ arch = WIN_AMD64_ARCH then some X86
  else if arch = MAC_AMD64_ARCH then some X86
  else if arch = ELF_ARM64_ARCH ∨ arch = WIN_ARM64_ARCH then some ARM64
  else if arch = MAC_ARM64_ARCH then some ARM64
  else none

/-- Go: `detectExeType(src, &codeStart, &codeEnd)`: the returned mode byte and the final
    `*codeStart`, `*codeEnd` (only meaningful to the caller when the mode is not NOT_EXE) -/
def detectExeType (s : Array Nat) (cs0 ce0 : Int) : Out (Nat × Int × Int) :=
  let magic := Kanzi.FSD.getMagicType (s.extract 0 4).toList
  (parseExeHeader s magic ⟨0, cs0, ce0⟩).bind fun r =>
    match (if r.1 then archMode r.2.arch else none) with
    | some m => .ok (m, r.2.cs, r.2.ce)
    | none =>
      (heuristic s r.2.cs r.2.ce).bind fun m =>
        .ok (m, max r.2.cs 0, min r.2.ce ((s.size : Int) - 4))

/-! ## decline information -/

def fnv (l : Array Nat) (from_ : Nat) : UInt64 :=
  (l.extract from_ l.size).foldl (fun h b => (h ^^^ UInt64.ofNat b) * 1099511628211) 14695981039346656037

/-- class, `srcIdx`, `dstIdx`, `dst[0]`, hash of `dst[9:dstIdx]` (what the Go call returns / leaves
    behind together with the error) -/
def declInfo (cls : String) (srcIdx dstIdx : Nat) (mode : Option Nat) (out : Array Nat) : String :=
  let m := match mode with | some v => toString v | none => "-"
  s!"{cls} r={srcIdx} w={dstIdx} m={m} h={(fnv out 9).toNat}"

/-! ## x86 forward -/

/-- Go: `uint32(addr)` for `addr := srcIdx; if sgn == 0 { addr += offset } else { addr -= (-offset & _EXE_X86_ADDR_MASK) }`
    (`i = srcIdx`, `int` arithmetic, `-offset & mask` on a negative `int` is the residue mod 2^24) -/
def x86Addr (i offset sgn : Nat) : Nat :=
  ((if sgn = 0 then (i : Int) + (offset : Int) else (i : Int) - ((-(offset : Int)) % 2 ^ 24)) % 2 ^ 32).toNat

/-- Go: the `uint32` stored by inverseX86 for the decoded address `addr` at `dstIdx = d`:
    `offset := addr - dstIdx; if offset >= 0 { uint32(offset) } else { uint32(-(-offset & _EXE_X86_ADDR_MASK)) }` -/
def x86Off (d addr : Nat) : Nat :=
  ((if (addr : Int) - (d : Int) ≥ 0 then (addr : Int) - (d : Int)
    else -((-((addr : Int) - (d : Int))) % 2 ^ 24)) % 2 ^ 32).toNat

/-- Go: the tail of one loop iteration of forwardX86 from "Current instruction is a jump/call" with
    `src[srcIdx:] = rest`: the bytes stored, the number of source bytes consumed, the increment of `matches` -/
def x86Jump (rest : List Nat) (i : Nat) : Out (List Nat × Nat × Nat) :=
  match rest with
  | op :: o0 :: o1 :: o2 :: sgn :: _ =>
    let offset := leVal [o0, o1, o2, sgn]
    if (sgn ≠ 0 ∧ sgn ≠ 0xFF) ∨ offset = 0xFF000000 then .ok ([X86_ESCAPE, op], 1, 0)
    else .ok (op :: be32Bytes (x86Addr i offset sgn ^^^ MASK_ADDRESS), 5, 1)
  | _ => .fault "src-index"

/-- the byte `b` preceded by an escape when it is the escape value -/
def escLit (b : Nat) : List Nat := if b = X86_ESCAPE then [X86_ESCAPE, b] else [b]

/-- outcome of one iteration of a forward loop: `stop` = `break` with `boundaryReached` before anything
    was stored; `emit e c dm` = the bytes `e` are stored, `c` source bytes consumed, `matches += dm`;
    `emitStop` = the same followed by a `break` -/
inductive Step where
  | stop
  | emit (e : List Nat) (c dm : Nat)
  | emitStop (e : List Nat) (c : Nat)
  | fault (s : String)
deriving Repr, DecidableEq

/-- lift `x86Jump` into a step, after the bytes `pre` (already consumed and to be stored first) -/
def jumpStep (pre : List Nat) (r : Out (List Nat × Nat × Nat)) : Step :=
  match r with
  | .ok j => .emit (pre ++ j.1) (pre.length + j.2.1) j.2.2
  | .err s => .fault s
  | .fault s => .fault s

/-- Go: the body of the main loop of forwardX86 with `src[srcIdx:] = rest`, `srcIdx = i`, `codeEnd = ce` -/
def x86FwdStep (ce : Nat) (rest : List Nat) (i : Nat) : Step :=
  match rest[0]? with
  | none => .fault "src-index"
  | some b =>
    if b = X86_TWO_BYTE_PREFIX then
      if i + 1 ≥ ce then .stop
      else
        match rest[1]? with
        | none => .fault "src-index"
        | some b1 =>
          if b1 &&& X86_MASK_JCC = X86_INSTRUCTION_JCC ∧ i + 5 ≥ ce then .stop
          else if b1 &&& X86_MASK_JCC ≠ X86_INSTRUCTION_JCC then .emit (b :: escLit b1) 2 0
          else if i + 1 + 4 ≥ ce then .emitStop [b] 1
          else jumpStep [b] (x86Jump (rest.drop 1) (i + 1))
    else if b &&& X86_MASK_JUMP ≠ X86_INSTRUCTION_JUMP then .emit (escLit b) 1 0
    else if i + 4 ≥ ce then .stop
    else jumpStep [] (x86Jump rest i)

/-- final state of a forward loop -/
structure FwdSt where
  i : Nat
  out : Array Nat
  nm : Nat
  boundary : Bool

/-- Go: the main loop of forwardX86 (`rest = src[srcIdx:]`, `i = srcIdx`, `out.size = dstIdx`,
    `dstEnd = len(dst) - 5`), one unit of fuel per iteration -/
def x86FwdLoop (ce dstLen : Nat) : Nat → List Nat → Nat → Array Nat → Nat → Out FwdSt
  | 0, _, i, out, m => if i < ce ∧ out.size + 5 < dstLen then .fault "fuel" else .ok ⟨i, out, m, false⟩
  | f + 1, rest, i, out, m =>
    if i < ce ∧ out.size + 5 < dstLen then
      match x86FwdStep ce rest i with
      | .stop => .ok ⟨i, out, m, true⟩
      | .emit e c dm => (wr dstLen out e).bind fun o => x86FwdLoop ce dstLen f (rest.drop c) (i + c) o (m + dm)
      | .emitStop e c => (wr dstLen out e).bind fun o => .ok ⟨i + c, o, m, true⟩
      | .fault s => .fault s
    else .ok ⟨i, out, m, false⟩

/-- the nine header bytes: mode, `codeStart`, `dstIdx` (little endian) -/
def header (mode cs de : Nat) : List Nat := mode :: (le32Bytes (cs % 2 ^ 32) ++ le32Bytes (de % 2 ^ 32))

/-- Go: everything after the main loop of forwardX86 / forwardARM once `matches ≥ 16` and the
    false-positive test on the loop exit passed (`slack` = 5 / 8: `dstEnd = len(dst) - slack`) -/
def fwdFinish (mode slack : Nat) (src : List Nat) (dstLen cs i : Nat) (out : Array Nat) : Res :=
  let count := src.length
  if out.size + (count - i) + slack > dstLen then .err (declInfo "fp" i out.size (some mode) out)
  else
    let body := (out.extract 9 out.size).toList ++ src.drop i
    let t := header mode cs out.size ++ body
    if t.length > count + count / 50 then .err (declInfo "fp" i t.length (some mode) (out ++ src.drop i))
    else .ok t

/-- Go: `forwardX86(src, dst, codeStart, codeEnd)` with `len(dst) = dstLen ≥ 1` -/
def fwdX86 (src : List Nat) (dstLen : Nat) (cs ce : Int) : Res :=
  if cs < 0 ∨ ce < cs ∨ ce > (src.length : Int) then .err (declInfo "format" 0 0 (some X86) #[])
  else if dstLen < 9 then .fault "dst-slice"        -- `dst[dstIdx:]` with `dstIdx = 9`
  else if 9 + cs.toNat > dstLen then
    -- the prefix copy is truncated, `dstIdx = 9 + codeStart ≥ dstEnd`: no iteration, `matches = 0`
    .err (declInfo "few" cs.toNat (9 + cs.toNat) (some X86) #[])
  else
    let out0 : Array Nat := (X86 :: List.replicate 8 0 ++ src.take cs.toNat).toArray
    (x86FwdLoop ce.toNat dstLen (src.length + 1) (src.drop cs.toNat) cs.toNat out0 0).bind fun st =>
      if st.nm < 16 then .err (declInfo "few" st.i st.out.size (some X86) st.out)
      else if st.i < ce.toNat ∧ st.boundary = false then .err (declInfo "fp" st.i st.out.size (some X86) st.out)
      else fwdFinish X86 5 src dstLen cs.toNat st.i st.out

/-! ## x86 inverse -/

/-- outcome of one iteration of an inverse loop: `emit e c` = the bytes `e` are stored into `dst`, `c`
    source bytes consumed; `last` = the same followed by a `break` -/
inductive IStep where
  | emit (e : List Nat) (c : Nat)
  | last (e : List Nat) (c : Nat)
  | err (s : String)
  | fault (s : String)
deriving Repr, DecidableEq

/-- Go: inverseX86 from "if srcIdx+4 >= codeEnd" to the end of the iteration; `pre` = the bytes the
    iteration stored (and consumed) before, `rest = src[srcIdx:]`, `d = dstIdx` at this point -/
def x86InvJump (ce dstLen : Nat) (pre : List Nat) (rest : List Nat) (i d : Nat) : IStep :=
  if i + 4 ≥ ce then .err "data"
  else if d + 5 > dstLen then .err "data"
  else
    match rest with
    | op :: a0 :: a1 :: a2 :: a3 :: _ =>
      .emit (pre ++ op :: le32Bytes (x86Off d (beVal [a0, a1, a2, a3] ^^^ MASK_ADDRESS))) (pre.length + 5)
    | _ => .fault "src-index"

/-- Go: the body of the main loop of inverseX86 with `src[srcIdx:] = rest`, `srcIdx = i`, `codeEnd = ce`,
    `dstIdx = d`, `len(dst) = dstLen` -/
def x86InvStep (ce dstLen : Nat) (rest : List Nat) (i d : Nat) : IStep :=
  match rest[0]? with
  | none => .fault "src-index"
  | some b =>
    if b = X86_TWO_BYTE_PREFIX then
      if i + 1 ≥ ce then
        if d ≥ dstLen then .err "data" else .last [b] 1
      else if d ≥ dstLen then .err "data"
      else
        match rest[1]? with
        | none => .fault "src-index"
        | some b1 =>
          if b1 &&& X86_MASK_JCC ≠ X86_INSTRUCTION_JCC then
            if b1 = X86_ESCAPE then
              if i + 2 ≥ ce then .err "data"
              else if d + 1 ≥ dstLen then .err "data"
              else
                match rest[2]? with
                | none => .fault "src-index"
                | some b2 => .emit [b, b2] 3
            else if d + 1 ≥ dstLen then .err "data"
            else .emit [b, b1] 2
          else x86InvJump ce dstLen [b] (rest.drop 1) (i + 1) (d + 1)
    else if b &&& X86_MASK_JUMP ≠ X86_INSTRUCTION_JUMP then
      if b = X86_ESCAPE then
        if i + 1 ≥ ce then .err "data"
        else if d ≥ dstLen then .err "data"
        else
          match rest[1]? with
          | none => .fault "src-index"
          | some b1 => .emit [b1] 2
      else if d ≥ dstLen then .err "data"
      else .emit [b] 1
    else x86InvJump ce dstLen [] rest i d

/-- Go: the main loop of inverseX86 (`rest = src[srcIdx:]`, `i = srcIdx`, `ce = codeEnd`, `out.size = dstIdx`);
    returns the final `(srcIdx, dst[0:dstIdx])` -/
def x86InvLoop (ce dstLen : Nat) : Nat → List Nat → Nat → Array Nat → Out (Nat × Array Nat)
  | 0, _, i, out => if i < ce then .fault "fuel" else .ok (i, out)
  | f + 1, rest, i, out =>
    if i < ce then
      match x86InvStep ce dstLen rest i out.size with
      | .emit e c => (wr dstLen out e).bind fun o => x86InvLoop ce dstLen f (rest.drop c) (i + c) o
      | .last e c => (wr dstLen out e).bind fun o => .ok (i + c, o)
      | .err s => .err s
      | .fault s => .fault s
    else .ok (i, out)

/-- Go: the common end of inverseX86 / inverseARM: copy of the tail -/
def invFinish (src : List Nat) (dstLen : Nat) (r : Nat × Array Nat) : Res :=
  if r.2.size + (src.length - r.1) > dstLen then .err "data"
  else .ok (r.2.toList ++ src.drop r.1)

/-- the header fields of an encoded block (`len(src) ≥ 9`) and the sanity check; `none` = "invalid data" -/
def invHeader (src : List Nat) (dstLen : Nat) : Option (Nat × Nat) :=
  let cs := leVal ((src.drop 1).take 4)
  let ce := leVal ((src.drop 5).take 4)
  if ce < 9 ∨ ce > src.length ∨ (cs : Int) > (ce : Int) - 9 ∨ cs > dstLen then none else some (cs, ce)

/-- Go: `inverseX86(src, dst)` with `len(src) ≥ 9`, `len(dst) = dstLen` -/
def invX86 (src : List Nat) (dstLen : Nat) : Res :=
  match invHeader src dstLen with
  | none => .err "data"
  | some (cs, ce) =>
    (wr dstLen #[] ((src.drop 9).take cs)).bind fun o =>
      (x86InvLoop ce dstLen (src.length + 1) (src.drop (9 + cs)) (9 + cs) o).bind fun r => invFinish src dstLen r

/-! ## legacy inverse (bitstream version 2) -/

/-- Go: the first loop of inverseV2 (`end = count - 8`) -/
def v2Loop (en dstLen : Nat) : Nat → List Nat → Nat → Array Nat → Out (Nat × Array Nat)
  | 0, _, i, out => if i < en then .fault "fuel" else .ok (i, out)
  | f + 1, rest, i, out =>
    if i < en then
      need rest[0]? fun b =>
        (wr dstLen out [b]).bind fun o =>
          if b &&& X86_MASK_JUMP ≠ X86_INSTRUCTION_JUMP then v2Loop en dstLen f (rest.drop 1) (i + 1) o
          else
            need rest[1]? fun s0 =>
              if s0 = 0xF5 then v2Loop en dstLen f (rest.drop 2) (i + 2) o
              else
                let sgn := (s0 + 255) % 256
                if sgn ≠ 0 ∧ sgn ≠ 0xFF then v2Loop en dstLen f (rest.drop 1) (i + 1) o
                else
                  need rest[2]? fun a1 => need rest[3]? fun a2 => need rest[4]? fun a3 =>
                    let addr : Int := i32 ((0xD5 ^^^ a3) ||| ((0xD5 ^^^ a2) <<< 8) ||| ((0xD5 ^^^ a1) <<< 16) ||| (sgn <<< 24) : Nat)
                    let a : Nat := (i32 (addr - (o.size : Int)) % 2 ^ 32).toNat
                    (wr dstLen o [a % 256, a / 256 % 256, a / 65536 % 256, sgn]).bind fun o2 =>
                      v2Loop en dstLen f (rest.drop 5) (i + 5) o2
    else .ok (i, out)

/-- Go: `inverseV2(src, dst)` -/
def invV2 (src : List Nat) (dstLen : Nat) : Res :=
  if src.length > dstLen then .err "data"
  else
    (v2Loop (src.length - 8) dstLen (src.length + 1) src 0 #[]).bind fun r =>
      (wr dstLen r.2 (src.drop r.1)).bind fun o => .ok o.toList

/-! ## ARM64 forward -/

/-- Go: the target address computed by forwardARM for the B / BL instruction `instr` at `srcIdx = i`,
    after `if addr < 0 { addr = 0 }` -/
def armAddr (i instr : Nat) : Nat :=
  let offset := instr &&& ARM_B_ADDR_MASK
  let addr : Int :=
    if instr &&& ARM_B_ADDR_SGN_MASK = 0 then (i : Int) + 4 * (offset : Int)
    else (i : Int) - 4 * ((-(offset : Int)) % 2 ^ 26)
  if addr < 0 then 0 else addr.toNat

/-- Go: forwardARM for the B / BL instruction `instr` at `srcIdx = i`:
    `(uint32(val), addr == 0 || (addr>>2)&_EXE_ARM_B_ADDR_MASK == 0)` -/
def armEnc (i instr : Nat) : Nat × Bool :=
  (((instr &&& ARM_B_OPCODE_MASK) ||| (armAddr i instr >>> 2)) % 2 ^ 32,
   armAddr i instr = 0 ∨ (armAddr i instr >>> 2) &&& ARM_B_ADDR_MASK = 0)

def isBL (instr : Nat) : Bool :=
  instr &&& ARM_B_OPCODE_MASK = ARM_OPCODE_B ∨ instr &&& ARM_B_OPCODE_MASK = ARM_OPCODE_BL

/-- Go: the body of the main loop of forwardARM with `src[srcIdx:] = rest`, `srcIdx = i` -/
def armFwdStep (rest : List Nat) (i : Nat) : Step :=
  match rest with
  | b0 :: b1 :: b2 :: b3 :: _ =>
    let instr := leVal [b0, b1, b2, b3]
    if isBL instr = false then .emit [b0, b1, b2, b3] 4 0
    else
      let e := armEnc i instr
      if e.2 then .emit (le32Bytes e.1 ++ [b0, b1, b2, b3]) 4 0
      else .emit (le32Bytes e.1) 4 1
  | _ => .fault "src-index"

/-- Go: the main loop of forwardARM (`dstEnd = len(dst) - 8`); the `boundary` field is not used -/
def armFwdLoop (ce dstLen : Nat) : Nat → List Nat → Nat → Array Nat → Nat → Out FwdSt
  | 0, _, i, out, m => if i + 4 ≤ ce ∧ out.size + 8 < dstLen then .fault "fuel" else .ok ⟨i, out, m, false⟩
  | f + 1, rest, i, out, m =>
    if i + 4 ≤ ce ∧ out.size + 8 < dstLen then
      match armFwdStep rest i with
      | .stop => .ok ⟨i, out, m, true⟩
      | .emit e c dm => (wr dstLen out e).bind fun o => armFwdLoop ce dstLen f (rest.drop c) (i + c) o (m + dm)
      | .emitStop e c => (wr dstLen out e).bind fun o => .ok ⟨i + c, o, m, true⟩
      | .fault s => .fault s
    else .ok ⟨i, out, m, false⟩

/-- Go: `forwardARM(src, dst, codeStart, codeEnd)` with `len(dst) = dstLen ≥ 1` -/
def fwdARM (src : List Nat) (dstLen : Nat) (cs ce : Int) : Res :=
  if cs < 0 ∨ ce < cs ∨ ce > (src.length : Int) ∨ cs.toNat &&& 3 ≠ 0 then
    .err (declInfo "format" 0 0 (some ARM64) #[])
  else if dstLen < 9 then .fault "dst-slice"
  else if 9 + cs.toNat > dstLen then .err (declInfo "few" cs.toNat (9 + cs.toNat) (some ARM64) #[])
  else
    let out0 : Array Nat := (ARM64 :: List.replicate 8 0 ++ src.take cs.toNat).toArray
    (armFwdLoop ce.toNat dstLen (src.length + 1) (src.drop cs.toNat) cs.toNat out0 0).bind fun st =>
      if st.nm < 16 then .err (declInfo "few" st.i st.out.size (some ARM64) st.out)
      else if st.i + 4 ≤ ce.toNat ∧ st.out.size + 8 ≥ dstLen then
        .err (declInfo "fp" st.i st.out.size (some ARM64) st.out)
      else fwdFinish ARM64 8 src dstLen cs.toNat st.i st.out

/-! ## ARM64 inverse -/

/-- Go: the address computation of inverseARM for the stored B / BL word `instr` at `dstIdx = d`:
    `(val, addr == 0)` -/
def armDec (d instr : Nat) : Nat × Bool :=
  let opcode1 := instr &&& ARM_B_OPCODE_MASK
  let addr := (instr &&& ARM_B_ADDR_MASK) <<< 2
  let offset : Int := ((addr : Int) - (d : Int)) / 4
  ((opcode1 ||| (offset % 2 ^ 26).toNat) % 2 ^ 32, addr = 0)

/-- Go: the body of the main loop of inverseARM with `src[srcIdx:] = rest`, `srcIdx = i`, `dstIdx = d` -/
def armInvStep (ce dstLen : Nat) (rest : List Nat) (i d : Nat) : IStep :=
  if i + 4 > ce then .err "data"
  else if d + 4 > dstLen then .err "data"
  else
    match rest with
    | b0 :: b1 :: b2 :: b3 :: r4 =>
      let instr := leVal [b0, b1, b2, b3]
      if isBL instr = false then .emit [b0, b1, b2, b3] 4
      else
        let e := armDec d instr
        if e.2 then
          if i + 8 > ce then .err "data"
          else
            match r4 with
            | c0 :: c1 :: c2 :: c3 :: _ => .emit [c0, c1, c2, c3] 8
            | _ => .fault "src-index"
        else .emit (le32Bytes e.1) 4
    | _ => .fault "src-index"

/-- Go: the main loop of inverseARM; returns the final `(srcIdx, dst[0:dstIdx])` -/
def armInvLoop (ce dstLen : Nat) : Nat → List Nat → Nat → Array Nat → Out (Nat × Array Nat)
  | 0, _, i, out => if i < ce then .fault "fuel" else .ok (i, out)
  | f + 1, rest, i, out =>
    if i < ce then
      match armInvStep ce dstLen rest i out.size with
      | .emit e c => (wr dstLen out e).bind fun o => armInvLoop ce dstLen f (rest.drop c) (i + c) o
      | .last e c => (wr dstLen out e).bind fun o => .ok (i + c, o)
      | .err s => .err s
      | .fault s => .fault s
    else .ok (i, out)

/-- Go: `inverseARM(src, dst)` with `len(src) ≥ 9`, `len(dst) = dstLen` -/
def invARM (src : List Nat) (dstLen : Nat) : Res :=
  match invHeader src dstLen with
  | none => .err "data"
  | some (cs, ce) =>
    (wr dstLen #[] ((src.drop 9).take cs)).bind fun o =>
      (armInvLoop ce dstLen (src.length + 1) (src.drop (9 + cs)) (9 + cs) o).bind fun r => invFinish src dstLen r

/-! ## Forward / Inverse -/

/-- the `dataType` entries with which Forward goes on -/
def dtAccepted (dt : Option Nat) : Bool :=
  match dt with
  | none => true
  | some d => d = DT_UNDEFINED ∨ d = DT_EXE ∨ d = DT_BIN

/-- Go: `EXECodec.Forward(src, dst)` with `len(dst) = dstLen`; `dt` = the `dataType` entry of the ctx -/
def exeForward (dt : Option Nat) (src : List Nat) (dstLen : Nat) : Res :=
  let count := src.length
  if count = 0 ∨ dstLen = 0 then .ok []
  else if count < MIN_BLOCK_SIZE then .err (declInfo "small" 0 0 none #[])
  else if count > MAX_BLOCK_SIZE then .err (declInfo "big" 0 0 none #[])
  else if dstLen < exeMaxEncodedLen count then .err (declInfo "dst" 0 0 none #[])
  else if dtAccepted dt = false then .err (declInfo "notexe" 0 0 none #[])
  else
    (detectExeType (src.take (count - 4)).toArray 0 ((count : Int) - 8)).bind fun d =>
      if d.1 &&& NOT_EXE ≠ 0 then .err (declInfo "notexe" 0 0 none #[])
      else if d.1 &&& 0xF0 = X86 then fwdX86 src dstLen d.2.1 d.2.2
      else if d.1 &&& 0xF0 = ARM64 then fwdARM src dstLen d.2.1 d.2.2
      else .err (declInfo "format" 0 0 none #[])

/-- Go: the value of `ctx["dataType"]` after `Forward` when the codec has a ctx whose entry was `dt`
    before the call (`none` = no entry) -/
def exeCtxWrite (dt : Option Nat) (src : List Nat) (dstLen : Nat) : Option Nat :=
  let count := src.length
  if count = 0 ∨ dstLen = 0 ∨ count < MIN_BLOCK_SIZE ∨ count > MAX_BLOCK_SIZE ∨ dstLen < exeMaxEncodedLen count
      ∨ dtAccepted dt = false then dt
  else
    match detectExeType (src.take (count - 4)).toArray 0 ((count : Int) - 8) with
    | .ok d =>
      if d.1 &&& NOT_EXE ≠ 0 then some (d.1 &&& MASK_DT)
      else
        match exeForward dt src dstLen with
        | .ok _ => some DT_EXE
        | _ => dt
    | _ => dt

/-- Go: `EXECodec.Inverse(src, dst)` with `len(dst) = dstLen`; `v2` = `isBsVersion2` -/
def exeInverse (v2 : Bool) (src : List Nat) (dstLen : Nat) : Res :=
  if src.length = 0 ∨ dstLen = 0 then .ok []
  else if v2 then invV2 src dstLen
  else if src.length < 9 then .err "data"
  else
    match src.head? with
    | some m =>
      if m = X86 then invX86 src dstLen
      else if m = ARM64 then invARM src dstLen
      else .err "type"
    | none => .fault "src-index"

end Kanzi.EXE
