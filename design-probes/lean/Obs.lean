namespace Obs

def wordBits (w : BitVec 64) : List Bool := (List.range 64).map (fun i => w.getMsbD i)

theorem wordBits_length (w) : (wordBits w).length = 64 := by simp [wordBits]

theorem wordBits_get (w : BitVec 64) (i : Nat) (h : i < 64) : (wordBits w)[i]'(by simp [wordBits]; exact h) = w.getMsbD i := by
  simp [wordBits]

/-- merged word in WriteBits -/
def merge (cur v : BitVec 64) (avail n : Nat) : BitVec 64 :=
  cur ||| ((v <<< (64 - n)) >>> (64 - avail))

/-- bit i (msb index) of merge, in the no-overflow case -/
theorem merge_bit (cur v : BitVec 64) (avail n i : Nat) (ha : 1 ≤ avail) (ha2 : avail ≤ 64)
    (hn1 : 1 ≤ n) (hn : n ≤ 64) (hi : i < 64)
    (hinv : ∀ j, 64 - avail ≤ j → j < 64 → cur.getMsbD j = false) :
    (merge cur v avail n).getMsbD i =
      if i < 64 - avail then cur.getMsbD i
      else if i < 64 - avail + n then v.getMsbD (64 - n + (i - (64 - avail)))
      else false := by
  unfold merge
  simp only [BitVec.getMsbD_or, BitVec.getMsbD_ushiftRight, BitVec.getMsbD_shiftLeft]
  by_cases h1 : i < 64 - avail
  · simp [h1]
  · have := hinv i (by omega) hi
    simp only [h1, if_false, this, Bool.false_or]
    by_cases h2 : i < 64 - avail + n
    · simp [hi, Nat.add_comm]
      intro _; omega
    · simp [h2]
      intro _
      apply BitVec.getMsbD_of_ge
      omega

end Obs
