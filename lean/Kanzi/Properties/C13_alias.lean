/-
C13 for the alias codec `transform.AliasCodec` (transform names "PACK" and "DNA") — property theorems
only; proofs in `Kanzi/Proofs/Alias.lean` (main theorems), `AliasDigram.lean` (pair → alias substitution),
`AliasPack.lean` (small-alphabet packing), `AliasBase.lean`, `AliasInv.lean` (faults of Inverse).  The model
(`Kanzi/Model/Alias.lean`) mirrors v2/transform/AliasCodec.go (Forward: early declines by data type,
histogram, free slots, data type detection and its write-back, one symbol / 2-bit / 4-bit packing, digram
aliasing with its header, both "not enough savings" declines; Inverse: header parse, the three unpacking
paths, alias expansion, every index / slice bound; MaxEncodedLen) and is tied to /repo by the `alias`
correspondence stream.

Conventions: a block is a `List Nat` of byte values (hypothesis `∀ x ∈ b, x < 256`); the last argument
of `aliasForward` / `aliasInverse` is `len(dst)` of the Go call; `.ok t` is `dst[0:written]` with a nil
error, `.err c` a non-nil error (Forward declines / Inverse fails), `.fault` a Go run-time panic (index or
slice bounds out of range).  `onlyDNA` is the ctx entry `packOnlyDNA` (`true` = transform "DNA", `false` =
"PACK" and `NewAliasCodec()`), `dt` the ctx entry `dataType` (0 = none); the theorems hold for all of them.
"Input left untouched on decline" is not a theorem here (values are immutable); it is an oracle of the
stream on the real code.
-/
import Kanzi.Model.Alias
import Kanzi.Proofs.Alias
import Kanzi.Proofs.AliasInv
import Kanzi.Generated.Consts

namespace Kanzi.C13
open Kanzi.RLT Kanzi.Alias

/-- C13_alias: for every block of bytes shorter than 2^32 (the one-symbol path stores the length in 32
bits; kanzi blocks have at most 2^30 bytes), both variants (PACK / DNA), every data type hint and every
destination at least as large as advertised by `MaxEncodedLen`: if Forward succeeds, its output is at
most `MaxEncodedLen(len)` bytes long (in fact not longer than the block: otherwise Forward declines with
"not enough savings") and Inverse into ANY destination of at least the original block length restores
the block exactly. -/
theorem C13_alias (onlyDNA : Bool) (dt : Nat) (b t : List Nat) (dstLen : Nat)
    (hb : ∀ x ∈ b, x < 256) (hlen : b.length < 2 ^ 32) (hdst : aliasMaxEncodedLen b.length ≤ dstLen)
    (h : aliasForward onlyDNA dt b dstLen = .ok t) :
    t.length ≤ aliasMaxEncodedLen b.length ∧ ∀ n, b.length ≤ n → aliasInverse t n = .ok b :=
  ⟨Nat.le_trans (alias_roundtrip onlyDNA dt b t dstLen hb hlen hdst h).1 (Nat.le_add_right _ _),
   (alias_roundtrip onlyDNA dt b t dstLen hb hlen hdst h).2.2.2⟩

/-- a successful Forward really compresses: the output is strictly shorter than the (non-empty) block -/
theorem C13_alias_shorter (onlyDNA : Bool) (dt : Nat) (b t : List Nat) (dstLen : Nat)
    (hb : ∀ x ∈ b, x < 256) (hlen : b.length < 2 ^ 32) (hdst : aliasMaxEncodedLen b.length ≤ dstLen)
    (hne : b ≠ []) (h : aliasForward onlyDNA dt b dstLen = .ok t) : t.length < b.length :=
  (alias_roundtrip onlyDNA dt b t dstLen hb hlen hdst h).2.1 hne

/-- C13_alias_bytes: the encoded block consists of byte values -/
theorem C13_alias_bytes (onlyDNA : Bool) (dt : Nat) (b t : List Nat) (dstLen : Nat)
    (hb : ∀ x ∈ b, x < 256) (hlen : b.length < 2 ^ 32) (hdst : aliasMaxEncodedLen b.length ≤ dstLen)
    (h : aliasForward onlyDNA dt b dstLen = .ok t) : ∀ y ∈ t, y < 256 :=
  (alias_roundtrip onlyDNA dt b t dstLen hb hlen hdst h).2.2.1

/-- the pair → alias substitution is correct for ANY header (not only the one the frequency sort
selects): whatever list of `(pair value, alias)` entries is used, as long as the aliases are distinct byte
values that do not occur in the block (`GoodEntries`), the expansion loop of Inverse, run with the map
rebuilt from the header bytes, restores exactly the bytes the emit loop of Forward consumed
(`(emitP …).2` is the byte the emit loop leaves over, which both directions copy verbatim). -/
theorem C13_alias_any_injective_map (entries : List (Nat × Nat)) (a : Nat) (rest : List Nat) (n : Nat)
    (hb : ∀ x ∈ a :: rest, x < 256) (hg : GoodEntries entries (a :: rest)) (hn : (a :: rest).length ≤ n) :
    ∃ cons : List Nat,
      expandLoop (mkImap (headerBytes entries) imapInit) n (emitP (mkMap16 entries) a rest).1 #[]
        = .ok ((#[] : Array Nat) ++ cons) ∧
      cons ++ (emitP (mkMap16 entries) a rest).2.toList = a :: rest :=
  expand_emit _ _ _ (maps_ok entries (a :: rest) hg) n rest.length a rest #[] (Nat.le_refl _)
    (fun x hx => ⟨hb x hx, hx⟩) (by simp at hn ⊢; omega)

/-- C13_alias_total: Forward never indexes out of range (the model marks every slice access of the Go
code that would panic as `.fault`) on any block into any destination of at least `MaxEncodedLen(len)`
bytes, with any hints and both variants; Inverse never faults on a Forward output when the destination has
at least the original length (it returns the block); and for ARBITRARY input Inverse faults EXACTLY when
`invSafe src n = false` (`Kanzi/Proofs/AliasInv.lean`: a decidable structural predicate — header complete,
size field present, and every store of the unpacking / expansion loops inside the destination).  Inverse
of the Go code has no bounds checks of its own besides the one-symbol size field, so `invSafe` does fail
on forged or truncated inputs and on genuine inputs with a too small destination: see the examples
below.  These are observations about malformed input, not violations of C13. -/
theorem C13_alias_total :
    (∀ (onlyDNA : Bool) (dt : Nat) (b : List Nat) (dstLen : Nat) (e : String),
      aliasMaxEncodedLen b.length ≤ dstLen → aliasForward onlyDNA dt b dstLen ≠ .fault e) ∧
    (∀ (onlyDNA : Bool) (dt : Nat) (b t : List Nat) (dstLen n : Nat) (e : String),
      (∀ x ∈ b, x < 256) → b.length < 2 ^ 32 → aliasMaxEncodedLen b.length ≤ dstLen →
      aliasForward onlyDNA dt b dstLen = .ok t → b.length ≤ n → aliasInverse t n ≠ .fault e) ∧
    (∀ (src : List Nat) (n : Nat), (∃ e, aliasInverse src n = .fault e) ↔ invSafe src n = false) :=
  ⟨fun onlyDNA dt b dstLen e hdst => aliasForward_ne_fault onlyDNA dt b dstLen hdst e,
   fun onlyDNA dt b t dstLen n e hb hlen hdst h hn => by
     rw [(alias_roundtrip onlyDNA dt b t dstLen hb hlen hdst h).2.2.2 n hn]; simp,
   fun src n => aliasInverse_fault_iff src n⟩

/-- the hypotheses are satisfiable: every one-symbol block of at least 1024 bytes is accepted by both
variants and packs into six bytes -/
theorem C13_alias_one_symbol_accepted (c k : Nat) (hc : c < 256) (hk : 1024 ≤ k) :
    aliasForward false 0 (List.replicate k c) (aliasMaxEncodedLen k) = .ok ([255, c] ++ le32Bytes k) :=
  aliasForward_one_symbol c k hc hk

/-- the literal constants of the model are those of /repo (`Kanzi/Generated/Consts.lean` is regenerated from
the Go source by every check): minimum block size, the data type codes of the early declines (the other
codes are tied by `ConstsTie.rlt_consts`), and the two transform type codes that build this codec -/
theorem C13_alias_consts :
    Kanzi.Generated.Consts.transform._ALIAS_MIN_BLOCKSIZE = Kanzi.Alias.MIN_BLOCKSIZE ∧
    Kanzi.Generated.Consts.internal.DT_MULTIMEDIA = Kanzi.Alias.DT_MULTIMEDIA ∧
    Kanzi.Generated.Consts.internal.DT_EXE = Kanzi.Alias.DT_EXE ∧
    Kanzi.Generated.Consts.internal.DT_UTF8 = Kanzi.RLT.DT_UTF8 ∧
    Kanzi.Generated.Consts.internal.DT_BIN = Kanzi.RLT.DT_BIN ∧
    Kanzi.Generated.Consts.internal.DT_DNA = Kanzi.RLT.DT_DNA ∧
    Kanzi.Generated.Consts.internal.DT_UNDEFINED = Kanzi.RLT.DT_UNDEFINED ∧
    Kanzi.Generated.Consts.transform.PACK_TYPE = 18 ∧
    Kanzi.Generated.Consts.transform.DNA_TYPE = 19 := by decide

/-- early declines -/
example : aliasForward false 0 [1, 2, 3] 1027 = .err "small" := by decide
example : aliasForward false 0 [1, 2, 3] 1026 = .err "dst" := by decide
example : aliasForward false 0 [] 1024 = .ok [] := by decide
example : aliasInverse [] 10 = .ok [] := by decide

/-- Inverse on the formats (small instances of what Forward writes): one symbol, 2 bits, 4 bits -/
example : aliasInverse [255, 65, 5, 0, 0, 0] 5 = .ok [65, 65, 65, 65, 65] := by decide
example : aliasInverse [254, 65, 67, 1, 67, 0x14] 5 = .ok [67, 65, 67, 67, 65] := by decide
example : aliasInverse [251, 1, 2, 3, 4, 5, 1, 9, 0x04, 0x32] 5 = .ok [9, 1, 5, 4, 3] := by decide

/-- OBSERVATIONS (forged / truncated input, or a too small destination): Inverse panics -/
-- one symbol: size field truncated (`binary.LittleEndian.Uint32` on 1 byte)
example : aliasInverse [255, 65, 3] 10 = .fault "src-index" := by decide
-- 2 symbols announced, adjust byte missing
example : aliasInverse [254, 65, 66] 10 = .fault "src-index" := by decide
-- adjust = 3 but only one byte follows (`src[srcIdx:srcIdx+3]`)
example : aliasInverse [254, 65, 66, 3, 1] 10 = .fault "src-slice" := by decide
-- one packed byte = 4 symbols into a destination of 3 bytes (`PutUint32(dst[0:])`)
example : aliasInverse [254, 65, 66, 0, 0x1B] 3 = .fault "dst-index" := by decide
-- 16 symbols, one packed byte = 2 symbols into a destination of 1 byte
example : aliasInverse [240, 0, 1, 2, 3, 4, 5, 6, 7, 8, 9, 10, 11, 12, 13, 14, 15, 0, 0x12] 1
    = .fault "dst-index" := by decide
-- a nil error with `written = 3 > len(dst) = 2`: the short `copy` followed by `dstIdx += adjust`
example : aliasInverse [254, 65, 66, 3, 1, 2, 3] 2 = .ok [1, 2, 3] := by decide
-- digram header announces 16 entries (48 bytes), 3 bytes follow
example : aliasInverse [16, 0, 1, 2, 3] 10 = .fault "src-index" := by decide

end Kanzi.C13
