/-
Inverse direction of the sorted rank transform (slice `srt`): given the header and the ranks laid
out as Forward writes them, the bucket loop recovers the initial symbol list and the decoding loop
maintains "symbols of the rest of the block in order of next occurrence".
-/
import Kanzi.Proofs.SRTFwd

namespace Kanzi.SRT

/-! ## ranks seen from the decoder -/

/-- first occurrence of a symbol: its rank is its index among the distinct symbols -/
theorem rank_first {b u v : List Nat} {c : Nat} (hb : b = u ++ c :: v) (hc : c ∉ u) :
    rank b u c = (firsts b).idxOf c := by
  unfold rank mtfList
  obtain ⟨w, hw⟩ := firsts_append_cons v hc
  rw [hb, idxOf_firsts v hc, hw]
  have h1 : u.reverse ++ (firsts u ++ c :: w) = (u.reverse ++ firsts u) ++ c :: w := by simp
  rw [h1, idxOf_firsts w (by simp [mem_firsts, hc])]
  apply firsts_length_congr
  intro a; simp [mem_firsts]

/-- later occurrence: the rank is the index of the symbol among the distinct symbols that follow the
    previous occurrence -/
theorem rank_next {b p u v : List Nat} {c : Nat} (hc : c ∉ u) :
    rank b (p ++ c :: u) c = (firsts (u ++ c :: v)).idxOf c := by
  unfold rank mtfList
  have h1 : (p ++ c :: u).reverse ++ firsts b = u.reverse ++ c :: (p.reverse ++ firsts b) := by simp
  rw [h1, idxOf_firsts _ (by simpa using hc), idxOf_firsts v hc]
  apply firsts_length_congr
  intro a; simp

theorem cons_erase_of_idxOf_zero {L : List Nat} {x : Nat} (hx : x ∈ L) (h0 : L.idxOf x = 0) :
    x :: L.erase x = L := by
  cases L with
  | nil => simp at hx
  | cons y t =>
    by_cases e : y = x
    · subst e; simp
    · rw [List.idxOf_cons] at h0
      have : (y == x) = false := by simp [e]
      rw [this] at h0
      simp at h0

theorem head_firsts (x : Nat) (l : List Nat) : (firsts (x :: l))[0]? = some x := by simp [firsts]

/-! ## array helpers -/

theorem shiftDown_size : ∀ (k s : Nat) (a : Array Nat), (shiftDown k s a).size = a.size := by
  intro k
  induction k with
  | zero => intro s a; rfl
  | succ k ih => intro s a; simp only [shiftDown]; rw [ih, size_wr]

theorem shiftDown_rd : ∀ (k s : Nat) (a : Array Nat), s + k < a.size → ∀ j,
    rd (shiftDown k s a) j = if s ≤ j ∧ j < s + k then rd a (j + 1) else rd a j := by
  intro k
  induction k with
  | zero => intro s a _ j; simp [shiftDown]; omega
  | succ k ih =>
    intro s a hs j
    simp only [shiftDown]
    rw [ih (s + 1) _ (by rw [size_wr]; omega) j]
    simp only [rd_wr]
    by_cases h1 : s + 1 ≤ j ∧ j < s + 1 + k
    · have h2 : ¬ (s = j + 1 ∧ s < a.size) := by omega
      have h3 : s ≤ j ∧ j < s + (k + 1) := by omega
      rw [if_pos h1, if_neg h2, if_pos h3]
    · rw [if_neg h1]
      by_cases h4 : s = j
      · subst h4
        have h3 : s ≤ s ∧ s < s + (k + 1) := by omega
        have h5 : s = s ∧ s < a.size := by omega
        rw [if_pos h5, if_pos h3]
      · have h2 : ¬ (s = j ∧ s < a.size) := by omega
        have h3 : ¬ (s ≤ j ∧ j < s + (k + 1)) := by omega
        rw [if_neg h2, if_neg h3]

theorem rd_toArray {l : List Nat} {k v : Nat} (h : l[k]? = some v) : rd l.toArray k = v := by
  simp [rd, Array.getD_eq_getD_getElem?, h]


/-! ## the bucket loop of Inverse -/

/-- the rank data as the decoder sees it: `D = src[headerSize:]` -/
def DataOk (fr : Array Nat) (S b : List Nat) (D : Array Nat) : Prop :=
  D.size = b.length ∧ ∀ j c, b[j]? = some c →
    rd D (startOf fr S c + (b.take j).count c) = rank b (b.take j) c

structure IInv (fr : Array Nat) (S b pre : List Nat) (st : ISt) : Prop where
  rsz : st.r2s.size = 256
  bsz : st.buckets.size = 256
  esz : st.ends.size = 256
  r2s : ∀ c ∈ pre, rd st.r2s ((firsts b).idxOf c) = c
  bk : ∀ c ∈ pre, rd st.buckets c = startOf fr S c + 1 ∧ rd st.ends c = startOf fr S c + rd fr c

theorem idxOf_inj {L : List Nat} {a c : Nat} (ha : a ∈ L) (hc : c ∈ L)
    (h : L.idxOf a = L.idxOf c) : a = c := by
  have h1 := List.getElem_idxOf (List.idxOf_lt_length_of_mem ha)
  have h2 := List.getElem_idxOf (List.idxOf_lt_length_of_mem hc)
  rw [← h1, ← h2]
  simp [h]

theorem first_data {fr : Array Nat} {S b : List Nat} (ctx : Ctx fr S b) {D : Array Nat}
    (hD : DataOk fr S b D) {c : Nat} (hc : c ∈ b) :
    rd D (startOf fr S c) = (firsts b).idxOf c ∧ startOf fr S c < D.size := by
  obtain ⟨u, v, huv, hu⟩ := split_first hc
  have hj : b[u.length]? = some c := by rw [huv]; simp
  have htk : b.take u.length = u := by rw [huv]; simp
  have h1 := hD.2 _ _ hj
  have h2 := ctx.pos_lt hj
  rw [htk, List.count_eq_zero.2 hu] at h1 h2
  rw [rank_first huv hu] at h1
  exact ⟨h1, by rw [hD.1]; exact h2⟩

theorem invInit_inv {fr : Array Nat} {S b : List Nat} (ctx : Ctx fr S b) {D : Array Nat}
    (hD : DataOk fr S b D) :
    ∀ (suf pre : List Nat) (st : ISt), S = pre ++ suf → IInv fr S b pre st →
      ∃ st', invInit fr D suf (total fr pre) st = .ok st' ∧ IInv fr S b S st' := by
  intro suf
  induction suf with
  | nil => intro pre st hS h; exact ⟨st, rfl, by simpa [hS] using h⟩
  | cons c suf ih =>
    intro pre st hS h
    have hnd := ctx.nodup
    rw [hS] at hnd
    have hcpre : c ∉ pre := by
      intro hm
      have := (List.nodup_append.1 hnd).2.2 c hm c (by simp)
      exact this rfl
    have hcS : c ∈ S := by rw [hS]; simp
    have hcb : c ∈ b := (ctx.mem c).1 hcS
    have hc256 := ctx.bytes c hcb
    have hstart : startOf fr S c = total fr pre := by
      rw [hS, startOf_append fr pre _ c hcpre]; simp [startOf]
    obtain ⟨hd1, hd2⟩ := first_data ctx hD hcb
    rw [hstart] at hd1 hd2
    have hcF : c ∈ firsts b := mem_firsts.2 hcb
    have hFlen := bytes_nodup_length_le (nodup_firsts b) (firsts_bytes ctx.bytes)
    have hidx : (firsts b).idxOf c < 256 := by
      have := List.idxOf_lt_length_of_mem hcF; omega
    simp only [invInit]
    have hA : ¬ (total fr pre > D.size) := by omega
    have hB : ¬ (total fr pre ≥ D.size) := by omega
    rw [if_neg hA, if_neg hB]
    have hS' : S = (pre ++ [c]) ++ suf := by rw [hS]; simp
    have htot : total fr (pre ++ [c]) = total fr pre + rd fr c := by
      rw [total_append]; simp [total]
    rw [← htot]
    apply ih (pre ++ [c]) _ hS'
    refine ⟨by simp [size_wr, h.rsz], by simp [size_wr, h.bsz], by simp [size_wr, h.esz], ?_, ?_⟩
    · intro a ha
      rw [hd1, rd_wr]
      rcases List.mem_append.1 ha with hp | hp
      · have hne : a ≠ c := fun e => hcpre (e ▸ hp)
        have haS : a ∈ S := by rw [hS]; simp [hp]
        have haF : a ∈ firsts b := mem_firsts.2 ((ctx.mem a).1 haS)
        have : ¬ ((firsts b).idxOf c = (firsts b).idxOf a ∧ (firsts b).idxOf c < st.r2s.size) :=
          fun ⟨e, _⟩ => hne (idxOf_inj haF hcF e.symm)
        rw [if_neg this]
        exact h.r2s a hp
      · simp at hp
        subst hp
        simp [h.rsz, hidx]
    · intro a ha
      rw [rd_wr, rd_wr]
      rcases List.mem_append.1 ha with hp | hp
      · have hne : a ≠ c := fun e => hcpre (e ▸ hp)
        have h1 : ¬ (c = a ∧ c < st.buckets.size) := fun ⟨e, _⟩ => hne e.symm
        have h2 : ¬ (c = a ∧ c < st.ends.size) := fun ⟨e, _⟩ => hne e.symm
        rw [if_neg h1, if_neg h2]
        exact h.bk a hp
      · simp at hp
        subst hp
        simp [h.bsz, h.esz, hc256, hstart, htot]


/-! ## the decoding loop -/

/-- re-insert the current symbol at its next rank -/
theorem rotate_spec {r2s : Array Nat} {L' : List Nat} {x r : Nat} (hsz : r2s.size = 256)
    (hx : x ∈ L') (hr : L'.idxOf x = r) (hlen : L'.length ≤ 256)
    (hR : ∀ k z, (x :: L'.erase x)[k]? = some z → rd r2s k = z) :
    ∀ k z, L'[k]? = some z → rd (wr (shiftDown r 0 r2s) r x) k = z := by
  have hrl : r < L'.length := by rw [← hr]; exact List.idxOf_lt_length_of_mem hx
  have hers : L'.erase x = L'.eraseIdx r := List.erase_eq_eraseIdx_of_idxOf hr
  have hLr : L'[r]? = some x := by
    rw [getElem?_of_lt hrl]; subst hr; simp
  intro k z hk
  rw [rd_wr, shiftDown_size, hsz]
  by_cases e : r = k
  · subst e
    rw [hLr] at hk
    simp at hk
    have : r = r ∧ r < 256 := by omega
    rw [if_pos this]; exact hk
  · have : ¬ (r = k ∧ r < 256) := fun ⟨e', _⟩ => e e'
    rw [if_neg this, shiftDown_rd r 0 r2s (by omega)]
    by_cases hkr : k < r
    · have : 0 ≤ k ∧ k < 0 + r := by omega
      rw [if_pos this]
      apply hR (k + 1) z
      simp only [List.getElem?_cons_succ, hers, List.getElem?_eraseIdx, if_pos hkr]
      exact hk
    · have : ¬ (0 ≤ k ∧ k < 0 + r) := by omega
      rw [if_neg this]
      apply hR k z
      obtain ⟨k0, rfl⟩ : ∃ k0, k = k0 + 1 := ⟨k - 1, by omega⟩
      have hk0 : ¬ k0 < r := by omega
      simp only [List.getElem?_cons_succ, hers, List.getElem?_eraseIdx, if_neg hk0]
      exact hk

theorem invGo_tail (D ends : Array Nat) : ∀ (k c : Nat) (r2s buckets out : Array Nat),
    ¬ (rd buckets c < rd ends c) →
    ∃ res, invGo D ends k c r2s buckets 1 out = some res ∧
      res.toList = out.toList ++ List.replicate k c := by
  intro k
  induction k with
  | zero => intro c r2s buckets out _; exact ⟨out, rfl, by simp⟩
  | succ k ih =>
    intro c r2s buckets out h
    simp only [invGo, if_neg h, if_true]
    obtain ⟨res, h1, h2⟩ := ih c r2s buckets (out.push c) h
    exact ⟨res, h1, by rw [h2]; simp [List.replicate_succ]⟩

structure GInv (fr : Array Nat) (S b : List Nat) (i : Nat) (s : List Nat) (c : Nat)
    (r2s buckets : Array Nat) (nb : Nat) : Prop where
  rsz : r2s.size = 256
  bsz : buckets.size = 256
  r2s : ∀ k x, (firsts s)[k]? = some x → rd r2s k = x
  nb : nb = (firsts s).length
  cur : s.head? = some c
  bk : ∀ x ∈ s, rd buckets x = startOf fr S x + (b.take i).count x + 1

theorem head_firsts' {s : List Nat} (hs : s ≠ []) :
    ∃ y, s.head? = some y ∧ (firsts s)[0]? = some y := by
  cases s with
  | nil => exact absurd rfl hs
  | cons y t => exact ⟨y, rfl, by simp [firsts]⟩

theorem head_of_idxOf_zero {s : List Nat} {x : Nat} (hx : x ∈ s)
    (h0 : (firsts s).idxOf x = 0) : s.head? = some x := by
  cases s with
  | nil => simp at hx
  | cons y t =>
    by_cases e : y = x
    · simp [e]
    · simp only [firsts] at h0
      rw [List.idxOf_cons] at h0
      have : (y == x) = false := by simp [e]
      rw [this] at h0
      simp at h0

theorem getElem?_split (p v : List Nat) (x : Nat) : (p ++ x :: v)[p.length]? = some x := by simp
theorem take_split (p v : List Nat) (x : Nat) : (p ++ x :: v).take p.length = p := by simp


theorem invGo_main {fr : Array Nat} {S b : List Nat} (ctx : Ctx fr S b) {D ends : Array Nat}
    (hD : DataOk fr S b D) (hE : ∀ x ∈ S, rd ends x = startOf fr S x + rd fr x) :
    ∀ (s : List Nat) (i k c : Nat) (r2s buckets : Array Nat) (nb : Nat) (out : Array Nat),
      b.drop i = s → s ≠ [] → GInv fr S b i s c r2s buckets nb → s.length ≤ k →
      ∃ res tl, invGo D ends k c r2s buckets nb out = some res ∧
        res.toList = out.toList ++ s ++ tl := by
  intro s
  induction s with
  | nil => intro i k c r2s buckets nb out _ h; exact absurd rfl h
  | cons x s' ih =>
    intro i k c r2s buckets nb out hq _ h hk
    obtain ⟨hbi, hq'⟩ := drop_cons_getElem? hq
    have hcx : c = x := by have := h.cur; simp at this; exact this.symm
    subst hcx
    obtain ⟨k', rfl⟩ : ∃ k', k = k' + 1 := ⟨k - 1, by simp at hk; omega⟩
    have hk' : s'.length ≤ k' := by simp at hk; omega
    have htk := take_succ_of_getElem? hbi
    have hbsplit : b = b.take i ++ c :: s' := by
      have := List.take_append_drop i b; rw [hq] at this; exact this.symm
    have hcb : c ∈ b := List.mem_of_getElem? hbi
    have hcS : c ∈ S := (ctx.mem c).2 hcb
    have hc256 := ctx.bytes c hcb
    have hbc := h.bk c (by simp)
    have hEc := hE c hcS
    rw [ctx.fr c hc256] at hEc
    have hcnt : b.count c = (b.take i).count c + 1 + s'.count c := by
      have := congrArg (List.count c) hbsplit
      simp only [List.count_append, List.count_cons_self] at this
      omega
    have hsub : ∀ z ∈ s', z ∈ b := by
      intro z hz; rw [hbsplit]; simp [hz]
    have hL'b : ∀ z ∈ firsts s', z < 256 := fun z hz => ctx.bytes z (hsub z (mem_firsts.1 hz))
    have hL'len := bytes_nodup_length_le (nodup_firsts s') hL'b
    have hfs : firsts (c :: s') = c :: (firsts s').erase c := rfl
    -- bucket table after consuming one more rank of `c`
    have hbk' : ∀ z ∈ s', rd (wr buckets c (rd buckets c + 1)) z =
        startOf fr S z + (b.take (i + 1)).count z + 1 := by
      intro z hz
      rw [rd_wr, htk, List.count_append, List.count_singleton]
      by_cases e : c = z
      · subst e; simp [h.bsz, hc256, hbc]; omega
      · have : ¬ (c = z ∧ c < buckets.size) := fun ⟨e', _⟩ => e e'
        rw [if_neg this, h.bk z (by simp [hz])]
        simp [e]
    have hbk0 : ∀ z ∈ s', c ∉ s' → rd buckets z = startOf fr S z + (b.take (i + 1)).count z + 1 := by
      intro z hz hc
      have e : c ≠ z := fun e => hc (e ▸ hz)
      rw [h.bk z (by simp [hz]), htk, List.count_append, List.count_singleton]
      simp [e]
    have hres : ∀ (res : Array Nat) (tl : List Nat), res.toList = (out.push c).toList ++ s' ++ tl →
        res.toList = out.toList ++ c :: s' ++ tl := by
      intro res tl e; rw [e]; simp
    by_cases hcs : c ∈ s'
    · -- the symbol occurs again
      obtain ⟨u, v, huv, hu⟩ := split_first hcs
      have hb2 : b = (b.take i ++ c :: u) ++ c :: v := by
        rw [List.append_assoc, List.cons_append, ← huv]; exact hbsplit
      have hbj : b[(b.take i ++ c :: u).length]? = some c := by
        have := getElem?_split (b.take i ++ c :: u) v c; rwa [← hb2] at this
      have htkj : b.take (b.take i ++ c :: u).length = b.take i ++ c :: u := by
        have := take_split (b.take i ++ c :: u) v c; rwa [← hb2] at this
      have hdat := hD.2 _ _ hbj
      have hposj := ctx.pos_lt hbj
      have hcntj := count_take_lt_all hbj
      rw [htkj] at hdat hposj hcntj
      have hcu : (b.take i ++ c :: u).count c = (b.take i).count c + 1 := by
        simp [List.count_append, List.count_eq_zero.2 hu]
      rw [hcu] at hdat hposj hcntj
      rw [rank_next (p := b.take i) (v := v) hu, ← huv] at hdat
      have hcL' : c ∈ firsts s' := mem_firsts.2 hcs
      have hlt : rd buckets c < rd ends c := by omega
      have hnf : ¬ (rd buckets c ≥ D.size) := by rw [hD.1]; omega
      have hrd : rd D (rd buckets c) = (firsts s').idxOf c := by
        rw [hbc]; exact hdat
      simp only [invGo, if_pos hlt, if_neg hnf]
      by_cases hr0 : rd D (rd buckets c) = 0
      · rw [if_pos hr0]
        rw [hrd] at hr0
        have hsame : firsts (c :: s') = firsts s' := by
          rw [hfs]; exact cons_erase_of_idxOf_zero hcL' hr0
        obtain ⟨res, tl, h1, h2⟩ := ih (i + 1) k' c r2s (wr buckets c (rd buckets c + 1)) nb
          (out.push c) hq' (by intro e; rw [e] at hcs; simp at hcs)
          ⟨h.rsz, by rw [size_wr]; exact h.bsz, by rw [← hsame]; exact h.r2s,
            by rw [← hsame]; exact h.nb, head_of_idxOf_zero hcs hr0, hbk'⟩ hk'
        exact ⟨res, tl, h1, hres res tl h2⟩
      · rw [if_neg hr0]
        have hne : s' ≠ [] := by intro e; rw [e] at hcs; simp at hcs
        obtain ⟨y, hy1, hy2⟩ := head_firsts' hne
        have hrot := rotate_spec h.rsz hcL' hrd.symm hL'len (by rw [← hfs]; exact h.r2s)
        obtain ⟨res, tl, h1, h2⟩ := ih (i + 1) k'
          (rd (wr (shiftDown (rd D (rd buckets c)) 0 r2s) (rd D (rd buckets c)) c) 0)
          (wr (shiftDown (rd D (rd buckets c)) 0 r2s) (rd D (rd buckets c)) c)
          (wr buckets c (rd buckets c + 1)) nb (out.push c) hq' hne
          ⟨by rw [size_wr, shiftDown_size]; exact h.rsz, by rw [size_wr]; exact h.bsz, hrot,
            by
              rw [h.nb, hfs, List.length_cons, List.length_erase, if_pos hcL']
              have := List.length_pos_of_mem hcL'
              omega,
            by rw [hrot 0 y hy2]; exact hy1, hbk'⟩ hk'
        exact ⟨res, tl, h1, hres res tl h2⟩
    · -- last occurrence of the symbol
      have hc0 : s'.count c = 0 := List.count_eq_zero.2 hcs
      have hlt : ¬ (rd buckets c < rd ends c) := by omega
      have hcL' : c ∉ firsts s' := fun hm => hcs (mem_firsts.1 hm)
      have hfs' : firsts (c :: s') = c :: firsts s' := by
        rw [hfs, List.erase_of_not_mem hcL']
      simp only [invGo, if_neg hlt]
      by_cases hne : s' = []
      · subst hne
        have hnb : nb = 1 := by rw [h.nb]; simp [firsts]
        rw [if_pos hnb, hnb]
        obtain ⟨res, h1, h2⟩ := invGo_tail D ends k' c r2s buckets (out.push c) hlt
        exact ⟨res, List.replicate k' c, h1, by rw [h2]; simp⟩
      · obtain ⟨y, hy1, hy2⟩ := head_firsts' hne
        have hL'pos : 0 < (firsts s').length := by
          rcases List.getElem?_eq_some_iff.1 hy2 with ⟨hl, _⟩; exact hl
        have hnb : nb = (firsts s').length + 1 := by rw [h.nb, hfs']; simp
        have hnb1 : ¬ (nb = 1) := by omega
        rw [if_neg hnb1]
        have hLlen : (firsts (c :: s')).length ≤ 256 := by
          apply bytes_nodup_length_le (nodup_firsts _)
          intro z hz
          rcases List.mem_cons.1 (mem_firsts.1 hz) with e | e
          · rw [e]; exact hc256
          · exact ctx.bytes z (hsub z e)
        rw [hfs', List.length_cons] at hLlen
        have hsd : ∀ k z, (firsts s')[k]? = some z → rd (shiftDown (nb - 1) 0 r2s) k = z := by
          intro k z hkz
          have hkl : k < (firsts s').length := (List.getElem?_eq_some_iff.1 hkz).1
          rw [shiftDown_rd (nb - 1) 0 r2s (by rw [h.rsz]; omega)]
          have : 0 ≤ k ∧ k < 0 + (nb - 1) := by omega
          rw [if_pos this]
          apply h.r2s (k + 1) z
          rw [hfs']; simpa using hkz
        obtain ⟨res, tl, h1, h2⟩ := ih (i + 1) k' (rd (shiftDown (nb - 1) 0 r2s) 0)
          (shiftDown (nb - 1) 0 r2s) buckets (nb - 1) (out.push c) hq' hne
          ⟨by rw [shiftDown_size]; exact h.rsz, h.bsz, hsd, by omega,
            by rw [hsd 0 y hy2]; exact hy1, fun z hz => hbk0 z hz hcs⟩ hk'
        exact ⟨res, tl, h1, hres res tl h2⟩


/-! ## Inverse as a whole -/

theorem srtInverse_spec (b data : List Nat) (n : Nat) (hb : ∀ x ∈ b, x < 256) (hne : b ≠ [])
    (hfreq : ∀ c, b.count c < 2 ^ 31) (hlen : data.length = b.length)
    (hdata : ∀ j c, b[j]? = some c →
      data[startOf (freqsOf b) (preprocess (freqsOf b)) c + (b.take j).count c]? =
        some (rank b (b.take j) c))
    (hn : b.length ≤ n) :
    srtInverse (encodeHeader (freqsOf b).toList ++ data) n = .ok b := by
  have ctx := ctx_of b hb
  have hlen0 : b.length ≠ 0 := fun h => hne (List.length_eq_zero_iff.1 h)
  have hfl : (freqsOf b).toList.length = 256 := by rw [Array.length_toList, freqsOf_size b hb]
  have hhl := encodeHeader_length_ge (freqsOf b).toList
  have hdec := decodeHeader_encodeHeader (freqsOf b).toList hfl (freqsOf_toList_lt b hb _ hfreq) data
  have hD : DataOk (freqsOf b) (preprocess (freqsOf b)) b data.toArray := by
    refine ⟨by simp [hlen], ?_⟩
    intro j c hj
    exact rd_toArray (hdata j c hj)
  obtain ⟨st, hst, hI⟩ := invInit_inv ctx hD (preprocess (freqsOf b)) [] ⟨zeros, zeros, zeros⟩ rfl
    ⟨zeros_size, zeros_size, zeros_size, by intro c h; simp at h, by intro c h; simp at h⟩
  have hE : ∀ x ∈ preprocess (freqsOf b), rd st.ends x =
      startOf (freqsOf b) (preprocess (freqsOf b)) x + rd (freqsOf b) x := fun x hx => (hI.bk x hx).2
  have hr2s : ∀ k x, (firsts b)[k]? = some x → rd st.r2s k = x := by
    intro k x hk
    have hxF : x ∈ firsts b := List.mem_of_getElem? hk
    have hxS : x ∈ preprocess (freqsOf b) := (ctx.mem x).2 (mem_firsts.1 hxF)
    have h1 := hI.r2s x hxS
    obtain ⟨hkl, hke⟩ := List.getElem?_eq_some_iff.1 hk
    have : (firsts b).idxOf x = k := by
      rw [← hke]; exact (nodup_firsts b).idxOf_getElem k hkl
    rw [this] at h1; exact h1
  obtain ⟨y, hy1, hy2⟩ := head_firsts' hne
  have hG : GInv (freqsOf b) (preprocess (freqsOf b)) b 0 b (rd st.r2s 0) st.r2s st.buckets
      (preprocess (freqsOf b)).length := by
    refine ⟨hI.rsz, hI.bsz, hr2s, ?_, by rw [hr2s 0 y hy2]; exact hy1, ?_⟩
    · apply length_eq_of_nodup_mem ctx.nodup (nodup_firsts b)
      intro a; rw [ctx.mem a, mem_firsts]
    · intro x hx
      rw [(hI.bk x ((ctx.mem x).2 hx)).1]; simp
  obtain ⟨res, tl, hres, hrl⟩ := invGo_main ctx hD hE b 0 n (rd st.r2s 0) st.r2s st.buckets
    (preprocess (freqsOf b)).length #[] rfl hne hG hn
  unfold srtInverse
  have hA : ¬ ((encodeHeader (freqsOf b).toList ++ data).length = 0 ∨ n = 0) := by
    rw [List.length_append]; omega
  rw [if_neg hA, hdec]
  have hB : ¬ (data.length > n) := by omega
  simp only [if_neg hB, Array.toArray_toList]
  have hst' : invInit (freqsOf b) data.toArray (preprocess (freqsOf b)) 0 ⟨zeros, zeros, zeros⟩ = .ok st := hst
  rw [hst']
  simp only [hres, hrl, hlen]
  simp

end Kanzi.SRT
