/-
C03 (the decoder is total) — the ANS range decoder (`ANSRangeDecoder` of
v2/entropy/ANSRangeCodec.go, order 0 and order 1, with `DecodeAlphabet` / `ReadVarInt` of
EntropyUtils.go) on ARBITRARY input.  Property theorems only; proofs in `Kanzi/Proofs/AnsDec.lean`
and `Kanzi/Proofs/AnsDecAgree.lean`.  The model `Kanzi/Model/AnsDec.lean` is tied to /repo by the
`ansdec` stream: the real decoders on forged inputs (mutated encodings, truncations, crafted
headers and sizes, random bytes) must end every `Read` exactly as the model says — same bytes, same
error, same class of panic, same `len(this.f2s)` and `len(this.buffer)`.

Vocabulary.  `read p s bs count` = `Read(make([]byte, count))` of a decoder built with parameters
`p` (`mkParams` = the three constructors), whose object state is `s` (`fresh p.order` for a new
decoder; `this.symbols`, `this.f2s`, `this.buffer` persist between calls), on the input bits `bs`.
Its `cls` is `ret n err` (normal return), or `stop eos` (the input bitstream ran out: the panic
"No more data to read in the bitstream"), `stop overrun` (`ReadArray` asked to put `sz` bytes in a
shorter `this.buffer`: panics inside the bitstream), `stop fault` (index / slice bounds out of range
in the codec), or `fuel` (the model's chunk loop ran out of fuel).  In the real code every decoding
task runs under a deferred `recover`, so `stop eos` and `stop overrun` are block errors, i.e.
observations, not violations of C03; a violation would be an unbounded loop, an allocation not
bounded by the declared sizes, or (in a helper goroutine without recover) any panic.

`Inv order syms f2s`: the decoder object has its constructor-given `len(this.symbols) ≥ dim·256`
(`dim = 255·order + 1`) and `this.f2s` holds bytes; true of a new decoder (`C03_ans_inv_fresh`) and
kept by every `Read` that returns without error (`C03_ans_inv_kept`), so the theorems apply to any
sequence of `Read` calls on one decoder.
-/
import Kanzi.Model.AnsDec
import Kanzi.Proofs.AnsDec
import Kanzi.Proofs.AnsDecAgree1

namespace Kanzi.C03
open Kanzi.Bits Kanzi.EntSmall Kanzi.AnsDec

/-- the three constructors only produce order 0 or 1, a chunk size in `[1024, 2^27]` (so the chunk
loop advances), and record the bitstream version of the context (6 without context) -/
theorem C03_ans_params (o c v : Option Nat) (p : Params) (h : mkParams o c v = some p) :
    (p.order = 0 ∨ p.order = 1) ∧ 1024 ≤ p.chunkSize ∧ p.chunkSize ≤ 2 ^ 27 ∧ p.bsVersion = v.getD 6 :=
  mkParams_facts o c v p h

theorem C03_ans_inv_fresh (order : Nat) : Inv order (fresh order).syms (fresh order).f2s :=
  fresh_inv order

/-! ## termination -/

/-- **C03_ans_terminates.**  For EVERY input, decoder state and bitstream version (1 included), a
`Read` of `count` bytes ends: the chunk loop `for startChunk < end` of the model is given
`chunksOf chunkSize count = count / chunkSize + 2` units of fuel (one per chunk, one for the final
test) and never exhausts them.  Every other loop of the decoder is bounded by a constant or by a
value the code has checked, and is a structural recursion in the model:
  * `ReadVarInt`: at most 5 bytes; `DecodeAlphabet`: at most 32 mask bytes × 8 flags;
  * `decodeHeader`: `dim` contexts × (at most `256/6 + 1` frequency groups of at most 8 values, then
    256 symbols whose reverse-mapping runs total exactly `2^lr ≤ 32768` slots: `C03_ans_table_sum`);
  * `decodeChunkV2`: `ReadArray` of `sz ≤ len(buffer)` bytes, at most 64 guard bytes, `len/4` rounds
    of four `decodeSymbol` (no inner loop: at most one 16-bit refill each), `len%4` tail bytes;
  * `decodeChunkV1` (version 1): each renormalisation loop reads two bytes per iteration and stops
    at the end of `this.buffer` at the latest (`C03_ans_v1_renorm_fuel`).
So the time of one `Read` is `O((count/chunkSize + 1) · dim · 2^15 + count)`, independent of the
payload contents. -/
theorem C03_ans_terminates (p : Params) (hcs : 0 < p.chunkSize) (s : St) (bs : Bits) (count : Nat) :
    (read p s bs count).cls ≠ .fuel :=
  read_terminates p hcs s bs count

/-- the same for the loop itself with its explicit bound: `ceil(count/chunkSize) + 1` iterations -/
theorem C03_ans_loop_bound (p : Params) (hcs : 0 < p.chunkSize) (fuel count : Nat) (acc : List Nat)
    (syms : Array DecSym) (f2s buf : Array Nat) (bs : Bits)
    (hf : (count + p.chunkSize - 1) / p.chunkSize + 1 ≤ fuel) :
    (readLoop p fuel count acc syms f2s buf bs).cls ≠ .fuel :=
  readLoop_terminates p hcs fuel count acc syms f2s buf bs hf

/-- the frequency table of a context sums to the scale on every accepted header, whatever the
input: the reverse-mapping loops write exactly `2^lr` slots -/
theorem C03_ans_table_sum (a : List Nat) (lr : Nat) (bs : Bits) (tbl : List Nat) (r : Bits)
    (hs : a.Pairwise (· < ·)) (hlt : ∀ s ∈ a, s < 256) (hne : a ≠ [])
    (h : freqTableR a lr bs = .ok (tbl, r)) : tbl.length = 256 ∧ tbl.sum = 2 ^ lr :=
  (freqTableR_safe a lr bs hs hlt hne).of_ok h

/-! ## no fault, bounded allocation (bitstream versions 0, 2..6: `decodeChunkV2`) -/

/-- **C03_ans_no_fault.**  On ARBITRARY input bits, for order 0 and order 1, any chunk size, any
number of previous `Read` calls: the model never indexes out of range (`stop fault`), in
`decodeHeader` (`f[alphabet[j]]`, `freq2sym[sum+j]`, the slices of `this.f2s` / `this.symbols`), in
the main loop of `decodeChunkV2` (`f2s[(prv<<lr)+(st&mask)]` even with NEGATIVE or wrapped states and
stale tables of another log range, `symbols[..]`, `buffer[n]`, `buffer[n+1]`), in the tail.  The
only abnormal ends are the bitstream's own panics (`eos`, `overrun`). -/
theorem C03_ans_no_fault (p : Params) (hv : p.bsVersion ≠ 1) (hcs : 0 < p.chunkSize) (s : St) (bs : Bits)
    (count : Nat) (hinv : Inv p.order s.syms s.f2s) :
    (read p s bs count).cls ≠ .stop .fault ∧ (read p s bs count).cls ≠ .stop .err :=
  ⟨(read_good p hv hcs s bs count hinv).noFault, (read_good p hv hcs s bs count hinv).noErrStop⟩

/-- **C03_ans_alloc_bound.**  However a `Read` of `count` bytes ends, the two slices the decoder
allocates from stream-controlled values are bounded by the declared sizes only:
`len(this.f2s) ≤ max(before, dim·32768)` (`dim` = 1 or 256: 32 KiB / 8 MiB) and
`len(this.buffer) ≤ max(before, 2·min(chunkSize, count), 256)`: a forged payload size up to `2^27`
is never allocated.  (Both slices are only ever replaced by longer ones, so these are the largest
allocations; `this.symbols` / `this.freqs` are allocated by the constructor: `dim·256` entries.) -/
theorem C03_ans_alloc_bound (p : Params) (hv : p.bsVersion ≠ 1) (hcs : 0 < p.chunkSize) (s : St) (bs : Bits)
    (count : Nat) (hinv : Inv p.order s.syms s.f2s) :
    (read p s bs count).f2sSz ≤ max s.f2s.size (dimOf p.order * 2 ^ 15) ∧
    (read p s bs count).bufSz ≤ max s.buf.size (max (2 * min p.chunkSize count) 256) :=
  ⟨(read_good p hv hcs s bs count hinv).f2sLe, (read_good p hv hcs s bs count hinv).bufLe⟩

/-- for a new decoder: at most `dim·32768` and `max(2·min(chunkSize, count), 256)` bytes -/
theorem C03_ans_alloc_bound_fresh (p : Params) (hv : p.bsVersion ≠ 1) (hcs : 0 < p.chunkSize) (bs : Bits)
    (count : Nat) :
    (read p (fresh p.order) bs count).f2sSz ≤ dimOf p.order * 2 ^ 15 ∧
    (read p (fresh p.order) bs count).bufSz ≤ max (2 * min p.chunkSize count) 256 := by
  have h := C03_ans_alloc_bound p hv hcs (fresh p.order) bs count (fresh_inv p.order)
  have hs : (fresh p.order).f2s.size = 0 := rfl
  have hb : (fresh p.order).buf.size = 0 := rfl
  rw [hs, hb] at h
  constructor
  · have := h.1; omega
  · have := h.2; omega

/-- **summary for a decoder as the library builds it** (any of the three constructors, any accepted
arguments, bitstream version other than 1) reading its first block: the `Read` ends, never faults, and
allocates at most `dim·32768 + max(2·min(chunkSize, count), 256)` bytes beyond what the constructor
allocated, `dim ∈ {1, 256}` — whatever the input bits are -/
theorem C03_ans_total (o c v : Option Nat) (p : Params) (h : mkParams o c v = some p) (hv : v.getD 6 ≠ 1)
    (bs : Bits) (count : Nat) :
    (read p (fresh p.order) bs count).cls ≠ .fuel ∧
    (read p (fresh p.order) bs count).cls ≠ .stop .fault ∧
    (read p (fresh p.order) bs count).f2sSz ≤ dimOf p.order * 2 ^ 15 ∧
    (read p (fresh p.order) bs count).bufSz ≤ max (2 * min p.chunkSize count) 256 ∧
    (dimOf p.order = 1 ∨ dimOf p.order = 256) := by
  obtain ⟨ho, hc1, _, hbv⟩ := C03_ans_params o c v p h
  have hv' : p.bsVersion ≠ 1 := by rw [hbv]; exact hv
  have hcs : 0 < p.chunkSize := by omega
  refine ⟨C03_ans_terminates p hcs _ bs count,
    (C03_ans_no_fault p hv' hcs _ bs count (fresh_inv p.order)).1,
    (C03_ans_alloc_bound_fresh p hv' hcs bs count).1, (C03_ans_alloc_bound_fresh p hv' hcs bs count).2, ?_⟩
  rcases ho with h0 | h1
  · left; rw [h0]; rfl
  · right; rw [h1]; rfl

/-- a `Read` that returns without error leaves an object satisfying the invariant again, whose slice
lengths are the reported ones: the three theorems above hold for every `Read` of a sequence -/
theorem C03_ans_inv_kept (p : Params) (hv : p.bsVersion ≠ 1) (hcs : 0 < p.chunkSize) (s : St) (bs : Bits)
    (count n : Nat) (hinv : Inv p.order s.syms s.f2s) (h : (read p s bs count).cls = .ret n false) :
    Inv p.order (read p s bs count).st.syms (read p s bs count).st.f2s ∧
    (read p s bs count).st.f2s.size = (read p s bs count).f2sSz ∧
    (read p s bs count).st.buf.size = (read p s bs count).bufSz :=
  (read_good p hv hcs s bs count hinv).inv n h

/-- `this.buffer` holds bytes after a `Read` that returns without error (with `C03_ans_inv_kept`: the
hypotheses of the agreement theorems below are kept by every successful `Read`) -/
theorem C03_ans_buf_kept (p : Params) (s : St) (bs : Bits) (count n : Nat) (hb : Bytes s.buf)
    (h : (read p s bs count).cls = .ret n false) : Bytes (read p s bs count).st.buf :=
  read_buf p s bs count n hb h

/-! ## agreement with the proved inverse decoders on encoder output -/

/-- **C03_ans_agrees (order 0).**  For every block of bytes, chunk size `0 < cs < 2^26`, log range
`8..15`: on the output of `ANSRangeEncoder.Write` (model `ans0Encode`) followed by any bits `rest`,
the decoder of `Model/EntSmall.lean` that `C12_ans0_block` is about AND the total decoder model of
this file — started from ANY decoder object satisfying the invariant (new, or left by earlier
`Read`s: stale `f2s` / `symbols` / `buffer` contents are never observed) — return exactly the block
and leave exactly `rest`.  So the order-0 round-trip theorem holds for the model that follows the Go
code on arbitrary input; in particular no `eos` / `overrun` / error on encoder output. -/
theorem C03_ans0_agrees (blk : List Nat) (cs lr v : Nat) (hlr : 8 ≤ lr ∧ lr ≤ 15) (hcs : 0 < cs ∧ cs < 2 ^ 26)
    (hv : v ≠ 1) (hb : ∀ b ∈ blk, b < 256) :
    ∃ enc, ans0Encode blk cs lr = some enc ∧
      ∀ (rest : Bits) (s : St), Inv 0 s.syms s.f2s → Bytes s.buf →
        ans0Decode (enc ++ rest) blk.length cs = some (blk, rest) ∧
        (read ⟨0, cs, v⟩ s (enc ++ rest) blk.length).cls = .ret blk.length false ∧
        (read ⟨0, cs, v⟩ s (enc ++ rest) blk.length).out = blk ∧
        (read ⟨0, cs, v⟩ s (enc ++ rest) blk.length).rest = rest :=
  agrees0 blk cs lr v hlr hcs hv hb

/-- **C03_ans_agrees (order 1).**  The same for the order-1 codec (`ans1Encode`, 256 contexts, four
interleaved walks): the proved decoder of `Model/Ans1.lean` (`C12_ans1_block`, from any previous
tables) and the total model (from any decoder object) both return the block and leave `rest`.  The
total model keeps the flat Go arrays, so contexts whose alphabet is empty in this chunk hold stale
entries, possibly of another log range: the proof shows that encoder output never walks into them. -/
theorem C03_ans1_agrees (blk : List Nat) (cs lr v : Nat) (hlr : 8 ≤ lr ∧ lr ≤ 15) (hcs : 0 < cs ∧ cs < 2 ^ 26)
    (hv : v ≠ 1) (hb : ∀ b ∈ blk, b < 256) :
    ∃ enc, Kanzi.Ans1.ans1Encode blk cs lr = some enc ∧
      ∀ (rest : Bits) (s : St), Inv 1 s.syms s.f2s → Bytes s.buf →
        (∀ prev : List (List Nat), prev.length = 256 →
          Kanzi.Ans1.ans1Decode (enc ++ rest) blk.length cs prev = some (blk, rest)) ∧
        (read ⟨1, cs, v⟩ s (enc ++ rest) blk.length).cls = .ret blk.length false ∧
        (read ⟨1, cs, v⟩ s (enc ++ rest) blk.length).out = blk ∧
        (read ⟨1, cs, v⟩ s (enc ++ rest) blk.length).rest = rest :=
  agrees1 blk cs lr v hlr hcs hv hb

/-- the decoder-to-decoder part holds on ANY input, not only encoder output: whenever the proved
order-0 header decoder accepts a header with a non-empty alphabet, `decodeHeader` of the total model
accepts it too, reads the same bits, and its flat `f2s` / `symbols` arrays hold exactly the slot table
`mkDecTable tbl lr` of the proved model -/
theorem C03_ans0_header_agrees (bs : Bits) (a tbl : List Nat) (lr : Nat) (r : Bits)
    (h : ansDecodeHeader bs = some ((a, tbl, lr), r)) (hne : a ≠ [])
    (f2s : Array Nat) (syms : Array DecSym) (hsy : 256 ≤ syms.size) (hb : Bytes f2s) :
    ∃ l r0 hd, readBits 3 bs = some (l, r0) ∧ lr = 8 + l ∧ hdrBody 1 lr f2s syms r0 = .ok hd ∧
      hd.res = a.length ∧ hd.a0 = a.headD 0 ∧ hd.rest = r ∧
      TabRel hd.f2s hd.syms 0 0 (decTblL lr 0 0 tbl) ∧ tbl.length = 256 ∧ tbl.sum = 2 ^ lr ∧
      2 ^ lr ≤ hd.f2s.size ∧ hd.syms.size = syms.size ∧ Bytes hd.f2s :=
  hdr0_agree bs a tbl lr r h hne f2s syms hsy hb

/-- and the main loop: on ANY four 32-bit states, ANY buffer contents and any consistent table, the
four-state loop of the total model (Go `int` arithmetic with wrap-around, bounds-checked flat arrays)
computes what `decRounds` of the proved model computes on the bytes of the real buffer -/
theorem C03_ans0_loop_agrees (lr : Nat) (f2s : Array Nat) (syms : Array DecSym) (buf : Array Nat)
    (T : List (Nat × DecSym)) (hrel : TabRel f2s syms 0 0 T) (hok : TabOk lr T) (hf : 2 ^ lr ≤ f2s.size)
    (hs : 256 ≤ syms.size) (hb : Bytes buf) (m x0 x1 x2 x3 n : Nat) (h0 : x0 < 2 ^ 32) (h1 : x1 < 2 ^ 32)
    (h2 : x2 < 2 ^ 32) (h3 : x3 < 2 ^ 32) (hn : n + 8 * m ≤ buf.size) :
    ∃ (y0 y1 y2 y3 n' : Nat),
      rounds0 lr f2s syms buf m ⟨x0, x1, x2, x3, n⟩
        = .ok ((decRounds T.toArray lr m ⟨x0, x1, x2, x3, buf.toList.drop n⟩).1, ⟨(y0 : Int), y1, y2, y3, n'⟩) ∧
      (decRounds T.toArray lr m ⟨x0, x1, x2, x3, buf.toList.drop n⟩).2 = ⟨y0, y1, y2, y3, buf.toList.drop n'⟩ ∧
      n ≤ n' ∧ n' ≤ n + 8 * m :=
  rounds0_agree lr f2s syms buf T hrel hok hf hs hb m x0 x1 x2 x3 n h0 h1 h2 h3 hn

/-! ## the oversize payload (the one place where the real decoder CAN panic on forged input) -/

/-- **C03_ans_overrun_iff.**  Exact condition for `decodeChunkV2` to end in the oversize `ReadArray`:
the VarInt payload size is accepted (`< 2^27`), the four 32-bit states are there, and the size exceeds
`len(this.buffer)` after the code's own `max(2·len(block), 256)` rule.  Decidable on the input. -/
theorem C03_ans_overrun_iff (p : Params) (lr len rem : Nat) (acc : List Nat) (h : Hdr) (buf : Array Nat)
    (bs0 : Bits) (fsz : Nat) (hinv : Inv p.order h.syms h.f2s) (hf : dimOf p.order * 2 ^ lr ≤ h.f2s.size) :
    (∃ r, stepV2 p.order lr len rem acc h buf bs0 fsz = .done r ∧ r.cls = .stop .overrun) ↔
    ∃ q, chunkPre h.rest = .ok q ∧ bufSizeAfter len buf.size < q.sz :=
  stepV2_overrun_iff p lr len rem acc h buf bs0 fsz hinv hf

/-! ## bitstream version 1 (`decodeChunkV1`; reachable: the version is read from the stream header)

No-fault does NOT hold for version 1 (`C03_ans_v1_fault_example` in `Properties/C03_ans_ex.lean`: an
index panic recovered by the task, an observation).  The buffer used to be sized from the stream's
VarInt alone (finding: 144 MiB per task from a 52-byte stream); since the repair (`sz > max(2·len, 256)`
is rejected before anything is read or allocated) it is bounded for every version. -/

/-- **C03_ans_alloc_bound_any.**  For EVERY bitstream version (1 included), input and decoder object:
`len(this.buffer)` after a `Read` of `count` bytes, however it ends, is at most
`max(before, m + m/8)` with `m = max(2·min(chunkSize, count), 256)` (version 1 pads its buffer by one
eighth; the other versions stay within `m`: `C03_ans_alloc_bound`) -/
theorem C03_ans_alloc_bound_any (p : Params) (s : St) (bs : Bits) (count : Nat) :
    (read p s bs count).bufSz ≤
      max s.buf.size (max (2 * min p.chunkSize count) 256 + max (2 * min p.chunkSize count) 256 / 8) :=
  read_sz p s bs count

/-- **C03_ans_v1_alloc_bound.**  The instance for bitstream version 1 (`decodeChunkV1`), the path the
finding was about -/
theorem C03_ans_v1_alloc_bound (p : Params) (_hv : p.bsVersion = 1) (s : St) (bs : Bits) (count : Nat) :
    (read p s bs count).bufSz ≤
      max s.buf.size (max (2 * min p.chunkSize count) 256 + max (2 * min p.chunkSize count) 256 / 8) :=
  read_sz p s bs count

/-- the renormalisation loops of `decodeChunkV1` (`for st < _ANS_TOP`, two bytes per iteration) are the
only data-driven loops of the decoder; they stop at the end of `this.buffer` at the latest:
`len(buffer)/2 + 1` iterations always suffice (more fuel never changes the model's result) -/
theorem C03_ans_v1_renorm_fuel (buf : Array Nat) (n : Nat) (st : Int) (k : Nat) :
    renormV1 buf (buf.size / 2 + 1 + k) n st = renormV1 buf (buf.size / 2 + 1) n st :=
  renormV1_fuel buf n st k

end Kanzi.C03
