/-
Proofs about `BinaryEntropyDecoder.Read` and `FPAQDecoder.Read` on ARBITRARY input (property C03):
the interval registers keep their invariant whatever `current` holds (no wrap-around, the predictor is
only ever asked in states of its invariant), `read()` is the only faulting site and cannot fault while
32 bytes per remaining output byte are left in the buffer, the chunk loop terminates within
`ceil(count / length)` rounds, and `len(this.buffer)` is bounded by the declared sizes on every path.
-/
import Kanzi.Model.BinDecCap
import Kanzi.Proofs.BinEntDec
import Kanzi.Proofs.Fpaq

namespace Kanzi.BinEnt
open Kanzi.Bits Kanzi.EntSmall

/-! ### A. one bit -/

theorem read_facts (d d' : Dec σ) (h : d.read = .ok d') :
    d'.buffer = d.buffer ∧ d'.ps = d.ps ∧ d'.rem.length + 4 = d.rem.length ∧
    d'.low = (d.low <<< 32) &&& MASK_0_56 ∧ d'.high = ((d.high <<< 32) ||| MASK_0_32) &&& MASK_0_56 := by
  unfold Dec.read at h
  split at h
  · rename_i b0 b1 b2 b3 t hrem
    cases h
    simp [hrem]
  · cases h

theorem read_ok_of_len (d : Dec σ) (h : 4 ≤ d.rem.length) : ∃ d', d.read = .ok d' := by
  unfold Dec.read
  match hr : d.rem with
  | [] => rw [hr] at h; simp at h
  | [_] => rw [hr] at h; simp at h
  | [_, _] => rw [hr] at h; simp at h
  | [_, _, _] => rw [hr] at h; simp at h
  | b0 :: b1 :: b2 :: b3 :: t => exact ⟨_, rfl⟩

theorem read_err (d : Dec σ) (x : Err) (h : d.read = .error x) : x = .index ∧ d.rem.length < 4 := by
  unfold Dec.read at h
  split at h
  · cases h
  · rename_i hne
    cases h
    refine ⟨rfl, ?_⟩
    match hr : d.rem with
    | [] => simp
    | [_] => simp
    | [_, _] => simp
    | [_, _, _] => simp
    | b0 :: b1 :: b2 :: b3 :: t => exact absurd hr (hne b0 b1 b2 b3 t)

/-- the interval update of `DecodeBit` for ANY `current`: the new bounds are those of the pure coder
    for the bit that was decided -/
theorem step_any (P : Pred σ) (d : Dec σ) (hi : Inv d.low d.high) (hp : OkP P.shift (P.get d.ps)) :
    (d.step P).low = pl1 P.shift d.low d.high (P.get d.ps) (d.bit P) ∧
    (d.step P).high = ph1 P.shift d.low d.high (P.get d.ps) (d.bit P) := by
  have hs := dec_split P d d.ps d.low d.high ⟨rfl, rfl, rfl⟩ hi hp
  have hlt : d.low < d.high := by have := hi.lt; omega
  have hh := hi.hi
  have hsl := psplit_lt P.shift d.low d.high (P.get d.ps) hlt hp
  constructor
  · show (if d.bit P then d.low else (d.split P + 1) % 2 ^ 64) = _
    rw [hs]
    unfold pl1
    cases d.bit P
    · simp only [Bool.false_eq_true, if_false]; omega
    · simp only [if_true]
  · show (if d.bit P then d.split P else d.high) = _
    rw [hs]
    unfold ph1
    cases d.bit P
    · simp only [Bool.false_eq_true, if_false]
    · simp only [if_true]; omega

theorem and_mask56' (x : Nat) : x &&& MASK_0_56 = x % 2 ^ 56 := by
  have : MASK_0_56 = 2 ^ 56 - 1 := by decide
  rw [this, Nat.and_two_pow_sub_one_eq_mod]

/-- **one `DecodeBit` on arbitrary input.**  From a state of the predictor invariant `R` with the
    interval invariant `Inv low high` (top 32 of the 56 bits differ, `high < 2^56`): whatever `current`
    and the buffer hold, `DecodeBit` either panics in `read()` — exactly when fewer than 4 bytes are
    left behind `index` — or returns with `R` and `Inv` again, the same buffer, and at most 4 more
    bytes consumed. -/
theorem decodeBit_any (P : Pred σ) {R : σ → Prop} (hP : P.Safe R) (d : Dec σ) (hr : R d.ps)
    (hi : Inv d.low d.high) :
    (∀ x, d.decodeBit P = .error x → x = .index ∧ d.rem.length < 4) ∧
    (∀ b d', d.decodeBit P = .ok (b, d') →
        R d'.ps ∧ Inv d'.low d'.high ∧ d'.buffer = d.buffer ∧
        d'.rem.length ≤ d.rem.length ∧ d.rem.length ≤ d'.rem.length + 4) := by
  have hp := hP.range d.ps hr
  obtain ⟨e1, e2⟩ := step_any P d hi hp
  obtain ⟨f1, f2, f3, f4⟩ := step_facts P.shift d.low d.high (P.get d.ps) (d.bit P) hi hp
  have hps : R (d.step P).ps := hP.step d.ps (d.bit P) hr
  have hh := hi.hi
  unfold Dec.decodeBit
  by_cases hx : ((d.step P).low ^^^ (d.step P).high) < 2 ^ 24
  · rw [if_pos hx]
    have hfl : pl1 P.shift d.low d.high (P.get d.ps) (d.bit P) / 2 ^ 24
        = ph1 P.shift d.low d.high (P.get d.ps) (d.bit P) / 2 ^ 24 := by
      rw [← e1, ← e2]; exact (xor_lt_iff _ _).mp hx
    cases hrd : (d.step P).read with
    | error x =>
      simp only []
      refine ⟨fun x' h => ?_, fun _ _ h => (by cases h)⟩
      cases h
      exact read_err (d.step P) x hrd
    | ok d2 =>
      simp only []
      refine ⟨fun x' h => (by cases h), fun b d' h => ?_⟩
      cases h
      obtain ⟨g1, g2, g3, g4, g5⟩ := read_facts (d.step P) d2 hrd
      have hl2 : d2.low = (pl1 P.shift d.low d.high (P.get d.ps) (d.bit P) % 2 ^ 24) * 2 ^ 32 := by
        rw [g4, and_mask56', Nat.shiftLeft_eq, e1]; omega
      have hh2 : d2.high = (ph1 P.shift d.low d.high (P.get d.ps) (d.bit P) % 2 ^ 24) * 2 ^ 32 + (2 ^ 32 - 1) := by
        rw [g5, and_mask56', show MASK_0_32 = 2 ^ 32 - 1 from rfl, shl_or _ _ _ (by omega), e2]; omega
      have hinv : Inv d2.low d2.high := by
        have := f4
        unfold pl2 ph2 pflush at this
        simp only [hfl, decide_true, if_true] at this
        rw [hl2, hh2]; exact this
      refine ⟨by rw [g2]; exact hps, hinv, by rw [g1]; rfl, ?_, ?_⟩
      · have : (d.step P).rem = d.rem := rfl
        rw [this] at g3; omega
      · have : (d.step P).rem = d.rem := rfl
        rw [this] at g3; omega
  · rw [if_neg hx]
    refine ⟨fun x' h => (by cases h), fun b d' h => ?_⟩
    cases h
    have hnf : ¬ pl1 P.shift d.low d.high (P.get d.ps) (d.bit P) / 2 ^ 24
        = ph1 P.shift d.low d.high (P.get d.ps) (d.bit P) / 2 ^ 24 := by
      intro hc; rw [← e1, ← e2] at hc; exact hx ((xor_lt_iff _ _).mpr hc)
    have hinv : Inv (d.step P).low (d.step P).high := by
      have := f4
      unfold pl2 ph2 pflush at this
      simp only [hnf, decide_false, Bool.false_eq_true, if_false] at this
      rw [e1, e2]; exact this
    exact ⟨hps, hinv, rfl, Nat.le_refl _, by show d.rem.length ≤ d.rem.length + 4; omega⟩

/-! ### B. bits, bytes -/

/-- the state of a decoder between two `DecodeBit` calls -/
def Good (R : σ → Prop) (d : Dec σ) : Prop := R d.ps ∧ Inv d.low d.high

theorem decodeBitsAcc_any (P : Pred σ) {R : σ → Prop} (hP : P.Safe R) : ∀ (k : Nat) (d : Dec σ) (acc : Nat),
    Good R d →
    (∀ x, d.decodeBitsAcc P k acc = .error x → x = .index ∧ d.rem.length < 4 * k) ∧
    (∀ v d', d.decodeBitsAcc P k acc = .ok (v, d') →
        Good R d' ∧ d'.buffer = d.buffer ∧ d'.rem.length ≤ d.rem.length ∧ d.rem.length ≤ d'.rem.length + 4 * k) := by
  intro k
  induction k with
  | zero =>
    intro d acc hg
    simp only [Dec.decodeBitsAcc]
    refine ⟨fun x h => (by cases h), fun v d' h => ?_⟩
    cases h
    exact ⟨hg, rfl, Nat.le_refl _, by omega⟩
  | succ k ih =>
    intro d acc hg
    obtain ⟨b1, b2⟩ := decodeBit_any P hP d hg.1 hg.2
    simp only [Dec.decodeBitsAcc]
    cases hb : d.decodeBit P with
    | error x =>
      simp only []
      refine ⟨fun x' h => ?_, fun _ _ h => (by cases h)⟩
      cases h
      obtain ⟨q1, q2⟩ := b1 x hb
      exact ⟨q1, by omega⟩
    | ok r =>
      obtain ⟨b, d1⟩ := r
      simp only []
      obtain ⟨g1, g2, g3, g4, g5⟩ := b2 b d1 hb
      obtain ⟨i1, i2⟩ := ih d1 (2 * acc + b.toNat) ⟨g1, g2⟩
      refine ⟨fun x h => ?_, fun v d' h => ?_⟩
      · obtain ⟨q1, q2⟩ := i1 x h
        exact ⟨q1, by omega⟩
      · obtain ⟨q1, q2, q3, q4⟩ := i2 v d' h
        exact ⟨q1, by rw [q2, g3], by omega, by omega⟩

theorem decodeBytes_any (P : Pred σ) {R : σ → Prop} (hP : P.Safe R) : ∀ (n : Nat) (d : Dec σ) (acc : List Nat),
    Good R d →
    (∀ x, d.decodeBytes P n acc = .error x → x = .index ∧ d.rem.length < 32 * n) ∧
    (∀ out d', d.decodeBytes P n acc = .ok (out, d') →
        Good R d' ∧ d'.buffer = d.buffer ∧ out.length = acc.length + n ∧
        d.rem.length ≤ d'.rem.length + 32 * n) := by
  intro n
  induction n with
  | zero =>
    intro d acc hg
    simp only [Dec.decodeBytes]
    refine ⟨fun x h => (by cases h), fun out d' h => ?_⟩
    cases h
    exact ⟨hg, rfl, by simp, by omega⟩
  | succ n ih =>
    intro d acc hg
    obtain ⟨b1, b2⟩ := decodeBitsAcc_any P hP 8 d 0 hg
    simp only [Dec.decodeBytes, Dec.decodeByte]
    cases hb : d.decodeBitsAcc P 8 0 with
    | error x =>
      simp only []
      refine ⟨fun x' h => ?_, fun _ _ h => (by cases h)⟩
      cases h
      obtain ⟨q1, q2⟩ := b1 x hb
      exact ⟨q1, by omega⟩
    | ok r =>
      obtain ⟨v, d1⟩ := r
      simp only []
      obtain ⟨g1, g2, g3, g4⟩ := b2 v d1 hb
      obtain ⟨i1, i2⟩ := ih d1 (v :: acc) g1
      refine ⟨fun x h => ?_, fun out d' h => ?_⟩
      · obtain ⟨q1, q2⟩ := i1 x h
        exact ⟨q1, by omega⟩
      · obtain ⟨q1, q2, q3, q4⟩ := i2 out d' h
        refine ⟨q1, by rw [q2, g2], ?_, by omega⟩
        rw [q3, List.length_cons]; omega

/-- `read()` cannot fault while 32 bytes per remaining output byte are left in the buffer -/
theorem decodeBytes_no_fault (P : Pred σ) {R : σ → Prop} (hP : P.Safe R) (n : Nat) (d : Dec σ) (acc : List Nat)
    (hg : Good R d) (hlen : 32 * n ≤ d.rem.length) : ∃ r, d.decodeBytes P n acc = .ok r := by
  cases h : d.decodeBytes P n acc with
  | ok r => exact ⟨r, rfl⟩
  | error x =>
    have := ((decodeBytes_any P hP n d acc hg).1 x h).2
    omega

/-! ### C. one chunk, the chunk loop of `BinaryEntropyDecoder.Read` -/

theorem bytesOf_len : ∀ (n : Nat) (bs : Bits), (bytesOf n bs).length = n := by
  intro n
  induction n with
  | zero => intro bs; rfl
  | succ n ih => intro bs; simp [bytesOf, ih]

theorem readBytes_len (n : Nat) (bs : Bits) (x : List Nat) (r : Bits) (h : readBytes n bs = some (x, r)) :
    x.length = n := by
  unfold readBytes at h
  split at h
  · simp only [Option.some.injEq, Prod.mk.injEq] at h
    obtain ⟨rfl, _⟩ := h
    exact bytesOf_len n bs
  · cases h

theorem decBufFor_len (buffer : List Nat) (bufSize sz : Nat) :
    (decBufFor buffer bufSize sz).length = if sz > bufSize ∧ buffer.length < sz then sz else buffer.length := by
  unfold decBufFor
  by_cases h1 : sz > bufSize
  · by_cases h2 : buffer.length < sz
    · simp [h1, h2]
    · simp [h1, h2]
  · simp [h1]

/-- one iteration of the chunk loop: after success the decoder is in a good state again and
    `len(this.buffer)` is what `chunkCap` says -/
theorem readChunk_any (P : Pred σ) {R : σ → Prop} (hP : P.Safe R) (bufSize length chunkSize : Nat) (d : Dec σ)
    (bs : Bits) (hg : Good R d) (hbuf : bufSize ≤ d.buffer.length) :
    d.buffer.length ≤ chunkCap bufSize length d bs ∧
    chunkCap bufSize length d bs ≤ max d.buffer.length (2 * length - 1) ∧
    (∀ c, Dec.readChunk P bufSize length chunkSize d bs = .ok c →
        Good R c.2.1 ∧ c.2.1.buffer.length = chunkCap bufSize length d bs ∧ c.1.length = chunkSize) := by
  unfold chunkCap Dec.readChunk
  cases hv : readVarInt bs with
  | none =>
    simp only []
    exact ⟨Nat.le_refl _, by omega, fun c h => (by cases h)⟩
  | some p =>
    obtain ⟨sz, r⟩ := p
    simp only []
    by_cases hrej : sz > bufSize ∧ sz ≥ 2 * length
    · rw [if_pos hrej, if_pos hrej]
      exact ⟨Nat.le_refl _, by omega, fun c h => (by cases h)⟩
    · rw [if_neg hrej, if_neg hrej]
      have hlen := decBufFor_len d.buffer bufSize sz
      have hcap1 : d.buffer.length ≤ (decBufFor d.buffer bufSize sz).length := by
        rw [hlen]; split <;> omega
      have hcap2 : (decBufFor d.buffer bufSize sz).length ≤ max d.buffer.length (2 * length - 1) := by
        rw [hlen]; split <;> omega
      have hsz : sz ≤ (decBufFor d.buffer bufSize sz).length := by
        rw [hlen]; split <;> omega
      refine ⟨hcap1, hcap2, fun c h => ?_⟩
      cases hc : readBits 56 r with
      | none => simp only [hc] at h; cases h
      | some q =>
        obtain ⟨cur, r1⟩ := q
        simp only [hc] at h
        cases hb : (if sz ≠ 0 then readBytes sz r1 else some ([], r1)) with
        | none => simp only [hb] at h; cases h
        | some q2 =>
          obtain ⟨bytes, r2⟩ := q2
          simp only [hb] at h
          have hbl : bytes.length = sz := by
            by_cases h0 : sz ≠ 0
            · rw [if_pos h0] at hb; exact readBytes_len sz r1 bytes r2 hb
            · rw [if_neg h0] at hb
              simp only [Option.some.injEq, Prod.mk.injEq] at hb
              obtain ⟨rfl, _⟩ := hb
              simp at h0; simp [h0]
          generalize hd0 : (Dec.mk d.ps d.low d.high cur (bytes ++ (decBufFor d.buffer bufSize sz).drop sz) (bytes ++ (decBufFor d.buffer bufSize sz).drop sz) : Dec σ) = d0 at h
          have hg0 : Good R d0 := by subst hd0; exact hg
          have hb0 : d0.buffer.length = (decBufFor d.buffer bufSize sz).length := by
            subst hd0
            simp only [List.length_append, List.length_drop, hbl]
            omega
          cases hdec : Dec.decodeBytes P chunkSize d0 [] with
          | error x => simp only [hdec] at h; cases h
          | ok res =>
            simp only [hdec] at h
            cases h
            obtain ⟨q1, q2, q3, _⟩ := (decodeBytes_any P hP chunkSize d0 [] hg0).2 res.1 res.2 hdec
            exact ⟨q1, by rw [q2, hb0], by simpa using q3⟩

theorem readChunksCap_fst (P : Pred σ) : ∀ (fuel length bufSize : Nat) (d : Dec σ) (count : Nat) (bs : Bits),
    (Dec.readChunksCap P fuel length bufSize d count bs).1 = Dec.readChunks P fuel length bufSize d count bs := by
  intro fuel
  induction fuel with
  | zero => intro _ _ _ _ _; rfl
  | succ fuel ih =>
    intro length bufSize d count bs
    simp only [Dec.readChunksCap, Dec.readChunks]
    by_cases h0 : count = 0
    · rw [if_pos h0, if_pos h0]
    · rw [if_neg h0, if_neg h0]
      cases hc : Dec.readChunk P bufSize length (min length count) d bs with
      | error x => rfl
      | ok c =>
        simp only []
        have := ih length bufSize c.2.1 (count - min length count) c.2.2
        cases hrec : Dec.readChunksCap P fuel length bufSize c.2.1 (count - min length count) c.2.2 with
        | mk res cap =>
          rw [hrec] at this
          simp only at this
          rw [← this]
          cases res <;> rfl

/-- **allocation bound of the chunk loop, every path.**  `len(this.buffer)` never shrinks and never
    exceeds `max(len before, 2·length − 1)`; after success the decoder is in a good state and its
    buffer has exactly that length. -/
theorem readChunksCap_bound (P : Pred σ) {R : σ → Prop} (hP : P.Safe R) (length bufSize : Nat) :
    ∀ (fuel : Nat) (d : Dec σ) (count : Nat) (bs : Bits), Good R d → bufSize ≤ d.buffer.length →
    d.buffer.length ≤ (Dec.readChunksCap P fuel length bufSize d count bs).2 ∧
    (Dec.readChunksCap P fuel length bufSize d count bs).2 ≤ max d.buffer.length (2 * length - 1) ∧
    (∀ r, (Dec.readChunksCap P fuel length bufSize d count bs).1 = .ok r →
        Good R r.2.1 ∧ r.2.1.buffer.length = (Dec.readChunksCap P fuel length bufSize d count bs).2) := by
  intro fuel
  induction fuel with
  | zero =>
    intro d count bs hg _
    simp only [Dec.readChunksCap]
    exact ⟨Nat.le_refl _, by omega, fun r h => (by cases h; exact ⟨hg, rfl⟩)⟩
  | succ fuel ih =>
    intro d count bs hg hbuf
    simp only [Dec.readChunksCap]
    by_cases h0 : count = 0
    · rw [if_pos h0]
      exact ⟨Nat.le_refl _, by omega, fun r h => (by cases h; exact ⟨hg, rfl⟩)⟩
    · rw [if_neg h0]
      obtain ⟨c1, c2, c3⟩ := readChunk_any P hP bufSize length (min length count) d bs hg hbuf
      cases hc : Dec.readChunk P bufSize length (min length count) d bs with
      | error x =>
        simp only []
        exact ⟨c1, c2, fun r h => (by cases h)⟩
      | ok c =>
        simp only []
        obtain ⟨g1, g2, _⟩ := c3 c hc
        obtain ⟨i1, i2, i3⟩ := ih c.2.1 (count - min length count) c.2.2 g1 (by omega)
        cases hrec : Dec.readChunksCap P fuel length bufSize c.2.1 (count - min length count) c.2.2 with
        | mk res cap =>
          rw [hrec] at i1 i2 i3
          simp only at i1 i2 i3
          cases res with
          | error x =>
            simp only []
            exact ⟨by omega, by omega, fun r h => (by cases h)⟩
          | ok t =>
            simp only []
            refine ⟨by omega, by omega, fun r h => ?_⟩
            cases h
            exact i3 t rfl

/-- **termination of the chunk loop**: `ceil(count / length)` rounds are enough, more fuel changes nothing -/
theorem readChunks_fuel (P : Pred σ) (length bufSize : Nat) : ∀ (fuel k : Nat) (d : Dec σ)
    (count : Nat) (bs : Bits), count ≤ fuel * length →
    Dec.readChunks P (fuel + k) length bufSize d count bs = Dec.readChunks P fuel length bufSize d count bs := by
  intro fuel
  induction fuel with
  | zero =>
    intro k d count bs hc
    have h0 : count = 0 := by omega
    subst h0
    cases k with
    | zero => rfl
    | succ k => simp [Dec.readChunks]
  | succ fuel ih =>
    intro k d count bs hc
    have hk : fuel + 1 + k = (fuel + k) + 1 := by omega
    rw [hk]
    simp only [Dec.readChunks]
    by_cases h0 : count = 0
    · rw [if_pos h0, if_pos h0]
    · rw [if_neg h0, if_neg h0]
      cases hch : Dec.readChunk P bufSize length (min length count) d bs with
      | error x => rfl
      | ok c =>
        simp only []
        have hle : count - min length count ≤ fuel * length := by
          rw [Nat.add_mul, Nat.one_mul] at hc
          omega
        rw [ih k c.2.1 (count - min length count) c.2.2 hle]

theorem chunkLenOf_pos' (M count : Nat) (hM : 8 ≤ M) : 0 < chunkLenOf M count := by
  unfold chunkLenOf
  split
  · split
    · rw [Nat.shiftRight_eq_div_pow]; omega
    · rw [Nat.shiftRight_eq_div_pow]; omega
  · split <;> omega

/-- with the real constant: a chunk never exceeds 2^26 bytes for a block of at most 2^30 -/
theorem chunkLenOf_real (count : Nat) (h : count ≤ MAX_BLOCK) : chunkLenOf MAX_CHUNK count ≤ 2 ^ 26 := by
  unfold chunkLenOf MAX_CHUNK
  unfold MAX_BLOCK at h
  split
  · split
    · rw [Nat.shiftRight_eq_div_pow]; omega
    · rw [Nat.shiftRight_eq_div_pow]; omega
  · split <;> omega

theorem bufSizeOf_le (length : Nat) : bufSizeOf length ≤ 2 * length - 1 ∨ length = 0 := by
  unfold bufSizeOf
  rw [Nat.shiftRight_eq_div_pow]
  omega

theorem readBlockCap_fst (P : Pred σ) (M : Nat) (d : Dec σ) (bs : Bits) (count : Nat) :
    (Dec.readBlockCap P M d bs count).1 = Dec.readBlock P M d bs count := by
  unfold Dec.readBlockCap Dec.readBlock
  split
  · rfl
  · exact readChunksCap_fst P _ _ _ _ _ _

/-- **allocation bound of `Read`, every path** (`L` = the chunk length chosen for `count`) -/
theorem readBlockCap_bound (P : Pred σ) {R : σ → Prop} (hP : P.Safe R) (M : Nat) (d : Dec σ) (bs : Bits)
    (count : Nat) (hg : Good R d) :
    d.buffer.length ≤ (Dec.readBlockCap P M d bs count).2 ∧
    (Dec.readBlockCap P M d bs count).2 ≤
      max d.buffer.length (max (bufSizeOf (chunkLenOf M count)) (2 * chunkLenOf M count - 1)) ∧
    (∀ r, (Dec.readBlockCap P M d bs count).1 = .ok r →
        Good R r.2.1 ∧ r.2.1.buffer.length = (Dec.readBlockCap P M d bs count).2) := by
  unfold Dec.readBlockCap
  split
  · exact ⟨Nat.le_refl _, by omega, fun r h => (by cases h)⟩
  · by_cases hlt : d.buffer.length < bufSizeOf (chunkLenOf M count)
    · rw [if_pos hlt]
      obtain ⟨a1, a2, a3⟩ := readChunksCap_bound P hP (chunkLenOf M count) (bufSizeOf (chunkLenOf M count)) count
        { d with buffer := List.replicate (bufSizeOf (chunkLenOf M count)) 0 } count bs hg (by simp)
      simp only [List.length_replicate] at a1 a2 a3
      exact ⟨by omega, by omega, a3⟩
    · rw [if_neg hlt]
      obtain ⟨a1, a2, a3⟩ := readChunksCap_bound P hP (chunkLenOf M count) (bufSizeOf (chunkLenOf M count)) count
        d count bs hg (by omega)
      exact ⟨a1, by omega, a3⟩

/-- a fresh decoder is in a good state -/
theorem good_init {R : σ → Prop} (s0 : σ) (hs : R s0) : Good R (Dec.init s0) := ⟨hs, inv_init⟩

end Kanzi.BinEnt
