/-
Proofs for `Kanzi/Model/BlockGen2.lean`, part 1: the forward loop of the transform sequence with the real
destination sizes and the data type hint (`seqFwdGo2`) against the inverse loop of `TrSmall` — for any
list of transforms that satisfy the per-transform law `Tr2.Law`.

Because SRT and MM may EXPAND a block, the class of blocks is graded: the invariant of the loop is
"`cur` consists of bytes and is at most `s` bytes long", where `s` follows the sharp per-stage bound `g`
(`runG`), and `m ≥ s` follows `MaxEncodedLen` (`runMax` = `MaxEncodedLen` of the rest of the sequence).
-/
import Kanzi.Model.BlockGen2
import Kanzi.Proofs.BlockGen

namespace Kanzi.BlockGen2
open Kanzi.Bits Kanzi.TrSmall Kanzi.Block Kanzi.BlockGen

def Bytes (x : List Nat) : Prop := ∀ b ∈ x, b < 256

/-- the law of one transform: `g` = a bound on the output length (monotone; below `MaxEncodedLen` in the
sense of `gbound`); for every hint `dt`, every block of bytes of at most `lim` bytes and every non-empty
destination, a successful Forward returns bytes, at most `g len` of them, which Inverse turns back into
the block in any destination of at least `len` bytes.  (Every Forward of the modelled transforms checks
`len(dst) ≥ MaxEncodedLen(len(src))` itself and declines otherwise; `MaxEncodedLen` of RLT is not
monotone — 544 for 512 bytes, 513 for 513 —, so a stage that follows a shrinking stage can find the
destination of the sequence too small: it is then skipped.) -/
structure Tr2.Law (t : Tr2) (g : Nat → Nat) (lim : Nat) : Prop where
  gmono : ∀ a b, a ≤ b → g a ≤ g b
  gbound : ∀ s r, s ≤ r → s ≤ lim → g s ≤ max r (t.maxLen r)
  invNil : ∀ n, t.inv [] n = .ok []
  rt : ∀ dt x d y, Bytes x → x.length ≤ lim → 0 < d → t.fwd dt x d = .ok y →
    Bytes y ∧ y.length ≤ g x.length ∧ ∀ n, x.length ≤ n → t.inv y n = .ok x

/-- a transform together with its output bound -/
structure LTr where
  t : Tr2
  g : Nat → Nat

def ltrs (ls : List LTr) : List Tr2 := ls.map (·.t)

/-- `MaxEncodedLen` of the sequence, as a recursion -/
def runMax : List LTr → Nat → Nat
  | [], m => m
  | l :: ls, m => runMax ls (if l.t.maxLen m > m then l.t.maxLen m else m)

/-- the sharp bound on the length after the sequence -/
def runG : List LTr → Nat → Nat
  | [], s => s
  | l :: ls, s => runG ls (max s (l.g s))

theorem seqMaxLen_ltrs (ls : List LTr) (m : Nat) : seqMaxLen (trsOf (ltrs ls)) m = runMax ls m := by
  unfold seqMaxLen stagesOf trsOf ltrs
  induction ls generalizing m with
  | nil => rfl
  | cons l ls ih =>
    simp only [List.map_cons, seqMaxEncodedLen, Tr.stage, Tr2.toTr, runMax]
    exact ih _

theorem le_runMax : ∀ (ls : List LTr) (m : Nat), m ≤ runMax ls m := by
  intro ls
  induction ls with
  | nil => intro m; exact Nat.le_refl _
  | cons l ls ih =>
    intro m
    rw [runMax]
    have h1 := ih (if l.t.maxLen m > m then l.t.maxLen m else m)
    have h2 : m ≤ (if l.t.maxLen m > m then l.t.maxLen m else m) := by split <;> omega
    omega

theorem runMax_mono : ∀ (ls : List LTr), (∀ l ∈ ls, ∀ a b, a ≤ b → l.t.maxLen a ≤ l.t.maxLen b) →
    ∀ a b, a ≤ b → runMax ls a ≤ runMax ls b := by
  intro ls
  induction ls with
  | nil => intro _ a b h; exact h
  | cons l ls ih =>
    intro hm a b hab
    have hl := hm l (List.mem_cons_self ..) a b hab
    rw [runMax, runMax]
    apply ih (fun s hs => hm s (List.mem_cons_of_mem _ hs))
    split <;> split <;> omega

theorem le_runG : ∀ (ls : List LTr) (s : Nat), s ≤ runG ls s := by
  intro ls
  induction ls with
  | nil => intro s; exact Nat.le_refl _
  | cons l ls ih =>
    intro s
    rw [runG]
    have := ih (max s (l.g s))
    omega

theorem runG_mono : ∀ (ls : List LTr), (∀ l ∈ ls, ∀ a b, a ≤ b → l.g a ≤ l.g b) →
    ∀ a b, a ≤ b → runG ls a ≤ runG ls b := by
  intro ls
  induction ls with
  | nil => intro _ a b h; exact h
  | cons l ls ih =>
    intro hm a b hab
    have hl := hm l (List.mem_cons_self ..) a b hab
    rw [runG, runG]
    apply ih (fun s hs => hm s (List.mem_cons_of_mem _ hs))
    omega

/-- the sharp bound stays below `MaxEncodedLen` of the sequence -/
theorem runG_le_runMax (lim : Nat) : ∀ (ls : List LTr), (∀ l ∈ ls, l.t.Law l.g lim) →
    ∀ s m, s ≤ m → runG ls s ≤ lim → runG ls s ≤ runMax ls m := by
  intro ls
  induction ls with
  | nil => intro _ s m h _; exact h
  | cons l ls ih =>
    intro hlaw s m hsm hlim
    have hL := hlaw l (List.mem_cons_self ..)
    rw [runG] at hlim ⊢
    rw [runMax]
    have hslim : s ≤ lim := Nat.le_trans (Nat.le_trans (Nat.le_max_left s (l.g s)) (le_runG ls _)) hlim
    have hs' : max s (l.g s) ≤ (if l.t.maxLen m > m then l.t.maxLen m else m) := by
      have h1 := hL.gbound s m hsm hslim
      split <;> omega
    exact ih (fun l' h' => hlaw l' (List.mem_cons_of_mem _ h')) _ _ hs' hlim

/-! ### skip flags of the forward loop -/

theorem seqFwdGo2_flag_preserved (req l0 : Nat) :
    ∀ (trs : List Tr2) (j : Nat) (even : Bool) (dt : Nat) (cur : List Nat) (f i : Nat),
      i < j → j + trs.length ≤ 8 →
      flagSet (seqFwdGo2 req l0 trs j even dt cur f).2 i = flagSet f i := by
  intro trs
  induction trs with
  | nil => intro j even dt cur f i _ _; rfl
  | cons t rest ih =>
    intro j even dt cur f i hij hlen
    simp only [List.length_cons] at hlen
    rw [seqFwdGo2]
    cases t.fwd dt cur (if even then l0 else req) with
    | error e => exact ih (j + 1) _ _ cur f i (by omega) (by omega)
    | ok y =>
      simp only
      rw [ih (j + 1) _ _ y _ i (by omega) (by omega)]
      exact flagSet_clear_other f i j (by omega) (by omega) (by omega)

theorem seqFwdGo2_flags_low (req l0 : Nat) :
    ∀ (trs : List Tr2) (i : Nat) (even : Bool) (dt : Nat) (cur : List Nat) (f : Nat),
      f < 256 → i + trs.length ≤ 8 → f % 2 ^ (8 - i) = 2 ^ (8 - i) - 1 →
      (seqFwdGo2 req l0 trs i even dt cur f).2 < 256 ∧
      (seqFwdGo2 req l0 trs i even dt cur f).2 % 2 ^ (8 - (i + trs.length))
        = 2 ^ (8 - (i + trs.length)) - 1 := by
  intro trs
  induction trs with
  | nil => intro i even dt cur f hf _ h; exact ⟨hf, h⟩
  | cons t rest ih =>
    intro i even dt cur f hf hlen h
    simp only [List.length_cons] at hlen ⊢
    obtain ⟨h1, h2, h3⟩ := flags_low_step f hf i (by omega) h
    have e : 8 - (i + (rest.length + 1)) = 8 - (i + 1 + rest.length) := by omega
    have e7 : 7 - i = 8 - (i + 1) := by omega
    rw [seqFwdGo2, e]
    cases t.fwd dt cur (if even then l0 else req) with
    | error _ => exact ih (i + 1) _ _ cur f hf (by omega) (by rw [← e7]; exact h1)
    | ok y => exact ih (i + 1) _ _ y _ h2 (by omega) (by rw [← e7]; exact h3)

theorem seqForward2_flags_shape (trs : List Tr2) (req l0 dt : Nat) (x : List Nat) (hn : trs.length ≤ 8) :
    (seqForward2 trs req l0 dt x).2 < 256 ∧
    (seqForward2 trs req l0 dt x).2 % 2 ^ (8 - trs.length) = 2 ^ (8 - trs.length) - 1 := by
  unfold seqForward2
  by_cases hx : x.length = 0
  · rw [if_pos hx]
    have : ∀ n, n ≤ 8 → 255 % 2 ^ (8 - n) = 2 ^ (8 - n) - 1 := by decide
    exact ⟨by decide, this _ hn⟩
  · rw [if_neg hx]
    have := seqFwdGo2_flags_low req l0 trs 0 true dt x 0xFF (by decide) (by omega) (by decide)
    simpa using this

/-! ### forward loop against inverse loop -/

theorem stagesOf_cons (t : Tr2) (ts : List Tr2) (a n : Nat) :
    stagesOf (trsOf (t :: ts)) a n =
      ⟨fun x => t.fwd 0 x a, fun y => t.inv y n, t.maxLen⟩ :: stagesOf (trsOf ts) a n := rfl

theorem seqGo2_roundtrip (lim req l0 n : Nat) (hreq0 : 0 < req) (hl0 : 0 < l0) :
    ∀ (ls : List LTr) (i : Nat) (even : Bool) (dt : Nat) (cur : List Nat) (f m s : Nat),
      (∀ l ∈ ls, l.t.Law l.g lim) →
      i + ls.length ≤ 8 →
      (∀ k, i ≤ k → k < 8 → flagSet f k = true) →
      Bytes cur → cur.length ≤ s → s ≤ m →
      runMax ls m ≤ n → runG ls s ≤ lim →
      seqInvGo (stagesOf (trsOf (ltrs ls)) 0 n) i (seqFwdGo2 req l0 (ltrs ls) i even dt cur f).2
          (seqFwdGo2 req l0 (ltrs ls) i even dt cur f).1 = .ok cur ∧
        Bytes (seqFwdGo2 req l0 (ltrs ls) i even dt cur f).1 ∧
        (seqFwdGo2 req l0 (ltrs ls) i even dt cur f).1.length ≤ runG ls s ∧
        (cur ≠ [] → (seqFwdGo2 req l0 (ltrs ls) i even dt cur f).1 ≠ []) := by
  intro ls
  induction ls with
  | nil =>
    intro i even dt cur f m s _ _ _ hb hs _ _ _
    exact ⟨rfl, hb, hs, fun h => h⟩
  | cons l rest ih =>
    intro i even dt cur f m s hlaw hlen hset hb hs hsm hn hlim
    simp only [List.length_cons] at hlen
    have hL := hlaw l (List.mem_cons_self ..)
    have hrestL : ∀ l' ∈ rest, l'.t.Law l'.g lim := fun l' h => hlaw l' (List.mem_cons_of_mem _ h)
    rw [runMax] at hn
    rw [runG] at hlim
    -- bounds
    have hslim : s ≤ lim := Nat.le_trans (Nat.le_trans (Nat.le_max_left s (l.g s)) (le_runG rest _)) hlim
    have hm' : m ≤ (if l.t.maxLen m > m then l.t.maxLen m else m) := by split <;> omega
    have hmax' : l.t.maxLen m ≤ (if l.t.maxLen m > m then l.t.maxLen m else m) := by split <;> omega
    have hle1 := le_runMax rest (if l.t.maxLen m > m then l.t.maxLen m else m)
    have hd : 0 < (if even then l0 else req) := by split <;> omega
    have hs' : max s (l.g s) ≤ (if l.t.maxLen m > m then l.t.maxLen m else m) := by
      have h1 := hL.gbound s m hsm hslim
      split <;> omega
    show seqInvGo (stagesOf (trsOf (l.t :: ltrs rest)) 0 n) i
        (seqFwdGo2 req l0 (l.t :: ltrs rest) i even dt cur f).2
        (seqFwdGo2 req l0 (l.t :: ltrs rest) i even dt cur f).1 = .ok cur ∧
      Bytes (seqFwdGo2 req l0 (l.t :: ltrs rest) i even dt cur f).1 ∧
      (seqFwdGo2 req l0 (l.t :: ltrs rest) i even dt cur f).1.length ≤ runG (l :: rest) s ∧
      (cur ≠ [] → (seqFwdGo2 req l0 (l.t :: ltrs rest) i even dt cur f).1 ≠ [])
    rw [stagesOf_cons, seqFwdGo2, runG]
    cases hfw : l.t.fwd dt cur (if even then l0 else req) with
    | error e =>
      simp only
      obtain ⟨h1, h2, h3, h4⟩ := ih (i + 1) even ((l.t.ctxw dt cur (if even then l0 else req)).getD dt) cur f
        (if l.t.maxLen m > m then l.t.maxLen m else m) (max s (l.g s)) hrestL (by omega)
        (fun k hk hk8 => hset k (by omega) hk8) hb (by omega) hs' hn hlim
      refine ⟨?_, h2, h3, h4⟩
      rw [seqInvGo, h1]
      simp only
      have : flagSet (seqFwdGo2 req l0 (ltrs rest) (i + 1) even
          ((l.t.ctxw dt cur (if even then l0 else req)).getD dt) cur f).2 i = true := by
        rw [seqFwdGo2_flag_preserved req l0 (ltrs rest) (i + 1) _ _ cur f i (by omega)
          (by simp only [ltrs, List.length_map]; omega)]
        exact hset i (Nat.le_refl _) (by omega)
      rw [this]
      rfl
    | ok y =>
      simp only
      obtain ⟨hyb, hyl, hyinv⟩ := hL.rt dt cur _ y hb (by omega) hd hfw
      have hyl' : y.length ≤ max s (l.g s) := by
        have := hL.gmono cur.length s hs
        omega
      have hset' : ∀ k, i + 1 ≤ k → k < 8 → flagSet (clearFlag f i) k = true := by
        intro k hk hk8
        rw [flagSet_clear_other f k i hk8 (by omega) (by omega)]
        exact hset k (by omega) hk8
      obtain ⟨h1, h2, h3, h4⟩ := ih (i + 1) (!even) ((l.t.ctxw dt cur (if even then l0 else req)).getD dt) y
        (clearFlag f i) (if l.t.maxLen m > m then l.t.maxLen m else m) (max s (l.g s)) hrestL (by omega)
        hset' hyb hyl' hs' hn hlim
      have hyne : cur ≠ [] → y ≠ [] := by
        intro hc hy
        subst hy
        have := hyinv n (by omega)
        rw [hL.invNil n] at this
        injection this with this
        exact hc this.symm
      refine ⟨?_, h2, h3, fun hc => h4 (hyne hc)⟩
      rw [seqInvGo, h1]
      simp only
      have : flagSet (seqFwdGo2 req l0 (ltrs rest) (i + 1) (!even)
          ((l.t.ctxw dt cur (if even then l0 else req)).getD dt) y (clearFlag f i)).2 i = false := by
        rw [seqFwdGo2_flag_preserved req l0 (ltrs rest) (i + 1) _ _ y _ i (by omega)
          (by simp only [ltrs, List.length_map]; omega)]
        exact flagSet_clear_self f i (by omega)
      rw [this]
      exact hyinv n (by omega)

/-- the sequence: `Inverse` (into buffers of `n` bytes) undoes `Forward` (into non-empty destinations),
the output consists of bytes, is at most `runG ls len` bytes long and is empty only for an empty block -/
theorem seq2_roundtrip (lim req l0 n dt m : Nat) (ls : List LTr) (x : List Nat)
    (hlaw : ∀ l ∈ ls, l.t.Law l.g lim) (hlen : ls.length ≤ 8) (hreq0 : 0 < req) (hl0 : 0 < l0)
    (hb : Bytes x) (hm : x.length ≤ m) (hn : runMax ls m ≤ n)
    (hlim : runG ls x.length ≤ lim) :
    seqInverse (stagesOf (trsOf (ltrs ls)) 0 n) (seqForward2 (ltrs ls) req l0 dt x).2
        (seqForward2 (ltrs ls) req l0 dt x).1 = .ok x ∧
      Bytes (seqForward2 (ltrs ls) req l0 dt x).1 ∧
      (seqForward2 (ltrs ls) req l0 dt x).1.length ≤ runG ls x.length ∧
      (x ≠ [] → (seqForward2 (ltrs ls) req l0 dt x).1 ≠ []) := by
  unfold seqForward2
  by_cases hx : x.length = 0
  · have : x = [] := List.eq_nil_of_length_eq_zero hx
    subst this
    rw [if_pos hx]
    refine ⟨?_, ?_, ?_, ?_⟩
    · simp [seqInverse]
    · intro b hb; cases hb
    · simp
    · intro h; exact absurd rfl h
  · have hx' : x ≠ [] := fun h => hx (by rw [h]; rfl)
    rw [if_neg hx]
    obtain ⟨h1, h2, h3, h4⟩ := seqGo2_roundtrip lim req l0 n hreq0 hl0 ls 0 true dt x 0xFF m x.length hlaw
      (by omega) (fun k _ hk => flagSet_ff k hk) hb (Nat.le_refl _) hm hn hlim
    refine ⟨?_, h2, h3, h4⟩
    unfold seqInverse
    have hne : ¬ (seqFwdGo2 req l0 (ltrs ls) 0 true dt x 0xFF).1.length = 0 := by
      intro h; exact h4 hx' (List.eq_nil_of_length_eq_zero h)
    rw [if_neg hne]
    by_cases hff : (seqFwdGo2 req l0 (ltrs ls) 0 true dt x 0xFF).2 = 0xFF
    · rw [if_pos hff]
      rw [hff, seqInvGo_all_skipped _ 0 0xFF _
        (by rw [stagesOf_length]; simp only [trsOf, ltrs, List.length_map]; omega) flagSet_ff] at h1
      exact h1
    · rw [if_neg hff]; exact h1

end Kanzi.BlockGen2
