/-
Proofs for the `lz` slice, part 1: reading bytes at a position (`At`), the length coding
`emitLength` / `readLength` (property statement `C13_lz_lengths` in `Kanzi/Properties/C13_lz.lean`).
-/
import Kanzi.Model.LZ

namespace Kanzi.LZ

@[simp] theorem Out.bind_ok {α β : Type} (a : α) (f : α → Out β) : (Out.ok a).bind f = f a := rfl
@[simp] theorem Out.bind_err {α β : Type} (e : String) (f : α → Out β) : (Out.err e : Out α).bind f = .err e := rfl
@[simp] theorem Out.bind_fault {α β : Type} (e : String) (f : α → Out β) :
    (Out.fault e : Out α).bind f = .fault e := rfl

/-- inversion of a successful bind -/
theorem Out.bind_eq_ok {α β : Type} {x : Out α} {f : α → Out β} {b : β} (h : x.bind f = .ok b) :
    ∃ a, x = .ok a ∧ f a = .ok b := by
  cases x with
  | ok a => exact ⟨a, rfl, h⟩
  | err e => simp at h
  | fault e => simp at h

/-- the bytes `bs` stand in `src` from index `i` on -/
def At (src : Array Nat) (i : Nat) (bs : List Nat) : Prop := ∀ k, k < bs.length → src[i + k]? = bs[k]?

theorem At_nil (src : Array Nat) (i : Nat) : At src i [] := by intro k hk; simp at hk

theorem At_cons {src : Array Nat} {i x : Nat} {xs : List Nat} :
    At src i (x :: xs) ↔ src[i]? = some x ∧ At src (i + 1) xs := by
  constructor
  · intro h
    refine ⟨by simpa using h 0 (by simp), ?_⟩
    intro k hk
    have := h (k + 1) (by simpa using hk)
    simpa [Nat.add_assoc, Nat.add_comm 1 k] using this
  · rintro ⟨h0, h1⟩ k hk
    cases k with
    | zero => simpa using h0
    | succ k =>
      have := h1 k (by simpa using hk)
      simpa [Nat.add_assoc, Nat.add_comm 1 k] using this

theorem At_append {src : Array Nat} {i : Nat} {a b : List Nat} :
    At src i (a ++ b) ↔ At src i a ∧ At src (i + a.length) b := by
  induction a generalizing i with
  | nil => simp [At_nil]
  | cons x xs ih =>
    simp only [List.cons_append, At_cons, ih, List.length_cons]
    have : i + 1 + xs.length = i + (xs.length + 1) := by omega
    rw [this]; exact and_assoc.symm

theorem At_size {src : Array Nat} {i : Nat} {bs : List Nat} (h : At src i bs) (hne : bs ≠ []) :
    i + bs.length ≤ src.size := by
  have hl : 0 < bs.length := List.length_pos_iff.mpr hne
  have := h (bs.length - 1) (by omega)
  rw [List.getElem?_eq_getElem (by omega)] at this
  have h2 := (Array.getElem?_eq_some_iff.mp this).1
  omega

/-- a whole array read back from position 0 of itself -/
theorem At_self (l : List Nat) : At l.toArray 0 l := by
  intro k hk; simp

theorem At_toArray_append (a b c : List Nat) : At (a ++ b ++ c).toArray a.length b := by
  intro k hk
  simp only [List.getElem?_toArray, List.append_assoc]
  rw [List.getElem?_append_right (by omega)]
  simp only [Nat.add_sub_cancel_left]
  rw [List.getElem?_append_left hk]

/-! ## emitLength / readLength -/

theorem emitLength_length (n : Nat) :
    (emitLength n).length = if n < 254 then 1 else if n < 65536 + 254 then 3 else 4 := by
  unfold emitLength; split
  · rfl
  · split <;> rfl

theorem emitLength_length_le (n : Nat) : 1 ≤ (emitLength n).length ∧ (emitLength n).length ≤ 4 := by
  rw [emitLength_length]; split
  · omega
  · split <;> omega

theorem emitLength_ne_nil (n : Nat) : emitLength n ≠ [] := by
  have := (emitLength_length_le n).1
  intro h; rw [h] at this; simp at this

theorem emitLength_bytes (n : Nat) : ∀ x ∈ emitLength n, x < 256 := by
  unfold emitLength; split
  · intro x hx; simp at hx; omega
  · split
    · intro x hx; simp at hx; omega
    · intro x hx; simp at hx; omega

/-- the decoded value: exact below `2^24 + 255`, and what the 24-bit field makes of larger values -/
def lengthValue (n : Nat) : Nat := if n < 65536 + 254 then n else 255 + (n - 255) % 16777216

theorem lengthValue_eq {n : Nat} (h : n < 16777216 + 255) : lengthValue n = n := by
  unfold lengthValue; split
  · rfl
  · omega

theorem lengthValue_lt {n : Nat} (h : 16777216 + 255 ≤ n) : lengthValue n < n := by
  unfold lengthValue; split <;> omega

theorem emitLength_small {n : Nat} (h : n < 254) : emitLength n = [n % 256] := by
  unfold emitLength; simp [h]

theorem emitLength_mid {n : Nat} (h1 : ¬ n < 254) (h2 : n < 65536 + 254) :
    emitLength n = [254, ((n - 254) >>> 8) % 256, (n - 254) % 256] := by
  unfold emitLength; simp [h1, h2]

theorem emitLength_big {n : Nat} (h2 : ¬ n < 65536 + 254) :
    emitLength n = [255, ((n - 255) >>> 16) % 256, ((n - 255) >>> 8) % 256, (n - 255) % 256] := by
  have h1 : ¬ n < 254 := by omega
  unfold emitLength; simp [h1, h2]

/-- `readLength` on the bytes of `emitLength n` wherever they stand -/
theorem readLength_emitLength {src : Array Nat} {i n : Nat} (h : At src i (emitLength n)) :
    readLength src i = .ok (lengthValue n, (emitLength n).length) := by
  unfold readLength lengthValue
  by_cases h1 : n < 254
  · rw [emitLength_small h1] at h ⊢
    rw [At_cons] at h
    have h2 : n % 256 = n := by omega
    have h3 : n < 65536 + 254 := by omega
    simp [h.1, h2, h1, h3]
  · by_cases h2 : n < 65536 + 254
    · rw [emitLength_mid h1 h2] at h ⊢
      simp only [At_cons] at h
      obtain ⟨ha, hb, hc, _⟩ := h
      simp only [ha, hb, hc, h2, if_true, Nat.shiftLeft_eq, Nat.shiftRight_eq_div_pow]
      simp
      omega
    · rw [emitLength_big h2] at h ⊢
      simp only [At_cons] at h
      obtain ⟨ha, hb, hc, hd, _⟩ := h
      simp only [ha, hb, hc, hd, h2, if_false, Nat.shiftLeft_eq, Nat.shiftRight_eq_div_pow]
      simp
      omega

end Kanzi.LZ
