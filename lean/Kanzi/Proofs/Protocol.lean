import Kanzi.Model.Protocol
namespace Kanzi.Protocol

def holds' (p : Pc) : Prop := p = .crit ∨ p = .io

theorem enc_mutex (N : Nat) (s : St) (h : Reach encStep encInit N s) (i j : Nat)
    (hi : s.pc i = .crit ∨ s.pc i = .io) (hj : s.pc j = .crit ∨ s.pc j = .io) : i = j := by sorry
theorem dec_mutex (N : Nat) (s : St) (h : Reach decStep decInit N s) (i j : Nat)
    (hi : (s.pc i = .crit ∨ s.pc i = .io) ∨ s.pc i = .pub) (hj : (s.pc j = .crit ∨ s.pc j = .io) ∨ s.pc j = .pub) : i = j := by sorry
theorem enc_ordered (N : Nat) (s : St) (h : Reach encStep encInit N s) :
    s.log = List.range' 1 s.log.length ∧ s.log.length ≤ N := by sorry
theorem dec_ordered (N : Nat) (s : St) (h : Reach decStep decInit N s) :
    s.log = List.range' 1 s.log.length ∧ s.log.length ≤ N := by sorry
theorem enc_progress (N : Nat) (s : St) (h : Reach encStep encInit N s) (hnd : ¬ allDone N s) :
    ∃ t, Step encStep N s t ∧ measure N t < measure N s := by sorry
theorem dec_progress (N : Nat) (s : St) (h : Reach decStep decInit N s) (hnd : ¬ allDone N s) :
    ∃ t, Step decStep N s t ∧ measure N t < measure N s := by sorry
theorem enc_measure_mono (N : Nat) (s t : St) (h : Step encStep N s t) : measure N t ≤ measure N s := by sorry
theorem dec_measure_mono (N : Nat) (s t : St) (h : Step decStep N s t) : measure N t ≤ measure N s := by sorry
theorem enc_measure_init (N : Nat) : measure N encInit = 9 * N := by sorry
theorem dec_measure_init (N : Nat) : measure N decInit = 8 * N := by sorry
theorem enc_cancel_stable (N : Nat) (s t : St) (h : Step encStep N s t) (hc : s.ctr = none) :
    t.ctr = none ∧ (∀ i, (t.pc i = .crit ∨ t.pc i = .io) → (s.pc i = .crit ∨ s.pc i = .io)) ∧ t.log.length ≤ s.log.length + 1 := by sorry
theorem dec_cancel_stable (N : Nat) (s t : St) (h : Step decStep N s t) (hc : s.ctr = none) :
    t.ctr = none ∧ (∀ i, (t.pc i = .crit ∨ t.pc i = .io) → (s.pc i = .crit ∨ s.pc i = .io)) := by sorry
theorem enc_crit_failure_blocks (N : Nat) (s : St) (h : Reach encStep encInit N s) (i : Nat)
    (hf : s.critFail i = true) : s.log.length ≤ i ∧ ∀ j, i < j → ¬ (s.pc j = .crit ∨ s.pc j = .io) := by sorry
theorem dec_crit_failure_blocks (N : Nat) (s : St) (h : Reach decStep decInit N s) (i : Nat)
    (hf : s.critFail i = true ∨ s.eos i = true) : s.log.length ≤ i ∧ ∀ j, i < j → ¬ (s.pc j = .crit ∨ s.pc j = .io) := by sorry
theorem firstFailed_isSome (N : Nat) (f : Nat → Bool) :
    (firstFailed N f).isSome ↔ ∃ i, i < N ∧ f i = true := by sorry
theorem firstFailed_spec (N : Nat) (f : Nat → Bool) (i : Nat) (h : firstFailed N f = some i) :
    i < N ∧ f i = true ∧ ∀ j, j < i → f j = false := by sorry
theorem enc_terminal_ok (N : Nat) (s : St) (h : Reach encStep encInit N s) (hd : allDone N s)
    (hok : ∀ i, i < N → s.failed i = false) : s.log = List.range' 1 N ∧ s.ctr = some N := by sorry
theorem dec_terminal_ok (N : Nat) (s : St) (h : Reach decStep decInit N s) (hd : allDone N s)
    (hok : ∀ i, i < N → s.failed i = false ∧ s.eos i = false) :
    s.log = List.range' 1 N ∧ s.ctr = some N := by sorry
theorem runTrace_sound (step : St → Ev → Option St) (init : St) (N : Nat) (s t : St) (es : List Ev)
    (hs : Reach step init N s) (h : runTrace step N s es = some t) : Reach step init N t := by sorry

end Kanzi.Protocol
