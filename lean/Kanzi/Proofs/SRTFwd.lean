/-
Forward direction of the sorted rank transform (slice `srt`): the array state of the Go code
represents the move-to-front list, the bucket table is the layout `startOf`, and the encoding loop
writes the rank of every position at `startOf + (number of earlier occurrences)`.
-/
import Kanzi.Proofs.SRTList
import Kanzi.Proofs.SRTSort
import Kanzi.Proofs.SRTHeader

namespace Kanzi.SRT

/-- `r2s[0:|L|] = L` and `s2r` is its inverse on the elements of `L` -/
def Rep (s2r r2s : Array Nat) (L : List Nat) : Prop :=
  s2r.size = 256 ∧ r2s.size = 256 ∧ ∀ k x, L[k]? = some x → rd r2s k = x ∧ rd s2r x = k

theorem mtfUp_size : ∀ (r : Nat) (s2r r2s : Array Nat),
    (mtfUp r s2r r2s).1.size = s2r.size ∧ (mtfUp r s2r r2s).2.size = r2s.size := by
  intro r
  induction r with
  | zero => intro s2r r2s; simp [mtfUp]
  | succ r ih =>
    intro s2r r2s
    simp only [mtfUp]
    have := ih (wr s2r (rd r2s r) (r + 1)) (wr r2s (r + 1) (rd r2s r))
    simpa [size_wr] using this

theorem mtfUp_r2s : ∀ (r : Nat) (s2r r2s : Array Nat), r < r2s.size → ∀ k,
    rd (mtfUp r s2r r2s).2 k = if 1 ≤ k ∧ k ≤ r then rd r2s (k - 1) else rd r2s k := by
  intro r
  induction r with
  | zero => intro s2r r2s _ k; simp [mtfUp]; omega
  | succ r ih =>
    intro s2r r2s hr k
    simp only [mtfUp]
    rw [ih _ _ (by rw [size_wr]; omega) k]
    simp only [rd_wr]
    by_cases h1 : 1 ≤ k ∧ k ≤ r
    · have h2 : ¬ (r + 1 = k - 1 ∧ r + 1 < r2s.size) := by omega
      have h3 : 1 ≤ k ∧ k ≤ r + 1 := by omega
      simp [h1, h2, h3]
    · by_cases h4 : k = r + 1
      · subst h4
        simp [hr]
      · have h2 : ¬ (r + 1 = k ∧ r + 1 < r2s.size) := by omega
        have h3 : ¬ (1 ≤ k ∧ k ≤ r + 1) := by omega
        simp [h1, h2, h3]

theorem mtfUp_s2r_miss : ∀ (r : Nat) (s2r r2s : Array Nat), r < r2s.size → ∀ x,
    (∀ k, k < r → rd r2s k ≠ x) → rd (mtfUp r s2r r2s).1 x = rd s2r x := by
  intro r
  induction r with
  | zero => intro s2r r2s _ x _; simp [mtfUp]
  | succ r ih =>
    intro s2r r2s hr x hx
    simp only [mtfUp]
    rw [ih _ _ (by rw [size_wr]; omega) x]
    · rw [rd_wr]
      have := hx r (by omega)
      simp [this]
    · intro k hk
      rw [rd_wr]
      have h2 : ¬ (r + 1 = k ∧ r + 1 < r2s.size) := by omega
      simp only [h2, if_false]
      exact hx k (by omega)

theorem mtfUp_s2r_hit : ∀ (r : Nat) (s2r r2s : Array Nat), r < r2s.size →
    (∀ j, j < r → rd r2s j < s2r.size) →
    (∀ i j, i < r → j < r → i ≠ j → rd r2s i ≠ rd r2s j) →
    ∀ k, k < r → rd (mtfUp r s2r r2s).1 (rd r2s k) = k + 1 := by
  intro r
  induction r with
  | zero => intro s2r r2s _ _ _ k hk; omega
  | succ r ih =>
    intro s2r r2s hr hb hd k hk
    simp only [mtfUp]
    have hsame : ∀ j, j < r → rd (wr r2s (r + 1) (rd r2s r)) j = rd r2s j := by
      intro j hj
      rw [rd_wr]
      have h2 : ¬ (r + 1 = j ∧ r + 1 < r2s.size) := by omega
      simp [h2]
    by_cases hkr : k = r
    · subst hkr
      rw [mtfUp_s2r_miss _ _ _ (by rw [size_wr]; omega)]
      · rw [rd_wr]; simp [hb k (by omega)]
      · intro j hj
        rw [hsame j hj]
        exact hd j k (by omega) (by omega) (by omega)
    · have := ih (wr s2r (rd r2s r) (r + 1)) (wr r2s (r + 1) (rd r2s r)) (by rw [size_wr]; omega)
        (by intro j hj; rw [hsame j hj, size_wr]; exact hb j (by omega))
        (by intro i j hi hj hij; rw [hsame i hi, hsame j hj]; exact hd i j (by omega) (by omega) hij)
        k (by omega)
      rw [hsame k (by omega)] at this
      exact this


theorem getElem?_of_lt {L : List Nat} {k : Nat} (h : k < L.length) : L[k]? = some L[k] := by
  simp [h]

/-- one move-to-front step on the represented list -/
theorem rep_mtf {s2r r2s : Array Nat} {L : List Nat} (h : Rep s2r r2s L)
    (hb : ∀ x ∈ L, x < 256) (hlen : L.length ≤ 256) {c : Nat} (hc : c ∈ L) :
    rd s2r c = L.idxOf c ∧
    (rd s2r c = 0 → c :: L.erase c = L) ∧
    (0 < rd s2r c → Rep (wr (mtfUp (rd s2r c) s2r r2s).1 c 0) (wr (mtfUp (rd s2r c) s2r r2s).2 0 c)
        (c :: L.erase c)) := by
  obtain ⟨hs1, hs2, hR⟩ := h
  have hr : L.idxOf c < L.length := List.idxOf_lt_length_of_mem hc
  have hLr : L[L.idxOf c]? = some c := by
    rw [getElem?_of_lt hr]; simp
  have hrc := hR _ _ hLr
  have hidx : rd s2r c = L.idxOf c := hrc.2
  refine ⟨hidx, ?_, ?_⟩
  · intro h0
    rw [hidx] at h0
    rw [h0] at hLr
    cases L with
    | nil => simp at hc
    | cons y t =>
      simp at hLr
      subst hLr
      simp
  · intro hpos
    rw [hidx] at hpos ⊢
    generalize hrdef : L.idxOf c = r at *
    have hr256 : r < 256 := by omega
    have hrd : ∀ j (hj : j < L.length), rd r2s j = L[j] ∧ rd s2r L[j] = j := by
      intro j hj; exact hR j _ (getElem?_of_lt hj)
    have hsz := mtfUp_size r s2r r2s
    have hbnd : ∀ j, j < r → rd r2s j < s2r.size := by
      intro j hj
      rw [(hrd j (by omega)).1, hs1]
      exact hb _ (List.getElem_mem _)
    have hdist : ∀ i j, i < r → j < r → i ≠ j → rd r2s i ≠ rd r2s j := by
      intro i j hi hj hij he
      rw [(hrd i (by omega)).1, (hrd j (by omega)).1] at he
      have h1 := (hrd i (by omega)).2
      have h2 := (hrd j (by omega)).2
      rw [he] at h1
      omega
    have hers : L.erase c = L.eraseIdx r := List.erase_eq_eraseIdx_of_idxOf hrdef
    refine ⟨by rw [size_wr, hsz.1, hs1], by rw [size_wr, hsz.2, hs2], ?_⟩
    intro k x hk
    cases k with
    | zero =>
      simp at hk
      subst hk
      constructor
      · rw [rd_wr]; simp [hsz.2, hs2]
      · rw [rd_wr]; simp [hsz.1, hs1, hb c hc]
    | succ k =>
      simp only [List.getElem?_cons_succ, hers, List.getElem?_eraseIdx] at hk
      by_cases hkr : k < r
      · simp only [hkr, if_true] at hk
        have hx := hR k x hk
        have hxc : x ≠ c := by
          intro e
          rw [e, hrc.2] at hx
          omega
        constructor
        · rw [rd_wr]
          have : ¬ (0 = k + 1 ∧ 0 < (mtfUp r s2r r2s).2.size) := by omega
          simp only [this, if_false]
          rw [mtfUp_r2s r s2r r2s (by omega)]
          have : 1 ≤ k + 1 ∧ k + 1 ≤ r := by omega
          rw [if_pos this]
          exact hx.1
        · rw [rd_wr]
          have : ¬ (c = x ∧ c < (mtfUp r s2r r2s).1.size) := by
            intro ⟨e, _⟩; exact hxc e.symm
          simp only [this, if_false]
          have := mtfUp_s2r_hit r s2r r2s (by omega) hbnd hdist k hkr
          rw [hx.1] at this
          exact this
      · simp only [hkr, if_false] at hk
        have hx := hR (k + 1) x hk
        have hxc : x ≠ c := by
          intro e
          rw [e, hrc.2] at hx
          omega
        constructor
        · rw [rd_wr]
          have : ¬ (0 = k + 1 ∧ 0 < (mtfUp r s2r r2s).2.size) := by omega
          simp only [this, if_false]
          rw [mtfUp_r2s r s2r r2s (by omega)]
          have : ¬ (1 ≤ k + 1 ∧ k + 1 ≤ r) := by omega
          rw [if_neg this]
          exact hx.1
        · rw [rd_wr]
          have : ¬ (c = x ∧ c < (mtfUp r s2r r2s).1.size) := by
            intro ⟨e, _⟩; exact hxc e.symm
          simp only [this, if_false]
          rw [mtfUp_s2r_miss r s2r r2s (by omega)]
          · exact hx.2
          · intro j hj he
            have hj2 := (hrd j (by omega))
            rw [he] at hj2
            have h3 := hj2.2
            rw [← hj2.1, hx.2] at h3
            omega


/-! ## the first loop of Forward -/

theorem firsts_snoc (p : List Nat) (x : Nat) :
    firsts (p ++ [x]) = if x ∈ p then firsts p else firsts p ++ [x] := by
  rw [firsts_append]
  by_cases h : x ∈ p <;> simp [firsts, h]

theorem rep_snoc {s2r r2s : Array Nat} {L : List Nat} {x : Nat} (h : Rep s2r r2s L)
    (hx : x ∉ L) (hx256 : x < 256) (hlen : L.length < 256) :
    Rep (wr s2r x (L.length % 256)) (wr r2s L.length x) (L ++ [x]) := by
  obtain ⟨hs1, hs2, hR⟩ := h
  refine ⟨by rw [size_wr, hs1], by rw [size_wr, hs2], ?_⟩
  intro k y hk
  rw [List.getElem?_append] at hk
  by_cases hkl : k < L.length
  · simp only [hkl, if_true] at hk
    have hy := hR k y hk
    have hyx : x ≠ y := by
      intro e; subst e
      exact hx (List.mem_of_getElem? hk)
    constructor
    · rw [rd_wr]
      have : ¬ (L.length = k ∧ L.length < r2s.size) := by omega
      rw [if_neg this]; exact hy.1
    · rw [rd_wr]
      have : ¬ (x = y ∧ x < s2r.size) := fun ⟨e, _⟩ => hyx e
      rw [if_neg this]; exact hy.2
  · simp only [hkl, if_false] at hk
    have hk0 : k - L.length = 0 := by
      rcases Nat.eq_zero_or_pos (k - L.length) with h0 | h0
      · exact h0
      · rw [List.getElem?_eq_none (by simp; omega)] at hk; simp at hk
    rw [hk0] at hk
    simp at hk
    subst hk
    have hkeq : k = L.length := by omega
    subst hkeq
    constructor
    · rw [rd_wr]; simp [hs2, hlen]
    · rw [rd_wr]; simp [hs1, hx256]; omega

structure CInv (p : List Nat) (st : CSt) : Prop where
  fsz : st.freqs.size = 256
  freq : ∀ c, c < 256 → rd st.freqs c = p.count c
  rep : Rep st.s2r st.r2s (firsts p)
  b : st.b = (firsts p).length

theorem freq_step {freqs : Array Nat} {p : List Nat} {x : Nat} (hsz : freqs.size = 256)
    (hx : x < 256) (h : ∀ c, c < 256 → rd freqs c = p.count c) :
    ∀ c, c < 256 → rd (wr freqs x (rd freqs x + 1)) c = (p ++ [x]).count c := by
  intro c hc
  rw [rd_wr, List.count_append, List.count_singleton]
  by_cases e : x = c
  · subst e; simp [hsz, hx, h x hx]
  · have : ¬ (x = c ∧ x < freqs.size) := fun ⟨e', _⟩ => e e'
    rw [if_neg this, h c hc]
    simp [e]

theorem firsts_bytes {p : List Nat} (hb : ∀ x ∈ p, x < 256) : ∀ x ∈ firsts p, x < 256 :=
  fun x hx => hb x (mem_firsts.1 hx)

theorem fwdCount_inv : ∀ (q p : List Nat) (prev : Option Nat) (st : CSt),
    (∀ x ∈ p ++ q, x < 256) → CInv p st → (∀ x, prev = some x → x ∈ p) →
    CInv (p ++ q) (fwdCount q prev st) := by
  intro q
  induction q with
  | nil => intro p prev st _ h _; simpa [fwdCount] using h
  | cons x q ih =>
    intro p prev st hb h hprev
    have hx256 : x < 256 := hb x (by simp)
    have hb' : ∀ y ∈ (p ++ [x]) ++ q, y < 256 := by simpa using hb
    have hassoc : p ++ x :: q = (p ++ [x]) ++ q := by simp
    rw [hassoc]
    have hfreq := freq_step h.fsz hx256 h.freq
    have hmemx : ∀ y, some x = some y → y ∈ p ++ [x] := by
      intro y e; simp at e; simp [e]
    simp only [fwdCount]
    by_cases h1 : prev = some x
    · rw [if_pos h1]
      have hxp : x ∈ p := hprev x h1
      apply ih (p ++ [x]) prev _ hb'
      · refine ⟨by simp [size_wr, h.fsz], hfreq, ?_, ?_⟩
        · simpa [firsts_snoc, hxp] using h.rep
        · simpa [firsts_snoc, hxp] using h.b
      · intro y hy; have := hprev y hy; simp [this]
    · rw [if_neg h1]
      by_cases h2 : rd st.freqs x = 0
      · rw [if_pos h2]
        have hxp : x ∉ p := by
          rw [h.freq x hx256] at h2
          exact List.count_eq_zero.1 h2
        have hxf : x ∉ firsts p := fun hm => hxp (mem_firsts.1 hm)
        have hlen : (firsts p).length < 256 := by
          have hb1 : ∀ y ∈ x :: firsts p, y < 256 := by
            intro y hy
            rcases List.mem_cons.1 hy with e | e
            · rw [e]; exact hx256
            · exact hb y (by simp [mem_firsts.1 e])
          have := bytes_nodup_length_le (List.nodup_cons.2 ⟨hxf, nodup_firsts p⟩) hb1
          simp at this; omega
        apply ih (p ++ [x]) (some x) _ hb'
        · refine ⟨by simp [size_wr, h.fsz], hfreq, ?_, ?_⟩
          · simp only [firsts_snoc, hxp, if_false, h.b]
            exact rep_snoc h.rep hxf hx256 hlen
          · simp [firsts_snoc, hxp, h.b]
        · exact hmemx
      · rw [if_neg h2]
        have hxp : x ∈ p := by
          rw [h.freq x hx256] at h2
          exact List.count_pos_iff.1 (Nat.pos_of_ne_zero h2)
        apply ih (p ++ [x]) (some x) _ hb'
        · refine ⟨by simp [size_wr, h.fsz], hfreq, ?_, ?_⟩
          · simpa [firsts_snoc, hxp] using h.rep
          · simpa [firsts_snoc, hxp] using h.b
        · exact hmemx

theorem rd_zeros (i : Nat) : rd zeros i = 0 := by
  simp [rd, zeros, Array.getD_eq_getD_getElem?, Array.getElem?_replicate]
  split <;> rfl

theorem zeros_size : zeros.size = 256 := by simp [zeros]

theorem fwdCount_spec (b : List Nat) (hb : ∀ x ∈ b, x < 256) :
    CInv b (fwdCount b none ⟨0, zeros, zeros, zeros⟩) := by
  have := fwdCount_inv b [] none ⟨0, zeros, zeros, zeros⟩ (by simpa using hb)
    ⟨zeros_size, by intro c _; simp [rd_zeros], ⟨zeros_size, zeros_size, by intro k x h; simp [firsts] at h⟩,
      by simp [firsts]⟩
    (by intro x h; simp at h)
  simpa using this


/-! ## bucket layout -/

/-- start of the bucket of `c` when the buckets are laid out in the order `S` -/
def startOf (fr : Array Nat) : List Nat → Nat → Nat
  | [], _ => 0
  | s :: rest, c => if s = c then 0 else rd fr s + startOf fr rest c

def total (fr : Array Nat) : List Nat → Nat
  | [] => 0
  | s :: rest => rd fr s + total fr rest

theorem startOf_append (fr : Array Nat) : ∀ (pre suf : List Nat) (c : Nat), c ∉ pre →
    startOf fr (pre ++ suf) c = total fr pre + startOf fr suf c := by
  intro pre
  induction pre with
  | nil => intro suf c _; simp [total]
  | cons s pre ih =>
    intro suf c hc
    have h1 : s ≠ c := fun e => hc (by simp [e])
    have h2 : c ∉ pre := fun e => hc (by simp [e])
    simp only [List.cons_append, startOf, total, if_neg h1, ih suf c h2]
    omega

theorem total_append (fr : Array Nat) : ∀ (pre suf : List Nat),
    total fr (pre ++ suf) = total fr pre + total fr suf := by
  intro pre
  induction pre with
  | nil => intro suf; simp [total]
  | cons s pre ih => intro suf; simp only [List.cons_append, total, ih]; omega

theorem startOf_le (fr : Array Nat) : ∀ (S : List Nat) (c : Nat), c ∈ S →
    startOf fr S c + rd fr c ≤ total fr S := by
  intro S
  induction S with
  | nil => intro c h; simp at h
  | cons s S ih =>
    intro c hc
    by_cases e : s = c
    · subst e; simp [startOf, total]
    · have : c ∈ S := by
        rcases List.mem_cons.1 hc with h | h
        · exact absurd h.symm e
        · exact h
      have := ih c this
      simp only [startOf, total, if_neg e]; omega

theorem startOf_inj (fr : Array Nat) : ∀ (S : List Nat) (c c' k k' : Nat), c ∈ S → c' ∈ S →
    k < rd fr c → k' < rd fr c' → startOf fr S c + k = startOf fr S c' + k' → c = c' := by
  intro S
  induction S with
  | nil => intro c c' k k' h; simp at h
  | cons s S ih =>
    intro c c' k k' hc hc' hk hk' he
    by_cases e : s = c <;> by_cases e' : s = c'
    · rw [← e, ← e']
    · subst e
      simp only [startOf, if_neg e', if_true] at he
      omega
    · subst e'
      simp only [startOf, if_neg e, if_true] at he
      omega
    · simp only [startOf, if_neg e, if_neg e'] at he
      have h1 : c ∈ S := by
        rcases List.mem_cons.1 hc with h | h
        · exact absurd h.symm e
        · exact h
      have h2 : c' ∈ S := by
        rcases List.mem_cons.1 hc' with h | h
        · exact absurd h.symm e'
        · exact h
      exact ih c c' k k' h1 h2 hk hk' (by omega)

theorem fwdBuckets_miss (fr : Array Nat) : ∀ (S : List Nat) (pos : Nat) (bk : Array Nat) (c : Nat),
    c ∉ S → rd (fwdBuckets fr S pos bk) c = rd bk c := by
  intro S
  induction S with
  | nil => intro pos bk c _; rfl
  | cons s S ih =>
    intro pos bk c hc
    have h1 : s ≠ c := fun e => hc (by simp [e])
    have h2 : c ∉ S := fun e => hc (by simp [e])
    simp only [fwdBuckets]
    rw [ih _ _ c h2, rd_wr]
    have : ¬ (s = c ∧ s < bk.size) := fun ⟨e, _⟩ => h1 e
    rw [if_neg this]

theorem fwdBuckets_size (fr : Array Nat) : ∀ (S : List Nat) (pos : Nat) (bk : Array Nat),
    (fwdBuckets fr S pos bk).size = bk.size := by
  intro S
  induction S with
  | nil => intro pos bk; rfl
  | cons s S ih => intro pos bk; simp only [fwdBuckets]; rw [ih, size_wr]

theorem fwdBuckets_spec (fr : Array Nat) : ∀ (S : List Nat) (pos : Nat) (bk : Array Nat),
    bk.size = 256 → S.Nodup → (∀ c ∈ S, c < 256) →
    ∀ c ∈ S, rd (fwdBuckets fr S pos bk) c = pos + startOf fr S c := by
  intro S
  induction S with
  | nil => intro pos bk _ _ _ c h; simp at h
  | cons s S ih =>
    intro pos bk hsz hnd hb c hc
    rw [List.nodup_cons] at hnd
    simp only [fwdBuckets]
    by_cases e : s = c
    · subst e
      rw [fwdBuckets_miss fr S _ _ s hnd.1, rd_wr]
      simp [startOf, hsz, hb s (by simp)]
    · have h1 : c ∈ S := by
        rcases List.mem_cons.1 hc with h | h
        · exact absurd h.symm e
        · exact h
      rw [ih _ _ (by rw [size_wr]; exact hsz) hnd.2 (fun c hc => hb c (by simp [hc])) c h1]
      simp only [startOf, if_neg e]; omega

/-- the buckets tile `[0, len)` -/
theorem sum_count : ∀ (S l : List Nat), S.Nodup → (∀ x ∈ l, x ∈ S) →
    (S.map (fun c => l.count c)).sum = l.length := by
  intro S
  induction S with
  | nil =>
    intro l _ h
    cases l with
    | nil => rfl
    | cons x l => exact absurd (h x (by simp)) (by simp)
  | cons s S ih =>
    intro l hnd hm
    rw [List.nodup_cons] at hnd
    have h1 := ih (l.filter (fun y => !(y == s))) hnd.2 (by
      intro x hx
      rw [List.mem_filter] at hx
      rcases List.mem_cons.1 (hm x hx.1) with h | h
      · simp [h] at hx
      · exact h)
    have h2 : S.map (fun c => (l.filter (fun y => !(y == s))).count c) = S.map (fun c => l.count c) := by
      apply List.map_congr_left
      intro c hc
      apply List.count_filter
      have : c ≠ s := fun e => hnd.1 (e ▸ hc)
      simp [this]
    rw [h2] at h1
    have h3 := List.length_eq_countP_add_countP (fun y => y == s) (l := l)
    rw [List.countP_eq_length_filter (p := fun a => decide (¬ (a == s) = true))] at h3
    have h4 : (l.filter (fun a => decide (¬ (a == s) = true))) = l.filter (fun y => !(y == s)) := by
      apply List.filter_congr; intro y _
      by_cases e : y = s <;> simp [e]
    rw [h4] at h3
    have h5 : l.count s = List.countP (fun y => y == s) l := List.count_eq_countP
    simp only [List.map_cons, List.sum_cons]
    omega

theorem total_eq_sum (fr : Array Nat) (S : List Nat) : total fr S = (S.map (rd fr)).sum := by
  induction S with
  | nil => rfl
  | cons s S ih => simp [total, ih]

theorem total_eq_length (fr : Array Nat) (S b : List Nat) (hnd : S.Nodup) (hm : ∀ x ∈ b, x ∈ S)
    (hfr : ∀ c ∈ S, rd fr c = b.count c) : total fr S = b.length := by
  rw [total_eq_sum, ← sum_count S b hnd hm]
  congr 1
  apply List.map_congr_left
  exact hfr


/-! ## the move-to-front list and the ranks -/

/-- the move-to-front list after the prefix `p` of the block `b` has been encoded -/
def mtfList (b p : List Nat) : List Nat := firsts (p.reverse ++ firsts b)

/-- the rank written for symbol `c` after the prefix `p` -/
def rank (b p : List Nat) (c : Nat) : Nat := (mtfList b p).idxOf c

theorem mtfList_nil (b : List Nat) : mtfList b [] = firsts b := by
  simp [mtfList, firsts_firsts]

theorem mtfList_snoc (b p : List Nat) (c : Nat) :
    mtfList b (p ++ [c]) = c :: (mtfList b p).erase c := by
  simp [mtfList, firsts]

theorem mem_mtfList {b p : List Nat} {a : Nat} : a ∈ mtfList b p ↔ a ∈ p ∨ a ∈ b := by
  simp [mtfList, mem_firsts]

theorem nodup_mtfList (b p : List Nat) : (mtfList b p).Nodup := nodup_firsts _

theorem take_succ_of_getElem? {b : List Nat} {i x : Nat} (h : b[i]? = some x) :
    b.take (i + 1) = b.take i ++ [x] := by
  rw [List.take_add_one, h]; rfl

theorem count_take_lt {b : List Nat} {i j c : Nat} (hji : j < i) (h : b[j]? = some c) :
    (b.take j).count c + 1 ≤ (b.take i).count c := by
  have h1 : b.take i = (b.take j ++ [c]) ++ (b.take i).drop (j + 1) := by
    rw [← take_succ_of_getElem? h]
    have : b.take (j + 1) = (b.take i).take (j + 1) := by
      rw [List.take_take]; congr 1; omega
    rw [this, List.take_append_drop]
  rw [h1]
  simp only [List.count_append, List.count_singleton_self]
  omega

theorem count_take_lt_all {b : List Nat} {j c : Nat} (h : b[j]? = some c) :
    (b.take j).count c + 1 ≤ b.count c := by
  have hj : j < b.length := by
    rcases List.getElem?_eq_some_iff.1 h with ⟨hj, _⟩; exact hj
  have := count_take_lt (i := b.length) hj h
  simpa using this

/-- facts shared by both directions -/
structure Ctx (fr : Array Nat) (S b : List Nat) : Prop where
  bytes : ∀ x ∈ b, x < 256
  nodup : S.Nodup
  mem : ∀ c, c ∈ S ↔ c ∈ b
  fr : ∀ c, c < 256 → rd fr c = b.count c

theorem Ctx.lt {fr : Array Nat} {S b : List Nat} (h : Ctx fr S b) : ∀ c ∈ S, c < 256 :=
  fun c hc => h.bytes c ((h.mem c).1 hc)

theorem Ctx.total {fr : Array Nat} {S b : List Nat} (h : Ctx fr S b) : total fr S = b.length :=
  total_eq_length fr S b h.nodup (fun x hx => (h.mem x).2 hx) (fun c hc => h.fr c (h.lt c hc))

/-- position of the rank of `b[j] = c` in the output -/
theorem Ctx.pos_lt {fr : Array Nat} {S b : List Nat} (h : Ctx fr S b) {j c : Nat}
    (hj : b[j]? = some c) : startOf fr S c + (b.take j).count c < b.length := by
  have hc : c ∈ b := List.mem_of_getElem? hj
  have h1 := startOf_le fr S c ((h.mem c).2 hc)
  rw [h.total, h.fr c (h.bytes c hc)] at h1
  have := count_take_lt_all hj
  omega

theorem Ctx.pos_inj {fr : Array Nat} {S b : List Nat} (h : Ctx fr S b) {i j c x : Nat}
    (hji : j < i) (hj : b[j]? = some c) (hi : b[i]? = some x) :
    startOf fr S c + (b.take j).count c ≠ startOf fr S x + (b.take i).count x := by
  intro he
  have hc : c ∈ b := List.mem_of_getElem? hj
  have hx : x ∈ b := List.mem_of_getElem? hi
  have h1 := count_take_lt_all hj
  have h2 := count_take_lt_all hi
  have e := startOf_inj fr S c x _ _ ((h.mem c).2 hc) ((h.mem x).2 hx)
    (by rw [h.fr c (h.bytes c hc)]; omega) (by rw [h.fr x (h.bytes x hx)]; omega) he
  subst e
  have := count_take_lt hji hj
  omega

structure EInv (fr : Array Nat) (S b : List Nat) (i : Nat) (st : ESt) : Prop where
  rep : Rep st.s2r st.r2s (mtfList b (b.take i))
  bsz : st.buckets.size = 256
  bk : ∀ c ∈ S, rd st.buckets c = startOf fr S c + (b.take i).count c
  data : ∀ j c, j < i → b[j]? = some c →
    rd st.data (startOf fr S c + (b.take j).count c) = rank b (b.take j) c

theorem einv_step {fr : Array Nat} {S b : List Nat} (ctx : Ctx fr S b) {i x : Nat} {st : ESt}
    (hx : b[i]? = some x) (h : EInv fr S b i st) (hm : b.length ≤ st.data.size)
    (s2r' r2s' : Array Nat) (hrep : Rep s2r' r2s' (mtfList b (b.take (i + 1))))
    (v : Nat) (hv : v = rank b (b.take i) x) :
    EInv fr S b (i + 1)
      ⟨s2r', r2s', wr st.buckets x (rd st.buckets x + 1), wr st.data (rd st.buckets x) v⟩ := by
  have hxb : x ∈ b := List.mem_of_getElem? hx
  have hxS : x ∈ S := (ctx.mem x).2 hxb
  have hpos := ctx.pos_lt hx
  have hbx := h.bk x hxS
  refine ⟨hrep, by simp [size_wr, h.bsz], ?_, ?_⟩
  · intro c hc
    rw [rd_wr, take_succ_of_getElem? hx, List.count_append, List.count_singleton]
    by_cases e : x = c
    · subst e
      simp [h.bsz, ctx.lt x hxS, hbx]; omega
    · have : ¬ (x = c ∧ x < st.buckets.size) := fun ⟨e', _⟩ => e e'
      rw [if_neg this, h.bk c hc]
      simp [e]
  · intro j c hj hc
    show rd (wr st.data (rd st.buckets x) v) _ = _
    rw [rd_wr, hbx]
    by_cases e : j = i
    · subst e
      rw [hx] at hc
      simp at hc
      subst hc
      have : startOf fr S x + (b.take j).count x < st.data.size := by omega
      simp [this, hv]
    · have hji : j < i := by omega
      have hne := ctx.pos_inj hji hc hx
      have : ¬ (startOf fr S x + (b.take i).count x = startOf fr S c + (b.take j).count c ∧
          startOf fr S x + (b.take i).count x < st.data.size) := fun ⟨e', _⟩ => hne e'.symm
      rw [if_neg this]
      exact h.data j c hji hc


theorem mtfList_bytes {b p : List Nat} (hb : ∀ x ∈ b, x < 256) (hp : ∀ x ∈ p, x ∈ b) :
    ∀ y ∈ mtfList b p, y < 256 := by
  intro y hy
  rcases mem_mtfList.1 hy with h | h
  · exact hb y (hp y h)
  · exact hb y h

theorem drop_cons_getElem? {b q : List Nat} {i x : Nat} (h : b.drop i = x :: q) :
    b[i]? = some x ∧ b.drop (i + 1) = q := by
  constructor
  · have := List.getElem?_drop (xs := b) (i := i) (j := 0)
    rw [h] at this
    simpa using this.symm
  · have := List.tail_drop (l := b) (i := i)
    rw [h] at this
    simpa using this.symm

theorem fwdEncode_inv {fr : Array Nat} {S b : List Nat} (ctx : Ctx fr S b) :
    ∀ (q : List Nat) (i : Nat) (prev : Option Nat) (st : ESt), b.drop i = q →
    EInv fr S b i st → (∀ x, prev = some x → (b.take i).getLast? = some x) →
    b.length ≤ st.data.size →
    ∃ st', fwdEncode q prev st = some st' ∧ EInv fr S b b.length st' ∧
      st'.data.size = st.data.size := by
  intro q
  induction q with
  | nil =>
    intro i prev st hq h _ _
    have hi : b.length ≤ i := by
      have := congrArg List.length hq
      simp at this; omega
    refine ⟨st, rfl, ?_, rfl⟩
    have ht : b.take i = b.take b.length := by
      rw [List.take_of_length_le hi, List.take_length]
    refine ⟨by rw [← ht]; exact h.rep, h.bsz, by rw [← ht]; exact h.bk, ?_⟩
    intro j c hj hc
    exact h.data j c (by omega) hc
  | cons x q ih =>
    intro i prev st hq h hprev hm
    obtain ⟨hx, hq'⟩ := drop_cons_getElem? hq
    have hxb : x ∈ b := List.mem_of_getElem? hx
    have hxS : x ∈ S := (ctx.mem x).2 hxb
    have hpos := ctx.pos_lt hx
    have hbx := h.bk x hxS
    have hnf : ¬ (rd st.buckets x ≥ st.data.size) := by omega
    have htk := take_succ_of_getElem? hx
    have hlast : ∀ y, some x = some y → (b.take (i + 1)).getLast? = some y := by
      intro y e; simp at e; subst e; rw [htk]; simp
    have hxL : x ∈ mtfList b (b.take i) := mem_mtfList.2 (Or.inr hxb)
    have hbL : ∀ y ∈ mtfList b (b.take i), y < 256 :=
      mtfList_bytes ctx.bytes (fun y hy => List.mem_of_mem_take hy)
    have hlenL := bytes_nodup_length_le (nodup_mtfList b (b.take i)) hbL
    obtain ⟨hidx, hzero, hposr⟩ := rep_mtf h.rep hbL hlenL hxL
    have hL' : mtfList b (b.take (i + 1)) = x :: (mtfList b (b.take i)).erase x := by
      rw [htk, mtfList_snoc]
    simp only [fwdEncode, if_neg hnf]
    by_cases h1 : prev = some x
    · rw [if_pos h1]
      -- run continuation: the rank is 0 and the lists do not change
      have hl := hprev x h1
      obtain ⟨ys, hys⟩ := List.getLast?_eq_some_iff.1 hl
      have hM : mtfList b (b.take i) = x :: (mtfList b ys).erase x := by
        rw [hys, mtfList_snoc]
      have hr0 : rank b (b.take i) x = 0 := by
        unfold rank; rw [hM]; simp
      have hs0 : rd st.s2r x = 0 := by rw [hidx]; exact hr0
      have hstep := einv_step ctx hx h hm st.s2r st.r2s
        (by rw [hL', hzero hs0]; exact h.rep) 0 hr0.symm
      obtain ⟨st', h1', h2', h3'⟩ := ih (i + 1) prev _ hq' hstep
        (by intro y hy; rw [h1] at hy; exact hlast y hy) (by simpa [size_wr] using hm)
      exact ⟨st', h1', h2', by simpa [size_wr] using h3'⟩
    · rw [if_neg h1]
      by_cases h2 : rd st.s2r x > 0
      · rw [if_pos h2]
        have hstep := einv_step ctx hx h hm _ _ (by rw [hL']; exact hposr h2) (rd st.s2r x)
          (by rw [hidx]; rfl)
        obtain ⟨st', h1', h2', h3'⟩ := ih (i + 1) (some x) _ hq' hstep hlast
          (by simpa [size_wr] using hm)
        exact ⟨st', h1', h2', by simpa [size_wr] using h3'⟩
      · rw [if_neg h2]
        have hs0 : rd st.s2r x = 0 := by omega
        have hstep := einv_step ctx hx h hm st.s2r st.r2s
          (by rw [hL', hzero hs0]; exact h.rep) (rd st.s2r x) (by rw [hidx]; rfl)
        obtain ⟨st', h1', h2', h3'⟩ := ih (i + 1) (some x) _ hq' hstep hlast
          (by simpa [size_wr] using hm)
        exact ⟨st', h1', h2', by simpa [size_wr] using h3'⟩


/-! ## Forward as a whole -/

/-- the frequency table computed by Forward -/
def freqsOf (b : List Nat) : Array Nat := (fwdCount b none ⟨0, zeros, zeros, zeros⟩).freqs

theorem ctx_of (b : List Nat) (hb : ∀ x ∈ b, x < 256) :
    Ctx (freqsOf b) (preprocess (freqsOf b)) b := by
  have hc := fwdCount_spec b hb
  refine ⟨hb, preprocess_nodup _, ?_, hc.freq⟩
  intro c
  rw [mem_preprocess]
  constructor
  · intro ⟨h1, h2⟩
    have h3 : rd (freqsOf b) c = b.count c := hc.freq c h1
    rw [h3] at h2
    exact List.count_pos_iff.1 (Nat.pos_of_ne_zero h2)
  · intro h
    have h1 := hb c h
    refine ⟨h1, ?_⟩
    have h3 : rd (freqsOf b) c = b.count c := hc.freq c h1
    rw [h3]
    have := List.count_pos_iff.2 h
    omega

theorem freqsOf_size (b : List Nat) (hb : ∀ x ∈ b, x < 256) : (freqsOf b).size = 256 :=
  (fwdCount_spec b hb).fsz

theorem freqsOf_toList (b : List Nat) (hb : ∀ x ∈ b, x < 256) :
    (freqsOf b).toList = (List.range 256).map (fun c => b.count c) := by
  apply List.ext_getElem
  · rw [Array.length_toList, freqsOf_size b hb]; simp
  · intro i h1 h2
    have hi : i < 256 := by simpa using h2
    rw [Array.getElem_toList, ← rd_eq_getElem _ _ (by rw [freqsOf_size b hb]; exact hi)]
    rw [List.getElem_map, List.getElem_range]
    exact (fwdCount_spec b hb).freq i hi

/-- the frequencies add up to the block length -/
theorem freqsOf_sum (b : List Nat) (hb : ∀ x ∈ b, x < 256) : (freqsOf b).toList.sum = b.length := by
  rw [freqsOf_toList b hb]
  exact sum_count (List.range 256) b List.nodup_range (fun x hx => List.mem_range.2 (hb x hx))

theorem freqsOf_toList_lt (b : List Nat) (hb : ∀ x ∈ b, x < 256) (N : Nat)
    (hf : ∀ c, b.count c < N) : ∀ f ∈ (freqsOf b).toList, f < N := by
  intro f hf'
  rw [Array.mem_toList_iff, Array.mem_iff_getElem] at hf'
  obtain ⟨i, hi, e⟩ := hf'
  rw [← e, ← rd_eq_getElem _ _ hi]
  have h3 : rd (freqsOf b) i = b.count i :=
    (fwdCount_spec b hb).freq i (by rw [freqsOf_size b hb] at hi; exact hi)
  rw [h3]
  exact hf i

/-- Forward into a large enough destination: header, then the ranks at their bucket positions -/
theorem srtForward_spec (fill : Nat) (b : List Nat) (dstLen : Nat) (hb : ∀ x ∈ b, x < 256)
    (hne : b ≠ []) (hdst : maxEncodedLen b.length ≤ dstLen) (hfreq : ∀ c, b.count c < 2 ^ 31) :
    ∃ data : List Nat,
      srtForwardFill fill b dstLen = .ok (encodeHeader (freqsOf b).toList ++ data) ∧
      data.length = b.length ∧
      ∀ j c, b[j]? = some c →
        data[startOf (freqsOf b) (preprocess (freqsOf b)) c + (b.take j).count c]? =
          some (rank b (b.take j) c) := by
  have hc := fwdCount_spec b hb
  have ctx := ctx_of b hb
  have hlen0 : b.length ≠ 0 := by
    intro h; exact hne (List.length_eq_zero_iff.1 h)
  have hhl := encodeHeader_length (freqsOf b).toList (freqsOf_toList_lt b hb _ hfreq)
  rw [Array.length_toList, freqsOf_size b hb] at hhl
  unfold maxEncodedLen at hdst
  have e0 : EInv (freqsOf b) (preprocess (freqsOf b)) b 0
      ⟨(fwdCount b none ⟨0, zeros, zeros, zeros⟩).s2r, (fwdCount b none ⟨0, zeros, zeros, zeros⟩).r2s,
        fwdBuckets (freqsOf b) (preprocess (freqsOf b)) 0 zeros,
        Array.replicate (dstLen - (encodeHeader (freqsOf b).toList).length) fill⟩ := by
    refine ⟨by simpa [mtfList_nil] using hc.rep, by rw [fwdBuckets_size, zeros_size], ?_, ?_⟩
    · intro c hcS
      rw [fwdBuckets_spec _ _ _ _ zeros_size ctx.nodup ctx.lt c hcS]
      simp
    · intro j c hj; omega
  obtain ⟨st', h1, h2, h3⟩ := fwdEncode_inv ctx b 0 none _ (by simp) e0
    (by intro x h; simp at h) (by simp; omega)
  simp only [Array.size_replicate] at h3
  refine ⟨st'.data.toList.take b.length, ?_, ?_, ?_⟩
  · unfold srtForwardFill maxEncodedLen
    have hA : ¬ (b.length = 0 ∨ dstLen = 0) := by omega
    have hB : ¬ (dstLen < b.length + 5 * 256) := by omega
    have hC : ¬ ((encodeHeader (freqsOf b).toList).length > dstLen) := by omega
    simp only [if_neg hA, if_neg hB]
    show (if (encodeHeader (freqsOf b).toList).length > dstLen then Res.fault else _) = _
    rw [if_neg hC]
    show (match fwdEncode b none _ with | none => Res.fault | some es => _) = _
    unfold freqsOf at h1
    rw [h1]
    rfl
  · have : st'.data.toList.length = st'.data.size := Array.length_toList
    simp only [List.length_take, this, h3]; omega
  · intro j c hj
    have hp := ctx.pos_lt hj
    rw [List.getElem?_take]
    have hj' : j < b.length := (List.getElem?_eq_some_iff.1 hj).1
    rw [if_pos hp]
    have hsz : startOf (freqsOf b) (preprocess (freqsOf b)) c + (b.take j).count c < st'.data.size := by
      rw [h3]; omega
    rw [Array.getElem?_toList, Array.getElem?_eq_getElem hsz, ← rd_eq_getElem _ _ hsz]
    rw [h2.data j c hj' hj]

end Kanzi.SRT
