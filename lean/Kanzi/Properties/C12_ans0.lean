/-
C12 (ANS order 0, whole chunk / whole block) — extends `C12_small` (`C12_ans_step`,
`C12_freq_header`) to the complete order-0 `ANSRangeEncoder.Write` / `ANSRangeDecoder.Read`
(`encodeChunk`, `decodeChunkV2`, 4 interleaved states sharing one byte buffer).
Property theorems only; proofs live in `Kanzi/Proofs/Ans0.lean`.
The model functions (`Kanzi/Model/EntSmall.lean`, section `Ans0`: `mkEncSyms`, `mkDecTable`,
`encRounds`, `decRounds`, `ans0EncodeChunk`, `ans0DecodeChunk`, `ans0Encode`, `ans0Decode`) are tied
byte-identically to /repo by the `entsmall` correspondence stream (op `ab`).

Every round trip is in the "exact consumption" form  dec (enc x ++ rest) = some (x, rest)  for
EVERY continuation `rest`.

Size condition.  `decodeChunkV2` rejects a chunk whose payload size (the VarInt) is `≥ 2^27`
(`_ANS_MAX_CHUNK_SIZE`).  Each encoded symbol pushes at most one 16-bit word, so the payload of a
chunk of `n` bytes is at most `2n` bytes (`C12_ans0_payload_le`): the theorems are stated for
chunks shorter than `2^26` bytes, and `C12_ans0_chunk_sz` gives the most general form (the
hypothesis is exactly the decoder's test).  For an ARBITRARY valid table the bound cannot be
improved much (a chunk repeating a symbol of frequency 1 at `lr = 15` costs 15 bits per byte).
All chunk sizes used inside the library (16384, 32768) are far below.
-/
import Kanzi.Model.EntSmall
import Kanzi.Proofs.Ans0

namespace Kanzi.C12
open Kanzi.Bits Kanzi.EntSmall

/-! ## stage 1 — one state, a list of symbols -/

/-- **C12_ans0_single_state.**  `f` a frequency table summing to `2^lr` (`8 ≤ lr ≤ 15`), `syms` any
list of symbols with a positive frequency.  Encoding the list BACKWARDS with one rANS state
(`encList1`: `encodeSymbol` with the table `mkEncSyms f lr` built by `updateFrequencies`, starting
from `_ANS_TOP`) yields a normalised final state and at most `2·|syms|` bytes, and decoding
FORWARDS (`decList1`: slot lookup in `mkDecTable f lr` + `decodeSymbol`) from that state, with the
bytes followed by ANY other bytes `rest`, returns exactly `syms`, ends in the initial state
`_ANS_TOP` and leaves exactly `rest`. -/
theorem C12_ans0_single_state (f : List Nat) (lr : Nat) (syms : List Nat) (hlr : 8 ≤ lr ∧ lr ≤ 15)
    (hsum : f.sum = 2 ^ lr) (hs : ∀ a ∈ syms, a < f.length ∧ 0 < f.getD a 0) :
    (2 ^ 15 ≤ (encList1 f lr syms).1 ∧ (encList1 f lr syms).1 < 2 ^ 31) ∧
    (∀ b ∈ (encList1 f lr syms).2, b < 256) ∧
    (encList1 f lr syms).2.length ≤ 2 * syms.length ∧
    ∀ rest : List Nat, decList1 (mkDecTable f lr) lr syms.length (encList1 f lr syms).1
        ((encList1 f lr syms).2 ++ rest) = (syms, ansTop, rest) :=
  single_rt f lr hlr hsum syms hs

/-! ## stage 2 — four interleaved states sharing one buffer -/

/-- **C12_ans0_interleaved.**  `ans0Final blk syms` is the encoder state at the end of the order-0
loop of `encodeChunk` (4 states, rounds `i = end4-1, end4-5, …`, bytes pushed in FRONT of the raw
tail `blk[end4:]`).  Running the decoder loop of `decodeChunkV2` for `len/4` rounds from these
four states on these bytes returns the first `end4` bytes of the chunk, brings the four states back
to `_ANS_TOP` and leaves exactly the raw tail unread: the words pushed by the encoder (st0, st1,
st2, st3 within a round, rounds backwards) are popped by the decoder in exactly the reverse order
(st3, st2, st1, st0, rounds forwards).  Also: the final states are normalised, every payload byte
is `< 256`, and the payload is at most `2·len` bytes. -/
theorem C12_ans0_interleaved (blk f : List Nat) (lr : Nat) (hlr : 8 ≤ lr ∧ lr ≤ 15)
    (hlen : f.length ≤ 256) (hsum : f.sum = 2 ^ lr)
    (hsym : ∀ a ∈ blk, a < f.length ∧ 0 < f.getD a 0) :
    decRounds (mkDecTable f lr) lr (blk.length / 4)
        ⟨(ans0Final blk (mkEncSyms f lr)).st0, (ans0Final blk (mkEncSyms f lr)).st1,
         (ans0Final blk (mkEncSyms f lr)).st2, (ans0Final blk (mkEncSyms f lr)).st3,
         (ans0Final blk (mkEncSyms f lr)).out⟩
      = (blk.take ((blk.length / 4) * 4),
         ⟨ansTop, ansTop, ansTop, ansTop, blk.drop ((blk.length / 4) * 4)⟩) ∧
    (∀ b ∈ (ans0Final blk (mkEncSyms f lr)).out, b < 256) ∧
    (ans0Final blk (mkEncSyms f lr)).st0 < 2 ^ 31 ∧ (ans0Final blk (mkEncSyms f lr)).st1 < 2 ^ 31 ∧
    (ans0Final blk (mkEncSyms f lr)).st2 < 2 ^ 31 ∧ (ans0Final blk (mkEncSyms f lr)).st3 < 2 ^ 31 := by
  obtain ⟨v, d, _⟩ := final_facts blk f lr hlr hlen hsum hsym
  exact ⟨d, v.bytes, v.h0.2, v.h1.2, v.h2.2, v.h3.2⟩

/-- the payload of a chunk (`ans0PayloadLen` = the VarInt written by `encodeChunk`) is at most
twice the chunk length -/
theorem C12_ans0_payload_le (blk f : List Nat) (lr : Nat) (hlr : 8 ≤ lr ∧ lr ≤ 15)
    (hlen : f.length ≤ 256) (hsum : f.sum = 2 ^ lr)
    (hsym : ∀ a ∈ blk, a < f.length ∧ 0 < f.getD a 0) :
    ans0PayloadLen blk f lr ≤ 2 * blk.length :=
  (final_facts blk f lr hlr hlen hsum hsym).2.2

/-! ## stage 3 — header + chunk -/

/-- **C12_ans0_chunk.**  `a` = alphabet (strictly increasing, non empty, symbols < 256), `f` = the
256-entry table, zero outside `a`, positive on `a`, summing to `2^lr`, `8 ≤ lr ≤ 15` (the
hypotheses of `C12_freq_header`); `blk` = ANY chunk (length 0, 1, 2, 3 and non multiples of 4
included) of fewer than `2^26` bytes whose symbols all belong to `a`.  Then on the encoder's output
`header ++ chunk` followed by any `rest`:
  * `decodeHeader` returns exactly `(a, f, lr)` and leaves `chunk ++ rest`;
  * `decodeChunkV2`, with the tables rebuilt from the decoded `f`, returns exactly `blk` and leaves
    exactly `rest` (VarInt size, four 32-bit states, payload words, raw tail all consumed). -/
theorem C12_ans0_chunk (a f blk : List Nat) (lr : Nat) (hlr : 8 ≤ lr ∧ lr ≤ 15)
    (hs : a.Pairwise (· < ·)) (ha : ∀ s ∈ a, s < 256) (hne : a ≠ [])
    (hlen : f.length = 256) (hz : ∀ i, i ∉ a → f.getD i 0 = 0) (hpos : ∀ s ∈ a, 1 ≤ f.getD s 0)
    (hsum : (a.map (fun s => f.getD s 0)).sum = 2 ^ lr)
    (hblk : ∀ b ∈ blk, b ∈ a) (hsz : blk.length < 2 ^ 26) (rest : Bits) :
    ansDecodeHeader (ansEncodeHeader a f lr ++ (ans0EncodeChunk blk (mkEncSyms f lr) ++ rest))
      = some ((a, f, lr), ans0EncodeChunk blk (mkEncSyms f lr) ++ rest) ∧
    ans0DecodeChunk (mkDecTable f lr) lr blk.length (ans0EncodeChunk blk (mkEncSyms f lr) ++ rest)
      = some (blk, rest) := by
  have hle : ∀ s ∈ a, f.getD s 0 ≤ 2 ^ lr := by
    intro s hsa
    rw [← hsum]
    exact mem_le_sum _ _ (List.mem_map.mpr ⟨s, hsa, rfl⟩)
  exact hdr_chunk_rt a f blk lr hlr ⟨hs, ha, hne, hlen, hz, hpos, hle⟩ hsum hblk hsz rest

/-- **C12_ans0_chunk_sz** — most general form: any table of at most 256 entries summing to `2^lr`,
any chunk whose symbols have a positive frequency, and NO bound on the chunk other than the
decoder's own test on the payload size. -/
theorem C12_ans0_chunk_sz (blk f : List Nat) (lr : Nat) (hlr : 8 ≤ lr ∧ lr ≤ 15)
    (hlen : f.length ≤ 256) (hsum : f.sum = 2 ^ lr)
    (hsym : ∀ a ∈ blk, a < f.length ∧ 0 < f.getD a 0)
    (hsz : ans0PayloadLen blk f lr < 2 ^ 27) (rest : Bits) :
    ans0DecodeChunk (mkDecTable f lr) lr blk.length (ans0EncodeChunk blk (mkEncSyms f lr) ++ rest)
      = some (blk, rest) :=
  chunk_rt_sz blk f lr hlr hlen hsum hsym hsz rest

/-- the hypotheses of `C12_ans0_chunk` are satisfiable (two symbols, 100 + 156 = 2^8, a chunk of
    6 bytes: one round of four + a raw tail of two) -/
example : ans0DecodeChunk (mkDecTable (100 :: 156 :: List.replicate 254 0) 8) 8 [0, 1, 1, 0, 1, 1].length
    (ans0EncodeChunk [0, 1, 1, 0, 1, 1] (mkEncSyms (100 :: 156 :: List.replicate 254 0) 8) ++ [true])
    = some ([0, 1, 1, 0, 1, 1], [true]) := by
  refine (C12_ans0_chunk [0, 1] (100 :: 156 :: List.replicate 254 0) [0, 1, 1, 0, 1, 1] 8
    ⟨by omega, by omega⟩ (by decide) (by decide) (by decide) ?_ ?_ ?_ rfl (by decide) (by decide) [true]).2
  · rw [List.length_cons, List.length_cons, List.length_replicate]
  · intro i hi
    match i with
    | 0 => exact absurd (List.mem_cons_self) hi
    | 1 => exact absurd (List.mem_cons_of_mem _ List.mem_cons_self) hi
    | j + 2 => exact getD_replicate_zero 254 j
  · intro s hs
    rcases List.mem_cons.mp hs with rfl | hs
    · exact (by decide : 1 ≤ 100)
    · rcases List.mem_cons.mp hs with rfl | hs
      · exact (by decide : 1 ≤ 156)
      · cases hs

/-! ## the whole block -/

/-- **C12_ans0_block.**  For every block of bytes (any length: the `≤ 32` bytes raw shortcut, one or
several chunks, single-symbol chunks sent as a header only), every chunk size `1 ≤ chunkSize < 2^26`
(the Go constructors accept 1024 … 2^27; 16384 by default) and `8 ≤ lr ≤ 15`: the order-0
`ANSRangeEncoder.Write` succeeds (per chunk: histogram, `NormalizeFrequencies` — C16 —, header,
payload) and `ANSRangeDecoder.Read` asked for `blk.length` bytes returns exactly `blk` and consumes
exactly the written bits. -/
theorem C12_ans0_block (blk : List Nat) (chunkSize lr : Nat) (hlr : 8 ≤ lr ∧ lr ≤ 15)
    (hcs : 0 < chunkSize ∧ chunkSize < 2 ^ 26) (hb : ∀ b ∈ blk, b < 256) :
    ∃ enc, ans0Encode blk chunkSize lr = some enc ∧
      ∀ rest : Bits, ans0Decode (enc ++ rest) blk.length chunkSize = some (blk, rest) :=
  block_rt blk chunkSize lr hlr hcs.1 hcs.2 hb

/-- one chunk of `Write` on its own: for a non-empty chunk of bytes the statistics step succeeds
with a non-empty alphabet, the header round trips, a single-symbol chunk is constant (the decoder
fills it from the alphabet alone) and the payload round trips with the tables built from the
normalised frequencies. -/
theorem C12_ans0_one_chunk (c : List Nat) (lr : Nat) (hlr : 8 ≤ lr ∧ lr ≤ 15) (hne : c ≠ [])
    (hb : ∀ b ∈ c, b < 256) (hsz : c.length < 2 ^ 26) :
    ∃ o, Kanzi.Normalize.normalize (histogram c) c.length (2 ^ lr) = .ok o ∧
      o.alphabet.length = o.size ∧ o.alphabet ≠ [] ∧
      (∀ rest : Bits, ansDecodeHeader (ansEncodeHeader o.alphabet o.freqs lr ++ rest)
          = some ((o.alphabet, o.freqs, lr), rest)) ∧
      (o.alphabet.length = 1 → c = List.replicate c.length (o.alphabet.headD 0)) ∧
      (∀ rest : Bits, ans0DecodeChunk (mkDecTable o.freqs lr) lr c.length
          (ans0EncodeChunk c (mkEncSyms o.freqs lr) ++ rest) = some (c, rest)) :=
  oneChunk_facts c lr hlr hne hb hsz

example : (8 ≤ 12 ∧ 12 ≤ 15) ∧ (0 < 16384 ∧ 16384 < 2 ^ 26) := by decide

end Kanzi.C12
