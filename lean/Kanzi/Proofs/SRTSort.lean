import Kanzi.Model.SRT

namespace Kanzi.SRT

/-! ## `rd` / `wr` basics -/

theorem size_wr (a : Array Nat) (i v : Nat) : (wr a i v).size = a.size := by
  simp [wr]

theorem rd_eq_getElem (a : Array Nat) (i : Nat) (h : i < a.size) : rd a i = a[i] := by
  simp [rd, Array.getD, h]

theorem rd_wr (a : Array Nat) (i v j : Nat) :
    rd (wr a i v) j = if i = j ∧ i < a.size then v else rd a j := by
  simp only [rd, wr, Array.getD_eq_getD_getElem?, Array.getElem?_setIfInBounds]
  by_cases h : i = j
  · subst h
    by_cases h2 : i < a.size
    · simp [h2]
    · simp [h2]
  · simp [h]

theorem arr_ext_rd (a b : Array Nat) (hs : a.size = b.size)
    (h : ∀ j, j < a.size → rd a j = rd b j) : a = b := by
  apply Array.ext hs
  intro j h1 h2
  have := h j h1
  rwa [rd_eq_getElem a j h1, rd_eq_getElem b j h2] at this

theorem wr_rd_self (a : Array Nat) (i : Nat) : wr a i (rd a i) = a := by
  apply arr_ext_rd _ _ (size_wr _ _ _)
  intro j _
  rw [rd_wr]
  split
  · rename_i h; rw [h.1]
  · rfl

theorem wr_wr_self (a : Array Nat) (i v w : Nat) : wr (wr a i v) i w = wr a i w := by
  apply arr_ext_rd _ _ (by simp [size_wr])
  intro j _
  simp only [rd_wr, size_wr]
  split
  · rfl
  · simp

/-- writing `a[j]` to `i` then `t` to `j` is `a` with `t` at `i`, up to a swap -/
theorem wr_wr_perm (a : Array Nat) (i j t : Nat) (hi : i < a.size) (hj : j < a.size) :
    (wr (wr a i (rd a j)) j t).Perm (wr a i t) := by
  by_cases hij : i = j
  · subst hij
    rw [wr_wr_self]
  · have hi' : i < (wr a i t).size := by rw [size_wr]; exact hi
    have hj' : j < (wr a i t).size := by rw [size_wr]; exact hj
    have : wr (wr a i (rd a j)) j t = (wr a i t).swap i j hi' hj' := by
      apply arr_ext_rd _ _ (by simp [size_wr])
      intro k hk
      have hk' : k < ((wr a i t).swap i j hi' hj').size := by
        simpa [size_wr] using hk
      rw [rd_eq_getElem _ k hk', Array.getElem_swap]
      simp only [rd_wr, size_wr]
      by_cases h1 : k = i
      · subst h1
        have : ¬ (j = k) := fun h => hij h.symm
        simp [this, hi, ← rd_eq_getElem, rd_wr, hij]
      · by_cases h2 : k = j
        · subst h2
          simp [h1, hj, ← rd_eq_getElem, rd_wr, hi]
        · have h1' : ¬ (i = k) := fun h => h1 h.symm
          have h2' : ¬ (j = k) := fun h => h2 h.symm
          simp [h1, h2, h1', h2', ← rd_eq_getElem, rd_wr]
    rw [this]
    exact Array.swap_perm hi' hj'

/-! ## the sort only permutes -/

theorem ppInsert_perm (freqs : Array Nat) (h t : Nat) :
    ∀ (fuel pos : Nat) (sym : Array Nat), pos < sym.size →
      (ppInsert freqs h t fuel pos sym).Perm (wr sym pos t) := by
  intro fuel
  induction fuel with
  | zero => intro pos sym _; exact Array.Perm.refl _
  | succ k ih =>
    intro pos sym hp
    unfold ppInsert
    split
    · have hlt : pos - h < sym.size := by omega
      have h1 := ih (pos - h) (wr sym pos (rd sym (pos - h))) (by rw [size_wr]; exact hlt)
      exact h1.trans (wr_wr_perm sym pos (pos - h) t hp hlt)
    · exact Array.Perm.refl _

theorem ppInsert_perm_self (freqs : Array Nat) (h fuel i : Nat) (sym : Array Nat)
    (hi : i < sym.size) : (ppInsert freqs h (rd sym i) fuel i sym).Perm sym := by
  have := ppInsert_perm freqs h (rd sym i) fuel i sym hi
  rwa [wr_rd_self] at this

theorem ppPass_perm (freqs : Array Nat) (h : Nat) :
    ∀ (k i : Nat) (sym : Array Nat), i + k ≤ sym.size → (ppPass freqs h k i sym).Perm sym := by
  intro k
  induction k with
  | zero => intro i sym _; exact Array.Perm.refl _
  | succ k ih =>
    intro i sym hb
    unfold ppPass
    have h1 := ppInsert_perm_self freqs h (i + 1) i sym (by omega)
    have h2 := ih (i + 1) (ppInsert freqs h (rd sym i) (i + 1) i sym) (by rw [h1.size_eq]; omega)
    exact h2.trans h1

/-- the pass as `ppOuter` runs it -/
theorem ppPass_perm' (freqs : Array Nat) (h : Nat) (sym : Array Nat) :
    (ppPass freqs h (sym.size - h) h sym).Perm sym := by
  by_cases hh : h ≤ sym.size
  · exact ppPass_perm freqs h _ _ _ (by omega)
  · have : sym.size - h = 0 := by omega
    rw [this]; exact Array.Perm.refl _

theorem ppOuter_perm (freqs : Array Nat) :
    ∀ (k h : Nat) (sym : Array Nat), (ppOuter freqs sym.size k h sym).Perm sym := by
  intro k
  induction k with
  | zero => intro h sym; exact Array.Perm.refl _
  | succ k ih =>
    intro h sym
    unfold ppOuter
    have h1 := ppPass_perm' freqs (h / 3) sym
    split
    · exact h1
    · have h2 := ih (h / 3) (ppPass freqs (h / 3) (sym.size - h / 3) (h / 3) sym)
      rw [h1.size_eq] at h2
      exact h2.trans h1

theorem preprocess_perm (freqs : Array Nat) : (preprocess freqs).Perm (ppCollect freqs) := by
  have := ppOuter_perm freqs
    (ppGap (ppCollect freqs).length (ppCollect freqs).length 4)
    (ppGap (ppCollect freqs).length (ppCollect freqs).length 4) (ppCollect freqs).toArray
  rw [Array.perm_iff_toList_perm] at this
  simpa [preprocess] using this

theorem ppCollect_nodup (freqs : Array Nat) : (ppCollect freqs).Nodup :=
  List.Nodup.sublist List.filter_sublist List.nodup_range

theorem mem_ppCollect (freqs : Array Nat) (c : Nat) :
    c ∈ ppCollect freqs ↔ c < 256 ∧ rd freqs c ≠ 0 := by
  simp [ppCollect, List.mem_filter, List.mem_range]

theorem preprocess_nodup (freqs : Array Nat) : (preprocess freqs).Nodup :=
  (preprocess_perm freqs).nodup_iff.mpr (ppCollect_nodup freqs)

theorem mem_preprocess (freqs : Array Nat) (c : Nat) :
    c ∈ preprocess freqs ↔ c < 256 ∧ rd freqs c ≠ 0 := by
  rw [(preprocess_perm freqs).mem_iff, mem_ppCollect]

theorem ppCollect_length_le (freqs : Array Nat) : (ppCollect freqs).length ≤ 256 := by
  have := List.length_filter_le (fun i => rd freqs i != 0) (List.range 256)
  simpa [ppCollect] using this

theorem preprocess_length (freqs : Array Nat) :
    (preprocess freqs).length = (ppCollect freqs).length := (preprocess_perm freqs).length_eq

theorem preprocess_length_le (freqs : Array Nat) : (preprocess freqs).length ≤ 256 := by
  rw [preprocess_length]; exact ppCollect_length_le freqs

/-! ## the sort reads `freqs` below 256 only -/

/-- all entries are bytes -/
def Bnd (sym : Array Nat) : Prop := ∀ j, rd sym j < 256

theorem Bnd_wr (sym : Array Nat) (i v : Nat) (hs : Bnd sym) (hv : v < 256) : Bnd (wr sym i v) := by
  intro j
  rw [rd_wr]
  split
  · exact hv
  · exact hs j

theorem ppInsert_Bnd (freqs : Array Nat) (h t : Nat) (ht : t < 256) :
    ∀ (fuel pos : Nat) (sym : Array Nat), Bnd sym → Bnd (ppInsert freqs h t fuel pos sym) := by
  intro fuel
  induction fuel with
  | zero => intro pos sym hs; exact Bnd_wr _ _ _ hs ht
  | succ k ih =>
    intro pos sym hs
    unfold ppInsert
    split
    · exact ih _ _ (Bnd_wr _ _ _ hs (hs _))
    · exact Bnd_wr _ _ _ hs ht

theorem ppPass_Bnd (freqs : Array Nat) (h : Nat) :
    ∀ (k i : Nat) (sym : Array Nat), Bnd sym → Bnd (ppPass freqs h k i sym) := by
  intro k
  induction k with
  | zero => intro i sym hs; exact hs
  | succ k ih =>
    intro i sym hs
    unfold ppPass
    exact ih _ _ (ppInsert_Bnd freqs h _ (hs i) _ _ _ hs)

section congr
variable (f g : Array Nat) (hfg : ∀ i, i < 256 → rd f i = rd g i)
include hfg

theorem ppCond_congr (t sb : Nat) (ht : t < 256) (hsb : sb < 256) :
    ppCond f t sb = ppCond g t sb := by
  simp only [ppCond, hfg t ht, hfg sb hsb]

theorem ppInsert_congr (h t : Nat) (ht : t < 256) :
    ∀ (fuel pos : Nat) (sym : Array Nat), Bnd sym →
      ppInsert f h t fuel pos sym = ppInsert g h t fuel pos sym := by
  intro fuel
  induction fuel with
  | zero => intro pos sym _; rfl
  | succ k ih =>
    intro pos sym hs
    unfold ppInsert
    rw [ppCond_congr f g hfg t _ ht (hs _), ih _ _ (Bnd_wr _ _ _ hs (hs _))]

theorem ppPass_congr (h : Nat) :
    ∀ (k i : Nat) (sym : Array Nat), Bnd sym → ppPass f h k i sym = ppPass g h k i sym := by
  intro k
  induction k with
  | zero => intro i sym _; rfl
  | succ k ih =>
    intro i sym hs
    unfold ppPass
    rw [ppInsert_congr f g hfg h _ (hs i) _ _ _ hs]
    exact ih _ _ (ppInsert_Bnd g h _ (hs i) _ _ _ hs)

theorem ppOuter_congr (nb : Nat) :
    ∀ (k h : Nat) (sym : Array Nat), Bnd sym → ppOuter f nb k h sym = ppOuter g nb k h sym := by
  intro k
  induction k with
  | zero => intro h sym _; rfl
  | succ k ih =>
    intro h sym hs
    unfold ppOuter
    rw [ppPass_congr f g hfg _ _ _ _ hs, ih _ _ (ppPass_Bnd g _ _ _ _ hs)]

theorem ppCollect_congr : ppCollect f = ppCollect g := by
  unfold ppCollect
  apply List.filter_congr
  intro x hx
  rw [hfg x (List.mem_range.mp hx)]

end congr

theorem ppCollect_Bnd (freqs : Array Nat) : Bnd (ppCollect freqs).toArray := by
  intro j
  by_cases hj : j < (ppCollect freqs).toArray.size
  · rw [rd_eq_getElem _ _ hj]
    have : (ppCollect freqs).toArray[j] ∈ ppCollect freqs := by simp
    exact ((mem_ppCollect freqs _).mp this).1
  · simp only [rd, Array.getD, hj, dite_false]
    omega

/-- it is a function of the frequencies only -/
theorem preprocess_congr (f g : Array Nat) (h : ∀ i, i < 256 → rd f i = rd g i) :
    preprocess f = preprocess g := by
  unfold preprocess
  rw [ppCollect_congr f g h, ppOuter_congr f g h _ _ _ _ (ppCollect_Bnd g)]

/-! ## the result is sorted -/

/-- `a` may stand before `b`: the insertion loop would not move `b` in front of `a` -/
def ppLe (freqs : Array Nat) (a b : Nat) : Prop := ppCond freqs b a = false

theorem ppLe_iff (freqs : Array Nat) (a b : Nat) :
    ppLe freqs a b ↔ rd freqs b ≤ rd freqs a ∧ (rd freqs a = rd freqs b → a ≤ b) := by
  simp only [ppLe, ppCond, Bool.or_eq_false_iff, Bool.and_eq_false_imp, decide_eq_false_iff_not,
    decide_eq_true_eq, beq_eq_false_iff_ne, ne_eq]
  constructor
  · intro h; constructor
    · omega
    · intro e; have := h.2; omega
  · intro h; constructor
    · omega
    · intro h1 e; have := h.2; omega

theorem ppLe_trans (freqs : Array Nat) (a b c : Nat) (h1 : ppLe freqs a b) (h2 : ppLe freqs b c) :
    ppLe freqs a c := by
  rw [ppLe_iff] at *
  constructor
  · omega
  · intro e; have := h1.2; have := h2.2; omega

theorem ppLe_of_cond (freqs : Array Nat) (t sb : Nat) (h : ppCond freqs t sb = true) :
    ppLe freqs t sb := by
  rw [ppLe_iff]
  simp only [ppCond, Bool.or_eq_true, Bool.and_eq_true, decide_eq_true_eq, beq_iff_eq] at h
  omega

/-- the first `n` entries are in order -/
def SortedTo (freqs : Array Nat) (sym : Array Nat) (n : Nat) : Prop :=
  ∀ a b, a < b → b < n → ppLe freqs (rd sym a) (rd sym b)

theorem ppInsert_sorted (freqs : Array Nat) (t i : Nat) :
    ∀ (fuel pos : Nat) (sym : Array Nat), pos ≤ i → i < sym.size → pos < fuel →
      (∀ a b, a < b → b ≤ i → a ≠ pos → b ≠ pos → ppLe freqs (rd sym a) (rd sym b)) →
      (∀ b, pos < b → b ≤ i → ppLe freqs t (rd sym b)) →
      SortedTo freqs (ppInsert freqs 1 t fuel pos sym) (i + 1) := by
  intro fuel
  induction fuel with
  | zero => intro pos sym _ _ hf; omega
  | succ k ih =>
    intro pos sym hpi his hf H1 H2
    have hps : pos < sym.size := by omega
    unfold ppInsert
    split
    · rename_i hc
      have hp1 : 1 ≤ pos := hc.1
      apply ih (pos - 1) _ (by omega) (by rw [size_wr]; exact his) (by omega)
      · intro a b hab hbi ha hb
        simp only [rd_wr, hps, and_true]
        by_cases e1 : pos = a
        · have e2 : ¬ pos = b := by omega
          rw [if_pos e1, if_neg e2]
          exact H1 _ _ (by omega) hbi (by omega) (by omega)
        · by_cases e2 : pos = b
          · rw [if_neg e1, if_pos e2]
            exact H1 _ _ (by omega) (by omega) (by omega) (by omega)
          · rw [if_neg e1, if_neg e2]
            exact H1 _ _ hab hbi (by omega) (by omega)
      · intro b hb hbi
        simp only [rd_wr, hps, and_true]
        by_cases e2 : pos = b
        · rw [if_pos e2]
          exact ppLe_of_cond _ _ _ hc.2
        · rw [if_neg e2]
          exact H2 _ (by omega) hbi
    · rename_i hc
      intro a b hab hbi
      simp only [rd_wr, hps, and_true]
      by_cases e1 : pos = a
      · have e2 : ¬ pos = b := by omega
        rw [if_pos e1, if_neg e2]
        exact H2 _ (by omega) (by omega)
      · by_cases e2 : pos = b
        · rw [if_neg e1, if_pos e2]
          have hp1 : pos ≥ 1 := by omega
          have hnc : ppLe freqs (rd sym (pos - 1)) t := by
            unfold ppLe
            cases hcc : ppCond freqs t (rd sym (pos - 1))
            · rfl
            · exact absurd ⟨hp1, hcc⟩ hc
          by_cases e3 : a = pos - 1
          · rw [e3]; exact hnc
          · exact ppLe_trans _ _ _ _
              (H1 a (pos - 1) (by omega) (by omega) (by omega) (by omega)) hnc
        · rw [if_neg e1, if_neg e2]
          exact H1 _ _ hab (by omega) (by omega) (by omega)

theorem ppPass_sorted (freqs : Array Nat) :
    ∀ (k i : Nat) (sym : Array Nat), i + k ≤ sym.size → SortedTo freqs sym i →
      SortedTo freqs (ppPass freqs 1 k i sym) (i + k) := by
  intro k
  induction k with
  | zero => intro i sym _ hs; exact hs
  | succ k ih =>
    intro i sym hb hs
    unfold ppPass
    have h1 := ppInsert_perm_self freqs 1 (i + 1) i sym (by omega)
    have h2 := ppInsert_sorted freqs (rd sym i) i (i + 1) i sym (Nat.le_refl _) (by omega)
      (by omega) (fun a b hab hbi _ hb' => hs a b hab (by omega)) (fun b h1 h2 => by omega)
    have := ih (i + 1) _ (by rw [h1.size_eq]; omega) h2
    rw [show i + (k + 1) = i + 1 + k by omega]
    exact this

/-- the values of `h` in the outer loop -/
inductive Gap : Nat → Prop
  | base : Gap 4
  | step {h : Nat} : Gap h → Gap (h * 3 + 1)

theorem Gap.ge {h : Nat} (g : Gap h) : 4 ≤ h := by
  induction g with
  | base => omega
  | step _ ih => omega

theorem ppGap_Gap (nb : Nat) : ∀ (k h : Nat), Gap h → Gap (ppGap nb k h) := by
  intro k
  induction k with
  | zero => intro h g; exact g
  | succ k ih =>
    intro h g
    unfold ppGap
    split
    · exact ih _ g.step
    · exact g

theorem ppOuter_sorted (freqs : Array Nat) :
    ∀ (k h : Nat) (sym : Array Nat), Gap h → h ≤ k → 1 ≤ sym.size →
      SortedTo freqs (ppOuter freqs sym.size k h sym) sym.size := by
  intro k
  induction k with
  | zero => intro h sym g hk; have := g.ge; omega
  | succ k ih =>
    intro h sym g hk hn
    unfold ppOuter
    split
    · rename_i h1
      rw [h1]
      have := ppPass_sorted freqs (sym.size - 1) 1 sym (by omega) (fun a b _ _ => by omega)
      rw [show 1 + (sym.size - 1) = sym.size by omega] at this
      exact this
    · rename_i h1
      have hp := ppPass_perm' freqs (h / 3) sym
      have g3 : Gap (h / 3) := by
        cases g with
        | base => exact absurd (by decide) h1
        | step g' =>
          rename_i h'
          rw [show (h' * 3 + 1) / 3 = h' by omega]
          exact g'
      have := ih (h / 3) (ppPass freqs (h / 3) (sym.size - h / 3) (h / 3) sym) g3
        (by have := g.ge; omega) (by rw [hp.size_eq]; exact hn)
      rw [hp.size_eq] at this
      exact this

theorem preprocess_sorted (freqs : Array Nat) :
    (preprocess freqs).Pairwise
      (fun a b => rd freqs b < rd freqs a ∨ (rd freqs a = rd freqs b ∧ a < b)) := by
  have hnd := preprocess_nodup freqs
  have hlen := preprocess_length freqs
  rw [List.pairwise_iff_getElem]
  intro i j hi hj hij
  have hne : (preprocess freqs)[i] ≠ (preprocess freqs)[j] := by
    intro e
    have := (List.getElem_inj hnd).mp e
    omega
  have hle : ppLe freqs (preprocess freqs)[i] (preprocess freqs)[j] := by
    have h1 : 1 ≤ (ppCollect freqs).toArray.size := by
      simp only [List.size_toArray]; omega
    have hs := ppOuter_sorted freqs
      (ppGap (ppCollect freqs).length (ppCollect freqs).length 4)
      (ppGap (ppCollect freqs).length (ppCollect freqs).length 4) (ppCollect freqs).toArray
      (ppGap_Gap _ _ _ Gap.base) (Nat.le_refl _) h1
    have := hs i j hij (by simp only [List.size_toArray]; omega)
    simp only [List.size_toArray] at this
    have e : ∀ (k : Nat) (hk : k < (preprocess freqs).length),
        rd (ppOuter freqs (ppCollect freqs).length
          (ppGap (ppCollect freqs).length (ppCollect freqs).length 4)
          (ppGap (ppCollect freqs).length (ppCollect freqs).length 4)
          (ppCollect freqs).toArray) k = (preprocess freqs)[k] := by
      intro k hk
      rw [rd_eq_getElem _ _ (by simpa [preprocess] using hk)]
      rfl
    rw [e i hi, e j hj] at this
    exact this
  rw [ppLe_iff] at hle
  omega

end Kanzi.SRT
