package main

// Correspondence stream "hash" (C02 hash models, C10 header layout):
//
//	h32 <hex>   -> 8 hex digits   hash.XXHash32 (seed 0x4B414E5A, the one used by the stream)
//	h64 <hex>   -> 16 hex digits  hash.XXHash64
//	hd <ckSize> <entropy> <transform hex> <blockSize> <origSize|->
//	            -> hex of the header bytes produced by the REAL io.Writer | err ctor
//	hp <hex>    -> ok <ck> <entropy> <transform hex> <blockSize> <origSize|-> | err <class>
//	               verdict of the REAL io.Reader on these bytes (Read of 0 bytes = header only)
//
// Oracles (independent of the Lean model): XXHash32 against a reference XXH32 written from the
// published algorithm, XXHash64 against a reference XXH64 with kanzi's two deviations made explicit; XXHash32/64 deterministic, position independent and non-mutating; the
// writer's header parsed by the independent container parser carries the requested fields and a
// matching CRC and is accepted by the real reader with the same parameters; the reader's verdict equals the verdict of an independent in-order header check.

import (
	"bytes"
	"encoding/hex"
	"fmt"
	"io"
	"math/rand"
	"runtime/debug"
	"strconv"
	"strings"
	"sync"

	kanzi "github.com/flanglet/kanzi-go/v2"
	"github.com/flanglet/kanzi-go/v2/entropy"
	"github.com/flanglet/kanzi-go/v2/hash"
	kio "github.com/flanglet/kanzi-go/v2/io"
	"github.com/flanglet/kanzi-go/v2/transform"

	"kverif/internal/container"
)

const hashSeed = 0x4B414E5A

func init() {
	registerStream(&Stream{
		Name:     "hash",
		Rule:     "h32/h64: every length 0..200 (2 patterns), boundary lengths 3,4,15,16,17,31,32,33,63,64,65 with random data, random data up to 100 KiB; hd: ckSize x 9 entropy codes x transform chains x block sizes {1024,1040,65536} (full grid) and 2^30 (one writer on quick, one per size hint on thorough: the writer allocates 1.1 GiB) x size hints {none,1,65535,65536,2^32-1,2^32,2^48-1,2^48}; hp: valid headers, every single-bit flip, every byte truncation, field-targeted invalid values with a correct CRC, other versions, random damage; distinct_nontrivial = distinct ops that reach the real code (all but malformed lines)",
		Gen:      hashGen,
		Exec:     hashExec,
		Parallel: 6,
	})
}

// ---------- reference XXH32 (from the published algorithm, not from kanzi) ----------

func hashRefRotl32(x uint32, r uint) uint32 { return (x << r) | (x >> (32 - r)) }

func hashRefXXH32(seed uint32, p []byte) uint32 {
	const (
		p1 = 2654435761
		p2 = 2246822519
		p3 = 3266489917
		p4 = 668265263
		p5 = 374761393
	)
	le := func(b []byte) uint32 {
		return uint32(b[0]) | uint32(b[1])<<8 | uint32(b[2])<<16 | uint32(b[3])<<24
	}
	n := len(p)
	var h uint32
	if n >= 16 {
		v := [4]uint32{seed + p1 + p2, seed + p2, seed, seed - p1}
		for len(p) >= 16 {
			for i := 0; i < 4; i++ {
				v[i] = hashRefRotl32(v[i]+le(p[4*i:])*p2, 13) * p1
			}
			p = p[16:]
		}
		h = hashRefRotl32(v[0], 1) + hashRefRotl32(v[1], 7) + hashRefRotl32(v[2], 12) + hashRefRotl32(v[3], 18)
	} else {
		h = seed + p5
	}
	h += uint32(n)
	for len(p) >= 4 {
		h = hashRefRotl32(h+le(p)*p3, 17) * p4
		p = p[4:]
	}
	for _, b := range p {
		h = hashRefRotl32(h+uint32(b)*p5, 11) * p1
	}
	h ^= h >> 15
	h *= p2
	h ^= h >> 13
	h *= p3
	h ^= h >> 16
	return h
}

// reference XXH64 written from the published algorithm, with the two places where kanzi's
// XXHash64 is known to deviate from it made explicit (kanzi=true): the lane merge uses the 32-bit
// shift pairs (1,31) (7,25) (12,20) (18,14) instead of 64-bit rotations, and the 1-byte tail adds
// where XXH64 xors.  kanzi=false is the genuine XXH64 (used to tag where the two agree).
func hashRefXXH64(seed uint64, p []byte, kanzi bool) uint64 {
	const (
		p1 = 0x9E3779B185EBCA87
		p2 = 0xC2B2AE3D27D4EB4F
		p3 = 0x165667B19E3779F9
		p4 = 0x85EBCA77C2B2AE63
		p5 = 0x27D4EB2F165667C5
	)
	rotl := func(x uint64, r uint) uint64 { return (x << r) | (x >> (64 - r)) }
	le64 := func(b []byte) uint64 {
		var v uint64
		for i := 7; i >= 0; i-- {
			v = v<<8 | uint64(b[i])
		}
		return v
	}
	round := func(acc, v uint64) uint64 { return rotl(acc+v*p2, 31) * p1 }
	n := len(p)
	var h uint64
	if n >= 32 {
		v := [4]uint64{seed + p1 + p2, seed + p2, seed, seed - p1}
		for len(p) >= 32 {
			for i := 0; i < 4; i++ {
				v[i] = round(v[i], le64(p[8*i:]))
			}
			p = p[32:]
		}
		if kanzi {
			h = (v[0]<<1 | v[0]>>31) + (v[1]<<7 | v[1]>>25) + (v[2]<<12 | v[2]>>20) + (v[3]<<18 | v[3]>>14)
		} else {
			h = rotl(v[0], 1) + rotl(v[1], 7) + rotl(v[2], 12) + rotl(v[3], 18)
		}
		for i := 0; i < 4; i++ {
			h = (h^round(0, v[i]))*p1 + p4
		}
	} else {
		h = seed + p5
	}
	h += uint64(n)
	for len(p) >= 8 {
		h = rotl(h^round(0, le64(p)), 27)*p1 + p4
		p = p[8:]
	}
	if len(p) >= 4 {
		w := uint64(p[0]) | uint64(p[1])<<8 | uint64(p[2])<<16 | uint64(p[3])<<24
		h = rotl(h^w*p1, 23)*p2 + p3
		p = p[4:]
	}
	for _, b := range p {
		if kanzi {
			h = rotl(h+uint64(b)*p5, 11) * p1
		} else {
			h = rotl(h^uint64(b)*p5, 11) * p1
		}
	}
	h ^= h >> 33
	h *= p2
	h ^= h >> 29
	h *= p3
	h ^= h >> 32
	return h
}

// ---------- h32 / h64 ----------

func hashOracle(data []byte, bits int) (uint64, string) {
	saved := append([]byte(nil), data...)
	// a second copy at an odd offset inside a larger buffer with trailing garbage
	big := make([]byte, len(data)+7)
	for i := range big {
		big[i] = 0xA5
	}
	copy(big[3:], data)
	shifted := big[3 : 3+len(data)]
	var a, b, c uint64
	if bits == 32 {
		h1, _ := hash.NewXXHash32(hashSeed)
		h2, _ := hash.NewXXHash32(0)
		h2.SetSeed(hashSeed)
		a, b, c = uint64(h1.Hash(data)), uint64(h1.Hash(data)), uint64(h2.Hash(shifted))
		if ref := hashRefXXH32(hashSeed, saved); uint64(ref) != a {
			return a, fmt.Sprintf("XXHash32 differs from reference XXH32: got %08x want %08x", a, ref)
		}
	} else {
		h1, _ := hash.NewXXHash64(hashSeed)
		h2, _ := hash.NewXXHash64(0)
		h2.SetSeed(hashSeed)
		a, b, c = h1.Hash(data), h1.Hash(data), h2.Hash(shifted)
		if ref := hashRefXXH64(hashSeed, saved, true); ref != a {
			return a, fmt.Sprintf("XXHash64 differs from the reference (XXH64 with kanzi's two documented deviations): got %016x want %016x", a, ref)
		}
	}
	if a != b {
		return a, "hash not deterministic on the same instance"
	}
	if a != c {
		return a, "hash depends on the position/capacity of the slice or on the instance"
	}
	if !bytes.Equal(saved, data) {
		return a, "hash modified its input"
	}
	return a, ""
}

// ---------- hd: header written by the real Writer ----------

type hashSink struct{ bytes.Buffer }

func (s *hashSink) Close() error { return nil }

var hashBigAlloc sync.Mutex // writers with huge blocks allocate > 1 GiB: one at a time

// canonical chains only: non-NONE tokens first (that is what GetType(GetName(t)) returns)
func hashCanonTransform(t uint64) uint64 {
	var out uint64
	shift := uint(42)
	for i := uint(0); i < 8; i++ {
		tok := (t >> (42 - 6*i)) & 63
		if tok != 0 {
			out |= tok << shift
			shift -= 6
		}
	}
	return out
}

func hashValidEntropy(e uint64) bool { return e <= 9 && e != 3 }

func hashValidTransform(t uint64) bool {
	for i := uint(0); i < 8; i++ {
		tok := (t >> (42 - 6*i)) & 63
		if tok > 19 || tok == 4 {
			return false
		}
	}
	return true
}

func hashSzMaskOf(sz uint64) uint {
	switch {
	case sz == 0, sz >= 1<<48:
		return 0
	case sz >= 1<<32:
		return 3
	case sz >= 1<<16:
		return 2
	}
	return 1
}

func hashHdExec(w []string, res *Result) string {
	if len(w) != 6 {
		return "bad-op"
	}
	ck, e1 := strconv.ParseUint(w[1], 10, 32)
	ent, e2 := strconv.ParseUint(w[2], 10, 32)
	tr, e3 := strconv.ParseUint(w[3], 16, 64)
	bs, e4 := strconv.ParseUint(w[4], 10, 62)
	var sz uint64
	var e5 error
	if w[5] != "-" {
		sz, e5 = strconv.ParseUint(w[5], 10, 64)
	}
	if e1 != nil || e2 != nil || e3 != nil || e4 != nil || e5 != nil {
		return "bad-op"
	}
	res.Nontrivial = true
	if ck > 2 || sz >= 1<<63 || tr >= 1<<48 || hashCanonTransform(tr) != tr {
		res.Tags = append(res.Tags, "hd:ctor-rejected")
		return "err ctor"
	}
	ename, err := entropy.GetName(uint32(ent))
	if err != nil {
		res.Tags = append(res.Tags, "hd:ctor-rejected")
		return "err ctor"
	}
	tname, err := transform.GetName(tr)
	if err != nil {
		res.Tags = append(res.Tags, "hd:ctor-rejected")
		return "err ctor"
	}
	if bs >= 1<<28 {
		// one huge writer at a time, and give its buffer back before anything else runs:
		// otherwise the GC goal doubles to > 2 GiB and every later op faults in fresh pages
		hashBigAlloc.Lock()
		defer func() {
			debug.FreeOSMemory()
			hashBigAlloc.Unlock()
		}()
	}
	sink := &hashSink{}
	wr, err := kio.NewWriter(sink, tname, ename, uint(bs), 1, uint(ck)*32, int64(sz), false)
	if err != nil {
		res.Tags = append(res.Tags, "hd:ctor-rejected")
		return "err ctor"
	}
	if err := wr.Close(); err != nil {
		res.Violation = &Violation{Kind: "input", Site: "io.Writer.Close", Symptom: "error-on-empty-stream", What: err.Error()}
		return "err close"
	}
	b := sink.Bytes()
	viol := func(sym, what string) {
		if res.Violation == nil {
			res.Violation = &Violation{Kind: "input", Site: "io.Writer.writeHeader", Symptom: sym, What: what}
		}
	}
	h, perr := container.ParseHeader(container.NewBitReader(b))
	mask := hashSzMaskOf(sz)
	hlen := (160 + 16*int(mask)) / 8
	if perr != nil {
		viol("independent-parse-failed", perr.Error())
	} else {
		hlen = int(h.Bits / 8)
		if h.Bits%8 != 0 || h.Bits != uint64(160+16*mask) {
			viol("header-length", fmt.Sprintf("header is %d bits, expected %d", h.Bits, 160+16*mask))
		}
		if !h.CrcOK {
			viol("crc", fmt.Sprintf("stored crc %06x, independent crc %06x", h.Crc, container.HeaderCrc(h)))
		}
		wantSz := sz
		if mask == 0 {
			wantSz = 0
		}
		if uint64(h.CkSize) != ck || uint64(h.EntropyType) != ent || h.Transform != tr || uint64(h.BlockSize) != bs || h.SzMask != mask || h.OrigSize != wantSz {
			viol("field-mismatch", fmt.Sprintf("parsed %+v", *h))
		}
		// an empty stream is the header followed by the 8-bit end marker
		if len(b) != hlen+1 || b[len(b)-1] != 0 {
			viol("empty-stream-shape", fmt.Sprintf("stream has %d bytes, header %d", len(b), hlen))
		}
	}
	if hlen > len(b) {
		hlen = len(b)
	}
	// the real Reader accepts the real Writer's header and reports the same parameters
	wantSz := "-"
	if mask != 0 {
		wantSz = strconv.FormatUint(sz, 10)
	}
	want := fmt.Sprintf("ok %d %d %012x %d %s", ck, ent, tr, bs, wantSz)
	if got, _ := hashReaderVerdict(b); got != want {
		viol("reader-rejects-writer-header", fmt.Sprintf("reader: %q expected: %q", got, want))
	}
	res.Tags = append(res.Tags, fmt.Sprintf("hd:szMask=%d", mask), "hd:ck="+w[1])
	res.Sample = map[string]any{"op": strings.Join(w, " "), "transform": tname, "entropy": ename, "header": hex.EncodeToString(b[:hlen])}
	return hex.EncodeToString(b[:hlen])
}

// ---------- hp: verdict of the real Reader on header bytes ----------

type hashHdrListener struct {
	mu   sync.Mutex
	info *kanzi.HeaderInfo
}

func (l *hashHdrListener) ProcessEvent(evt *kanzi.Event) {
	if evt.Type() == kanzi.EVT_AFTER_HEADER_DECODING {
		l.mu.Lock()
		l.info = evt.Info()
		l.mu.Unlock()
	}
}

func hashClassOfReaderError(err error) string {
	ioe, ok := err.(*kio.IOError)
	if !ok {
		if ioe2, ok2 := err.(kio.IOError); ok2 {
			ioe = &ioe2
		} else {
			return "other:" + strings.ReplaceAll(err.Error(), " ", "_")
		}
	}
	msg := ioe.Message()
	switch ioe.ErrorCode() {
	case kanzi.ERR_INVALID_FILE:
		return "magic"
	case kanzi.ERR_STREAM_VERSION:
		return "version"
	case kanzi.ERR_INVALID_CODEC:
		switch {
		case strings.Contains(msg, "checksum size"):
			return "cksize"
		case strings.Contains(msg, "entropy type"):
			return "entropy"
		case strings.Contains(msg, "transform type"):
			return "transform"
		}
		return "codec"
	case kanzi.ERR_BLOCK_SIZE:
		return "blocksize"
	case kanzi.ERR_CRC_CHECK:
		return "crc"
	case kanzi.ERR_PROCESS_BLOCK:
		return "eos"
	}
	return "code" + strconv.Itoa(ioe.ErrorCode())
}

// hashReaderVerdict runs the real Reader on b (header only: Read of nread bytes, nread = 0)
func hashReaderVerdict(b []byte) (line string, note string) {
	defer func() {
		if r := recover(); r != nil {
			line = "panic"
			note = fmt.Sprint(r)
		}
	}()
	ctx := map[string]any{"jobs": uint(1)}
	rd, err := kio.NewReaderWithCtx(io.NopCloser(bytes.NewReader(b)), ctx)
	if err != nil {
		return "err ctor", err.Error()
	}
	lst := &hashHdrListener{}
	rd.AddListener(lst)
	_, err = rd.Read(make([]byte, 0))
	if err != nil {
		return "err " + hashClassOfReaderError(err), ""
	}
	if lst.info == nil {
		return "err no-header-event", ""
	}
	ename, _ := ctx["entropy"].(string)
	tname, _ := ctx["transform"].(string)
	bsz, _ := ctx["blockSize"].(uint)
	ecode, e1 := entropy.GetType(ename)
	tcode, e2 := transform.GetType(tname)
	if e1 != nil || e2 != nil {
		return "err ctx-names", ename + "/" + tname
	}
	sz := "-"
	if v, ok := ctx["outputSize"]; ok {
		sz = strconv.FormatInt(v.(int64), 10)
	}
	// the listener must tell the same story as ctx
	inf := lst.info
	isz := "-"
	if inf.OriginalSize >= 0 {
		isz = strconv.FormatInt(inf.OriginalSize, 10)
	}
	if inf.EntropyType != ename || inf.TransformType != tname || uint(inf.BlockSize) != bsz || isz != sz || inf.BsVersion != 6 {
		note = fmt.Sprintf("listener info %+v disagrees with ctx (%s %s %d %s)", *inf, ename, tname, bsz, sz)
	}
	return fmt.Sprintf("ok %d %d %012x %d %s", inf.ChecksumSize/32, ecode, tcode, bsz, sz), note
}

// hashIndepVerdict: the same decision taken by an independent in-order check of the version 6 layout
func hashIndepVerdict(b []byte) string {
	r := container.NewBitReader(b)
	rd := func(n uint) (uint64, bool) {
		v, err := r.Bits(n)
		return v, err == nil
	}
	m, ok := rd(32)
	if !ok {
		return "err eos"
	}
	if m != container.Magic {
		return "err magic"
	}
	v, ok := rd(4)
	if !ok {
		return "err eos"
	}
	if v > 6 {
		return "err version"
	}
	if v < 6 {
		return "err unsupported"
	}
	h := &container.Header{Version: 6}
	ck, ok := rd(2)
	if !ok {
		return "err eos"
	}
	if ck == 3 {
		return "err cksize"
	}
	h.CkSize = uint(ck)
	e, ok := rd(5)
	if !ok {
		return "err eos"
	}
	if !hashValidEntropy(e) {
		return "err entropy"
	}
	h.EntropyType = uint(e)
	t, ok := rd(48)
	if !ok {
		return "err eos"
	}
	if !hashValidTransform(t) {
		return "err transform"
	}
	h.Transform = t
	bs, ok := rd(28)
	if !ok {
		return "err eos"
	}
	h.BlockSize = uint(bs) << 4
	if h.BlockSize < 1024 || h.BlockSize > 1<<30 {
		return "err blocksize"
	}
	sm, ok := rd(2)
	if !ok {
		return "err eos"
	}
	h.SzMask = uint(sm)
	if sm != 0 {
		s, ok := rd(16 * uint(sm))
		if !ok {
			return "err eos"
		}
		h.OrigSize = s
	}
	if _, ok := rd(15); !ok {
		return "err eos"
	}
	c, ok := rd(24)
	if !ok {
		return "err eos"
	}
	if uint32(c) != container.HeaderCrc(h) {
		return "err crc"
	}
	sz := "-"
	if sm != 0 {
		sz = strconv.FormatUint(h.OrigSize, 10)
	}
	return fmt.Sprintf("ok %d %d %012x %d %s", h.CkSize, h.EntropyType, hashCanonTransform(h.Transform), h.BlockSize, sz)
}

func hashHpExec(w []string, res *Result) string {
	var b []byte
	if len(w) == 2 {
		var err error
		if b, err = hex.DecodeString(w[1]); err != nil {
			return "bad-op"
		}
	} else if len(w) != 1 {
		return "bad-op"
	}
	res.Nontrivial = true
	line, note := hashReaderVerdict(b)
	want := hashIndepVerdict(b)
	if want == "err unsupported" {
		// older layouts are outside the model: the reader ran (no panic), its verdict is not compared
		res.Tags = append(res.Tags, "hp:unsupported-version", "hp:unsupported-reader:"+strings.Fields(line + " -")[0])
		if line == "panic" {
			res.Violation = &Violation{Kind: "input", Site: "io.Reader.readHeader", Symptom: "panic", What: note}
		}
		return want
	}
	tag := line
	if strings.HasPrefix(line, "ok") {
		tag = "ok"
	}
	res.Tags = append(res.Tags, "hp:"+strings.ReplaceAll(tag, " ", ":"))
	switch {
	case line == "panic":
		res.Violation = &Violation{Kind: "input", Site: "io.Reader.readHeader", Symptom: "panic", What: note}
	case line != want:
		res.Violation = &Violation{Kind: "input", Site: "io.Reader.readHeader", Symptom: "verdict-differs-from-independent-parser", What: fmt.Sprintf("reader: %q independent: %q", line, want)}
	case note != "":
		res.Violation = &Violation{Kind: "input", Site: "io.Reader.readHeader", Symptom: "listener-ctx-disagree", What: note}
	}
	res.Sample = map[string]any{"header": hex.EncodeToString(b), "verdict": line}
	return line
}

func hashExec(op string, res *Result) string {
	w := strings.Fields(op)
	if len(w) == 0 {
		return "bad-op"
	}
	switch w[0] {
	case "h32", "h64":
		var data []byte
		if len(w) == 2 {
			var err error
			if data, err = hex.DecodeString(w[1]); err != nil {
				return "bad-op"
			}
		} else if len(w) != 1 {
			return "bad-op"
		}
		bits := 32
		stripe := 16
		if w[0] == "h64" {
			bits, stripe = 64, 32
		}
		res.Nontrivial = true
		res.Key = op
		if len(op) > 80 { // keep distinctness keys small: the hash of the data identifies it
			res.Key = fmt.Sprintf("%s len=%d ref=%08x", w[0], len(data), hashRefXXH32(1, data))
		}
		v, msg := hashOracle(data, bits)
		if msg != "" {
			res.Violation = &Violation{Kind: "input", Site: fmt.Sprintf("hash.XXHash%d", bits), Symptom: "hash-oracle", What: msg}
		}
		if bits == 64 {
			if hashRefXXH64(hashSeed, data, false) == v {
				res.Tags = append(res.Tags, "h64:equals-genuine-XXH64")
			} else {
				res.Tags = append(res.Tags, "h64:differs-from-genuine-XXH64")
			}
		}
		switch {
		case len(data) < stripe:
			res.Tags = append(res.Tags, w[0]+":short")
		case len(data)%stripe == 0:
			res.Tags = append(res.Tags, w[0]+":stripes-exact")
		default:
			res.Tags = append(res.Tags, w[0]+":stripes+tail")
		}
		res.Sample = map[string]any{"op": w[0], "len": len(data)}
		if bits == 32 {
			return fmt.Sprintf("%08x", v)
		}
		return fmt.Sprintf("%016x", v)
	case "hd":
		return hashHdExec(w, res)
	case "hp":
		return hashHpExec(w, res)
	}
	return "bad-op"
}

// ---------- generators ----------

var hashEntropyCodes = []uint{0, 1, 2, 4, 5, 6, 7, 8, 9}
var hashTransformTokens = []uint64{1, 2, 3, 5, 6, 7, 8, 9, 10, 11, 12, 13, 14, 15, 16, 17, 18, 19}

func hashRandChain(r *rand.Rand, n int) uint64 {
	var t uint64
	for i := 0; i < n; i++ {
		t |= hashTransformTokens[r.Intn(len(hashTransformTokens))] << uint(42-6*i)
	}
	return t
}

func hashBuildHeader(h container.Header) []byte {
	w := &container.BitWriter{}
	h.Write(w)
	return w.Bytes()
}

func hashGen(r *rand.Rand, tier string, n int, emit func(op string, tags ...string)) {
	thorough := tier == "thorough"
	hx := hex.EncodeToString
	both := func(data []byte, fam string) {
		emit("h32 "+hx(data), "family:h32-"+fam)
		emit("h64 "+hx(data), "family:h64-"+fam)
	}
	// 0. writers with 2^30-byte blocks allocate a 1.1 GiB buffer.  They go first (the first one then
	// gets fresh, already zero memory instead of re-used heap spans that must be cleared; clearing
	// costs seconds each): quick = one writer, thorough = one per size hint
	bigSizes := []string{"-", "1", "65535", "65536", "4294967295", "4294967296", "281474976710655", "281474976710656"}
	for si, sz := range bigSizes {
		if !thorough && si != 5 {
			continue
		}
		emit(fmt.Sprintf("hd %d %d %012x 1073741824 %s", (si+2)%3, hashEntropyCodes[(si+2)%9], hashRandChain(r, si), sz), "family:hd-grid-2^30")
	}
	// 1. every length 0..200, two patterns
	for l := 0; l <= 200; l++ {
		a := make([]byte, l)
		b := make([]byte, l)
		for i := range a {
			a[i] = byte(i*7 + 1)
			b[i] = 0xFF
		}
		both(a, "len-exhaustive")
		both(b, "len-exhaustive")
	}
	// 2. boundary lengths with random data
	reps := 8
	if thorough {
		reps = 64
	}
	for _, l := range []int{3, 4, 15, 16, 17, 31, 32, 33, 63, 64, 65} {
		for k := 0; k < reps; k++ {
			d := make([]byte, l)
			r.Read(d)
			both(d, "boundary")
		}
	}
	// 3. random sizes up to 100 KiB
	nr := 150
	if thorough {
		nr = 1500
	}
	if n > 0 {
		nr = n
	}
	for i := 0; i < nr; i++ {
		var l int
		switch x := r.Intn(10); {
		case x < 5:
			l = r.Intn(400)
		case x < 8:
			l = r.Intn(8192)
		default:
			l = r.Intn(100*1024 + 1)
		}
		d := make([]byte, l)
		switch r.Intn(4) {
		case 0: // sparse
			for j := 0; j < l/16; j++ {
				d[r.Intn(l)] = byte(r.Intn(256))
			}
		case 1: // high bytes (sign / carry sensitive)
			for j := range d {
				d[j] = byte(0x80 | r.Intn(128))
			}
		default:
			r.Read(d)
		}
		both(d, "random")
	}
	both(make([]byte, 100*1024), "max-zero")

	// 4. hd: headers written by the real writer
	chains := []uint64{0, 1 << 42, 10<<42 | 1<<36 | 8<<30 | 6<<24, hashRandChain(r, 8), hashRandChain(r, 3)}
	if thorough {
		chains = append(chains, 18<<42|3<<36, 16<<42, hashRandChain(r, 5))
		for _, t := range hashTransformTokens {
			chains = append(chains, t<<42)
		}
		for i := 0; i < 12; i++ {
			chains = append(chains, hashRandChain(r, 1+r.Intn(8)))
		}
	}
	sizes := []string{"-", "1", "65535", "65536", "4294967295", "4294967296", "281474976710655", "281474976710656"}
	blocks := []uint{1024, 1040, 65536}
	for ck := 0; ck <= 2; ck++ {
		for _, e := range hashEntropyCodes {
			for _, t := range chains {
				for _, bs := range blocks {
					for _, sz := range sizes {
						emit(fmt.Sprintf("hd %d %d %012x %d %s", ck, e, t, bs, sz), "family:hd-grid")
					}
				}
			}
		}
	}
	for i := 0; i < 200; i++ {
		bs := uint(1024 + 16*r.Intn(1<<16))
		if i%4 == 0 {
			bs = uint(1024 + 16*r.Intn(1<<20)) // up to 16 MiB: high bits of the 28-bit field
		}
		sz := uint64(r.Int63()) >> uint(r.Intn(63))
		emit(fmt.Sprintf("hd %d %d %012x %d %d", r.Intn(3), hashEntropyCodes[r.Intn(9)], hashRandChain(r, r.Intn(9)), bs, sz), "family:hd-random")
	}
	// constructor rejections (both sides must say so)
	emit("hd 3 0 000000000000 1024 -", "family:hd-rejected")
	emit("hd 0 3 000000000000 1024 -", "family:hd-rejected")
	emit("hd 0 10 000000000000 1024 -", "family:hd-rejected")
	emit("hd 0 0 100000000000 1024 -", "family:hd-rejected") // SNAPPY slot
	emit("hd 0 0 500000000000 1024 -", "family:hd-rejected") // token 20
	emit("hd 0 0 000040000000 1024 -", "family:hd-rejected") // not canonical
	emit("hd 0 0 000000000000 1008 -", "family:hd-rejected")
	emit("hd 0 0 000000000000 1032 -", "family:hd-rejected")
	emit("hd 0 0 000000000000 1073741840 -", "family:hd-rejected")
	emit("hd 0 0 000000000000 0 -", "family:hd-rejected")

	// 5. hp: reader verdicts
	var valid []container.Header
	for _, sm := range []uint{0, 1, 2, 3} {
		for k := 0; k < 3; k++ {
			h := container.Header{CkSize: uint(r.Intn(3)), EntropyType: hashEntropyCodes[r.Intn(9)], Transform: hashRandChain(r, r.Intn(9)),
				BlockSize: uint(1024 + 16*r.Intn(1<<12)), SzMask: sm}
			if sm > 0 {
				h.OrigSize = uint64(r.Int63()) & (1<<(16*sm) - 1)
			}
			if k == 0 {
				h.BlockSize = []uint{1024, 1 << 30, 65536, 1040}[sm]
			}
			valid = append(valid, h)
		}
	}
	// transforms with NONE slots inside (accepted by the reader, canonicalised by the name round trip)
	valid = append(valid, container.Header{CkSize: 1, EntropyType: 5, Transform: 1<<36 | 6<<24 | 7, BlockSize: 4096})
	for _, h := range valid {
		b := hashBuildHeader(h)
		emit("hp "+hx(b), "family:hp-valid")
		emit("hp "+hx(append(append([]byte{}, b...), 0x00)), "family:hp-valid+endmarker")
		emit("hp "+hx(append(append([]byte{}, b...), 0xDE, 0xAD, 0xBE, 0xEF, 1, 2, 3, 4, 5)), "family:hp-valid+trailing")
	}
	// every byte truncation and every single bit flip
	for i, h := range valid {
		b := hashBuildHeader(h)
		for l := 0; l < len(b); l++ {
			emit(strings.TrimSpace("hp "+hx(b[:l])), "family:hp-truncated")
		}
		if i%3 != 0 && i != len(valid)-1 && !thorough {
			continue // quick tier: one header per szMask + the one with NONE slots
		}
		for bit := 0; bit < 8*len(b); bit++ {
			c := append([]byte{}, b...)
			c[bit>>3] ^= 0x80 >> uint(bit&7)
			emit("hp "+hx(c), "family:hp-bitflip")
		}
	}
	// field-targeted invalid values with a CORRECT crc, at full length and truncated after the field
	type mut struct {
		name string
		f    func(h *container.Header)
	}
	muts := []mut{
		{"cksize3", func(h *container.Header) { h.CkSize = 3 }},
		{"entropy3", func(h *container.Header) { h.EntropyType = 3 }},
		{"entropy10", func(h *container.Header) { h.EntropyType = 10 }},
		{"entropy31", func(h *container.Header) { h.EntropyType = 31 }},
		{"snappy", func(h *container.Header) { h.Transform = 4 << 42 }},
		{"token20-last", func(h *container.Header) { h.Transform = 1<<42 | 20 }},
		{"token63", func(h *container.Header) { h.Transform = 63 << 18 }},
		{"block1008", func(h *container.Header) { h.BlockSize = 1008 }},
		{"block0", func(h *container.Header) { h.BlockSize = 0 }},
		{"block2^30+16", func(h *container.Header) { h.BlockSize = 1<<30 + 16 }},
		{"block-max-field", func(h *container.Header) { h.BlockSize = (1<<28 - 1) << 4 }},
	}
	for _, m := range muts {
		for _, base := range valid[:6] {
			h := base
			m.f(&h)
			b := hashBuildHeader(h)
			emit("hp "+hx(b), "family:hp-invalid-field:"+m.name)
			for _, l := range []int{5, 6, 11, 12, 15, 16} {
				emit("hp "+hx(b[:l]), "family:hp-invalid-field-truncated")
			}
		}
	}
	// other versions, wrong magic
	for v := 0; v < 16; v++ {
		b := hashBuildHeader(valid[1])
		b[4] = b[4]&0x0F | byte(v<<4)
		emit("hp "+hx(b), "family:hp-version")
		emit("hp "+hx(b[:5]), "family:hp-version")
	}
	emit("hp 4b414e59", "family:hp-magic")
	emit("hp 4b414e", "family:hp-magic")
	emit("hp 00000000000000000000000000000000000000000000", "family:hp-magic")
	// random damage: 2..6 bit flips, byte substitutions
	nd := 2000
	if thorough {
		nd = 40000
	}
	for i := 0; i < nd; i++ {
		b := hashBuildHeader(valid[r.Intn(len(valid))])
		k := 2 + r.Intn(5)
		for j := 0; j < k; j++ {
			bit := 36 + r.Intn(8*len(b)-36) // keep magic+version: the interesting checks lie behind
			if r.Intn(4) == 0 {
				b[bit>>3] = byte(r.Intn(256))
			} else {
				b[bit>>3] ^= 0x80 >> uint(bit&7)
			}
		}
		emit("hp "+hx(b), "family:hp-random-damage")
	}
	// crc-only damage and padding-only damage
	for i := 0; i < 100; i++ {
		h := valid[r.Intn(len(valid))]
		b := hashBuildHeader(h)
		c := append([]byte{}, b...)
		c[len(c)-1-r.Intn(3)] ^= byte(1 + r.Intn(255))
		emit("hp "+hx(c), "family:hp-crc-damage")
		p := append([]byte{}, b...)
		bit := 8*len(b) - 24 - 1 - r.Intn(15)
		p[bit>>3] ^= 0x80 >> uint(bit&7)
		emit("hp "+hx(p), "family:hp-padding-damage")
	}
}
