/-
inverseBiPSIv2, part 4: the third loop pair (`biFill`): a two level counting sort.  Level 1 (`freqs`)
hands every source index its row (`posOf`), level 2 scatters the row numbers by bigram.
`putListG_spec` is the scatter-loop specification for an arbitrary number of buckets whose ranges are
pairwise disjoint (the bigram starts are monotone in the flat key, not in the bucket index).
-/
import Kanzi.Proofs.BWTBi3

namespace Kanzi.BWT

theorem putListG_spec (E : List (Nat × Nat)) : ∀ (C : Nat → Nat) (bk data : Array Nat),
    (∀ e ∈ E, e.1 < bk.size) → (∀ c, c < bk.size → rd bk c = C c) →
    (∀ c c2, c < bk.size → c2 < bk.size → c ≠ c2 →
      C c + (ebucket E c).length ≤ C c2 ∨ C c2 + (ebucket E c2).length ≤ C c) →
    (∀ c, c < bk.size → C c + (ebucket E c).length ≤ data.size) →
    ∃ bk' data', putList E bk data = some (bk', data') ∧ data'.size = data.size ∧ bk'.size = bk.size ∧
      (∀ c, c < bk.size → rd bk' c = C c + (ebucket E c).length) ∧
      (∀ c, c < bk.size → ∀ k, k < (ebucket E c).length → rd data' (C c + k) = ((ebucket E c).getD k (0, 0)).2) ∧
      (∀ j, (∀ c, c < bk.size → ¬ (C c ≤ j ∧ j < C c + (ebucket E c).length)) → rd data' j = rd data j) := by
  induction E with
  | nil =>
    intro C bk data _ hC _ _
    refine ⟨bk, data, rfl, rfl, rfl, ?_, ?_, ?_⟩
    · intro c hc; simp [ebucket, bucket, hC c hc]
    · intro c _ k hk; simp [ebucket, bucket] at hk
    · intro j _; rfl
  | cons e es ih =>
    intro C bk data hkeys hC hdisj hfit
    have hv : e.1 < bk.size := hkeys e (List.mem_cons_self)
    have hlen : ∀ c, (ebucket (e :: es) c).length = (ebucket es c).length + (if e.1 = c then 1 else 0) := by
      intro c
      simp only [ebucket, bucket, List.filter_cons]
      by_cases h : e.1 = c <;> simp [h]
    have hpos : rd bk e.1 < data.size := by
      have h1 := hfit e.1 hv
      have h2 := hlen e.1
      simp only [ite_true] at h2
      rw [hC e.1 hv]; omega
    have hput := put_eq (w := e.2) hv hpos
    let C' : Nat → Nat := fun c => if c = e.1 then C e.1 + 1 else C c
    have hsz' : (bk.set e.1 (rd bk e.1 + 1) hv).size = bk.size := Array.size_set _
    have hC' : ∀ c, c < (bk.set e.1 (rd bk e.1 + 1) hv).size → rd (bk.set e.1 (rd bk e.1 + 1) hv) c = C' c := by
      intro c hc
      rw [hsz'] at hc
      rw [rd_set]
      by_cases h : e.1 = c
      · subst h; simp [C', hC e.1 hv]
      · have h' : ¬ c = e.1 := fun x => h x.symm
        simp [C', h, h', hC c hc]
    have hdisj' : ∀ c c2, c < (bk.set e.1 (rd bk e.1 + 1) hv).size → c2 < (bk.set e.1 (rd bk e.1 + 1) hv).size →
        c ≠ c2 → C' c + (ebucket es c).length ≤ C' c2 ∨ C' c2 + (ebucket es c2).length ≤ C' c := by
      intro c c2 hc hc2 hne
      rw [hsz'] at hc hc2
      have := hdisj c c2 hc hc2 hne
      rw [hlen c, hlen c2] at this
      simp only [C']
      by_cases h1 : c = e.1
      · have h2 : ¬ c2 = e.1 := fun x => hne (h1.trans x.symm)
        have h2' : ¬ e.1 = c2 := fun x => h2 x.symm
        subst h1
        simp only [ite_true, h2, h2', ite_false, Nat.add_zero] at this ⊢
        omega
      · have h1' : ¬ e.1 = c := fun x => h1 x.symm
        by_cases h2 : c2 = e.1
        · subst h2
          simp only [h1, h1', ite_true, ite_false, Nat.add_zero] at this ⊢
          omega
        · have h2' : ¬ e.1 = c2 := fun x => h2 x.symm
          simp only [h1, h1', h2, h2', ite_false, Nat.add_zero] at this ⊢
          exact this
    have hfit' : ∀ c, c < (bk.set e.1 (rd bk e.1 + 1) hv).size →
        C' c + (ebucket es c).length ≤ (data.setIfInBounds (rd bk e.1) e.2).size := by
      intro c hc
      rw [hsz'] at hc
      have := hfit c hc
      rw [hlen c] at this
      rw [Array.size_setIfInBounds]
      simp only [C']
      by_cases h1 : c = e.1
      · subst h1; simp only [ite_true] at this ⊢; omega
      · have h1' : ¬ e.1 = c := fun x => h1 x.symm
        simp only [h1, h1', ite_false, Nat.add_zero] at this ⊢; exact this
    obtain ⟨bk', data', hrun, hsz, hbk', hB, hD, hU⟩ :=
      ih C' _ _ (fun x hx => by rw [hsz']; exact hkeys x (List.mem_cons_of_mem _ hx)) hC' hdisj' hfit'
    rw [hsz'] at hbk' hB hD hU
    refine ⟨bk', data', ?_, ?_, hbk', ?_, ?_, ?_⟩
    · simp only [putList, hput]; exact hrun
    · rw [hsz, Array.size_setIfInBounds]
    · intro c hc
      rw [hB c hc, hlen c]
      simp only [C']
      by_cases h1 : c = e.1
      · subst h1; simp only [ite_true]; omega
      · have h1' : ¬ e.1 = c := fun x => h1 x.symm
        simp only [h1, h1', ite_false, Nat.add_zero]
    · intro c hc k hk
      rw [hlen c] at hk
      by_cases h1 : e.1 = c
      · have hb : ebucket (e :: es) c = e :: ebucket es c := by
          simp [ebucket, bucket, h1]
        rw [hb]
        cases k with
        | zero =>
          have hout : ∀ c', c' < bk.size → ¬ (C' c' ≤ C c + 0 ∧ C c + 0 < C' c' + (ebucket es c').length) := by
            intro c' hc' ⟨h2, h3⟩
            simp only [C'] at h2 h3
            by_cases h4 : c' = e.1
            · rw [if_pos h4, ← h1] at h2; omega
            · rw [if_neg h4] at h2 h3
              have hd := hdisj c' e.1 hc' hv h4
              rw [hlen c', hlen e.1] at hd
              have h4' : ¬ e.1 = c' := fun x => h4 x.symm
              simp only [h4', ite_false, ite_true, Nat.add_zero] at hd
              rw [← h1] at h2 h3
              omega
          rw [hU _ hout, rd_setIfInBounds]
          have h6 : rd bk e.1 = C c + 0 := by rw [hC e.1 hv, h1]; rfl
          rw [if_pos ⟨h6, hpos⟩]
          rfl
        | succ k =>
          simp only [h1, ite_true] at hk
          have := hD c hc k (by omega)
          simp only [C'] at this
          rw [if_pos h1.symm, h1] at this
          simp only [List.getD_cons_succ]
          rw [← this]; congr 1; omega
      · have hb : ebucket (e :: es) c = ebucket es c := by
          simp [ebucket, bucket, h1]
        rw [hb]
        simp only [h1, ite_false, Nat.add_zero] at hk
        have := hD c hc k hk
        simp only [C'] at this
        rw [if_neg (fun x => h1 x.symm)] at this
        exact this
    · intro j hj
      have hout : ∀ c', c' < bk.size → ¬ (C' c' ≤ j ∧ j < C' c' + (ebucket es c').length) := by
        intro c' hc' ⟨h2, h3⟩
        apply hj c' hc'
        rw [hlen c']
        simp only [C'] at h2 h3
        by_cases h4 : c' = e.1
        · rw [if_pos h4] at h2 h3
          subst h4; simp only [ite_true]; omega
        · rw [if_neg h4] at h2 h3
          have h4' : ¬ e.1 = c' := fun x => h4 x.symm
          simp only [h4', ite_false, Nat.add_zero]; omega
      rw [hU j hout, rd_setIfInBounds]
      have : ¬ (rd bk e.1 = j) := by
        intro hh
        apply hj e.1 hv
        rw [hlen e.1, ← hC e.1 hv, hh]
        simp
      simp [this]

/-! ### level 1: the `freqs` array while the source is scanned -/

/-- `freqs` before source index `i` -/
def FrAt (src : Array Nat) (fr : Array Nat) (i : Nat) : Prop :=
  fr.size = 256 ∧ ∀ c, c < 256 → rd fr c = fC src c + seen src i c

/-- row written into `data` for source index `j`: the row of `BWT'` it stands for -/
def rowOfIdx (p0 j : Nat) : Nat := if j < p0 then j else j + 1

/-- entry scattered for source index `j` (none for the index whose row is the end-marker row) -/
def entOf (src : Array Nat) (p0 off j : Nat) : Option (Nat × Nat) :=
  if posOf src j = p0 then none else some (Tix (keyOf src p0 j), j + off)

theorem biFill_eq (src : Array Nat) (hb : ∀ b ∈ src.toList, b < 256) (p0 off : Nat) (hp0 : p0 ≤ src.size)
    (k i : Nat) (hik : i + k ≤ src.size) (fr bk data : Array Nat) (hfr : FrAt src fr i)
    (r : Array Nat × Array Nat)
    (hr : putList ((List.range' i k).filterMap (entOf src p0 off)) bk data = some r) :
    ∃ fr', FrAt src fr' (i + k) ∧ biFill src p0 off k i fr bk data = some (fr', r.1, r.2) := by
  induction k generalizing i fr bk data with
  | zero =>
    simp only [List.range'_zero, List.filterMap_nil, putList] at hr
    injection hr with hr; subst hr
    exact ⟨fr, hfr, rfl⟩
  | succ k ih =>
    have hi : i < src.size := by omega
    have hc : src[i] < fr.size := by rw [hfr.1]; exact hb _ (by simp)
    have hc256 : src[i] < 256 := hb _ (by simp)
    have hp : fr[src[i]] = posOf src i := by
      rw [rd_eq_getElem hc, hfr.2 _ hc256, rd_eq_getElem hi]; rfl
    have hfr' : FrAt src (fr.set src[i] (fr[src[i]] + 1) hc) (i + 1) := by
      refine ⟨by rw [Array.size_set]; exact hfr.1, ?_⟩
      intro c hc'
      rw [rd_set, seen_succ src i c hi, ← rd_eq_getElem hi]
      by_cases h : src[i] = c
      · subst h; rw [rd_eq_getElem hc, hfr.2 _ hc256]; simp; omega
      · simp [h, hfr.2 c hc']
    have hpb := posOf_bounds src i hi
    rw [List.range'_succ, List.filterMap_cons] at hr
    have hnext : i + 1 + k = i + (k + 1) := by omega
    simp only [biFill, hi, dite_true, hc, hp]
    by_cases hpp : posOf src i = p0
    · have he : entOf src p0 off i = none := by simp [entOf, hpp]
      rw [he] at hr
      simp only at hr
      obtain ⟨fr2, h1, h2⟩ := ih (i + 1) (by omega) _ bk data hfr' hr
      rw [hnext] at h1
      refine ⟨fr2, h1, ?_⟩
      simp only [hpp, ite_true]
      simp only [hp, hpp] at h2
      exact h2
    · have he : entOf src p0 off i = some (Tix (keyOf src p0 i), i + off) := by simp [entOf, hpp]
      rw [he] at hr
      simp only [putList] at hr
      have hq : (if posOf src i < p0 then posOf src i else posOf src i - 1) < src.size := by
        split <;> omega
      have hkey : (src[i] <<< 8) ||| src[if posOf src i < p0 then posOf src i else posOf src i - 1]'hq
          = Tix (keyOf src p0 i) := by
        have hx : src[if posOf src i < p0 then posOf src i else posOf src i - 1]'hq = Lrow src p0 (posOf src i) := by
          rw [rd_eq_getElem hq]
          unfold Lrow
          split <;> rfl
        have hxl := Lrow_lt src hb p0 (posOf src i)
        rw [hx, shl8_or _ _ hxl]
        unfold keyOf flat Tix
        rw [← rd_eq_getElem hi]
        omega
      simp only [hpp, ite_false, hq, dite_true, hkey]
      cases hput : put bk data (Tix (keyOf src p0 i)) (i + off) with
      | none => rw [hput] at hr; cases hr
      | some r1 =>
        rw [hput] at hr
        simp only at hr
        obtain ⟨fr2, h1, h2⟩ := ih (i + 1) (by omega) _ r1.1 r1.2 hfr' hr
        rw [hnext] at h1
        refine ⟨fr2, h1, ?_⟩
        simp only [hp] at h2
        exact h2

end Kanzi.BWT
