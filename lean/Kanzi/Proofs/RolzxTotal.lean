/-
ROLZX (`rolzCodec2`): Forward never faults on a block of at most one chunk (`rolzxForward_nf`): every read of
the block is in range, the loops terminate within their fuel, and the range coder never writes past `dst`
(the check `dstIdx > len(dst) - _ROLZ_DST_MARGIN` at the head of the main loop leaves room for one iteration,
the last 4 literals and `dispose`).
-/
import Kanzi.Proofs.RolzxRound

namespace Kanzi.ROLZ

/-! ## the coder has room -/

theorem encodeBit_nf {dstLen : Nat} {e : Enc} (hi : EInv e) {p : Nat} (hp : p < 65536) (bit : Bool)
    (hroom : e.out.size + 4 ≤ dstLen) : ∃ e', e.encodeBit dstLen p bit = .ok e' := by
  rw [encodeBit_eq dstLen hi hp bit]
  by_cases hc : low1 e p bit / 2 ^ 24 = high1 e p bit / 2 ^ 24
  · rw [if_pos hc, if_pos hroom]; exact ⟨_, rfl⟩
  · rw [if_neg hc]; exact ⟨_, rfl⟩

theorem encBits_nf {dstLen ctx val : Nat} : ∀ (n c1 : Nat) (e : Enc) (t : Array Nat),
    EInv e → ProbOk t → e.out.size + 4 * n ≤ dstLen → ∃ r, encBits dstLen ctx val n c1 e t = .ok r := by
  intro n
  induction n with
  | zero => intro c1 e t _ _ _; exact ⟨_, rfl⟩
  | succ n ih =>
    intro c1 e t hi ht hroom
    have hp := ht (ctx + c1)
    obtain ⟨e1, he1⟩ := encodeBit_nf (e := e) (dstLen := dstLen) hi hp (val.testBit n) (by omega)
    have i1 := encodeBit_einv hi hp he1
    have s1 := encodeBit_size hi hp he1
    obtain ⟨r, hr⟩ := ih (2 * c1 + (val.testBit n).toNat) e1 (t.setIfInBounds (ctx + c1) (probUp (t.getD (ctx + c1) 0)
      (val.testBit n))) i1 (probOk_set ht _ _ (probUp_lt _ hp)) (by omega)
    refine ⟨r, ?_⟩
    simp only [encBits]
    rw [he1]
    exact hr

theorem encLit9_nf {dstLen c val : Nat} {s : FSt} (ho : EncOk s) (hroom : s.enc.out.size + 36 ≤ dstLen) :
    ∃ s', encLit9 dstLen c val s = .ok s' := by
  obtain ⟨r, hr⟩ := encBits_nf (dstLen := dstLen) (ctx := c <<< 9) (val := val) 9 1 s.enc s.pl ho.einv ho.plok (by omega)
  refine ⟨⟨s.tab, r.1, r.2, s.pm⟩, ?_⟩
  unfold encLit9
  simp only [hr]

/-! ## the match search reads inside the chunk -/

theorem matchLen2_nf (a : Array Nat) (lim r p maxMatch : Nat) (hr : r ≤ p) (hlim : maxMatch = 0 ∨ p + maxMatch + 4 ≤ lim) :
    ∀ (f n : Nat), 0 < f → maxMatch + 4 ≤ n + 4 * f → ∃ res, matchLen2 a lim r p maxMatch f n = .ok res := by
  intro f
  induction f with
  | zero => intro n h0 _; omega
  | succ f ih =>
    intro n _ h
    simp only [matchLen2]
    by_cases hn : n < maxMatch
    · rw [if_pos hn, if_pos (by omega)]
      split
      · exact ⟨_, rfl⟩
      · exact ih (n + 4) (by omega) (by omega)
    · rw [if_neg hn]; exact ⟨_, rfl⟩

theorem candLoop2_nf (a : Array Nat) (base lim pos hash32 maxMatch : Nat) (mts : Array Nat) (mb counter pc : Nat)
    (hent : ∀ k, base + mts.getD k 0 % 2 ^ 24 ≤ pos) (hpos : pos < lim)
    (hlim : maxMatch = 0 ∨ pos + maxMatch + 4 ≤ lim) :
    ∀ (k j L J : Nat), (L = 0 ∨ (L < maxMatch + 4 ∧ 0 < maxMatch)) →
    ∃ res, candLoop2 a base lim pos hash32 maxMatch mts mb counter pc k j L J = .ok res := by
  intro k
  induction k with
  | zero => intro j L J _; exact ⟨_, rfl⟩
  | succ k ih =>
    intro j L J hL
    simp only [candLoop2]
    split
    · exact ih _ _ _ hL
    · have hr := hent (mb + (counter + pc - j) % pc)
      have hLlim : pos + L < lim := by
        rcases hL with h0 | ⟨h1, h2⟩
        · omega
        · omega
      rw [rd1_eq (by omega), rd1_eq hLlim]
      simp only
      split
      · exact ih _ _ _ hL
      · obtain ⟨n, hn⟩ := matchLen2_nf a lim (base + mts.getD (mb + (counter + pc - j) % pc) 0 % 2 ^ 24) pos maxMatch hr hlim
          (maxMatch / 4 + 2) 0 (by omega) (by omega)
        rw [hn]
        simp only
        have sp := matchLen2_spec a lim _ pos maxMatch _ 0 n (fun k hk => by omega) hn
        split
        · split
          · exact ⟨_, rfl⟩
          · refine ih _ _ _ ?_
            rcases sp.2.1 with h0 | h0
            · omega
            · exact Or.inr h0
        · exact ih _ _ _ hL

/-- the invariants of the tables of the encoder at position `i` of the chunk starting at `base` -/
structure TInv (t : Tab) (lpc base i : Nat) : Prop where
  ok : TabOk t lpc
  ent : ∀ k, base + t.mts.getD k 0 % 2 ^ 24 ≤ i

theorem register_tinv {t : Tab} {lpc base i i' : Nat} (h : TInv t lpc base i) (hi : i ≤ i') (key w : Nat)
    (hb : base ≤ i) : TInv (t.register lpc key (rolzhashW w + (i - base))) lpc base i' := by
  refine ⟨register_ok h.ok _ _, fun k => ?_⟩
  simp only [Tab.register]
  rw [getD_setIfInBounds]
  split
  · have := rolzhashW_mod w
    have h2 : (rolzhashW w + (i - base)) % 2 ^ 24 ≤ i - base := by
      have : (rolzhashW w + (i - base)) % 2 ^ 24 = (i - base) % 2 ^ 24 := by omega
      rw [this]; exact Nat.mod_le _ _
    omega
  · have := h.ent k; omega

theorem findMatch2_nf {a : Array Nat} {base lim pos key mm lpc : Nat} {t : Tab} (ht : TInv t lpc base pos)
    (hb : base ≤ pos) (hpos : pos < lim) (hlim : lim + 4 ≤ a.size) (hmm : 3 ≤ mm ∧ mm ≤ 7) :
    ∃ r, findMatch2 a base lim pos key mm lpc t = .ok r ∧ TInv r.2 lpc base (pos + 1) := by
  unfold findMatch2
  have hM : MAX_MATCH2 = 258 := rfl
  dsimp only
  split
  · refine ⟨_, rfl, ?_⟩
    show TInv t lpc base (pos + 1)
    exact ⟨ht.ok, fun k => by have := ht.ent k; omega⟩
  · rename_i hge
    have hle : le32 a a.size pos = some (a.getD pos 0 + 256 * a.getD (pos + 1) 0 + 65536 * a.getD (pos + 2) 0
        + 16777216 * a.getD (pos + 3) 0) := by
      unfold le32; rw [if_pos (by omega)]
    rw [hle]
    simp only
    obtain ⟨res, hres⟩ := candLoop2_nf a base lim pos (rolzhashW (a.getD pos 0 + 256 * a.getD (pos + 1) 0
      + 65536 * a.getD (pos + 2) 0 + 16777216 * a.getD (pos + 3) 0)) (min MAX_MATCH2 (lim - pos) - 4) t.mts (key * 2 ^ lpc)
      (t.counters.getD key 0) (2 ^ lpc) ht.ent hpos (by rw [hM]; omega) (2 ^ lpc) 0 0 0 (Or.inl rfl)
    rw [hres]
    simp only
    split
    · exact ⟨_, rfl, register_tinv ht (by omega) _ _ hb⟩
    · exact ⟨_, rfl, register_tinv ht (by omega) _ _ hb⟩

/-! ## one step, the loops -/

theorem getKey_some {mm delta : Nat} (hp : ParamsOk mm delta) (a : Array Nat) {base lim i : Nat} (hbi : base + 8 ≤ i)
    (hil : i ≤ lim) : ∃ key, getKey mm delta a base lim i = some key := by
  unfold getKey
  rcases hp with ⟨h3, hd⟩ | ⟨hn3, hd⟩
  · rw [if_neg (by omega), if_pos h3]
    unfold getKey1 le16
    rw [if_pos (by omega)]
    exact ⟨_, rfl⟩
  · rw [if_neg (by omega), if_neg hn3]
    unfold getKey2 le64
    rw [if_pos (by omega)]
    exact ⟨_, rfl⟩

theorem tinv_mono {t : Tab} {lpc base i i' : Nat} (h : TInv t lpc base i) (hi : i ≤ i') : TInv t lpc base i' :=
  ⟨h.ok, fun k => by have := h.ent k; omega⟩

theorem bytes_nil : Bytes [] := fun k => by simp

/-- one iteration of the main loop either declines (destination margin used up) or succeeds, advances inside the
    chunk, keeps the invariants and leaves at least 152 bytes of room (last literals + dispose) -/
theorem fwdStep_nf {a : Array Nat} {dstLen base lim mm delta lpc i : Nat} {s : FSt} (hpar : ParamsOk mm delta)
    (hmm : 3 ≤ mm ∧ mm ≤ 7) (hlpc : lpc ≤ 8) (hbi : base + 8 ≤ i) (hil : i < lim) (hlim : lim + 4 ≤ a.size)
    (ho : EncOk s) (ht : TInv s.tab lpc base i) :
    (∃ e, fwdStep a dstLen base lim mm delta lpc i s = .err e) ∨
    (∃ r, fwdStep a dstLen base lim mm delta lpc i s = .ok r ∧ i < r.1 ∧ r.1 ≤ lim ∧ EncOk r.2 ∧
      TInv r.2.tab lpc base r.1 ∧ r.2.enc.out.size + 152 ≤ dstLen) := by
  unfold fwdStep
  dsimp only
  by_cases hmar : s.enc.out.size + DST_MARGIN > dstLen
  · left; rw [if_pos hmar]; exact ⟨_, rfl⟩
  · right
    rw [if_neg hmar]
    have hM : DST_MARGIN = 256 := rfl
    rw [rd1_eq (by omega : i - 1 < lim)]
    obtain ⟨key, hkey⟩ := getKey_some hpar a (by omega : base + 8 ≤ i) (by omega : i ≤ lim)
    rw [hkey]
    simp only
    obtain ⟨r, hr, htr⟩ := findMatch2_nf (key := key) (a := a) ht (by omega) hil hlim hmm
    have hsp := findMatch2_spec hr hmm
    rw [hr]
    obtain ⟨r1, r2⟩ := r
    cases r1 with
    | none =>
      simp only
      rw [rd1_eq hil]
      simp only
      have ho1 : EncOk ⟨r2, s.enc, s.pl, s.pm⟩ := ⟨ho.einv, ho.plok, ho.pmok, ho.bytes⟩
      obtain ⟨s', hs'⟩ := encLit9_nf (dstLen := dstLen) (c := a.getD (i - 1) 0) (val := 256 + a.getD i 0) ho1
        (by simp only; omega)
      obtain ⟨o', _, t', z1, z2⟩ := encLit9_enc bytes_nil hs' ho1
      rw [hs']
      simp only at t' z2
      exact ⟨_, rfl, by simp only; omega, by simp only; omega, o', by simp only; rw [t']; exact htr, by simp only; omega⟩
    | some m =>
      obtain ⟨mi, ml⟩ := m
      simp only
      have hge : mm ≤ lim - i := by
        by_cases hlt : lim - i < mm
        · have := hsp.1 hlt
          injection this with h1 _
          cases h1
        · omega
      obtain ⟨w, _, _, h3⟩ := hsp.2 hge
      simp only at h3
      rcases h3 with h3 | ⟨j, ml', h3, _, _, hend, _⟩
      · cases h3
      · injection h3 with h3
        injection h3 with h3a h3b
        subst h3a; subst h3b
        have ho1 : EncOk ⟨r2, s.enc, s.pl, s.pm⟩ := ⟨ho.einv, ho.plok, ho.pmok, ho.bytes⟩
        obtain ⟨s1, hs1⟩ := encLit9_nf (dstLen := dstLen) (c := a.getD (i - 1) 0) (val := ml) ho1 (by simp only; omega)
        obtain ⟨o1, _, t1, _, z2⟩ := encLit9_enc bytes_nil hs1 ho1
        simp only at t1 z2
        rw [hs1]
        simp only
        obtain ⟨r, hr2⟩ := encBits_nf (dstLen := dstLen) (ctx := a.getD (i - 1) 0 <<< lpc) (val := mi) lpc 1 s1.enc s1.pm
          o1.einv o1.pmok (by omega)
        have hr2' : encBits dstLen (a.getD (i - 1) 0 <<< lpc) mi lpc 1 s1.enc s1.pm = .ok (r.1, r.2) := hr2
        obtain ⟨i2, p2, _, z4, _⟩ := encBits_inv lpc 1 _ _ _ _ o1.einv o1.pmok hr2'
        rw [hr2]
        refine ⟨_, rfl, by simp only; omega, by simp only; omega,
          ⟨i2, o1.plok, p2, encBits_bytes lpc 1 _ _ _ _ o1.einv o1.pmok hr2' o1.bytes⟩, ?_, by simp only; omega⟩
        simp only
        rw [t1]
        exact tinv_mono htr (by omega)

theorem fwdLoop_nf {a : Array Nat} {dstLen base lim mm delta lpc : Nat} (hpar : ParamsOk mm delta)
    (hmm : 3 ≤ mm ∧ mm ≤ 7) (hlpc : lpc ≤ 8) (hlim : lim + 4 ≤ a.size) :
    ∀ (f i : Nat) (s : FSt), (base + 8 ≤ i ∨ lim ≤ i) → i ≤ lim → lim - i + 1 ≤ f → EncOk s → TInv s.tab lpc base i →
    s.enc.out.size + 152 ≤ dstLen →
    (∃ e, fwdLoop a dstLen base lim mm delta lpc f i s = .err e) ∨
    (∃ r, fwdLoop a dstLen base lim mm delta lpc f i s = .ok r ∧ r.1 = lim ∧ EncOk r.2 ∧ r.2.enc.out.size + 152 ≤ dstLen ∧
      TabOk r.2.tab lpc) := by
  intro f
  induction f with
  | zero => intro i s _ _ hf; omega
  | succ f ih =>
    intro i s hbi hile hf ho ht hroom
    simp only [fwdLoop]
    by_cases hil : i < lim
    · rw [if_pos hil]
      rcases fwdStep_nf (dstLen := dstLen) hpar hmm hlpc (by omega) hil hlim ho ht with ⟨e, he⟩ | ⟨r, hr, h1, h2, h3, h4, h5⟩
      · left; rw [he]; exact ⟨_, rfl⟩
      · rw [hr]
        simp only
        exact ih r.1 r.2 (by omega) h2 (by omega) h3 h4 h5
    · right
      rw [if_neg hil]
      exact ⟨_, rfl, by simp only; omega, ho, hroom, ht.ok⟩

theorem fwdFirst_nf {a : Array Nat} {dstLen lim : Nat} : ∀ (k i : Nat) (s : FSt), i + k ≤ lim → EncOk s →
    s.enc.out.size + 36 * k ≤ dstLen →
    ∃ s', fwdFirst a dstLen lim k i s = .ok s' ∧ EncOk s' ∧ s'.tab = s.tab ∧ s'.enc.out.size ≤ s.enc.out.size + 36 * k := by
  intro k
  induction k with
  | zero => intro i s _ ho _; exact ⟨s, rfl, ho, rfl, by omega⟩
  | succ k ih =>
    intro i s hik ho hroom
    simp only [fwdFirst]
    rw [rd1_eq (by omega : i < lim)]
    simp only
    obtain ⟨s1, hs1⟩ := encLit9_nf (dstLen := dstLen) (c := 0) (val := 256 + a.getD i 0) ho (by omega)
    obtain ⟨o1, _, t1, _, z2⟩ := encLit9_enc bytes_nil hs1 ho
    rw [hs1]
    simp only
    obtain ⟨s', hs', o', t', z'⟩ := ih (i + 1) s1 (by omega) o1 (by omega)
    exact ⟨s', hs', o', by rw [t', t1], by omega⟩

theorem fwdLast_nf {a : Array Nat} {dstLen : Nat} : ∀ (k i : Nat) (s : FSt), 0 < i → i + k ≤ a.size → EncOk s →
    s.enc.out.size + 36 * k ≤ dstLen →
    ∃ s', fwdLast a dstLen k i s = .ok s' ∧ EncOk s' ∧ s'.enc.out.size ≤ s.enc.out.size + 36 * k := by
  intro k
  induction k with
  | zero => intro i s _ _ ho _; exact ⟨s, rfl, ho, by omega⟩
  | succ k ih =>
    intro i s hi0 hik ho hroom
    simp only [fwdLast]
    rw [if_neg (by omega), rd1_eq (by omega : i - 1 < a.size), rd1_eq (by omega : i < a.size)]
    simp only
    obtain ⟨s1, hs1⟩ := encLit9_nf (dstLen := dstLen) (c := a.getD (i - 1) 0) (val := 256 + a.getD i 0) ho (by omega)
    obtain ⟨o1, _, _, _, z2⟩ := encLit9_enc bytes_nil hs1 ho
    rw [hs1]
    simp only
    obtain ⟨s', hs', o', z'⟩ := ih (i + 1) s1 (by omega) (by omega) o1 (by omega)
    exact ⟨s', hs', o', by omega⟩

/-! ## the whole block (one chunk) -/

/-- **ROLZX Forward never faults** on a block that fits one chunk (`len ≤ chunk size + 4`), for every
    `logPosChecks ≤ 8`, every ctx / data type hint, into any destination of at least `MaxEncodedLen` bytes -/
theorem rolzxForward_nf {cs lpc : Nat} {hasCtx : Bool} {dt : Nat} {src : List Nat} {dstLen : Nat}
    (hone : src.length ≤ cs + 4) (hlpc : lpc ≤ 8) (hdst : maxEncodedLen2 src.length ≤ dstLen) :
    ∀ k, rolzxForward cs lpc hasCtx dt src dstLen ≠ .fault k := by
  intro k
  unfold rolzxForward
  split
  · simp
  · split
    · simp
    · rename_i hmin
      split
      · simp
      · split
        · simp
        · dsimp only
          obtain ⟨hpar, hmm3, hmm7, hfl, _⟩ := fwdParams2_spec (effType hasCtx dt src)
          generalize fwdParams2 (effType hasCtx dt src) = prm at hpar hmm3 hmm7 hfl
          have hn : src.toArray.size = src.length := List.size_toArray
          rw [hn]
          have hn64 : 64 ≤ src.length := by unfold MIN_BLOCK_SIZE at hmin; omega
          have hd1088 : 1088 ≤ dstLen := by unfold maxEncodedLen2 at hdst; split at hdst <;> omega
          have hob0 : OutBytes ⟨0, TOP, #[(src.length >>> 24) % 256, (src.length >>> 16) % 256,
              (src.length >>> 8) % 256, src.length % 256, prm.2.2]⟩ :=
            header_getD _ _ _ _ _ (Nat.mod_lt _ (by decide)) (Nat.mod_lt _ (by decide))
              (Nat.mod_lt _ (by decide)) (Nat.mod_lt _ (by decide)) hfl
          -- the only chunk
          simp only [fwdChunks]
          rw [if_pos (by omega : 0 < src.length - 4), if_pos (by omega : 0 + min src.length cs ≥ src.length - 4)]
          have hm8 : min 8 (src.length - 4 - 0) = 8 := by omega
          rw [hm8]
          have ho0 : EncOk ⟨⟨matches0 lpc, Array.replicate HASH_SIZE 0⟩, ⟨0, TOP, #[(src.length >>> 24) % 256,
              (src.length >>> 16) % 256, (src.length >>> 8) % 256, src.length % 256, prm.2.2]⟩, probs0 9,
              probs0 lpc⟩ := ⟨einv_init _, probs0_ok 9, probs0_ok lpc, hob0⟩
          obtain ⟨s1, hs1, o1, t1, z1⟩ := fwdFirst_nf (a := src.toArray) (dstLen := dstLen) (lim := src.length - 4) 8 0 _
            (by omega) ho0 (by show 5 + 36 * 8 ≤ dstLen; omega)
          simp only at t1 z1
          have z1' : s1.enc.out.size ≤ 5 + 36 * 8 := z1
          rw [hs1]
          simp only
          have ht1 : TInv s1.tab lpc 0 (0 + 8) := by
            rw [t1]
            refine ⟨tabOk_clear _ _ (by simp), fun k => ?_⟩
            simp only [matches0, Array.getD_eq_getD_getElem?, Array.getElem?_replicate]
            split <;> simp
          rcases fwdLoop_nf (a := src.toArray) (dstLen := dstLen) (base := 0) (lim := src.length - 4) hpar ⟨hmm3, hmm7⟩ hlpc (by rw [hn]; omega)
            (src.length - 4 - 0 + 1) (0 + 8) s1 (Or.inl (by omega)) (by omega) (by omega) o1 ht1 (by omega) with
            ⟨e, he⟩ | ⟨r, hr, h1, h2, h3, _⟩
          · rw [he]; simp
          · rw [hr]
            simp only
            rw [if_neg (by omega : ¬ src.length - 4 < src.length - 4)]
            simp only
            have hi : r.1 - 0 + (src.length - 4) - (src.length - 4 - 0) = src.length - 4 := by omega
            rw [hi]
            obtain ⟨s', hs', o', z'⟩ := fwdLast_nf (a := src.toArray) (dstLen := dstLen) 4 (src.length - 4) r.2 (by omega)
              (by rw [hn]; omega) h2 (by omega)
            rw [hs']
            simp only
            have hdisp : ∃ out, s'.enc.dispose dstLen = .ok out := by
              unfold Enc.dispose
              rw [if_pos (by omega)]
              exact ⟨_, rfl⟩
            obtain ⟨out, hout⟩ := hdisp
            rw [hout]
            simp only
            split
            · simp
            · split <;> simp

end Kanzi.ROLZ
