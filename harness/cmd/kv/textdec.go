package main

// textdec: correspondence stream for property C03 on the dictionary text transform: the real
// transform.TextCodec.Inverse (delegates textCodec1 / textCodec2) on FORGED input, model
// lean/Kanzi/Model/TextDec.lean (+ Model/Text.lean), driver lean/Kanzi/Drv/TextDec.lean (op grammar there),
// theorems lean/Kanzi/Properties/C03_text.lean.
//
//   td <tc> <bs> <ent> <ver> <dstlen> <data> [<dstlen2> <data2>]
//
// One codec object per op; one or two Inverse calls on it.  Canonical line per call: class
// (ok <len> <bytes|hash> / err:<class> / panic:index / panic:other), dictSize and len(dictList) of the delegate
// after the call (reflection).  Oracles on the real code (independent of the model): the call returns (the
// stream watchdog catches a hang), source untouched, nothing written beyond dst[:len] (canary), written <=
// len(dst) and read <= len(src) also on error, a panic is a run-time bounds error (never another kind),
// dictSize <= 2^19, on a fresh object len(dictMap) == 1<<logHashSize and len(dictList) == dictSize <=
// max(initial size, 2*staticDictSize + (len(src)+1)/2) (theorems C03_text1_alloc_bound / C03_text2_alloc_bound),
// bytes allocated during the call (runtime.MemStats.TotalAlloc) bounded by the
// hash table + a small multiple of the dictionary + the buffers.

import (
	"fmt"
	"math/rand"
	"reflect"
	"runtime"
	"strconv"
	"strings"
	"time"

	"github.com/flanglet/kanzi-go/v2/transform"
)

func init() {
	registerStream(&Stream{
		Name:     "textdec",
		Rule:     "td: real TextCodec.Inverse (codec 1 / codec 2 current and old token format / NewTextCodec()) on forged input, one or two calls on one codec object. Families: valid (real Forward output; dst exact / larger / smaller / 1 / 0), flipmode (every bit of the mode byte, random mode bytes), esc1-* / tok2-* / old2-* (hand-built escape sequences and dictionary indexes: 1, 2, 3-byte forms, non-canonical forms, indexes around the static size 1024/1026, of the two escape entries, of a word defined earlier by the forged input, of a word not yet defined, dictSize-1, dictSize, dictSize+1, 2^19, the largest encodable; codec 2 index 0 in every form, the flip marker 0x80 before every kind of byte), trunc (cut inside / right after an escape, every prefix of a short block), garbage (uniform and token-heavy random bytes), dst (destination 0, 1, too small by 1, exact, larger), grow (forged input that keeps defining new words: dictionary expansion 2^13 -> 2^14 -> ..., thorough: up to the wrap at 2^19; 3-letter words beyond 2^14 words), reuse (two calls on one object: after a wrapper rejection, after a panic, after an expansion with small and large second destinations, expansion twice: len(dictList) > dictSize). distinct_nontrivial = distinct ops whose first call did not decode everything without error.",
		Gen:      tdGen,
		Exec:     tdExec,
		Serial:   true, // the allocation oracle reads runtime.MemStats around each call
		Watchdog: 120 * time.Second,
	})
}

// delegate fields by reflection (read only)
func tdDelegate(t *transform.TextCodec) reflect.Value {
	v := reflect.ValueOf(t).Elem().FieldByName("delegate")
	for v.Kind() == reflect.Interface || v.Kind() == reflect.Ptr {
		v = v.Elem()
	}
	return v
}

func tdInitialDictSize(dstLen int) int {
	if dstLen < 1024 {
		return 1 << 13
	}
	lg := 0
	for x := uint32(dstLen / 128); x > 1; x >>= 1 {
		lg++
	}
	lg = max(min(lg, 18), 13)
	return 1 << lg
}

func tdExec(op string, res *Result) string {
	w := strings.Fields(op)
	if (len(w) != 7 && len(w) != 9) || w[0] != "td" {
		return "bad-op"
	}
	tc, err := strconv.Atoi(w[1])
	if err != nil || tc < 0 || tc > 2 {
		return "bad-op"
	}
	if _, _, ok := textOpt(w[2]); !ok {
		return "bad-op"
	}
	if _, _, ok := textOpt(w[4]); !ok {
		return "bad-op"
	}
	if tc == 0 && (w[2] != "-" || w[3] != "-" || w[4] != "-") {
		return "bad-op"
	}
	type call struct {
		dst  int
		data []byte
	}
	var calls []call
	for k := 5; k+1 < len(w); k += 2 {
		d, err := strconv.Atoi(w[k])
		b, ok := textDec(w[k+1])
		if err != nil || d < 0 || d > 1<<28 || !ok {
			return "bad-op"
		}
		calls = append(calls, call{d, b})
	}
	t, _, err := textNew(tc, w[2], w[3], w[4], "-")
	if err != nil || t == nil {
		return "ctor-error"
	}
	site := "transform.TextCodec.Inverse"
	var toks []string
	fresh := true // reset has never run on this object
	for ci, c := range calls {
		var ms0, ms1 runtime.MemStats
		runtime.ReadMemStats(&ms0)
		o := trCall(t.Inverse, c.data, c.dst)
		runtime.ReadMemStats(&ms1)
		delta := int64(ms1.TotalAlloc - ms0.TotalAlloc)
		dv := tdDelegate(t)
		ds := int(dv.FieldByName("dictSize").Int())
		dl := dv.FieldByName("dictList").Len()
		hsz := 1 << dv.FieldByName("logHashSize").Uint()
		reached := len(c.data) >= 2 && c.dst > 0 && len(c.data) <= 1<<30 // the delegate was called
		// ---- oracles on the real run
		if o.inputMod {
			trViolate(res, site, "input-modified", "source buffer changed by the call")
		}
		if o.canary {
			trViolate(res, site, "dst-overrun", "bytes after dst[:len] were written")
		}
		if o.panicMsg == "" && int(o.written) > c.dst {
			trViolate(res, site, "written>len(dst)", fmt.Sprintf("written=%d len(dst)=%d err=%v", o.written, c.dst, o.err))
		}
		if o.panicMsg == "" && int(o.read) > len(c.data) {
			trViolate(res, site, "read>len(src)", fmt.Sprintf("read=%d len(src)=%d err=%v", o.read, len(c.data), o.err))
		}
		if ds > 1<<19 {
			trViolate(res, site, "dictsize>2^19", fmt.Sprintf("dictSize=%d", ds))
		}
		if reached { // any object state (theorem C03_text_reuse_sizes)
			if dm := dv.FieldByName("dictMap").Len(); dm != hsz || dl < ds {
				trViolate(res, site, "alloc-reuse", fmt.Sprintf("len(dictMap)=%d (1<<logHashSize=%d) len(dictList)=%d dictSize=%d", dm, hsz, dl, ds))
			}
		}
		if fresh && reached {
			ssz := 1026
			if tc == 2 {
				ssz = 1024
			}
			bound := max(tdInitialDictSize(c.dst), 2*ssz+(len(c.data)+1)/2) // theorems C03_text1_alloc_bound / C03_text2_alloc_bound
			if dm := dv.FieldByName("dictMap").Len(); dm != hsz {
				trViolate(res, site, "alloc-dictmap", fmt.Sprintf("len(dictMap)=%d, 1<<logHashSize=%d", dm, hsz))
			}
			if dl != ds || ds > bound {
				trViolate(res, site, "alloc-dictionary", fmt.Sprintf("fresh object: dictSize=%d len(dictList)=%d bound=%d (src %d bytes, dst %d)", ds, dl, bound, len(c.data), c.dst))
			}
		}
		// bytes allocated: hash table (first reset only) + dictionary (make + append growth) + the buffers of trCall
		abound := int64(32*4*max(dl, ds)) + int64(2*(len(c.data)+c.dst)) + 1<<16
		if fresh {
			abound += int64(8 * hsz)
		}
		if delta > abound {
			trViolate(res, site, "alloc-total", fmt.Sprintf("%d bytes allocated by call %d (bound %d; src %d dst %d dictSize %d len(dictList) %d)", delta, ci+1, abound, len(c.data), c.dst, ds, dl))
		}
		if reached {
			fresh = false
		}
		// ---- canonical token
		var tok string
		switch {
		case o.panicMsg != "":
			if strings.HasPrefix(o.panicMsg, "runtime error: index out of range") || strings.HasPrefix(o.panicMsg, "runtime error: slice bounds out of range") {
				tok = "panic:index"
			} else {
				tok = "panic:other"
				trViolate(res, site, "panic-other", o.panicMsg)
			}
			res.Tags = append(res.Tags, "out:"+tok)
		case o.err != nil:
			tok = "err:" + textInvClass(o.err)
			res.Tags = append(res.Tags, "out:"+tok)
		default:
			tok = "ok " + rltOut(o.out)
			res.Tags = append(res.Tags, "out:ok")
		}
		if ci == 0 && !(o.panicMsg == "" && o.err == nil) {
			res.Nontrivial = true
		}
		if ds > tdInitialDictSize(c.dst) {
			res.Tags = append(res.Tags, "dict:expanded")
		}
		if dl > ds {
			res.Tags = append(res.Tags, "dict:len>dictSize(reuse)")
		}
		toks = append(toks, fmt.Sprintf("%s ds=%d dl=%d", tok, ds, dl))
	}
	res.Sample = map[string]any{"op": op[:min(len(op), 160)], "out": strings.Join(toks, " | ")}
	return strings.Join(toks, " | ")
}

// ---- generator

// directed scenarios (also in corpus/C03/textdec.ops)
var tdDirected = []string{
	"td 1 - - - 64 00,41626364204f0f8802 64 006162",                // codec 1: word defined by the input then referenced by its index 1026 (2-byte form)
	"td 1 - - - 64 00,61626364200f8803",                            // index 1027: not yet defined -> err:data
	"td 1 - - - 64 00,61200f",                                      // truncated right after the escape byte -> panic:index
	"td 1 - - - 64 00,61200f88",                                    // truncated inside a 2-byte index
	"td 1 - - - 64 00,61200fe080",                                  // truncated inside a 3-byte index
	"td 1 - - - 64 00,61200fe0c000",                                // 3-byte index 8192 = dictSize -> err:index
	"td 1 - - - 64 00,61200fbf7f41",                                // 2-byte index 8191 = dictSize-1: empty entry -> err:data
	"td 1 - - - 64 00,61200fff7f7f",                                // largest 3-byte index
	"td 1 - - - 64 00,61200f880141",                                // index 1025: the escape entry 0x0F
	"td 1 - - - 5 40,0a0a0a0a0a",                                   // CRLF mode: destination too small -> err:data
	"td 2 - - - 64 00,6120c000",                                    // codec 2: index 0 in the 2-byte form -> dictList[-1]
	"td 2 - - - 64 00,6120f00000",                                  // codec 2: index 0 in the 3-byte form
	"td 2 - - - 64 00,612080",                                      // codec 2: index 0 in the 1-byte form / flip marker at the end
	"td 2 - - - 64 00,61208041",                                    // flip marker followed by a letter (index 0x41-1)
	"td 2 - - 5 64 00,6120c1",                                      // old format: truncated 2-byte token
	"td 2 - - - 64 00,61200f",                                      // codec 2: escape byte at the end
	"td 1 - - - 0 00,6162",                                         // empty destination
	"td 1 - - - 8 41",                                              // 1-byte source: wrapper error
	"td 1 4194304 - - 60000 00,W0:7400:4:20 512 00,61200fe0c00041", // reuse: expansion, then a small destination keeps dictSize 16384
	"td 1 4194304 - - 60000 00,W0:7400:4:20 60000 00,W100000:7400:4:20", // reuse: two expansions, len(dictList) > dictSize
}

func tdGen(r *rand.Rand, tier string, n int, emit func(op string, tags ...string)) {
	thorough := tier == "thorough"
	for _, l := range tdDirected {
		emit(l, "family:directed")
	}
	type cfg struct {
		tc           int
		bs, ent, ver string
	}
	randCfg := func() cfg {
		c := cfg{1 + r.Intn(2), "-", "-", "-"}
		if r.Intn(4) == 0 {
			c.bs = strconv.Itoa([]int{0, 32, 65536, 262144, 1 << 20, 4 << 20}[r.Intn(6)])
		}
		if r.Intn(8) == 0 {
			c.ent = []string{"NONE", "TPAQX", "tpaqx", "ANS0"}[r.Intn(4)]
		}
		if c.tc == 2 && r.Intn(3) == 0 {
			c.ver = strconv.Itoa([]int{6, 7, 5, 3, 0}[r.Intn(5)])
		}
		return c
	}
	td := func(c cfg, b []byte, dst int, fam string) {
		emit(fmt.Sprintf("td %d %s %s %s %d %s", c.tc, c.bs, c.ent, c.ver, max(dst, 0), rltEnc(b)), "family:"+fam)
	}
	td2 := func(c cfg, d1 string, dst1 int, d2 string, dst2 int, fam string) {
		emit(fmt.Sprintf("td %d %s %s %s %d %s %d %s", c.tc, c.bs, c.ent, c.ver, dst1, d1, dst2, d2), "family:"+fam)
	}
	realForward := func(c cfg, b []byte) ([]byte, bool) {
		t, _, err := textNew(c.tc, c.bs, c.ent, "-", "-")
		if err != nil || len(b) == 0 {
			return nil, false
		}
		dst := make([]byte, len(b))
		_, nn, err := t.Forward(append([]byte{}, b...), dst)
		if err != nil {
			return nil, false
		}
		return dst[:nn], true
	}
	prose := func(nb int) []byte {
		st := textStyle{eol: []string{"\n", "\r\n"}[r.Intn(2)], vocab: 3 + r.Intn(40), caseMix: r.Intn(40), esc: r.Intn(3) * 4, hi: r.Intn(2) * 5}
		return textProse(r, nb, st)
	}
	scale := 1
	if thorough {
		scale = 10
	}

	// ---- valid / dst / flipmode / trunc on real encoder output
	for k := 0; k < 60*scale; k++ {
		c := randCfg()
		if c.ver != "-" && c.ver != "6" && c.ver != "7" {
			c.ver = "-"
		}
		b := prose(1024 + r.Intn(1500))
		enc, ok := realForward(c, b)
		if !ok {
			continue
		}
		td(c, enc, len(b), "valid-exact")
		td(c, enc, len(b)+1+r.Intn(200), "valid-larger")
		td(c, enc, len(b)-1-r.Intn(40), "dst-smaller")
		td(c, enc, []int{0, 1, 2, 3, 1023, 1024}[r.Intn(6)], "dst-tiny")
		m := append([]byte{}, enc...)
		m[0] ^= 1 << r.Intn(8)
		td(c, m, len(b)+2, "flipmode-bit")
		m = append([]byte{}, enc...)
		m[0] = byte(r.Intn(256))
		td(c, m, 2*len(b), "flipmode-random")
		for j := 0; j < 3; j++ {
			td(c, enc[:1+r.Intn(len(enc))], len(b), "trunc-valid")
		}
		// cut right behind a token byte
		var cuts []int
		for i := 1; i < len(enc); i++ {
			if (c.tc != 2 && (enc[i] == 0x0F || enc[i] == 0x0E)) || (c.tc == 2 && (enc[i] >= 0x80 || enc[i] == 0x0F)) {
				cuts = append(cuts, i+1)
			}
		}
		for j := 0; j < 3 && len(cuts) > 0; j++ {
			td(c, enc[:cuts[r.Intn(len(cuts))]], len(b), "trunc-in-token")
		}
		// mutated
		for j := 0; j < 4; j++ {
			m := append([]byte{}, enc...)
			for q := 0; q <= r.Intn(3); q++ {
				m[r.Intn(len(m))] = []byte{0, 0x0E, 0x0F, 0x80, 0xC0, 0xFF, 0xE0, 0xF0, 0x88, ' ', 'a', 0x0A, byte(r.Intn(256))}[r.Intn(13)]
			}
			td(c, m, len(b)+r.Intn(3)*300, "mutated")
		}
		// other token format / codec on the same bytes
		c2 := c
		if c.tc == 2 {
			c2.ver = []string{"5", "3", "0"}[r.Intn(3)]
		} else {
			c2.tc = 2
		}
		td(c2, enc, len(b)+1, "other-codec")
	}

	// ---- forged escape sequences and dictionary indexes
	prefixes := [][]byte{[]byte("a "), []byte("abcd "), []byte("abcd efgh ijkl "), []byte("the word "), []byte(" "), []byte("Zz"), {}}
	tails := [][]byte{{}, []byte("a"), []byte(" "), []byte(" xyz "), []byte("qrst uvwx "), {0x0A}}
	idx1 := func(v int, form int) []byte { // codec 1 index in the 1 / 2 / 3 byte form (non-canonical allowed)
		switch form {
		case 1:
			return []byte{byte(v & 0x7F)}
		case 2:
			return []byte{byte(0x80 | ((v >> 7) & 0x7F)), byte(v & 0x7F)}
		}
		return []byte{byte(0xE0 | ((v >> 14) & 0x1F)), byte(0x80 | ((v >> 7) & 0x7F)), byte(v & 0x7F)}
	}
	idx2 := func(wv int, form int) []byte { // codec 2 (current format) stored value w = idx+1
		switch form {
		case 1:
			return []byte{byte(0x80 | (wv & 0x3F))}
		case 2:
			return []byte{byte(0xC0 | ((wv >> 8) & 0x1F)), byte(wv)}
		}
		return []byte{byte(0xF0 | ((wv >> 16) & 0x0F)), byte(wv >> 8), byte(wv)}
	}
	idxVals := []int{0, 1, 2, 63, 64, 127, 128, 129, 1023, 1024, 1025, 1026, 1027, 1028, 1029, 8190, 8191, 8192, 8193, 16383, 16384, 16385, 1<<19 - 1, 1 << 19, 1<<19 + 1, 1<<20 - 1, 1<<21 - 1}
	for rep := 0; rep < scale; rep++ {
		for _, v := range idxVals {
			for form := 1; form <= 3; form++ {
				p := prefixes[r.Intn(len(prefixes))]
				tl := tails[r.Intn(len(tails))]
				mode := []byte{0, 0x40, byte(r.Intn(256))}[r.Intn(3)]
				esc := []byte{0x0F, 0x0E}[r.Intn(2)]
				b := append(append(append([]byte{mode}, p...), esc), idx1(v, form)...)
				b = append(b, tl...)
				td(cfg{1, "-", "-", "-"}, b, []int{64, 64, 8, len(b), 2000, 300000}[r.Intn(6)], "esc1-index")
				b = append(append([]byte{mode}, p...), idx2(v, form)...)
				if r.Intn(3) == 0 {
					b = append(append([]byte{mode}, p...), append([]byte{0x80}, idx2(v, form)...)...)
				}
				b = append(b, tl...)
				td(cfg{2, "-", "-", "-"}, b, []int{64, 64, 8, len(b), 2000, 300000}[r.Intn(6)], "tok2-index")
				// old format: token byte 1xfiiiii, x = more bytes
				var ob []byte
				switch form {
				case 1:
					ob = []byte{byte(0x80 | (v & 0x1F) | (r.Intn(2) << 5))}
				case 2:
					ob = []byte{byte(0xC0 | ((v >> 7) & 0x1F) | (r.Intn(2) << 5)), byte(v & 0x7F)}
				default:
					ob = []byte{byte(0xC0 | ((v >> 14) & 0x1F) | (r.Intn(2) << 5)), byte(0x80 | ((v >> 7) & 0x7F)), byte(v & 0x7F)}
				}
				b = append(append(append([]byte{mode}, p...), ob...), tl...)
				td(cfg{2, "-", "-", []string{"5", "3", "0"}[r.Intn(3)]}, b, []int{64, 64, 8, len(b), 2000}[r.Intn(5)], "old2-index")
			}
		}
		// the flip marker 0x80 of codec 2 before every byte value
		for v := 0; v < 256; v += 1 + r.Intn(3) {
			b := []byte{0, 'a', ' ', 0x80, byte(v), 'b', 'c', ' '}
			td(cfg{2, "-", "-", "-"}, b[:4+r.Intn(5)], 64, "tok2-flip")
		}
	}
	// every prefix of short forged blocks (truncation inside an escape)
	for _, s := range [][]byte{
		{0, 'a', 'b', 'c', 'd', ' ', 0x0F, 0xE0, 0x88, 0x02, ' ', 0x0E, 0x88, 0x02, 0x0F, 0x05},
		{0x40, 'a', 0x0A, 0x0F, 0x88, 0x01, 0x0E, 0x88, 0x00, 0x0A},
	} {
		for l := 1; l <= len(s); l++ {
			td(cfg{1, "-", "-", "-"}, s[:l], 64, "trunc-prefix")
			td(cfg{1, "-", "-", "-"}, s[:l], l, "trunc-prefix")
		}
	}
	for _, s := range [][]byte{
		{0, 'a', 'b', 'c', 'd', ' ', 0xC4, 0x01, ' ', 0x80, 0xC4, 0x01, 0xF0, 0x04, 0x01, 0x0F, 0x90, 0x85},
		{0x40, 'a', 0x0A, 0x0F, 0x0D, 0x0A, 0x81, 0x80, 0x82, 0x0A},
	} {
		for l := 1; l <= len(s); l++ {
			td(cfg{2, "-", "-", "-"}, s[:l], 64, "trunc-prefix")
			td(cfg{2, "-", "-", "5"}, s[:l], 64, "trunc-prefix")
		}
	}

	// ---- garbage
	alph := []byte{0x0F, 0x0E, 0x80, 0x81, 0xC0, 0xC4, 0xE0, 0xF0, 0xFF, 0x88, ' ', ' ', ' ', 'a', 'b', 'c', 'd', 'e', 'T', 0x0A, 0x0D, 0, 1, 0x7F, '_'}
	for k := 0; k < 500*scale; k++ {
		c := randCfg()
		l := 1 + r.Intn(40)
		if r.Intn(4) == 0 {
			l = 2 + r.Intn(600)
		}
		b := make([]byte, l)
		uniform := r.Intn(3) == 0
		for i := range b {
			if uniform {
				b[i] = byte(r.Intn(256))
			} else {
				b[i] = alph[r.Intn(len(alph))]
			}
		}
		fam := "garbage-tokens"
		if uniform {
			fam = "garbage-uniform"
		}
		td(c, b, []int{l, 2 * l, 64, 1000, 1 + r.Intn(2*l+2), 5000}[r.Intn(6)], fam)
	}

	// ---- grow: forged input that keeps defining new words
	type g struct {
		words, wl int
		dst      int // 0: just large enough
	}
	gs := []g{{7100, 4, 0}, {7166, 4, 0}, {7180, 4, 0}, {7200, 4, 0}, {7250, 4, 0}, {7400, 5, 0}, {9000, 4, 0}, {16000, 4, 0}, {16000, 4, 3 << 20}, {17500, 3, 0}, {24000, 5, 0}}
	if thorough {
		gs = append(gs, g{70000, 5, 0}, g{270000, 5, 0}, g{530000, 5, 0}, g{600000, 6, 0}, g{600000, 6, 600 << 20 >> 4})
	}
	for _, x := range gs {
		for _, tc := range []int{1, 2} {
			dst := x.dst
			if dst == 0 {
				dst = 1 + x.words*(x.wl+1) + 10
			}
			st := r.Intn(1000)
			data := fmt.Sprintf("00,W%d:%d:%d:20", st, x.words, x.wl)
			bs := "4194304" // hash table 2^19 (codec 1) / 2^17 (codec 2): a word is only learnt into a FREE hash slot
			if x.words > 60000 {
				bs = "134217728"
			}
			if x.words < 7200 && r.Intn(2) == 0 {
				bs = "-" // 2^13 slots: the dictionary cannot fill up
			}
			emit(fmt.Sprintf("td %d %s - - %d %s", tc, bs, dst, data), "family:grow")
			// ... followed by a reference to the last / a middle / a not yet defined word
			ssz := 1026
			if tc == 2 {
				ssz = 1024
			}
			for _, v := range []int{ssz + x.words - 1, ssz + x.words/2, ssz + x.words, 8191, 8192, 16384} {
				var tok []byte
				if tc == 1 {
					tok = append([]byte{0x0F}, idx1(v, 3)...)
				} else {
					tok = idx2(v+1, 3)
				}
				emit(fmt.Sprintf("td %d %s - - %d %s,%s", tc, bs, dst+40, data, rltEnc(tok)), "family:grow-ref")
			}
		}
	}

	// ---- reuse: two calls on one object
	for k := 0; k < 40*scale; k++ {
		c := randCfg()
		first := []string{"41", "-", "00,61200f", "00,6120c000", "00,W0:7400:4:20", "00,W0:7400:4:20", "00,W5:16500:4:20", "00,616263642065666768200f8802"}[r.Intn(8)]
		dst1 := []int{0, 8, 64, 60000, 200000}[r.Intn(5)]
		if strings.Contains(first, "W") {
			c.bs = "4194304"
			dst1 = []int{60000, 200000, 3 << 20}[r.Intn(3)]
		}
		var second string
		var dst2 int
		switch r.Intn(5) {
		case 0:
			b := prose(1024 + r.Intn(600))
			enc, ok := realForward(cfg{c.tc, c.bs, c.ent, "-"}, b)
			if !ok {
				continue
			}
			second, dst2 = rltEnc(enc), len(b)+r.Intn(2)
		case 1:
			v := []int{1026, 5000, 8191, 8192, 9000, 16383, 16384, 40000}[r.Intn(8)]
			tok := append([]byte{0, 'a', ' ', 0x0F}, idx1(v, 3)...)
			if c.tc == 2 {
				tok = append([]byte{0, 'a', ' '}, idx2(v+1, 3)...)
			}
			second, dst2 = rltEnc(tok), []int{64, 512, 1023, 1024, 5000}[r.Intn(5)]
		case 2:
			second, dst2 = fmt.Sprintf("00,W%d:%d:4:20", 20000+r.Intn(1000), []int{100, 7400, 9000, 16500}[r.Intn(4)]), 100000
		case 3:
			second, dst2 = first, dst1
		default:
			second, dst2 = "00,61626364200f8802", 64
		}
		td2(c, first, dst1, second, dst2, "reuse")
	}
	if thorough { // NewTextCodec(): hash table of 2^24 pointers
		td(cfg{0, "-", "-", "-"}, []byte{0, 'a', 'b', 'c', 'd', ' ', 0x0F, 0x88, 0x02}, 64, "newtextcodec")
		td(cfg{0, "-", "-", "-"}, []byte{0, 'a', ' ', 0x0F}, 64, "newtextcodec")
	}
}
