/-
Proofs for the Huffman codec, part 3d: the fast path of `limitCodeLengths`.  Starting from
lengths that satisfy Kraft's equality and are non increasing along `ranks`, the fold / queue /
repay / adjust steps never fault, keep every length in [1, 12], and keep the invariant
    Kraft sum (units 2^-256)  ≤  2^256 + debt * 2^244
so that `debt = 0` at the end implies Kraft's inequality for the limited lengths.
-/
import Kanzi.Model.Huffman
import Kanzi.Proofs.EntSmall
import Kanzi.Proofs.HufLengths
import Kanzi.Proofs.HufCanon
import Mathlib.Data.List.Perm.Basic
import Mathlib.Data.List.Nodup
import Mathlib.Tactic.Ring

namespace Kanzi.Huffman
open Kanzi.EntSmall

/-- Kraft sum of the symbols `l` in units of `2^-M` -/
def kraftM (M : Nat) (sizes l : List Nat) : Nat := wsum M (lensOf sizes l)

theorem lensOf_set_notin (sizes : List Nat) (r v : Nat) : ∀ (l : List Nat), r ∉ l →
    lensOf (sizes.set r v) l = lensOf sizes l := by
  intro l hr
  unfold lensOf
  apply List.map_congr_left
  intro x hx
  exact getD_set_ne _ _ _ _ (fun h => hr (h ▸ hx))

theorem kraftM_cons (M : Nat) (sizes : List Nat) (s : Nat) (l : List Nat) :
    kraftM M sizes (s :: l) = 2 ^ (M - sizes.getD s 0) + kraftM M sizes l := by
  simp [kraftM, lensOf, wsum]

theorem kraftM_set (M : Nat) (sizes : List Nat) (r v : Nat) (hr : r < sizes.length) : ∀ (l : List Nat),
    l.Nodup → r ∈ l →
    kraftM M (sizes.set r v) l + 2 ^ (M - sizes.getD r 0) = kraftM M sizes l + 2 ^ (M - v) := by
  intro l
  induction l with
  | nil => intro _ h; cases h
  | cons x xs ih =>
    intro hnd hm
    have hnd' := List.nodup_cons.mp hnd
    rw [kraftM_cons, kraftM_cons]
    by_cases hx : r = x
    · subst hx
      rw [getD_set_self _ _ _ hr]
      have : kraftM M (sizes.set r v) xs = kraftM M sizes xs := by
        unfold kraftM; rw [lensOf_set_notin _ _ _ _ hnd'.1]
      rw [this]; omega
    · have hm' : r ∈ xs := by
        rcases List.mem_cons.mp hm with h | h
        · exact absurd h hx
        · exact h
      rw [getD_set_ne _ _ _ _ hx]
      have := ih hnd'.2 hm'
      omega

theorem kraftM_perm (M : Nat) (sizes : List Nat) {l1 l2 : List Nat} (h : l1.Perm l2) :
    kraftM M sizes l1 = kraftM M sizes l2 := by
  unfold kraftM wsum lensOf
  exact ((h.map _).map _).sum_nat

/-- `u` = 2^-12 in units of 2^-256 -/
def unit12 : Nat := 2 ^ 244

theorem pow_split (L : Nat) (h : L ≤ 12) : 2 ^ (256 - L) = 2 ^ (12 - L) * unit12 := by
  unfold unit12
  rw [← Nat.pow_add]; congr 1; omega

/-- with all lengths at most 12 the two Kraft sums differ by the factor 2^244 -/
theorem kraftM_eq_kraft12 (sizes : List Nat) : ∀ (l : List Nat), (∀ s ∈ l, sizes.getD s 0 ≤ 12) →
    kraftM 256 sizes l = kraft12 sizes l * unit12 := by
  intro l
  induction l with
  | nil => intro _; simp [kraftM, lensOf, wsum, kraft12]
  | cons s ss ih =>
    intro h
    rw [kraftM_cons, kraft12_cons, ih (fun x hx => h x (List.mem_cons_of_mem _ hx)),
      pow_split _ (h s List.mem_cons_self), slotW]
    ring

/-! ### "Fold over-the-limit sizes" -/

/-- the context shared by all steps: distinct symbols inside the table -/
structure RanksOk (sizes ranks : List Nat) : Prop where
  nodup : ranks.Nodup
  lt : ∀ s ∈ ranks, s < sizes.length

theorem foldOver_spec (ranks : List Nat) : ∀ (l pre sizes : List Nat) (debt : Nat),
    ranks = pre ++ l → RanksOk sizes ranks →
    (∃ s ∈ l, sizes.getD s 0 < 12) → (lensOf sizes l).Pairwise (· ≥ ·) →
    (∀ s ∈ pre, sizes.getD s 0 ≤ 12) → (∀ s ∈ ranks, 1 ≤ sizes.getD s 0) →
    ∃ sizes' debt' rest, foldOver sizes l debt = some (sizes', debt', rest) ∧
      sizes'.length = sizes.length ∧ (∃ pre', ranks = pre' ++ rest) ∧
      (∀ x, x ∉ ranks → sizes'.getD x 0 = sizes.getD x 0) ∧
      (∀ s ∈ ranks, 1 ≤ sizes'.getD s 0 ∧ sizes'.getD s 0 ≤ 12) ∧
      (∀ s ∈ rest, sizes'.getD s 0 < 12) ∧
      kraftM 256 sizes' ranks + debt * unit12 ≤ kraftM 256 sizes ranks + debt' * unit12 := by
  intro l
  induction l with
  | nil => intro pre sizes debt _ _ h; obtain ⟨s, hs, _⟩ := h; cases hs
  | cons r rs ih =>
    intro pre sizes debt hr hok hex hmono hpre hpos
    have hrm : r ∈ ranks := by rw [hr]; exact List.mem_append_right _ List.mem_cons_self
    have hnd : (pre ++ r :: rs).Nodup := hr ▸ hok.nodup
    have hr_notin : r ∉ rs := by
      have := (List.nodup_append.mp hnd).2.1
      exact (List.nodup_cons.mp this).1
    simp only [foldOver]
    by_cases hge : sizes.getD r 0 ≥ 12
    · rw [if_pos hge]
      have hrl : r < sizes.length := hok.lt r hrm
      have hok' : RanksOk (sizes.set r 12) ranks := ⟨hok.nodup, fun s hs => by rw [List.length_set]; exact hok.lt s hs⟩
      obtain ⟨s, hs, hslt⟩ := hex
      have hsr : s ≠ r := fun h => by subst h; omega
      have hs' : s ∈ rs := by
        rcases List.mem_cons.mp hs with h | h
        · exact absurd h hsr
        · exact h
      have hmono' : (lensOf (sizes.set r 12) rs).Pairwise (· ≥ ·) := by
        rw [lensOf_set_notin _ _ _ _ hr_notin]
        simp only [lensOf, List.map_cons, List.pairwise_cons] at hmono
        exact hmono.2
      obtain ⟨sizes', debt', rest, hf, hlen, hsuf, hframe, hrange, hrest, hk⟩ :=
        ih (pre ++ [r]) (sizes.set r 12) (debt + (sizes.getD r 0 - 12)) (by rw [hr]; simp) hok'
          ⟨s, hs', by rw [getD_set_ne _ _ _ _ (Ne.symm hsr)]; exact hslt⟩ hmono'
          (fun x hx => by
            rcases List.mem_append.mp hx with h | h
            · by_cases hxr : x = r
              · subst hxr; rw [getD_set_self _ _ _ hrl]
              · rw [getD_set_ne _ _ _ _ (Ne.symm hxr)]; exact hpre x h
            · have : x = r := by simpa using h
              subst this; rw [getD_set_self _ _ _ hrl])
          (fun x hx => by
            by_cases hxr : x = r
            · subst hxr; rw [getD_set_self _ _ _ hrl]; omega
            · rw [getD_set_ne _ _ _ _ (Ne.symm hxr)]; exact hpos x hx)
      refine ⟨sizes', debt', rest, hf, by rw [hlen, List.length_set], hsuf, ?_, hrange, hrest, ?_⟩
      · intro x hx
        rw [hframe x hx]
        exact getD_set_ne _ _ _ _ (fun h => hx (h ▸ hrm))
      · have hks := kraftM_set 256 sizes r 12 hrl ranks hok.nodup hrm
        have hu : (2 : Nat) ^ (256 - 12) = unit12 := by unfold unit12; norm_num
        rw [hu] at hks
        have hd : (debt + (sizes.getD r 0 - 12)) * unit12 = debt * unit12 + (sizes.getD r 0 - 12) * unit12 :=
          Nat.add_mul _ _ _
        by_cases h12 : sizes.getD r 0 = 12
        · rw [h12] at hks hd hk
          rw [hu] at hks
          simp only [Nat.sub_self, Nat.zero_mul, Nat.add_zero] at hd hk
          generalize unit12 = u at hks hk ⊢
          omega
        · have : unit12 ≤ (sizes.getD r 0 - 12) * unit12 := Nat.le_mul_of_pos_left _ (by omega)
          generalize unit12 = u at hks hk hd this ⊢
          generalize 2 ^ (256 - sizes.getD r 0) = f at hks
          omega
    · rw [if_neg hge]
      refine ⟨sizes, debt, r :: rs, rfl, rfl, ⟨pre, hr⟩, fun _ _ => rfl, ?_, ?_, Nat.le_refl _⟩
      · have hall : ∀ s ∈ r :: rs, sizes.getD s 0 < 12 := by
          intro s hs
          rcases List.mem_cons.mp hs with h | h
          · subst h; omega
          · simp only [lensOf, List.map_cons, List.pairwise_cons] at hmono
            have := hmono.1 (sizes.getD s 0) (List.mem_map.mpr ⟨s, h, rfl⟩)
            omega
        intro s hs
        refine ⟨hpos s hs, ?_⟩
        rw [hr] at hs
        rcases List.mem_append.mp hs with h | h
        · exact hpre s h
        · exact Nat.le_of_lt (hall s h)
      · intro s hs
        rcases List.mem_cons.mp hs with h | h
        · subst h; omega
        · simp only [lensOf, List.map_cons, List.pairwise_cons] at hmono
          have := hmono.1 (sizes.getD s 0) (List.mem_map.mpr ⟨s, h, rfl⟩)
          omega

/-! ### the queues -/

theorem getD_set_list (q : List (List Nat)) (i j : Nat) (v : List Nat) :
    (q.set i v).getD j [] = if i = j ∧ i < q.length then v else q.getD j [] := by
  simp only [List.getD_eq_getElem?_getD, List.getElem?_set]
  by_cases hij : i = j
  · subst hij
    by_cases hi : i < q.length
    · simp [hi]
    · simp [hi]
  · simp [hij]

/-- every queue holds distinct symbols of `all`, of length `11 - idx` -/
structure QOk (sizes all : List Nat) (q : List (List Nat)) : Prop where
  len : q.length = 6
  nodup : ∀ idx, idx < 6 → (q.getD idx []).Nodup
  mem : ∀ idx, idx < 6 → ∀ r ∈ q.getD idx [], r ∈ all ∧ sizes.getD r 0 + idx = 11

theorem enqueue_spec (sizes all : List Nat) (debt : Nat) : ∀ (l : List Nat) (q : List (List Nat)),
    l.Nodup → (∀ x ∈ l, x ∈ all ∧ sizes.getD x 0 < 12) → QOk sizes all q →
    (∀ idx, idx < 6 → ∀ x ∈ q.getD idx [], x ∉ l) →
    QOk sizes all (enqueue sizes l debt q) := by
  intro l
  induction l with
  | nil => intro q _ _ h _; exact h
  | cons r rs ih =>
    intro q hnd hl hq hnot
    have hnd' := List.nodup_cons.mp hnd
    simp only [enqueue]
    split
    · exact hq
    · rename_i hc
      have hrl := hl r List.mem_cons_self
      have hidx : (11 + 256 - sizes.getD r 0) % 256 = 11 - sizes.getD r 0 := by omega
      rw [hidx] at hc ⊢
      have hi5 : 11 - sizes.getD r 0 ≤ 5 := by omega
      refine ih _ hnd'.2 (fun x hx => hl x (List.mem_cons_of_mem _ hx)) ⟨by rw [List.length_set]; exact hq.len, ?_, ?_⟩ ?_
      · intro idx hidx6
        rw [getD_set_list]
        split
        · rename_i he
          rw [List.nodup_append]
          refine ⟨hq.nodup _ (by omega), List.nodup_singleton r, ?_⟩
          intro a ha b hb
          have : b = r := by simpa using hb
          subst this
          intro hab; subst hab
          exact hnot _ (by omega) a ha List.mem_cons_self
        · exact hq.nodup idx hidx6
      · intro idx hidx6 x hx
        rw [getD_set_list] at hx
        split at hx
        · rename_i he
          rcases List.mem_append.mp hx with h | h
          · exact hq.mem idx hidx6 x (he.1 ▸ h)
          · have : x = r := by simpa using h
            subst this
            exact ⟨hrl.1, by omega⟩
        · exact hq.mem idx hidx6 x hx
      · intro idx hidx6 x hx
        rw [getD_set_list] at hx
        split at hx
        · rename_i he
          rcases List.mem_append.mp hx with h | h
          · exact fun hm => hnot _ (by omega) x h (List.mem_cons_of_mem _ hm)
          · have : x = r := by simpa using h
            subst this
            exact hnd'.1
        · exact fun hm => hnot idx hidx6 x hx (List.mem_cons_of_mem _ hm)

/-! ### one level of "Repay bit debt" / "Adjust if necessary" -/

/-- what one level does: it pops a prefix `popped` of the queue, lengthens exactly these
    symbols by one bit, and keeps the Kraft / debt invariant -/
structure PopRes (sizes ranks l : List Nat) (debt : Nat) (res : List Nat × Nat × List Nat) : Prop where
  split : ∃ popped, l = popped ++ res.1 ∧
    (∀ x, x ∉ popped → res.2.2.getD x 0 = sizes.getD x 0) ∧
    (∀ x ∈ popped, res.2.2.getD x 0 = sizes.getD x 0 + 1)
  len : res.2.2.length = sizes.length
  kraft : kraftM 256 res.2.2 ranks ≤ 2 ^ 256 + res.2.1 * unit12

theorem pop_kraft (sizes ranks : List Nat) (r idx debt : Nat) (hok : RanksOk sizes ranks) (hr : r ∈ ranks)
    (hsz : sizes.getD r 0 + idx = 11)
    (hk : kraftM 256 sizes ranks ≤ 2 ^ 256 + debt * unit12) :
    kraftM 256 (sizes.set r ((sizes.getD r 0 + 1) % 256)) ranks ≤ 2 ^ 256 + (debt - 2 ^ idx) * unit12 := by
  have hks := kraftM_set 256 sizes r ((sizes.getD r 0 + 1) % 256) (hok.lt r hr) ranks hok.nodup hr
  rw [Nat.mod_eq_of_lt (by omega)] at hks ⊢
  have e1 : 2 ^ (256 - sizes.getD r 0) = 2 * (2 ^ idx * unit12) := by
    unfold unit12
    rw [← Nat.pow_add, ← Nat.pow_succ']; congr 1; omega
  have e2 : 2 ^ (256 - (sizes.getD r 0 + 1)) = 2 ^ idx * unit12 := by
    unfold unit12
    rw [← Nat.pow_add]; congr 1; omega
  rw [e1, e2] at hks
  by_cases hd : debt < 2 ^ idx
  · have : debt * unit12 ≤ 2 ^ idx * unit12 := Nat.mul_le_mul_right _ (Nat.le_of_lt hd)
    rw [show debt - 2 ^ idx = 0 by omega, Nat.zero_mul]
    omega
  · have : (debt - 2 ^ idx) * unit12 + 2 ^ idx * unit12 = debt * unit12 := by
      rw [← Nat.add_mul, Nat.sub_add_cancel (by omega)]
    omega

theorem repay_spec (ranks : List Nat) (idx : Nat) : ∀ (l : List Nat) (debt : Nat) (sizes : List Nat),
    RanksOk sizes ranks → l.Nodup → (∀ r ∈ l, r ∈ ranks ∧ sizes.getD r 0 + idx = 11) →
    kraftM 256 sizes ranks ≤ 2 ^ 256 + debt * unit12 →
    PopRes sizes ranks l debt (repay idx l debt sizes) := by
  intro l
  induction l with
  | nil => intro debt sizes _ _ _ hk; exact ⟨⟨[], rfl, fun _ _ => rfl, fun _ h => by cases h⟩, rfl, hk⟩
  | cons r rest ih =>
    intro debt sizes hok hnd hl hk
    have hnd' := List.nodup_cons.mp hnd
    have hr := hl r List.mem_cons_self
    simp only [repay]
    split
    · exact ⟨⟨[], rfl, fun _ _ => rfl, fun _ h => by cases h⟩, rfl, hk⟩
    · have hrl := hok.lt r hr.1
      have hok' : RanksOk (sizes.set r ((sizes.getD r 0 + 1) % 256)) ranks :=
        ⟨hok.nodup, fun s hs => by rw [List.length_set]; exact hok.lt s hs⟩
      have := ih (debt - 2 ^ idx) (sizes.set r ((sizes.getD r 0 + 1) % 256)) hok' hnd'.2
        (fun x hx => by
          have hxr : r ≠ x := fun h => hnd'.1 (h ▸ hx)
          rw [getD_set_ne _ _ _ _ hxr]; exact hl x (List.mem_cons_of_mem _ hx))
        (pop_kraft sizes ranks r idx debt hok hr.1 hr.2 hk)
      obtain ⟨⟨popped, hsp, hfr, hpp⟩, hlen, hkr⟩ := this
      refine ⟨⟨r :: popped, by simp only [List.cons_append]; exact congrArg _ hsp, ?_, ?_⟩, by rw [hlen, List.length_set], hkr⟩
      · intro x hx
        rw [hfr x (fun h => hx (List.mem_cons_of_mem _ h))]
        exact getD_set_ne _ _ _ _ (fun h => hx (h ▸ List.mem_cons_self))
      · intro x hx
        rcases List.mem_cons.mp hx with h | h
        · subst h
          have : x ∉ popped := fun hm => hnd'.1 (by rw [hsp]; exact List.mem_append_left _ hm)
          rw [hfr x this, getD_set_self _ _ _ hrl]
          omega
        · have hxr : r ≠ x := fun he => hnd'.1 (by rw [hsp]; exact List.mem_append_left _ (he ▸ h))
          rw [hpp x h, getD_set_ne _ _ _ _ hxr]

theorem adjust_spec (ranks : List Nat) (idx : Nat) : ∀ (l : List Nat) (debt : Nat) (sizes : List Nat),
    RanksOk sizes ranks → l.Nodup → (∀ r ∈ l, r ∈ ranks ∧ sizes.getD r 0 + idx = 11) →
    kraftM 256 sizes ranks ≤ 2 ^ 256 + debt * unit12 →
    PopRes sizes ranks l debt (adjust idx l debt sizes) := by
  intro l
  induction l with
  | nil => intro debt sizes _ _ _ hk; exact ⟨⟨[], rfl, fun _ _ => rfl, fun _ h => by cases h⟩, rfl, hk⟩
  | cons r rest ih =>
    intro debt sizes hok hnd hl hk
    have hnd' := List.nodup_cons.mp hnd
    have hr := hl r List.mem_cons_self
    simp only [adjust]
    split
    · exact ⟨⟨[], rfl, fun _ _ => rfl, fun _ h => by cases h⟩, rfl, hk⟩
    · have hrl := hok.lt r hr.1
      have hok' : RanksOk (sizes.set r ((sizes.getD r 0 + 1) % 256)) ranks :=
        ⟨hok.nodup, fun s hs => by rw [List.length_set]; exact hok.lt s hs⟩
      have := ih (debt - 2 ^ idx) (sizes.set r ((sizes.getD r 0 + 1) % 256)) hok' hnd'.2
        (fun x hx => by
          have hxr : r ≠ x := fun h => hnd'.1 (h ▸ hx)
          rw [getD_set_ne _ _ _ _ hxr]; exact hl x (List.mem_cons_of_mem _ hx))
        (pop_kraft sizes ranks r idx debt hok hr.1 hr.2 hk)
      obtain ⟨⟨popped, hsp, hfr, hpp⟩, hlen, hkr⟩ := this
      refine ⟨⟨r :: popped, by simp only [List.cons_append]; exact congrArg _ hsp, ?_, ?_⟩, by rw [hlen, List.length_set], hkr⟩
      · intro x hx
        rw [hfr x (fun h => hx (List.mem_cons_of_mem _ h))]
        exact getD_set_ne _ _ _ _ (fun h => hx (h ▸ List.mem_cons_self))
      · intro x hx
        rcases List.mem_cons.mp hx with h | h
        · subst h
          have : x ∉ popped := fun hm => hnd'.1 (by rw [hsp]; exact List.mem_append_left _ hm)
          rw [hfr x this, getD_set_self _ _ _ hrl]
          omega
        · have hxr : r ≠ x := fun he => hnd'.1 (by rw [hsp]; exact List.mem_append_left _ (he ▸ h))
          rw [hpp x h, getD_set_ne _ _ _ _ hxr]

/-! ### all levels -/

/-- the state between two levels -/
structure LvInv (ranks : List Nat) (q : List (List Nat)) (debt : Nat) (sizes : List Nat) : Prop where
  ok : RanksOk sizes ranks
  q : QOk sizes ranks q
  range : ∀ s ∈ ranks, 1 ≤ sizes.getD s 0 ∧ sizes.getD s 0 ≤ 12
  kraft : kraftM 256 sizes ranks ≤ 2 ^ 256 + debt * unit12

/-- one level keeps the invariant, for any level function with the `PopRes` behaviour -/
theorem level_step (ranks : List Nat) (idx : Nat) (hidx : idx < 6) (q : List (List Nat)) (debt : Nat)
    (sizes : List Nat) (res : List Nat × Nat × List Nat) (h : LvInv ranks q debt sizes)
    (hres : PopRes sizes ranks (q.getD idx []) debt res) :
    LvInv ranks (q.set idx res.1) res.2.1 res.2.2 ∧ res.2.2.length = sizes.length ∧
    (∀ x, x ∉ ranks → res.2.2.getD x 0 = sizes.getD x 0) := by
  obtain ⟨⟨popped, hsp, hfr, hpp⟩, hlen, hkr⟩ := hres
  have hndq := h.q.nodup idx hidx
  rw [hsp] at hndq
  have hpm : ∀ x ∈ popped, x ∈ ranks ∧ sizes.getD x 0 + idx = 11 := fun x hx =>
    h.q.mem idx hidx x (by rw [hsp]; exact List.mem_append_left _ hx)
  refine ⟨⟨⟨h.ok.nodup, fun s hs => by rw [hlen]; exact h.ok.lt s hs⟩,
    ⟨by rw [List.length_set]; exact h.q.len, ?_, ?_⟩, ?_, hkr⟩, hlen, ?_⟩
  · intro j hj
    rw [getD_set_list]
    split
    · exact (List.nodup_append.mp hndq).2.1
    · exact h.q.nodup j hj
  · intro j hj x hx
    rw [getD_set_list] at hx
    split at hx
    · rename_i he
      have hx' : x ∈ q.getD idx [] := by rw [hsp]; exact List.mem_append_right _ hx
      have hxp : x ∉ popped := fun hm => (List.nodup_append.mp hndq).2.2 x hm x hx rfl
      have := h.q.mem idx hidx x hx'
      rw [hfr x hxp, ← he.1]
      exact this
    · rename_i hne
      have hjm := h.q.mem j hj x hx
      have hxp : x ∉ popped := fun hm => by
        have := hpm x hm
        have hji : idx = j := by omega
        exact hne ⟨hji, by rw [h.q.len]; exact hidx⟩
      rw [hfr x hxp]; exact hjm
  · intro s hs
    by_cases hsp' : s ∈ popped
    · rw [hpp s hsp']
      have := hpm s hsp'
      omega
    · rw [hfr s hsp']; exact h.range s hs
  · intro x hx
    exact hfr x (fun hm => hx (hpm x hm).1)

theorem repayLevels_spec (ranks : List Nat) : ∀ (is : List Nat) (q : List (List Nat)) (debt : Nat) (sizes : List Nat),
    (∀ i ∈ is, i < 6) → LvInv ranks q debt sizes →
    LvInv ranks (repayLevels is q debt sizes).1 (repayLevels is q debt sizes).2.1 (repayLevels is q debt sizes).2.2 ∧
    (repayLevels is q debt sizes).2.2.length = sizes.length ∧
    (∀ x, x ∉ ranks → (repayLevels is q debt sizes).2.2.getD x 0 = sizes.getD x 0) := by
  intro is
  induction is with
  | nil => intro q debt sizes _ h; exact ⟨h, rfl, fun _ _ => rfl⟩
  | cons idx is ih =>
    intro q debt sizes hi h
    have hidx := hi idx List.mem_cons_self
    simp only [repayLevels]
    have hres := repay_spec ranks idx (q.getD idx []) debt sizes h.ok (h.q.nodup idx hidx) (h.q.mem idx hidx) h.kraft
    obtain ⟨h1, h2, h3⟩ := level_step ranks idx hidx q debt sizes _ h hres
    obtain ⟨g1, g2, g3⟩ := ih _ _ _ (fun i hi' => hi i (List.mem_cons_of_mem _ hi')) h1
    exact ⟨g1, by rw [g2, h2], fun x hx => by rw [g3 x hx, h3 x hx]⟩

theorem adjustLevels_spec (ranks : List Nat) : ∀ (is : List Nat) (q : List (List Nat)) (debt : Nat) (sizes : List Nat),
    (∀ i ∈ is, i < 6) → LvInv ranks q debt sizes →
    LvInv ranks (adjustLevels is q debt sizes).1 (adjustLevels is q debt sizes).2.1 (adjustLevels is q debt sizes).2.2 ∧
    (adjustLevels is q debt sizes).2.2.length = sizes.length ∧
    (∀ x, x ∉ ranks → (adjustLevels is q debt sizes).2.2.getD x 0 = sizes.getD x 0) := by
  intro is
  induction is with
  | nil => intro q debt sizes _ h; exact ⟨h, rfl, fun _ _ => rfl⟩
  | cons idx is ih =>
    intro q debt sizes hi h
    have hidx := hi idx List.mem_cons_self
    simp only [adjustLevels]
    have hres := adjust_spec ranks idx (q.getD idx []) debt sizes h.ok (h.q.nodup idx hidx) (h.q.mem idx hidx) h.kraft
    obtain ⟨h1, h2, h3⟩ := level_step ranks idx hidx q debt sizes _ h hres
    obtain ⟨g1, g2, g3⟩ := ih _ _ _ (fun i hi' => hi i (List.mem_cons_of_mem _ hi')) h1
    exact ⟨g1, by rw [g2, h2], fun x hx => by rw [g3 x hx, h3 x hx]⟩

/-! ### the whole fast path -/

theorem replicate6_getD (idx : Nat) : (List.replicate 6 ([] : List Nat)).getD idx [] = [] := by
  rw [List.getD_eq_getElem?_getD, List.getElem?_replicate]
  split <;> rfl

/-- **fast path of `limitCodeLengths`.**  `sizes` / `ranks` as left by `computeCodeLengths`
    (at most 256 symbols): no fault, lengths in [1, 12], nothing else touched, and the Kraft sum
    exceeds 1 by at most `d2` (the debt left after the second loop) units of 2^-12. -/
theorem fastLimit_spec (sizes ranks : List Nat) (hok : RanksOk sizes ranks) (hcnt : ranks.length ≤ 256)
    (hk : kraftM 256 sizes ranks = 2 ^ 256) (hmono : (lensOf sizes ranks).Pairwise (· ≥ ·))
    (hpos : ∀ s ∈ ranks, 1 ≤ sizes.getD s 0) :
    ∃ d1 d2 sz, fastLimit sizes ranks = some (d1, d2, sz) ∧ sz.length = sizes.length ∧
      (∀ x, x ∉ ranks → sz.getD x 0 = sizes.getD x 0) ∧
      (∀ s ∈ ranks, 1 ≤ sz.getD s 0 ∧ sz.getD s 0 ≤ 12) ∧
      kraftM 256 sz ranks ≤ 2 ^ 256 + d2 * unit12 := by
  -- a symbol shorter than 12 bits exists: otherwise the Kraft sum is at most 256 * 2^244
  have hex : ∃ s ∈ ranks, sizes.getD s 0 < 12 := by
    by_contra hne
    have hall : ∀ s ∈ ranks, 12 ≤ sizes.getD s 0 := fun s hs => by
      by_contra hlt
      exact hne ⟨s, hs, by omega⟩
    have hb : ∀ (l : List Nat), (∀ s ∈ l, 12 ≤ sizes.getD s 0) → kraftM 256 sizes l ≤ l.length * unit12 := by
      intro l
      induction l with
      | nil => intro _; simp [kraftM, lensOf, wsum]
      | cons s ss ih =>
        intro h
        rw [kraftM_cons, List.length_cons, Nat.add_mul, Nat.one_mul]
        have h1 := ih (fun x hx => h x (List.mem_cons_of_mem _ hx))
        have h2 : 2 ^ (256 - sizes.getD s 0) ≤ unit12 :=
          Nat.pow_le_pow_right (by decide) (by have := h s List.mem_cons_self; omega)
        omega
    have h1 := hb ranks hall
    have h2 : ranks.length * unit12 ≤ 256 * unit12 := Nat.mul_le_mul_right _ hcnt
    have h3 : 256 * unit12 < 2 ^ 256 := by unfold unit12; decide
    omega
  obtain ⟨sz, debt, rest, hf, hlen, ⟨pre', hsuf⟩, hframe, hrange, hrest, hkr⟩ :=
    foldOver_spec ranks ranks [] sizes 0 rfl hok hex hmono (fun _ h => by cases h) hpos
  unfold fastLimit
  rw [hf]
  simp only
  have hok1 : RanksOk sz ranks := ⟨hok.nodup, fun s hs => by rw [hlen]; exact hok.lt s hs⟩
  have hndrest : rest.Nodup := by
    have := hok.nodup; rw [hsuf] at this; exact (List.nodup_append.mp this).2.1
  have hq0 : QOk sz ranks (List.replicate 6 []) := by
    refine ⟨by simp, ?_, ?_⟩
    · intro idx hidx
      have : (List.replicate 6 ([] : List Nat)).getD idx [] = [] := replicate6_getD idx
      rw [this]; exact List.nodup_nil
    · intro idx hidx r hr
      have : (List.replicate 6 ([] : List Nat)).getD idx [] = [] := replicate6_getD idx
      rw [this] at hr; cases hr
  have hq := enqueue_spec sz ranks debt rest (List.replicate 6 []) hndrest
    (fun x hx => ⟨by rw [hsuf]; exact List.mem_append_right _ hx, hrest x hx⟩) hq0
    (by
      intro idx hidx x hx
      have : (List.replicate 6 ([] : List Nat)).getD idx [] = [] := replicate6_getD idx
      rw [this] at hx; cases hx)
  have hinv : LvInv ranks (enqueue sz rest debt (List.replicate 6 [])) debt sz :=
    ⟨hok1, hq, hrange, by rw [hk] at hkr; omega⟩
  obtain ⟨h1, h2, h3⟩ := repayLevels_spec ranks [5, 4, 3, 2, 1, 0] _ _ _ (by decide) hinv
  obtain ⟨g1, g2, g3⟩ := adjustLevels_spec ranks [0, 1, 2, 3, 4, 5] _ _ _ (by decide) h1
  exact ⟨_, _, _, rfl, by rw [g2, h2, hlen], fun x hx => by rw [g3 x hx, h3 x hx, hframe x hx],
    g1.range, g1.kraft⟩

end Kanzi.Huffman
