package main

// Stream `trdirect` (C13): every transform driven directly through transform.New(&ctx, type), exactly
// as the block pipeline does (io.encodingTask.encode / io.decodingTask.decode): per-block ctx map
// ("transform", "entropy", "blockSize", "jobs", "bsVersion", "size", optional "dataType"),
// caller-owned buffers of the pipeline's sizes with canaries behind them, Forward, SkipFlags, then a
// FRESH sequence with a decoder-style ctx, SetSkipFlags, Inverse into B + max(512, B/16) bytes.
// Search only (no Lean model behind this stream).
//
// Scenario line:
//   tr <NAME[+NAME...]> ent=<codec name> bs=<blockSize> n=<len> jobs=<j> hint=<unset|DT name> s=<seed> d=<family>[:k=v,...]
//
// Data-type hints: internal.DT_* cannot be imported from outside the kanzi module.  A value of the
// type internal.DataType is obtained from the ctx of a REAL stage (RLT forward on DNA data stores
// DT_DNA) and the other constants are built from its reflect.Type (reflect.New(t).SetInt(k)), so the
// map holds exactly what encodingTask.encode (magic number => DT_BIN/DT_MULTIMEDIA/DT_EXE) or an
// earlier stage of a sequence would have stored.  If that ever fails, hinted scenarios are
// reported as `hint-unavailable` (not as violations) and counted in the histogram.

import (
	"bytes"
	"encoding/binary"
	"fmt"
	"hash/fnv"
	"math/rand"
	"os"
	"reflect"
	"strconv"
	"strings"
	"sync"
	"time"

	"github.com/flanglet/kanzi-go/v2/transform"

	"kverif/internal/gen"
)

func init() {
	registerStream(&Stream{
		Name: "trdirect",
		Rule: "one evaluation = one (transform or level chain, entropy name, block size, data-type hint, block) forward+inverse through transform.New on caller-owned canaried buffers; 19 transforms x 19 data shapes x sizes 1..MiBs x fast/slow entropy name x hints {unset, as the pipeline/earlier stage would set, crossed}; distinct_nontrivial = distinct scenarios in which at least one stage was applied (not declined) and the inverse restored the block",
		Gen:  g4tGen,
		Exec: g4tExec,
	})
}

var g4tNames = []string{"NONE", "BWT", "BWTS", "LZ", "LZX", "LZP", "ROLZ", "ROLZX", "RLT", "ZRLT", "MTFT", "RANK", "SRT", "TEXT", "EXE", "MM", "UTF", "PACK", "DNA"}

// transform chains of the CLI compression levels 1..9
var g4tLevelChains = []string{"LZX", "DNA+LZ", "TEXT+UTF+PACK+MM+LZX", "TEXT+UTF+EXE+PACK+MM+ROLZ", "TEXT+UTF+BWT+RANK+ZRLT",
	"TEXT+UTF+BWT+SRT+ZRLT", "LZP+TEXT+UTF+BWT+LZP", "EXE+RLT+TEXT+UTF+DNA", "EXE+RLT+TEXT+UTF+DNA"}

var g4tDTNames = []string{"UNDEFINED", "TEXT", "MULTIMEDIA", "EXE", "NUMERIC", "BASE64", "DNA", "BIN", "UTF8", "SMALL_ALPHABET"}

// ---------------------------------------------------------------------------------------------
// internal.DataType values without importing the internal package

var g4tDT struct {
	once sync.Once
	typ  reflect.Type
	note string
}

func g4tDTInit() {
	g4tDT.once.Do(func() {
		pan, _, _, msg := g4Guard(func() {
			typ, _ := transform.GetType("RLT")
			ctx := map[string]any{"transform": "RLT", "entropy": "TPAQ", "blockSize": uint(4096), "jobs": uint(1), "bsVersion": uint(6), "size": uint(4096)}
			t, err := transform.New(&ctx, typ)
			if err != nil {
				g4tDT.note = "RLT constructor: " + err.Error()
				return
			}
			src := make([]byte, 4096)
			for i := range src {
				src[i] = "ACGT"[(i*7+i/5)&3]
			}
			dst := make([]byte, t.MaxEncodedLen(len(src)))
			t.Forward(src, dst)
			v, ok := ctx["dataType"]
			if !ok {
				g4tDT.note = "RLT forward on DNA data left no dataType in ctx"
				return
			}
			rt := reflect.TypeOf(v)
			if rt.Kind() != reflect.Int || rt.Name() != "DataType" || !strings.HasSuffix(rt.PkgPath(), "kanzi-go/v2/internal") {
				g4tDT.note = fmt.Sprintf("unexpected dataType type %v (%s)", rt, rt.PkgPath())
				return
			}
			if reflect.ValueOf(v).Int() != 6 {
				g4tDT.note = fmt.Sprintf("DNA sample detected as %d, expected DT_DNA = 6", reflect.ValueOf(v).Int())
				return
			}
			g4tDT.typ = rt
		})
		if pan {
			g4tDT.note = "panic while sampling internal.DataType: " + msg
		}
	})
}

func g4tDTValue(name string) (any, bool) {
	g4tDTInit()
	if g4tDT.typ == nil {
		return nil, false
	}
	for i, n := range g4tDTNames {
		if n == name {
			v := reflect.New(g4tDT.typ).Elem()
			v.SetInt(int64(i))
			return v.Interface(), true
		}
	}
	return nil, false
}

func g4tDTName(v any) string {
	if v == nil {
		return "unset"
	}
	rv := reflect.ValueOf(v)
	if rv.Kind() == reflect.Int {
		if k := rv.Int(); k >= 0 && int(k) < len(g4tDTNames) {
			return g4tDTNames[k]
		}
	}
	return fmt.Sprint(v)
}

// ---------------------------------------------------------------------------------------------
// execution on the real code

const (
	g4tCanary   = 64
	g4tFwdFill  = 0xA5
	g4tInvFill  = 0x5A
	g4tSrcFill  = 0xC3
	g4tExtraBuf = 512 // io._EXTRA_BUFFER_SIZE
)

type g4tOutcome struct {
	status   string // "ok" | "declined" | "viol" | "bad-op" | "hint-unavailable"
	symptom  string
	site     string
	what     string
	fwdLen   int
	skip     byte
	fwdHash  uint64
	dtAfter  string
	stagesOK int
}

func g4tCtx(name, ent string, bs, n, jobs int) map[string]any {
	return map[string]any{"transform": name, "entropy": ent, "blockSize": uint(bs), "jobs": uint(jobs), "bsVersion": uint(6), "size": uint(n)}
}

func g4tFilled(n int, v byte) []byte {
	b := make([]byte, n)
	for i := range b {
		b[i] = v
	}
	return b
}

func g4tAll(b []byte, v byte) bool {
	for _, x := range b {
		if x != v {
			return false
		}
	}
	return true
}

func g4tRoundTrip(name, ent string, bs, jobs int, hint string, data []byte) (o g4tOutcome) {
	n := len(data)
	single := !strings.Contains(name, "+")
	siteF, siteI := "transform."+name+".Forward", "transform."+name+".Inverse"
	viol := func(symptom, site, what string) g4tOutcome {
		o.status, o.symptom, o.site, o.what = "viol", symptom, site, what
		return o
	}
	typ, err := transform.GetType(name)
	if err != nil || n < 1 || n > bs {
		o.status = "bad-op"
		return o
	}
	var hv any
	if hint != "unset" {
		v, ok := g4tDTValue(hint)
		if !ok {
			o.status = "hint-unavailable"
			return o
		}
		hv = v
	}
	// ---- forward, as io.encodingTask.encode
	ctx := g4tCtx(name, ent, bs, n, jobs)
	var t *transform.ByteTransformSequence
	var req, m int
	var ferr error
	var inFull, outFull []byte
	stage := "New"
	pan, psite, pwhere, pmsg := g4Guard(func() {
		t, ferr = transform.New(&ctx, typ)
		if ferr != nil {
			return
		}
		stage = "MaxEncodedLen"
		req = t.MaxEncodedLen(n)
		if hv != nil {
			ctx["dataType"] = hv
		}
		if req < n {
			return
		}
		inFull = g4tFilled(req+g4tCanary, g4tSrcFill)
		copy(inFull, data)
		outFull = g4tFilled(req+g4tCanary, g4tFwdFill)
		stage = "Forward"
		var w uint
		_, w, ferr = t.Forward(inFull[:n], outFull[:req])
		m = int(w)
		stage = "SkipFlags"
		o.skip = t.SkipFlags()
	})
	if pan {
		return viol("fault", psite, fmt.Sprintf("forward %s panicked at %s: %s", stage, pwhere, pmsg))
	}
	if ferr != nil {
		return viol("forward-error", siteF, fmt.Sprintf("%s returned error: %v", stage, ferr))
	}
	if req < n {
		return viol("overrun", "transform."+name+".MaxEncodedLen", fmt.Sprintf("MaxEncodedLen(%d) = %d is smaller than the block", n, req))
	}
	o.fwdLen = m
	o.dtAfter = g4tDTName(ctx["dataType"])
	if !g4tAll(outFull[req:], g4tFwdFill) {
		return viol("overrun", siteF, fmt.Sprintf("forward wrote past MaxEncodedLen(%d) = %d (canary damaged)", n, req))
	}
	if m > req {
		return viol("overrun", siteF, fmt.Sprintf("forward reports %d output bytes, MaxEncodedLen(%d) = %d", m, n, req))
	}
	if !g4tAll(inFull[req:], g4tSrcFill) {
		return viol("overrun", siteF, fmt.Sprintf("forward wrote past the end of the input buffer (capacity %d)", req))
	}
	for i := 0; i < t.Len() && i < 8; i++ {
		if o.skip&(1<<(7-uint(i))) == 0 {
			o.stagesOK++
		}
	}
	allDeclined := o.stagesOK == 0
	if single || allDeclined {
		// a single stage never owns its input; when every stage declined nothing may have touched it
		if !bytes.Equal(inFull[:n], data) {
			k := 0
			for inFull[k] == data[k] {
				k++
			}
			how := "succeeded"
			if allDeclined {
				how = "declined"
			}
			return viol("input-modified", siteF, fmt.Sprintf("forward %s and modified its input block at offset %d of %d (skip flags %08b)", how, k, n, o.skip))
		}
		if single && !g4tAll(inFull[n:req], g4tSrcFill) {
			return viol("input-modified", siteF, fmt.Sprintf("forward wrote behind its %d-byte input block", n))
		}
	}
	h := fnv.New64a()
	h.Write(outFull[:m])
	o.fwdHash = h.Sum64()
	// ---- inverse, as io.decodingTask.decode: fresh sequence, decoder ctx, decoder buffer sizes
	pad := max(g4tExtraBuf, bs>>4)
	dl := bs + pad
	srcFull := make([]byte, max(dl, m+g4tExtraBuf))
	copy(srcFull, outFull[:m])
	srcCopy := append([]byte{}, outFull[:m]...)
	dstFull := g4tFilled(dl+g4tCanary, g4tInvFill)
	ctx2 := g4tCtx(name, ent, bs, m, jobs)
	var ierr error
	var k int
	stage = "New"
	pan, psite, pwhere, pmsg = g4Guard(func() {
		var t2 *transform.ByteTransformSequence
		t2, ierr = transform.New(&ctx2, typ)
		if ierr != nil {
			return
		}
		t2.SetSkipFlags(o.skip)
		stage = "Inverse"
		var w uint
		_, w, ierr = t2.Inverse(srcFull[:m], dstFull[:dl])
		k = int(w)
	})
	if pan {
		return viol("fault", psite, fmt.Sprintf("inverse %s panicked at %s: %s (forward output %d bytes, skip flags %08b)", stage, pwhere, pmsg, m, o.skip))
	}
	if !g4tAll(dstFull[dl:], g4tInvFill) {
		return viol("overrun", siteI, fmt.Sprintf("inverse wrote past the decoder's %d-byte buffer (canary damaged)", dl))
	}
	if ierr != nil {
		return viol("roundtrip-mismatch", siteI, fmt.Sprintf("inverse %s failed on the forward output (%d bytes, skip flags %08b): %v", stage, m, o.skip, ierr))
	}
	if k != n || !bytes.Equal(dstFull[:min(k, dl)], data) {
		d := 0
		for d < n && d < k && d < dl && dstFull[d] == data[d] {
			d++
		}
		return viol("roundtrip-mismatch", siteI, fmt.Sprintf("inverse produced %d bytes for a %d-byte block, first difference at offset %d (skip flags %08b)", k, n, d, o.skip))
	}
	if single && !bytes.Equal(srcFull[:m], srcCopy) {
		return viol("input-modified", siteI, "inverse modified its input")
	}
	if allDeclined {
		o.status = "declined"
	} else {
		o.status = "ok"
	}
	return o
}

func g4tExec(op string, res *Result) string {
	w := strings.Fields(op)
	if len(w) < 3 || w[0] != "tr" {
		return "bad-op"
	}
	name := w[1]
	kv := g4ParseKV(w[2:])
	n, bs, jobs := g4Int(kv, "n", 0), g4Int(kv, "bs", 1024), g4Int(kv, "jobs", 1)
	ent, hint := kv["ent"], kv["hint"]
	if ent == "" {
		ent = "NONE"
	}
	if hint == "" {
		hint = "unset"
	}
	seed, _ := strconv.ParseInt(kv["s"], 10, 64)
	fam, p := g4ParseData(kv["d"])
	if n < 1 || n > 1<<27 || bs < n || bs&15 != 0 || bs < 1024 || jobs < 1 {
		return "bad-op"
	}
	data := g4eData(fam, p, n, seed)
	if dir := os.Getenv("G4_DUMP"); dir != "" { // debugging aid: keep the block of each replayed scenario
		os.WriteFile(fmt.Sprintf("%s/tr_%s_%d_%d.bin", dir, strings.ReplaceAll(name, "+", "_"), n, seed), data, 0o644)
	}
	var o g4tOutcome
	limit := 120*time.Second + time.Duration(n/(1<<15))*time.Second
	if !g4Watch(limit, func() { o = g4tRoundTrip(name, ent, bs, jobs, hint, data) }) {
		res.Abort = true
		res.Violation = &Violation{Kind: "input", Site: "transform." + name, Symptom: "hang",
			What: fmt.Sprintf("%s forward+inverse of %d bytes did not finish in %v", name, n, limit)}
		return "viol hang"
	}
	res.Tags = append(res.Tags, "tr:"+name, g4LenClass(n), "hint:"+hint, "result:"+o.status)
	res.Sample = map[string]any{"op": op, "forward_len": o.fwdLen, "skip_flags": fmt.Sprintf("%08b", o.skip), "dataType_after_forward": o.dtAfter}
	switch o.status {
	case "bad-op", "hint-unavailable":
		if o.status == "hint-unavailable" {
			res.Tags = append(res.Tags, "note:"+g4tDT.note)
		}
		return o.status
	case "viol":
		g4Report(res, o.site, o.symptom, o.what)
		return "viol " + o.symptom + " " + o.site
	case "declined":
		return fmt.Sprintf("declined skip=%08b", o.skip)
	}
	res.Nontrivial = true
	if o.dtAfter != "unset" && hint == "unset" {
		res.Tags = append(res.Tags, "detected:"+o.dtAfter)
	}
	return fmt.Sprintf("ok m=%d skip=%08b h=%016x", o.fwdLen, o.skip, o.fwdHash)
}

// ---------------------------------------------------------------------------------------------
// executable headers (data family `exehdr:kind=K,sane=0|1`): x86-like body (gen.Exe) behind a header
// of kind 0 ELF64-LE, 1 ELF32-LE, 2 ELF64-BE, 3 ELF32-BE, 4 Mach-O 32, 5 Mach-O 64 (byte-swapped
// magic, as on disk for x86-64), 6 PE.  sane=0: every header field after the magic is random;
// sane=1: tables lie inside the block, with one or two entries that look like code sections.

func g4ExeHeader(r *rand.Rand, n int, kind int, sane bool) []byte {
	b := gen.Exe(r, n, false)
	if n < 64 {
		return b
	}
	hdr := min(n, 4096)
	if !sane {
		r.Read(b[:min(hdr, 256)])
	}
	le, be := binary.LittleEndian, binary.BigEndian
	pick := func(lo, hi int) int {
		if hi <= lo {
			return lo
		}
		return lo + r.Intn(hi-lo)
	}
	switch kind {
	case 0, 1, 2, 3: // ELF
		copy(b, []byte{0x7F, 'E', 'L', 'F'})
		is64 := kind == 0 || kind == 2
		var bo binary.ByteOrder = le
		b[5] = 1
		if kind >= 2 {
			bo, b[5] = be, 2
		}
		b[4] = 1
		if is64 {
			b[4] = 2
		}
		arch := []uint16{0x3E, 0x03, 0xB7, 0x28}[r.Intn(4)]
		bo.PutUint16(b[18:], arch)
		if sane {
			esz, nb := 40, pick(1, 6)
			if is64 {
				esz = 64
			}
			pos := pick(64, max(65, n-nb*esz-1))
			if is64 {
				bo.PutUint64(b[0x28:], uint64(pos))
				bo.PutUint16(b[0x3A:], uint16(esz))
				bo.PutUint16(b[0x3C:], uint16(nb))
			} else {
				bo.PutUint32(b[0x20:], uint32(pos))
				bo.PutUint16(b[0x2E:], uint16(esz))
				bo.PutUint16(b[0x30:], uint16(nb))
			}
			for i := 0; i < nb; i++ {
				e := pos + i*esz
				if e+esz > n {
					break
				}
				off, ln := pick(0, n), pick(0, 2*n)
				bo.PutUint32(b[e+4:], uint32(r.Intn(3)))
				if is64 {
					bo.PutUint64(b[e+0x18:], uint64(off))
					bo.PutUint64(b[e+0x20:], uint64(ln))
				} else {
					bo.PutUint32(b[e+0x10:], uint32(off))
					bo.PutUint32(b[e+0x14:], uint32(ln))
				}
			}
		}
	case 4, 5: // Mach-O
		is64 := kind == 5
		if is64 {
			copy(b, []byte{0xCF, 0xFA, 0xED, 0xFE})
		} else {
			copy(b, []byte{0xFE, 0xED, 0xFA, 0xCE})
		}
		le.PutUint32(b[4:], 0x01000007)
		le.PutUint32(b[12:], 2) // MH_EXECUTE
		if sane {
			nb := pick(1, 5)
			le.PutUint32(b[0x10:], uint32(nb))
			pos := 0x1C
			segHdr, lc := 0x38, uint32(1)
			if is64 {
				pos, segHdr, lc = 0x20, 0x48, 0x19
			}
			for i := 0; i < nb && pos+segHdr+0x50 < n; i++ {
				le.PutUint32(b[pos:], lc)
				sz := segHdr + 0x50*pick(1, 3)
				le.PutUint32(b[pos+4:], uint32(sz))
				name := "__DATA"
				if i == nb-1 || r.Intn(2) == 0 {
					name = "__TEXT"
				}
				copy(b[pos+8:pos+24], make([]byte, 16))
				copy(b[pos+8:], name)
				copy(b[pos+segHdr:pos+segHdr+16], make([]byte, 16))
				copy(b[pos+segHdr:], "__text")
				le.PutUint32(b[pos+segHdr+0x28:], uint32(pick(0, 2*n)))
				le.PutUint32(b[pos+segHdr+0x2C:], uint32(pick(0, n)))
				le.PutUint64(b[pos+segHdr+0x30:], uint64(pick(0, n)))
				pos += sz
			}
		}
	default: // PE
		copy(b, []byte{'M', 'Z'})
		if sane {
			posPE := pick(64, max(65, min(n-48, 1024)))
			le.PutUint32(b[60:], uint32(posPE))
			if posPE+48 <= n {
				copy(b[posPE:], []byte{'P', 'E', 0, 0})
				le.PutUint16(b[posPE+4:], []uint16{0x014C, 0x8664, 0xAA64}[r.Intn(3)])
				le.PutUint32(b[posPE+28:], uint32(pick(0, 2*n)))
				le.PutUint32(b[posPE+44:], uint32(pick(0, 2*n)))
			}
		}
	}
	return b
}

// ---------------------------------------------------------------------------------------------
// generator

// hint the pipeline (magic number) or an earlier detecting stage would leave for each shape
var g4tNaturalHint = map[string]string{"text": "TEXT", "utf8-50": "UTF8", "utf8-3000": "UTF8", "utf8-40000": "UTF8", "dna": "DNA", "dnarep": "DNA",
	"exe-elf": "EXE", "exe-mz": "EXE", "wave": "MULTIMEDIA", "wavehdr": "MULTIMEDIA", "random": "BIN", "alpha2": "SMALL_ALPHABET",
	"alpha4": "SMALL_ALPHABET", "zeros": "SMALL_ALPHABET", "base64": "BASE64", "numeric": "NUMERIC"}

func g4tGen(r *rand.Rand, tier string, nRandom int, emit func(op string, tags ...string)) {
	thorough := tier == "thorough"
	seedCtr := int64(r.Intn(1 << 20))
	put := func(name, ent string, bs, n, jobs int, hint, shape, fam string) {
		seedCtr++
		emit(fmt.Sprintf("tr %s ent=%s bs=%d n=%d jobs=%d hint=%s s=%d d=shape:name=%s", name, ent, bs, n, jobs, hint, seedCtr, shape),
			"family:"+fam, "shape:"+shape)
	}
	sizes := []int{1, 2, 3, 4, 5, 7, 8, 15, 16, 17, 31, 32, 33, 63, 64, 65, 100, 255, 256, 257, 511, 1000, 1023, 1024, 1025, 4096, 5000,
		16384, 20000, 31000, 65535, 65536, 65537, 70000, 300000}
	ents := func(name string) []string {
		if name == "TEXT" {
			return []string{"HUFFMAN", "TPAQ", "TPAQX"}
		}
		return []string{"HUFFMAN", "TPAQ"}
	}
	// 1. every transform x shape x size x entropy name, hint unset; natural hint on the slow-entropy variant
	for _, name := range g4tNames {
		for _, sh := range gen.Shapes {
			for _, n := range sizes {
				for ei, ent := range ents(name) {
					put(name, ent, g4eRound16(n), n, 1, "unset", sh.Name, "grid")
					if nh, ok := g4tNaturalHint[sh.Name]; ok && ei == 1 && (thorough || n >= 64) {
						put(name, ent, g4eRound16(n), n, 1, nh, sh.Name, "grid-natural-hint")
					}
				}
			}
		}
	}
	// 2. larger blocks
	bigs := []int{1<<20 + 1, 2<<20 + 12345}
	if thorough {
		bigs = append(bigs, 1<<22-1, 1<<22, 1<<22+1, 6<<20+7)
	}
	for _, name := range g4tNames {
		for si, sh := range gen.Shapes {
			for bi, n := range bigs {
				if !thorough && (si+bi)%2 == 1 {
					continue
				}
				jobs := 1
				if (name == "BWT" || name == "BWTS") && n >= 1<<22-1 && si%2 == 0 {
					jobs = 4
				}
				hint := "unset"
				if nh, ok := g4tNaturalHint[sh.Name]; ok && (si+bi)%3 == 0 {
					hint = nh
				}
				put(name, "HUFFMAN", g4eRound16(n), n, jobs, hint, sh.Name, "big")
			}
		}
	}
	// 3. crossed hints: the hint describes the ORIGINAL block while a later stage sees transformed data
	for _, name := range g4tNames {
		for si, sh := range gen.Shapes {
			for hi, h := range g4tDTNames {
				for ni, n := range []int{64, 1000, 70000} {
					if !thorough && (si+hi+ni)%4 != 0 {
						continue
					}
					put(name, "TPAQ", g4eRound16(n), n, 1, h, sh.Name, "hint-cross")
				}
			}
		}
	}
	// 4. short last block of a stream with a large block size (sizes tables from blockSize, not from the block)
	for _, name := range g4tNames {
		for si, sh := range gen.Shapes {
			for bi, bs := range []int{1 << 20, 4 << 20, 64 << 20} {
				if !thorough && ((si+bi)%3 != 0 || bs > 4<<20) {
					continue
				}
				for _, n := range []int{1, 17, 1000, 70000} {
					put(name, "TPAQ", bs, n, 1, "unset", sh.Name, "short-last-block")
				}
			}
		}
	}
	// 5. the level chains, as the CLI levels build them
	for _, chain := range g4tLevelChains[:8] {
		for _, sh := range gen.Shapes {
			for ni, n := range []int{1, 63, 64, 257, 1000, 5000, 70000, 300000} {
				if !thorough && ni%2 == 1 && n < 70000 {
					continue
				}
				put(chain, "ANS0", g4eRound16(n), n, 1, "unset", sh.Name, "level-chain")
				if nh, ok := g4tNaturalHint[sh.Name]; ok && (nh == "EXE" || nh == "MULTIMEDIA" || nh == "BIN") {
					put(chain, "TPAQ", g4eRound16(n), n, 1, nh, sh.Name, "level-chain-magic-hint")
				}
			}
		}
	}
	// 6. executable headers of every kind the EXE codec parses (random and plausible fields)
	for _, name := range []string{"EXE", "EXE+RLT+TEXT+UTF+DNA", "TEXT+UTF+EXE+PACK+MM+ROLZ", "ROLZ", "ROLZX"} {
		for kind := 0; kind <= 6; kind++ {
			for sane := 0; sane <= 1; sane++ {
				reps := 3
				if thorough {
					reps = 40
				}
				if name != "EXE" {
					reps = 1
				}
				for _, n := range []int{64, 100, 1000, 5000, 70000} {
					for k := 0; k < reps; k++ {
						for _, hint := range []string{"unset", "EXE"} {
							seedCtr++
							emit(fmt.Sprintf("tr %s ent=ANS0 bs=%d n=%d jobs=1 hint=%s s=%d d=exehdr:kind=%d,sane=%d", name, g4eRound16(n), n, hint, seedCtr, kind, sane),
								"family:exe-header", fmt.Sprintf("shape:exehdr-%d", kind))
						}
					}
				}
			}
		}
	}
	// 8. field boundaries: a literal run (k=0), a byte run (k=1) or a pattern match (k=2) of an EXACT length around the
	//    boundaries of the length codings (1/3/4-byte LZ lengths: 254, 65536+254, with the -7 / min-match offsets; 16-bit
	//    run fields; 2^16, 2^17), between two compressible stretches so that the stage accepts the block
	{
		var mids []int
		for _, c := range []int{254, 255 + 7, 65536, 65536 + 254, 65536 + 254 + 7, 65535 + 254 + 4, 65535 + 254 + 9, 73469, 73473, 1 << 17} {
			lo, hi := c-3, c+3
			if thorough {
				lo, hi = c-12, c+12
			}
			for m := lo; m <= hi; m++ {
				mids = append(mids, m)
			}
		}
		names := []string{"LZ", "LZX", "LZP", "ROLZ", "ROLZX", "RLT"}
		if thorough {
			names = append(names, "ZRLT", "MM", "PACK", "TEXT", "UTF", "SRT", "BWT")
		}
		for _, name := range names {
			for _, mid := range mids {
				for k := 0; k <= 2; k++ {
					if !thorough && k == 2 && mid%2 == 0 {
						continue
					}
					for _, tail := range []int{0, 40000} {
						pre := 98304
						n := pre + mid + tail
						seedCtr++
						emit(fmt.Sprintf("tr %s ent=HUFFMAN bs=%d n=%d jobs=1 hint=unset s=%d d=sandwich:pre=%d,mid=%d,k=%d", name, g4eRound16(n), n, seedCtr, pre, mid, k),
							"family:field-boundary", fmt.Sprintf("shape:sandwich-k%d", k))
					}
				}
			}
		}
	}
	// 7. random draws
	if nRandom == 0 {
		nRandom = 4000
		if thorough {
			nRandom = 250000
		}
	}
	for i := 0; i < nRandom; i++ {
		name := g4tNames[r.Intn(len(g4tNames))]
		sh := gen.Shapes[r.Intn(len(gen.Shapes))]
		var n int
		switch r.Intn(4) {
		case 0:
			n = 1 + r.Intn(300)
		case 1:
			n = 1 + r.Intn(5000)
		case 2:
			n = 1 + r.Intn(100000)
		default:
			n = 60000 + r.Intn(400000)
		}
		hint := "unset"
		if r.Intn(3) == 0 {
			hint = g4tDTNames[r.Intn(len(g4tDTNames))]
		}
		bs := g4eRound16(n)
		if r.Intn(8) == 0 {
			bs = 1 << 20
		}
		e := ents(name)
		put(name, e[r.Intn(len(e))], bs, n, 1, hint, sh.Name, "random")
	}
}
