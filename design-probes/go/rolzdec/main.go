// rolzdec: observations on ROLZCodec.Inverse with forged / foreign input (slice rolztotal, property C03).
//
//  1. ROLZ (rolzCodec1): the stream carries its logPosChecks in the flags byte, but Inverse sizes this.matches
//     from the OBJECT's logPosChecks before reading the flags (`if len(this.matches) < int(this.logPosChecks)`,
//     which also compares a length with a log).  A VALID stream produced by NewROLZCodec(8).Forward, decoded by a
//     codec built by name / NewROLZCodecWithFlag(false) (logPosChecks 4), panics with "index out of range"
//     instead of decoding or returning an error.  Same with a forged flags nibble.
//  2. ROLZX (rolzCodec2): inputs of 5..12 bytes with a plausible size field pass "input array too small" and
//     panic in newRolzDecoder (8 unchecked byte reads).
//  3. Allocation: a 25-byte forged ROLZ block with sub-stream length 2^32-1 is rejected ("Invalid length for
//     literals"); bytes allocated by the call do not depend on the forged lengths.
package main

import (
	"fmt"
	"runtime"

	"github.com/flanglet/kanzi-go/v2/transform"
)

func try(name string, f func() (uint, uint, error)) {
	defer func() {
		if r := recover(); r != nil {
			fmt.Printf("%-34s PANIC: %v\n", name, r)
		}
	}()
	var m0, m1 runtime.MemStats
	runtime.ReadMemStats(&m0)
	r, w, err := f()
	runtime.ReadMemStats(&m1)
	fmt.Printf("%-34s read=%d written=%d err=%v alloc=%d\n", name, r, w, err, m1.TotalAlloc-m0.TotalAlloc)
}

func main() {
	data := make([]byte, 4000)
	for i := range data {
		data[i] = "the quick brown fox "[i%20]
	}
	enc8, _ := transform.NewROLZCodec(8)
	out := make([]byte, enc8.MaxEncodedLen(len(data)))
	_, n, err := enc8.Forward(data, out)
	fmt.Println("Forward(NewROLZCodec(8)):", n, err, "flags byte:", fmt.Sprintf("%#x", out[4]))
	dst := make([]byte, len(data))
	dec8, _ := transform.NewROLZCodec(8)
	try("1a Inverse, codec lpc 8", func() (uint, uint, error) { return dec8.Inverse(out[:n], dst) })
	dec4, _ := transform.NewROLZCodecWithFlag(false)
	try("1b Inverse, codec lpc 4 (by flag)", func() (uint, uint, error) { return dec4.Inverse(out[:n], dst) })

	x, _ := transform.NewROLZCodecWithFlag(true)
	short := []byte{0, 0, 0, 40, 0, 1, 2, 3, 4, 5, 6, 7}
	try("2  ROLZX Inverse, 12 bytes", func() (uint, uint, error) { return x.Inverse(short, make([]byte, 40)) })

	forged := []byte{0, 0, 0, 44, 0x40, 255, 255, 255, 255, 0, 0, 0, 0, 0, 0, 0, 0, 0, 0, 0, 0, 1, 2, 3, 4}
	r1, _ := transform.NewROLZCodecWithFlag(false)
	try("3  ROLZ Inverse, litLen 2^32-1", func() (uint, uint, error) { return r1.Inverse(forged, make([]byte, 40)) })
}
