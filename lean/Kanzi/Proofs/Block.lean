/-
Proofs for the NONE/NONE block codec and the stream image (`Kanzi/Model/Block.lean`).
Property statements: `Kanzi/Properties/C01_none.lean`.
-/
import Kanzi.Model.Block
import Kanzi.Proofs.BlockLemmas
import Kanzi.Proofs.Container
import Kanzi.Proofs.Header
import Kanzi.Drv.Stream
import Kanzi.Spec.Stream

namespace Kanzi.Block
open Kanzi.Bits

/-! ### the fields of the block prologue -/

theorem readBits_natBits_append (v n : Nat) (rest : Bits) :
    readBits n (natBits v n ++ rest) = .ok (v % 2 ^ n, rest) := by
  unfold readBits
  rw [if_neg (by simp), take_append_len _ _ _ (natBits_length _ _),
    drop_append_len _ _ _ (natBits_length _ _), bitsNat_natBits]

theorem ckWidth_cases (ck : Nat) : ckWidth ck = 0 ∨ ckWidth ck = 32 ∨ ckWidth ck = 64 := by
  unfold ckWidth
  by_cases h1 : ck = 32
  · simp [h1]
  · by_cases h2 : ck = 64 <;> simp [h1, h2]

theorem ckWidth_of (ck : Nat) (h : ck = 0 ∨ ck = 32 ∨ ck = 64) : ckWidth ck = ck := by
  rcases h with rfl | rfl | rfl <;> rfl

theorem dataSizeOf_pos (n : Nat) : 1 ≤ dataSizeOf n := by
  unfold dataSizeOf; split <;> omega

theorem dataSizeOf_le (n : Nat) (h : n < 2 ^ 32) : dataSizeOf n ≤ 4 := by
  unfold dataSizeOf
  split
  · omega
  · have : n.log2 < 32 := (Nat.log2_lt (by omega)).2 h
    omega

theorem lt_pow_dataSizeOf (n : Nat) : n < 2 ^ (8 * dataSizeOf n) := by
  unfold dataSizeOf
  split
  · omega
  · have h1 : n < 2 ^ (n.log2 + 1) := Nat.lt_log2_self
    have h2 : n.log2 + 1 ≤ 8 * (n.log2 / 8 + 1) := by omega
    exact Nat.lt_of_lt_of_le h1 (Nat.pow_le_pow_right (by omega) h2)

theorem dataSizeOf_small (n : Nat) (h : n ≤ 15) : dataSizeOf n = 1 := by
  unfold dataSizeOf; rw [if_pos (by omega)]

/-- what the decoder reads back from the mode byte -/
theorem modeByte_spec (n : Nat) (h : n < 2 ^ 32) :
    modeByte n < 256 ∧ (modeByte n &&& 0x80 ≠ 0 ↔ n ≤ 15) ∧ modeByte n &&& 0x10 = 0 ∧
      1 + ((modeByte n >>> 5) &&& 3) = dataSizeOf n := by
  have h1 := dataSizeOf_pos n
  have h4 := dataSizeOf_le n h
  unfold modeByte noneSkipFlags
  by_cases hn : n ≤ 15
  · rw [dataSizeOf_small n hn, if_pos hn]
    simp only [hn, iff_true]
    decide
  · rw [if_neg hn]
    simp only [hn, iff_false]
    have : dataSizeOf n = 1 ∨ dataSizeOf n = 2 ∨ dataSizeOf n = 3 ∨ dataSizeOf n = 4 := by omega
    rcases this with e | e | e | e <;> rw [e] <;> decide

theorem encodeNoneWith_length (ck sum : Nat) (data : List Nat) :
    (encodeNoneWith ck sum data).length =
      8 + 8 * dataSizeOf data.length + ckWidth ck + 8 * data.length := by
  simp [encodeNoneWith, ofBytes_length]; omega

theorem padToByte_of_mod (bs : Bits) (h : bs.length % 8 = 0) : padToByte bs = bs := by
  unfold padToByte; rw [h]; simp

theorem padToByte_encodeNoneWith (ck sum : Nat) (data : List Nat) :
    padToByte (encodeNoneWith ck sum data) = encodeNoneWith ck sum data := by
  apply padToByte_of_mod
  rw [encodeNoneWith_length]
  rcases ckWidth_cases ck with e | e | e <;> rw [e] <;> omega

theorem le_maxTransformLength (n B : Nat) (hB : n ≤ B) (hmax : n ≤ 2 ^ 30) : n ≤ maxTransformLength B := by
  unfold maxTransformLength taskBlockLength
  omega

theorem checksum_lt (ck : Nat) (data : List Nat) : checksum ck data < 2 ^ ckWidth ck := by
  unfold checksum ckWidth
  split
  · exact (XXHash.xxh32 _ _).isLt
  · split
    · exact (XXHash.xxh64 _ _).isLt
    · simp

/-! ### decode ∘ encode -/

/-- the decoding task on a well-formed payload whose checksum field holds `sum`: the block is
returned iff the recomputed checksum equals the field, else `crc` -/
theorem decodeTask_encodeNoneWith (ck B sum : Nat) (data : List Nat) (h0 : 0 < data.length)
    (hB : data.length ≤ B) (hmax : data.length ≤ 2 ^ 30) (hb : ∀ b ∈ data, b < 256) :
    decodeTask ck B (encodeNoneWith ck sum data) =
      if ckWidth ck ≠ 0 ∧ checksum ck data ≠ sum % 2 ^ ckWidth ck then ⟨data.length, .error .crc⟩
      else ⟨data.length, .ok data⟩ := by
  obtain ⟨m256, mcopy, m10, mds⟩ := modeByte_spec data.length (by omega)
  have hlen := lt_pow_dataSizeOf data.length
  have hmt := le_maxTransformLength data.length B hB hmax
  unfold decodeTask
  rw [padToByte_encodeNoneWith]
  unfold encodeNoneWith
  simp only [List.append_assoc]
  rw [readBits_natBits_append]
  simp only [Nat.mod_eq_of_lt m256]
  -- skip flags: whatever the branch, the rest of the payload is untouched
  have hsf : ∀ R : Bits, ∃ x, (if modeByte data.length &&& 0x80 ≠ 0 then (Except.ok (0, R) : Except Err (Nat × Bits))
        else if modeByte data.length &&& 0x10 ≠ 0 then readBits 8 R
        else Except.ok (((modeByte data.length <<< 4) ||| 0x0F) % 256, R)) = Except.ok (x, R) := by
    intro R
    by_cases hc : modeByte data.length &&& 0x80 ≠ 0
    · exact ⟨_, by rw [if_pos hc]⟩
    · exact ⟨_, by rw [if_neg hc, if_neg (by rw [m10]; simp)]⟩
  obtain ⟨x, hx⟩ := hsf (natBits data.length (8 * dataSizeOf data.length) ++
    (natBits sum (ckWidth ck) ++ ofBytes data))
  rw [hx]
  simp only [mds]
  rw [readBits_natBits_append]
  simp only [Nat.mod_eq_of_lt hlen]
  rw [if_neg (by omega), readBits_natBits_append]
  simp only []
  rw [if_neg (by rw [ofBytes_length]; omega)]
  have ht : (ofBytes data).take (8 * data.length) = ofBytes data :=
    List.take_of_length_le (by rw [ofBytes_length]; omega)
  simp only [ht, toBytes_ofBytes data hb]

theorem decodeTask_encodeNone (ck B : Nat) (data : List Nat) (h0 : 0 < data.length)
    (hB : data.length ≤ B) (hmax : data.length ≤ 2 ^ 30) (hb : ∀ b ∈ data, b < 256) :
    decodeTask ck B (encodeNone ck data) = ⟨data.length, .ok data⟩ := by
  unfold encodeNone
  rw [decodeTask_encodeNoneWith ck B _ data h0 hB hmax hb, if_neg]
  rw [Nat.mod_eq_of_lt (checksum_lt ck data)]
  simp

theorem decodeNone_encodeNone (ck B : Nat) (data : List Nat) (h0 : 0 < data.length)
    (hB : data.length ≤ B) (hmax : data.length ≤ 2 ^ 30) (hb : ∀ b ∈ data, b < 256) :
    decodeNone ck B (encodeNone ck data) = .ok data := by
  unfold decodeNone
  rw [decodeTask_encodeNone ck B data h0 hB hmax hb]

theorem decodeNone_crc (ck B sum : Nat) (data : List Nat) (hck : ck = 32 ∨ ck = 64)
    (h0 : 0 < data.length) (hB : data.length ≤ B) (hmax : data.length ≤ 2 ^ 30)
    (hb : ∀ b ∈ data, b < 256) (hs : sum < 2 ^ ck) (hne : checksum ck data ≠ sum) :
    decodeNone ck B (encodeNoneWith ck sum data) = .error .crc := by
  unfold decodeNone
  have hw : ckWidth ck = ck := ckWidth_of ck (by omega)
  rw [decodeTask_encodeNoneWith ck B _ data h0 hB hmax hb, if_pos]
  rw [hw, Nat.mod_eq_of_lt hs]
  exact ⟨by omega, hne⟩

/-! ### lengths (the accounting of the Writer model) -/

theorem encodeNone_length (ck : Nat) (data : List Nat) (hck : ck = 0 ∨ ck = 32 ∨ ck = 64) :
    (encodeNone ck data).length = Kanzi.Drv.nonePayloadBits data.length ck := by
  unfold encodeNone
  rw [encodeNoneWith_length, ckWidth_of ck hck]
  unfold Kanzi.Drv.nonePayloadBits dataSizeOf
  rfl

theorem frameBits_encodeNone_length (ck : Nat) (data : List Nat) (hck : ck = 0 ∨ ck = 32 ∨ ck = 64) :
    (Container.frameBits (encodeNone ck data)).length = Kanzi.Drv.noneFrameBits ck data := by
  rw [Container.frameBits_length, encodeNone_length ck data hck]
  rfl

/-! ### frames: the parser with the `maxFrameLength` bound agrees with the container parser on frames
within the bound -/

theorem parseFrame_of_container (B : Nat) (bs p rest : Bits)
    (h : Container.parseFrame bs = .frame p rest) (hp : p.length ≤ maxFrameBits B) :
    parseFrame B bs = .frame p rest := by
  unfold Container.parseFrame at h
  unfold parseFrame
  by_cases h1 : bs.length < 5
  · rw [if_pos h1] at h; cases h
  · rw [if_neg h1] at h ⊢
    simp only [] at h ⊢
    by_cases h2 : (bs.drop 5).length < bitsNat (bs.take 5) + 3
    · rw [if_pos h2] at h; cases h
    · rw [if_neg h2] at h ⊢
      by_cases h3 : bitsNat ((bs.drop 5).take (bitsNat (bs.take 5) + 3)) = 0
      · rw [if_pos h3] at h; cases h
      · rw [if_neg h3] at h ⊢
        by_cases h4 : bitsNat ((bs.drop 5).take (bitsNat (bs.take 5) + 3)) > 2 ^ 34
        · rw [if_pos h4] at h; cases h
        · rw [if_neg h4] at h
          by_cases h5 : ((bs.drop 5).drop (bitsNat (bs.take 5) + 3)).length <
              bitsNat ((bs.drop 5).take (bitsNat (bs.take 5) + 3))
          · rw [if_pos h5] at h; cases h
          · rw [if_neg h5] at h
            injection h with hp1 hp2
            have hl : p.length = bitsNat ((bs.drop 5).take (bitsNat (bs.take 5) + 3)) := by
              rw [← hp1, List.length_take]; omega
            rw [if_neg (by omega), if_neg h5, hp1, hp2]

theorem parseFrame_of_container_end (B : Nat) (bs rest : Bits)
    (h : Container.parseFrame bs = .endMark rest) : parseFrame B bs = .endMark rest := by
  unfold Container.parseFrame at h
  unfold parseFrame
  by_cases h1 : bs.length < 5
  · rw [if_pos h1] at h; cases h
  · rw [if_neg h1] at h ⊢
    simp only [] at h ⊢
    by_cases h2 : (bs.drop 5).length < bitsNat (bs.take 5) + 3
    · rw [if_pos h2] at h; cases h
    · rw [if_neg h2] at h ⊢
      by_cases h3 : bitsNat ((bs.drop 5).take (bitsNat (bs.take 5) + 3)) = 0
      · rw [if_pos h3] at h ⊢; exact h
      · rw [if_neg h3] at h
        by_cases h4 : bitsNat ((bs.drop 5).take (bitsNat (bs.take 5) + 3)) > 2 ^ 34
        · rw [if_pos h4] at h; cases h
        · rw [if_neg h4] at h
          by_cases h5 : ((bs.drop 5).drop (bitsNat (bs.take 5) + 3)).length <
              bitsNat ((bs.drop 5).take (bitsNat (bs.take 5) + 3))
          · rw [if_pos h5] at h; cases h
          · rw [if_neg h5] at h; cases h

theorem parseFrames_stream (B : Nat) (payloads : List Bits) (pad : Bits)
    (h : ∀ p ∈ payloads, 0 < p.length ∧ p.length < 2 ^ 34 ∧ p.length ≤ maxFrameBits B)
    (fuel : Nat) (hf : payloads.length + 1 ≤ fuel) :
    parseFrames B fuel (payloads.flatMap Container.frameBits ++ Container.endMarker ++ pad) =
      payloads.map Container.Item.payload ++ [Container.Item.endMark] := by
  induction payloads generalizing fuel with
  | nil =>
    obtain ⟨f, rfl⟩ : ∃ f, fuel = f + 1 := ⟨fuel - 1, by simp at hf; omega⟩
    simp only [List.flatMap_nil, List.nil_append, List.map_nil]
    rw [parseFrames, parseFrame_of_container_end B _ _ (Container.parseFrame_endMarker pad)]
  | cons p ps ih =>
    obtain ⟨f, rfl⟩ : ∃ f, fuel = f + 1 := ⟨fuel - 1, by simp at hf; omega⟩
    have hp := h p (by simp)
    have ih' := ih (fun q hq => h q (by simp [hq])) f (by simp at hf; omega)
    simp only [List.flatMap_cons, List.map_cons, List.cons_append, List.append_assoc] at ih' ⊢
    rw [parseFrames, parseFrame_of_container B _ p _
      (Container.parseFrame_frameBits p _ hp.1 hp.2.1) hp.2.2]
    simp only [ih']

theorem flatMap_frameBits_length (payloads : List Bits) :
    payloads.length ≤ (payloads.flatMap Container.frameBits).length := by
  induction payloads with
  | nil => simp
  | cons p ps ih =>
    simp only [List.flatMap_cons, List.length_append, List.length_cons, Container.frameBits_length]
    omega

/-! ### blocks -/

/-- valid blocks of a stream with block size `B` -/
def ValidBlocks (B : Nat) (blocks : List (List Nat)) : Prop :=
  ∀ b ∈ blocks, 0 < b.length ∧ b.length ≤ B ∧ ∀ x ∈ b, x < 256

theorem encodeNone_bounds (ck B : Nat) (b : List Nat) (h0 : 0 < b.length) (hB : b.length ≤ B)
    (hmax : B ≤ 2 ^ 30) :
    0 < (encodeNone ck b).length ∧ (encodeNone ck b).length < 2 ^ 34 ∧
      (encodeNone ck b).length ≤ maxFrameBits B := by
  have h4 := dataSizeOf_le b.length (by omega)
  have hm := le_maxTransformLength b.length B hB (by omega)
  unfold encodeNone
  rw [encodeNoneWith_length]
  simp only [maxFrameBits]
  rcases ckWidth_cases ck with e | e | e <;> rw [e] <;> omega

theorem decodeFrames_stream (ck B : Nat) (blocks : List (List Nat)) (hv : ValidBlocks B blocks)
    (hmax : B ≤ 2 ^ 30) :
    decodeFrames ck B (blocks.map (fun b => Container.Item.payload (encodeNone ck b)) ++
      [Container.Item.endMark]) = (blocks, .endOfStream) := by
  induction blocks with
  | nil => simp [decodeFrames]
  | cons b bs ih =>
    have hb := hv b (by simp)
    have ih' := ih (fun q hq => hv q (by simp [hq]))
    simp only [List.map_cons, List.cons_append]
    rw [decodeFrames, decodeTask_encodeNone ck B b hb.1 hb.2.1 (by omega) hb.2.2]
    simp only [ih']
    rw [if_neg (by omega)]

/-! ### the whole image -/

theorem streamBits_eq (h : Header.Header) (ck : Nat) (blocks : List (List Nat)) :
    streamBits h ck blocks = Header.headerBits h ++
      ((blocks.map (encodeNone ck)).flatMap Container.frameBits ++ Container.endMarker) := by
  unfold streamBits
  rw [List.append_assoc, List.flatMap_map]

/-- the bits of the image: the stream bits followed by fewer than 8 zero bits -/
theorem ofBytes_streamImage (h : Header.Header) (ck : Nat) (blocks : List (List Nat)) :
    ofBytes (streamImage h ck blocks) =
      streamBits h ck blocks ++ List.replicate (padLen (streamBits h ck blocks).length) false := by
  unfold streamImage
  rw [ofBytes_packBytes]

theorem payloads_bounds (ck B : Nat) (blocks : List (List Nat)) (hv : ValidBlocks B blocks)
    (hmax : B ≤ 2 ^ 30) :
    ∀ p ∈ blocks.map (encodeNone ck), 0 < p.length ∧ p.length < 2 ^ 34 ∧ p.length ≤ maxFrameBits B := by
  intro p hp
  obtain ⟨b, hb, rfl⟩ := List.mem_map.mp hp
  have := hv b hb
  exact encodeNone_bounds ck B b this.1 this.2.1 hmax

theorem parseImage_streamImage (h : Header.Header) (wf : Header.WF h) (hent : h.entropyType = 0)
    (htr : h.transformType = 0) (blocks : List (List Nat)) (hv : ValidBlocks h.blockSize blocks) :
    parseImage (streamImage h (32 * h.ckSize) blocks) = (some h, blocks, .endOfStream) := by
  unfold parseImage
  rw [ofBytes_streamImage, streamBits_eq, List.append_assoc,
    Header.parseHeader_headerBits h wf]
  simp only []
  rw [if_neg (by simp [hent, htr])]
  rw [parseFrames_stream h.blockSize _ _ (payloads_bounds _ _ blocks hv wf.bsHi) _
    (by
      have := flatMap_frameBits_length (blocks.map (encodeNone (32 * h.ckSize)))
      simp only [List.length_append, List.length_map] at this ⊢
      omega)]
  rw [List.map_map]
  have := decodeFrames_stream (32 * h.ckSize) h.blockSize blocks hv wf.bsHi
  simp only [Function.comp_def]
  rw [this]

theorem streamImageFast_eq (h : Header.Header) (ck : Nat) (blocks : List (List Nat)) :
    streamImageFast h ck blocks = streamImage h ck blocks := by
  unfold streamImageFast streamImage
  exact packFast_eq _

/-! ### size of the image = the accounting of the Writer model -/

theorem streamBits_length (h : Header.Header) (ck : Nat) (blocks : List (List Nat))
    (hck : ck = 0 ∨ ck = 32 ∨ ck = 64) :
    (streamBits h ck blocks).length =
      (Header.headerBits h).length + (blocks.map (Kanzi.Drv.noneFrameBits ck)).sum + 8 := by
  unfold streamBits
  rw [List.length_append, List.length_append, Container.endMarker_length]
  congr 2
  induction blocks with
  | nil => simp
  | cons b bs ih =>
    rw [List.flatMap_cons, List.length_append, ih, frameBits_encodeNone_length ck b hck]
    simp

theorem streamImage_length (h : Header.Header) (ck : Nat) (blocks : List (List Nat))
    (hck : ck = 0 ∨ ck = 32 ∨ ck = 64) :
    (streamImage h ck blocks).length =
      ((Header.headerBits h).length + (blocks.map (Kanzi.Drv.noneFrameBits ck)).sum + 8 + 7) / 8 := by
  unfold streamImage
  rw [packBytes_length, streamBits_length h ck blocks hck]

/-! ### the blocks cut by the Writer are valid blocks -/

theorem mem_of_mem_chunks (B : Nat) (l : List Nat) (b : List Nat) (hb : b ∈ Spec.chunks B l)
    (x : Nat) (hx : x ∈ b) : x ∈ l := by
  unfold Spec.chunks at hb
  obtain ⟨k, _, rfl⟩ := List.mem_map.mp hb
  exact List.mem_of_mem_drop (List.mem_of_mem_take hx)

end Kanzi.Block
