package main

import (
	"fmt"
	"math/rand"
	"os"
	"runtime/debug"

	"github.com/flanglet/kanzi-go/v2/transform"
	"scratch/gen"
)

func run(name string, data []byte) {
	defer func() {
		if r := recover(); r != nil {
			fmt.Println(name, "PANIC:", r)
			os.Stdout.Write(debug.Stack())
		}
	}()
	typ, _ := transform.GetType(name)
	ctx := map[string]any{"transform": name, "entropy": "NONE", "blockSize": uint(1 << 20), "size": uint(len(data)), "bsVersion": uint(6), "jobs": uint(1)}
	t, _ := transform.New(&ctx, typ)
	out := make([]byte, t.MaxEncodedLen(len(data)))
	t.Forward(data, out)
}

func main() {
	r := rand.New(rand.NewSource(70011))
	run("UTF", gen.UTF8(r, 70000, 40000))
	r = rand.New(rand.NewSource(70011))
	run("EXE", gen.Exe(r, 70000, true))
}
