/-
Concrete forged inputs for the C03 theorems about the entropy decoders (checked by evaluation in the
kernel): the index fault of `RangeDecoder.decodeByte`, the stale `f2s` entry that turns a forged code
into a read-to-the-end-of-stream, the index fault of `BinaryEntropyDecoder.read`.
-/
import Kanzi.Model.RangeDec
import Kanzi.Model.BinDecCap

namespace Kanzi.C03Ex
open Kanzi.Bits Kanzi.EntSmall

/-- header {0,1}, logRange 8, f[1] = 100, then the 60-bit code 2^60-1 : slot 256 = len(f2s) -/
def rangeFaultStream : List Nat := [0x80, 0x0c, 0x3e, 0x3f, 0xff, 0xff, 0xff, 0xff, 0xff, 0xff, 0xff]

def isFail (r : Kanzi.RangeDec.Ret) (c : Kanzi.RangeDec.Cls) (cap : Nat) : Bool :=
  match r with
  | .fail c' cap' => decide (c' = c) && decide (cap' = cap)
  | .done _ _ _ => false

/-- Read 1: header {5,7}, logRange 9, f[7] = 300, code 0 (symbol 5).  Read 2: header {0,1}, logRange 8,
    f[1] = 100, code 2^60-1 -/
def staleStream : List Nat :=
  [0x82, 0x80, 0xcc, 0xac, 0, 0, 0, 0, 0, 0, 0, 0x20, 0x03, 0x0f, 0x8f, 0xff, 0xff, 0xff, 0xff, 0xff, 0xff, 0xff, 0xc0]

/-- the two Reads on ONE decoder: the first returns [5] and leaves 512 entries in `f2s`; the second
    finds the stale entry `f2s[256] = 7`, a symbol of frequency 0 in its own table, and reads to the
    end of the stream -/
def staleDemo (tail : Nat) : Bool :=
  match Kanzi.RangeDec.read #[] (ofBytes (staleStream ++ List.replicate tail 0)) 1 1024 with
  | .done out t r =>
    decide (out = [5]) && decide (t.size = 512) && decide (t.getD 256 0 = 7) &&
      isFail (Kanzi.RangeDec.read t r 1 1024) .eos 512
  | .fail _ _ => false

/-- the second Read alone, on a fresh decoder: the same bits give an index fault instead -/
def freshDemo : Bool :=
  isFail (Kanzi.RangeDec.read #[] ((ofBytes staleStream).drop 90) 1 1024) .fault 256

/-- a predictor within the 12-bit contract: always 0 -/
def zeroP : Kanzi.BinEnt.Pred Unit := { get := fun _ => 0, update := fun _ _ => () }

def isIndex {α : Type} (r : Except Kanzi.BinEnt.Err α) : Bool :=
  match r with
  | .error .index => true
  | _ => false

def isOk {α : Type} (r : Except Kanzi.BinEnt.Err α) : Bool :=
  match r with
  | .ok _ => true
  | _ => false

/-- VarInt 0 (empty payload), `current` = 0: with the predictor at 0 every bit costs a 32-bit refill -/
def binFaultStream : Bits := ofBytes [0, 0, 0, 0, 0, 0, 0, 0]

end Kanzi.C03Ex
