/-
Model of the fixed-step delta codec `transform.FSDCodec` (v2/transform/FSDCodec.go, transform name
"MM"), slice `fsd`, property C13.

  * `fsdMaxEncodedLen`             Go `FSDCodec.MaxEncodedLen`
  * `fsdForward dt src n`          Go `FSDCodec.Forward(src, dst)` with `len(dst) = n`
  * `fsdInverse src n`             Go `FSDCodec.Inverse(src, dst)` with `len(dst) = n`
  * `fsdEncode a mode dist ..`     the emission part of Forward (header, first `dist` bytes, delta or
                                   xor loop) for an ARBITRARY `(mode, dist)`; Forward calls it with the
                                   pair chosen by `sampleLoop` / `entropies` / `minIndex` / `largeDeltas`
  * `getMagicType`, `log2NoCheck`, `log2ScaledBy1024`, `entropy1024`: `internal.GetMagicType`,
    `internal.Log2NoCheck`, `internal.Log2ScaledBy1024`, `internal.ComputeFirstOrderEntropy1024`
    (tables `LOG2`, `LOG2_4096` copied verbatim); `internal.DetectSimpleType` is `Kanzi.RLT.detectSimpleType`.

Core Lean only (linked into `kmodel`).  Bytes are `Nat` (< 256).  The source is an `Array Nat` read
through `a[i]?`; the destination is the `Array Nat` of the bytes written so far (`out.size` is the Go
`dstIdx`; every Go store is `dst[dstIdx] = v; dstIdx++`, i.e. an append, `Kanzi.RLT.wr` checks it
against `len(dst)`).  `Inverse` reads its source strictly sequentially under the guard
`srcIdx < srcEnd`: the model recurses on the list of the remaining source bytes (`srcIdx = len - remaining`).

Outcomes (`Kanzi.RLT.Out`): `.ok` = nil error, `.err c` = non-nil Go error of class `c`, `.fault` = a Go
run-time panic: every slice read / write of the Go code that is not under a syntactic guard is modelled
with its bounds check (`a[i]?` = `none`, negative index `i - d` with `i < d`, `wr` beyond `len(dst)`,
`dst[dstIdx-dist]`).  The two `for srcIdx < count` loops carry fuel (one unit per iteration; exhausted
fuel is `.fault "fuel"`), the counted `for i := lo; i < hi; i++` loops recurse on the iteration count.

The context of `NewFSDCodecWithCtx` enters `Forward` through the `dataType` entry only: `dt` (0 =
DT_UNDEFINED = no ctx, no entry or an explicit DT_UNDEFINED); `NewFSDCodec()` is `dt = 0`.  The value
stored into the ctx map by Forward is `fsdCtxWrite`.  Not modelled: the aliasing test `&src[0] == &dst[0]`
(callers own two distinct buffers); the numbers `(srcIdx, dstIdx)` returned together with a non-nil error.
-/
import Kanzi.Model.RLT

namespace Kanzi.FSD
open Kanzi.RLT (Out Res wr detectSimpleType)

/-! ## constants and tables -/

def MIN_BLOCK_LENGTH : Nat := 1024
def ESCAPE_TOKEN : Nat := 0xFF
def DELTA_CODING : Nat := 0
def XOR_CODING : Nat := 1

def DT_UNDEFINED : Nat := 0
def DT_MULTIMEDIA : Nat := 2
def DT_BIN : Nat := 7

/-- Go: `_FSD_ZIGZAG1` -/
def ZIGZAG1 : Array Nat := #[
   253, 251, 249, 247, 245, 243, 241, 239, 237, 235, 233, 231, 229, 227, 225, 223,
   221, 219, 217, 215, 213, 211, 209, 207, 205, 203, 201, 199, 197, 195, 193, 191,
   189, 187, 185, 183, 181, 179, 177, 175, 173, 171, 169, 167, 165, 163, 161, 159,
   157, 155, 153, 151, 149, 147, 145, 143, 141, 139, 137, 135, 133, 131, 129, 127,
   125, 123, 121, 119, 117, 115, 113, 111, 109, 107, 105, 103, 101, 99, 97, 95,
   93, 91, 89, 87, 85, 83, 81, 79, 77, 75, 73, 71, 69, 67, 65, 63,
   61, 59, 57, 55, 53, 51, 49, 47, 45, 43, 41, 39, 37, 35, 33, 31,
   29, 27, 25, 23, 21, 19, 17, 15, 13, 11, 9, 7, 5, 3, 1, 0,
   2, 4, 6, 8, 10, 12, 14, 16, 18, 20, 22, 24, 26, 28, 30, 32,
   34, 36, 38, 40, 42, 44, 46, 48, 50, 52, 54, 56, 58, 60, 62, 64,
   66, 68, 70, 72, 74, 76, 78, 80, 82, 84, 86, 88, 90, 92, 94, 96,
   98, 100, 102, 104, 106, 108, 110, 112, 114, 116, 118, 120, 122, 124, 126, 128,
   130, 132, 134, 136, 138, 140, 142, 144, 146, 148, 150, 152, 154, 156, 158, 160,
   162, 164, 166, 168, 170, 172, 174, 176, 178, 180, 182, 184, 186, 188, 190, 192,
   194, 196, 198, 200, 202, 204, 206, 208, 210, 212, 214, 216, 218, 220, 222, 224,
   226, 228, 230, 232, 234, 236, 238, 240, 242, 244, 246, 248, 250, 252, 254, 255]

/-- Go: `_FSD_ZIGZAG2` -/
def ZIGZAG2 : Array Int := #[
   0, -1, 1, -2, 2, -3, 3, -4, 4, -5, 5, -6, 6, -7, 7, -8,
   8, -9, 9, -10, 10, -11, 11, -12, 12, -13, 13, -14, 14, -15, 15, -16,
   16, -17, 17, -18, 18, -19, 19, -20, 20, -21, 21, -22, 22, -23, 23, -24,
   24, -25, 25, -26, 26, -27, 27, -28, 28, -29, 29, -30, 30, -31, 31, -32,
   32, -33, 33, -34, 34, -35, 35, -36, 36, -37, 37, -38, 38, -39, 39, -40,
   40, -41, 41, -42, 42, -43, 43, -44, 44, -45, 45, -46, 46, -47, 47, -48,
   48, -49, 49, -50, 50, -51, 51, -52, 52, -53, 53, -54, 54, -55, 55, -56,
   56, -57, 57, -58, 58, -59, 59, -60, 60, -61, 61, -62, 62, -63, 63, -64,
   64, -65, 65, -66, 66, -67, 67, -68, 68, -69, 69, -70, 70, -71, 71, -72,
   72, -73, 73, -74, 74, -75, 75, -76, 76, -77, 77, -78, 78, -79, 79, -80,
   80, -81, 81, -82, 82, -83, 83, -84, 84, -85, 85, -86, 86, -87, 87, -88,
   88, -89, 89, -90, 90, -91, 91, -92, 92, -93, 93, -94, 94, -95, 95, -96,
   96, -97, 97, -98, 98, -99, 99, -100, 100, -101, 101, -102, 102, -103, 103, -104,
   104, -105, 105, -106, 106, -107, 107, -108, 108, -109, 109, -110, 110, -111, 111, -112,
   112, -113, 113, -114, 114, -115, 115, -116, 116, -117, 117, -118, 118, -119, 119, -120,
   120, -121, 121, -122, 122, -123, 123, -124, 124, -125, 125, -126, 126, -127, 127, -128]

/-- Go: `internal.LOG2` -/
def LOG2 : Array Nat := #[
   0, 1, 1, 2, 2, 2, 2, 3, 3, 3, 3, 3, 3, 3, 3, 4, 4, 4, 4, 4, 4, 4, 4, 4, 4, 4, 4, 4, 4, 4, 4, 5,
   5, 5, 5, 5, 5, 5, 5, 5, 5, 5, 5, 5, 5, 5, 5, 5, 5, 5, 5, 5, 5, 5, 5, 5, 5, 5, 5, 5, 5, 5, 5, 6,
   6, 6, 6, 6, 6, 6, 6, 6, 6, 6, 6, 6, 6, 6, 6, 6, 6, 6, 6, 6, 6, 6, 6, 6, 6, 6, 6, 6, 6, 6, 6, 6,
   6, 6, 6, 6, 6, 6, 6, 6, 6, 6, 6, 6, 6, 6, 6, 6, 6, 6, 6, 6, 6, 6, 6, 6, 6, 6, 6, 6, 6, 6, 6, 7,
   7, 7, 7, 7, 7, 7, 7, 7, 7, 7, 7, 7, 7, 7, 7, 7, 7, 7, 7, 7, 7, 7, 7, 7, 7, 7, 7, 7, 7, 7, 7, 7,
   7, 7, 7, 7, 7, 7, 7, 7, 7, 7, 7, 7, 7, 7, 7, 7, 7, 7, 7, 7, 7, 7, 7, 7, 7, 7, 7, 7, 7, 7, 7, 7,
   7, 7, 7, 7, 7, 7, 7, 7, 7, 7, 7, 7, 7, 7, 7, 7, 7, 7, 7, 7, 7, 7, 7, 7, 7, 7, 7, 7, 7, 7, 7, 7,
   7, 7, 7, 7, 7, 7, 7, 7, 7, 7, 7, 7, 7, 7, 7, 7, 7, 7, 7, 7, 7, 7, 7, 7, 7, 7, 7, 7, 7, 7, 7, 8]

/-- Go: `internal.LOG2_4096` -/
def LOG2_4096 : Array Nat := #[
   0, 0, 4096, 6492, 8192, 9511, 10588, 11499, 12288, 12984, 13607, 14170,
   14684, 15157, 15595, 16003, 16384, 16742, 17080, 17400, 17703, 17991, 18266, 18529,
   18780, 19021, 19253, 19476, 19691, 19898, 20099, 20292, 20480, 20662, 20838, 21010,
   21176, 21338, 21496, 21649, 21799, 21945, 22087, 22226, 22362, 22495, 22625, 22752,
   22876, 22998, 23117, 23234, 23349, 23462, 23572, 23680, 23787, 23892, 23994, 24095,
   24195, 24292, 24388, 24483, 24576, 24668, 24758, 24847, 24934, 25021, 25106, 25189,
   25272, 25354, 25434, 25513, 25592, 25669, 25745, 25820, 25895, 25968, 26041, 26112,
   26183, 26253, 26322, 26390, 26458, 26525, 26591, 26656, 26721, 26784, 26848, 26910,
   26972, 27033, 27094, 27154, 27213, 27272, 27330, 27388, 27445, 27502, 27558, 27613,
   27668, 27722, 27776, 27830, 27883, 27935, 27988, 28039, 28090, 28141, 28191, 28241,
   28291, 28340, 28388, 28437, 28484, 28532, 28579, 28626, 28672, 28718, 28764, 28809,
   28854, 28898, 28943, 28987, 29030, 29074, 29117, 29159, 29202, 29244, 29285, 29327,
   29368, 29409, 29450, 29490, 29530, 29570, 29609, 29649, 29688, 29726, 29765, 29803,
   29841, 29879, 29916, 29954, 29991, 30027, 30064, 30100, 30137, 30172, 30208, 30244,
   30279, 30314, 30349, 30384, 30418, 30452, 30486, 30520, 30554, 30587, 30621, 30654,
   30687, 30719, 30752, 30784, 30817, 30849, 30880, 30912, 30944, 30975, 31006, 31037,
   31068, 31099, 31129, 31160, 31190, 31220, 31250, 31280, 31309, 31339, 31368, 31397,
   31426, 31455, 31484, 31513, 31541, 31569, 31598, 31626, 31654, 31681, 31709, 31737,
   31764, 31791, 31818, 31846, 31872, 31899, 31926, 31952, 31979, 32005, 32031, 32058,
   32084, 32109, 32135, 32161, 32186, 32212, 32237, 32262, 32287, 32312, 32337, 32362,
   32387, 32411, 32436, 32460, 32484, 32508, 32533, 32557, 32580, 32604, 32628, 32651,
   32675, 32698, 32722, 32745, 32768]

def zz1 (i : Nat) : Nat := ZIGZAG1.getD i 0
def zz2 (i : Nat) : Int := ZIGZAG2.getD i 0

/-- Go: `FSDCodec.MaxEncodedLen` -/
def fsdMaxEncodedLen (srcLen : Nat) : Nat := srcLen + max (srcLen >>> 4) 64

/-! ## internal.GetMagicType -/

def JPG_MAGIC : Nat := 0xFFD8FFE0
def BZIP2_MAGIC : Nat := 0x425A68
def MP3_ID3_MAGIC : Nat := 0x494433
def RIFF_MAGIC : Nat := 0x52494646
def BMP_MAGIC : Nat := 0x424D
def PBM_MAGIC : Nat := 0x5034
def PGM_MAGIC : Nat := 0x5035
def PPM_MAGIC : Nat := 0x5036
def NO_MAGIC : Nat := 0

/-- Go: `_KEYS32` -/
def KEYS32 : List Nat :=
  [0x47494638, 0x25504446, 0x504B0304, 0x377ABCAF, 0x89504E47,
   0x7F454C46, 0xFEEDFACE, 0xCEFAEDFE, 0xFEEDFACF, 0xCFFAEDFE,
   0x28B52FFD, 0x81CFB2CE, 0x4D534346, 0x52494646, 0x664C6143,
   0xFD377A58, 0x4B414E5A, 0x52617221]

/-- Go: `_KEYS16` (GZIP, BMP, WIN) -/
def KEYS16 : List Nat := [0x1F8B, 0x424D, 0x4D5A]

/-- Go: `internal.GetMagicType(src)` -/
def getMagicType (src : List Nat) : Nat :=
  match src with
  | a :: b :: c :: d :: _ =>
    let key := ((a * 256 + b) * 256 + c) * 256 + d
    if key / 16 * 16 = JPG_MAGIC then key
    else if key >>> 8 = BZIP2_MAGIC ∨ key >>> 8 = MP3_ID3_MAGIC then key >>> 8
    else if KEYS32.contains key then key
    else
      let key16 := key >>> 16
      if KEYS16.contains key16 then key16
      else if key16 = PBM_MAGIC ∨ key16 = PGM_MAGIC ∨ key16 = PPM_MAGIC then
        let subkey := (key >>> 8) &&& 0xFF
        if subkey = 0x07 ∨ subkey = 0x0A ∨ subkey = 0x0D ∨ subkey = 0x20 then key16 else NO_MAGIC
      else NO_MAGIC
  | _ => NO_MAGIC

/-- Go: the `switch magic` of Forward: the candidate types that are not skipped -/
def magicOk (m : Nat) : Bool :=
  m = BMP_MAGIC ∨ m = RIFF_MAGIC ∨ m = PBM_MAGIC ∨ m = PGM_MAGIC ∨ m = PPM_MAGIC ∨ m = NO_MAGIC

/-! ## internal.ComputeFirstOrderEntropy1024 -/

/-- Go: `internal.Log2NoCheck(x)` on a `uint32` (`x ≠ 0`) -/
def log2NoCheck (x : Nat) : Nat :=
  let r1 := if x ≥ 2 ^ 16 then 16 else 0
  let x1 := if x ≥ 2 ^ 16 then x >>> 16 else x
  let r2 := if x1 ≥ 2 ^ 8 then r1 + 8 else r1
  let x2 := if x1 ≥ 2 ^ 8 then x1 >>> 8 else x1
  r2 + LOG2.getD (x2 - 1) 0

/-- Go: `internal.Log2ScaledBy1024(x)` on a `uint32`, error dropped (the callers ignore it): 0 for `x = 0` -/
def log2ScaledBy1024 (x : Nat) : Nat :=
  if x = 0 then 0
  else if x < 256 then (LOG2_4096.getD x 0 + 2) >>> 2
  else
    let log := log2NoCheck x
    if x &&& (x - 1) = 0 then log <<< 10
    else (log - 7) * 1024 + ((LOG2_4096.getD (x >>> (log - 7)) 0 + 2) >>> 2)

/-- Go: `internal.ComputeFirstOrderEntropy1024(blockLen, histo)`; `uint32` conversions and the `uint32`
    subtraction wrap, the sum is a `uint64` -/
def entropy1024 (blockLen : Nat) (histo : Array Nat) : Nat :=
  if blockLen = 0 then 0
  else
    let logLength1024 := log2ScaledBy1024 (blockLen % 2 ^ 32)
    let sum := (List.range 256).foldl (fun (sum : Nat) i =>
      let f := histo.getD i 0
      if f = 0 then sum
      else
        let log1024 := log2ScaledBy1024 (f % 2 ^ 32)
        (sum + ((((f % 2 ^ 64) * ((logLength1024 + 2 ^ 32 - log1024) % 2 ^ 32)) % 2 ^ 64) >>> 3)) % 2 ^ 64) 0
    sum / blockLen

/-! ## sampling: the seven histograms, the entropies, the best distance, the coding mode -/

abbrev Hist := Array (Array Nat)

/-- Go: `var histo [7][256]int` -/
def emptyHist : Hist := Array.replicate 7 (Array.replicate 256 0)

/-- Go: `histo[k][v]++` -/
def bump (h : Hist) (k v : Nat) : Hist := h.modify k (fun r => r.modify v (· + 1))

/-- Go: `in[i-d]` where `in = src[base:]` (panics for a negative index or beyond the end) -/
def rdBack (a : Array Nat) (base i d : Nat) : Option Nat := if i < d then none else a[base + (i - d)]?

/-- Go: one group `b := in[i]; histo[0][b]++; histo[1][b^in[i-1]]++; ... histo[6][b^in[i-16]]++` -/
def sampleAt (a : Array Nat) (base i : Nat) (h : Hist) : Out Hist :=
  match a[base + i]?, rdBack a base i 1, rdBack a base i 2, rdBack a base i 3, rdBack a base i 4,
      rdBack a base i 8, rdBack a base i 16 with
  | some b, some p1, some p2, some p3, some p4, some p8, some p16 =>
    .ok (bump (bump (bump (bump (bump (bump (bump h 0 b) 1 (b ^^^ p1)) 2 (b ^^^ p2)) 3 (b ^^^ p3))
      4 (b ^^^ p4)) 5 (b ^^^ p8)) 6 (b ^^^ p16))
  | _, _, _, _, _, _, _ => .fault "src-index"

/-- Go: `for i := count10; i < count5; i++ { in0 ..; in1 ..; in2 .. }` with `n` iterations left
    (`in0 = src[0:]`, `in1 = src[2*count5:]`, `in2 = src[4*count5:]`) -/
def sampleLoop (a : Array Nat) (c5 : Nat) : Nat → Nat → Hist → Out Hist
  | 0, _, h => .ok h
  | n + 1, i, h =>
    (sampleAt a 0 i h).bind fun h1 =>
    (sampleAt a (2 * c5) i h1).bind fun h2 =>
    (sampleAt a (4 * c5) i h2).bind fun h3 => sampleLoop a c5 n (i + 1) h3

/-- Go: `ent[i] = internal.ComputeFirstOrderEntropy1024(3*count10, histo[i][:])`, `i = 0..6` -/
def entropies (blockLen : Nat) (h : Hist) : List Nat :=
  (List.range 7).map fun k => entropy1024 blockLen (h.getD k #[])

/-- Go: `minIdx := 0; for i := range ent { if ent[i] < ent[minIdx] { minIdx = i } }` -/
def minIndex (ent : List Nat) : Nat :=
  (List.range ent.length).foldl (fun m i => if ent.getD i 0 < ent.getD m 0 then i else m) 0

/-- Go: `distances` -/
def distances : List Nat := [0, 1, 2, 3, 4, 8, 16]

/-- Go: `for i := 2*count5; i < 3*count5; i++ { delta := int32(src[i]) - int32(src[i-dist]); ... largeDeltas++ }`
    with `n` iterations left -/
def largeDeltas (a : Array Nat) (dist : Nat) : Nat → Nat → Nat → Out Nat
  | 0, _, acc => .ok acc
  | n + 1, i, acc =>
    match a[i]?, rdBack a 0 i dist with
    | some x, some p =>
      let delta : Int := (x : Int) - (p : Int)
      largeDeltas a dist n (i + 1) (if delta < -127 ∨ delta > 127 then acc + 1 else acc)
    | _, _ => .fault "src-index"

/-! ## emission -/

/-- Go: "Emit first bytes" `for i := 0; i < dist; i++ { dst[dstIdx] = src[srcIdx]; dstIdx++; srcIdx++ }` -/
def copyFirst (a : Array Nat) (dstLen : Nat) : Nat → Nat → Array Nat → Out (Array Nat)
  | 0, _, out => .ok out
  | n + 1, i, out =>
    match a[i]? with
    | none => .fault "src-index"
    | some x => (wr dstLen out [x]).bind fun o => copyFirst a dstLen n (i + 1) o

/-- Go: the bytes stored for `src[srcIdx] = x`, `src[srcIdx-dist] = p` in delta mode -/
def deltaToken (x p : Nat) : List Nat :=
  let delta : Int := 127 + (x : Int) - (p : Int)
  if 0 ≤ delta ∧ delta < 255 then [zz1 delta.toNat] else [ESCAPE_TOKEN, x ^^^ p]

/-- Go: `for srcIdx < count && dstIdx < dstEnd-1 { ... }` (delta coding); returns `(srcIdx, dst[0:dstIdx])`.
    `dstEnd = MaxEncodedLen(count)` bounds the loop, `dstLen = len(dst)` the stores. -/
def encDelta (a : Array Nat) (dist dstEnd dstLen : Nat) : Nat → Nat → Array Nat → Out (Nat × Array Nat)
  | 0, i, out => if i < a.size ∧ out.size + 1 < dstEnd then .fault "fuel" else .ok (i, out)
  | f + 1, i, out =>
    if i < a.size ∧ out.size + 1 < dstEnd then
      match a[i]?, rdBack a 0 i dist with
      | some x, some p =>
        (wr dstLen out (deltaToken x p)).bind fun o => encDelta a dist dstEnd dstLen f (i + 1) o
      | _, _ => .fault "src-index"
    else .ok (i, out)

/-- Go: `for srcIdx < count { dst[dstIdx] = src[srcIdx] ^ src[srcIdx-dist]; ... }` (xor coding) -/
def encXor (a : Array Nat) (dist dstLen : Nat) : Nat → Nat → Array Nat → Out (Nat × Array Nat)
  | 0, i, out => if i < a.size then .fault "fuel" else .ok (i, out)
  | f + 1, i, out =>
    if i < a.size then
      match a[i]?, rdBack a 0 i dist with
      | some x, some p => (wr dstLen out [x ^^^ p]).bind fun o => encXor a dist dstLen f (i + 1) o
      | _, _ => .fault "src-index"
    else .ok (i, out)

/-- Go: Forward from `dst[0] = mode` to the end of the coding loop, for any `(mode, dist)`;
    returns `(srcIdx, dst[0:dstIdx])` -/
def fsdEncode (a : Array Nat) (mode dist dstEnd dstLen : Nat) : Out (Nat × Array Nat) :=
  (wr dstLen #[] [mode, dist % 256]).bind fun o0 =>
  (copyFirst a dstLen dist 0 o0).bind fun o1 =>
    if mode = DELTA_CODING then encDelta a dist dstEnd dstLen (a.size - dist) dist o1
    else encXor a dist dstLen (a.size - dist) dist o1

/-- Go: "Extra check that the transform makes sense": `histo[0][out1[i]]++; histo[0][out2[i]]++`
    for `out1 = dst[count5:]`, `out2 = dst[3*count5:]`, with `n` iterations left -/
def finalHisto (o : Array Nat) (c5 : Nat) : Nat → Nat → Array Nat → Out (Array Nat)
  | 0, _, h => .ok h
  | n + 1, i, h =>
    match o[c5 + i]?, o[3 * c5 + i]? with
    | some u, some v => finalHisto o c5 n (i + 1) ((h.modify u (· + 1)).modify v (· + 1))
    | _, _ => .fault "dst-index"

/-- the choice made by the sampling phase of Forward -/
structure Choice where
  ent0 : Nat
  entMin : Nat
  minIdx : Nat
  histo0 : Array Nat
deriving Repr

/-- Go: Forward from `count10 := count / 10` to `if ent[minIdx] >= ent[0]` -/
def fsdSample (a : Array Nat) : Out Choice :=
  let c10 := a.size / 10
  let c5 := 2 * c10
  (sampleLoop a c5 (c5 - c10) c10 emptyHist).bind fun h =>
    let ent := entropies (3 * c10) h
    let m := minIndex ent
    .ok ⟨ent.getD 0 0, ent.getD m 0, m, h.getD 0 #[]⟩

/-- Go: the coding mode: xor when the large deltas of the middle fifth exceed `count5 >> 5` -/
def fsdMode (a : Array Nat) (dist : Nat) : Out Nat :=
  let c5 := 2 * (a.size / 10)
  (largeDeltas a dist c5 (2 * c5) 0).bind fun ld =>
    .ok (if ld > c5 >>> 5 then XOR_CODING else DELTA_CODING)

/-- the early declines of Forward that precede the sampling (`none` = go on) -/
def fsdEarly (dt : Nat) (src : List Nat) (dstLen : Nat) : Option Res :=
  if src.length = 0 ∨ dstLen = 0 then some (.ok [])
  else if dstLen < fsdMaxEncodedLen src.length then some (.err "dst")
  else if src.length < MIN_BLOCK_LENGTH then some (.err "small")
  else if dt ≠ DT_UNDEFINED ∧ dt ≠ DT_MULTIMEDIA ∧ dt ≠ DT_BIN then some (.err "skip")
  else if ¬ magicOk (getMagicType src) then some (.err "magic")
  else none

/-- Go: `FSDCodec.Forward(src, dst)` with `len(dst) = dstLen` -/
def fsdForward (dt : Nat) (src : List Nat) (dstLen : Nat) : Res :=
  match fsdEarly dt src dstLen with
  | some r => r
  | none =>
    let a := src.toArray
    let c10 := a.size / 10
    let c5 := 2 * c10
    (fsdSample a).bind fun c =>
      if c.entMin ≥ c.ent0 then .err "skip"
      else
        let dist := distances.getD c.minIdx 0
        (fsdMode a dist).bind fun mode =>
        (fsdEncode a mode dist (fsdMaxEncodedLen a.size) dstLen).bind fun r =>
          if r.1 ≠ a.size then .err "full"
          else
            (finalHisto r.2 c5 c10 0 (Array.replicate 256 0)).bind fun h0 =>
              if entropy1024 c5 h0 ≥ c.ent0 then .err "nogain" else .ok r.2.toList

/-- Go: the value stored by `(*this.ctx)["dataType"] = ..` during `Forward` (when a ctx is present), if
    any: `DetectSimpleType(3*count10, histo[0])` on the quick exit, DT_MULTIMEDIA otherwise -/
def fsdCtxWrite (dt : Nat) (src : List Nat) (dstLen : Nat) : Option Nat :=
  match fsdEarly dt src dstLen with
  | some _ => none
  | none =>
    match fsdSample src.toArray with
    | .ok c =>
      if c.entMin ≥ c.ent0 then some (detectSimpleType (3 * (src.length / 10)) c.histo0)
      else some DT_MULTIMEDIA
    | _ => none

/-! ## Inverse -/

/-- Go: `dst[dstIdx-dist]` -/
def back (out : Array Nat) (dist : Nat) : Option Nat :=
  if out.size < dist then none else out[out.size - dist]?

/-- Go: the delta decoding loop of Inverse on the remaining source bytes; `n = len(dst)` -/
def invDelta (dist n : Nat) : List Nat → Array Nat → Res
  | [], out => .ok out.toList
  | x :: rest, out =>
    if out.size < n then
      match back out dist with
      | none => .fault "dst-index"
      | some p =>
        if x ≠ ESCAPE_TOKEN then
          invDelta dist n rest (out.push (((p : Int) + zz2 x) % 256).toNat)
        else
          match rest with
          | [] => .err "data"
          | y :: rest2 => invDelta dist n rest2 (out.push (y ^^^ p))
    else .err "dst"

/-- Go: the xor decoding loop of Inverse -/
def invXor (dist n : Nat) : List Nat → Array Nat → Res
  | [], out => .ok out.toList
  | x :: rest, out =>
    if out.size < n then
      match back out dist with
      | none => .fault "dst-index"
      | some p => invXor dist n rest (out.push (x ^^^ p))
    else .err "dst"

/-- Go: `FSDCodec.Inverse(src, dst)` with `len(dst) = dstLen`.  The "Emit first bytes" loop copies
    `src[2:2+dist]` to `dst[0:dist]`; both ranges were checked just before. -/
def fsdInverse (src : List Nat) (dstLen : Nat) : Res :=
  if src.length = 0 ∨ dstLen = 0 then .ok []
  else
    match src with
    | mode :: dist :: rest =>
      if dist < 1 ∨ (dist > 4 ∧ dist ≠ 8 ∧ dist ≠ 16) then .err "dist"
      else if rest.length < dist then .err "data"
      else if dstLen < dist then .err "dst"
      else if mode = DELTA_CODING then invDelta dist dstLen (rest.drop dist) (rest.take dist).toArray
      else if mode = XOR_CODING then invXor dist dstLen (rest.drop dist) (rest.take dist).toArray
      else .err "mode"
    | _ => .err "small"

end Kanzi.FSD
