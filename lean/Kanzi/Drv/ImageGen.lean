/-
Line-protocol driver of the `imagegen` correspondence stream (core Lean only).

  imgg  bs=<B> ck=<0|32|64> tr=<T1+T2+…> en=<NONE|ANS0> hint=<n> j=<jobs> skip=<0|1> fam=<k> seed=<s> sizes=<n1,n2,…>
        → `n=<bytes> h=<hash32> b=<mode.flags.post.bits,…> [x=<hex>]` of
          `streamImageGen (mkHeader (ck/32) entropy (GetType tr) B hint) cfg (chunks B data)`;
          data = `gdata fam seed B` of length Σ sizes (the sizes are the Write call sizes; the job
          count only matters for the real Writer); one `b` item per frame: mode byte, skip flags handed to
          `SetSkipFlags`, post-transform length, payload bits; the hex only for images of at most 600 bytes
  imggr (same fields)
        → the same line, then ` | r=<stop>:<bytes>:<hash32>` = `parseImageGen` of that image
  imggx hex=<stream bytes>
        → `x=<stop>:<bytes>:<hash32>` = `parseImageGen` of the given bytes; except when a frame that
          is reached makes the entropy decoder return FEWER bytes than asked without an error (ANS
          with an empty alphabet, forged streams only): the Go code then goes on with whatever the reused
          buffer holds, which the model does not know (it pads with 0) — both sides detect the condition
          (the Go side by running the real entropy decoder on the frame) and print
          `x=short:<bytes delivered before that frame>:<hash32>`

The image is computed with `packFast` (`streamImageGenFast`, proved equal to `streamImageGen`).
-/
import Kanzi.Model.BlockGen
import Kanzi.Model.Names
import Kanzi.Spec.Stream
import Kanzi.Drv.Stream
import Kanzi.Drv.Hash

namespace Kanzi.Drv

namespace ImageGenDrv

open Kanzi.Bits Kanzi.Block Kanzi.BlockGen

def stopName : BlockGen.Stop → String
  | .endOfStream => "ok"
  | .header _ => "header"
  | .unsupported => "unsupported"
  | .truncated => "process"
  | .frameSize => "size"
  | .block .eos => "process"
  | .block .size => "size"
  | .block .entropy => "process"
  | .block .inverse => "process"
  | .block .crc => "crc"
  | .oversize => "process"
  | .emptyBlock => "ok"

def encErrName : EncErr → String
  | .panic => "err:process"
  | .length => "err:write"
  | .entropy => "err:process"

def natList (s : String) : List Nat := ((s.splitOn ",").filter (· ≠ "")).filterMap String.toNat?

/-- per-position mixer shared with the Go harness (uint32 arithmetic) -/
def mix (i seed : Nat) : Nat :=
  let x := ((i + 1) * 2654435761 + seed * 40503) % 4294967296
  let x := x ^^^ (x >>> 15)
  let x := (x * 2246822519) % 4294967296
  x ^^^ (x >>> 13)

def skewTab : Array Nat := #[0, 0, 0, 0, 0, 0, 0, 0, 1, 1, 1, 1, 2, 2, 7, 255]
def magicTab : Array Nat := #[0x50, 0x4B, 0x03, 0x04]

/-- byte `i` of the data of family `fam` (`per` = block size, for the family that puts a magic number
at the start of every block) -/
def gbyte (fam seed per i : Nat) : Nat :=
  let m := mix i seed
  match fam with
  | 0 => pat (i + seed)
  | 1 => m % 256
  | 2 => if i % 5 = 0 then 0xFE + (m >>> 8) % 2 else if m % 256 = 0 then 0xFF else m % 256
  | 3 => 1 + m % 253
  | 4 => if (i / (1 + seed % 7)) % 3 ≠ 0 then 0 else m % 256
  | 5 => skewTab.getD (m % 16) 0
  | 6 => seed % 256
  | 7 => if m % 16 = 0 then 0xFF else 0
  | 8 => if i % per < 4 then magicTab.getD (i % per) 0 else pat (i + seed)
  | _ => if m % 7 = 0 then 32 else 97 + m % 26

def gdata (fam seed per len : Nat) : List Nat := (List.range len).map (gbyte fam seed per)

def tokenCode (s : String) : Option Nat :=
  if s = "NONE" then some 0 else if s = "ZRLT" then some 6 else if s = "MTFT" then some 7
  else if s = "RANK" then some 8 else none

/-- `transform.GetType` on the `+` separated names of the op -/
def trType (spec : String) : Option Nat :=
  match ((spec.splitOn "+").filter (· ≠ "")).mapM tokenCode with
  | none => none
  | some ts => if ts.length > 8 then none else some (Names.chainType ts)

def entCode (s : String) : Option Nat :=
  if s = "NONE" then some 0 else if s = "ANS0" then some 5 else none

/-- mode byte, skip flags, post-transform length, payload bits of one payload -/
def blockInfo (p : Bits) : String :=
  let mode := bitsNat (p.take 8)
  let r := p.drop 8
  let copy := mode &&& 0x80 ≠ 0
  let ext := ¬ copy ∧ mode &&& 0x10 ≠ 0
  let flags := if copy then 0 else if ext then bitsNat (r.take 8) else ((mode <<< 4) ||| 0x0F) % 256
  let r := if ext then r.drop 8 else r
  let ds := 1 + ((mode >>> 5) &&& 3)
  s!"{mode}.{flags}.{bitsNat (r.take (8 * ds))}.{p.length}"

structure Op where
  h : Header.Header
  c : Cfg
  blocks : List (List Nat)

def parseOp (ws : List String) : Option Op :=
  let B := kvNat ws "bs" 1024
  let ck := kvNat ws "ck" 0
  let hint := kvNat ws "hint" 0
  let total := (natList ((kvs ws "sizes").getD "")).sum
  match trType ((kvs ws "tr").getD "NONE"), entCode ((kvs ws "en").getD "NONE") with
  | some ft, some e =>
    let h := Header.mkHeader (ck / 32) e ft B hint
    match cfgOfHeader h (kvNat ws "skip" 0 = 1) with
    | none => none
    | some c => some ⟨h, c, Spec.chunks B (gdata (kvNat ws "fam" 0) (kvNat ws "seed" 0) B total)⟩
  | _, _ => none

def showImage (o : Op) : String × List Nat :=
  match encodeBlocks o.c o.blocks with
  | .error e => (encErrName e, [])
  | .ok ps =>
    let img := packFast (streamBitsOf o.h ps)
    let infos := ",".intercalate (ps.map blockInfo)
    let hex := if img.length ≤ 600 then " x=" ++ HashDrv.bytesHex img else ""
    (s!"n={img.length} h={hash32 img} b={infos}{hex}", img)

/-- the entropy decoder of this frame returns fewer bytes than asked, without error (prologue parsed
as in `decodeTaskGen`) -/
def shortRead (c : Cfg) (B : Nat) (payload : Bits) : Bool :=
  let bs := padToByte payload
  if bs.length < 8 then false else
  let mode := bitsNat (bs.take 8)
  let r := bs.drop 8
  let copy := mode &&& 0x80 ≠ 0
  let ext := ¬ copy ∧ mode &&& 0x10 ≠ 0
  if ext ∧ r.length < 8 then false else
  let r := if ext then r.drop 8 else r
  let ds := 1 + ((mode >>> 5) &&& 3)
  if r.length < 8 * ds then false else
  let pre := bitsNat (r.take (8 * ds))
  let r := r.drop (8 * ds)
  if pre = 0 ∨ pre > maxTransformLength B then false else
  if r.length < ckWidth c.ck then false else
  let ent := if copy then noneEnt else c.ent
  match ent.dec pre (r.drop (ckWidth c.ck)) with
  | none => false
  | some d => d.1.length < pre

/-- index of the first frame with a short entropy read -/
def firstShort (c : Cfg) (B : Nat) : List Container.Item → Nat → Option Nat
  | [], _ => none
  | .payload p :: rest, i => if shortRead c B p then some i else firstShort c B rest (i + 1)
  | _ :: _, _ => none

def reportX (img : List Nat) : String :=
  let r := BlockGen.parseImageGen img
  let normal :=
    let d := r.2.1.flatten
    s!"x={stopName r.2.2}:{d.length}:{hash32 d}"
  match Header.parseHeader (ofBytes img) with
  | .error _ => normal
  | .ok hr =>
    match cfgOfHeader hr.1 false with
    | none => normal
    | some c =>
      match firstShort c hr.1.blockSize (Block.parseFrames hr.1.blockSize (hr.2.length + 1) hr.2) 0 with
      | none => normal
      | some k =>
        if k ≤ r.2.1.length then
          let d := (r.2.1.take k).flatten
          s!"x=short:{d.length}:{hash32 d}"
        else normal

def report (tag : String) (r : Option Header.Header × List (List Nat) × BlockGen.Stop) : String :=
  let d := r.2.1.flatten
  s!"{tag}={stopName r.2.2}:{d.length}:{hash32 d}"

end ImageGenDrv

open ImageGenDrv in
def imagegen (line : String) : String :=
  match words line with
  | "imgg" :: ws =>
    match parseOp ws with
    | none => "bad-op"
    | some o => (showImage o).1
  | "imggr" :: ws =>
    match parseOp ws with
    | none => "bad-op"
    | some o =>
      let s := showImage o
      s.1 ++ " | " ++ report "r" (BlockGen.parseImageGen s.2)
  | "imggx" :: ws =>
    match (kvs ws "hex").bind HashDrv.hexBytes with
    | none => "bad-op"
    | some img => reportX img
  | _ => "bad-op"

end Kanzi.Drv
