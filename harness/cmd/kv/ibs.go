package main

// Stream "ibs": bitstream.DefaultInputBitStream driven by a program of read operations over a
// source that serves a chunk plan (short reads, bytes delivered together with an error, terminal
// EOF or failure).  Compared with the Lean model (kmodel ibs); in Exec the properties C14 (reader
// half), C06 (source chunking), C08/C09 (errors, end of stream) are evaluated directly on the real
// code by a bit-vector oracle and by re-running the program on a single-chunk source.

import (
	"encoding/hex"
	"errors"
	"fmt"
	"io"
	"math/rand"
	"runtime"
	"strconv"
	"strings"

	"github.com/flanglet/kanzi-go/v2/bitstream"
)

func init() {
	registerStream(&Stream{
		Name: "ibs",
		Rule: "programs of ReadBit/ReadBits/ReadArray/HasMoreToRead/Close/Read over data of 0..5000 bytes (some > 2*bufsize), buffer sizes 1024/1032/2048, chunk plans whole/1/7/8/13/1001/random/odd-at-refill, terminal EOF or failure, bytes+error reads; directed ReadArray classes (bit alignment, k mod 64, distance to buffer end), reads past the end, after Close, invalid counts; distinct_nontrivial = distinct scenarios with at least one value-returning op",
		Gen:  ibsGen,
		Exec: ibsExec,
	})
}

var errIbsSource = errors.New("verif: source failure")

// planSrc serves the chunk plan.
type planSrc struct {
	chunks [][]byte
	errAt  int
	term   error
	idx    int
	calls  int
}

func (p *planSrc) Read(b []byte) (int, error) {
	p.calls++
	if p.idx >= len(p.chunks) {
		return 0, p.term
	}
	c := p.chunks[p.idx]
	if len(c) <= len(b) {
		n := copy(b, c)
		p.idx++
		if p.idx-1 == p.errAt {
			return n, p.term
		}
		return n, nil
	}
	n := copy(b, c)
	p.chunks[p.idx] = c[n:]
	return n, nil
}

func (p *planSrc) Close() error { return nil }

type ibsScenario struct {
	bs      int
	data    []byte
	sizes   []int
	term    string
	errwith int
	ops     []string
}

func ibsParse(op string) (*ibsScenario, bool) {
	parts := strings.Split(op, ";")
	hd := strings.Fields(parts[0])
	if len(hd) == 0 || hd[0] != "ibs" {
		return nil, false
	}
	sc := &ibsScenario{errwith: -1, term: "", bs: -1}
	haveData := false
	for _, w := range hd[1:] {
		k, v, ok := strings.Cut(w, "=")
		if !ok {
			return nil, false
		}
		switch k {
		case "bs":
			n, err := strconv.Atoi(v)
			if err != nil || n < 0 {
				return nil, false
			}
			sc.bs = n
		case "data":
			d, err := hex.DecodeString(v)
			if err != nil {
				return nil, false
			}
			sc.data = d
			haveData = true
		case "chunks":
			if v != "" {
				for _, x := range strings.Split(v, ",") {
					n, err := strconv.Atoi(x)
					if err == nil && n >= 0 {
						sc.sizes = append(sc.sizes, n)
					}
				}
			}
		case "end":
			sc.term = v
		case "errwith":
			n, err := strconv.Atoi(v)
			if err == nil && n >= 0 {
				sc.errwith = n
			}
		}
	}
	if sc.bs < 0 || !haveData || sc.term == "" {
		return nil, false
	}
	for _, o := range parts[1:] {
		f := strings.Fields(o)
		switch {
		case len(f) == 1 && (f[0] == "b" || f[0] == "m" || f[0] == "c" || f[0] == "n"):
		case len(f) == 2 && (f[0] == "r" || f[0] == "a"):
			if n, err := strconv.Atoi(f[1]); err != nil || n < 0 {
				return nil, false
			}
		default:
			return nil, false
		}
		sc.ops = append(sc.ops, strings.Join(f, " "))
	}
	return sc, true
}

// ibsCut cuts data following sizes cyclically (size 0 = empty chunk).
func ibsCut(sizes []int, data []byte) [][]byte {
	pos := false
	for _, s := range sizes {
		if s > 0 {
			pos = true
		}
	}
	if !pos {
		if len(data) == 0 {
			return nil
		}
		return [][]byte{append([]byte{}, data...)}
	}
	var out [][]byte
	i := 0
	for len(data) > 0 {
		s := sizes[i%len(sizes)]
		i++
		if s > len(data) {
			s = len(data)
		}
		out = append(out, append([]byte{}, data[:s]...))
		data = data[s:]
	}
	return out
}

func ibsClass(r any) string {
	switch v := r.(type) {
	case runtime.Error:
		return "runtime"
	case error:
		switch {
		case errors.Is(v, io.EOF):
			return "eos"
		case errors.Is(v, errIbsSource), errors.Is(v, io.ErrNoProgress):
			return "io"
		case v.Error() == "No more data to read in the bitstream":
			return "eos"
		case v.Error() == "Stream closed":
			return "closed"
		case strings.HasPrefix(v.Error(), "Invalid bit count"):
			return "invalid-count"
		}
		return "other"
	case string:
		if v == "No more data to read in the bitstream" {
			return "eos"
		}
		return "other"
	}
	return "other"
}

// ibsRun executes the program on the real code with the given chunks; one token pair per op.
func ibsRun(sc *ibsScenario, chunks [][]byte, errAt int) []string {
	term := io.EOF
	if sc.term == "fail" {
		term = errIbsSource
	}
	src := &planSrc{chunks: chunks, errAt: errAt, term: term}
	ibs, err := bitstream.NewDefaultInputBitStream(src, uint(sc.bs))
	if err != nil {
		return []string{"err:ctor"}
	}
	out := make([]string, 0, len(sc.ops))
	for _, o := range sc.ops {
		tok := func() (tok string) {
			defer func() {
				if r := recover(); r != nil {
					tok = "panic:" + ibsClass(r)
				}
			}()
			f := strings.Fields(o)
			switch f[0] {
			case "b":
				return "v:" + strconv.FormatUint(uint64(ibs.ReadBit()), 16)
			case "r":
				n, _ := strconv.Atoi(f[1])
				return "v:" + strconv.FormatUint(ibs.ReadBits(uint(n)), 16)
			case "a":
				k, _ := strconv.Atoi(f[1])
				buf := make([]byte, (k+7)/8)
				ibs.ReadArray(buf, uint(k))
				return "a:" + hex.EncodeToString(buf)
			case "m":
				ok, err := ibs.HasMoreToRead()
				if err != nil {
					return "m:err:" + ibsClass(err)
				}
				if ok {
					return "m:1"
				}
				return "m:0"
			case "c":
				if err := ibs.Close(); err != nil {
					return "err:close"
				}
				return "ok"
			case "n":
				return "n"
			}
			return "bad-op"
		}()
		out = append(out, tok+" @"+strconv.FormatUint(ibs.Read(), 10))
	}
	return out
}

// bit-vector oracle: bits of the deliverable data and a cursor
type ibsOracle struct {
	data   []byte
	c, t   int
	ending string
	closed bool
}

func (o *ibsOracle) bits(n int) uint64 {
	var v uint64
	for i := 0; i < n; i++ {
		p := o.c + i
		v = v<<1 | uint64(o.data[p>>3]>>(7-uint(p&7))&1)
	}
	return v
}

// expect returns the expected token and whether the oracle can go on (false after a failed read)
func (o *ibsOracle) expect(op string) (string, bool) {
	f := strings.Fields(op)
	switch f[0] {
	case "b":
		if o.closed {
			return "panic:closed", true
		}
		if o.c+1 > o.t {
			return "panic:" + o.ending, false
		}
		v := o.bits(1)
		o.c++
		return "v:" + strconv.FormatUint(v, 16), true
	case "r":
		n, _ := strconv.Atoi(f[1])
		if n == 0 || n > 64 {
			return "panic:invalid-count", true
		}
		if o.closed {
			return "panic:closed", true
		}
		if o.c+n > o.t {
			return "panic:" + o.ending, false
		}
		v := o.bits(n)
		o.c += n
		return "v:" + strconv.FormatUint(v, 16), true
	case "a":
		k, _ := strconv.Atoi(f[1])
		if o.closed {
			return "panic:closed", true
		}
		if k == 0 {
			return "a:", true
		}
		if o.c+k > o.t {
			return "panic:" + o.ending, false
		}
		buf := make([]byte, (k+7)/8)
		for i := 0; i < k; i++ {
			p := o.c + i
			buf[i>>3] |= (o.data[p>>3] >> (7 - uint(p&7)) & 1) << (7 - uint(i&7))
		}
		o.c += k
		return "a:" + hex.EncodeToString(buf), true
	case "m":
		if o.closed {
			return "m:err:closed", true
		}
		if o.c < o.t {
			return "m:1", true
		}
		return "m:err:" + o.ending, true
	case "c":
		o.closed = true
		return "ok", true
	case "n":
		return "n", true
	}
	return "bad-op", false
}

func ibsExec(op string, res *Result) string {
	sc, ok := ibsParse(op)
	if !ok {
		return "bad-op"
	}
	chunks := ibsCut(sc.sizes, sc.data)
	errAt := -1
	if sc.errwith >= 0 && sc.errwith < len(chunks) {
		errAt = sc.errwith
	}
	zero := false
	for _, c := range chunks {
		if len(c) == 0 {
			zero = true
		}
	}
	cp := make([][]byte, len(chunks))
	copy(cp, chunks)
	out := ibsRun(sc, cp, errAt)
	line := strings.Join(out, " ")
	if len(out) == 1 && out[0] == "err:ctor" {
		res.Tags = append(res.Tags, "ctor-error")
		return line
	}
	// deliverable data: everything up to and including the chunk delivered together with the error
	eff := sc.data
	if errAt >= 0 {
		n := 0
		for i := 0; i <= errAt; i++ {
			n += len(chunks[i])
		}
		eff = sc.data[:n]
	}
	ending := "eos"
	if sc.term == "fail" {
		ending = "io"
	}
	viol := func(sym, what string) {
		if res.Violation == nil {
			res.Violation = &Violation{Kind: "input", Site: "bitstream.DefaultInputBitStream", Symptom: sym, What: what}
			res.Tags = append(res.Tags, "violation:"+sym)
		}
	}
	nval := 0
	for i, t := range out {
		switch {
		case strings.HasPrefix(t, "v:"):
			nval++
		case strings.HasPrefix(t, "a:"):
			nval++
			if strings.HasPrefix(sc.ops[i], "a ") {
				res.Tags = append(res.Tags, "array:ok")
			}
		case strings.HasPrefix(t, "panic:"):
			res.Tags = append(res.Tags, "panic:"+strings.Fields(t)[0][6:])
		}
	}
	res.Nontrivial = nval > 0
	if !zero {
		// 1. bit-vector oracle up to (and including) the first failed read
		o := &ibsOracle{data: eff, t: 8 * len(eff), ending: ending}
		for i, opi := range sc.ops {
			exp, goOn := o.expect(opi)
			got := strings.Fields(out[i])
			want := exp + " @" + strconv.Itoa(o.c)
			if got[0] != exp {
				sym := "value-mismatch"
				switch {
				case strings.HasPrefix(exp, "panic:") && !strings.HasPrefix(got[0], "panic:"):
					sym = "fabricated-bits"
				case exp == "panic:io" && got[0] == "panic:eos", exp == "m:err:io" && got[0] == "m:err:eos":
					sym = "swallowed-io-error"
				}
				viol(sym, fmt.Sprintf("op %d (%s): got %s, expected %s", i, opi, out[i], want))
				break
			}
			if !goOn {
				break
			}
			if got[1] != "@"+strconv.Itoa(o.c) {
				viol("counter-mismatch", fmt.Sprintf("op %d (%s): got %s, expected %s", i, opi, out[i], want))
				break
			}
		}
		// 2. chunking oracle: same deliverable data as ONE chunk
		var one [][]byte
		oneErr := -1
		if len(eff) > 0 {
			one = [][]byte{append([]byte{}, eff...)}
			if errAt >= 0 {
				oneErr = 0
			}
		}
		if errAt < 0 || len(eff) > 0 {
			ref := strings.Join(ibsRun(sc, one, oneErr), " ")
			if ref != line {
				viol("chunking-dependent", "outputs differ from the single-chunk run: "+firstDiff(line, ref))
			}
		}
	} else {
		res.Tags = append(res.Tags, "zero-chunk")
	}
	res.Sample = map[string]any{"bs": sc.bs, "len": len(sc.data), "chunks": len(chunks), "end": sc.term, "errwith": sc.errwith, "ops": len(sc.ops)}
	return line
}

func firstDiff(a, b string) string {
	x, y := strings.Fields(a), strings.Fields(b)
	for i := 0; i < len(x) && i < len(y); i++ {
		if x[i] != y[i] {
			return fmt.Sprintf("token %d: %s vs %s", i, x[i], y[i])
		}
	}
	return fmt.Sprintf("lengths %d vs %d", len(x), len(y))
}

// ---------------------------------------------------------------- generators

func ibsLine(bs int, data []byte, sizes []int, term string, errwith int, ops []string) string {
	var sb strings.Builder
	fmt.Fprintf(&sb, "ibs bs=%d data=%s chunks=", bs, hex.EncodeToString(data))
	for i, s := range sizes {
		if i > 0 {
			sb.WriteByte(',')
		}
		sb.WriteString(strconv.Itoa(s))
	}
	sb.WriteString(" end=" + term)
	if errwith >= 0 {
		fmt.Fprintf(&sb, " errwith=%d", errwith)
	}
	for _, o := range ops {
		sb.WriteString(" ; " + o)
	}
	return sb.String()
}

func ibsData(r *rand.Rand, n int) []byte {
	d := make([]byte, n)
	switch r.Intn(4) {
	case 0:
		for i := range d {
			d[i] = byte(i*7 + 1)
		}
	case 1:
		for i := range d {
			d[i] = 0xFF
		}
	default:
		r.Read(d)
	}
	return d
}

var ibsBufSizes = []int{1024, 1032, 2048}

func ibsPlan(r *rand.Rand, bs int) ([]int, string) {
	switch r.Intn(12) {
	case 0:
		return nil, "whole"
	case 1:
		return []int{1}, "1"
	case 2:
		return []int{7}, "7"
	case 3:
		return []int{8}, "8"
	case 4:
		return []int{13}, "13"
	case 5:
		return []int{1001}, "1001"
	case 6:
		// not a multiple of 8 exactly at the refill boundary
		return []int{bs - 1 - r.Intn(7), 1 + r.Intn(20)}, "odd-at-refill"
	case 7:
		return []int{bs + 3, 5}, "over-buffer"
	case 8:
		return []int{bs}, "bufsize"
	default:
		n := 1 + r.Intn(6)
		s := make([]int, n)
		for i := range s {
			switch r.Intn(3) {
			case 0:
				s[i] = 1 + r.Intn(16)
			case 1:
				s[i] = 1 + r.Intn(300)
			default:
				s[i] = 1 + r.Intn(2*bs)
			}
		}
		return s, "random"
	}
}

// random program consuming about `bits` bits, then a few reads past the end
func ibsProgram(r *rand.Rand, bits int, style int) []string {
	var ops []string
	left := bits + 64
	for left > 0 && len(ops) < 400 {
		switch x := r.Intn(20); {
		case x < 3:
			ops = append(ops, "b")
			left--
		case x < 10:
			n := 1 + r.Intn(64)
			ops = append(ops, "r "+strconv.Itoa(n))
			left -= n
		case x < 16:
			var k int
			switch (style + r.Intn(3)) % 5 {
			case 0:
				k = 1 + r.Intn(64)
			case 1:
				k = 1 + r.Intn(600)
			case 2:
				k = 8 * (1 + r.Intn(200))
			case 3:
				k = 1 + r.Intn(9000)
			default:
				k = 64*r.Intn(40) + r.Intn(64)
			}
			ops = append(ops, "a "+strconv.Itoa(k))
			left -= k
		case x < 18:
			ops = append(ops, "m")
		default:
			ops = append(ops, "n")
		}
	}
	return ops
}

func ibsGen(r *rand.Rand, tier string, n int, emit func(op string, tags ...string)) {
	thorough := tier == "thorough"
	// 1. small data, every way of running past the end (C09/C14 eos), both terminal behaviours
	maxL := 18
	if thorough {
		maxL = 34
	}
	for L := 0; L <= maxL; L++ {
		data := ibsData(r, L)
		for _, pre := range []int{0, 1, 5, 8, 59, 64} {
			for _, last := range []string{"b", "r 1", "r 7", "r 8", "r 33", "r 64", "a 1", "a 8", "a 9", "a 63", "a 64", "a 65", "a 128", "a 200", "a 256", "a 300", "a 520"} {
				var ops []string
				if pre > 0 {
					ops = append(ops, "r "+strconv.Itoa(pre))
				}
				ops = append(ops, last, "n", "m", last, "b", "r 64", "m")
				term := "eof"
				if r.Intn(3) == 0 {
					term = "fail"
				}
				sizes, pn := ibsPlan(r, 1024)
				emit(ibsLine(1024, data, sizes, term, -1, ops), "family:past-end", "plan:"+pn)
			}
		}
	}
	// 2. directed ReadArray classes: bit alignment x k mod 64 x distance to the end of the buffer
	aligns := []int{0, 1, 3, 7, 8, 13, 32, 57, 63, 64}
	ks := []int{1, 7, 8, 9, 63, 64, 65, 127, 128, 191, 255, 256, 257, 300, 511, 512, 513, 1000, 1024, 2047}
	dists := []int{0, 1, 8, 9, 16, 24, 31, 32, 33, 40, 64, 100}
	reps := 1
	if thorough {
		reps = 4
	}
	for rep := 0; rep < reps; rep++ {
		for _, bs := range ibsBufSizes {
			for _, al := range aligns {
				for _, k := range ks {
					for _, d := range dists {
						if !thorough && r.Intn(3) != 0 {
							continue
						}
						L := bs + 300 + r.Intn(100)
						if r.Intn(4) == 0 {
							L = bs - d + (k+al)/8 + r.Intn(3) // data ends near the array
						}
						if L < 0 {
							L = 0
						}
						data := ibsData(r, L)
						var ops []string
						// move to d bytes before the end of the first buffer
						if lead := bs - d; lead > 0 {
							ops = append(ops, "a "+strconv.Itoa(8*lead))
						}
						if al > 0 {
							ops = append(ops, "r "+strconv.Itoa(al))
						}
						ops = append(ops, "n", "a "+strconv.Itoa(k), "r 5", "a "+strconv.Itoa(k), "m", "b")
						sizes, pn := ibsPlan(r, bs)
						emit(ibsLine(bs, data, sizes, "eof", -1, ops), "family:array-classes", "plan:"+pn)
					}
				}
			}
		}
	}
	// 3. random programs over random data
	if n == 0 {
		n = 1500
		if thorough {
			n = 30000
		}
	}
	for i := 0; i < n; i++ {
		bs := ibsBufSizes[r.Intn(len(ibsBufSizes))]
		var L int
		switch r.Intn(5) {
		case 0:
			L = r.Intn(64)
		case 1:
			L = 2*bs + r.Intn(900)
		default:
			L = r.Intn(5001)
		}
		data := ibsData(r, L)
		sizes, pn := ibsPlan(r, bs)
		ops := ibsProgram(r, 8*L, r.Intn(5))
		term := "eof"
		if r.Intn(4) == 0 {
			term = "fail"
		}
		if r.Intn(12) == 0 {
			p := r.Intn(len(ops) + 1)
			ops = append(ops[:p:p], append([]string{"c"}, ops[p:]...)...)
		}
		emit(ibsLine(bs, data, sizes, term, -1, ops), "family:random", "plan:"+pn)
	}
	// 4. errors at every source call index: bytes delivered together with the error, and terminal failure
	ne := 24
	if thorough {
		ne = 120
	}
	for i := 0; i < ne; i++ {
		bs := ibsBufSizes[r.Intn(len(ibsBufSizes))]
		L := 200 + r.Intn(2*bs+500)
		data := ibsData(r, L)
		csz := []int{1 + r.Intn(700), 1 + r.Intn(64)}
		if r.Intn(3) == 0 {
			csz = []int{bs, 8 * (1 + r.Intn(20))}
		}
		nch := len(ibsCut(csz, data))
		estep := 1
		if nch > 16 {
			estep = nch / 16
		}
		for e := 0; e < nch; e += estep {
			for _, term := range []string{"eof", "fail"} {
				ops := ibsProgram(r, 8*L, r.Intn(5))
				emit(ibsLine(bs, data, csz, term, e, ops), "family:errwith", "end:"+term)
			}
		}
		for cut := 0; cut <= 3; cut++ {
			ops := ibsProgram(r, 8*L, r.Intn(5))
			emit(ibsLine(bs, data[:L*cut/3], csz, "fail", -1, ops), "family:terminal-failure")
		}
	}
	// 5. after Close, invalid counts, constructor errors, misbehaving (0, nil) reads
	for i := 0; i < 40; i++ {
		data := ibsData(r, r.Intn(3000))
		pre := ibsProgram(r, 8*len(data)/2, r.Intn(5))
		if len(pre) > 12 {
			pre = pre[:12]
		}
		ops := append(pre, "c", "b", "n", "r 8", "a 16", "a 0", "m", "c", "r 0", "r 65", "n", "a 64")
		sizes, pn := ibsPlan(r, 1024)
		emit(ibsLine(1024, data, sizes, "eof", -1, ops), "family:after-close", "plan:"+pn)
	}
	for i := 0; i < 20; i++ {
		data := ibsData(r, r.Intn(200))
		ops := []string{"r 0", "n", "r 65", "r 1000", "b", "r 64", "a 0", "r 0", "a 77", "n"}
		emit(ibsLine(1024, data, nil, "eof", -1, ops), "family:invalid-count")
	}
	for _, bs := range []int{0, 8, 1000, 1023, 1028, 1 << 30} {
		emit(ibsLine(bs, []byte{1, 2, 3}, nil, "eof", -1, []string{"b"}), "family:ctor")
	}
	for i := 0; i < 30; i++ {
		data := ibsData(r, 1+r.Intn(600))
		sizes := []int{1 + r.Intn(20), 0, 1 + r.Intn(9)}
		if r.Intn(2) == 0 {
			sizes = []int{0, 5}
		}
		emit(ibsLine(1024, data, sizes, "eof", -1, ibsProgram(r, 8*len(data), r.Intn(5))), "family:zero-chunk")
	}
}
