/-
Line-protocol driver of the `trsmall` stream (see harness/cmd/kv/trsmall.go).  Core Lean only.

    nf <dstlen> <hex>            NullTransform.Forward      -> ok <hex> | declined
    ni <dstlen> <hex>            NullTransform.Inverse      -> ok <hex> | err
    zf <dstlen> <hex>            ZRLT.Forward               -> ok <hex> | declined
    zi <dstlen> <hex>            ZRLT.Inverse               -> ok <hex> | err
    sf <mode> <dstlen> <hex>     SBRT(mode).Forward         -> ok <hex> | declined
    si <mode> <dstlen> <hex>     SBRT(mode).Inverse         -> ok <hex> | err
    qf <stages> <hex>            ByteTransformSequence.Forward, dst of MaxEncodedLen
                                                             -> ok <flags> <mode> <extra|-> <flags'> <hex>
    qi <stages> <flags> <dstlen> <hex>   SetSkipFlags + ByteTransformSequence.Inverse -> ok <hex> | err

`<hex>` is lower-case, `-` for the empty block.  `<stages>` is a comma separated list of
`N` (null), `Z` (ZRLT), `S1` `S2` `S3` (SBRT modes).  For `qf`, `<mode> <extra>` is the block mode
byte (with mode0 = 0x40) / extra byte written by the encoder and `<flags'>` what the decoder recovers.
-/
import Kanzi.Model.TrSmall

namespace Kanzi.Drv
open Kanzi.TrSmall

def hexVal (c : Char) : Option Nat :=
  if '0' ≤ c ∧ c ≤ '9' then some (c.toNat - '0'.toNat)
  else if 'a' ≤ c ∧ c ≤ 'f' then some (c.toNat - 'a'.toNat + 10)
  else if 'A' ≤ c ∧ c ≤ 'F' then some (c.toNat - 'A'.toNat + 10)
  else none

def unhexGo : List Char → Array Nat → Option (Array Nat)
  | [], acc => some acc
  | [_], _ => none
  | a :: b :: rest, acc =>
    match hexVal a, hexVal b with
    | some x, some y => unhexGo rest (acc.push (16 * x + y))
    | _, _ => none

def unhex (s : String) : Option (List Nat) :=
  if s = "-" then some [] else (unhexGo s.toList #[]).map Array.toList

def hexDigit (n : Nat) : Char :=
  if n < 10 then Char.ofNat ('0'.toNat + n) else Char.ofNat ('a'.toNat + (n - 10))

def hex (l : List Nat) : String :=
  if l.isEmpty then "-"
  else l.foldl (fun s b => (s.push (hexDigit (b / 16 % 16))).push (hexDigit (b % 16))) ""

def showRes (bad : String) (r : Res) : String :=
  match r with
  | .ok o => "ok " ++ hex o
  | .error _ => bad

/-- concrete stage: forward into a destination of `req` bytes, inverse into `dstLen` bytes -/
def stageOf (name : String) (req dstLen : Nat) : Option Stage :=
  match name with
  | "N" => some (nullStage req dstLen)
  | "Z" => some (zrltStage req dstLen)
  | "S1" => some (sbrtStage 1 req dstLen)
  | "S2" => some (sbrtStage 2 req dstLen)
  | "S3" => some (sbrtStage 3 req dstLen)
  | _ => none

def stagesOf (spec : String) (req dstLen : Nat) : Option (List Stage) :=
  (spec.splitOn ",").mapM (fun n => stageOf n req dstLen)

def trsmall (line : String) : String :=
  match (line.splitOn " ").filter (· ≠ "") with
  | ["nf", d, h] =>
    match d.toNat?, unhex h with
    | some d, some b => showRes "declined" (nullForward b d)
    | _, _ => "bad-op"
  | ["ni", d, h] =>
    match d.toNat?, unhex h with
    | some d, some b => showRes "err" (nullInverse b d)
    | _, _ => "bad-op"
  | ["zf", d, h] =>
    match d.toNat?, unhex h with
    | some d, some b => showRes "declined" (zrltForward b d)
    | _, _ => "bad-op"
  | ["zi", d, h] =>
    match d.toNat?, unhex h with
    | some d, some b => showRes "err" (zrltInverse b d)
    | _, _ => "bad-op"
  | ["sf", m, d, h] =>
    match m.toNat?, d.toNat?, unhex h with
    | some m, some d, some b => if sbrtModeOk m then showRes "declined" (sbrtForward m b d) else "bad-mode"
    | _, _, _ => "bad-op"
  | ["si", m, d, h] =>
    match m.toNat?, d.toNat?, unhex h with
    | some m, some d, some b => if sbrtModeOk m then showRes "err" (sbrtInverse m b d) else "bad-mode"
    | _, _, _ => "bad-op"
  | ["qf", spec, h] =>
    match unhex h, stagesOf spec 0 0 with
    | some b, some st0 =>
      let n := st0.length
      if n = 0 ∨ n > 8 then "bad-stages" else
      let req := seqMaxEncodedLen st0 b.length
      match stagesOf spec req 0 with
      | none => "bad-op"
      | some st =>
        let r := seqForward st b
        let em := encodeMode 0x40 r.2 n
        let ex := match em.2 with | some e => toString e | none => "-"
        s!"ok {r.2} {em.1} {ex} {decodeFlags em.1 em.2} {hex r.1}"
    | _, _ => "bad-op"
  | ["qi", spec, f, d, h] =>
    match f.toNat?, d.toNat?, unhex h with
    | some f, some d, some b =>
      if d < b.length ∨ d = 0 then "unsupported" else
      match stagesOf spec 0 d with
      | none => "bad-op"
      | some st0 =>
        if st0.length = 0 ∨ st0.length > 8 then "bad-stages" else
        -- the stage inverses run into intermediate buffers of `seqInvBufLen` bytes (`maxLen` does not depend on the sizes)
        match stagesOf spec 0 (seqInvBufLen st0 d) with
        | none => "bad-op"
        | some st => showRes "err" (seqInverseDst st f b d)
    | _, _, _ => "bad-op"
  | _ => "bad-op"

end Kanzi.Drv
