package main

// Stream `rt` / `rtbig` (C01): lossless round trip through the public stream API of the REAL code,
// plus the helpers shared by the G1 search streams (det, namesrt, shortread).  No Lean driver: the
// canonical output line is only recorded; the content is the property oracle -> res.Violation.
//
// Scenario line (self-contained, replayable with `kv rt -opsin file`):
//   rt shape=<name> size=<n> dseed=<s> t=<chain> e=<entropy> bs=<blocksize> j=<jobs> rj=<reader jobs>
//      ck=<0|32|64> hint=<none|exact|half|double|huge|<n>> hl=<0|1>
//      wsplit=<one|1|bs|bsm1|bsp1|rand|zero|<n>|pat:a,b,..> rsplit=<same> [api=<std|ctx>]
//
// Oracle: constructor error => `rejected` (a configuration may only be refused there); afterwards
// every Write returns (len,nil), Close returns nil, the Reader yields exactly the input and then
// io.EOF (twice), whatever the write partition, the Read buffer sizes (zero-length included), the
// jobs on both sides, the size hint and the header mode.  Any error after data was accepted is a
// violation (Symptom write-error-after-accept / decode-error / decode-mismatch / ...).  The fault
// Site is found by re-running prefixes of the transform chain with one job (the library recovers
// panics inside the block tasks and only returns the message text, so no stack is available).

import (
	"bytes"
	"errors"
	"fmt"
	"io"
	"math/rand"
	"runtime"
	"sort"
	"strconv"
	"strings"
	"sync"
	"time"

	"kverif/internal/container"
	"kverif/internal/gen"

	kio "github.com/flanglet/kanzi-go/v2/io"
)

var g1Transforms = []string{"NONE", "BWT", "BWTS", "LZ", "LZX", "LZP", "RLT", "ZRLT", "MTFT", "RANK", "EXE", "TEXT", "ROLZ", "ROLZX", "SRT", "MM", "UTF", "PACK", "DNA"}
var g1Entropies = []string{"NONE", "HUFFMAN", "ANS0", "ANS1", "RANGE", "FPAQ", "CM", "TPAQ", "TPAQX"}
var g1LightEntropies = []string{"NONE", "HUFFMAN", "ANS0", "ANS1", "RANGE", "FPAQ"}

// (transform, entropy) of the ten CLI levels: /repo/v2/app/BlockCompressor.go getTransformAndCodec
var g1Levels = [][2]string{
	{"NONE", "NONE"},
	{"LZX", "NONE"},
	{"DNA+LZ", "HUFFMAN"},
	{"TEXT+UTF+PACK+MM+LZX", "HUFFMAN"},
	{"TEXT+UTF+EXE+PACK+MM+ROLZ", "NONE"},
	{"TEXT+UTF+BWT+RANK+ZRLT", "ANS0"},
	{"TEXT+UTF+BWT+SRT+ZRLT", "FPAQ"},
	{"LZP+TEXT+UTF+BWT+LZP", "CM"},
	{"EXE+RLT+TEXT+UTF+DNA", "TPAQ"},
	{"EXE+RLT+TEXT+UTF+DNA", "TPAQX"},
}

// shapes on which the transform is expected to be actually applied
var g1Favourable = map[string][]string{
	"NONE": {"random", "text"}, "BWT": {"text", "reptext"}, "BWTS": {"text", "numeric"},
	"LZ": {"reptext", "runs"}, "LZX": {"reptext", "exe-pe"}, "LZP": {"reptext", "runs"},
	"RLT": {"runs", "zeros"}, "ZRLT": {"runs", "zeros"}, "MTFT": {"text", "alpha4"}, "RANK": {"text", "alpha4"},
	"EXE": {"exe-elfsec", "exe-pe", "exe-elf", "exe-mz", "exe-elfwild", "exe-pewild"}, "TEXT": {"text", "reptext"},
	"ROLZ": {"reptext", "dnarep", "runs"}, "ROLZX": {"reptext", "dnarep", "dna", "runs"}, "SRT": {"text", "skew-250-6"},
	"MM": {"wavefull", "wave", "wavehdr"}, "UTF": {"utf8-50", "utf8-3000", "utf8-40000"},
	"PACK": {"alpha4", "numeric", "base64", "alpha16"}, "DNA": {"dna", "dnarep"},
}

func g1Heavy(e string) bool {
	switch strings.ToUpper(e) {
	case "CM", "TPAQ", "TPAQX":
		return true
	}
	return false
}

// ---------------------------------------------------------------------------------------------
// scenario

type g1Cfg struct {
	Raw    string // the scenario line as given
	Stream string
	Shape  string
	Size   int
	DSeed  int64
	T, E   string
	BS     int
	J, RJ  int
	CK     int
	Hint   string
	HL     bool
	WSplit string
	RSplit string
	API    string
	KV     map[string]string
}

func g1Parse(op string) (*g1Cfg, error) {
	f := strings.Fields(op)
	if len(f) == 0 {
		return nil, errors.New("empty scenario")
	}
	c := &g1Cfg{Raw: op, Stream: f[0], KV: map[string]string{}}
	for _, w := range f[1:] {
		if i := strings.IndexByte(w, '='); i > 0 {
			c.KV[w[:i]] = w[i+1:]
		}
	}
	geti := func(k string, d int) (int, error) {
		v, ok := c.KV[k]
		if !ok {
			return d, nil
		}
		if strings.ContainsAny(v, ",/") {
			return d, nil // a list: parsed by the stream that defines it (det: j=1,2,3)
		}
		x, err := strconv.Atoi(v)
		if err != nil {
			return 0, fmt.Errorf("bad %s=%q", k, v)
		}
		return x, nil
	}
	gets := func(k, d string) string {
		if v, ok := c.KV[k]; ok {
			return v
		}
		return d
	}
	var err error
	c.Shape = gets("shape", "text")
	if c.Size, err = geti("size", 0); err != nil {
		return nil, err
	}
	ds, err := geti("dseed", 1)
	if err != nil {
		return nil, err
	}
	c.DSeed = int64(ds)
	c.T, c.E = gets("t", "NONE"), gets("e", "NONE")
	if c.BS, err = geti("bs", 4096); err != nil {
		return nil, err
	}
	if c.J, err = geti("j", 1); err != nil {
		return nil, err
	}
	if c.RJ, err = geti("rj", 1); err != nil {
		return nil, err
	}
	if c.CK, err = geti("ck", 0); err != nil {
		return nil, err
	}
	c.Hint = gets("hint", "none")
	c.HL = gets("hl", "0") == "1"
	c.WSplit, c.RSplit = gets("wsplit", "one"), gets("rsplit", "one")
	c.API = gets("api", "std")
	if c.Size < 0 || c.Size > 1<<28 {
		return nil, fmt.Errorf("bad size %d", c.Size)
	}
	return c, nil
}

func (c *g1Cfg) line() string {
	hl := 0
	if c.HL {
		hl = 1
	}
	s := fmt.Sprintf("%s shape=%s size=%d dseed=%d t=%s e=%s bs=%d j=%d rj=%d ck=%d hint=%s hl=%d wsplit=%s rsplit=%s",
		c.Stream, c.Shape, c.Size, c.DSeed, c.T, c.E, c.BS, c.J, c.RJ, c.CK, c.Hint, hl, c.WSplit, c.RSplit)
	if c.API != "" && c.API != "std" {
		s += " api=" + c.API
	}
	return s
}

func (c *g1Cfg) data() ([]byte, error) {
	d, ok := gen.Generate(c.Shape, c.Size, c.DSeed, c.BS)
	if !ok {
		return nil, fmt.Errorf("unknown shape %q", c.Shape)
	}
	return d, nil
}

// hint value given to the Writer (0 = not provided)
func g1Hint(h string, n int) int64 {
	switch h {
	case "", "none":
		return 0
	case "exact":
		return int64(n)
	case "half":
		return int64(n / 2)
	case "double":
		return 2 * int64(n)
	case "huge":
		return int64(1) << 48
	}
	x, err := strconv.ParseInt(h, 10, 64)
	if err != nil || x < 0 {
		return 0
	}
	return x
}

func g1HintClass(h string) string {
	switch h {
	case "", "none", "exact", "half", "double", "huge":
		if h == "" {
			return "none"
		}
		return h
	}
	return "num"
}

func g1JClass(j int) string {
	switch {
	case j <= 1:
		return "1"
	case j <= 4:
		return "2-4"
	case j <= 8:
		return "5-8"
	case j <= 32:
		return "9-32"
	}
	return "33-64"
}

func g1SizeClass(n, bs int) string {
	var a string
	switch {
	case n == 0:
		a = "0"
	case n <= 15:
		a = "1-15"
	case n == 16:
		a = "16"
	case n < 1024:
		a = "17-1023"
	case n < 16384:
		a = "1K-16K"
	case n < 32768:
		a = "16K-32K"
	case n <= 65536:
		a = "32K-64K"
	case n < 1<<20:
		a = "64K-1M"
	default:
		a = ">=1M"
	}
	nb := (n + bs - 1) / bs
	switch {
	case nb <= 1:
		return a + "/1blk"
	case nb <= 8:
		return a + "/2-8blk"
	case nb <= 64:
		return a + "/9-64blk"
	}
	return a + "/>64blk"
}

// ---------------------------------------------------------------------------------------------
// split schedules

// g1Sizer returns successive chunk lengths for the named schedule (never negative).
func g1Sizer(mode string, bs int, seed int64) func() int {
	r := rand.New(rand.NewSource(seed ^ 0x5eed))
	switch mode {
	case "one", "":
		return func() int { return 1 << 30 }
	case "bs":
		return func() int { return bs }
	case "bsm1":
		return func() int { return bs - 1 }
	case "bsp1":
		return func() int { return bs + 1 }
	case "rand":
		return func() int {
			switch r.Intn(4) {
			case 0:
				return 1 + r.Intn(16)
			case 1:
				return 1 + r.Intn(bs)
			case 2:
				return bs + r.Intn(2*bs)
			}
			return 1 + r.Intn(3*bs)
		}
	case "zero":
		return func() int {
			switch r.Intn(5) {
			case 0, 1:
				return 0
			case 2:
				return 1 + r.Intn(16)
			case 3:
				return bs
			}
			return 1 + r.Intn(2*bs)
		}
	}
	if strings.HasPrefix(mode, "pat:") {
		var pat []int
		for _, s := range strings.Split(mode[4:], ",") {
			x, err := strconv.Atoi(s)
			if err == nil && x >= 0 {
				pat = append(pat, x)
			}
		}
		if len(pat) == 0 {
			pat = []int{1}
		}
		i := 0
		return func() int { v := pat[i%len(pat)]; i++; return v }
	}
	if x, err := strconv.Atoi(mode); err == nil && x >= 0 {
		return func() int { return x }
	}
	return func() int { return 1 << 30 }
}

// ---------------------------------------------------------------------------------------------
// real code: compress / decompress through the public API only

type g1Sink struct {
	bytes.Buffer
	closes int
}

func (s *g1Sink) Close() error { s.closes++; return nil }

type g1Source struct {
	r io.Reader
}

func (s *g1Source) Read(p []byte) (int, error) { return s.r.Read(p) }
func (s *g1Source) Close() error               { return nil }

type g1Comp struct {
	Out     []byte
	CtorErr error
	Err     error  // first error returned by Write or Close
	Where   string // "Write#k" / "Close" / "short-write#k"
	Writes  int
}

type g1Params struct {
	T, E   string
	BS     int
	J      int
	CK     int
	Hint   int64
	HL     bool
	API    string
	WSplit string
	Seed   int64
}

func g1NewWriter(sink io.WriteCloser, p g1Params) (*kio.Writer, error) {
	if p.API == "ctx" || p.API == "ctxskip" {
		ctx := map[string]any{"transform": p.T, "entropy": p.E, "blockSize": uint(p.BS), "jobs": uint(p.J), "checksum": uint(p.CK)}
		if p.API == "ctxskip" {
			// the CLI's --skip option: blocks that look incompressible are stored in copy mode
			ctx["skipBlocks"] = true
		}
		if p.Hint != 0 {
			ctx["fileSize"] = p.Hint
		}
		if p.HL {
			ctx["headerless"] = true
		}
		return kio.NewWriterWithCtx(sink, ctx)
	}
	return kio.NewWriter(sink, p.T, p.E, uint(p.BS), uint(p.J), uint(p.CK), p.Hint, p.HL)
}

func g1Compress(data []byte, p g1Params) (c g1Comp) {
	sink := &g1Sink{}
	w, err := g1NewWriter(sink, p)
	if err != nil {
		c.CtorErr = err
		return
	}
	next := g1Sizer(p.WSplit, p.BS, p.Seed)
	off := 0
	tailZero := p.WSplit == "zero"
	zeros := 0
	for {
		l := next()
		if l == 0 {
			if zeros++; zeros > 1000 { // a schedule made only of empty writes never ends
				l = 1 << 30
			}
		} else {
			zeros = 0
		}
		if l > len(data)-off {
			l = len(data) - off
		}
		c.Writes++
		n, err := w.Write(data[off : off+l])
		if err != nil {
			c.Err, c.Where = err, fmt.Sprintf("Write#%d(off=%d,len=%d)", c.Writes, off, l)
			break
		}
		if n != l {
			c.Err, c.Where = fmt.Errorf("short write: %d of %d and nil error", n, l), fmt.Sprintf("short-write#%d(off=%d)", c.Writes, off)
			break
		}
		off += l
		if off >= len(data) {
			if tailZero {
				tailZero = false
				if _, err := w.Write(data[off:off]); err != nil {
					c.Err, c.Where = err, "Write#empty-tail"
				}
			}
			break
		}
	}
	if c.Err == nil {
		if err := w.Close(); err != nil {
			c.Err, c.Where = err, "Close"
		} else if err := w.Close(); err != nil {
			c.Err, c.Where = err, "Close(second)"
		}
	} else {
		func() {
			defer func() { recover() }()
			w.Close()
		}()
	}
	c.Out = append([]byte{}, sink.Bytes()...)
	return
}

type g1Dec struct {
	Out     []byte
	CtorErr error
	Err     error
	Problem string // "", "decode-error", "no-eof", "extra-data", "no-progress", "eof-not-sticky", "bad-count", "zero-read"
	What    string
	Reads   int
}

type g1RParams struct {
	T, E   string
	BS     int
	RJ     int
	CK     int
	Hint   int64
	HL     bool
	API    string
	RSplit string
	Seed   int64
}

func g1NewReader(src io.ReadCloser, p g1RParams) (*kio.Reader, error) {
	if p.HL {
		if p.API == "ctx" || p.API == "ctxskip" {
			// no bsVersion on purpose: the default must be usable
			ctx := map[string]any{"jobs": uint(p.RJ), "transform": p.T, "entropy": p.E, "blockSize": uint(p.BS), "checksum": uint(p.CK), "headerless": true}
			if p.Hint != 0 {
				ctx["outputSize"] = p.Hint
			}
			return kio.NewReaderWithCtx(src, ctx)
		}
		return kio.NewHeaderlessReader(src, uint(p.RJ), p.T, p.E, uint(p.BS), uint(p.CK), p.Hint, 6)
	}
	if p.API == "ctx" || p.API == "ctxskip" {
		return kio.NewReaderWithCtx(src, map[string]any{"jobs": uint(p.RJ)})
	}
	return kio.NewReader(src, uint(p.RJ))
}

// g1Decompress reads until io.EOF with the requested Read buffer schedule.  expect = length of the
// original (to bound the loop on runaway output and to know when only EOF is still due).
func g1Decompress(src io.Reader, p g1RParams, expect int) (d g1Dec) {
	r, err := g1NewReader(&g1Source{src}, p)
	if err != nil {
		d.CtorErr = err
		return
	}
	defer func() {
		func() {
			defer func() { recover() }()
			r.Close()
		}()
	}()
	next := g1Sizer(p.RSplit, p.BS, p.Seed+1)
	out := make([]byte, 0, expect+16)
	var buf []byte
	stall, zeros := 0, 0
	for {
		l := next()
		if l > expect+64 {
			l = expect + 64
		}
		if p.RSplit == "one" || p.RSplit == "" {
			l = expect
			if len(out) > 0 || l == 0 {
				l = 64
			}
		}
		if l == 0 {
			zeros++
		} else {
			zeros = 0
		}
		if (len(out) >= expect || zeros > 1000) && l == 0 {
			l = 1 // only EOF is due (a zero-length Read never reports it) / schedule of empty reads only
		}
		if cap(buf) < l {
			buf = make([]byte, l)
		}
		b := buf[:l]
		d.Reads++
		n, err := r.Read(b)
		if n < 0 || n > l {
			d.Problem, d.What = "bad-count", fmt.Sprintf("Read(len %d) returned n=%d", l, n)
			break
		}
		out = append(out, b[:n]...)
		if err == io.EOF {
			// sticky EOF
			n2, err2 := r.Read(make([]byte, 8))
			if n2 != 0 || err2 != io.EOF {
				d.Problem, d.What = "eof-not-sticky", fmt.Sprintf("Read after io.EOF returned (%d, %v)", n2, err2)
			}
			break
		}
		if err != nil {
			d.Err = err
			d.Problem, d.What = "decode-error", fmt.Sprintf("Read#%d(len=%d) after %d bytes: %v", d.Reads, l, len(out)-n, err)
			break
		}
		if l == 0 {
			continue
		}
		if n == 0 {
			stall++
			if stall > 64 {
				d.Problem, d.What = "no-progress", fmt.Sprintf("64 consecutive Read(len>0) returned (0,nil) after %d bytes", len(out))
				break
			}
		} else {
			stall = 0
		}
		if len(out) > expect+(1<<16) {
			d.Problem, d.What = "extra-data", fmt.Sprintf("more than %d bytes produced for a %d-byte input", len(out), expect)
			break
		}
	}
	d.Out = out
	return
}

func g1FirstDiff(a, b []byte) int {
	n := min(len(a), len(b))
	for i := 0; i < n; i++ {
		if a[i] != b[i] {
			return i
		}
	}
	if len(a) != len(b) {
		return n
	}
	return -1
}

// ---------------------------------------------------------------------------------------------
// stream analysis with the independent container parser

type g1StreamInfo struct {
	OK       bool
	Frames   int
	Copy     int
	Applied  int // blocks with at least one real transform applied
	Complete bool
	Masks    map[byte]int
}

func g1RealTransforms(chain string) int {
	n := 0
	for _, t := range strings.Split(chain, "+") {
		if !strings.EqualFold(t, "NONE") && t != "" {
			n++
		}
	}
	return n
}

func g1Analyse(comp []byte, hl bool, chain string, ck int) (si g1StreamInfo) {
	si.Masks = map[byte]int{}
	st, err := container.Parse(comp, hl)
	if err != nil || st == nil {
		return
	}
	si.OK = true
	si.Complete = st.Complete
	ckSize := uint(0)
	if ck == 32 {
		ckSize = 1
	} else if ck == 64 {
		ckSize = 2
	}
	nreal := g1RealTransforms(chain)
	for _, f := range st.Frames {
		if f.LenBits == 0 {
			continue
		}
		si.Frames++
		p, err := container.ParsePrologue(f.Payload, ckSize)
		if err != nil {
			si.OK = false
			continue
		}
		if p.Copy {
			si.Copy++
			continue
		}
		applied := false
		for i := 0; i < nreal; i++ {
			if p.SkipFlags&(0x80>>uint(i)) == 0 {
				applied = true
			}
		}
		if applied {
			si.Applied++
			si.Masks[p.SkipFlags]++
		}
	}
	return
}

// ---------------------------------------------------------------------------------------------
// fault localisation (public API only): which stage makes a plain 1-job round trip fail

// g1MaxPreLen: largest post-transform block length recorded in the stream for (data, chain, NONE)
func g1MaxPreLen(data []byte, chain string, bs int) int {
	c := g1Compress(data, g1Params{T: chain, E: "NONE", BS: bs, J: 1, WSplit: "one"})
	if c.CtorErr != nil || c.Err != nil {
		return 0
	}
	st, err := container.Parse(c.Out, false)
	if err != nil || st == nil {
		return 0
	}
	m := 0
	for _, f := range st.Frames {
		if f.LenBits == 0 {
			continue
		}
		if p, err := container.ParsePrologue(f.Payload, 0); err == nil && !p.Copy {
			m = max(m, int(p.PreLen))
		}
	}
	return m
}

func g1Simple(data []byte, t, e string, bs int) string {
	c := g1Compress(data, g1Params{T: t, E: e, BS: bs, J: 1, WSplit: "one"})
	if c.CtorErr != nil {
		return ""
	}
	if c.Err != nil {
		return "enc"
	}
	d := g1Decompress(bytes.NewReader(c.Out), g1RParams{T: t, E: e, BS: bs, RJ: 1, RSplit: "one"}, len(data))
	if d.CtorErr != nil || d.Problem != "" || !bytes.Equal(d.Out, data) {
		return "dec"
	}
	return ""
}

// g1Diagnose: first on the whole input, then (buffers are reused from block to block, so a fault may
// depend on the blocks seen before) on every block of the input taken alone.
func g1Diagnose(data []byte, t, e string, bs int) (site string, how string) {
	if site, how = g1DiagnoseOne(data, t, e, bs); site != "" || bs <= 0 || len(data) <= bs {
		return
	}
	for k := 0; k*bs < len(data); k++ {
		blk := data[k*bs : min(len(data), (k+1)*bs)]
		if s, h := g1DiagnoseOne(blk, t, e, bs); s != "" {
			return s, fmt.Sprintf("block %d (%d bytes) taken alone: %s", k, len(blk), h)
		}
	}
	return
}

// g1PanicClass maps a recovered runtime error text to a small mechanical class.
func g1PanicClass(msg string) string {
	switch {
	case strings.Contains(msg, "index out of range"):
		return "index-out-of-range"
	case strings.Contains(msg, "slice bounds out of range [-"):
		return "slice-bounds-negative"
	case strings.Contains(msg, "slice bounds out of range") && strings.Contains(msg, "capacity"):
		return "slice-bounds-capacity"
	case strings.Contains(msg, "slice bounds out of range"):
		return "slice-bounds"
	case strings.Contains(msg, "nil pointer"):
		return "nil-deref"
	case strings.Contains(msg, "runtime error"):
		return "runtime-error"
	}
	return "error"
}

// The class of the first fault documented at a site keeps the bare site name; a different class at
// the same site gets a suffix so that it is not mistaken for the documented one.
var g1DocumentedClass = map[string]string{
	"transform.ROLZX.Forward": "index-out-of-range",    // getKey2 on DNA-typed blocks
	"transform.EXE.Forward":   "slice-bounds-negative", // unvalidated ELF section offsets
	"transform.UTF.Forward":   "*",                     // symbol map written before the room check
}

func g1QualifySite(site, msg string) string {
	cl := g1PanicClass(msg)
	if cl == "error" {
		return site
	}
	if d, ok := g1DocumentedClass[site]; ok && d != "*" && d != cl {
		return site + "[" + cl + "]"
	}
	return site
}

func g1DiagnoseOne(data []byte, t, e string, bs int) (site string, how string) {
	var toks []string
	for _, x := range strings.Split(strings.ToUpper(t), "+") {
		if x != "NONE" && x != "" {
			toks = append(toks, x)
		}
	}
	stage := func(r string) string {
		if r == "enc" {
			return "Forward"
		}
		return "Inverse"
	}
	for k := 1; k <= len(toks); k++ {
		chain := strings.Join(toks[:k], "+")
		if r := g1Simple(data, chain, "NONE", bs); r != "" {
			if r == "dec" && k >= 2 {
				// the stages before this one round-trip on their own: did they expand the block beyond
				// the buffer the Reader gives to the inverse sequence (block size + max(512, bs/16))?
				if n, lim := g1MaxPreLen(data, strings.Join(toks[:k-1], "+"), bs), bs+max(512, bs>>4); n > lim {
					return "transform.ByteTransformSequence.Inverse", fmt.Sprintf("1-job round trip fails with t=%s e=NONE although t=%s round-trips: the first %d stages expand a block to %d bytes, more than the %d-byte block buffer of the Reader, so the inverse of %s has no room", chain, strings.Join(toks[:k-1], "+"), k-1, n, lim, toks[k-1])
				}
			}
			return "transform." + toks[k-1] + "." + stage(r), fmt.Sprintf("1-job round trip already fails with t=%s e=NONE", chain)
		}
	}
	E := strings.ToUpper(e)
	if E != "NONE" {
		if r := g1Simple(data, "NONE", E, bs); r != "" {
			st := "Encode"
			if r == "dec" {
				st = "Decode"
			}
			return "entropy." + E + "." + st, fmt.Sprintf("1-job round trip already fails with t=NONE e=%s", E)
		}
		for k := 1; k <= len(toks); k++ {
			chain := strings.Join(toks[:k], "+")
			if r := g1Simple(data, chain, E, bs); r != "" {
				if r == "dec" && k >= 2 {
					if n, lim := g1MaxPreLen(data, strings.Join(toks[:k-1], "+"), bs), bs+max(512, bs>>4); n > lim {
						return "transform.ByteTransformSequence.Inverse", fmt.Sprintf("1-job round trip fails with t=%s e=%s: the first %d stages expand a block to %d bytes, more than the %d-byte block buffer of the Reader", chain, E, k-1, n, lim)
					}
				}
				return "transform." + toks[k-1] + "." + stage(r), fmt.Sprintf("1-job round trip fails with t=%s e=%s (not with e=NONE, not with t=NONE)", chain, E)
			}
		}
	}
	return "", "not reproduced by a 1-job single-write round trip of the same data and codecs"
}

// g1Guard runs f with a watchdog; a hang is a violation and aborts the run (goroutines are stuck).
func g1Guard(op string, res *Result, limit time.Duration, f func() string) string {
	done := make(chan string, 1)
	go func() {
		defer func() {
			if r := recover(); r != nil {
				buf := make([]byte, 1<<14)
				buf = buf[:runtime.Stack(buf, false)]
				res.Violation = &Violation{Kind: "input", Site: g1TopKanziFrame(string(buf)), Symptom: "panic-on-caller-goroutine", What: fmt.Sprintf("%v\n%s", r, string(buf[:min(len(buf), 3000)]))}
				done <- "panic"
			}
		}()
		done <- f()
	}()
	select {
	case s := <-done:
		return s
	case <-time.After(limit):
		buf := make([]byte, 1<<16)
		buf = buf[:runtime.Stack(buf, true)]
		res.Violation = &Violation{Kind: "schedule", Site: "io.hand-off", Symptom: "hang", What: fmt.Sprintf("scenario did not terminate within %v", limit),
			Scenario: map[string]any{"stream": strings.Fields(op)[0], "op": op, "goroutines": string(buf[:min(len(buf), 6000)])}}
		res.Abort = true
		return "hang"
	}
}

// The statistics keep the first 20 violations of a run, and the check de-duplicates them by
// (site, symptom): a frequent known class must not crowd a rare one out of those 20 slots.  Only the
// first g1MaxPerClass scenarios of each (site, symptom) class carry a Violation record; the others
// are still counted in the histogram (violation-repeat:<site>/<symptom>) and visible in the
// implementation output line (violation <symptom> site=<site>).
const g1MaxPerClass = 2

var g1Classes = struct {
	sync.Mutex
	n map[string]int
}{n: map[string]int{}}

func g1SetViolation(res *Result, v *Violation) {
	k := v.Site + "/" + v.Symptom
	g1Classes.Lock()
	g1Classes.n[k]++
	c := g1Classes.n[k]
	g1Classes.Unlock()
	if c <= g1MaxPerClass {
		res.Violation = v
		return
	}
	res.Tags = append(res.Tags, "violation-repeat:"+k)
}

func g1TopKanziFrame(stack string) string {
	for _, l := range strings.Split(stack, "\n") {
		if i := strings.Index(l, "github.com/flanglet/kanzi-go/v2/"); i >= 0 && !strings.HasPrefix(strings.TrimSpace(l), "/") {
			s := l[i+len("github.com/flanglet/kanzi-go/v2/"):]
			if j := strings.LastIndexByte(s, '('); j > 0 {
				s = s[:j]
			}
			s = strings.NewReplacer("(*", "", ")", "").Replace(s)
			return s
		}
	}
	return "harness"
}

func g1Limit(size int) time.Duration {
	return 300*time.Second + time.Duration(size/1024)*50*time.Millisecond
}

// ---------------------------------------------------------------------------------------------
// rt Exec

func g1ErrClass(err error) string {
	var ioe *kio.IOError
	if errors.As(err, &ioe) {
		return "ioerr" + strconv.Itoa(ioe.ErrorCode())
	}
	return "err"
}

func rtExec(op string, res *Result) string {
	c, err := g1Parse(op)
	if err != nil {
		res.Violation = &Violation{Kind: "input", Site: "harness", Symptom: "bad-scenario", What: err.Error()}
		return "bad-scenario"
	}
	data, err := c.data()
	if err != nil {
		res.Violation = &Violation{Kind: "input", Site: "harness", Symptom: "bad-scenario", What: err.Error()}
		return "bad-scenario"
	}
	return g1Guard(op, res, g1Limit(c.Size), func() string { return rtRun(c, data, res) })
}

func rtRun(c *g1Cfg, data []byte, res *Result) string {
	return rtRun1(c, data, res)
}

func rtRun1(c *g1Cfg, data []byte, res *Result) string {
	hint := g1Hint(c.Hint, len(data))
	chainU := strings.ToUpper(c.T)
	res.Tags = append(res.Tags, "e:"+strings.ToUpper(c.E), "shape:"+c.Shape, "size:"+g1SizeClass(len(data), c.BS), "J:"+g1JClass(c.J),
		"hint:"+g1HintClass(c.Hint), "chainlen:"+strconv.Itoa(g1RealTransforms(c.T)), "bs:"+strconv.Itoa(c.BS), "wsplit:"+c.WSplit, "rsplit:"+c.RSplit,
		"ck:"+strconv.Itoa(c.CK), "hl:"+strconv.FormatBool(c.HL))
	for _, t := range strings.Split(chainU, "+") {
		res.Tags = append(res.Tags, "t:"+t)
	}
	res.Key = strings.Join([]string{chainU, strings.ToUpper(c.E), c.Shape, g1SizeClass(len(data), c.BS), g1JClass(c.J), g1HintClass(c.Hint)}, "|")
	lastSite := ""
	violate := func(site, symptom, what string) {
		dsite, how := g1Diagnose(data, c.T, c.E, c.BS)
		if dsite != "" {
			site = dsite
			if symptom == "write-error-after-accept" {
				site = g1QualifySite(site, what)
			}
		}
		g1SetViolation(res, &Violation{Kind: "input", Site: site, Symptom: symptom, What: what + " [" + how + "]"})
		res.Tags = append(res.Tags, "outcome:violation", "violation:"+site+"/"+symptom)
		lastSite = site
	}

	comp := g1Compress(data, g1Params{T: c.T, E: c.E, BS: c.BS, J: c.J, CK: c.CK, Hint: hint, HL: c.HL, API: c.API, WSplit: c.WSplit, Seed: c.DSeed})
	if comp.CtorErr != nil {
		res.Tags = append(res.Tags, "outcome:rejected")
		return "rejected " + g1ErrClass(comp.CtorErr)
	}
	if comp.Err != nil {
		violate("io.Writer", "write-error-after-accept", fmt.Sprintf("%s returned %q after the constructor accepted the configuration", comp.Where, comp.Err.Error()))
		return "violation write-error-after-accept site=" + lastSite
	}
	si := g1Analyse(comp.Out, c.HL, c.T, c.CK)
	dec := g1Decompress(bytes.NewReader(comp.Out), g1RParams{T: c.T, E: c.E, BS: c.BS, RJ: c.RJ, CK: c.CK, Hint: hint, HL: c.HL, API: c.API, RSplit: c.RSplit, Seed: c.DSeed}, len(data))
	if dec.CtorErr != nil {
		violate("io.Reader", "reader-rejects-own-stream", fmt.Sprintf("Reader constructor failed on a stream produced by the Writer: %v", dec.CtorErr))
		return "violation reader-rejects-own-stream site=" + lastSite
	}
	if dec.Problem != "" && dec.Problem != "eof-not-sticky" {
		violate("io.Reader", dec.Problem, dec.What)
		return "violation " + dec.Problem + " site=" + lastSite
	}
	if i := g1FirstDiff(dec.Out, data); i >= 0 {
		violate("io.Reader", "decode-mismatch", fmt.Sprintf("decoded %d bytes for %d input bytes, first difference at offset %d (block %d), no error reported", len(dec.Out), len(data), i, i/c.BS))
		return "violation decode-mismatch site=" + lastSite
	}
	if dec.Problem == "eof-not-sticky" {
		g1SetViolation(res, &Violation{Kind: "input", Site: "io.Reader.Read", Symptom: "eof-not-sticky", What: dec.What})
		res.Tags = append(res.Tags, "outcome:violation")
		return "violation eof-not-sticky"
	}
	res.Tags = append(res.Tags, "outcome:ok")
	wantFrames := (len(data) + c.BS - 1) / c.BS
	if !si.OK || !si.Complete || si.Frames != wantFrames {
		res.Tags = append(res.Tags, "container:unexpected-structure")
	}
	if si.Applied > 0 {
		res.Nontrivial = true
		res.Tags = append(res.Tags, "applied:yes")
	} else if g1RealTransforms(c.T) == 0 {
		res.Tags = append(res.Tags, "applied:no-transform-in-chain")
	} else {
		res.Tags = append(res.Tags, "applied:declined-or-copy")
	}
	masks := []string{}
	for m, k := range si.Masks {
		masks = append(masks, fmt.Sprintf("%08b:%d", m, k))
	}
	sort.Strings(masks)
	res.Sample = map[string]any{"scenario": c.line(), "in": len(data), "out": len(comp.Out), "frames": si.Frames, "copy": si.Copy, "applied": si.Applied, "skipmasks": masks, "writes": comp.Writes, "reads": dec.Reads}
	return fmt.Sprintf("ok in=%d out=%d frames=%d copy=%d applied=%d", len(data), len(comp.Out), si.Frames, si.Copy, si.Applied)
}

// ---------------------------------------------------------------------------------------------
// rt Gen

type rtEmit func(c g1Cfg, fam string)

var g1Jobs = []int{1, 2, 3, 4, 7, 8, 16, 63, 64}
var g1Splits = []string{"one", "1", "bs", "bsm1", "bsp1", "rand", "zero"}
var g1Hints = []string{"none", "exact", "half", "double", "huge"}

func pick[T any](r *rand.Rand, xs []T) T { return xs[r.Intn(len(xs))] }

func g1BoundarySizes(bs int) []int {
	return []int{0, 1, 15, 16, 17, 63, 64, 65, 1023, 1024, 1025, 2047, 2048, 2049, 4095, 4096, 4097, 16383, 16384, 16385, 32767, 32768, 32769, 65535, 65536, 65537,
		bs - 1, bs, bs + 1, 2*bs - 1, 2 * bs, 2*bs + 1, 3*bs + 17}
}

func g1RandomChain(r *rand.Rand, maxLen int, fillers bool) string {
	n := 1 + r.Intn(maxLen)
	var toks []string
	for len(toks) < n {
		t := g1Transforms[1+r.Intn(len(g1Transforms)-1)]
		if fillers && r.Intn(4) == 0 {
			t = "NONE"
		}
		toks = append(toks, t)
	}
	return strings.Join(toks, "+")
}

// rtGen emits the whole rt population; the caller keeps the light or the heavy (CM/TPAQ/TPAQX) part.
func rtGen(r *rand.Rand, tier string, n int, emit rtEmit) {
	thorough := tier == "thorough"
	allShapes := gen.ShapeNames()
	bsList := []int{1024, 4096, 65536, 1 << 20}
	smallBS := []int{1024, 4096}
	base := func(fam string) g1Cfg {
		return g1Cfg{Stream: "rt", Shape: "text", Size: 5000, DSeed: int64(r.Intn(1 << 30)), T: "NONE", E: "NONE", BS: 4096, J: 1, RJ: 1, CK: 0, Hint: "none", WSplit: "one", RSplit: "one"}
	}
	rndCommon := func(c *g1Cfg) {
		c.J, c.RJ = pick(r, g1Jobs), pick(r, g1Jobs)
		c.CK = pick(r, []int{0, 32, 64})
		c.Hint = pick(r, g1Hints)
		c.HL = r.Intn(4) == 0
		c.WSplit, c.RSplit = pick(r, g1Splits), pick(r, g1Splits)
		if r.Intn(3) == 0 {
			c.API = "ctx"
		}
	}
	sizeFor := func(bs int) int {
		switch r.Intn(6) {
		case 0:
			return pick(r, g1BoundarySizes(bs))
		case 1:
			return bs + r.Intn(bs)
		case 2:
			return 2*bs + r.Intn(6*bs)
		case 3:
			return r.Intn(bs) + 17
		case 4:
			return 16384 + r.Intn(3) - 1 + 16384*r.Intn(2)
		}
		return 9*bs + r.Intn(60*bs)
	}

	// A. every single transform, on favourable shapes and on arbitrary ones
	repsA := 1
	if thorough {
		repsA = 6
	}
	for rep := 0; rep < repsA; rep++ {
		for _, t := range g1Transforms {
			shapes := append([]string{}, g1Favourable[t]...)
			shapes = append(shapes, pick(r, allShapes), pick(r, allShapes), "mixed")
			for _, sh := range shapes {
				for k := 0; k < 3; k++ {
					c := base("single-t")
					c.T, c.Shape = t, sh
					c.E = pick(r, g1LightEntropies)
					c.BS = pick(r, smallBS)
					if k == 2 {
						c.BS = pick(r, bsList[:3])
					}
					switch k {
					case 0:
						c.Size = 200 + r.Intn(1500)
					case 1:
						c.Size = c.BS + r.Intn(3*c.BS)
					default:
						c.Size = 4*c.BS + r.Intn(8*c.BS)
						if c.Size > 300000 {
							c.Size = 150000 + r.Intn(150000)
						}
					}
					if k > 0 {
						rndCommon(&c)
					}
					emit(c, "single-t")
				}
			}
		}
	}
	// A2. transforms against the content they are least prepared for: thousands of distinct code
	// points in one block (UTF), incompressible input (LZ family, ROLZ, ROLZX), random executables
	for rep := 0; rep < 2*repsA; rep++ {
		for _, sh := range []string{"utf8-3000", "utf8-40000"} {
			for _, t := range []string{"UTF", "TEXT+UTF", "UTF+LZ"} {
				c := base("utf-many")
				c.T, c.Shape = t, sh
				c.E = pick(r, g1LightEntropies)
				c.BS = pick(r, []int{16384, 32768, 65536})
				c.Size = c.BS/2 + r.Intn(2*c.BS)
				rndCommon(&c)
				emit(c, "adverse:utf-many")
			}
		}
		for _, t := range []string{"LZ", "LZX", "LZP", "ROLZ", "ROLZX", "RLT", "ZRLT", "SRT", "PACK", "BWT", "BWTS", "MM", "TEXT"} {
			c := base("incompressible")
			c.T, c.Shape = t, pick(r, []string{"random", "base64", "exe-mz"})
			c.E = pick(r, g1LightEntropies)
			c.BS = pick(r, []int{1024, 4096, 65536})
			c.Size = 1 + r.Intn(3*c.BS)
			if r.Intn(2) == 0 {
				c.Size = 1 + r.Intn(c.BS) // one short block: output buffers sized for exactly this length
			}
			rndCommon(&c)
			emit(c, "adverse:incompressible")
		}
		for _, sh := range []string{"exe-elf", "exe-elfwild", "exe-pewild", "exe-mz"} {
			c := base("exe-wild")
			c.T, c.Shape = pick(r, []string{"EXE", "EXE+LZ", "TEXT+UTF+EXE+PACK+MM+ROLZ"}), sh
			c.E = pick(r, g1LightEntropies)
			c.BS = pick(r, []int{1024, 4096, 65536})
			c.Size = 300 + r.Intn(3*c.BS)
			rndCommon(&c)
			emit(c, "adverse:exe-wild")
		}
	}
	// B. every entropy codec, alone and behind a transform
	for rep := 0; rep < repsA; rep++ {
		for _, e := range g1Entropies {
			for _, t := range []string{"NONE", "LZ", "BWT", "TEXT", "RLT+ZRLT"} {
				for _, sh := range []string{"text", "fib", "skew-250-6", "random", "zeros", pick(r, allShapes)} {
					c := base("single-e")
					c.T, c.E, c.Shape = t, e, sh
					c.BS = pick(r, smallBS)
					c.Size = sizeFor(c.BS)
					if r.Intn(2) == 0 {
						rndCommon(&c)
					}
					emit(c, "single-e")
				}
			}
		}
	}
	// C. the ten CLI levels
	for lvl, te := range g1Levels {
		for _, sh := range []string{"text", "mixed", "exe-elfsec", "exe-pe", "dna", "utf8-50", "wavefull", "random", "reptext", "runs"} {
			reps := 1
			if thorough {
				reps = 4
			}
			for k := 0; k < reps; k++ {
				c := base("level")
				c.T, c.E, c.Shape = te[0], te[1], sh
				c.BS = pick(r, bsList[:3])
				c.Size = c.BS/2 + r.Intn(4*c.BS)
				if c.Size > 200000 {
					c.Size = 100000 + r.Intn(100000)
				}
				rndCommon(&c)
				emit(c, fmt.Sprintf("level:%d", lvl))
			}
		}
	}
	// D. boundary sizes
	for _, bs := range []int{1024, 4096, 65536} {
		for _, sz := range g1BoundarySizes(bs) {
			reps := 2
			if thorough {
				reps = 8
			}
			for k := 0; k < reps; k++ {
				c := base("size")
				c.BS, c.Size = bs, sz
				c.Shape = pick(r, []string{"text", "runs", "random", "reptext", "numeric"})
				c.T = pick(r, []string{"NONE", "LZ", "TEXT", "BWT", "RLT", "TEXT+UTF+BWT+RANK+ZRLT", "LZX", "ROLZ", "PACK", "MTFT", "SRT", "BWTS"})
				c.E = pick(r, g1Entropies)
				rndCommon(&c)
				emit(c, "size")
			}
		}
	}
	// E. jobs x hint (with more blocks than jobs, fewer blocks than jobs, >= 64 blocks)
	for _, j := range g1Jobs {
		for _, h := range []string{"none", "exact", "half", "double", "huge", "1", "1500", "70000"} {
			reps := 2
			if thorough {
				reps = 6
			}
			for k := 0; k < reps; k++ {
				c := base("jobs-hint")
				c.BS = 1024
				c.J, c.Hint = j, h
				c.RJ = pick(r, g1Jobs)
				switch k % 3 {
				case 0:
					c.Size = 66*1024 + r.Intn(8*1024) // more than 64 blocks
				case 1:
					c.Size = 3*1024 + r.Intn(20*1024)
				default:
					c.Size = 1 + r.Intn(70*1024)
				}
				c.Shape = pick(r, []string{"text", "mixed", "runs", "random"})
				c.T = pick(r, []string{"NONE", "LZ", "TEXT", "RLT", "PACK", "TEXT+LZ"})
				c.E = pick(r, g1LightEntropies)
				c.CK = pick(r, []int{0, 32, 64})
				c.HL = r.Intn(4) == 0
				c.WSplit, c.RSplit = pick(r, []string{"one", "bs", "bsp1", "rand", "zero"}), pick(r, []string{"one", "bs", "bsm1", "rand", "zero"})
				if r.Intn(3) == 0 {
					c.API = "ctx"
				}
				emit(c, "jobs-hint")
			}
		}
	}
	// F. write partitions x read sizes
	for _, ws := range append(append([]string{}, g1Splits...), "7", "pat:0,3,0,5000") {
		for _, rs := range append(append([]string{}, g1Splits...), "13", "pat:1,0,4096,0") {
			c := base("splits")
			c.BS = 1024
			c.Size = 5*1024 + r.Intn(12*1024)
			c.WSplit, c.RSplit = ws, rs
			c.J, c.RJ = pick(r, []int{1, 2, 3, 4, 8}), pick(r, []int{1, 2, 3, 4, 8})
			c.Shape = pick(r, []string{"text", "mixed", "runs"})
			c.T, c.E = pick(r, []string{"NONE", "LZ", "TEXT+LZ", "BWT"}), pick(r, g1LightEntropies)
			c.Hint = pick(r, g1Hints)
			c.CK = pick(r, []int{0, 32, 64})
			emit(c, "splits")
		}
	}
	// G. MIXED content: per-block detection state must not leak between blocks
	for _, t := range []string{"TEXT", "TEXT+LZ", "RLT", "LZ", "PACK", "EXE", "MM", "UTF", "DNA", "LZX", "LZP", "ROLZ", "EXE+TEXT+UTF", "TEXT+UTF+PACK+MM+LZX", "TEXT+UTF+EXE+PACK+MM+ROLZ", "EXE+RLT+TEXT+UTF+DNA", "MM+LZ", "DNA+LZ"} {
		for _, bs := range []int{1024, 4096, 65536} {
			reps := 1
			if thorough {
				reps = 5
			}
			for k := 0; k < reps; k++ {
				c := base("mixed")
				c.Shape = "mixed"
				c.T, c.BS = t, bs
				c.E = pick(r, g1Entropies)
				c.Size = 6*bs + r.Intn(8*bs)
				if c.Size > 400000 {
					c.Size = 300000 + r.Intn(100000)
				}
				rndCommon(&c)
				c.J = pick(r, []int{1, 2, 3, 4, 7, 8})
				emit(c, "mixed")
			}
		}
	}
	// H. pairs of transforms
	{
		var pairs [][2]string
		for _, a := range g1Transforms[1:] {
			for _, b := range g1Transforms[1:] {
				pairs = append(pairs, [2]string{a, b})
			}
		}
		reps := 1
		if !thorough {
			r.Shuffle(len(pairs), func(i, j int) { pairs[i], pairs[j] = pairs[j], pairs[i] })
			pairs = pairs[:160]
		} else {
			reps = 3
		}
		for _, p := range pairs {
			for k := 0; k < reps; k++ {
				c := base("pair")
				c.T = p[0] + "+" + p[1]
				c.E = pick(r, g1LightEntropies)
				fav := append(append([]string{}, g1Favourable[p[0]]...), g1Favourable[p[1]]...)
				c.Shape = pick(r, append(fav, "mixed", "text"))
				c.BS = pick(r, smallBS)
				c.Size = sizeFor(c.BS)
				rndCommon(&c)
				emit(c, "pair")
			}
		}
	}
	// I. random chains of length <= 8
	{
		cnt := 250
		if thorough {
			cnt = 4000
		}
		for k := 0; k < cnt; k++ {
			c := base("chain")
			c.T = g1RandomChain(r, 8, false)
			c.E = pick(r, g1Entropies)
			c.Shape = pick(r, allShapes)
			c.BS = pick(r, bsList[:3])
			c.Size = sizeFor(c.BS)
			if c.Size > 300000 {
				c.Size = 100000 + r.Intn(200000)
			}
			rndCommon(&c)
			emit(c, "chain")
		}
	}
	// J2. chains that expand a block beyond what the decoder accepts (the encoder then stores the block untransformed):
	//     several SRT stages on small blocks, every entropy codec (the TPAQ predictor is sized from the block length in the
	//     ctx), data with repeats and with all 256 symbols, every checksum width
	{
		for _, nSRT := range []int{4, 5, 6, 8} {
			for ei, e := range g1Entropies {
				for si, sh := range []string{"text", "skew-250-6", "random", "runs"} {
					if !thorough && (nSRT+ei+si)%2 == 1 {
						continue
					}
					c := base("expanding-chain")
					c.T = strings.TrimSuffix(strings.Repeat("SRT+", nSRT), "+")
					if si == 1 && nSRT < 8 {
						c.T += "+LZ"
					}
					c.E = e
					c.Shape = sh
					c.BS = 1024
					c.Size = []int{1024, 2500, 4096 + 700}[(ei+si)%3]
					rndCommon(&c)
					c.CK = []int{0, 32, 64}[(nSRT+ei)%3]
					emit(c, "expanding-chain")
				}
			}
		}
	}
	// K. large blocks
	{
		cnt := 6
		if thorough {
			cnt = 40
		}
		for k := 0; k < cnt; k++ {
			c := base("bigblock")
			c.BS = 1 << 20
			c.Size = (1 << 20) + r.Intn(3<<20)
			c.Shape = pick(r, []string{"text", "mixed", "reptext", "runs", "exe-elfsec", "wavefull"})
			c.T = pick(r, []string{"BWT", "TEXT+UTF+BWT+RANK+ZRLT", "LZX", "BWTS", "ROLZ", "TEXT+LZ", "RLT", "MM+LZ"})
			c.E = pick(r, g1LightEntropies)
			rndCommon(&c)
			c.J, c.RJ = pick(r, []int{1, 2, 3, 4}), pick(r, []int{1, 2, 3, 4, 7})
			c.WSplit, c.RSplit = pick(r, []string{"one", "bs", "bsp1", "rand", "65535"}), pick(r, []string{"one", "bs", "bsm1", "rand", "65537"})
			emit(c, "bigblock")
		}
		if thorough {
			// blocks above the 4 MiB multi-threaded BWT threshold, reader jobs 3,5,6,7, with a hint
			for _, rj := range []int{3, 5, 6, 7, 1, 8} {
				for _, h := range []string{"exact", "none", "half", "double"} {
					c := base("bwt-4m")
					c.BS = 6 << 20
					c.Size = (5 << 20) + r.Intn(9<<20)
					c.Shape = pick(r, []string{"text", "reptext", "mixedsafe"})
					c.T = pick(r, []string{"BWT", "TEXT+UTF+BWT+RANK+ZRLT", "BWT+MTFT+ZRLT", "BWTS"})
					c.E = pick(r, []string{"ANS0", "HUFFMAN", "FPAQ", "NONE"})
					c.J, c.RJ = pick(r, []int{1, 2, 3, 5, 8}), rj
					c.Hint = h
					c.CK = pick(r, []int{0, 32, 64})
					c.WSplit, c.RSplit = pick(r, []string{"one", "rand", "65535"}), pick(r, []string{"one", "rand", "65537"})
					emit(c, "bwt-4m")
				}
			}
		}
	}
	// R. unconstrained random configurations up to the requested count
	total := 4500
	if thorough {
		total = 60000
	}
	if n > 0 {
		total = n
	}
	for k := 0; k < total; k++ {
		c := base("random")
		if r.Intn(3) == 0 {
			te := pick(r, g1Levels)
			c.T, c.E = te[0], te[1]
		} else {
			c.T = g1RandomChain(r, 1+r.Intn(4), r.Intn(5) == 0)
			c.E = pick(r, g1Entropies)
		}
		c.Shape = pick(r, allShapes)
		c.BS = pick(r, bsList[:3])
		if r.Intn(6) == 0 {
			c.BS = 1024 + 16*r.Intn(4096)
		}
		c.Size = sizeFor(c.BS)
		if c.Size > 400000 {
			c.Size = 100000 + r.Intn(300000)
		}
		rndCommon(&c)
		if r.Intn(8) == 0 {
			c.Hint = strconv.Itoa(r.Intn(2*c.Size + 2))
		}
		emit(c, "random")
	}
}

// rtFilter adapts a generated configuration to the light (`rt`) or heavy (`rtbig`) stream; ok=false
// when the configuration belongs to the other stream.
func rtFilter(c g1Cfg, heavy bool) (g1Cfg, bool) {
	if g1Heavy(c.E) != heavy {
		return c, false
	}
	if heavy {
		c.Stream = "rtbig"
		if c.Size > 65536 {
			c.Size = 32768 + c.Size%32769
		}
		if c.BS > 65536 {
			c.BS = 65536
		}
		c.J, c.RJ = min(c.J, 4), min(c.RJ, 4)
	}
	// byte-at-a-time partitions of large inputs only cost time
	if (c.WSplit == "1" || c.RSplit == "1") && c.Size > 200000 {
		c.Size = 100000 + c.Size%100000
	}
	return c, true
}

func rtMakeGen(heavy bool) func(r *rand.Rand, tier string, n int, emit func(op string, tags ...string)) {
	return func(r *rand.Rand, tier string, n int, emit func(op string, tags ...string)) {
		count := 0
		limit := 0
		if n > 0 {
			limit = n
		}
		nn := n
		if heavy && n == 0 {
			// keep the random tail of the heavy stream small: every scenario allocates 20-150 MB
			nn = 700
			if tier == "thorough" {
				nn = 12000
			}
		}
		rtGen(r, tier, nn, func(c g1Cfg, fam string) {
			c2, ok := rtFilter(c, heavy)
			if !ok || (limit > 0 && count >= limit) {
				return
			}
			count++
			emit(c2.line(), "family:"+strings.SplitN(fam, ":", 2)[0], "fam:"+fam)
		})
	}
}

const rtRule = "real Writer -> real Reader round trips through the public API (NewWriter/NewWriterWithCtx, NewReader/NewHeaderlessReader/NewReaderWithCtx): " +
	"30 data shapes (text, UTF-8 50/3000/40000 code points, DNA, ELF/PE with consistent and random headers, WAV, runs, k-rare+m-dominant, Fibonacci, random, small alphabets, base64, numeric, zeros, MIXED per block) x " +
	"sizes 0,1,15,16,17, +-1 around 1 KiB multiples / 16 KiB / 32 KiB / 64 KiB / block size, multi-block, > 64 blocks x every single transform (19) x every entropy (9) x sampled pairs (all pairs: thorough) x random chains <= 8 x ten CLI levels x " +
	"block sizes 1024..1 MiB (thorough: 6 MiB blocks over the BWT threshold) x jobs {1,2,3,4,7,8,16,63,64} both sides x hint {none,exact,half,double,huge,n} x checksum {0,32,64} x header/headerless x write partitions and read sizes {one,1,bs,bs-1,bs+1,rand,with zero-length}; " +
	"oracle: ctor error = rejected, then Write=(len,nil), Close=nil, output==input then io.EOF; distinct_nontrivial = distinct (chain, entropy, shape, size-class, J-class, hint-class) whose stream (parsed with the independent container parser) has >= 1 block with a real transform applied"

func init() {
	registerStream(&Stream{Name: "rt", Rule: rtRule, Gen: rtMakeGen(false), Exec: rtExec})
	registerStream(&Stream{Name: "rtbig", Rule: "same as rt for the memory-hungry entropy codecs CM/TPAQ/TPAQX (size <= 64 KiB, jobs <= 4, 2 scenarios at a time); " + rtRule,
		Gen: rtMakeGen(true), Exec: rtExec, Parallel: 2})
}
