package main

import (
	"fmt"
	"os"
	"strconv"
)

// kv clitree <dir> <seed> <n> <max>: materialise the tree of a cli scenario (for reproducing findings by hand)
func init() {
	register("clitree", func(args []string) int {
		if len(args) != 4 {
			fmt.Fprintln(os.Stderr, "usage: kv clitree <dir> <seed> <n> <max>")
			return 2
		}
		seed, _ := strconv.ParseInt(args[1], 10, 64)
		n, _ := strconv.Atoi(args[2])
		max, _ := strconv.Atoi(args[3])
		if err := cliWriteTree(args[0], cliTree(seed, n, max)); err != nil {
			fmt.Fprintln(os.Stderr, err)
			return 3
		}
		return 0
	})
}
