/-
Proofs for the Huffman codec, part 7: the remaining statements of `Properties/C12_huffman.lean`
(prefix-freeness of the canonical codes, the header for every alphabet size).
-/
import Kanzi.Model.Huffman
import Kanzi.Proofs.HufBlock

namespace Kanzi.Huffman
open Kanzi.Bits Kanzi.EntSmall Kanzi.Normalize

/-- canonical codes fit their lengths -/
theorem canon_code_lt (sizes a : List Nat) (hlo : LensOk sizes a) (h2 : 2 ≤ a.length)
    (codes ord : List Nat) (hg : generateCanonicalCodes sizes (List.replicate 256 0) a = some (codes, ord)) :
    ∀ x ∈ a, codes.getD x 0 < 2 ^ sizes.getD x 0 := by
  obtain ⟨codes', hg', _, hco, _⟩ := genCodes_ok sizes a hlo h2
  rw [hg] at hg'
  simp only [Option.some.injEq, Prod.mk.injEq] at hg'
  obtain ⟨hc, _⟩ := hg'
  subst hc
  have hperm := canonOrder_perm sizes a hlo.nodup hlo.lt256 hlo.range
  intro x hx
  have := CodesOk_le sizes codes x (canonOrder sizes a) 0 hco (hperm.mem_iff.mpr hx)
  rw [Nat.zero_add, kraft12_perm _ hperm] at this
  have hk := hlo.kraft
  exact code_lt_of_tile _ _ (hlo.range x hx).2 (by rw [slotW] at this; omega)

/-- canonical codes of lengths that satisfy Kraft's inequality are prefix free -/
theorem canonical_prefix_free (sizes a : List Nat) (hlo : LensOk sizes a) (h2 : 2 ≤ a.length)
    (codes ord : List Nat) (hg : generateCanonicalCodes sizes (List.replicate 256 0) a = some (codes, ord))
    (s t : Nat) (hs : s ∈ a) (ht : t ∈ a) (hpre : codeBits sizes codes s <+: codeBits sizes codes t) : s = t := by
  obtain ⟨codes', hg', _, hco, _⟩ := genCodes_ok sizes a hlo h2
  rw [hg] at hg'
  simp only [Option.some.injEq, Prod.mk.injEq] at hg'
  obtain ⟨hc, _⟩ := hg'
  subst hc
  have hperm := canonOrder_perm sizes a hlo.nodup hlo.lt256 hlo.range
  have hlt : ∀ x ∈ a, codes.getD x 0 < 2 ^ sizes.getD x 0 := by
    intro x hx
    have := CodesOk_le sizes codes x (canonOrder sizes a) 0 hco (hperm.mem_iff.mpr hx)
    rw [Nat.zero_add, kraft12_perm _ hperm] at this
    have hk := hlo.kraft
    exact code_lt_of_tile _ _ (hlo.range x hx).2 (by rw [slotW] at this; omega)
  obtain ⟨r, hr⟩ := hpre
  have p1 := peek_code (codes.getD t 0) (sizes.getD t 0) (hlo.range t ht).2 (hlt t ht) []
  have p2 := peek_code (codes.getD s 0) (sizes.getD s 0) (hlo.range s hs).2 (hlt s hs) r
  simp only [codeBits] at hr
  rw [List.append_nil, ← hr] at p1
  have f1 := findSlot_hit sizes codes t (peek 12 (natBits (codes.getD s 0) (sizes.getD s 0) ++ r))
    (canonOrder sizes a) 0 hco (hperm.mem_iff.mpr ht) (by rw [slotW]; exact p1.1) (by rw [slotW]; exact p1.2)
  have f2 := findSlot_hit sizes codes s (peek 12 (natBits (codes.getD s 0) (sizes.getD s 0) ++ r))
    (canonOrder sizes a) 0 hco (hperm.mem_iff.mpr hs) (by rw [slotW]; exact p2.1) (by rw [slotW]; exact p2.2)
  rw [f1] at f2
  exact (Option.some.inj f2).symm

/-- the header of a chunk, for every alphabet size (0, 1, more) -/
theorem readLengths_header (sizes a : List Nat) (hs : a.Pairwise (· < ·)) (hlo : LensOk sizes a) (rest : Bits) :
    ∃ rl, readLengths (encodeAlphabetBits a ++ encodeSizes sizes a 2 ++ rest) = some (rl, rest) ∧
      rl.alphabet.Perm a ∧ (∀ s ∈ a, rl.sizes.getD s 0 = sizes.getD s 0) ∧
      (2 ≤ a.length → generateCanonicalCodes sizes (List.replicate 256 0) a = some (rl.codes, rl.alphabet)) := by
  by_cases h0 : a.length = 0
  · have : a = [] := List.length_eq_zero_iff.mp h0
    subst this
    refine ⟨⟨[], List.replicate 256 8, List.replicate 256 0⟩, ?_, List.Perm.refl _, fun _ h => (by cases h),
      fun h => (by simp at h)⟩
    unfold readLengths
    rw [List.append_assoc, alphabet_roundtrip [] List.Pairwise.nil (fun _ h => (by cases h))]
    simp only [List.length_nil, if_true]
    rfl
  · by_cases h1 : a.length = 1
    · obtain ⟨s, hs1⟩ := List.length_eq_one_iff.mp h1
      subst hs1
      -- recompute what `readLengths` answers, to expose the stored sizes
      have hs256 := hlo.lt256 s List.mem_cons_self
      have hsz := hlo.range s List.mem_cons_self
      refine ⟨⟨[s], storeSizes sizes [s] (List.replicate 256 8),
        assignCodes (storeSizes sizes [s] (List.replicate 256 8)) [s] 0
          ((storeSizes sizes [s] (List.replicate 256 8)).getD s 0) (List.replicate 256 0)⟩,
        ?_, List.Perm.refl _, ?_, fun h => (by simp at h)⟩
      · unfold readLengths
        rw [List.append_assoc, alphabet_roundtrip [s] hs hlo.lt256]
        simp only
        rw [if_neg (by simp), readSizes_enc sizes rest [s] 2 _ hlo.range (by omega)]
        simp only [generateCanonicalCodes, List.length_cons, List.length_nil]
        rfl
      · intro x hx
        rw [storeSizes_getD _ _ _ _ (by rw [List.length_replicate]; exact hlo.lt256 x hx), if_pos hx]
    · have h2 : 2 ≤ a.length := by omega
      obtain ⟨codes, tbl, hg, hrl, _, _, _, _, _, _⟩ := decoder_tables sizes a hs hlo h2 rest
      refine ⟨_, hrl, canonOrder_perm sizes a hlo.nodup hlo.lt256 hlo.range, ?_, fun _ => hg⟩
      intro x hx
      simp only
      rw [storeSizes_getD _ _ _ _ (by rw [List.length_replicate]; exact hlo.lt256 x hx), if_pos hx]

/-- the packed table of the encoder holds the canonical codes, in every branch -/
theorem encoder_codes (freqs : List Nat) (hl : freqs.length = 256) (h2 : 2 ≤ (support freqs).length) :
    ∃ u codes ord, updateFrequencies freqs = some u ∧
      generateCanonicalCodes u.sizes (List.replicate 256 0) (support freqs) = some (codes, ord) ∧
      ∀ s ∈ support freqs,
        u.codes.getD s 0 >>> 12 = u.sizes.getD s 0 ∧ u.codes.getD s 0 &&& 0x0FFF = codes.getD s 0 := by
  obtain ⟨u, hu, hok⟩ := updateFrequencies_spec freqs hl
  obtain ⟨codes, ord, hg, hpk⟩ := hok.codes h2
  have hlt := canon_code_lt u.sizes _ hok.lens h2 codes ord hg
  obtain ⟨c2, hg2, hcl, _, _⟩ := genCodes_ok u.sizes _ hok.lens h2
  rw [hg] at hg2
  simp only [Option.some.injEq, Prod.mk.injEq] at hg2
  obtain ⟨hcc2, _⟩ := hg2
  subst hcc2
  have hpc := packCodes_spec u.sizes _ codes hok.lens.nodup (fun s hs => by rw [hcl]; exact hok.lens.lt256 s hs)
  refine ⟨u, codes, ord, hu, hg, fun s hs => ?_⟩
  rw [hpk, hpc.2.2 s hs]
  exact packed_fields _ _ (hok.lens.range s hs).2 (hlt s hs)

end Kanzi.Huffman
