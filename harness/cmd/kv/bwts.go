package main

// bwts: correspondence stream for the bijective Burrows-Wheeler transform transform.BWTS
// (v2/transform/BWTS.go), model lean/Kanzi/Model/BWTS.lean, driver lean/Kanzi/Drv/BWTS.lean.
//
//	f <dstlen> <hex>           Forward(src, dst[:dstlen])                        -> <res>   (model: suffix array spec + modelled post-processing)
//	s <hex>                    Forward(src, dst[:len])                           -> <res>   (model: bwtsSpec, the textbook definition)
//	i <dstlen> <hex>           Inverse(src, dst[:dstlen])                        -> <res>
//	r <dstlen> <invlen> <hex>  Forward, then (if ok) Inverse into invlen bytes   -> <res> <res'> | <res>
//	b <hex>                    Inverse into len bytes, then Forward of the result -> <res> <res'> | <res>  (model forward)
//	c <hex>                    the same                                           (model: bwtsSpec of the model inverse)
//
// <res> = "ok <hex>" (nil error; dst[0:written]) | "err" (non-nil error) | "panic" (recovered).
//
// Exec runs the REAL transform on caller-owned buffers (source with cap == len, destination
// dst[:dstLen] of a larger buffer whose tail holds a canary, pre-filled with 0xAA) and evaluates the
// C13 oracle on the real code independently of the Lean model:
//   - no panic in either direction, on ANY byte string (every byte string is a BWTS image);
//   - source unchanged, canary intact, written == read == len, written <= MaxEncodedLen == len;
//   - Inverse(Forward(x)) == x into destinations of len(x) and of len(x)+extra bytes;
//   - Forward(Inverse(x)) == x for arbitrary x (bijectivity);
//   - Forward(x) == an independent naive Go reference (Duval factorisation + sort of the rotations of
//     the Lyndon factors by the infinite periodic order), within a step budget;
//   - the result does not depend on the instance being fresh (buffer1/buffer2 reused after a larger block).

import (
	"bytes"
	"fmt"
	"math/rand"
	"sort"
	"strconv"
	"strings"

	"github.com/flanglet/kanzi-go/v2/transform"

	"kverif/internal/gen"
)

func init() {
	registerStream(&Stream{
		Name: "bwts",
		Rule: "one op = one BWTS.Forward, one BWTS.Inverse, Forward then Inverse, or Inverse then Forward on a caller-owned block; families: empty/1/2 bytes, ALL strings of length <= 8 over a 3-letter alphabet, <= 10 over 2 letters and <= 5 over 4 letters (exhaustive, as blocks and as arbitrary Inverse inputs; thorough: <= 9 / <= 14), equal letters, strictly decreasing / increasing, periodic (w^k, w^k w'), single Lyndon words, products of non-increasing and of repeated Lyndon words, Fibonacci / Thue-Morse / de Bruijn words, random / text / skewed / runs / DNA / small alphabets up to 256 KiB, destination size variants (0, 1, len-1, len, len+1, larger), arbitrary byte strings as Inverse input; distinct_nontrivial = distinct ops with a block of >= 2 bytes",
		Gen:  bwtsGen,
		Exec: bwtsExec,
	})
}

func bwtsNew() *transform.BWTS { t, _ := transform.NewBWTS(); return t }

// ---- independent naive reference -------------------------------------------------------------

// bwtsDuval returns the Lyndon factorisation of s as (start, length) pairs (Duval's algorithm).
func bwtsDuval(s []byte) [][2]int {
	var f [][2]int
	n := len(s)
	for i := 0; i < n; {
		j, k := i+1, i
		for j < n && s[k] <= s[j] {
			if s[k] < s[j] {
				k = i
			} else {
				k++
			}
			j++
		}
		for i <= k {
			f = append(f, [2]int{i, j - k})
			i += j - k
		}
	}
	return f
}

// bwtsRef: sort all rotations of all Lyndon factors by u^w vs v^w (|u|+|v| letters decide, Fine-Wilf),
// output the last letters.  nil when the step budget is exhausted.
func bwtsRef(s []byte, budget int64) []byte {
	type rot struct{ fs, fl, off int }
	var rots []rot
	for _, f := range bwtsDuval(s) {
		for o := 0; o < f[1]; o++ {
			rots = append(rots, rot{f[0], f[1], o})
		}
	}
	steps := int64(0)
	sort.SliceStable(rots, func(a, b int) bool {
		if steps > budget {
			return false
		}
		x, y := rots[a], rots[b]
		xi, yi := x.off, y.off
		for t := 0; t < x.fl+y.fl; t++ {
			cx, cy := s[x.fs+xi], s[y.fs+yi]
			if cx != cy {
				steps += int64(t)
				return cx < cy
			}
			if xi++; xi == x.fl {
				xi = 0
			}
			if yi++; yi == y.fl {
				yi = 0
			}
		}
		steps += int64(x.fl + y.fl)
		return false
	})
	if steps > budget {
		return nil
	}
	out := make([]byte, len(s))
	for i, x := range rots {
		out[i] = s[x.fs+(x.off+x.fl-1)%x.fl]
	}
	return out
}

// ---- oracles -----------------------------------------------------------------------------------

const bwtsRefBudget = 400_000_000

func bwtsForwardOracle(res *Result, data []byte, dstLen int, o trOut) {
	fsite, isite := "transform.BWTS.Forward", "transform.BWTS.Inverse"
	if len(data) == 0 || dstLen < len(data) || o.panicMsg != "" {
		return
	}
	if o.err != nil {
		trViolate(res, fsite, "declined-with-room", fmt.Sprintf("len=%d dst=%d err=%v", len(data), dstLen, o.err))
		return
	}
	if int(o.written) != len(data) || int(o.written) > bwtsNew().MaxEncodedLen(len(data)) {
		trViolate(res, fsite, "output-size", fmt.Sprintf("written=%d len=%d", o.written, len(data)))
	}
	if int(o.read) != len(data) {
		trViolate(res, fsite, "short-read", fmt.Sprintf("read=%d len=%d with nil error", o.read, len(data)))
	}
	for _, extra := range []int{0, 1 + len(data)/16} {
		b := trCall(bwtsNew().Inverse, o.out, len(data)+extra)
		switch {
		case b.panicMsg != "":
			trViolate(res, isite, "panic", b.panicMsg)
		case b.err != nil:
			trViolate(res, isite, "roundtrip-error", fmt.Sprintf("Inverse(Forward(x)) failed (dst=len+%d): %v", extra, b.err))
		case !bytes.Equal(b.out, data):
			trViolate(res, fsite, "roundtrip-mismatch", fmt.Sprintf("Inverse(Forward(x)) != x (dst=len+%d, got %d bytes, want %d)", extra, len(b.out), len(data)))
		case b.inputMod || b.canary:
			trViolate(res, isite, "buffer-integrity", "inverse modified its input or wrote past dst")
		}
	}
	if ref := bwtsRef(data, bwtsRefBudget); ref == nil {
		res.Tags = append(res.Tags, "ref:skipped-budget")
	} else if !bytes.Equal(ref, o.out) {
		trViolate(res, fsite, "differs-from-definition", fmt.Sprintf("Forward(x) != sort of the rotations of the Lyndon factors (len %d)", len(data)))
	} else {
		res.Tags = append(res.Tags, "ref:equal")
	}
	// reused instance: buffers sized by a larger earlier block
	t := bwtsNew()
	junk := bytes.Repeat([]byte{3, 1, 2, 1}, len(data)/2+3)
	t.Forward(junk, make([]byte, len(junk)))
	if b := trCall(t.Forward, data, dstLen); b.panicMsg != "" || b.err != nil || !bytes.Equal(b.out, o.out) {
		trViolate(res, fsite, "instance-reuse", "Forward on a reused instance differs from a fresh one: "+b.panicMsg)
	}
	if b := trCall(t.Inverse, o.out, len(data)); b.panicMsg != "" || b.err != nil || !bytes.Equal(b.out, data) {
		trViolate(res, isite, "instance-reuse", "Inverse on a reused instance differs from a fresh one: "+b.panicMsg)
	}
}

// every byte string is a BWTS image: Inverse must succeed and Forward must bring it back
func bwtsInverseOracle(res *Result, data []byte, dstLen int, o trOut) {
	fsite, isite := "transform.BWTS.Forward", "transform.BWTS.Inverse"
	if len(data) == 0 || dstLen < len(data) || o.panicMsg != "" {
		return
	}
	if o.err != nil {
		trViolate(res, isite, "error-on-valid-input", fmt.Sprintf("len=%d dst=%d err=%v", len(data), dstLen, o.err))
		return
	}
	if int(o.written) != len(data) || int(o.read) != len(data) {
		trViolate(res, isite, "output-size", fmt.Sprintf("read=%d written=%d len=%d", o.read, o.written, len(data)))
		return
	}
	b := trCall(bwtsNew().Forward, o.out, len(data))
	switch {
	case b.panicMsg != "":
		trViolate(res, fsite, "panic", b.panicMsg)
	case b.err != nil:
		trViolate(res, fsite, "declined-with-room", b.err.Error())
	case !bytes.Equal(b.out, data):
		trViolate(res, isite, "not-bijective", fmt.Sprintf("Forward(Inverse(x)) != x (len %d)", len(data)))
	}
	t := bwtsNew()
	junk := bytes.Repeat([]byte{3, 1, 2, 1}, len(data)/2+3)
	t.Inverse(junk, make([]byte, len(junk)))
	if b := trCall(t.Inverse, data, dstLen); b.panicMsg != "" || b.err != nil || !bytes.Equal(b.out, o.out) {
		trViolate(res, isite, "instance-reuse", "Inverse on a reused instance differs from a fresh one: "+b.panicMsg)
	}
}

func bwtsExec(op string, res *Result) string {
	w := strings.Fields(op)
	atoi := func(s string) (int, bool) {
		v, err := strconv.Atoi(s)
		return v, err == nil && v >= 0 && v <= 1<<26
	}
	if len(w) < 2 {
		return "bad-op"
	}
	data, okd := trUnhex(w[len(w)-1])
	if !okd {
		return "bad-op"
	}
	res.Nontrivial = len(data) >= 2
	res.Sample = map[string]any{"op": w[0], "len": len(data), "prefix": op[:min(len(op), 80)]}
	fsite, isite := "transform.BWTS.Forward", "transform.BWTS.Inverse"
	first := func(line string) string { return strings.Fields(line)[0] }
	switch {
	case (w[0] == "f" && len(w) == 3) || (w[0] == "s" && len(w) == 2):
		dstLen := len(data)
		if w[0] == "f" {
			var ok bool
			if dstLen, ok = atoi(w[1]); !ok {
				return "bad-op"
			}
		}
		o := trCall(bwtsNew().Forward, data, dstLen)
		line := trLine(res, o, fsite, "err", dstLen)
		bwtsForwardOracle(res, data, dstLen, o)
		res.Tags = append(res.Tags, w[0]+":"+first(line))
		return line
	case w[0] == "i" && len(w) == 3:
		dstLen, ok := atoi(w[1])
		if !ok {
			return "bad-op"
		}
		o := trCall(bwtsNew().Inverse, data, dstLen)
		line := trLine(res, o, isite, "err", dstLen)
		bwtsInverseOracle(res, data, dstLen, o)
		res.Tags = append(res.Tags, "i:"+first(line))
		return line
	case w[0] == "r" && len(w) == 4:
		dstLen, ok1 := atoi(w[1])
		invLen, ok2 := atoi(w[2])
		if !ok1 || !ok2 {
			return "bad-op"
		}
		o := trCall(bwtsNew().Forward, data, dstLen)
		line := trLine(res, o, fsite, "err", dstLen)
		bwtsForwardOracle(res, data, dstLen, o)
		res.Tags = append(res.Tags, "r:fwd-"+first(line))
		if !strings.HasPrefix(line, "ok") {
			return line
		}
		b := trCall(bwtsNew().Inverse, o.out, invLen)
		line2 := trLine(res, b, isite, "err", invLen)
		res.Tags = append(res.Tags, "r:inv-"+first(line2))
		if invLen >= len(data) && len(data) > 0 && dstLen > 0 && b.panicMsg == "" {
			if b.err != nil {
				trViolate(res, isite, "roundtrip-error", b.err.Error())
			} else if !bytes.Equal(b.out, data) {
				trViolate(res, fsite, "roundtrip-mismatch", fmt.Sprintf("got %d bytes want %d", len(b.out), len(data)))
			}
		}
		return line + " " + line2
	case (w[0] == "b" || w[0] == "c") && len(w) == 2:
		o := trCall(bwtsNew().Inverse, data, len(data))
		line := trLine(res, o, isite, "err", len(data))
		bwtsInverseOracle(res, data, len(data), o)
		res.Tags = append(res.Tags, w[0]+":inv-"+first(line))
		if !strings.HasPrefix(line, "ok") {
			return line
		}
		b := trCall(bwtsNew().Forward, o.out, len(o.out))
		line2 := trLine(res, b, fsite, "err", len(o.out))
		bwtsForwardOracle(res, o.out, len(o.out), b)
		res.Tags = append(res.Tags, w[0]+":fwd-"+first(line2))
		return line + " " + line2
	}
	return "bad-op"
}

// ---- generators --------------------------------------------------------------------------------

// least rotation of w (Lyndon word when w is primitive)
func bwtsLeastRotation(w []byte) []byte {
	best := append([]byte{}, w...)
	for k := 1; k < len(w); k++ {
		c := append(append([]byte{}, w[k:]...), w[:k]...)
		if bytes.Compare(c, best) < 0 {
			best = c
		}
	}
	return best
}

func bwtsPrimitive(w []byte) bool {
	for p := 1; p < len(w); p++ {
		if len(w)%p == 0 && bytes.Equal(w[p:], w[:len(w)-p]) {
			return false
		}
	}
	return len(w) > 0
}

func bwtsLyndon(r *rand.Rand, n, alpha int) []byte {
	for {
		w := gen.SmallAlpha(r, n, alpha)
		if alpha >= 2 && n >= 2 {
			w[r.Intn(n)] = w[0] + 1 // make a constant word unlikely
		}
		if bwtsPrimitive(w) {
			return bwtsLeastRotation(w)
		}
	}
}

func bwtsThueMorse(n int) []byte {
	b := make([]byte, n)
	for i := range b {
		c := 0
		for x := i; x > 0; x >>= 1 {
			c ^= x & 1
		}
		b[i] = byte('a' + c)
	}
	return b
}

func bwtsFib(n int) []byte {
	a, b := []byte("a"), []byte("ab")
	for len(b) < n {
		a, b = b, append(append([]byte{}, b...), a...)
	}
	return b[:n]
}

// binary de Bruijn sequence of order k (prefer-one), linearised
func bwtsDeBruijn(k int) []byte {
	n := 1 << k
	seen := make([]bool, n)
	out := make([]byte, 0, n+k)
	cur := 0
	seen[0] = true
	for i := 0; i < k; i++ {
		out = append(out, 'a')
	}
	for {
		nx := ((cur << 1) | 1) & (n - 1)
		if seen[nx] {
			nx = (cur << 1) & (n - 1)
			if seen[nx] {
				break
			}
		}
		seen[nx] = true
		out = append(out, byte('a'+(nx&1)))
		cur = nx
	}
	return out
}

const (
	bwtsSpecMax  = 900  // largest block handed to the Lean textbook definition (n^2 cells for the rotations)
	bwtsModelMax = 6000 // largest block of an adversarial family handed to the Lean forward model (naive suffix sorting)
)

func bwtsGen(r *rand.Rand, tier string, n int, emit func(op string, tags ...string)) {
	thorough := tier == "thorough"
	scale := 1
	if thorough {
		scale = 4
	}
	if n > 0 {
		scale = 1 + n/4000
	}
	fw := func(b []byte, dst int, fam string) { emit(fmt.Sprintf("f %d %s", dst, trHex(b)), "family:"+fam) }
	inv := func(b []byte, dst int, fam string) { emit(fmt.Sprintf("i %d %s", dst, trHex(b)), "family:"+fam) }
	sp := func(b []byte, fam string) {
		if len(b) <= bwtsSpecMax {
			emit("s "+trHex(b), "family:"+fam)
		}
	}
	rt := func(b []byte, fam string) {
		il := len(b)
		switch r.Intn(4) {
		case 0:
			il += 1 + r.Intn(40)
		case 1:
			il += 1 + len(b)/3
		}
		emit(fmt.Sprintf("r %d %d %s", len(b)+[]int{0, 0, 1, 7, 1000}[r.Intn(5)], il, trHex(b)), "family:"+fam)
	}
	bij := func(b []byte, fam string) {
		emit("b "+trHex(b), "family:"+fam)
		if len(b) <= bwtsSpecMax {
			emit("c "+trHex(b), "family:"+fam)
		}
	}
	// a block: round trip + definition + the block read as an arbitrary Inverse input
	all := func(b []byte, fam string) {
		rt(b, fam)
		sp(b, fam)
		bij(b, fam+"(as-image)")
	}

	// ---- 1. empty, one byte, two bytes, exhaustive short blocks
	rt(nil, "empty")
	fw(nil, 0, "empty")
	fw(nil, 5, "empty")
	inv(nil, 0, "empty")
	inv(nil, 10, "empty")
	sp(nil, "empty")
	bij(nil, "empty")
	for _, c := range []byte{0, 1, 0x7F, 0x80, 0xFF} {
		all([]byte{c}, "one-byte")
		for _, d := range []byte{0, 1, 0x7F, 0x80, 0xFF} {
			all([]byte{c, d}, "two-bytes")
		}
	}
	var rec func(b []byte, f func([]byte), al []byte, ml int)
	rec = func(b []byte, f func([]byte), al []byte, ml int) {
		if len(b) > 0 {
			f(b)
		}
		if len(b) == ml {
			return
		}
		for _, c := range al {
			rec(append(b, c), f, al, ml)
		}
	}
	ml3, ml2 := 8, 10
	if thorough {
		ml3, ml2 = 9, 14
	}
	rec(nil, func(b []byte) { all(append([]byte{}, b...), "exhaustive-3-letters") }, []byte{5, 3, 9}, ml3)
	rec(nil, func(b []byte) { all(append([]byte{}, b...), "exhaustive-2-letters") }, []byte{0, 0xFF}, ml2)
	rec(nil, func(b []byte) { all(append([]byte{}, b...), "exhaustive-4-letters") }, []byte{0, 1, 0x80, 0xFF}, 5)

	// ---- 2. equal letters, strictly decreasing / increasing
	lens := []int{2, 3, 4, 5, 7, 8, 16, 100, 255, 256, 257, 700, 1000, 4096, bwtsModelMax}
	for _, l := range lens {
		for _, c := range []byte{0, 0x41, 0xFF} {
			all(bytes.Repeat([]byte{c}, l), "equal-letters")
		}
	}
	for _, l := range []int{2, 3, 10, 100, 255, 256} {
		d := make([]byte, l)
		u := make([]byte, l)
		for i := range d {
			d[i] = byte(255 - i)
			u[i] = byte(256 - l + i)
		}
		all(d, "strictly-decreasing")
		all(u, "strictly-increasing")
	}
	for v := 0; v < 10*scale; v++ { // non-increasing / non-decreasing with plateaus
		l := 2 + r.Intn(800)
		d := gen.SmallAlpha(r, l, 1+r.Intn(40))
		sort.Slice(d, func(i, j int) bool { return d[i] > d[j] })
		all(d, "non-increasing")
		u := append([]byte{}, d...)
		sort.Slice(u, func(i, j int) bool { return u[i] < u[j] })
		all(u, "non-decreasing")
	}

	// ---- 3. periodic
	for v := 0; v < 40*scale; v++ {
		p := 1 + r.Intn(12)
		if v%5 == 0 {
			p = 20 + r.Intn(60)
		}
		w := gen.SmallAlpha(r, p, 1+r.Intn(4))
		k := 2 + r.Intn(40)
		b := bytes.Repeat(w, k)
		all(b, "periodic")
		b = append(b, w[:r.Intn(p)]...)
		all(b, "periodic+prefix")
		b = append([]byte{byte(r.Intn(3))}, b...)
		all(b, "letter+periodic")
	}
	for _, l := range []int{2000, 4096} { // long periodic: Lean forward model + inverse only
		w := gen.SmallAlpha(r, 1+r.Intn(30), 3)
		rt(bytes.Repeat(w, l/len(w)+1)[:l], "periodic-long")
	}

	// ---- 4. Lyndon words and their products
	for v := 0; v < 40*scale; v++ {
		w := bwtsLyndon(r, 1+r.Intn(60), 2+r.Intn(3))
		all(w, "lyndon-word")
		all(bytes.Repeat(w, 2+r.Intn(6)), "lyndon-power")
		// non-increasing product of Lyndon words
		var fs [][]byte
		for k := 0; k < 2+r.Intn(8); k++ {
			f := bwtsLyndon(r, 1+r.Intn(25), 2+r.Intn(2))
			for m := 0; m <= r.Intn(3); m++ {
				fs = append(fs, f)
			}
		}
		sort.Slice(fs, func(i, j int) bool { return bytes.Compare(fs[i], fs[j]) > 0 })
		all(bytes.Join(fs, nil), "lyndon-product")
		// a^i b^j, a^i b a^j b ...
		all(append(bytes.Repeat([]byte{'a'}, 1+r.Intn(300)), bytes.Repeat([]byte{'b'}, 1+r.Intn(300))...), "a^i b^j")
		i1, i2 := 1+r.Intn(100), 1+r.Intn(100)
		x := append(bytes.Repeat([]byte{'a'}, i1), 'b')
		x = append(append(x, bytes.Repeat([]byte{'a'}, i2)...), 'b')
		all(x, "a^i b a^j b")
	}
	for _, l := range []int{1000, 3000, bwtsModelMax} { // a^n b: one long Lyndon word, worst case for the repair loops
		rt(append(bytes.Repeat([]byte{'a'}, l-1), 'b'), "a^n b")
		rt(append([]byte{'b'}, bytes.Repeat([]byte{'a'}, l-1)...), "b a^n")
		rt(append(append(bytes.Repeat([]byte{'a'}, l/2), 'b'), bytes.Repeat([]byte{'a'}, l/2)...), "a^n b a^n")
	}

	// ---- 5. combinatorial words
	for _, l := range []int{2, 3, 5, 8, 13, 21, 34, 55, 89, 144, 233, 377, 610, 987, 2584, 4181} {
		all(bwtsFib(l), "fibonacci")
		all(bwtsFib(l + 1), "fibonacci")
	}
	for _, l := range []int{4, 16, 64, 100, 256, 777, 1024, 4096} {
		all(bwtsThueMorse(l), "thue-morse")
	}
	for k := 1; k <= 11; k++ {
		all(bwtsDeBruijn(k), "de-bruijn")
	}

	// ---- 6. data shapes, small (all ops) and up to 256 KiB (forward model / inverse / Go reference)
	shape := func(l int) ([]byte, string) {
		switch r.Intn(7) {
		case 0:
			return gen.Random(r, l), "random"
		case 1:
			return gen.Text(r, l), "text"
		case 2:
			return gen.Skewed(r, l, 1+r.Intn(40), 1+r.Intn(3)), "skewed"
		case 3:
			return gen.SmallAlpha(r, l, 2+r.Intn(14)), "small-alphabet"
		case 4:
			return gen.DNA(r, l), "dna"
		case 5:
			return gen.SmallAlpha(r, l, 2), "binary"
		default:
			if l > bwtsModelMax {
				return gen.Text(r, l), "text"
			}
			return gen.Runs(r, l), "runs"
		}
	}
	for v := 0; v < 150*scale; v++ {
		b, fam := shape(2 + r.Intn(bwtsSpecMax-1))
		all(b, fam)
	}
	for v := 0; v < 30*scale; v++ {
		b, fam := shape(bwtsSpecMax + r.Intn(bwtsModelMax-bwtsSpecMax))
		rt(b, fam)
		bij(b, fam+"(as-image)")
	}
	big := []int{20000, 65536, 100000, 262144}
	for v, l := range big {
		var b []byte
		fam := "random-large"
		if v%2 == 0 {
			b = gen.Random(r, l)
		} else {
			b, fam = gen.Text(r, l), "text-large"
		}
		rt(b, fam)
		bij(b, fam+"(as-image)")
	}
	if thorough {
		for v := 0; v < 6; v++ {
			l := 100000 + r.Intn(162145)
			rt(gen.Random(r, l), "random-large")
			bij(gen.Text(r, l), "text-large(as-image)")
		}
	}

	// ---- 7. destination size variants
	for v := 0; v < 30*scale; v++ {
		l := 1 + r.Intn(600)
		b, _ := shape(l)
		for _, d := range []int{0, 1, l - 1, l, l + 1, l + 1 + r.Intn(5000)} {
			if d >= 0 {
				fw(b, d, "forward-dst-size")
				inv(b, d, "inverse-dst-size")
			}
		}
	}

	// ---- 8. arbitrary byte strings as Inverse input (every string is an image)
	for v := 0; v < 150*scale; v++ {
		l := []int{2, 3, 4, 10, 100, 255, 256, 257, 300, 600, 900}[r.Intn(11)]
		b := gen.Random(r, l)
		switch v % 4 {
		case 1:
			for i := range b {
				b[i] &= 0x03
			}
		case 2:
			for i := range b {
				b[i] &= 0x01
			}
		case 3:
			sort.Slice(b, func(i, j int) bool { return b[i] < b[j] })
		}
		bij(b, "arbitrary-image")
		inv(b, l+r.Intn(3), "arbitrary-image")
	}
}
