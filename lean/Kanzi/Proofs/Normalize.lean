import Kanzi.Model.Normalize
namespace Kanzi.Normalize

theorem normalize_valid (h : List Nat) (scale : Nat)
    (hlen : h.length ≤ 256) (hscale : 256 ≤ scale ∧ scale ≤ 65536) (htot : 0 < h.sum) :
    ∃ o, normalize h h.sum scale = .ok o ∧
      o.freqs.length = h.length ∧
      o.freqs.sum = scale ∧
      (∀ i, i < h.length → (0 < h.getD i 0 ↔ 0 < o.freqs.getD i 0)) ∧
      o.size = (h.filter (· ≠ 0)).length ∧
      o.alphabet.length = o.size ∧
      o.alphabet.Pairwise (· < ·) ∧
      (∀ i, i ∈ o.alphabet ↔ (i < h.length ∧ h.getD i 0 ≠ 0)) := by
  sorry

theorem normalize_err_iff (h : List Nat) (total scale : Nat) :
    (∃ m, normalize h total scale = .err m) ↔ (h.length > 256 ∨ scale < 256 ∨ scale > 65536) := by
  sorry

end Kanzi.Normalize
