import Kanzi.Model.Normalize
