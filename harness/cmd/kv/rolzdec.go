//go:build verif

package main

// rolzdec: correspondence stream for property C03 on the INVERSE side of v2/transform/ROLZCodec.go: the real
// ROLZCodec.Inverse (rolzCodec2 = ROLZX, rolzCodec1 = ROLZ) on ARBITRARY (forged) input, one or two calls on
// ONE codec object (stale object state).  Models: rolzxInverse / rolzInverse of lean/Kanzi/Model/ROLZX.lean and
// ROLZ1.lean (slice rolz), plus lean/Kanzi/Model/RolzDec.lean (what the codec object keeps allocated); driver
// lean/Kanzi/Drv/RolzDec.lean (op grammar there).
//
//	rd <v> <lpc0> <bsv> <dstlen>[/<dstlen>] <data>[/<data>]
//
// Canonical line, per call (calls separated by " / "):
//
//	<class> m=<len(matches)> c=<len(counters)>       (the codec's tables, read by reflection after the call)
//	class = ok <n> <bytes or #hash> | overrun | err:<class> | panic:index | panic:other
//
// A panic raised inside the entropy / bitstream packages (input bitstream out of bits = a non run-time panic;
// ANS decoder on forged data) is printed as err:ans like an ANS error, as in the rolz stream (the ANS models do
// not distinguish them); the real class is kept as a tag (lib:eos / lib:index).
//
// Oracles on the real code (independent of the model): source unchanged, nothing written after dst[:len],
// bytes written <= len(dst) on success, len(matches) / len(counters) within the constants of the codec, and
// the ALLOCATION oracle: bytes allocated during one Inverse (runtime.MemStats.TotalAlloc, stream is Serial)
// <= rdAllocBound = 16*(len(src)+len(dst)) + constant of the codec (tables, one bitstream buffer and the ANS
// decoder tables per chunk).  A panic on forged input is an observation (tasks recover), not a violation.

import (
	"encoding/binary"
	"fmt"
	"math/rand"
	"reflect"
	"runtime"
	"runtime/debug"
	"strconv"
	"strings"
	"time"

	kanzi "github.com/flanglet/kanzi-go/v2"
	"github.com/flanglet/kanzi-go/v2/transform"
)

func init() {
	registerStream(&Stream{
		Name:     "rolzdec",
		Rule:     "rd: real ROLZCodec.Inverse (ROLZX = rolzCodec2, ROLZ = rolzCodec1 built by name or by NewROLZCodec(2..8)) on forged input, one or two calls on one codec. Families: valid (real encoder output; dst exact / larger / smaller / 0), hdr-* (flipped or replaced bytes of the 4-byte size field and of the flags byte: every logPosChecks nibble incl. values above the codec's own, every minMatch/delta selector), sublen-* (ROLZ: each of the four 32-bit sub-stream lengths of the first chunk replaced by 0, 1, fit-1, fit+1, len(buf), len(buf)+1, len(src), len(src)+1, 2^31-1, 2^31 (negative as int32), 2^32-1), trunc (cut at every region), garbage (random tail / random body / pure random with a plausible header), short (fewer than 13 bytes), dst (too small, exact, larger), stale (two calls on one codec: failing then valid, valid then failing, different logPosChecks), bsv (bitstream versions 2..6). distinct_nontrivial = distinct ops whose first call did not return ok (forged input rejected or faulting).",
		Gen:      rdGen,
		Exec:     rdExec,
		Serial:   true,
		Watchdog: 120 * time.Second,
	})
}

func rdFieldLen(t kanzi.ByteTransform, name string) int {
	v := reflect.ValueOf(t).Elem().FieldByName("delegate")
	if !v.IsValid() || v.IsNil() {
		return -1
	}
	v = v.Elem() // *rolzCodecN
	if v.Kind() == reflect.Pointer {
		v = v.Elem()
	}
	f := v.FieldByName(name)
	if !f.IsValid() {
		return -1
	}
	return f.Len()
}

// bytes one Inverse may allocate: c*(len(src)+len(dst)) + constant
func rdAllocBound(x bool, lpc0, srcLen, dstLen int) int64 {
	n := int64(srcLen + dstLen)
	if x {
		// probability tables: (256<<9 + 256<<5) ints
		return 16*n + 8*((256<<9)+(256<<5)) + 1<<16
	}
	chunks := int64(dstLen/rolzChunk + 1)
	// matches (first call), side buffers (< 2*len(dst)), per chunk: bitstream buffer 64 KiB, two ANS decoders
	// (order 1: 256 tables of 2^lr <= 2^16 bytes + symbols, payload buffer <= max(2*len,256))
	return 16*n + 4*(65536<<lpc0) + chunks*(24<<20) + 1<<16
}

func rdExec(op string, res *Result) string {
	w := strings.Fields(op)
	if len(w) != 6 || w[0] != "rd" || (w[1] != "x" && w[1] != "r" && w[1] != "R") {
		return "bad-op"
	}
	x := w[1] == "x"
	lpc0 := 4
	byName := w[2] == "n"
	if x {
		lpc0 = 5
		if !byName {
			return "bad-op"
		}
	} else if !byName {
		v, err := strconv.Atoi(w[2])
		if err != nil || v < 2 || v > 8 {
			return "bad-op"
		}
		lpc0 = v
	}
	ver := -1
	if w[3] != "-" {
		v, err := strconv.Atoi(w[3])
		if err != nil || v < 0 || v > 100 || !byName {
			return "bad-op"
		}
		ver = v
	}
	ds := strings.Split(w[4], "/")
	hs := strings.Split(w[5], "/")
	if len(ds) != len(hs) || len(ds) < 1 || len(ds) > 3 {
		return "bad-op"
	}
	var t kanzi.ByteTransform
	if byName {
		t = rolzNewInv(x, ver)
	} else {
		c, err := transform.NewROLZCodec(uint(lpc0))
		if err != nil {
			return "bad-codec"
		}
		t = c
	}
	isite := map[bool]string{true: "transform.rolzCodec2.Inverse", false: "transform.rolzCodec1.Inverse"}[x]
	var toks []string
	for i := range ds {
		dstLen, err := strconv.Atoi(ds[i])
		data, ok := rolzDataDec(hs[i])
		if err != nil || !ok || dstLen < 0 || dstLen > 1<<28 {
			return "bad-op"
		}
		var ms0, ms1 runtime.MemStats
		runtime.ReadMemStats(&ms0)
		o, lib, rt := rdCall(t.Inverse, data, dstLen)
		runtime.ReadMemStats(&ms1)
		delta := int64(ms1.TotalAlloc-ms0.TotalAlloc) - int64(len(data)+dstLen+trCanary) // the harness's own copies
		if bound := rdAllocBound(x, lpc0, len(data), dstLen); delta > bound {
			trViolate(res, isite, "alloc", fmt.Sprintf("%d bytes allocated by Inverse(len(src)=%d, len(dst)=%d), bound %d", delta, len(data), dstLen, bound))
		}
		if o.inputMod {
			trViolate(res, isite, "input-modified", "source buffer changed by the call")
		}
		if o.canary {
			trViolate(res, isite, "dst-overrun", "bytes after dst[:len] were written")
		}
		var cls string
		switch {
		case o.panicMsg != "" && lib:
			cls = "err:ans"
			if rt {
				res.Tags = append(res.Tags, "lib:index")
			} else {
				res.Tags = append(res.Tags, "lib:eos")
			}
		case o.panicMsg != "" && rt:
			cls = "panic:index"
		case o.panicMsg != "":
			cls = "panic:other"
			trViolate(res, isite, "panic-other", o.panicMsg)
		case o.err != nil:
			cls = "err:" + rolzInvClass(o.err)
		case int(o.written) > dstLen:
			cls = "overrun"
			trViolate(res, isite, "written>len(dst)", fmt.Sprintf("nil error, %d bytes reported for a destination of %d", o.written, dstLen))
		default:
			cls = "ok " + rltOut(o.out)
			if w[1] == "R" {
				cls = fmt.Sprintf("ok %d ~", len(o.out))
			}
		}
		m, c := rdFieldLen(t, "matches"), rdFieldLen(t, "counters")
		if c != 65536 || (m != 0 && m != 65536<<lpc0) {
			trViolate(res, isite, "table-size", fmt.Sprintf("len(matches)=%d len(counters)=%d for logPosChecks %d", m, c, lpc0))
		}
		toks = append(toks, fmt.Sprintf("%s m=%d c=%d", cls, m, c))
		res.Tags = append(res.Tags, fmt.Sprintf("%s%d:%s", w[1], i, strings.Fields(cls)[0]))
		if i == 0 && !strings.HasPrefix(cls, "ok") {
			res.Nontrivial = true
		}
	}
	res.Sample = map[string]any{"v": w[1], "lpc0": w[2], "bsv": w[3], "dst": w[4], "out": strings.Join(toks, " / "), "prefix": op[:min(len(op), 80)]}
	return strings.Join(toks, " / ")
}

// rolzCall (rolz.go) that also tells whether the panic value is a runtime.Error
func rdCall(f func(src, dst []byte) (uint, uint, error), data []byte, dstLen int) (o trOut, lib, rt bool) {
	src := make([]byte, len(data))
	copy(src, data)
	buf := make([]byte, dstLen+trCanary)
	for i := range buf {
		if i < dstLen {
			buf[i] = 0xAA
		} else {
			buf[i] = byte(0xC5 ^ i)
		}
	}
	func() {
		defer func() {
			if r := recover(); r != nil {
				o.panicMsg = fmt.Sprint(r)
				_, rt = r.(runtime.Error)
				st := string(debug.Stack())
				for _, ln := range strings.Split(st, "\n") {
					if strings.Contains(ln, "kanzi-go/v2/") && !strings.HasPrefix(ln, "\t") {
						lib = strings.Contains(ln, "kanzi-go/v2/entropy.") || strings.Contains(ln, "kanzi-go/v2/bitstream.") || strings.Contains(ln, "kanzi-go/v2/internal.")
						break
					}
				}
			}
		}()
		o.read, o.written, o.err = f(src, buf[:dstLen])
	}()
	for i := range src {
		if src[i] != data[i] {
			o.inputMod = true
			break
		}
	}
	for i := dstLen; i < len(buf); i++ {
		if buf[i] != byte(0xC5^i) {
			o.canary = true
		}
	}
	if o.panicMsg == "" && o.err == nil && int(o.written) <= dstLen {
		o.out = buf[:o.written]
	}
	return
}

// real Forward output of a ROLZ codec built with NewROLZCodec(lpc) (nil ctx)
func rdForwardLpc(lpc int, data []byte) ([]byte, bool) {
	c, err := transform.NewROLZCodec(uint(lpc))
	if err != nil || len(data) == 0 {
		return nil, false
	}
	dst := make([]byte, c.MaxEncodedLen(len(data)))
	var out []byte
	ok := false
	func() {
		defer func() { recover() }()
		_, n, err := c.Forward(append([]byte{}, data...), dst)
		if err == nil {
			out, ok = append([]byte{}, dst[:n]...), true
		}
	}()
	return out, ok
}

func rdGen(r *rand.Rand, tier string, n int, emit func(op string, tags ...string)) {
	if n <= 0 {
		n = 1500
		if tier == "thorough" {
			n = 15000
		}
	}
	cnt := 0
	put := func(v string, lpc0 string, bsv int, dst []int, data [][]byte, fam string) {
		if cnt >= n {
			return
		}
		var ds, hs []string
		for i := range dst {
			ds = append(ds, strconv.Itoa(dst[i]))
			hs = append(hs, trHex(data[i]))
		}
		b := "-"
		if bsv >= 0 {
			b = strconv.Itoa(bsv)
		}
		// ROLZ on forged input: the three ANS Reads of a chunk share one decoder object, and a forged sub-stream
		// that announces fewer payload bytes than its states consume reads bytes left in that object's buffer
		// by the previous Read; the ANS functions of the rolz slice's model read zeros there
		// (`C03_rolz_ans_stale_witness`).  Class, length and table sizes do not depend on those bytes: for
		// forged ROLZ input the decoded BYTES are therefore not compared (variant letter `R`).
		ov := v
		if v == "r" && !strings.HasPrefix(fam, "valid") && fam != "dst-small" {
			ov = "R"
		}
		emit(fmt.Sprintf("rd %s %s %s %s %s", ov, lpc0, b, strings.Join(ds, "/"), strings.Join(hs, "/")), "family:"+fam, "variant:"+v)
		cnt++
	}
	one := func(v, lpc0 string, bsv int, dst int, data []byte, fam string) {
		put(v, lpc0, bsv, []int{dst}, [][]byte{data}, fam)
	}
	mkData := func() []byte {
		sz := []int{64, 65, 70, 80, 100, 128, 200, 300, 500, 700, 1000, 1500, 2500}[r.Intn(13)]
		if tier == "thorough" && r.Intn(6) == 0 {
			sz = 3000 + r.Intn(9000)
		}
		switch r.Intn(6) {
		case 0:
			return rolzGenData(2, r.Uint64(), sz)
		case 1:
			return rolzGenData(1, r.Uint64(), sz)
		case 2:
			return rolzPeriodic(r, sz, 3+r.Intn(40), r.Intn(3)*(17+r.Intn(60)))
		case 3:
			return rolzCopies(r, sz, []int{3, 4, 5, 9, 40, 300}, 4+r.Intn(60))
		case 4:
			return rolzWords3(r, sz, 5+r.Intn(12))
		}
		return rolzGenData(0, r.Uint64(), sz)
	}
	// a valid stream: variant, lpc0 string, encoder output, original
	type valid struct {
		v, lpc0  string
		enc, org []byte
	}
	mkValid1 := func() (valid, bool) {
		for try := 0; try < 20; try++ {
			d := mkData()
			switch r.Intn(5) {
			case 0, 1:
				dt := -1
				if r.Intn(4) == 0 {
					dt = []int{3, 6}[r.Intn(2)]
				}
				if e, ok := rolzRealForward(true, dt, d); ok {
					return valid{"x", "n", e, d}, true
				}
			case 2, 3:
				dt := -1
				if r.Intn(4) == 0 {
					dt = []int{2, 3, 6}[r.Intn(3)]
				}
				if e, ok := rolzRealForward(false, dt, d); ok {
					return valid{"r", "n", e, d}, true
				}
			default:
				lpc := 2 + r.Intn(7)
				if e, ok := rdForwardLpc(lpc, d); ok {
					return valid{"r", strconv.Itoa(lpc), e, d}, true
				}
			}
		}
		return valid{}, false
	}
	// a pool of real encoder outputs (Forward allocates up to 64 MiB of tables: built once)
	var pool []valid
	byKey := map[string][]int{}
	for len(pool) < 40+n/40 {
		if va, ok := mkValid1(); ok {
			byKey[va.v+va.lpc0] = append(byKey[va.v+va.lpc0], len(pool))
			pool = append(pool, va)
		}
	}
	mkValid := func() (valid, bool) { return pool[r.Intn(len(pool))], true }
	put32 := func(b []byte, off int, v uint32) []byte {
		c := append([]byte{}, b...)
		if off+4 <= len(c) {
			binary.BigEndian.PutUint32(c[off:], v)
		}
		return c
	}
	for cnt < n {
		va, ok := mkValid()
		if !ok {
			continue
		}
		v, lp, enc, org := va.v, va.lpc0, va.enc, va.org
		nn := len(org)
		switch k := r.Intn(20); {
		case k == 0:
			one(v, lp, -1, nn+[]int{0, 0, 1, 4, 100, 5000}[r.Intn(6)], enc, "valid")
		case k == 1:
			one(v, lp, -1, []int{0, 1, 3, 4, 5, 8, nn - 5, nn - 4, nn - 1, nn / 2}[r.Intn(10)], enc, "dst-small")
		case k == 2: // size field
			c := append([]byte{}, enc...)
			switch r.Intn(4) {
			case 0:
				c[r.Intn(4)] ^= 1 << uint(r.Intn(8))
			case 1:
				c = put32(c, 0, []uint32{0, 1, 3, 4, 5, 8, 9, 12, 13, uint32(nn + 3), uint32(nn + 5), uint32(nn + 4 + 256), 0x7FFFFFFF, 0x80000000, 0xFFFFFFFF}[r.Intn(15)])
			case 2:
				c = put32(c, 0, uint32(r.Intn(nn+12)))
			default:
				c = put32(c, 0, uint32(nn-r.Intn(min(nn, 16))))
			}
			one(v, lp, -1, nn+[]int{0, 4, 300}[r.Intn(3)], c, "hdr-size")
		case k == 3 || k == 4: // flags byte
			c := append([]byte{}, enc...)
			if r.Intn(3) == 0 {
				c[4] ^= 1 << uint(r.Intn(8))
			} else {
				c[4] = byte(r.Intn(16)<<4 | []int{0, 1, 2, 3, 4, 5, 8, 9, 6, 10, 12, 14}[r.Intn(12)])
			}
			one(v, lp, -1, nn+[]int{0, 7}[r.Intn(2)], c, "hdr-flags")
		case k >= 5 && k <= 8 && v == "r": // the four sub-stream lengths of the first chunk
			f := r.Intn(4)
			off := 5 + 4*f
			if off+4 > len(enc) {
				continue
			}
			fit := binary.BigEndian.Uint32(enc[off:])
			dl := nn + []int{0, 0, 16, 1000}[r.Intn(4)]
			bufLen := []int{dl, dl / 4, dl / 5, dl / 4}[f]
			vals := []uint32{0, 1, fit - 1, fit + 1, uint32(bufLen), uint32(bufLen + 1), uint32(len(enc)), uint32(len(enc) + 1),
				0x7FFFFFFF, 0x80000000, 0xFFFFFFFF, uint32(nn), uint32(nn - 4), uint32(nn - 3), 8, 7, uint32(r.Intn(nn + 10))}
			one(v, lp, -1, dl, put32(enc, off, vals[r.Intn(len(vals))]), fmt.Sprintf("sublen-%d", f))
		case k >= 5 && k <= 8: // ROLZX has no length fields: flip a payload byte instead
			c := append([]byte{}, enc...)
			p := 5 + r.Intn(len(c)-5)
			c[p] ^= 1 << uint(r.Intn(8))
			one(v, lp, -1, nn+[]int{0, 64}[r.Intn(2)], c, "flip-payload")
		case k == 9 || k == 10:
			cut := 0
			switch r.Intn(4) {
			case 0:
				cut = r.Intn(min(len(enc), 24))
			case 1:
				cut = len(enc) - 1 - r.Intn(min(len(enc)-1, 8))
			default:
				cut = r.Intn(len(enc))
			}
			one(v, lp, -1, nn, enc[:cut], "trunc")
		case k == 11:
			c := append([]byte{}, enc...)
			switch r.Intn(3) {
			case 0: // random tail appended
				for i := 1 + r.Intn(12); i > 0; i-- {
					c = append(c, byte(r.Intn(256)))
				}
			case 1: // random body after the header
				for i := 5 + r.Intn(len(c)-5); i < len(c); i++ {
					c[i] = byte(r.Intn(256))
				}
			default: // pure random with a plausible header
				c = make([]byte, 5+r.Intn(60))
				r.Read(c)
				c = put32(c, 0, uint32(nn+map[string]int{"x": 0, "r": 4}[v]))
				c[4] = byte(4<<4 | r.Intn(16))
			}
			one(v, lp, -1, nn, c, "garbage")
		case k == 12:
			c := make([]byte, r.Intn(14))
			r.Read(c)
			if len(c) >= 4 {
				c = put32(c, 0, uint32(4+r.Intn(40)))
			}
			one(v, lp, -1, 40, c, "short")
		case k == 13 && lp == "n": // bitstream versions
			c := append([]byte{}, enc...)
			if r.Intn(2) == 0 {
				c[4] = byte(int(c[4])&0xF0 | r.Intn(16))
			}
			one(v, lp, []int{2, 3, 4, 5, 6}[r.Intn(5)], nn+[]int{0, 9}[r.Intn(2)], c, "bsv")
		case k == 14 && v == "r": // logPosChecks of the stream above the codec's own
			c := append([]byte{}, enc...)
			c[4] = byte(int(c[4])&0x0F | (2+r.Intn(7))<<4)
			one(v, lp, -1, nn, c, "hdr-lpc")
		case k >= 15: // stale object state: two calls on one codec
			ks := byKey[v+lp]
			vb := pool[ks[r.Intn(len(ks))]]
			bad := append([]byte{}, enc...)
			switch r.Intn(5) {
			case 0:
				bad = bad[:r.Intn(len(bad))]
			case 1:
				bad[4] = byte(r.Intn(256))
			case 2:
				bad[5+r.Intn(len(bad)-5)] ^= byte(1 + r.Intn(255))
			case 3:
				bad = put32(bad, 0, uint32(r.Intn(2*nn)))
			}
			if r.Intn(2) == 0 {
				put(v, lp, -1, []int{nn, len(vb.org)}, [][]byte{bad, vb.enc}, "stale-bad-then-valid")
			} else {
				put(v, lp, -1, []int{len(vb.org), nn}, [][]byte{vb.enc, bad}, "stale-valid-then-bad")
			}
		}
	}
}
