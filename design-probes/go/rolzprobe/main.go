package main

import (
	"bytes"
	"fmt"
	"math/rand"
	"os"
	"strconv"

	"github.com/flanglet/kanzi-go/v2/transform"
)

func try(name string, n int, kind int) {
	r := rand.New(rand.NewSource(int64(n)))
	src := make([]byte, n)
	switch kind {
	case 0:
		w := []string{"alpha ", "beta ", "gamma ", "delta ", "the ", "of ", "kanzi "}
		p := 0
		for p < n {
			s := w[r.Intn(len(w))]
			p += copy(src[p:], s)
		}
	case 1:
		for i := range src {
			src[i] = byte(r.Intn(4) * 3)
		}
	case 2:
		b, _ := os.ReadFile("/tmp/rolz/in.bin")
		src = b[:n]
	case 3:
		src = words3(n, 8)
	}
	orig := append([]byte{}, src...)
	ctx := map[string]any{"transform": name}
	t, err := transform.NewROLZCodecWithCtx(&ctx)
	if err != nil {
		fmt.Println("ctor", err)
		return
	}
	dst := make([]byte, t.MaxEncodedLen(n))
	var rd, wr uint
	func() {
		defer func() {
			if r := recover(); r != nil {
				fmt.Printf("%s n=%d FORWARD PANIC: %v\n", name, n, r)
				err = fmt.Errorf("panic")
			}
		}()
		rd, wr, err = t.Forward(src, dst)
	}()
	if err != nil {
		fmt.Printf("%s n=%d forward err: %v (rd=%d wr=%d)\n", name, n, err, rd, wr)
		return
	}
	if !bytes.Equal(src, orig) {
		fmt.Println("input modified")
	}
	ctx2 := map[string]any{"transform": name}
	t2, _ := transform.NewROLZCodecWithCtx(&ctx2)
	back := make([]byte, n)
	func() {
		defer func() {
			if r := recover(); r != nil {
				fmt.Printf("%s n=%d INVERSE PANIC: %v\n", name, n, r)
				err = fmt.Errorf("panic")
			}
		}()
		var m uint
		_, m, err = t2.Inverse(dst[:wr], back)
		if err == nil && (int(m) != n || !bytes.Equal(back, orig)) {
			fmt.Printf("%s n=%d ROUNDTRIP MISMATCH m=%d\n", name, n, m)
		} else if err != nil {
			fmt.Printf("%s n=%d inverse err: %v\n", name, n, err)
		} else {
			fmt.Printf("%s n=%d ok wr=%d\n", name, n, wr)
		}
	}()
}

// words3 builds, without any external input, a block of 3-byte words W_s = (65+s, 97+s, 48+s), s < k, in
// order-3 de Bruijn cycles over the k words, each cycle with a fresh permutation of the symbols (64-bit LCG):
// pairs of words recur among the remembered positions, triples do not, so ROLZ finds a match of exactly 3
// bytes at every word: one token per 3 source bytes, more than the len/4 entries of tkBuf / mIdxBuf.
func words3(n, k int) []byte {
	var cyc []int
	a := make([]int, k*3)
	var db func(t, p int)
	db = func(t, p int) {
		if t > 3 {
			if 3%p == 0 {
				cyc = append(cyc, a[1:p+1]...)
			}
			return
		}
		a[t] = a[t-p]
		db(t+1, p)
		for j := a[t-p] + 1; j < k; j++ {
			a[t] = j
			db(t+1, t)
		}
	}
	db(1, 1)
	x := uint64(7)
	next := func(m int) int {
		x = x*6364136223846793005 + 1442695040888963407
		return int((x >> 33) % uint64(m))
	}
	b := make([]byte, 0, n+3)
	for len(b) < n {
		perm := make([]int, k)
		for i := range perm {
			perm[i] = i
		}
		for i := k - 1; i > 0; i-- {
			j := next(i + 1)
			perm[i], perm[j] = perm[j], perm[i]
		}
		for _, c := range cyc {
			v := byte(perm[c])
			b = append(b, 65+v, 97+v, 48+v)
		}
	}
	return b[:n]
}

func main() {
	name := os.Args[1]
	kind, _ := strconv.Atoi(os.Args[2])
	for _, a := range os.Args[3:] {
		n, _ := strconv.Atoi(a)
		try(name, n, kind)
	}
}
