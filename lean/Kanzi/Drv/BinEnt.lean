/-
Line-protocol drivers of the `binent` and `fpaq` correspondence streams (model side).  Core Lean only.

ops (one per line) and the canonical answer, identical to harness/cmd/kv/binent.go:
  enc <pred> <hex|->            ok bits=<n> <hex> dec=<ok|BAD|panic:..|err:..>   | panic:index | err:size
  dec <pred> <count> <hex|->    ok <hex|-> read=<bits>                         | panic:index | panic:eos | err:invalid
  cmenc <hex|->                 ok bits=<n> <hex> dec=..   (the REAL CM codec against coder model + CM predictor model, bitstream version 4)
  real ...                      ok          (oracle-only runs with the real CM / TPAQ predictors)
  big ...                       ok          (oracle-only multi-chunk run)

test predictors `<pred>` (implemented identically in Go):
  c:<p>            constant probability p (any p, also out of the 12-bit range)
  a:<p>:<q>        alternates p, q, p, q, …
  o0:<sh>          one adaptive 16-bit counter, rate 2^-sh (1 ≤ sh), Get = counter >> 4
  o1:<sh>          256 such counters indexed by the bits of the current byte seen so far
  lcg:<seed>       32-bit LCG state (the coded bit is mixed in); Get = one of 0,1,2,2048,4093,4094,4095,1000

stream `fpaq` (harness/cmd/kv/fpaq.go), model `Kanzi/Model/Fpaq.lean`, chunk size 4 MiB:
  fenc <hex|->              ok bits=<n> <hex> dec=<ok|BAD|panic:..|err:..>   | panic:index
  fgen <z|r|m> <n> <seed>   ok bits=<n> sum=<checksum of the bytes> dec=<..>  (block generated on both sides)
  fdec <count> <hex|->      ok <hex|-> read=<bits>                           | panic:index | panic:eos | err:invalid
-/
import Kanzi.Model.BinEnt
import Kanzi.Model.Fpaq
import Kanzi.Model.CM
import Kanzi.Drv.EntSmall

namespace Kanzi.Drv
open Kanzi.Bits Kanzi.EntSmall Kanzi.BinEnt

namespace BE

def errTok : Err → String
  | .index => "panic:index"
  | .eos => "panic:eos"
  | .invalid => "err:invalid"
  | .size => "err:size"

def constP (p : Nat) : Pred Unit := { get := fun _ => p, update := fun _ _ => () }

def altP (p q : Nat) : Pred Nat :=
  { get := fun t => if t % 2 = 0 then p else q, update := fun t _ => t + 1 }

def ctrUpdate (sh c : Nat) (b : Bool) : Nat :=
  if b then c + ((65536 - c) >>> sh) else c - (c >>> sh)

def o0P (sh : Nat) : Pred Nat := { get := fun c => c >>> 4, update := fun c b => ctrUpdate sh c b }

def o1P (sh : Nat) : Pred (Nat × Array Nat) :=
  { get := fun s => (s.2.getD s.1 0) >>> 4,
    update := fun s b =>
     (if 2 * s.1 + b.toNat ≥ 256 then 1 else 2 * s.1 + b.toNat,
      s.2.setIfInBounds s.1 (ctrUpdate sh (s.2.getD s.1 0) b)) }

def lcgTab : Array Nat := #[0, 1, 2, 2048, 4093, 4094, 4095, 1000]

def lcgP : Pred Nat :=
  { get := fun x => lcgTab.getD ((x >>> 28) % 8) 0,
    update := fun x b => (x * 1664525 + 1013904223 + b.toNat) % 4294967296 }

def runEnc {σ : Type} (P : Pred σ) (s0 : σ) (blk : List Nat) : String :=
  match encodeBlock P MAX_CHUNK s0 blk with
  | .error x => errTok x
  | .ok e =>
    let d := match decodeBlock P MAX_CHUNK s0 (e ++ ES.sentinel) blk.length with
      | .ok (b', r) => if b' = blk ∧ r = ES.sentinel then "ok" else "BAD"
      | .error x => errTok x
    s!"ok bits={e.length} {ES.hexOfBits e} dec={d}"

def runDec {σ : Type} (P : Pred σ) (s0 : σ) (count : Nat) (stream : List Nat) : String :=
  let bs := ofBytes stream
  match decodeBlock P MAX_CHUNK s0 bs count with
  | .error x => errTok x
  | .ok (b, r) => s!"ok {ES.hexOfBytes b} read={bs.length - r.length}"

/-- dispatch on the predictor spec -/
def withPred (spec : String) (k : (σ : Type) → Pred σ → σ → String) : String :=
  match spec.splitOn ":" with
  | ["c", ps] =>
    match ps.toNat? with
    | some p => k Unit (constP p) ()
    | none => "bad-op"
  | ["a", ps, qs] =>
    match ps.toNat?, qs.toNat? with
    | some p, some q => k Nat (altP p q) 0
    | _, _ => "bad-op"
  | ["o0", ss] =>
    match ss.toNat? with
    | some sh => k Nat (o0P sh) 32768
    | none => "bad-op"
  | ["o1", ss] =>
    match ss.toNat? with
    | some sh => k (Nat × Array Nat) (o1P sh) (1, Array.replicate 256 32768)
    | none => "bad-op"
  | ["lcg", ss] =>
    match ss.toNat? with
    | some seed => k Nat lcgP (seed % 4294967296)
    | none => "bad-op"
  | _ => "bad-op"

end BE

open BE in
/-- the `binent` stream -/
def binent (line : String) : String :=
  match ES.words line with
  | ["enc", spec, hs] =>
    match ES.parseHex hs with
    | none => "bad-op"
    | some blk => withPred spec (fun _ P s0 => runEnc P s0 blk)
  | ["dec", spec, cs, hs] =>
    match cs.toNat?, ES.parseHex hs with
    | some count, some stream => withPred spec (fun _ P s0 => runDec P s0 count stream)
    | _, _ => "bad-op"
  | ["cmenc", hs] =>
    match ES.parseHex hs with
    | none => "bad-op"
    | some blk => runEnc (Pred.ofImpure Kanzi.CM.cmGet Kanzi.CM.cmUpdate) (Kanzi.CM.cmInit false) blk
  | "real" :: _ => "ok"
  | "big" :: _ => "ok"
  | _ => "bad-op"

namespace FP
open Kanzi.Fpaq

/-- the block of the `fgen` ops: `z` zeros, `r` runs of a slowly changing byte, `m` a mixing LCG -/
def genBlock (kind : String) (n seed : Nat) : List Nat :=
  if kind = "z" then List.replicate n 0
  else if kind = "r" then (List.range n).map (fun i => (seed + i / 4096) % 256)
  else
    ((List.range n).foldl (fun (p : Nat × Array Nat) _ =>
        let x := (p.1 * 1664525 + 1013904223) % 4294967296
        (x, p.2.push ((x >>> 24) &&& (x >>> 16) % 256))) (seed % 4294967296, Array.mkEmpty n)).2.toList

def runEnc (blk : List Nat) (full : Bool) : String :=
  match fpaqEncode DEFAULT_CHUNK blk with
  | .error x => BE.errTok x
  | .ok e =>
    let d := match fpaqDecode DEFAULT_CHUNK (e ++ ES.sentinel) blk.length with
      | .ok (b', r) => if b' = blk ∧ r = ES.sentinel then "ok" else "BAD"
      | .error x => BE.errTok x
    if full then s!"ok bits={e.length} {ES.hexOfBits e} dec={d}"
    else
      let bytes := ES.pack e
      s!"ok bits={e.length} sum={bytes.foldl (fun a b => (a * 31 + b) % 4294967296) 7} dec={d}"

end FP

/-- the `fpaq` stream -/
def fpaq (line : String) : String :=
  match ES.words line with
  | ["fenc", hs] =>
    match ES.parseHex hs with
    | none => "bad-op"
    | some blk => FP.runEnc blk true
  | ["fgen", kind, ns, ss] =>
    match ns.toNat?, ss.toNat? with
    | some n, some seed => FP.runEnc (FP.genBlock kind n seed) false
    | _, _ => "bad-op"
  | ["fdec", cs, hs] =>
    match cs.toNat?, ES.parseHex hs with
    | some count, some stream =>
      let bs := ofBytes stream
      match Kanzi.Fpaq.fpaqDecode Kanzi.Fpaq.DEFAULT_CHUNK bs count with
      | .error x => BE.errTok x
      | .ok (b, r) => s!"ok {ES.hexOfBytes b} read={bs.length - r.length}"
    | _, _ => "bad-op"
  | _ => "bad-op"

end Kanzi.Drv
