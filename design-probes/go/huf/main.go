package main

import (
	"bytes"
	"fmt"
	"math/rand"

	"github.com/flanglet/kanzi-go/v2/bitstream"
	"github.com/flanglet/kanzi-go/v2/entropy"
)

type rwc struct{ bytes.Buffer }

func (*rwc) Close() error { return nil }

func rt(data []byte) (res string) {
	defer func() {
		if r := recover(); r != nil {
			res = fmt.Sprintf("PANIC %v", r)
		}
	}()
	bs := &rwc{}
	obs, _ := bitstream.NewDefaultOutputBitStream(bs, 16384)
	ee, _ := entropy.NewHuffmanEncoder(obs)
	if _, err := ee.Write(data); err != nil {
		return "enc " + err.Error()
	}
	ee.Dispose()
	obs.Close()
	ibs, _ := bitstream.NewDefaultInputBitStream(bs, 16384)
	ed, _ := entropy.NewHuffmanDecoder(ibs)
	out := make([]byte, len(data))
	if _, err := ed.Read(out); err != nil {
		return "dec " + err.Error()
	}
	if !bytes.Equal(out, data) {
		return "MISMATCH"
	}
	return "ok"
}

func main() {
	fib := []int{1, 1, 2, 3, 5, 8, 13, 21, 34, 55, 89, 144, 233, 377, 610}
	for _, total := range []int{2048, 2047, 2049, 4096, 16384} {
		var data []byte
		sum := 0
		for s, f := range fib {
			for k := 0; k < f; k++ {
				data = append(data, byte(s))
			}
			sum += f
		}
		// fill the rest with the most frequent symbol
		for len(data) < total {
			data = append(data, byte(len(fib)-1))
		}
		rand.New(rand.NewSource(1)).Shuffle(len(data), func(i, j int) { data[i], data[j] = data[j], data[i] })
		fmt.Println("total", total, rt(data))
	}
}
