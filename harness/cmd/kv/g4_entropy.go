package main

// Stream `entdirect` (C12): every entropy codec driven directly through the factory, exactly as the
// block pipeline does (io.encodingTask.encode / io.decodingTask.decode): a per-block ctx map, a
// DefaultOutputBitStream / DefaultInputBitStream with a 16 KiB buffer over a memory buffer,
// NewEntropyEncoder -> Write -> Dispose, then NewEntropyDecoder -> Read -> Dispose on the same bits.
// Search only (no Lean model behind this stream): the canonical output line is for regression diffs.
//
// Scenario line:
//   ent <CODEC> bs=<blockSize> n=<len> mis=<0|1> s=<seed> d=<family>[:k=v,...]
// The block is derived deterministically from (family, params, n, seed) by g4eData below.

import (
	"bytes"
	"fmt"
	"hash/fnv"
	"math/rand"
	"runtime/debug"
	"strconv"
	"strings"
	"sync"
	"time"

	"github.com/flanglet/kanzi-go/v2/bitstream"
	"github.com/flanglet/kanzi-go/v2/entropy"

	"kverif/internal/gen"
)

func init() {
	registerStream(&Stream{
		Name: "entdirect",
		Rule: "one evaluation = one (codec, block, start alignment) round trip through entropy.NewEntropyEncoder/NewEntropyDecoder over real bitstreams with a trailing 64-bit sentinel; blocks: lengths {0,1,2,31,32,33,63,64, scale boundaries 255..4097, chunk-1, chunk, chunk+1, 2*chunk+3} x alphabets 1..256 x histogram families (k rare + m dominant, Fibonacci, Huffman length-limit chains at total 2048, flat, single, random histograms, data shapes); distinct_nontrivial = distinct scenarios with a non-empty block that completed the round trip",
		Gen:  g4eGen,
		Exec: g4eExec,
	})
}

// ---------------------------------------------------------------------------------------------
// shared helpers (also used by g4_transform.go)

type g4rwc struct{ bytes.Buffer }

func (*g4rwc) Close() error { return nil }

const g4ModPrefix = "github.com/flanglet/kanzi-go/v2/"

// g4TopKanziFrame returns the innermost kanzi function of a panicking goroutine, from the text of
// runtime/debug.Stack() taken inside the deferred recover: the first kanzi frame after the last
// "panic(" line.  "github.com/flanglet/kanzi-go/v2/transform.(*rolzCodec2).Forward(0x...)" is
// returned as "transform.rolzCodec2.Forward".  line is the "file.go:123" of that frame.
func g4TopKanziFrame(stack []byte) (site string, line string) {
	lines := strings.Split(string(stack), "\n")
	start := 0
	for i, l := range lines {
		if strings.HasPrefix(l, "panic(") || strings.HasPrefix(l, "runtime.panic") || strings.HasPrefix(l, "runtime.goPanic") {
			start = i
		}
	}
	for i := start; i < len(lines); i++ {
		l := lines[i]
		if !strings.HasPrefix(l, g4ModPrefix) {
			continue
		}
		f := strings.TrimPrefix(l, g4ModPrefix)
		if k := strings.LastIndexByte(f, '('); k > 0 && !(k+1 < len(f) && f[k+1] == '*') {
			// strip the argument list (the last parenthesis group)
			f = f[:k]
		}
		f = strings.ReplaceAll(f, "(*", "")
		f = strings.ReplaceAll(f, ")", "")
		if i+1 < len(lines) {
			loc := strings.TrimSpace(lines[i+1])
			if k := strings.IndexByte(loc, ' '); k > 0 {
				loc = loc[:k]
			}
			if k := strings.LastIndexByte(loc, '/'); k >= 0 {
				loc = loc[k+1:]
			}
			line = loc
		}
		return f, line
	}
	return "unknown", ""
}

// g4Guard runs f, converting a panic into (site, message).
func g4Guard(f func()) (panicked bool, site, where, msg string) {
	defer func() {
		if r := recover(); r != nil {
			panicked = true
			site, where = g4TopKanziFrame(debug.Stack())
			msg = fmt.Sprint(r)
			if len(msg) > 160 {
				msg = msg[:160]
			}
		}
	}()
	f()
	return
}

// g4Watch runs f on its own goroutine and waits at most d for it. A goroutine cannot be killed:
// on a timeout the caller must flag the process as no longer trustworthy (Result.Abort).
func g4Watch(d time.Duration, f func()) (finished bool) {
	done := make(chan struct{})
	go func() {
		defer close(done)
		f()
	}()
	t := time.NewTimer(d)
	defer t.Stop()
	select {
	case <-done:
		return true
	case <-t.C:
		return false
	}
}

// The evidence keeps the first 20 violations of a run: report at most 3 scenarios per
// (site, symptom) class so that one frequent class cannot hide the others; every occurrence is
// still counted in the histogram (tag "viol:<symptom>@<site>") and visible in the output line.
var g4Reported = struct {
	sync.Mutex
	n map[string]int
}{n: map[string]int{}}

func g4Report(res *Result, site, symptom, what string) {
	res.Tags = append(res.Tags, "viol:"+symptom+"@"+site)
	g4Reported.Lock()
	g4Reported.n[site+"|"+symptom]++
	k := g4Reported.n[site+"|"+symptom]
	g4Reported.Unlock()
	if k <= 3 {
		res.Violation = &Violation{Kind: "input", Site: site, Symptom: symptom, What: what}
	}
}

// g4ParseKV parses "k=v" tokens.
func g4ParseKV(tokens []string) map[string]string {
	m := map[string]string{}
	for _, t := range tokens {
		if k := strings.IndexByte(t, '='); k > 0 {
			m[t[:k]] = t[k+1:]
		}
	}
	return m
}

// g4ParseData parses "family:k=v,k=v".
func g4ParseData(d string) (fam string, p map[string]string) {
	fam = d
	p = map[string]string{}
	if k := strings.IndexByte(d, ':'); k >= 0 {
		fam = d[:k]
		p = g4ParseKV(strings.Split(d[k+1:], ","))
	}
	return
}

func g4Int(m map[string]string, k string, def int) int {
	if v, ok := m[k]; ok {
		if x, err := strconv.Atoi(v); err == nil {
			return x
		}
	}
	return def
}

func g4LenClass(n int) string {
	switch {
	case n == 0:
		return "len:0"
	case n < 32:
		return "len:1-31"
	case n <= 64:
		return "len:32-64"
	case n < 4098:
		return "len:65-4097"
	case n <= 70000:
		return "len:4K-68K"
	case n < 1<<22-1:
		return "len:68K-4M"
	}
	return "len:>=4M"
}

func g4Shape(name string) *gen.Shape { return gen.ShapeByName(name) }

func g4FitLen(b []byte, n int) []byte {
	if len(b) >= n {
		return b[:n:n]
	}
	out := make([]byte, n)
	copy(out, b)
	for i := len(b); i < n && len(b) > 0; i++ {
		out[i] = b[i%len(b)]
	}
	return out
}

// ---------------------------------------------------------------------------------------------
// block generators with EXACT per-chunk histograms

// g4eCounts returns the counts of the abstract symbols 0..len-1 for one chunk of length L.
func g4eCounts(fam string, p map[string]string, L int, r *rand.Rand) []int {
	switch fam {
	case "rd": // k rare + m dominant
		k, m, alt := g4Int(p, "k", 250), g4Int(p, "m", 6), g4Int(p, "alt", 0)
		if m < 1 {
			m = 1
		}
		if k+m > 256 {
			k = 256 - m
		}
		if L <= m {
			c := make([]int, L)
			for i := range c {
				c[i] = 1
			}
			return c
		}
		c := make([]int, 0, k+m)
		budget := L - m
		for i := 0; i < k && budget > 0; i++ {
			v := 1
			if alt == 1 {
				v += i & 1
			} else if alt > 1 {
				v = 1 + i%alt
			}
			if v > budget {
				v = budget
			}
			c = append(c, v)
			budget -= v
		}
		rest := budget + m
		for i := 0; i < m; i++ {
			v := rest / m
			if i < rest%m {
				v++
			}
			c = append(c, v)
		}
		return c
	case "fib":
		a := g4Int(p, "a", 20)
		c := []int{}
		x, y, sum := 1, 1, 0
		for i := 0; i < a && i < 256 && sum+x <= L; i++ {
			c = append(c, x)
			sum += x
			x, y = y, x+y
		}
		if len(c) == 0 {
			return []int{L}
		}
		if g4Int(p, "rem", 0) == 1 && len(c) < 256 && L-sum > 0 {
			c = append(c, L-sum)
		} else {
			c[len(c)-1] += L - sum
		}
		return c
	case "hfb": // r symbols of count 1, then a chain growing by q/16 per step; remainder is one more symbol
		rr, q, d := g4Int(p, "r", 20), g4Int(p, "q", 32), g4Int(p, "d", 0)
		c := []int{}
		sum := 0
		for i := 0; i < rr && sum < L && len(c) < 200; i++ {
			c = append(c, 1)
			sum++
		}
		w := rr + d
		if w < 1 {
			w = 1
		}
		for sum+w <= L && len(c) < 255 {
			c = append(c, w)
			sum += w
			nw := w * q / 16
			if nw <= w {
				nw = w + 1
			}
			w = nw
		}
		if L-sum > 0 {
			if len(c) < 256 {
				c = append(c, L-sum)
			} else {
				c[len(c)-1] += L - sum
			}
		}
		return c
	case "rnd": // random histogram with a symbols, exact total
		a, sh := g4Int(p, "a", 64), g4Int(p, "sh", 0)
		if a > L {
			a = L
		}
		if a < 1 {
			a = 1
		}
		w := make([]float64, a)
		tw := 0.0
		for i := range w {
			switch sh {
			case 0:
				w[i] = 1
			case 1:
				w[i] = float64(uint(1) << uint(r.Intn(20)))
			case 2:
				w[i] = r.ExpFloat64()
			default:
				if r.Intn(16) == 0 {
					w[i] = 1000
				} else {
					w[i] = 0
				}
			}
			tw += w[i]
		}
		c := make([]int, a)
		sum, imax := 0, 0
		for i := range c {
			c[i] = 1
			if tw > 0 {
				c[i] += int(w[i] * float64(L-a) / tw)
			}
			sum += c[i]
			if c[i] > c[imax] {
				imax = i
			}
		}
		if sum <= L {
			c[imax] += L - sum
		} else {
			for i := 0; sum > L; i = (i + 1) % a { // float rounding overshoot: trim
				if c[i] > 1 {
					c[i]--
					sum--
				}
			}
		}
		return c
	}
	return []int{L}
}

// g4eData builds the block of a scenario.
func g4eData(fam string, p map[string]string, n int, seed int64) []byte {
	r := rand.New(rand.NewSource(seed))
	if n == 0 {
		return []byte{}
	}
	switch fam {
	case "shape":
		sh := g4Shape(p["name"])
		if sh == nil {
			sh = g4Shape("random")
		}
		return g4FitLen(sh.F(r, n), n)
	case "exehdr":
		return g4ExeHeader(r, n, g4Int(p, "kind", 0), g4Int(p, "sane", 0) == 1)
	case "sandwich":
		// compressible text, then `mid` bytes of kind k (0 = incompressible, 1 = one repeated byte, 2 = repeated 4-byte
		// pattern), then compressible text: puts a literal run / match / run length of an exact size inside a block that
		// the codec still accepts.  n = pre + mid + post.
		pre, mid := g4Int(p, "pre", 0), g4Int(p, "mid", 0)
		if pre+mid > n {
			pre = max(0, n-mid)
			mid = n - pre
		}
		b := make([]byte, 0, n)
		b = append(b, g4FitLen(gen.Text(r, max(pre, 1)), pre)...)
		m := make([]byte, mid)
		switch g4Int(p, "k", 0) {
		case 0:
			r.Read(m)
		case 1:
			v := byte(r.Intn(256))
			for i := range m {
				m[i] = v
			}
		default:
			pat := []byte{byte(r.Intn(256)), byte(r.Intn(256)), byte(r.Intn(256)), byte(r.Intn(256))}
			for i := range m {
				m[i] = pat[i&3]
			}
		}
		b = append(b, m...)
		post := n - len(b)
		b = append(b, g4FitLen(gen.Text(r, max(post, 1)), post)...)
		return b
	case "single":
		b := make([]byte, n)
		v := byte(g4Int(p, "v", r.Intn(256)))
		for i := range b {
			b[i] = v
		}
		return b
	case "flat":
		a := g4Int(p, "a", 256)
		if a < 1 {
			a = 1
		}
		perm := r.Perm(256)
		b := make([]byte, n)
		for i := range b {
			b[i] = byte(perm[r.Intn(a)])
		}
		return b
	}
	c := g4Int(p, "c", 0)
	if c <= 0 {
		c = n
	}
	perm := r.Perm(256)
	if g4Int(p, "ord", 0) == 1 { // identity: abstract symbol j is byte j (rare first)
		for i := range perm {
			perm[i] = i
		}
	} else if g4Int(p, "ord", 0) == 2 { // reversed: rare symbols are the highest bytes
		for i := range perm {
			perm[i] = 255 - i
		}
	}
	b := make([]byte, 0, n)
	for off := 0; off < n; off += c {
		L := min(c, n-off)
		cnt := g4eCounts(fam, p, L, r)
		st := len(b)
		for j, v := range cnt {
			for ; v > 0; v-- {
				b = append(b, byte(perm[j&255]))
			}
		}
		ch := b[st:]
		r.Shuffle(len(ch), func(i, j int) { ch[i], ch[j] = ch[j], ch[i] })
	}
	return g4FitLen(b, n)
}

// ---------------------------------------------------------------------------------------------
// execution on the real code

var g4eTypeName = map[string]string{"NONE": "NullEntropy", "HUFFMAN": "Huffman", "ANS0": "ANSRange", "ANS1": "ANSRange",
	"RANGE": "Range", "FPAQ": "FPAQ", "CM": "BinaryEntropy", "TPAQ": "BinaryEntropy", "TPAQX": "BinaryEntropy"}

func g4eIsBinary(codec string) bool {
	return codec == "FPAQ" || codec == "CM" || codec == "TPAQ" || codec == "TPAQX"
}

// TPAQ/TPAQX allocate tens of MB per instance: at most 2 at a time
var g4TpaqSem = make(chan struct{}, 2)

const g4Sentinel = uint64(0xDEADBEEFCAFEF00D)

type g4eOutcome struct {
	ok       bool
	symptom  string
	site     string
	what     string
	written  uint64
	read     uint64
	compHash uint64
}

func g4eCtx(codec string, bs, n int) map[string]any {
	return map[string]any{"entropy": codec, "bsVersion": uint(6), "blockSize": uint(bs), "size": uint(n)}
}

func g4eRoundTrip(codec string, bs int, data []byte, mis bool) (o g4eOutcome) {
	typ, err := entropy.GetType(codec)
	if err != nil {
		return g4eOutcome{symptom: "bad-op", site: "harness", what: err.Error()}
	}
	tn := g4eTypeName[codec]
	encSite, decSite := "entropy."+tn+"Encoder.Write", "entropy."+tn+"Decoder.Read"
	buf := &g4rwc{}
	var stage string
	fail := func(symptom, site, what string) g4eOutcome {
		o.ok, o.symptom, o.site, o.what = false, symptom, site, what
		return o
	}
	// ---- encode
	var encErr error
	pan, psite, pwhere, pmsg := g4Guard(func() {
		obs, _ := bitstream.NewDefaultOutputBitStream(buf, 16384)
		if mis {
			obs.WriteBits(0x2A, 7)
		}
		stage = "NewEntropyEncoder"
		ee, err := entropy.NewEntropyEncoder(obs, g4eCtx(codec, bs, len(data)), typ)
		if err != nil {
			encErr = err
			return
		}
		stage = "Write"
		if _, err := ee.Write(data); err != nil {
			encErr = err
			return
		}
		stage = "Dispose"
		ee.Dispose()
		o.written = obs.Written()
		stage = "sentinel"
		obs.WriteBits(g4Sentinel, 64)
		obs.Close()
	})
	if pan {
		return fail("fault", psite, fmt.Sprintf("encoder %s panicked at %s: %s", stage, pwhere, pmsg))
	}
	if encErr != nil {
		return fail("encode-error", encSite, fmt.Sprintf("%s: %v", stage, encErr))
	}
	h := fnv.New64a()
	h.Write(buf.Bytes())
	o.compHash = h.Sum64()
	// ---- decode
	out := make([]byte, len(data))
	var decErr error
	var pre, sentinel uint64
	pan, psite, pwhere, pmsg = g4Guard(func() {
		ibs, _ := bitstream.NewDefaultInputBitStream(buf, 16384)
		if mis {
			pre = ibs.ReadBits(7)
		}
		stage = "NewEntropyDecoder"
		ed, err := entropy.NewEntropyDecoder(ibs, g4eCtx(codec, bs, len(data)), typ)
		if err != nil {
			decErr = err
			return
		}
		stage = "Read"
		if _, err := ed.Read(out); err != nil {
			decErr = err
			return
		}
		stage = "Dispose"
		ed.Dispose()
		o.read = ibs.Read()
		stage = "sentinel"
		if o.read == o.written {
			sentinel = ibs.ReadBits(64)
		}
	})
	if pan {
		return fail("fault", psite, fmt.Sprintf("decoder %s panicked at %s: %s (encoder wrote %d bits)", stage, pwhere, pmsg, o.written))
	}
	if decErr != nil {
		return fail("decode-error", decSite, fmt.Sprintf("%s: %v", stage, decErr))
	}
	if mis && pre != 0x2A {
		return fail("prefix", "harness", "7-bit prefix not read back")
	}
	if !bytes.Equal(out, data) {
		k := 0
		for k < len(out) && out[k] == data[k] {
			k++
		}
		return fail("roundtrip-mismatch", decSite, fmt.Sprintf("decoded block differs from the encoded one at offset %d of %d", k, len(data)))
	}
	if o.read != o.written {
		if len(data) == 0 && g4eIsBinary(codec) && o.read < o.written {
			return fail("empty-block-extra-bits", "entropy.BinaryEntropyEncoder.Dispose",
				fmt.Sprintf("%s, 0-length block: encoder wrote %d bits (Dispose flushes the arithmetic coder state), decoder consumed %d", codec, o.written, o.read))
		}
		return fail("bits-consumed", decSite, fmt.Sprintf("encoder wrote %d bits, decoder consumed %d", o.written, o.read))
	}
	if sentinel != g4Sentinel {
		return fail("sentinel", decSite, fmt.Sprintf("64-bit word after the block read back as %#x", sentinel))
	}
	o.ok = true
	return o
}

func g4eExec(op string, res *Result) string {
	w := strings.Fields(op)
	if len(w) < 3 || w[0] != "ent" {
		return "bad-op"
	}
	codec := w[1]
	kv := g4ParseKV(w[2:])
	n, bs, mis := g4Int(kv, "n", 0), g4Int(kv, "bs", 1024), g4Int(kv, "mis", 0) == 1
	seed, _ := strconv.ParseInt(kv["s"], 10, 64)
	fam, p := g4ParseData(kv["d"])
	if _, known := g4eTypeName[codec]; !known || n < 0 || n > 1<<26 {
		return "bad-op"
	}
	data := g4eData(fam, p, n, seed)
	if codec == "TPAQ" || codec == "TPAQX" {
		g4TpaqSem <- struct{}{}
		defer func() { <-g4TpaqSem }()
	}
	var o g4eOutcome
	limit := 120*time.Second + time.Duration(n/(1<<16))*time.Second
	if !g4Watch(limit, func() { o = g4eRoundTrip(codec, bs, data, mis) }) {
		res.Abort = true
		res.Violation = &Violation{Kind: "input", Site: "entropy." + g4eTypeName[codec], Symptom: "hang",
			What: fmt.Sprintf("%s round trip of %d bytes did not finish in %v", codec, n, limit)}
		return "viol hang"
	}
	res.Tags = append(res.Tags, "codec:"+codec, g4LenClass(n), fmt.Sprintf("mis:%d", g4Int(kv, "mis", 0)))
	res.Sample = map[string]any{"op": op, "written_bits": o.written}
	if o.symptom == "bad-op" {
		return "bad-op"
	}
	if !o.ok {
		g4Report(res, o.site, o.symptom, o.what)
		return "viol " + o.symptom + " " + o.site
	}
	res.Nontrivial = n > 0
	return fmt.Sprintf("ok w=%d h=%016x", o.written, o.compHash)
}

// ---------------------------------------------------------------------------------------------
// generator

func g4eRound16(n int) int { return max(1024, (n+15)&^15) }

func g4eGen(r *rand.Rand, tier string, nRandom int, emit func(op string, tags ...string)) {
	thorough := tier == "thorough"
	seedCtr := int64(r.Intn(1 << 20))
	put := func(codec string, n int, mis int, d string, fam string) {
		seedCtr++
		emit(fmt.Sprintf("ent %s bs=%d n=%d mis=%d s=%d d=%s", codec, g4eRound16(n), n, mis, seedCtr, d), "family:"+fam)
	}
	both := func(codec string, n int, d string, fam string) {
		put(codec, n, 0, d, fam)
		put(codec, n, 1, d, fam)
	}
	base := []int{0, 1, 2, 31, 32, 33, 63, 64}
	scaleLens := []int{255, 256, 257, 511, 512, 513, 1023, 1024, 1025, 2047, 2048, 2049, 4095, 4096, 4097}
	chunkLens := func(c int) []int { return []int{c - 1, c, c + 1, c + 2, c + 3, c + 4, 2*c + 3} }
	chunk := map[string]int{"HUFFMAN": 1 << 14, "ANS0": 1 << 14, "RANGE": 1 << 15, "ANS1": 1 << 22, "FPAQ": 1 << 22}

	// ---- static-model codecs: engineered histograms
	type rd struct{ k, m int }
	rds := []rd{{250, 6}, {255, 1}, {200, 3}, {100, 2}, {64, 1}, {30, 17}, {3, 1}, {1, 1}, {128, 128}, {240, 16}}
	if !thorough {
		rds = []rd{{250, 6}, {255, 1}, {100, 2}, {30, 17}, {1, 1}}
	}
	for _, codec := range []string{"HUFFMAN", "ANS0", "ANS1", "RANGE"} {
		c := chunk[codec]
		lens := append([]int{}, base...)
		lens = append(lens, scaleLens...)
		if c <= 1<<15 || thorough {
			lens = append(lens, chunkLens(c)...)
		}
		if codec == "HUFFMAN" {
			lens = append(lens, c+2048)
		}
		if codec == "ANS1" { // order-1 contexts: also mid sizes even when the 4 MiB chunk is out of the tier
			lens = append(lens, 16383, 16384, 16385, 65536+3)
		}
		for _, n := range lens {
			big := n >= 1<<22-1
			cs := fmt.Sprintf("c=%d", c)
			both(codec, n, "single", "single")
			if n == 0 {
				continue
			}
			both(codec, n, "flat:a=256", "flat")
			both(codec, n, "shape:name=text", "shape")
			for i, x := range rds {
				if big && i > 1 {
					break
				}
				for _, alt := range []int{0, 1} {
					for _, ord := range []int{0, 1, 2} {
						if (big || !thorough) && ord != (i+alt)%3 {
							continue
						}
						both(codec, n, fmt.Sprintf("rd:k=%d,m=%d,alt=%d,ord=%d,%s", x.k, x.m, alt, ord, cs), "rare+dominant")
					}
				}
			}
			if big {
				continue
			}
			both(codec, n, "flat:a=2", "flat")
			both(codec, n, "flat:a=17", "flat")
			for _, a := range []int{12, 16, 20, 24, 40} {
				both(codec, n, fmt.Sprintf("fib:a=%d,%s", a, cs), "fibonacci")
				if thorough {
					both(codec, n, fmt.Sprintf("fib:a=%d,rem=1,%s", a, cs), "fibonacci")
				}
			}
			both(codec, n, "shape:name=random", "shape")
			both(codec, n, "shape:name=skew-250-6", "shape")
		}
		// alphabets 1..256
		for a := 1; a <= 256; a++ {
			if !thorough && !(a <= 9 || a%16 <= 1 || a%16 == 15 || a == 200) {
				continue
			}
			for _, n := range []int{1000, 4096, min(c, 1<<15)} {
				put(codec, n, a&1, fmt.Sprintf("flat:a=%d", a), "alphabet")
				put(codec, n, 1-a&1, fmt.Sprintf("rnd:a=%d,sh=0,c=%d", a, c), "alphabet-exact")
			}
		}
	}
	// ---- ANS1/FPAQ 4 MiB chunk boundary in the quick tier: a few blocks only (the full set is thorough)
	if !thorough {
		for i, n := range []int{1<<22 + 1, 1<<22 + 2, 1<<22 + 3, 2<<22 + 3} {
			put("ANS1", n, i&1, "single", "chunk-4M")
			put("ANS1", n, 1-i&1, "shape:name=text", "chunk-4M")
			put("FPAQ", n, i&1, "shape:name=text", "chunk-4M")
		}
	}
	// ---- Huffman length-limit fallback: chains at chunk total 2048 (and neighbours)
	nh := 1200
	if thorough {
		nh = 150000
	}
	for i := 0; i < nh; i++ {
		n := 2048
		switch r.Intn(8) {
		case 0:
			n = 1<<14 + 2048
		case 1:
			n = 2047 + r.Intn(3)
		case 2:
			n = 1024 + r.Intn(15000)
		}
		put("HUFFMAN", n, r.Intn(2), fmt.Sprintf("hfb:r=%d,q=%d,d=%d,c=16384", 2+r.Intn(60), 17+r.Intn(40), r.Intn(24)-4), "huffman-limit-chain")
	}
	// ---- NONE
	noneLens := append(append([]int{}, base...), 1000, 65536)
	if thorough {
		noneLens = append(noneLens, 1<<23-1, 1<<23, 1<<23+3)
	}
	for _, n := range noneLens {
		both("NONE", n, "shape:name=random", "shape")
		both("NONE", n, "shape:name=zeros", "shape")
	}
	// ---- adaptive binary codecs
	shapes := []string{"text", "random", "zeros", "skew-250-6", "alpha2", "dna", "runs", "utf8-3000", "exe-elf", "wave"}
	for _, codec := range []string{"FPAQ", "CM", "TPAQ", "TPAQX"} {
		lens := append(append([]int{}, base...), 100, 1000, 4096, 16385, 65536)
		shp := shapes
		if !thorough {
			shp = shapes[:5]
			if codec == "TPAQ" || codec == "TPAQX" {
				shp = shapes[:3]
			}
		}
		if thorough {
			switch codec {
			case "FPAQ":
				lens = append(lens, chunkLens(1<<22)...)
			case "CM":
				lens = append(lens, 1<<20+1)
			}
		}
		for _, n := range lens {
			both(codec, n, "single", "single")
			if n == 0 {
				continue
			}
			for i, s := range shp {
				if n >= 1<<22-1 && i > 2 {
					break
				}
				both(codec, n, "shape:name="+s, "shape")
			}
			if n <= 4096 || thorough {
				both(codec, n, "rd:k=250,m=6,c=16384", "rare+dominant")
				both(codec, n, "flat:a=3", "flat")
			}
		}
	}
	// ---- TPAQ/TPAQX: larger declared block sizes select bigger state tables
	if thorough {
		for _, codec := range []string{"TPAQ", "TPAQX"} {
			for _, bs := range []int{1 << 20, 4 << 20} {
				for _, n := range []int{1, 1000, 65536} {
					seedCtr++
					emit(fmt.Sprintf("ent %s bs=%d n=%d mis=1 s=%d d=shape:name=text", codec, bs, n, seedCtr), "family:tpaq-blocksize")
				}
			}
		}
	}
	// ---- random histograms on the static codecs
	if nRandom == 0 {
		nRandom = 3000
		if thorough {
			nRandom = 400000
		}
	}
	static := []string{"HUFFMAN", "ANS0", "ANS1", "RANGE"}
	for i := 0; i < nRandom; i++ {
		codec := static[r.Intn(4)]
		var n int
		switch r.Intn(4) {
		case 0:
			n = 33 + r.Intn(300)
		case 1:
			n = 256 << uint(r.Intn(5))
			n += r.Intn(3) - 1
		case 2:
			n = 33 + r.Intn(5000)
		default:
			n = 4096 + r.Intn(40000)
		}
		c := min(chunk[codec], 1<<15)
		var d string
		switch r.Intn(3) {
		case 0:
			d = fmt.Sprintf("rnd:a=%d,sh=%d,c=%d", 1+r.Intn(256), r.Intn(4), c)
		case 1:
			m := 1 + r.Intn(8)
			d = fmt.Sprintf("rd:k=%d,m=%d,alt=%d,ord=%d,c=%d", 1+r.Intn(256-m), m, r.Intn(4), r.Intn(3), c)
		default:
			d = fmt.Sprintf("hfb:r=%d,q=%d,d=%d,c=%d", 1+r.Intn(100), 17+r.Intn(48), r.Intn(16), c)
		}
		put(codec, n, r.Intn(2), d, "random-histogram")
	}
}
