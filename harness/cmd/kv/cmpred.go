package main

// Correspondence stream "cmpred" (C12: the context-mixing bit predictor entropy.CMPredictor used by the
// CM entropy codec through BinaryEntropyEncoder / BinaryEntropyDecoder).
//
//	cm <vspec> <kind> <nbits> <hex>
//
//	<vspec>  how NewCMPredictor is called: nil (nil context), nokey (map without "bsVersion"),
//	         u<N> (ctx["bsVersion"] = uint(N)), i<N> (int(N): wrong dynamic type), s<N> (a string)
//	<kind>   d  bit i = data bit i
//	         l  bit i = (the LESS likely bit according to the Get() just returned) xor data bit i
//	         m  bit i = (the MORE likely bit) xor data bit i      (likely bit = 1 iff Get() >= 2048)
//	<hex>    data bytes, bits MSB first, "-" = empty; data bits beyond the end are 0
//
// For i in 0..nbits-1:  p_i = Get(); Update(bit_i)   -- the call pattern of the binary entropy coder.
//
//	-> ok n=<nbits> ones=<# of 1 bits fed> h=<hash of p_0..p_{n-1}> min=<> max=<> first=<p_0..p_7> last=<last 8>
//	 | err type     (NewCMPredictor returned its error)
//	 | panic        (never observed; the model prints "fault get i" / "fault update i")
//
// Oracle (independent of the Lean model): no panic, every Get() in [0, 4095], a second instance fed the
// same bits returns the same values (the predictor is a deterministic state machine), the error iff
// the bsVersion entry has the wrong dynamic type.

import (
	"encoding/hex"
	"fmt"
	"math/rand"
	"strconv"
	"strings"

	"github.com/flanglet/kanzi-go/v2/entropy"
	"kverif/internal/gen"
)

func init() {
	registerStream(&Stream{
		Name: "cmpred",
		Rule: "bit sequences fed to the real CMPredictor (Get/Update alternating): all zeros, all ones, periodic patterns of period 2..64, text, random, skewed, long runs of one byte (runMask), few-symbol runs, byte ramps (every order-0 context), adversarial less-likely / more-likely bit computed on the fly, adversarial xor sparse noise; lengths 0,1,7,8,9,.. up to 8k bits (quick) / 400k bits (thorough); constructor variants nil / nokey / uint 0..6 / wrong type. distinct_nontrivial = distinct ops with nbits > 0 and a constructed predictor",
		Gen:  cmGen,
		Exec: cmExec,
	})
}

func cmHex(b []byte) string {
	if len(b) == 0 {
		return "-"
	}
	return hex.EncodeToString(b)
}

func cmOp(v string, kind byte, nbits int, data []byte) string {
	return "cm " + v + " " + string(kind) + " " + strconv.Itoa(nbits) + " " + cmHex(data)
}

var cmVspecs = []string{"nil", "nokey", "u4", "u3", "u6", "u5", "u2", "u1", "u0"}

func cmPickV(r *rand.Rand) string {
	switch r.Intn(10) {
	case 0, 1, 2:
		return "nil"
	case 3, 4, 5:
		return "u3"
	default:
		return cmVspecs[r.Intn(len(cmVspecs))]
	}
}

func cmGen(r *rand.Rand, tier string, n int, emit func(op string, tags ...string)) {
	thorough := tier == "thorough"
	maxBits := 8000
	reps := 4
	if thorough {
		maxBits = 60000
		reps = 10
	}
	if n > 0 {
		reps = n
	}
	// 0. constructor variants, tiny lengths
	for _, v := range []string{"nil", "nokey", "u0", "u1", "u2", "u3", "u4", "u5", "u6", "u7", "u4294967295", "i3", "i4", "s3"} {
		for _, nb := range []int{0, 1, 2, 7, 8, 9, 15, 16, 17, 64} {
			d := gen.Random(r, (nb+7)/8)
			emit(cmOp(v, 'd', nb, d), "family:ctor")
		}
	}
	both := []string{"nil", "u3"}
	// 1. constant and periodic bit patterns
	for _, v := range both {
		for _, nb := range []int{100, 1000, maxBits} {
			emit(cmOp(v, 'd', nb, nil), "family:zeros")
			emit(cmOp(v, 'd', nb, bytesOf(0xff, (nb+7)/8)), "family:ones")
			emit(cmOp(v, 'd', nb, bytesOf(0xaa, (nb+7)/8)), "family:alternating")
			emit(cmOp(v, 'd', nb, bytesOf(0x55, (nb+7)/8)), "family:alternating")
		}
		for period := 2; period <= 64; period++ {
			if !thorough && period > 12 && period%8 != 0 && period%7 != 0 {
				continue
			}
			nb := 500 + r.Intn(2500)
			pat := gen.Random(r, (period+7)/8)
			d := make([]byte, (nb+7)/8)
			for i := 0; i < nb; i++ {
				j := i % period
				if pat[j/8]>>(7-uint(j%8))&1 == 1 {
					d[i/8] |= 1 << (7 - uint(i%8))
				}
			}
			emit(cmOp(v, 'd', nb, d), "family:periodic")
		}
		// 2. adversaries
		for _, nb := range []int{50, 1000, maxBits} {
			emit(cmOp(v, 'l', nb, nil), "family:less-likely")
			emit(cmOp(v, 'm', nb, nil), "family:more-likely")
		}
		// 3. long runs of one byte (runMask = 0x100 after two equal bytes)
		for _, b := range []byte{0x00, 0xff, 0x41, 0x80, 0x01, 0xfe, 0x7f, byte(r.Intn(256))} {
			emit(cmOp(v, 'd', maxBits, bytesOf(b, maxBits/8)), "family:byte-run")
		}
		// 4. byte ramps: every order-0 context / every c1, c2 value
		ramp := make([]byte, 0, 1024)
		for i := 0; i < 256; i++ {
			ramp = append(ramp, byte(i))
		}
		for i := 0; i < 256; i++ {
			ramp = append(ramp, byte(i), byte(i))
		}
		for i := 255; i >= 0; i-- {
			ramp = append(ramp, byte(i))
		}
		emit(cmOp(v, 'd', 8*len(ramp), ramp), "family:ramp")
	}
	// 5. data shapes
	for rep := 0; rep < reps; rep++ {
		for i := 0; i < 40; i++ {
			nb := 1 + r.Intn(maxBits)
			if i%4 == 0 {
				nb = 1 + r.Intn(300)
			}
			nby := (nb + 7) / 8
			var d []byte
			var fam string
			switch i % 10 {
			case 0, 1:
				d, fam = gen.Text(r, nby), "text"
			case 2, 3:
				d, fam = gen.Random(r, nby), "random"
			case 4:
				d, fam = gen.Runs(r, nby), "runs"
			case 5:
				d, fam = gen.Skewed(r, nby, 1+r.Intn(5), 1+r.Intn(255)), "skewed"
			case 6:
				d, fam = gen.SmallAlpha(r, nby, 2+r.Intn(3)), "small-alphabet"
			case 7:
				d, fam = gen.DNA(r, nby), "dna"
			case 8:
				// runs of random length of random bytes: exercises runMask switching on and off
				d = make([]byte, 0, nby)
				for len(d) < nby {
					b := byte(r.Intn(256))
					k := 1 + r.Intn(6)
					for j := 0; j < k && len(d) < nby; j++ {
						d = append(d, b)
					}
				}
				fam = "short-runs"
			default:
				d, fam = gen.Numeric(r, nby), "numeric"
			}
			emit(cmOp(cmPickV(r), 'd', nb, d), "family:"+fam)
		}
		// 6. adversaries perturbed by sparse noise (density 1/2^k)
		for i := 0; i < 16; i++ {
			nb := 1 + r.Intn(maxBits)
			nby := (nb + 7) / 8
			d := gen.Random(r, nby)
			k := 1 + r.Intn(5)
			for j := 0; j < k; j++ {
				m := gen.Random(r, nby)
				for x := range d {
					d[x] &= m[x]
				}
			}
			kind := byte('l')
			if i%2 == 1 {
				kind = 'm'
			}
			emit(cmOp(cmPickV(r), kind, nb, d), "family:adversary-noise")
		}
	}
	// 7. long sequences
	if thorough {
		for _, v := range both {
			emit(cmOp(v, 'd', 400000, nil), "family:long-zeros")
			emit(cmOp(v, 'd', 400000, bytesOf(0xff, 50000)), "family:long-ones")
			emit(cmOp(v, 'l', 400000, nil), "family:long-less-likely")
			emit(cmOp(v, 'm', 400000, nil), "family:long-more-likely")
			emit(cmOp(v, 'd', 400000, gen.Text(r, 50000)), "family:long-text")
			emit(cmOp(v, 'd', 400000, gen.Random(r, 50000)), "family:long-random")
			emit(cmOp(v, 'd', 400000, gen.Runs(r, 50000)), "family:long-runs")
		}
	} else {
		emit(cmOp("nil", 'd', 60000, gen.Text(r, 7500)), "family:long-text")
		emit(cmOp("u3", 'm', 60000, nil), "family:long-more-likely")
		emit(cmOp("nil", 'm', 60000, nil), "family:long-more-likely")
		emit(cmOp("u3", 'd', 60000, bytesOf(0xff, 7500)), "family:long-ones")
		emit(cmOp("nil", 'd', 60000, bytesOf(0xff, 7500)), "family:long-ones")
	}
}

func bytesOf(b byte, n int) []byte {
	d := make([]byte, n)
	for i := range d {
		d[i] = b
	}
	return d
}

func cmNewReal(v string) (p *entropy.CMPredictor, err error, ok bool) {
	switch {
	case v == "nil":
		p, err = entropy.NewCMPredictor(nil)
	case v == "nokey":
		ctx := map[string]any{"other": 1}
		p, err = entropy.NewCMPredictor(&ctx)
	case strings.HasPrefix(v, "u"):
		x, e := strconv.ParseUint(v[1:], 10, 64)
		if e != nil {
			return nil, nil, false
		}
		ctx := map[string]any{"bsVersion": uint(x)}
		p, err = entropy.NewCMPredictor(&ctx)
	case strings.HasPrefix(v, "i"):
		x, e := strconv.Atoi(v[1:])
		if e != nil {
			return nil, nil, false
		}
		ctx := map[string]any{"bsVersion": x}
		p, err = entropy.NewCMPredictor(&ctx)
	case strings.HasPrefix(v, "s"):
		ctx := map[string]any{"bsVersion": v[1:]}
		p, err = entropy.NewCMPredictor(&ctx)
	default:
		return nil, nil, false
	}
	return p, err, true
}

func cmDataBit(d []byte, i int) int {
	if i/8 >= len(d) {
		return 0
	}
	return int(d[i/8]>>(7-uint(i%8))) & 1
}

func cmExec(op string, res *Result) (out string) {
	w := strings.Fields(op)
	if len(w) != 5 || w[0] != "cm" || len(w[2]) != 1 {
		return "bad-op"
	}
	kind := w[2][0]
	nb, e := strconv.Atoi(w[3])
	if e != nil || nb < 0 || (kind != 'd' && kind != 'l' && kind != 'm') {
		return "bad-op"
	}
	var data []byte
	if w[4] != "-" {
		if data, e = hex.DecodeString(w[4]); e != nil {
			return "bad-op"
		}
	}
	step := -1
	defer func() {
		if p := recover(); p != nil {
			res.Tags = append(res.Tags, "case:panic")
			res.Violation = &Violation{Kind: "input", Site: "entropy.CMPredictor", Symptom: "panic",
				What: fmt.Sprintf("panic at step %d: %v", step, p)}
			out = "panic"
		}
	}()
	pr, err, ok := cmNewReal(w[1])
	if !ok {
		return "bad-op"
	}
	wrongType := w[1][0] == 'i' || w[1][0] == 's'
	if (err != nil) != wrongType {
		res.Violation = &Violation{Kind: "input", Site: "entropy.NewCMPredictor", Symptom: "ctor",
			What: fmt.Sprintf("vspec %s: err=%v", w[1], err)}
	}
	if err != nil {
		res.Tags = append(res.Tags, "case:err-type")
		return "err type"
	}
	twin, _, _ := cmNewReal(w[1])
	h := uint64(14695981039346656037)
	mn, mx, ones := 0, 0, 0
	var first, last []string
	ring := make([]int, 0, 8)
	bad := ""
	for i := 0; i < nb; i++ {
		step = i
		p := pr.Get()
		if q := twin.Get(); q != p && bad == "" {
			bad = fmt.Sprintf("step %d: two instances fed the same bits return %d and %d", i, p, q)
		}
		if (p < 0 || p > 4095) && bad == "" {
			bad = fmt.Sprintf("step %d: Get() = %d outside [0,4095]", i, p)
		}
		h = (h ^ uint64(int64(p)+1)) * 1099511628211
		if i == 0 || p < mn {
			mn = p
		}
		if i == 0 || p > mx {
			mx = p
		}
		if i < 8 {
			first = append(first, strconv.Itoa(p))
		}
		if len(ring) == 8 {
			copy(ring, ring[1:])
			ring = ring[:7]
		}
		ring = append(ring, p)
		likely := 0
		if p >= 2048 {
			likely = 1
		}
		bit := cmDataBit(data, i)
		switch kind {
		case 'l':
			bit ^= 1 - likely
		case 'm':
			bit ^= likely
		}
		ones += bit
		pr.Update(byte(bit))
		twin.Update(byte(bit))
	}
	for _, p := range ring {
		last = append(last, strconv.Itoa(p))
	}
	if bad != "" {
		sym := "get-out-of-range"
		if strings.Contains(bad, "two instances") {
			sym = "non-deterministic"
		}
		res.Violation = &Violation{Kind: "input", Site: "entropy.CMPredictor.Get", Symptom: sym, What: bad}
	}
	res.Nontrivial = nb > 0
	if w[1] == "u0" || w[1] == "u1" || w[1] == "u2" || w[1] == "u3" {
		res.Tags = append(res.Tags, "case:bsVersion3")
	} else {
		res.Tags = append(res.Tags, "case:bsVersion4+")
	}
	if mx == 4095 {
		res.Tags = append(res.Tags, "case:max-4095")
	}
	if nb > 0 && mn == 0 {
		res.Tags = append(res.Tags, "case:min-0")
	}
	res.Tags = append(res.Tags, "kind:"+string(kind))
	res.Sample = map[string]any{"vspec": w[1], "kind": string(kind), "nbits": nb, "min": mn, "max": mx}
	return fmt.Sprintf("ok n=%d ones=%d h=%d min=%d max=%d first=%s last=%s", nb, ones, h, mn, mx,
		strings.Join(first, ","), strings.Join(last, ","))
}
