/-
Proofs for the `rlt` slice, part 1: the index-based model of `RLT.Inverse` (`invLoop`, with `.fault`
for every out-of-range access) is equal to a list-based decoder `decL` that reads its input token by
token and has no `.fault` outcome.  Consequences: Inverse never faults on any input, and the round
trip proof (Proofs/RLTFwd.lean) can reason about `decL` on appended token lists.
-/
import Kanzi.Model.RLT

namespace Kanzi.RLT

/-! ## basics -/

@[simp] theorem Out.bind_ok {α β : Type} (a : α) (f : α → Out β) : (Out.ok a).bind f = f a := rfl
@[simp] theorem Out.bind_err {α β : Type} (e : String) (f : α → Out β) :
    (Out.err e : Out α).bind f = .err e := rfl
@[simp] theorem Out.bind_fault {α β : Type} (e : String) (f : α → Out β) :
    (Out.fault e : Out α).bind f = .fault e := rfl

@[simp] theorem RUN_LEN_ENCODE1_eq : RUN_LEN_ENCODE1 = 224 := rfl
@[simp] theorem RUN_LEN_ENCODE2_eq : RUN_LEN_ENCODE2 = 7936 := rfl
@[simp] theorem RUN_THRESHOLD_eq : RUN_THRESHOLD = 3 := rfl
@[simp] theorem MAX_RUN_eq : MAX_RUN = 73473 := rfl
@[simp] theorem MAX_RUN4_eq : MAX_RUN4 = 73469 := rfl
@[simp] theorem MIN_BLOCK_LENGTH_eq : MIN_BLOCK_LENGTH = 16 := rfl

theorem size_appendList (a : Array Nat) (l : List Nat) : (a ++ l).size = a.size + l.length := by
  rw [← Array.length_toList, Array.toList_appendList]; simp

theorem wr_ok (dstEnd : Nat) (out : Array Nat) (bs : List Nat) (h : out.size + bs.length ≤ dstEnd) :
    wr dstEnd out bs = .ok (out ++ bs) := by
  unfold wr; simp [h]

/-- `wr` never returns an error, and its result is the append -/
theorem wr_cases (dstEnd : Nat) (out : Array Nat) (bs : List Nat) :
    wr dstEnd out bs = .ok (out ++ bs) ∨ ∃ e, wr dstEnd out bs = .fault e := by
  unfold wr; split
  · exact Or.inl rfl
  · exact Or.inr ⟨_, rfl⟩

theorem getD_last (a : Array Nat) : a.getD (a.size - 1) 0 = a.toList.getLastD 0 := by
  cases a with | mk l =>
  simp [List.getLastD_eq_getLast?, List.getLast?_eq_getElem?]

theorem shl8_or (a b : Nat) (h : b < 256) : (a <<< 8) ||| b = a * 256 + b := by
  rw [← Nat.shiftLeft_add_eq_or_of_lt (by omega : b < 2 ^ 8), Nat.shiftLeft_eq]

/-! ## the list-based decoder -/

/-- Go "Sanity check": `run > _RLT_MAX_RUN || dstIdx+run >= dstEnd` -/
def runBad (n : Nat) (d : List Nat) (run : Nat) : Bool := run > MAX_RUN ∨ d.length + run ≥ n

/-- `RLT.Inverse` main loop on the list of the remaining input bytes; `d` = the bytes decoded so far,
    `n` = `len(dst)`.  Same error classes as `invLoop`; the result type has no fault outcome. -/
def decL (n esc : Nat) : List Nat → List Nat → Except String (List Nat)
  | [], d => .ok d
  | x :: rest, d =>
    if x ≠ esc then (if d.length ≥ n then .error "data" else decL n esc rest (d ++ [x]))
    else match rest with
      | [] => .error "data"
      | r :: rest2 =>
        if r = 0 then (if d.length ≥ n then .error "data" else decL n esc rest2 (d ++ [esc]))
        else if r = 0xFF then
          match rest2 with
          | a :: b :: rest3 =>
            if runBad n d ((((a <<< 8) ||| b) + RUN_LEN_ENCODE2) + (RUN_THRESHOLD - 1)) then .error "run"
            else decL n esc rest3
              (d ++ List.replicate ((((a <<< 8) ||| b) + RUN_LEN_ENCODE2) + (RUN_THRESHOLD - 1)) (d.getLastD 0))
          | _ => .error "data"
        else if r ≥ RUN_LEN_ENCODE1 then
          match rest2 with
          | a :: rest3 =>
            if runBad n d (((((r - RUN_LEN_ENCODE1) <<< 8) ||| a) + RUN_LEN_ENCODE1) + (RUN_THRESHOLD - 1))
            then .error "run"
            else decL n esc rest3
              (d ++ List.replicate (((((r - RUN_LEN_ENCODE1) <<< 8) ||| a) + RUN_LEN_ENCODE1) + (RUN_THRESHOLD - 1))
                (d.getLastD 0))
          | [] => .error "data"
        else
          if runBad n d (r + (RUN_THRESHOLD - 1)) then .error "run"
          else decL n esc rest2 (d ++ List.replicate (r + (RUN_THRESHOLD - 1)) (d.getLastD 0))

/-- embedding of the fault-free results -/
def liftE : Except String (List Nat) → Res
  | .ok d => .ok d
  | .error e => .err e

theorem liftE_ne_fault (r : Except String (List Nat)) (e : String) : liftE r ≠ .fault e := by
  cases r <;> simp [liftE]

theorem decL_nil (n esc : Nat) (d : List Nat) : decL n esc [] d = .ok d := by
  rw [decL.eq_def]

theorem decL_lit (n esc x : Nat) (rest d : List Nat) (hx : x ≠ esc) :
    decL n esc (x :: rest) d = if d.length ≥ n then .error "data" else decL n esc rest (d ++ [x]) := by
  rw [decL.eq_def]; simp [hx]

theorem decL_esc_end (n esc : Nat) (d : List Nat) : decL n esc [esc] d = .error "data" := by
  rw [decL.eq_def]; simp

theorem decL_esc0 (n esc : Nat) (rest d : List Nat) :
    decL n esc (esc :: 0 :: rest) d
      = if d.length ≥ n then .error "data" else decL n esc rest (d ++ [esc]) := by
  rw [decL.eq_def]; simp

/-- effect of a run token of total length `run` (the previous byte is repeated `run` times) -/
def runStep (n esc : Nat) (rest d : List Nat) (run : Nat) : Except String (List Nat) :=
  if runBad n d run then .error "run" else decL n esc rest (d ++ List.replicate run (d.getLastD 0))

theorem decL_runFF (n esc a b : Nat) (rest d : List Nat) :
    decL n esc (esc :: 0xFF :: a :: b :: rest) d
      = runStep n esc rest d ((((a <<< 8) ||| b) + RUN_LEN_ENCODE2) + (RUN_THRESHOLD - 1)) := by
  rw [decL.eq_def]
  simp only [ne_eq, not_true_eq_false, if_false, runStep]
  rw [if_pos trivial, if_neg (by decide)]

theorem decL_runFF_short (n esc : Nat) (rest d : List Nat) (h : rest.length < 2) :
    decL n esc (esc :: 0xFF :: rest) d = .error "data" := by
  cases rest with
  | nil =>
    rw [decL.eq_def]
    simp only [ne_eq, not_true_eq_false, if_false]
    rw [if_neg (by decide), if_pos trivial]
  | cons a t =>
    cases t with
    | nil =>
      rw [decL.eq_def]
      simp only [ne_eq, not_true_eq_false, if_false]
      rw [if_neg (by decide), if_pos trivial]
    | cons b t2 => simp at h; omega

theorem decL_run2 (n esc r a : Nat) (rest d : List Nat) (h0 : r ≠ 0) (hff : r ≠ 0xFF) (h : r ≥ 224) :
    decL n esc (esc :: r :: a :: rest) d
      = runStep n esc rest d (((((r - RUN_LEN_ENCODE1) <<< 8) ||| a) + RUN_LEN_ENCODE1) + (RUN_THRESHOLD - 1)) := by
  rw [decL.eq_def]
  simp only [ne_eq, not_true_eq_false, if_false, h0, hff, runStep]
  rw [if_pos (show r ≥ RUN_LEN_ENCODE1 from h)]

theorem decL_run2_short (n esc r : Nat) (d : List Nat) (h0 : r ≠ 0) (hff : r ≠ 0xFF) (h : r ≥ 224) :
    decL n esc [esc, r] d = .error "data" := by
  rw [decL.eq_def]
  simp only [ne_eq, not_true_eq_false, if_false, h0, hff]
  rw [if_pos (show r ≥ RUN_LEN_ENCODE1 from h)]

theorem decL_run1 (n esc r : Nat) (rest d : List Nat) (h0 : r ≠ 0) (h : r < 224) :
    decL n esc (esc :: r :: rest) d = runStep n esc rest d (r + (RUN_THRESHOLD - 1)) := by
  rw [decL.eq_def]
  have hff : r ≠ 0xFF := by omega
  have h2 : ¬ r ≥ RUN_LEN_ENCODE1 := by simp only [RUN_LEN_ENCODE1_eq]; omega
  simp only [ne_eq, not_true_eq_false, if_false, h0, hff, runStep]
  rw [if_neg h2]

theorem drop_cons (l : List Nat) (i : Nat) (h : i < l.length) : l.drop i = l[i] :: l.drop (i + 1) :=
  List.drop_eq_getElem_cons h

theorem get_toArray (l : List Nat) (i : Nat) (h : i < l.length) : l.toArray[i]? = some l[i] := by
  simp [List.getElem?_eq_getElem h]

/-- common end of the three run-token cases of `invLoop` -/
theorem inv_run_tail (l : List Nat) (n esc f i3 run : Nat) (out : Array Nat) (hout : out.size ≠ 0)
    (hih : ∀ out' : Array Nat, out'.size ≠ 0 →
      invFinish l.toArray (invLoop l.toArray n esc f i3 out') = liftE (decL n esc (l.drop i3) out'.toList)) :
    invFinish l.toArray
      (if run > MAX_RUN ∨ out.size + run ≥ n then .err "run"
       else if out.size = 0 then .fault "dst-index"
       else (wr n out (List.replicate run (out.getD (out.size - 1) 0))).bind
          fun o => invLoop l.toArray n esc f i3 o)
      = liftE (runStep n esc (l.drop i3) out.toList run) := by
  unfold runStep runBad
  have hsz : out.toList.length = out.size := Array.length_toList
  rw [getD_last, hsz]
  by_cases hb : run > MAX_RUN ∨ out.size + run ≥ n
  · simp only [hb, if_true, decide_true, invFinish, liftE, Out.bind_err]
  · simp only [hb, if_false, hout, decide_false, Bool.false_eq_true]
    rw [wr_ok n out _ (by simp only [List.length_replicate]; omega)]
    simp only [Out.bind_ok]
    rw [hih _ (by rw [size_appendList]; omega)]
    simp only [Array.toList_appendList]

/-- The index-based loop followed by the final `srcIdx != srcEnd` test computes `decL` on the rest of
    the input.  `hne`: a run token needs a previous output byte (`dst[dstIdx-1]`); Inverse enters the
    loop either after storing the leading escape literal or at a byte that is not the escape. -/
theorem invLoop_eq_decL (l : List Nat) (n esc : Nat) :
    ∀ (f i : Nat) (out : Array Nat), l.length - i ≤ f → i ≤ l.length →
      (out.size = 0 → l[i]? ≠ some esc) →
      invFinish l.toArray (invLoop l.toArray n esc f i out) = liftE (decL n esc (l.drop i) out.toList) := by
  intro f
  induction f with
  | zero =>
    intro i out hf hi _
    have : i = l.length := by omega
    subst this
    simp [invLoop, invFinish, decL_nil, liftE]
  | succ f ih =>
    intro i out hf hi hne
    have hsz : out.toList.length = out.size := Array.length_toList
    by_cases hlt : i < l.length
    · rw [drop_cons l i hlt, invLoop]
      simp only [List.size_toArray, hlt, if_true, get_toArray l i hlt]
      by_cases hx : l[i] ≠ esc
      · rw [decL_lit _ _ _ _ _ hx]
        simp only [hx, ne_eq, not_false_eq_true, if_true]
        by_cases hfull : out.size ≥ n
        · simp [hfull, invFinish, liftE]
        · simp only [hfull, if_false, hsz]
          rw [wr_ok n out [l[i]] (by simp; omega)]
          simp only [Out.bind_ok]
          rw [ih (i + 1) (out ++ [l[i]]) (by omega) (by omega) (by simp)]
          simp
      · have hx' : l[i] = esc := by simpa using hx
        have hout : out.size ≠ 0 := by
          intro h0; apply hne h0; rw [List.getElem?_eq_getElem hlt, hx']
        simp only [hx', ne_eq, not_true_eq_false, if_false]
        by_cases h1 : i + 1 < l.length
        · rw [drop_cons l (i + 1) h1]
          have n1 : ¬ (i + 1 ≥ l.length) := by omega
          simp only [n1, if_false, get_toArray l (i + 1) h1]
          by_cases hr0 : l[i + 1] = 0
          · rw [hr0, decL_esc0]
            simp only [if_true]
            by_cases hfull : out.size ≥ n
            · simp [hfull, invFinish, liftE]
            · simp only [hfull, if_false, hsz]
              rw [wr_ok n out [esc] (by simp; omega)]
              simp only [Out.bind_ok]
              rw [ih (i + 2) (out ++ [esc]) (by omega) (by omega) (by simp)]
              simp
          · simp only [hr0, if_false]
            have hih : ∀ i3, i + 2 ≤ i3 → i3 ≤ l.length → ∀ out' : Array Nat, out'.size ≠ 0 →
                invFinish l.toArray (invLoop l.toArray n esc f i3 out')
                  = liftE (decL n esc (l.drop i3) out'.toList) :=
              fun i3 h3 h3' out' ho => ih i3 out' (by omega) h3' (fun h => absurd h ho)
            by_cases hff : l[i + 1] = 0xFF
            · -- three-byte length
              rw [hff]
              by_cases h3 : i + 3 < l.length
              · have h2 : i + 2 < l.length := by omega
                rw [drop_cons l (i + 2) h2, drop_cons l (i + 3) h3, decL_runFF]
                have n3 : ¬ (i + 2 + 1 ≥ l.length) := by omega
                simp only [decodeRun, if_true, List.size_toArray, n3, if_false,
                  get_toArray l (i + 2) h2, get_toArray l (i + 3) h3, Out.bind_ok]
                exact inv_run_tail l n esc f (i + 2 + 2) _ out hout (hih _ (by omega) (by omega))
              · rw [decL_runFF_short _ _ _ _ (by rw [List.length_drop]; omega)]
                have n3 : i + 2 + 1 ≥ l.length := by omega
                simp only [decodeRun, if_true, List.size_toArray, n3, Out.bind_err, invFinish, liftE]
            · by_cases h224 : l[i + 1] ≥ RUN_LEN_ENCODE1
              · -- two-byte length
                by_cases h2 : i + 2 < l.length
                · rw [drop_cons l (i + 2) h2, decL_run2 _ _ _ _ _ _ hr0 hff h224]
                  have n2 : ¬ (i + 2 ≥ l.length) := by omega
                  rw [decodeRun]
                  simp only [hff, if_false, h224, if_true,
                    List.size_toArray, n2, get_toArray l (i + 2) h2, Out.bind_ok]
                  exact inv_run_tail l n esc f (i + 2 + 1) _ out hout (hih _ (by omega) (by omega))
                · have hnil : l.drop (i + 2) = [] := List.drop_eq_nil_of_le (by omega)
                  rw [hnil, decL_run2_short _ _ _ _ hr0 hff h224]
                  have n2 : i + 2 ≥ l.length := by omega
                  rw [decodeRun]
                  simp only [hff, if_false, h224, if_true,
                    List.size_toArray, n2, Out.bind_err, invFinish, liftE]
              · -- one-byte length
                rw [decL_run1 _ _ _ _ _ hr0 (by simp only [RUN_LEN_ENCODE1_eq] at h224; omega)]
                rw [decodeRun]
                simp only [hff, if_false, h224, Out.bind_ok]
                exact inv_run_tail l n esc f (i + 2) _ out hout (hih _ (by omega) (by omega))
        · have hnil : l.drop (i + 1) = [] := List.drop_eq_nil_of_le (by omega)
          rw [hnil, decL_esc_end]
          have : i + 1 ≥ l.length := by omega
          simp [this, invFinish, liftE]
    · have : i = l.length := by omega
      subst this
      simp [invLoop, invFinish, decL_nil, liftE]

/-! ## the whole of `rltInverse` -/

theorem invLoop_done (src : Array Nat) (n esc f i : Nat) (out : Array Nat) (h : src.size ≤ i) :
    invLoop src n esc f i out = .ok (i, out) := by
  have : ¬ i < src.size := by omega
  cases f <;> simp [invLoop, this]

/-- Inverse of an input that starts with `esc, x` where `x` is not the escape: the loop starts at `x` -/
theorem rltInverse_lit (esc x n : Nat) (rest : List Nat) (hx : x ≠ esc) (hn : n ≠ 0) :
    rltInverse (esc :: x :: rest) n = liftE (decL n esc (x :: rest) []) := by
  unfold rltInverse
  have h1 : ¬ ((esc :: x :: rest).length = 0 ∨ n = 0) := by simp [hn]
  have h2 : ¬ ((esc :: x :: rest).length < 2) := by simp
  simp only [h1, h2, if_false]
  have h := invLoop_eq_decL (esc :: x :: rest) n esc (esc :: x :: rest).length 1 #[]
    (by simp) (by simp) (by intro _; simp [hx])
  simp only [List.drop_succ_cons, List.drop_zero] at h
  simpa [hx] using h

/-- Inverse of an input that starts with `esc, esc, 0` (escape literal first) -/
theorem rltInverse_esc (esc n : Nat) (rest : List Nat) (hn : n ≠ 0) :
    rltInverse (esc :: esc :: 0 :: rest) n = liftE (decL n esc rest [esc]) := by
  unfold rltInverse
  have h1 : ¬ ((esc :: esc :: 0 :: rest).length = 0 ∨ n = 0) := by simp [hn]
  have h2 : ¬ ((esc :: esc :: 0 :: rest).length < 2) := by simp
  simp only [h1, h2, if_false]
  have h := invLoop_eq_decL (esc :: esc :: 0 :: rest) n esc (esc :: esc :: 0 :: rest).length 3 #[esc]
    (by simp only [List.length_cons]; omega) (by simp only [List.length_cons]; omega) (by simp)
  simp only [List.drop_succ_cons, List.drop_zero] at h
  have hw : wr n #[] [esc] = .ok #[esc] := by rw [wr_ok _ _ _ (by simp; omega)]; rfl
  simpa [hw] using h

/-- C13_rlt_total, Inverse part: no input and no destination size makes the Go code index out of
    range (and the fuel of the model loop is sufficient) -/
theorem rltInverse_ne_fault (src : List Nat) (n : Nat) (e : String) : rltInverse src n ≠ .fault e := by
  unfold rltInverse
  by_cases h1 : src.length = 0 ∨ n = 0
  · rw [if_pos h1]; simp
  · simp only [h1, if_false]
    by_cases h2 : src.length < 2
    · rw [if_pos h2]; simp
    · simp only [h2, if_false]
      match src, h2 with
      | [], h2 => simp at h2
      | [_], h2 => simp at h2
      | esc :: x :: rest, _ =>
        have hn : n ≠ 0 := fun h => h1 (Or.inr h)
        simp only [List.getElem?_toArray, List.getElem?_cons_zero, List.getElem?_cons_succ]
        by_cases hx : x = esc
        · subst hx
          simp only [if_true]
          have hw : wr n #[] [x] = .ok #[x] := by rw [wr_ok _ _ _ (by simp; omega)]; rfl
          cases rest with
          | nil =>
            simp only [List.size_toArray, List.length_cons, List.length_nil, hw, Out.bind_ok]
            rw [invLoop_done _ _ _ _ _ _ (by simp)]
            simp [invFinish]
          | cons z rest' =>
            by_cases hz : z = 0
            · subst hz
              have h := invLoop_eq_decL (x :: x :: 0 :: rest') n x (x :: x :: 0 :: rest').length 3 #[x]
                (by simp only [List.length_cons]; omega) (by simp only [List.length_cons]; omega) (by simp)
              simp only [List.size_toArray, List.getElem?_cons_zero, hw, Out.bind_ok]
              simp only [ne_eq, not_true_eq_false, and_false, if_false]
              rw [h]; exact liftE_ne_fault _ _
            · simp [hz]
        · simp only [hx, if_false]
          have h := invLoop_eq_decL (esc :: x :: rest) n esc (esc :: x :: rest).length 1 #[]
            (by simp) (by simp) (by intro _; simp [hx])
          simp only [List.size_toArray]
          rw [h]; exact liftE_ne_fault _ _

end Kanzi.RLT
