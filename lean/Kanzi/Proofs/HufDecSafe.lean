/-
Proofs about the total model of the Huffman decoder, part 2 (property C03): which index panics are
reachable.  `readState` never reads outside `this.buffer` (any table `buildDecodingTable` can build,
any buffer of at least `2*count` and 256 bytes, any content); `readLengths` /
`generateCanonicalCodes` never fault on what `DecodeAlphabet` delivers.
-/
import Kanzi.Proofs.HufDecTotal
import Kanzi.Proofs.HufCanon

namespace Kanzi.HufDec
open Kanzi.Bits Kanzi.EntSmall Kanzi.Huffman

/-! ### A. `readState` stays inside the buffer -/

/-- every entry of the decoding table consumes 1..12 bits -/
def TableOK (tbl : Array Nat) : Prop :=
  ∀ i, i < 4096 → 1 ≤ tbl.getD i 0 % 256 ∧ tbl.getD i 0 % 256 ≤ 12

theorem look_ok (tbl : Array Nat) (h : TableOK tbl) (st bs : Nat) :
    1 ≤ look tbl st bs % 256 ∧ look tbl st bs % 256 ≤ 12 := by
  unfold look
  exact h _ (Nat.and_lt_two_pow _ (by decide : 0xFFF < 2 ^ 12))

theorem rsShift_facts : ∀ b, b < 57 → 49 ≤ b + rsShift b ∧ b + rsShift b ≤ 56 := by decide

theorem bits_step (bits sh c0 c1 c2 c3 : Nat) (h : 49 ≤ bits + sh ∧ bits + sh ≤ 56)
    (h0 : 1 ≤ c0 % 256 ∧ c0 % 256 ≤ 12) (h1 : 1 ≤ c1 % 256 ∧ c1 % 256 ≤ 12)
    (h2 : 1 ≤ c2 % 256 ∧ c2 % 256 ≤ 12) (h3 : 1 ≤ c3 % 256 ∧ c3 % 256 ≤ 12) :
    (subBs (subBs (subBs (subBs ((bits + sh + 256 - 12) % 256) c0) c1) c2) c3 + 12) % 256 ≤ 52 := by
  simp only [subBs]
  omega

theorem decGroup_facts (tbl buf : Array Nat) (h : TableOK tbl) (d : DS) (hb : d.bits ≤ 56) :
    (decGroup tbl buf d).2.bits ≤ 52 ∧ (decGroup tbl buf d).2.idx ≤ d.idx + 7 := by
  have hs := rsShift_facts d.bits (by omega)
  have key := look_ok tbl h
  constructor
  · unfold decGroup readState
    simp only []
    exact bits_step _ _ _ _ _ _ hs (key _ _) (key _ _) (key _ _) (key _ _)
  · unfold decGroup readState
    simp only [Nat.shiftRight_eq_div_pow]
    omega

theorem decFragReads_bound (tbl buf : Array Nat) (h : TableOK tbl) : ∀ (f rem : Nat) (d : DS),
    d.bits ≤ 56 → ∀ i ∈ decFragReads tbl buf f rem d, i ≤ d.idx + 7 * (rem / 4) := by
  intro f
  induction f with
  | zero =>
    intro rem d _ i hi
    simp only [decFragReads, List.mem_singleton] at hi
    omega
  | succ f ih =>
    intro rem d hb i hi
    unfold decFragReads at hi
    split at hi
    · rename_i hr
      rcases List.mem_cons.mp hi with e | hi
      · omega
      · have hf := decGroup_facts tbl buf h d hb
        have := ih (rem - 4) (decGroup tbl buf d).2 (by omega) i hi
        omega
    · simp only [List.mem_singleton] at hi
      omega

theorem readsOkAt_true (tbl buf : Array Nat) (h : TableOK tbl) (szFrag off : Nat)
    (hb : off + 7 * (szFrag / 4) + 8 ≤ buf.size) : readsOkAt tbl buf szFrag off = true := by
  unfold readsOkAt
  rw [List.all_eq_true]
  intro i hi
  have := decFragReads_bound tbl buf h szFrag szFrag ⟨0, off, 0⟩ (by simp) i hi
  simp only [decide_eq_true_eq]
  simp only [] at this
  omega

def R.isFault {α : Type} : R α → Bool
  | .fault => true
  | _ => false

theorem bind_nofault {α β : Type} (r : R α) (f : α → R β) (h1 : r.isFault = false)
    (h2 : ∀ a, r = .ok a → (f a).isFault = false) : (r.bind f).isFault = false := by
  cases r <;> simp_all [R.bind, R.isFault]

theorem loadAt_nofault (off sz : Nat) (buf : Array Nat) (bs : Bits) : (loadAt off sz buf bs).isFault = false := by
  unfold loadAt
  split
  · rfl
  · split <;> rfl

theorem read4_nofault (bs : Bits) : (read4 bs).isFault = false := by
  unfold read4
  repeat (first | rfl | split)

theorem load4_nofault (z : Nat × Nat × Nat × Nat) (buf : Array Nat) (bs : Bits) :
    (load4 z buf bs).isFault = false := by
  unfold load4
  apply bind_nofault _ _ (loadAt_nofault _ _ _ _); intro a _
  apply bind_nofault _ _ (loadAt_nofault _ _ _ _); intro b _
  apply bind_nofault _ _ (loadAt_nofault _ _ _ _); intro c _
  apply bind_nofault _ _ (loadAt_nofault _ _ _ _); intro d _
  rfl

/-- `decodeChunkV6` has no index panic: any table with entries 1..12, any buffer content -/
theorem chunkV6_nofault (tbl : Array Nat) (h : TableOK tbl) (count : Nat) (buf : Array Nat) (bs : Bits)
    (hL : 256 ≤ buf.size) (hc : 2 * count ≤ buf.size) : (chunkV6 tbl count buf bs).isFault = false := by
  unfold chunkV6
  apply bind_nofault _ _ (read4_nofault _); intro z _
  apply bind_nofault _ _ (load4_nofault _ _ _); intro b hb
  have hs := load4_size _ _ _ _ hb
  have h0 := readsOkAt_true tbl b.1 h (count / 4) 0 (by omega)
  have h1 := readsOkAt_true tbl b.1 h (count / 4) (buf.size / 4) (by omega)
  have h2 := readsOkAt_true tbl b.1 h (count / 4) (2 * (buf.size / 4)) (by omega)
  have h3 := readsOkAt_true tbl b.1 h (count / 4) (3 * (buf.size / 4)) (by omega)
  rw [h0, h1, h2, h3]
  simp only [and_self, not_true_eq_false, if_false]
  split <;> rfl

/-! ### B. the table `buildDecodingTable` builds -/

def TblL (tbl : List Nat) : Prop := tbl.length = 4096 ∧ ∀ v ∈ tbl, 1 ≤ v % 256 ∧ v % 256 ≤ 12

theorem shl8_or_mod (s z : Nat) (hz : z < 256) : ((s <<< 8) ||| z) % 256 = z := by
  show ((s <<< 8) ||| z) % 2 ^ 8 = z
  rw [Nat.or_mod_two_pow, Nat.shiftLeft_eq, Nat.mul_mod_left, Nat.zero_or, Nat.mod_eq_of_lt hz]

theorem fillTable_TblL (tbl : List Nat) (i e v : Nat) (h : TblL tbl) (hie : i ≤ e) (he : e ≤ 4096)
    (hv : 1 ≤ v % 256 ∧ v % 256 ≤ 12) : TblL (fillTable tbl i e v) := by
  refine ⟨by rw [fillTable_length tbl i e v hie (by rw [h.1]; exact he)]; exact h.1, ?_⟩
  intro w hw
  simp only [fillTable, List.mem_append] at hw
  rcases hw with (hw | hw) | hw
  · exact h.2 w (List.mem_of_mem_take hw)
  · rw [List.eq_of_mem_replicate hw]; exact hv
  · exact h.2 w (List.mem_of_mem_drop hw)

theorem buildTableLoopR_TblL (sizes codes : List Nat) : ∀ (a : List Nat) (l : Nat) (tbl t : List Nat),
    (∀ s ∈ a, 1 ≤ sizes.getD s 0) → TblL tbl → buildTableLoopR sizes codes a l tbl = .ok t → TblL t := by
  intro a
  induction a with
  | nil =>
    intro l tbl t _ ht h
    simp only [buildTableLoopR] at h
    cases h; exact ht
  | cons s ss ih =>
    intro l tbl t hsz ht h
    unfold buildTableLoopR at h
    split at h
    · cases h
    · split at h
      · cases h
      · split at h
        · cases h
        · rename_i h1 h2 h3
          refine ih _ _ _ (fun x hx => hsz x (List.mem_cons_of_mem _ hx)) ?_ h
          have hs1 := hsz s List.mem_cons_self
          apply fillTable_TblL _ _ _ _ ht (by omega) (by omega)
          rw [shl8_or_mod _ _ (by omega)]
          omega

theorem TblL_TableOK (t : List Nat) (h : TblL t) : TableOK t.toArray := by
  intro i hi
  have hl : i < t.length := by rw [h.1]; exact hi
  have : t.toArray.getD i 0 = t[i] := by simp [Array.getD, hl]
  rw [this]
  exact h.2 _ (List.getElem_mem hl)

theorem replicate7_TblL : TblL (List.replicate 4096 7) := by
  refine ⟨by rw [List.length_replicate], ?_⟩
  intro v hv
  rw [List.eq_of_mem_replicate hv]
  decide

/-! ### C. `readLengths` does not fault -/

def SzOK (sizes : List Nat) : Prop := sizes.length = 256 ∧ ∀ v ∈ sizes, 1 ≤ v ∧ v ≤ 12

theorem SzOK_getD (sizes : List Nat) (h : SzOK sizes) (s : Nat) (hs : s < 256) :
    1 ≤ sizes.getD s 0 ∧ sizes.getD s 0 ≤ 12 := by
  have hl : s < sizes.length := by rw [h.1]; exact hs
  have : sizes.getD s 0 = sizes[s] := by simp [List.getD_eq_getElem?_getD, hl]
  rw [this]
  exact h.2 _ (List.getElem_mem hl)

theorem readSizesR_SzOK : ∀ (a : List Nat) (cur : Nat) (bs : Bits) (sizes : List Nat) (x : List Nat × Bits),
    SzOK sizes → readSizesR a cur bs sizes = .ok x → SzOK x.1 := by
  intro a
  induction a with
  | nil =>
    intro cur bs sizes x hs h
    simp only [readSizesR] at h
    cases h; exact hs
  | cons s ss ih =>
    intro cur bs sizes x hs h
    unfold readSizesR at h
    split at h
    · cases h
    · split at h
      · cases h
      · rename_i hc
        refine ih _ _ _ x ?_ h
        refine ⟨by rw [List.length_set]; exact hs.1, ?_⟩
        intro v hv
        rcases List.mem_or_eq_of_mem_set hv with hv | hv
        · exact hs.2 v hv
        · omega

theorem readSizesR_nofault : ∀ (a : List Nat) (cur : Nat) (bs : Bits) (sizes : List Nat),
    (readSizesR a cur bs sizes).isFault = false := by
  intro a
  induction a with
  | nil => intro cur bs sizes; simp [readSizesR, R.isFault]
  | cons s ss ih =>
    intro cur bs sizes
    unfold readSizesR
    split
    · rfl
    · split
      · rfl
      · exact ih _ _ _

theorem replicate8_SzOK : SzOK (List.replicate 256 8) := by
  refine ⟨by rw [List.length_replicate], ?_⟩
  intro v hv
  rw [List.eq_of_mem_replicate hv]
  decide

theorem generateCanonicalCodes_some (sizes codes a : List Nat) (hp : a.Pairwise (· < ·))
    (h256 : ∀ s ∈ a, s < 256) (hs : SzOK sizes) : generateCanonicalCodes sizes codes a ≠ none := by
  have hsz : ∀ s ∈ a, 1 ≤ sizes.getD s 0 ∧ sizes.getD s 0 ≤ 12 := fun s hm => SzOK_getD sizes hs s (h256 s hm)
  unfold generateCanonicalCodes
  split
  · simp
  · split
    · simp
    · split
      · rename_i hany
        rw [List.any_eq_true] at hany
        obtain ⟨s, hm, hb⟩ := hany
        have := hsz s hm
        have := h256 s hm
        simp only [Bool.or_eq_true, decide_eq_true_eq] at hb
        omega
      · split
        · rename_i hne
          exact absurd (canonOrder_perm sizes a (Kanzi.AnsDec.sorted_nodup a hp) h256 hsz).length_eq hne
        · simp

/-- what `readLengths` delivers when it succeeds -/
def RLOK (rl : RL) : Prop := ∀ s ∈ rl.alphabet, 1 ≤ rl.sizes.getD s 0 ∧ rl.sizes.getD s 0 ≤ 12

theorem readLengthsR_facts (bs : Bits) :
    (readLengthsR bs).isFault = false ∧ ∀ x, readLengthsR bs = .ok x → RLOK x.1 := by
  unfold readLengthsR
  cases hda : decodeAlphabet bs with
  | none => exact ⟨rfl, fun x h => by cases h⟩
  | some y =>
    obtain ⟨a, r⟩ := y
    have hf := Kanzi.AnsDec.decodeAlphabet_facts bs a r hda
    simp only []
    split
    · refine ⟨rfl, fun x h => ?_⟩
      cases h
      intro s hs
      cases hs
    · have hq := readSizesR_SzOK a 2 r (List.replicate 256 8)
      have hnf := readSizesR_nofault a 2 r (List.replicate 256 8)
      generalize readSizesR a 2 r (List.replicate 256 8) = q at hq hnf
      cases q with
      | fault => simp [R.isFault] at hnf
      | ok p =>
        have hs := hq p replicate8_SzOK rfl
        simp only [R.bind]
        have hg := generateCanonicalCodes_some p.1 (List.replicate 256 0) a hf.1 hf.2 hs
        cases hgc : generateCanonicalCodes p.1 (List.replicate 256 0) a with
        | none => exact absurd hgc hg
        | some y =>
          obtain ⟨codes, ord⟩ := y
          refine ⟨rfl, fun x h => ?_⟩
          cases h
          intro s hm
          -- `ord` is `a` or `canonOrder p.1 a`: its symbols are below 256
          have h256 : s < 256 := by
            unfold generateCanonicalCodes at hgc
            split at hgc
            · cases hgc; exact hf.2 s hm
            · split at hgc
              · cases hgc; exact hf.2 s hm
              · split at hgc
                · cases hgc
                · split at hgc
                  · cases hgc
                  · cases hgc
                    exact ((mem_canonOrder p.1 a s).mp hm).1
          exact SzOK_getD p.1 hs s h256
      | _ => exact ⟨rfl, fun x h => by cases h⟩

end Kanzi.HufDec

namespace Kanzi.HufDec
open Kanzi.Bits Kanzi.EntSmall Kanzi.Huffman

/-! ### D. `buildDecodingTable` does not fault: the `uint16` arithmetic never wraps before the
first tile that leaves the 4096 indexes, and that one is answered `return false` -/

/-- as `Huffman.CodesOk`, but only as far as the tiles stay within the 4096 indexes: no Kraft
    hypothesis (forged lengths) -/
def CodesOkP (sizes codes : List Nat) : List Nat → Nat → Prop
  | [], _ => True
  | s :: ss, P => P ≤ 4096 → (codes.getD s 0 * slotW sizes s = P ∧ CodesOkP sizes codes ss (P + slotW sizes s))

theorem assignCodes_okP (sizes : List Nat) : ∀ (ord : List Nat) (code cur P : Nat) (codes : List Nat),
    Chain sizes ord cur → cur ≤ 12 → (P ≤ 4096 → code * 2 ^ (12 - cur) = P) →
    ord.Nodup → (∀ s ∈ ord, s < codes.length) →
    CodesOkP sizes (assignCodes sizes ord code cur codes) ord P := by
  intro ord
  induction ord with
  | nil => intros; trivial
  | cons s ss ih =>
    intro code cur P codes hch hcur hPi hnd hlen
    obtain ⟨h1, h2, h3⟩ := hch
    have hs : s < codes.length := hlen s List.mem_cons_self
    have hnd' := List.nodup_cons.mp hnd
    simp only [assignCodes, CodesOkP]
    intro hP4
    have hP := hPi hP4
    have hk : (sizes.getD s 0 + 256 - cur) % 256 = sizes.getD s 0 - cur := by omega
    rw [hk]
    have hc0 : (code <<< (sizes.getD s 0 - cur)) * slotW sizes s = P := by
      rw [Nat.shiftLeft_eq, slotW, Nat.mul_assoc, ← Nat.pow_add,
        show sizes.getD s 0 - cur + (12 - sizes.getD s 0) = 12 - cur by omega]
      exact hP
    have hpos := slotW_pos sizes s
    have hlt : code <<< (sizes.getD s 0 - cur) ≤ 4096 := by
      have : code <<< (sizes.getD s 0 - cur) ≤ (code <<< (sizes.getD s 0 - cur)) * slotW sizes s :=
        Nat.le_mul_of_pos_right _ hpos
      omega
    rw [Nat.mod_eq_of_lt (show code <<< (sizes.getD s 0 - cur) < 65536 by omega),
        Nat.mod_eq_of_lt (show code <<< (sizes.getD s 0 - cur) + 1 < 65536 by omega)]
    have ihh := ih (code <<< (sizes.getD s 0 - cur) + 1) (sizes.getD s 0) (P + slotW sizes s)
      (codes.set s (code <<< (sizes.getD s 0 - cur))) h3 h2
      (fun _ => by rw [Nat.add_mul, Nat.one_mul]; rw [slotW] at hc0; rw [hc0, slotW]) hnd'.2
      (fun x hx => by rw [List.length_set]; exact hlen x (List.mem_cons_of_mem _ hx))
    refine ⟨?_, ihh⟩
    rw [assignCodes_frame _ _ _ _ _ _ hnd'.1, getD_set_self _ _ _ hs]
    exact hc0

theorem buildTableLoopR_nofault (sizes codes : List Nat) : ∀ (ord : List Nat) (len P : Nat) (tbl : List Nat),
    Chain sizes ord len → P ≤ 4096 → CodesOkP sizes codes ord P →
    (buildTableLoopR sizes codes ord len tbl).isFault = false := by
  intro ord
  induction ord with
  | nil => intros; rfl
  | cons s ss ih =>
    intro len P tbl hch hP hc
    obtain ⟨h1, h2, h3⟩ := hch
    have hcc := hc hP
    have hmax : max len (sizes.getD s 0) = sizes.getD s 0 := Nat.max_eq_right h1
    have hw : slotW sizes s ≤ 4096 := by
      rw [slotW, show (4096 : Nat) = 2 ^ 12 by rfl]
      exact Nat.pow_le_pow_right (by decide) (by omega)
    have hidx : (codes.getD s 0 <<< (12 - sizes.getD s 0)) % 65536 = P := by
      rw [Nat.shiftLeft_eq]
      have := hcc.1
      rw [slotW] at this
      rw [this]
      exact Nat.mod_eq_of_lt (by omega)
    have hend : (P + 2 ^ (12 - sizes.getD s 0)) % 65536 = P + slotW sizes s := by
      rw [slotW]; rw [slotW] at hw
      exact Nat.mod_eq_of_lt (by omega)
    simp only [buildTableLoopR, hmax, hidx, hend]
    rw [if_neg (by omega)]
    split
    · rfl
    · rw [if_neg (by omega)]
      exact ih _ _ _ h3 (by omega) hcc.2

theorem generateCanonicalCodes_okP (sizes a codes' ord : List Nat) (hp : a.Pairwise (· < ·))
    (h256 : ∀ s ∈ a, s < 256) (hs : SzOK sizes)
    (h : generateCanonicalCodes sizes (List.replicate 256 0) a = some (codes', ord)) :
    Chain sizes ord (sizes.getD (ord.headD 0) 0) ∧ CodesOkP sizes codes' ord 0 := by
  have hsz : ∀ s ∈ a, 1 ≤ sizes.getD s 0 ∧ sizes.getD s 0 ≤ 12 := fun s hm => SzOK_getD sizes hs s (h256 s hm)
  have hnd := Kanzi.AnsDec.sorted_nodup a hp
  unfold generateCanonicalCodes at h
  split at h
  · rename_i hl
    cases h
    have : a = [] := List.eq_nil_of_length_eq_zero hl
    subst this
    exact ⟨trivial, trivial⟩
  · split at h
    · rename_i hl
      cases h
      obtain ⟨x, rfl⟩ := List.length_eq_one_iff.mp hl
      have hx := hsz x List.mem_cons_self
      have hch : Chain sizes [x] (sizes.getD ([x].headD 0) 0) := ⟨Nat.le_refl _, hx.2, trivial⟩
      exact ⟨hch, assignCodes_okP sizes [x] 0 _ 0 _ hch hx.2 (fun _ => by simp) hnd
        (fun s hm => by rw [List.length_replicate]; exact h256 s hm)⟩
    · split at h
      · cases h
      · split at h
        · cases h
        · cases h
          have hch := canonOrder_chain sizes a hsz
          have h0 : sizes.getD ((canonOrder sizes a).headD 0) 0 ≤ 12 := by
            cases hco : canonOrder sizes a with
            | nil => exact (SzOK_getD sizes hs 0 (by decide)).2
            | cons y ys =>
              have hm : y ∈ canonOrder sizes a := by rw [hco]; exact List.mem_cons_self
              have := (mem_canonOrder sizes a y).mp hm
              exact (hsz y this.2.1).2
          exact ⟨hch, assignCodes_okP sizes _ 0 _ 0 _ hch h0 (fun _ => by simp) (canonOrder_nodup sizes a)
            (fun s hm => by rw [List.length_replicate]; exact ((mem_canonOrder sizes a s).mp hm).1)⟩

/-- the table of any header `readLengths` accepts is built without a panic (possibly refused) -/
theorem buildTableR_nofault (bs : Bits) (x : RL × Bits) (h : readLengthsR bs = .ok x) :
    (buildTableR x.1).isFault = false := by
  unfold readLengthsR at h
  cases hda : decodeAlphabet bs with
  | none => rw [hda] at h; cases h
  | some y =>
    obtain ⟨a, r⟩ := y
    have hf := Kanzi.AnsDec.decodeAlphabet_facts bs a r hda
    rw [hda] at h
    simp only [] at h
    split at h
    · cases h; rfl
    · obtain ⟨p, hp, h⟩ := bind_ok _ _ _ h
      have hs := readSizesR_SzOK a 2 r (List.replicate 256 8) p replicate8_SzOK hp
      cases hgc : generateCanonicalCodes p.1 (List.replicate 256 0) a with
      | none => rw [hgc] at h; cases h
      | some z =>
        obtain ⟨codes, ord⟩ := z
        rw [hgc] at h
        cases h
        have hk := generateCanonicalCodes_okP p.1 a codes ord hf.1 hf.2 hs hgc
        unfold buildTableR
        simp only []
        -- `Chain` from 0 as well: the loop starts with `length = 0`
        cases ord with
        | nil => rfl
        | cons y ys =>
          have hc := hk.1
          simp only [List.headD_cons] at hc
          exact buildTableLoopR_nofault p.1 codes (y :: ys) 0 0 _ ⟨Nat.zero_le _, hc.2.1, hc.2.2⟩ (by omega) hk.2

end Kanzi.HufDec

namespace Kanzi.HufDec
open Kanzi.Bits Kanzi.EntSmall Kanzi.Huffman

/-! ### E. version 6: no index panic at all -/

def StepSafe (L : Nat) : Step → Prop
  | .done r => r.cls ≠ .stop .fault
  | .next _ _ b _ => b.size = L

theorem stepV6_safe (p : Params) (L : Nat) (hL : 256 ≤ L) (hcs : 2 * p.chunkSize ≤ L) (start total : Nat)
    (out buf : Array Nat) (bs : Bits) (hb : buf.size = L) : StepSafe L (stepV6 p start total out buf bs) := by
  unfold stepV6
  simp only []
  split
  · split
    · exact (by simp : Cls.stop Stop.eos ≠ Cls.stop Stop.fault)
    · exact hb
  · have h1 := readLengthsR_facts bs
    cases hq : readLengthsR bs with
    | ok x =>
      obtain ⟨rl, r⟩ := x
      have hrl : RLOK rl := h1.2 (rl, r) hq
      have h2 := buildTableR_nofault bs (rl, r) hq
      simp only [] at h2 ⊢
      split
      · exact (by simp : Cls.ret start false ≠ Cls.stop Stop.fault)
      · split
        · exact hb
        · cases hq2 : buildTableR rl with
          | ok tbl =>
            simp only []
            have htl : TblL tbl := by
              unfold buildTableR at hq2
              exact buildTableLoopR_TblL _ _ _ _ _ tbl (fun s hs => (hrl s hs).1) replicate7_TblL hq2
            have h3 := chunkV6_nofault tbl.toArray (TblL_TableOK tbl htl) (min p.chunkSize (total - start)) buf r
              (by omega) (by omega)
            have h4 := chunkV6_size tbl.toArray (min p.chunkSize (total - start)) buf r
            generalize chunkV6 tbl.toArray (min p.chunkSize (total - start)) buf r = q3 at h3 h4
            cases q3 with
            | ok c => exact (by rw [h4 c rfl]; exact hb : c.2.1.size = L)
            | fault => simp [R.isFault] at h3
            | err => exact (by simp : Cls.ret start true ≠ Cls.stop Stop.fault)
            | _ => simp [StepSafe, stopOf]
          | fault => rw [hq2] at h2; simp [R.isFault] at h2
          | err => exact (by simp : Cls.ret start true ≠ Cls.stop Stop.fault)
          | _ => simp [StepSafe, stopOf]
    | fault => rw [hq] at h1; simp [R.isFault] at h1
    | err => exact (by simp : Cls.ret start true ≠ Cls.stop Stop.fault)
    | _ => simp [StepSafe, stopOf]

theorem readLoop_safe (p : Params) (total L : Nat) (hv : ¬ p.bsVersion < 6) (hL : 256 ≤ L)
    (hcs : 2 * p.chunkSize ≤ L) : ∀ (fuel start : Nat) (out buf : Array Nat) (bs : Bits), buf.size = L →
    (readLoop p total fuel start out buf bs).cls ≠ .stop .fault := by
  intro fuel
  induction fuel with
  | zero => intro start out buf bs _; simp [readLoop]
  | succ fuel ih =>
    intro start out buf bs hb
    unfold readLoop
    split
    · simp
    · have hs := stepV6_safe p L hL hcs start total out buf bs hb
      generalize stepV6 p start total out buf bs = st at hs
      cases st with
      | done r => exact hs
      | next s o b r => exact ih s o b r hs

/-- version 6: no `Read` ends in an index panic, whatever the input and the state of the object -/
theorem read_v6_safe (p : Params) (hcs : 128 ≤ p.chunkSize) (hv : ¬ p.bsVersion < 6) (s : St) (bs : Bits)
    (count : Nat) : (read p s bs count).cls ≠ .stop .fault := by
  unfold read
  split
  · simp
  · have hsz := v6Alloc_size p.chunkSize s.buf
    exact readLoop_safe p count (v6Alloc p.chunkSize s.buf).size hv (by rw [hsz]; split <;> omega)
      (by rw [hsz]; split <;> omega) _ 0 _ _ bs rfl

end Kanzi.HufDec
