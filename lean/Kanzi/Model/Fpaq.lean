/-
Model of the FPAQ entropy codec of kanzi-go (property C12):

  v2/entropy/FPAQCodec.go   FPAQEncoder (encodeBit, flush, Write, Dispose)
                            FPAQDecoder (decodeBitV2, read, Read; bitstream version ≥ 4)

FPAQ is the binary arithmetic coder of BinaryEntropyCodec.go (same 56-bit interval, same flush /
read of 32 bits, same VarInt + array + 56-bit trailer layout of a chunk) with
  * a built-in adaptive model: 4 tables of 256 16-bit probabilities; the table is chosen by the top
    two bits of the previous byte (table 0 at the start of every chunk), the entry by the bits of
    the current byte seen so far (1, 1b7, 1b7b6, …);  `p += / -= … >> 6`;
  * the split `(((high - low) >> 8) * p) >> 8` (16-bit `p`): `Pred.shift = 8`;
  * its own chunking: chunks of `_FPAQ_DEFAULT_CHUNK_SIZE` = 4 MiB, encoder buffer
    `chunkSize + chunkSize>>3` (grown by `flush` when needed, repair 1e1b76f), decoder buffer `max(sz + sz>>2, 1024)` with 8 zeroed guard bytes
    behind the payload, and the decoder's test `szBytes >= 2*len(block)` ("Invalid chunk size").
The model therefore REUSES `Kanzi.BinEnt.Enc` / `Dec` and their bit / byte functions with the FPAQ
predictor `fpaqP`, and adds the FPAQ framing.  The decoder path for bitstream version 3
(`decodeBitV1`) is not modelled.  Core Lean only.
-/
import Kanzi.Model.BinEnt

namespace Kanzi.Fpaq
open Kanzi.Bits Kanzi.EntSmall Kanzi.BinEnt

def PSCALE : Nat := 65536            -- _FPAQ_PSCALE
def DEFAULT_CHUNK : Nat := 4194304   -- _FPAQ_DEFAULT_CHUNK_SIZE
def MAX_BLOCK : Nat := 1073741824    -- 1 << 30

/-- the adaptive model: `probs[t][i]` is entry `256·t + i` -/
structure FState where
  probs : Array Nat
  /-- the table `p` points to (`this.probs[t]`) -/
  t : Nat
  /-- index in the table: the bits of the current byte seen so far, behind a leading 1 -/
  ctx : Nat

/-- `NewFPAQEncoder` / `NewFPAQDecoder`: every probability `_FPAQ_PSCALE >> 1`, table 0, index 1 -/
def FState.init : FState := { probs := Array.replicate 1024 32768, t := 0, ctx := 1 }

/-- bit 0: `*p -= (*p >> 6)`; bit 1: `*p -= ((*p - _FPAQ_PSCALE + 64) >> 6)` (signed `int`,
    arithmetic shift: `floor`) -/
def adapt (p : Nat) (bit : Bool) : Nat :=
  if bit then (if p ≤ 65472 then p + (65472 - p + 63) / 64 else p - (p - 65472) / 64)
  else p - (p >>> 6)

def FState.get (s : FState) : Nat := s.probs.getD (256 * s.t + s.ctx) 0

/-- one coded bit: adapt `probs[t][ctx]`, then `ctx += ctx + bit`; after the 8th bit of a byte
    `p = probs[byte >> 6]` and the index restarts at 1 -/
def FState.update (s : FState) (bit : Bool) : FState :=
  { probs := s.probs.setIfInBounds (256 * s.t + s.ctx) (adapt s.get bit),
    t := if 2 * s.ctx + bit.toNat ≥ 256 then ((2 * s.ctx + bit.toNat) % 256) >>> 6 else s.t,
    ctx := if 2 * s.ctx + bit.toNat ≥ 256 then 1 else 2 * s.ctx + bit.toNat }

/-- FPAQ as a predictor of the generic coder (16-bit probabilities, first shift 8) -/
def fpaqP : Pred FState := { get := FState.get, update := FState.update, shift := 8 }

/-- `p := this.probs[0]` at the start of every chunk -/
def FState.chunkStart (s : FState) : FState := { s with t := 0 }

/-! ### encoder -/

/-- the chunk loop of `FPAQEncoder.Write`; `blk` = `block[startChunk:]`, `C` = chunk size -/
def fWriteChunks (C : Nat) : Nat → Enc FState → List Nat → Except Err (Bits × Enc FState)
  | 0, e, _ => .ok ([], e)
  | fuel + 1, e, blk =>
    if blk.length = 0 then .ok ([], e)
    else
      match Enc.encodeBytes fpaqP
          { e with ps := e.ps.chunkStart, rev := [], index := 0,
                   bufLen := if e.bufLen < min C blk.length + (min C blk.length >>> 3)
                             then min C blk.length + (min C blk.length >>> 3) else e.bufLen }
          (blk.take (min C blk.length)) with
      | .error x => .error x
      | .ok e1 =>
        match fWriteChunks C fuel e1 (blk.drop (min C blk.length)) with
        | .error x => .error x
        | .ok r =>
          .ok (writeVarInt (e1.index % 2 ^ 32) ++ arrayBits e1.rev.reverse (8 * e1.index)
                ++ (if (blk.drop (min C blk.length)).length = 0 then [] else e1.trailer) ++ r.1, r.2)

/-- `FPAQEncoder.Write(block)` -/
def fWrite (C : Nat) (e : Enc FState) (blk : List Nat) : Except Err (Bits × Enc FState) :=
  if blk.length > MAX_BLOCK then .error .size else fWriteChunks C blk.length e blk

/-- a fresh encoder (`FPAQEncoder.flush` grows the buffer since 1e1b76f: `grow = true`), one `Write`, `Dispose` -/
def fpaqEncode (C : Nat) (blk : List Nat) : Except Err Bits :=
  match fWrite C (Enc.init FState.init) blk with
  | .error x => .error x
  | .ok r => .ok (r.1 ++ r.2.dispose.1)

/-! ### decoder -/

/-- `bufSize := max(szBytes + szBytes>>2, 1024); if len(this.buffer) < bufSize { this.buffer = make([]byte, bufSize) }` -/
def fBufAlloc (buffer : List Nat) (sz : Nat) : List Nat :=
  if buffer.length < max (sz + (sz >>> 2)) 1024 then List.replicate (max (sz + (sz >>> 2)) 1024) 0 else buffer

/-- the guard `clear(buffer[sz:min(sz+8, len)])` (when `sz < len`), then `ReadArray(buffer, 8*sz)` -/
def fBufLoad (buf : List Nat) (sz : Nat) (bytes : List Nat) : List Nat :=
  bytes ++ List.replicate (min 8 (buf.length - sz)) 0 ++ buf.drop (sz + min 8 (buf.length - sz))

/-- one iteration of the chunk loop of `FPAQDecoder.Read`; `total` = `len(block)` -/
def fReadChunk (total chunkSize : Nat) (d : Dec FState) (bs : Bits) :
    Except Err (List Nat × Dec FState × Bits) :=
  match readVarInt bs with
  | none => .error .eos
  | some (sz, r) =>
    if sz ≥ 2 * total then .error .invalid
    else
      match readBits 56 r with
      | none => .error .eos
      | some (cur, r1) =>
        match readBytes sz r1 with
        | none => .error .eos
        | some (bytes, r2) =>
          match Dec.decodeBytes fpaqP chunkSize
              { d with ps := d.ps.chunkStart, current := cur,
                       buffer := fBufLoad (fBufAlloc d.buffer sz) sz bytes,
                       rem := fBufLoad (fBufAlloc d.buffer sz) sz bytes } [] with
          | .error x => .error x
          | .ok res => .ok (res.1, res.2, r2)

/-- the chunk loop of `Read`; `count` = bytes still to decode -/
def fReadChunks (C total : Nat) : Nat → Dec FState → Nat → Bits → Except Err (List Nat × Dec FState × Bits)
  | 0, d, _, bs => .ok ([], d, bs)
  | fuel + 1, d, count, bs =>
    if count = 0 then .ok ([], d, bs)
    else
      match fReadChunk total (min C count) d bs with
      | .error x => .error x
      | .ok c =>
        match fReadChunks C total fuel c.2.1 (count - min C count) c.2.2 with
        | .error x => .error x
        | .ok t => .ok (c.1 ++ t.1, t.2)

/-- a fresh decoder, one `Read` of `count` bytes: the block and the bits left unread -/
def fpaqDecode (C : Nat) (bs : Bits) (count : Nat) : Except Err (List Nat × Bits) :=
  if count > MAX_BLOCK then .error .size
  else
    match fReadChunks C count count (Dec.init FState.init) count bs with
    | .error x => .error x
    | .ok r => .ok (r.1, r.2.2)

end Kanzi.Fpaq
