/-
Proofs for the `rlt` slice, part 2: the model of `RLT.Forward`.  Token lemmas for the list decoder
`decL`, specifications of `scan` / `emitRun` / `fwdTail` / `fwdFinish` / `fwdLoop`, the round trip, the
size bound, the byte range of the output and the absence of faults.
-/
import Kanzi.Proofs.RLTInv

namespace Kanzi.RLT

/-! ## encoding of literals and token lemmas for `decL` -/

/-- a byte emitted as a literal: the escape symbol is followed by 0 -/
def encLit (esc x : Nat) : List Nat := if x = esc then [esc, 0] else [x]

def encLits (esc : Nat) : List Nat → List Nat
  | [] => []
  | x :: l => encLit esc x ++ encLits esc l

theorem encLits_append (esc : Nat) (l m : List Nat) : encLits esc (l ++ m) = encLits esc l ++ encLits esc m := by
  induction l with
  | nil => rfl
  | cons x l ih => simp [encLits, ih]

theorem encLits_replicate_ne (esc p : Nat) (h : p ≠ esc) (k : Nat) :
    encLits esc (List.replicate k p) = List.replicate k p := by
  induction k with
  | zero => rfl
  | succ k ih => simp [List.replicate_succ, encLits, encLit, h, ih]

theorem encLits_replicate_esc (esc : Nat) (k : Nat) :
    encLits esc (List.replicate k esc) = escLits esc k := by
  induction k with
  | zero => rfl
  | succ k ih => simp [List.replicate_succ, encLits, encLit, escLits, ih]

theorem decL_encLits (n esc : Nat) : ∀ (l rest d : List Nat), d.length + l.length ≤ n →
    decL n esc (encLits esc l ++ rest) d = decL n esc rest (d ++ l) := by
  intro l
  induction l with
  | nil => intro rest d _; simp [encLits]
  | cons x l ih =>
    intro rest d h
    simp only [List.length_cons] at h
    have hlt : ¬ d.length ≥ n := by omega
    by_cases hx : x = esc
    · subst hx
      simp only [encLits, encLit, if_true, List.cons_append, List.nil_append]
      rw [decL_esc0, if_neg hlt, ih _ _ (by simp; omega)]
      simp
    · simp only [encLits, encLit, hx, if_false, List.cons_append, List.nil_append]
      rw [decL_lit _ _ _ _ _ hx, if_neg hlt, ih _ _ (by simp; omega)]
      simp

theorem runLenBytes_length (run : Nat) : (runLenBytes run).length ≤ 3 := by
  unfold runLenBytes
  simp only []
  split
  · simp
  · split <;> simp

theorem runLenBytes_bytes (run : Nat) : ∀ y ∈ runLenBytes run, y < 256 := by
  unfold runLenBytes
  simp only []
  intro y hy
  split at hy
  · simp at hy; omega
  · split at hy
    · simp at hy; omega
    · simp at hy; omega

theorem runLenBytes_1 (run : Nat) (h : run - 3 < 224) : runLenBytes run = [run - 3] := by
  unfold runLenBytes
  have h' : run - RUN_THRESHOLD < RUN_LEN_ENCODE1 := h
  simp only [h', if_true]
  rw [RUN_THRESHOLD_eq, Nat.mod_eq_of_lt (by omega)]

theorem runLenBytes_2 (run : Nat) (h1 : ¬ run - 3 < 224) (h2 : run - 3 < 7936) :
    runLenBytes run = [224 + (run - 3 - 224) / 256, (run - 3 - 224) % 256] := by
  unfold runLenBytes
  have h1' : ¬ run - RUN_THRESHOLD < RUN_LEN_ENCODE1 := h1
  have h2' : run - RUN_THRESHOLD < RUN_LEN_ENCODE2 := h2
  simp only [h1', h2', if_true, if_false]
  rw [RUN_THRESHOLD_eq, RUN_LEN_ENCODE1_eq, Nat.shiftRight_eq_div_pow,
    Nat.mod_eq_of_lt (a := 224 + _) (by omega)]

theorem runLenBytes_3 (run : Nat) (h1 : ¬ run - 3 < 224) (h2 : ¬ run - 3 < 7936) (h3 : run < MAX_RUN) :
    runLenBytes run = [0xFF, (run - 3 - 7936) / 256, (run - 3 - 7936) % 256] := by
  unfold runLenBytes
  simp only [MAX_RUN_eq] at h3
  have h1' : ¬ run - RUN_THRESHOLD < RUN_LEN_ENCODE1 := h1
  have h2' : ¬ run - RUN_THRESHOLD < RUN_LEN_ENCODE2 := h2
  simp only [h1', h2', if_false]
  rw [RUN_THRESHOLD_eq, RUN_LEN_ENCODE2_eq, Nat.shiftRight_eq_div_pow,
    Nat.mod_eq_of_lt (a := _ / 2 ^ 8) (by omega)]

theorem runStep_ok (n esc : Nat) (rest d : List Nat) (run : Nat) (h : runBad n d run = false) :
    runStep n esc rest d run = decL n esc rest (d ++ List.replicate run (d.getLastD 0)) := by
  unfold runStep; simp [h]

/-- a run token: escape + run length code; the previous byte is repeated `run - 1` times -/
theorem decL_runTok (n esc run prev : Nat) (rest d : List Nat) (hrun : 3 < run) (hmax : run < MAX_RUN)
    (hd : d.getLastD 0 = prev) (hlen : d.length + (run - 1) < n) :
    decL n esc (esc :: (runLenBytes run ++ rest)) d = decL n esc rest (d ++ List.replicate (run - 1) prev) := by
  have hmax' := hmax
  simp only [MAX_RUN_eq] at hmax'
  have hbad : runBad n d (run - 1) = false := by
    unfold runBad; simp only [MAX_RUN_eq]; simp; omega
  by_cases h1 : run - 3 < 224
  · rw [runLenBytes_1 run h1]
    simp only [List.cons_append, List.nil_append]
    rw [decL_run1 _ _ _ _ _ (by omega) h1]
    have e : run - 3 + (RUN_THRESHOLD - 1) = run - 1 := by rw [RUN_THRESHOLD_eq]; omega
    rw [e, runStep_ok _ _ _ _ _ hbad, hd]
  · by_cases h2 : run - 3 < 7936
    · rw [runLenBytes_2 run h1 h2]
      simp only [List.cons_append, List.nil_append]
      have hq : (run - 3 - 224) / 256 ≤ 30 := by omega
      rw [decL_run2 _ _ _ _ _ _ (by omega) (by omega) (by omega)]
      have e : (((224 + (run - 3 - 224) / 256 - RUN_LEN_ENCODE1) <<< 8) ||| ((run - 3 - 224) % 256))
          + RUN_LEN_ENCODE1 + (RUN_THRESHOLD - 1) = run - 1 := by
        rw [shl8_or _ _ (Nat.mod_lt _ (by omega)), RUN_THRESHOLD_eq, RUN_LEN_ENCODE1_eq]; omega
      rw [e, runStep_ok _ _ _ _ _ hbad, hd]
    · rw [runLenBytes_3 run h1 h2 hmax]
      simp only [List.cons_append, List.nil_append]
      rw [decL_runFF]
      have e : ((((run - 3 - 7936) / 256) <<< 8) ||| ((run - 3 - 7936) % 256))
          + RUN_LEN_ENCODE2 + (RUN_THRESHOLD - 1) = run - 1 := by
        rw [shl8_or _ _ (Nat.mod_lt _ (by omega)), RUN_THRESHOLD_eq, RUN_LEN_ENCODE2_eq]; omega
      rw [e, runStep_ok _ _ _ _ _ hbad, hd]

/-! ## lists -/

theorem take_extend (b : List Nat) (p : Nat) : ∀ (r k : Nat), (∀ j, k ≤ j → j < k + r → b[j]? = some p) →
    b.take (k + r) = b.take k ++ List.replicate r p := by
  intro r
  induction r with
  | zero => intro k _; simp
  | succ r ih =>
    intro k h
    have h1 := ih k (fun j h1 h2 => h j h1 (by omega))
    have h2 := h (k + r) (by omega) (by omega)
    rw [show k + (r + 1) = (k + r) + 1 by omega, List.take_add_one, h1, h2]
    simp [List.replicate_succ']

theorem get_byte (b : List Nat) (hb : ∀ x ∈ b, x < 256) (i : Nat) (h : i < b.length) : b[i] < 256 :=
  hb _ (List.getElem_mem h)

/-! ## `scan` -/

/-- the arithmetic test `0x01010101 * prev == LittleEndian.Uint32(src[i:])` on bytes -/
theorem le32_eq (p a b c d : Nat) (hp : p < 256) (ha : a < 256) (hb : b < 256) (hc : c < 256) (hd : d < 256) :
    (0x01010101 * p) % 2 ^ 32 = a + 256 * b + 65536 * c + 16777216 * d ↔ (a = p ∧ b = p ∧ c = p ∧ d = p) := by
  have h : 0x01010101 * p < 2 ^ 32 := by omega
  rw [Nat.mod_eq_of_lt h]
  constructor
  · intro h
    have h1 : a = p := by omega
    subst h1
    have h2 : b = a := by omega
    subst h2
    have h3 : c = b := by omega
    subst h3
    have h4 : d = c := by omega
    subst h4
    exact ⟨rfl, rfl, rfl, rfl⟩
  · rintro ⟨rfl, rfl, rfl, rfl⟩; omega

/-- One scanning step: no fault when at least 5 bytes are left (`i < srcEnd4`), at most 4 bytes
    are consumed, all of them equal to `prev` (on bytes), and `continue` implies progress, the run
    bound and `srcIdx < srcEnd4` again. -/
theorem scan_spec (b : List Nat) (prev i run : Nat) (hi : i + 4 < b.length) :
    ∃ s, scan b.toArray prev i run = .ok s ∧ i ≤ s.i ∧ s.i ≤ i + 4 ∧ s.run = run + (s.i - i) ∧
      (s.cont = true → s.run < MAX_RUN4 ∧ s.i + 4 < b.length ∧ i < s.i) ∧
      ((∀ x ∈ b, x < 256) → prev < 256 → ∀ j, i ≤ j → j < s.i → b[j]? = some prev) := by
  have g0 := get_toArray b i (by omega)
  have g1 := get_toArray b (i + 1) (by omega)
  have g2 := get_toArray b (i + 2) (by omega)
  have g3 := get_toArray b (i + 3) (by omega)
  unfold scan le32
  simp only [g0, g1, g2, g3, List.size_toArray]
  by_cases h0 : prev = b[i]
  · simp only [← h0, if_true]
    have e0 : b[i]? = some prev := by rw [List.getElem?_eq_getElem (by omega), h0]
    by_cases hw : (0x01010101 * prev) % 2 ^ 32
        = prev + 256 * b[i + 1] + 65536 * b[i + 2] + 16777216 * b[i + 3]
    · simp only [hw, if_true]
      refine ⟨⟨_, i + 4, run + 4⟩, rfl, ?_, ?_, ?_, ?_, ?_⟩ <;> dsimp only
      · omega
      · omega
      · omega
      · intro hc
        have := of_decide_eq_true hc
        omega
      · intro hb hp j h1 h2
        have hq := (le32_eq prev prev b[i + 1] b[i + 2] b[i + 3] hp hp (get_byte b hb _ (by omega))
          (get_byte b hb _ (by omega)) (get_byte b hb _ (by omega))).1 hw
        have c : j = i ∨ j = i + 1 ∨ j = i + 2 ∨ j = i + 3 := by omega
        rcases c with c | c | c | c <;> subst c
        · exact e0
        · rw [List.getElem?_eq_getElem (by omega), hq.2.1]
        · rw [List.getElem?_eq_getElem (by omega), hq.2.2.1]
        · rw [List.getElem?_eq_getElem (by omega), hq.2.2.2]
    · simp only [hw, if_false]
      by_cases h1 : prev = b[i + 1]
      · simp only [← h1, if_true]
        have e1 : b[i + 1]? = some prev := by rw [List.getElem?_eq_getElem (by omega), h1]
        by_cases h2 : prev = b[i + 2]
        · simp only [← h2, if_true]
          have e2 : b[i + 2]? = some prev := by rw [List.getElem?_eq_getElem (by omega), h2]
          refine ⟨⟨_, i + 3, run + 3⟩, rfl, ?_, ?_, ?_, ?_, ?_⟩ <;> dsimp only
          · omega
          · omega
          · omega
          · intro hc
            have := of_decide_eq_true hc
            omega
          · intro _ _ j h1 h2
            have c : j = i ∨ j = i + 1 ∨ j = i + 2 := by omega
            rcases c with c | c | c <;> subst c
            · exact e0
            · exact e1
            · exact e2
        · simp only [h2, if_false]
          refine ⟨⟨false, i + 2, run + 2⟩, rfl, ?_, ?_, ?_, ?_, ?_⟩ <;> dsimp only
          · omega
          · omega
          · omega
          · simp
          · intro _ _ j h1 h2
            have c : j = i ∨ j = i + 1 := by omega
            rcases c with c | c <;> subst c
            · exact e0
            · exact e1
      · simp only [h1, if_false]
        refine ⟨⟨false, i + 1, run + 1⟩, rfl, ?_, ?_, ?_, ?_, ?_⟩ <;> dsimp only
        · omega
        · omega
        · omega
        · simp
        · intro _ _ j h1 h2
          have c : j = i := by omega
          subst c; exact e0
  · simp only [h0, if_false]
    refine ⟨⟨false, i, run⟩, rfl, ?_, ?_, ?_, ?_, ?_⟩ <;> dsimp only
    · omega
    · omega
    · omega
    · simp
    · intro _ _ j h1 h2; omega

/-! ## `emitRun` -/

/-- the bytes stored by `emitRun` for `run` pending copies of `prev` -/
def emitTok (esc prev run : Nat) : List Nat :=
  if run > 3 then encLit esc prev ++ esc :: runLenBytes run
  else encLits esc (List.replicate run prev)

theorem emitRun_ok (dstEnd esc prev run : Nat) (out o : Array Nat)
    (h : emitRun dstEnd esc prev run out = .ok o) : o.toList = out.toList ++ emitTok esc prev run := by
  unfold emitRun at h
  unfold emitTok
  rw [RUN_THRESHOLD_eq] at h
  by_cases hr : run > 3
  · simp only [hr, if_true] at h ⊢
    split at h
    · simp at h
    · rcases wr_cases dstEnd out (prev :: ((if prev = esc then [0] else []) ++ [esc])) with h1 | ⟨e, h1⟩
      · rw [h1, Out.bind_ok] at h
        rcases wr_cases dstEnd (out ++ (prev :: ((if prev = esc then [0] else []) ++ [esc]))) (runLenBytes run)
          with h2 | ⟨e, h2⟩
        · rw [h2] at h
          injection h with h
          subst h
          unfold encLit
          by_cases hp : prev = esc <;> simp [hp]
        · rw [h2] at h; simp at h
      · rw [h1] at h; simp at h
  · simp only [hr, if_false] at h ⊢
    by_cases hp : prev = esc
    · subst hp
      simp only [ne_eq, not_true_eq_false, if_false] at h
      split at h
      · simp at h
      · rcases wr_cases dstEnd out (escLits prev run) with h1 | ⟨e, h1⟩
        · rw [h1] at h; injection h with h; subst h
          simp [encLits_replicate_esc]
        · rw [h1] at h; simp at h
    · simp only [ne_eq, hp, not_false_eq_true, if_true] at h
      split at h
      · simp at h
      · rcases wr_cases dstEnd out (List.replicate run prev) with h1 | ⟨e, h1⟩
        · rw [h1] at h; injection h with h; subst h
          simp [encLits_replicate_ne _ _ hp]
        · rw [h1] at h; simp at h

theorem emitRun_ne_fault (dstEnd esc prev run : Nat) (out : Array Nat) (e : String) :
    emitRun dstEnd esc prev run out ≠ .fault e := by
  unfold emitRun
  rw [RUN_THRESHOLD_eq]
  have hl := runLenBytes_length run
  by_cases hr : run > 3
  · simp only [hr, if_true]
    split
    · simp
    · rename_i hlt
      rw [wr_ok _ _ _ (by by_cases hp : prev = esc <;> simp [hp] <;> omega), Out.bind_ok,
        wr_ok _ _ _ (by rw [size_appendList]; by_cases hp : prev = esc <;> simp [hp] <;> omega)]
      simp
  · simp only [hr, if_false]
    have escLen : ∀ k, (escLits esc k).length = 2 * k := by
      intro k; induction k with
      | zero => rfl
      | succ k ih => simp [escLits, ih]; omega
    split
    · split
      · simp
      · rw [wr_ok _ _ _ (by simp; omega)]; simp
    · split
      · simp
      · rw [wr_ok _ _ _ (by rw [escLen]; omega)]; simp

theorem encLit_bytes (esc x : Nat) (he : esc < 256) (hx : x < 256) : ∀ y ∈ encLit esc x, y < 256 := by
  unfold encLit; intro y hy
  split at hy <;> simp at hy <;> omega

theorem encLits_bytes (esc : Nat) (he : esc < 256) : ∀ l : List Nat, (∀ x ∈ l, x < 256) →
    ∀ y ∈ encLits esc l, y < 256 := by
  intro l
  induction l with
  | nil => intro _ y hy; simp [encLits] at hy
  | cons x l ih =>
    intro h y hy
    simp only [encLits, List.mem_append] at hy
    rcases hy with hy | hy
    · exact encLit_bytes esc x he (h x (by simp)) y hy
    · exact ih (fun z hz => h z (by simp [hz])) y hy

theorem emitTok_bytes (esc prev run : Nat) (he : esc < 256) (hp : prev < 256) :
    ∀ y ∈ emitTok esc prev run, y < 256 := by
  unfold emitTok
  intro y hy
  split at hy
  · simp only [List.mem_append, List.mem_cons] at hy
    rcases hy with hy | hy | hy
    · exact encLit_bytes esc prev he hp y hy
    · omega
    · exact runLenBytes_bytes run y hy
  · exact encLits_bytes esc he _ (by intro x hx; rw [List.eq_of_mem_replicate hx]; exact hp) y hy

/-- decoding the token emitted for `run` pending copies of `prev` appends them -/
theorem decL_emitTok (n esc prev run : Nat) (rest d : List Nat) (hmax : run < MAX_RUN)
    (hlen : d.length + run < n) :
    decL n esc (emitTok esc prev run ++ rest) d = decL n esc rest (d ++ List.replicate run prev) := by
  unfold emitTok
  by_cases hr : run > 3
  · simp only [hr, if_true]
    have h1 := decL_encLits n esc [prev] (esc :: (runLenBytes run ++ rest)) d (by simp; omega)
    simp only [encLits, List.append_nil] at h1
    rw [List.append_assoc, List.cons_append, h1,
      decL_runTok n esc run prev rest (d ++ [prev]) hr hmax (by simp) (by simp; omega)]
    congr 1
    rw [List.append_assoc]
    congr 1
    obtain ⟨k, rfl⟩ : ∃ k, run = k + 1 := ⟨run - 1, by omega⟩
    simp [List.replicate_succ]
  · simp only [hr, if_false]
    rw [decL_encLits _ _ _ _ _ (by simp; omega)]

/-! ## the tail loop and the end of Forward -/

theorem fwdTail_spec (b : List Nat) (dstEnd esc : Nat) :
    ∀ (f i : Nat) (out : Array Nat) (r : Nat × Array Nat),
      fwdTail b.toArray dstEnd esc f i out = .ok r →
      i ≤ r.1 ∧ r.2.toList = out.toList ++ encLits esc ((b.drop i).take (r.1 - i)) := by
  intro f
  induction f with
  | zero =>
    intro i out r h
    unfold fwdTail at h
    split at h
    · simp at h
    · injection h with h; subst h; simp [encLits]
  | succ f ih =>
    intro i out r h
    unfold fwdTail at h
    split at h
    · rename_i hc
      simp only [List.size_toArray] at hc
      rw [get_toArray b i hc.1] at h
      simp only [] at h
      have step : ∀ (tok : List Nat), tok = encLit esc b[i] →
          (wr dstEnd out tok).bind (fun o => fwdTail b.toArray dstEnd esc f (i + 1) o) = .ok r →
          i ≤ r.1 ∧ r.2.toList = out.toList ++ encLits esc ((b.drop i).take (r.1 - i)) := by
        intro tok htok h
        rcases wr_cases dstEnd out tok with h1 | ⟨e, h1⟩
        · rw [h1, Out.bind_ok] at h
          obtain ⟨h2, h3⟩ := ih _ _ _ h
          refine ⟨by omega, ?_⟩
          rw [h3, drop_cons b i hc.1, show r.1 - i = (r.1 - (i + 1)) + 1 by omega, List.take_succ_cons]
          simp [encLits, htok]
        · rw [h1] at h; simp at h
      by_cases hs : b[i] = esc
      · simp only [hs, if_true] at h
        split at h
        · injection h with h; subst h; simp [encLits]
        · exact step [esc, 0] (by simp [encLit, hs]) h
      · simp only [hs, if_false] at h
        exact step [b[i]] (by simp [encLit, hs]) h
    · injection h with h; subst h; simp [encLits]

theorem fwdTail_ne_fault (b : List Nat) (dstEnd esc : Nat) :
    ∀ (f i : Nat) (out : Array Nat) (e : String), b.length - i ≤ f →
      fwdTail b.toArray dstEnd esc f i out ≠ .fault e := by
  intro f
  induction f with
  | zero =>
    intro i out e hf
    unfold fwdTail
    have : ¬ (i < b.toArray.size ∧ out.size < dstEnd) := by simp only [List.size_toArray]; omega
    rw [if_neg this]; simp
  | succ f ih =>
    intro i out e hf
    unfold fwdTail
    split
    · rename_i hc
      simp only [List.size_toArray] at hc
      rw [get_toArray b i hc.1]
      simp only []
      split
      · split
        · simp
        · rw [wr_ok _ _ _ (by simp; omega), Out.bind_ok]; exact ih _ _ _ (by omega)
      · rw [wr_ok _ _ _ (by simp; omega), Out.bind_ok]; exact ih _ _ _ (by omega)
    · simp

/-- the pending literal(s) stored after the main loop -/
theorem fwdFinish_lits (dstEnd esc run prev : Nat) (out o1 : Array Nat)
    (h : (if prev ≠ esc then
        if out.size + run < dstEnd then wr dstEnd out (List.replicate run prev) else .err "dst"
      else
        if out.size + 2 * run < dstEnd then wr dstEnd out (escLits esc run) else .err "dst") = .ok o1) :
    o1.toList = out.toList ++ encLits esc (List.replicate run prev) := by
  by_cases hp : prev = esc
  · subst hp
    simp only [ne_eq, not_true_eq_false, if_false] at h
    split at h
    · rcases wr_cases dstEnd out (escLits prev run) with h1 | ⟨e, h1⟩
      · rw [h1] at h; injection h with h; subst h; simp [encLits_replicate_esc]
      · rw [h1] at h; simp at h
    · simp at h
  · simp only [ne_eq, hp, not_false_eq_true, if_true] at h
    split at h
    · rcases wr_cases dstEnd out (List.replicate run prev) with h1 | ⟨e, h1⟩
      · rw [h1] at h; injection h with h; subst h; simp [encLits_replicate_ne _ _ hp]
      · rw [h1] at h; simp at h
    · simp at h

theorem Out.bind_eq_ok {α β : Type} (x : Out α) (f : α → Out β) (b : β) (h : x.bind f = .ok b) :
    ∃ a, x = .ok a ∧ f a = .ok b := by
  cases x with
  | ok a => exact ⟨a, rfl, h⟩
  | err e => simp at h
  | fault e => simp at h

/-- Everything after the main loop: the `run` pending copies of `prev` (`b[i-run .. i)`) and the rest
    of the block are stored as literals; success implies that the whole block was consumed and that
    the output is shorter than the block. -/
theorem fwdFinish_spec (b : List Nat) (n esc dstEnd i run prev : Nat) (out : Array Nat) (t : List Nat)
    (h : fwdFinish b.toArray dstEnd esc i run prev out = .ok t) (hi : i ≤ b.length) (hn : b.length ≤ n)
    (hrun : run ≤ i) (hpend : ∀ j, i - run ≤ j → j < i → b[j]? = some prev) :
    ∃ tail, t = out.toList ++ tail ∧ t.length < b.length ∧
      tail = encLits esc (List.replicate run prev ++ b.drop i) ∧
      decL n esc tail (b.take (i - run)) = .ok b := by
  unfold fwdFinish at h
  obtain ⟨o1, h1, h⟩ := Out.bind_eq_ok _ _ _ h
  obtain ⟨r, h2, h⟩ := Out.bind_eq_ok _ _ _ h
  have e1 := fwdFinish_lits dstEnd esc run prev out o1 h1
  obtain ⟨hr1, e2⟩ := fwdTail_spec b dstEnd esc _ _ _ _ h2
  simp only [List.size_toArray] at h
  split at h
  · simp at h
  · rename_i hr
    have hr : r.1 = b.length := by simpa using hr
    split at h
    · simp at h
    · rename_i hsz
      injection h with h
      have hall : (b.drop i).take (r.1 - i) = b.drop i := by
        rw [hr]; apply List.take_of_length_le; simp
      rw [hall, e1] at e2
      have htail : r.2.toList = out.toList ++ encLits esc (List.replicate run prev ++ b.drop i) := by
        rw [e2, encLits_append, List.append_assoc]
      refine ⟨_, by rw [← h]; exact htail, ?_, rfl, ?_⟩
      · rw [← h, Array.length_toList]; omega
      · have hd := decL_encLits n esc (List.replicate run prev ++ b.drop i) [] (b.take (i - run))
          (by simp; omega)
        rw [List.append_nil] at hd
        rw [hd, decL_nil]
        have hte := take_extend b prev run (i - run) (fun j h1 h2 => hpend j h1 (by omega))
        rw [show i - run + run = i by omega] at hte
        rw [← List.append_assoc, ← hte, List.take_append_drop]

theorem fwdFinish_ne_fault (b : List Nat) (esc dstEnd i run prev : Nat) (out : Array Nat) (e : String) :
    fwdFinish b.toArray dstEnd esc i run prev out ≠ .fault e := by
  unfold fwdFinish
  intro h
  have escLen : ∀ k, (escLits esc k).length = 2 * k := by
    intro k; induction k with
    | zero => rfl
    | succ k ih => simp [escLits, ih]; omega
  have h1 : ∀ e', (if prev ≠ esc then
        if out.size + run < dstEnd then wr dstEnd out (List.replicate run prev) else .err "dst"
      else
        if out.size + 2 * run < dstEnd then wr dstEnd out (escLits esc run) else .err "dst")
      ≠ (.fault e' : Out (Array Nat)) := by
    intro e'
    split
    · split
      · rw [wr_ok _ _ _ (by simp; omega)]; simp
      · simp
    · split
      · rw [wr_ok _ _ _ (by rw [escLen]; omega)]; simp
      · simp
  generalize hx : (if prev ≠ esc then
        if out.size + run < dstEnd then wr dstEnd out (List.replicate run prev) else .err "dst"
      else
        if out.size + 2 * run < dstEnd then wr dstEnd out (escLits esc run) else Out.err "dst") = x at h h1
  cases x with
  | fault e' => exact h1 e' rfl
  | err e' => simp at h
  | ok o1 =>
    simp only [Out.bind_ok] at h
    have h2 := fwdTail_ne_fault b dstEnd esc (b.toArray.size - i) i o1
    generalize hy : fwdTail b.toArray dstEnd esc (b.toArray.size - i) i o1 = y at h h2
    cases y with
    | fault e' => exact h2 e' (by simp) rfl
    | err e' => simp at h
    | ok r =>
      simp only [Out.bind_ok] at h
      split at h
      · simp at h
      · split at h <;> simp at h

/-! ## the main loop -/

/-- Invariant of the main loop of Forward: `run` copies of `prev` are pending (`b[i-run .. i)`), the
    bytes stored so far decode to `b[0 .. i-run)`.  If the loop and the end of Forward succeed with
    output `t`, then `t` extends the bytes stored so far by a `tail` of bytes which the decoder turns
    into the rest of the block, into any destination of at least `len(b)` bytes; and `t` is shorter
    than the block. -/
theorem fwdLoop_spec (b : List Nat) (hb : ∀ x ∈ b, x < 256) (n esc dstEnd : Nat) (hn : b.length ≤ n)
    (he : esc < 256) :
    ∀ (f i run prev : Nat) (out : Array Nat) (t : List Nat),
      fwdLoop b.toArray dstEnd esc f i run prev out = .ok t →
      i + 4 < b.length → prev < 256 → run ≤ i → run < MAX_RUN4 →
      (∀ j, i - run ≤ j → j < i → b[j]? = some prev) →
      ∃ tail, t = out.toList ++ tail ∧ t.length < b.length ∧ (∀ y ∈ tail, y < 256) ∧
        decL n esc tail (b.take (i - run)) = .ok b := by
  intro f
  induction f with
  | zero => intro i run prev out t h; simp [fwdLoop] at h
  | succ f ih =>
    intro i run prev out t h hi hp hrun hmax hpend
    unfold fwdLoop at h
    obtain ⟨s, hs, s1, s2, s3, s4, s5⟩ := scan_spec b prev i run hi
    rw [hs, Out.bind_ok] at h
    have hpend' : ∀ j, s.i - s.run ≤ j → j < s.i → b[j]? = some prev := by
      intro j h1 h2
      by_cases hj : j < i
      · exact hpend j (by omega) hj
      · exact s5 hb hp j (by omega) h2
    by_cases hc : s.cont = true
    · simp only [hc, if_true] at h
      obtain ⟨c1, c2, c3⟩ := s4 hc
      have := ih s.i s.run prev out t h c2 hp (by omega) c1 hpend'
      rw [show s.i - s.run = i - run by omega] at this
      exact this
    · simp only [hc, Bool.false_eq_true, if_false] at h
      obtain ⟨o, ho, h⟩ := Out.bind_eq_ok _ _ _ h
      have eo := emitRun_ok dstEnd esc prev s.run out o ho
      rw [get_toArray b s.i (by omega)] at h
      simp only [List.size_toArray] at h
      simp only [MAX_RUN4_eq] at hmax
      have hsmax : s.run < MAX_RUN := by simp only [MAX_RUN_eq]; omega
      have hpb : b[s.i]'(by omega) < 256 := get_byte b hb _ _
      have hnext : ∀ j, s.i + 1 - 1 ≤ j → j < s.i + 1 → b[j]? = some b[s.i] := by
        intro j h1 h2
        have : j = s.i := by omega
        subst this
        exact List.getElem?_eq_getElem (by omega)
      -- the common end: a tail for the state after the token gives a tail for the current state
      have chain : ∀ tail', t = o.toList ++ tail' → t.length < b.length → (∀ y ∈ tail', y < 256) →
          decL n esc tail' (b.take (s.i + 1 - 1)) = .ok b →
          ∃ tail, t = out.toList ++ tail ∧ t.length < b.length ∧ (∀ y ∈ tail, y < 256) ∧
            decL n esc tail (b.take (i - run)) = .ok b := by
        intro tail' ht hlen hbytes hdec
        refine ⟨emitTok esc prev s.run ++ tail', by rw [ht, eo, List.append_assoc], hlen, ?_, ?_⟩
        · intro y hy
          rcases List.mem_append.1 hy with hy | hy
          · exact emitTok_bytes esc prev s.run he hp y hy
          · exact hbytes y hy
        · rw [decL_emitTok n esc prev s.run tail' _ hsmax (by rw [List.length_take]; omega)]
          have hte := take_extend b prev s.run (s.i - s.run) (fun j h1 h2 => hpend' j h1 (by omega))
          rw [show s.i - s.run + s.run = s.i by omega] at hte
          rw [show i - run = s.i - s.run by omega, ← hte]
          simpa using hdec
      split at h
      · obtain ⟨tail', t1, t2, t3, t4⟩ := fwdFinish_spec b n esc dstEnd (s.i + 1) 1 b[s.i] o t h (by omega) hn
          (by omega) hnext
        refine chain tail' t1 t2 ?_ t4
        rw [t3]
        apply encLits_bytes esc he
        intro x hx
        rcases List.mem_append.1 hx with hx | hx
        · rw [List.eq_of_mem_replicate hx]; exact hpb
        · exact hb x (List.mem_of_mem_drop hx)
      · rename_i hlt
        obtain ⟨tail', t1, t2, t3, t4⟩ := ih (s.i + 1) 1 b[s.i] o t h (by omega) hpb (by omega)
          (by simp) hnext
        exact chain tail' t1 t2 t3 t4

theorem fwdLoop_ne_fault (b : List Nat) (esc dstEnd : Nat) :
    ∀ (f i run prev : Nat) (out : Array Nat) (e : String), b.length - i ≤ f → i + 4 < b.length →
      fwdLoop b.toArray dstEnd esc f i run prev out ≠ .fault e := by
  intro f
  induction f with
  | zero => intro i run prev out e hf hi; omega
  | succ f ih =>
    intro i run prev out e hf hi h
    unfold fwdLoop at h
    obtain ⟨s, hs, s1, s2, s3, s4, _⟩ := scan_spec b prev i run hi
    rw [hs, Out.bind_ok] at h
    by_cases hc : s.cont = true
    · simp only [hc, if_true] at h
      obtain ⟨_, c2, c3⟩ := s4 hc
      exact ih s.i s.run prev out e (by omega) c2 h
    · simp only [hc, Bool.false_eq_true, if_false] at h
      have h1 := emitRun_ne_fault dstEnd esc prev s.run out
      generalize emitRun dstEnd esc prev s.run out = x at h h1
      cases x with
      | fault e' => exact h1 e' rfl
      | err e' => simp at h
      | ok o =>
        simp only [Out.bind_ok] at h
        rw [get_toArray b s.i (by omega)] at h
        simp only [List.size_toArray] at h
        split at h
        · exact fwdFinish_ne_fault b esc dstEnd _ _ _ _ e h
        · exact ih (s.i + 1) 1 _ o e (by omega) (by omega) h

end Kanzi.RLT
