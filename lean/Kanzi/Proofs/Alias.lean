/-
Proofs for the `alias` slice, part 4: `fwdDigram` is total and has an explicit output, Inverse on the
digram format, and the main theorems (round trip, size bound, bytes, totality of Forward).
-/
import Kanzi.Proofs.AliasDigram

namespace Kanzi.Alias
open Kanzi.RLT

/-! ## `fwdDigram` -/

/-- the output of the digram path for the header `entries` -/
def digramOut (entries : List (Nat × Nat)) (a : Nat) (rest : List Nat) : List Nat :=
  entries.length :: (if (emitP (mkMap16 entries) a rest).2.isSome then 1 else 0) ::
    (headerBytes entries ++ ((emitP (mkMap16 entries) a rest).1 ++ (emitP (mkMap16 entries) a rest).2.toList))

theorem fwdDigram_spec (a : Nat) (rest absent : List Nat) (dstEnd : Nat)
    (hn0 : 16 ≤ absent.length) (hn0' : absent.length < 240)
    (hdst : (a :: rest).length + 1024 ≤ dstEnd)
    (habs : ∀ x ∈ absent, x < 256 ∧ x ∉ a :: rest) (hnd : absent.Nodup) :
    fwdDigram (a :: rest) dstEnd absent = .err "slots" ∨
    fwdDigram (a :: rest) dstEnd absent = .err "savings" ∨
    ∃ (entries : List (Nat × Nat)) (o : Array Nat), GoodEntries entries (a :: rest) ∧
      16 ≤ entries.length ∧ entries.length < 240 ∧
      fwdDigram (a :: rest) dstEnd absent = .ok o ∧ o.toList = digramOut entries a rest := by
  unfold fwdDigram
  simp only []
  generalize hsymb : symbList (pairHist (a :: rest)) = symb
  by_cases hsl : absent.length > symb.length ∧ symb.length < 16
  · left; rw [if_pos hsl]
  · rw [if_neg hsl]
    generalize hn : (if absent.length > symb.length then symb.length else absent.length) = n
    have hn16 : 16 ≤ n := by rw [← hn]; split <;> omega
    have hnle1 : n ≤ symb.length := by rw [← hn]; split <;> omega
    have hnle0 : n ≤ absent.length := by rw [← hn]; split <;> omega
    have hent : GoodEntries (selectEntries (sortSymb symb) absent n) (a :: rest) := by
      rw [← hsymb]; exact selectEntries_good _ absent (a :: rest) n habs hnd
    have hlen : (selectEntries (sortSymb symb) absent n).length = n :=
      selectEntries_length (sortSymb symb) absent n
        (by rw [sortSymb, List.length_mergeSort]; exact hnle1) hnle0
    generalize selectEntries (sortSymb symb) absent n = entries at hent hlen ⊢
    have hhl := headerBytes_length entries
    have hnm : n % 256 = n := Nat.mod_eq_of_lt (by omega)
    rw [wr_ok _ _ _ (by simp at hdst ⊢; omega)]
    simp only [Out.bind_ok]
    rw [wr_ok _ _ _ (by simp [size_appendList] at hdst ⊢; omega)]
    simp only [Out.bind_ok]
    by_cases hsav : ((sortSymb symb).take n |>.map (·.2)).sum < (a :: rest).length / 20
    · right; left; rw [if_pos hsav]
    · right; right
      rw [if_neg hsav]
      refine ⟨entries, ?_⟩
      unfold emitLoop
      simp only
      rw [emitFrom_eq _ _ rest.length a rest _ (Nat.le_refl _)
        (by simp [size_appendList] at hdst ⊢; omega)]
      simp only [Out.bind_ok]
      have hbl := emitP_length (mkMap16 entries) rest.length a rest (Nat.le_refl _)
      unfold digramOut
      cases hl : (emitP (mkMap16 entries) a rest).2 with
      | none =>
        refine ⟨_, hent, by omega, by omega, rfl, ?_⟩
        simp [hnm, hlen]
      | some x =>
        simp only
        rw [wr_ok _ _ _ (by simp [size_appendList] at hdst ⊢; omega)]
        refine ⟨_, hent, by omega, by omega, rfl, ?_⟩
        simp [hnm, hlen]

theorem digramOut_length (entries : List (Nat × Nat)) (a : Nat) (rest : List Nat) :
    (digramOut entries a rest).length =
      2 + 3 * entries.length + (emitP (mkMap16 entries) a rest).1.length +
        (emitP (mkMap16 entries) a rest).2.toList.length := by
  simp [digramOut, headerBytes_length]; omega

/-! ## Inverse on the digram format -/

theorem aliasInverse_digram0 (entries : List (Nat × Nat)) (body : List Nat) (n : Nat)
    (h16 : 16 ≤ entries.length) (h240 : entries.length < 240) (hn : 1 ≤ n) :
    aliasInverse (entries.length :: 0 :: (headerBytes entries ++ (body ++ []))) n =
      (expandLoop (mkImap (headerBytes entries) imapInit) n body #[]).bind fun o => .ok o.toList := by
  have hnz : n ≠ 0 := by omega
  have hhl := headerBytes_length entries
  have h1 : ¬ entries.length < 16 := by omega
  have h2 : ¬ entries.length ≥ 240 := by omega
  have h3 : ¬ (headerBytes entries ++ (body ++ [])).length < 3 * entries.length := by
    simp [hhl]
  have htake : List.take (3 * entries.length) (headerBytes entries ++ (body ++ [])) = headerBytes entries := by
    rw [← hhl]; exact List.take_left
  have hdrop : List.drop (3 * entries.length) (headerBytes entries ++ (body ++ [])) = body ++ [] := by
    rw [← hhl]; exact List.drop_left
  have hk : (body ++ []).length - 0 = body.length := by simp
  have htk : List.take body.length (body ++ []) = body := List.take_left
  simp only [aliasInverse, List.length_cons]
  simp only [hnz, h1, h2, h3, htake, hdrop, hk, htk, if_false, or_false]
  simp
  intro h; omega

theorem aliasInverse_digram1 (entries : List (Nat × Nat)) (body : List Nat) (x : Nat) (n : Nat)
    (h16 : 16 ≤ entries.length) (h240 : entries.length < 240) (hn : 1 ≤ n) :
    aliasInverse (entries.length :: 1 :: (headerBytes entries ++ (body ++ [x]))) n =
      (expandLoop (mkImap (headerBytes entries) imapInit) n body #[]).bind fun o =>
        (wr n o [x]).bind fun o2 => .ok o2.toList := by
  have hnz : n ≠ 0 := by omega
  have hhl := headerBytes_length entries
  have h1 : ¬ entries.length < 16 := by omega
  have h2 : ¬ entries.length ≥ 240 := by omega
  have h3 : ¬ (headerBytes entries ++ (body ++ [x])).length < 3 * entries.length := by
    simp [hhl]
  have htake : List.take (3 * entries.length) (headerBytes entries ++ (body ++ [x])) = headerBytes entries := by
    rw [← hhl]; exact List.take_left
  have hdrop : List.drop (3 * entries.length) (headerBytes entries ++ (body ++ [x])) = body ++ [x] := by
    rw [← hhl]; exact List.drop_left
  have hk : (body ++ [x]).length - 1 = body.length := by simp
  have htk : List.take body.length (body ++ [x]) = body := List.take_left
  have hdr : List.drop body.length (body ++ [x]) = [x] := List.drop_left
  simp only [aliasInverse, List.length_cons]
  simp only [hnz, h1, h2, h3, htake, hdrop, hk, htk, hdr, if_false, or_false]
  simp
  intro h; omega

/-! ## round trip of the two paths -/

theorem le32Bytes_lt (v : Nat) : ∀ y ∈ le32Bytes v, y < 256 := by
  intro y hy
  simp only [le32Bytes, List.mem_cons, List.not_mem_nil, or_false] at hy
  rcases hy with rfl | rfl | rfl | rfl <;> exact Nat.mod_lt _ (by decide)

theorem all_eq_of_mem_singleton (b : List Nat) (s : Nat) (h : ∀ x ∈ b, x ∈ [s]) : b = List.replicate b.length s := by
  apply List.eq_replicate_iff.mpr
  exact ⟨rfl, fun x hx => by simpa using h x hx⟩

theorem pack_roundtrip (b : List Nat) (dstLen : Nat) (hb : ∀ x ∈ b, x < 256) (hlen : b.length < 2 ^ 32)
    (hne : b ≠ []) (hdst : b.length + 1024 ≤ dstLen)
    (h240 : (absentSyms (histogram b)).length ≥ 240) :
    ∃ o, fwdPack b dstLen (histogram b) (absentSyms (histogram b)).length = .ok o ∧
      (∀ y ∈ o.toList, y < 256) ∧ ∀ n, b.length ≤ n → aliasInverse o.toList n = .ok b := by
  have hsum := absent_present_length (histogram b)
  have hmem : ∀ x ∈ b, x ∈ presentSyms (histogram b) := fun x hx => mem_present_of_mem b hb hx
  generalize hn0 : (absentSyms (histogram b)).length = n0 at *
  generalize hsy : presentSyms (histogram b) = syms at *
  have hsymlt : ∀ s ∈ syms, s < 256 := fun s hs => by rw [← hsy] at hs; exact present_lt hs
  obtain ⟨s0, tl, rfl⟩ : ∃ s0 tl, b = s0 :: tl := by
    cases b with
    | nil => exact absurd rfl hne
    | cons x y => exact ⟨x, y, rfl⟩
  have hlenpos : 1 ≤ (s0 :: tl).length := by simp
  by_cases h255 : n0 = 255
  · -- one symbol
    subst h255
    refine ⟨_, fwdPack_one (s0 :: tl) s0 tl dstLen _ rfl (by omega), ?_, ?_⟩
    · intro y hy
      simp only [Array.toList_appendList, List.nil_append, List.mem_append, List.mem_cons] at hy
      rcases hy with (rfl | rfl | hy) | hy
      · decide
      · exact hb _ (by simp)
      · simp at hy
      · exact le32Bytes_lt _ y hy
    · intro n hn
      have hs1 : syms.length = 1 := by omega
      match syms, hs1 with
      | [s], _ =>
        have hall := all_eq_of_mem_singleton (s0 :: tl) s hmem
        have hs0 : s0 = s := by simpa using hmem s0 (by simp)
        subst hs0
        rw [show ((#[] : Array Nat) ++ ([255, s0] ++ le32Bytes (s0 :: tl).length)).toList
          = [255, s0] ++ le32Bytes (s0 :: tl).length from by simp]
        rw [aliasInverse_one s0 _ n hlen hn (by omega)]
        rw [← hall]
  · have hmod : n0 % 256 = n0 := by
      apply Nat.mod_eq_of_lt
      have : syms.length ≠ 0 := by
        intro h0
        have : syms = [] := List.length_eq_zero_iff.mp h0
        subst this
        exact absurd (hmem s0 (by simp)) (by simp)
      omega
    have hsne : syms ≠ [] := by
      intro h0; subst h0; exact absurd (hmem s0 (by simp)) (by simp)
    match syms, hsne with
    | s :: ss, _ =>
    by_cases h252 : n0 ≥ 252
    · -- 4 symbols or less
      have hf := fwdPack_four (s0 :: tl) dstLen (histogram (s0 :: tl)) n0 h255 h252 (by omega)
      rw [hsy] at hf
      refine ⟨_, hf, ?_, ?_⟩
      · intro y hy
        simp only [Array.toList_appendList, List.nil_append, List.mem_append, List.mem_cons,
          List.not_mem_nil, or_false] at hy
        rcases hy with rfl | hy | rfl | hy | hy
        · omega
        · exact hsymlt y (List.mem_cons.mpr hy)
        · omega
        · exact hb y (List.mem_of_mem_take hy)
        · exact packed4_lt _ (by omega) _ y hy
      · intro n hn
        rw [show ((#[] : Array Nat) ++ ([n0 % 256] ++ ((s :: ss) ++ ([(s0 :: tl).length % 4] ++
            (List.take ((s0 :: tl).length % 4) (s0 :: tl) ++
              packed4 (s :: ss) (List.drop ((s0 :: tl).length % 4) (s0 :: tl))))))).toList
          = n0 :: ((s :: ss) ++ ((s0 :: tl).length % 4 :: (List.take ((s0 :: tl).length % 4) (s0 :: tl) ++
              packed4 (s :: ss) (List.drop ((s0 :: tl).length % 4) (s0 :: tl))))) from by simp [hmod]]
        have hm4 : (s0 :: tl).length % 4 < 4 := Nat.mod_lt _ (by decide)
        rw [aliasInverse_four n0 s ss _ _ ((s0 :: tl).length % 4) ((s0 :: tl).length / 4) n
          (by omega) (by omega) (by omega) (by omega)
          (by rw [List.length_take]; have := Nat.mod_le (s0 :: tl).length 4; omega)
          (by rw [List.length_drop]; omega)
          (fun x hx => hmem x (List.mem_of_mem_drop hx)) (by omega) (by omega)]
        rw [List.take_append_drop]
    · -- 16 symbols or less
      have hf := fwdPack_sixteen (s0 :: tl) dstLen (histogram (s0 :: tl)) n0 h255 h252 (by omega)
      rw [hsy] at hf
      refine ⟨_, hf, ?_, ?_⟩
      · intro y hy
        simp only [Array.toList_appendList, List.nil_append, List.mem_append, List.mem_cons,
          List.not_mem_nil, or_false] at hy
        rcases hy with rfl | hy | rfl | hy | hy
        · omega
        · exact hsymlt y (List.mem_cons.mpr hy)
        · omega
        · exact hb y (List.mem_of_mem_take hy)
        · exact packed2_lt _ (by omega) _ y hy
      · intro n hn
        rw [show ((#[] : Array Nat) ++ ([n0 % 256] ++ ((s :: ss) ++ ([(s0 :: tl).length % 2] ++
            (List.take ((s0 :: tl).length % 2) (s0 :: tl) ++
              packed2 (s :: ss) (List.drop ((s0 :: tl).length % 2) (s0 :: tl))))))).toList
          = n0 :: ((s :: ss) ++ ((s0 :: tl).length % 2 :: (List.take ((s0 :: tl).length % 2) (s0 :: tl) ++
              packed2 (s :: ss) (List.drop ((s0 :: tl).length % 2) (s0 :: tl))))) from by simp [hmod]]
        have hm2 : (s0 :: tl).length % 2 < 2 := Nat.mod_lt _ (by decide)
        rw [aliasInverse_sixteen n0 s ss _ _ ((s0 :: tl).length % 2) ((s0 :: tl).length / 2) n
          (by omega) (by omega) (by omega) (by omega)
          (by rw [List.length_take]; have := Nat.mod_le (s0 :: tl).length 2; omega)
          (by rw [List.length_drop]; omega)
          (fun x hx => hmem x (List.mem_of_mem_drop hx)) (by omega) (by omega)]
        rw [List.take_append_drop]

theorem digram_roundtrip (b absent : List Nat) (dstLen : Nat) (o : Array Nat) (hb : ∀ x ∈ b, x < 256)
    (hne : b ≠ []) (hdst : b.length + 1024 ≤ dstLen)
    (hn0 : 16 ≤ absent.length) (hn0' : absent.length < 240)
    (habs : ∀ x ∈ absent, x < 256 ∧ x ∉ b) (hnd : absent.Nodup)
    (h : fwdDigram b dstLen absent = .ok o) :
    (∀ y ∈ o.toList, y < 256) ∧ ∀ n, b.length ≤ n → aliasInverse o.toList n = .ok b := by
  obtain ⟨a, rest, rfl⟩ : ∃ a rest, b = a :: rest := by
    cases b with
    | nil => exact absurd rfl hne
    | cons x y => exact ⟨x, y, rfl⟩
  rcases fwdDigram_spec a rest absent dstLen hn0 hn0' hdst habs hnd with he | he | ⟨entries, o', hg, h16, h240, hok, hout⟩
  · rw [he] at h; exact absurd h (by simp)
  · rw [he] at h; exact absurd h (by simp)
  · rw [hok] at h
    have : o' = o := by injection h
    subst this
    rw [hout]
    have hmaps := maps_ok entries (a :: rest) hg
    have hS : ∀ x ∈ a :: rest, x < 256 ∧ (fun x => x ∈ a :: rest) x := fun x hx => ⟨hb x hx, hx⟩
    have hbody := emitP_lt (mkMap16 entries) rest.length a rest (Nat.le_refl _)
    have hleft := emitP_left (mkMap16 entries) rest.length a rest (Nat.le_refl _)
    constructor
    · intro y hy
      unfold digramOut at hy
      simp only [List.mem_cons, List.mem_append] at hy
      rcases hy with rfl | rfl | hy | hy | hy
      · omega
      · split <;> omega
      · exact headerBytes_lt _ y hy
      · exact hbody y hy
      · cases hl : (emitP (mkMap16 entries) a rest).2 with
        | none => rw [hl] at hy; simp at hy
        | some x =>
          rw [hl] at hy; simp at hy; subst hy
          exact hb _ (hleft _ hl)
    · intro n hn
      obtain ⟨cons, hc1, hc2⟩ := expand_emit _ _ _ hmaps n rest.length a rest #[] (Nat.le_refl _) hS
        (by simp at hn ⊢; omega)
      unfold digramOut
      cases hl : (emitP (mkMap16 entries) a rest).2 with
      | none =>
        rw [hl] at hc2
        simp only [Option.isSome_none, Bool.false_eq_true, if_false, Option.toList_none]
        rw [aliasInverse_digram0 entries _ n h16 h240 (by simp at hn; omega), hc1]
        simp at hc2 ⊢
        exact hc2
      | some x =>
        rw [hl] at hc2
        simp only [Option.isSome_some, if_true, Option.toList_some]
        rw [aliasInverse_digram1 entries _ x n h16 h240 (by simp at hn; omega), hc1]
        simp only [Out.bind_ok]
        have hcl : cons.length + 1 = (a :: rest).length := by
          have := congrArg List.length hc2; simpa using this
        rw [wr_ok _ _ _ (by simp; omega)]
        simp only [Out.bind_ok]
        simp at hc2 ⊢
        exact hc2

/-! ## main theorems -/

/-- the body of Forward after the early declines -/
def fwdCore (b : List Nat) (dstLen : Nat) : Out (Array Nat) :=
  if (absentSyms (histogram b)).length ≥ 240 then
    fwdPack b dstLen (histogram b) (absentSyms (histogram b)).length
  else fwdDigram b dstLen (absentSyms (histogram b))

/-- a successful Forward of a non-empty block ran one of the two paths and kept a strictly shorter output -/
theorem aliasForward_ok (onlyDNA : Bool) (dt : Nat) (b t : List Nat) (dstLen : Nat)
    (hdst : aliasMaxEncodedLen b.length ≤ dstLen) (hne : b ≠ [])
    (h : aliasForward onlyDNA dt b dstLen = .ok t) :
    1024 ≤ b.length ∧ 16 ≤ (absentSyms (histogram b)).length ∧
      ∃ o, fwdCore b dstLen = .ok o ∧ o.size < b.length ∧ t = o.toList := by
  have hl : b.length ≠ 0 := fun h0 => hne (List.length_eq_zero_iff.mp h0)
  have hd : dstLen ≠ 0 := by unfold aliasMaxEncodedLen at hdst; omega
  unfold aliasForward at h
  rw [if_neg (by simp [hl, hd]), if_neg (by omega)] at h
  split at h
  · exact absurd h (by simp)
  rename_i h1024
  split at h
  · exact absurd h (by simp)
  split at h
  · exact absurd h (by simp)
  simp only at h
  split at h
  · exact absurd h (by simp)
  rename_i h16
  split at h
  · exact absurd h (by simp)
  refine ⟨by unfold MIN_BLOCKSIZE at h1024; omega, by omega, ?_⟩
  unfold fwdCore
  cases hc : (if (absentSyms (histogram b)).length ≥ 240 then
      fwdPack b dstLen (histogram b) (absentSyms (histogram b)).length
    else fwdDigram b dstLen (absentSyms (histogram b))) with
  | ok o =>
    rw [hc] at h
    simp only [Out.bind_ok] at h
    split at h
    · exact absurd h (by simp)
    · rename_i hs
      refine ⟨o, rfl, by omega, ?_⟩
      injection h with h; exact h.symm
  | err e => rw [hc] at h; exact absurd h (by simp)
  | fault e => rw [hc] at h; exact absurd h (by simp)

theorem aliasInverse_nil (n : Nat) : aliasInverse [] n = .ok [] := by simp [aliasInverse]

/-- round trip, size bound and byte range for every accepted block -/
theorem alias_roundtrip (onlyDNA : Bool) (dt : Nat) (b t : List Nat) (dstLen : Nat)
    (hb : ∀ x ∈ b, x < 256) (hlen : b.length < 2 ^ 32) (hdst : aliasMaxEncodedLen b.length ≤ dstLen)
    (h : aliasForward onlyDNA dt b dstLen = .ok t) :
    t.length ≤ b.length ∧ (b ≠ [] → t.length < b.length) ∧ (∀ y ∈ t, y < 256) ∧
      ∀ n, b.length ≤ n → aliasInverse t n = .ok b := by
  by_cases hne : b = []
  · subst hne
    have : t = [] := by
      unfold aliasForward at h; simp at h; exact h
    subst this
    exact ⟨Nat.le_refl _, fun h => absurd rfl h, by simp, fun n _ => aliasInverse_nil n⟩
  · obtain ⟨h1024, h16, o, hcore, hsz, rfl⟩ := aliasForward_ok onlyDNA dt b _ dstLen hdst hne h
    have hlt : o.toList.length < b.length := by simpa using hsz
    refine ⟨by omega, fun _ => hlt, ?_⟩
    unfold fwdCore at hcore
    unfold aliasMaxEncodedLen at hdst
    by_cases h240 : (absentSyms (histogram b)).length ≥ 240
    · rw [if_pos h240] at hcore
      obtain ⟨o', ho', hby, hinv⟩ := pack_roundtrip b dstLen hb hlen hne hdst h240
      rw [ho'] at hcore
      have : o' = o := by injection hcore
      subst this
      exact ⟨hby, hinv⟩
    · rw [if_neg h240] at hcore
      exact digram_roundtrip b _ dstLen o hb hne hdst h16 (by omega)
        (fun x hx => absent_fresh b hx) (absentSyms_nodup _) hcore

/-- Forward never faults when the destination has `MaxEncodedLen` bytes (any block, any hints) -/
theorem aliasForward_ne_fault (onlyDNA : Bool) (dt : Nat) (b : List Nat) (dstLen : Nat)
    (hdst : aliasMaxEncodedLen b.length ≤ dstLen) (e : String) :
    aliasForward onlyDNA dt b dstLen ≠ .fault e := by
  unfold aliasForward
  split
  · simp
  split
  · simp
  split
  · simp
  rename_i h1024
  split
  · simp
  split
  · simp
  simp only
  split
  · simp
  rename_i h16
  split
  · simp
  unfold aliasMaxEncodedLen at hdst
  unfold MIN_BLOCKSIZE at h1024
  obtain ⟨a, rest, rfl⟩ : ∃ a rest, b = a :: rest := by
    cases b with
    | nil => simp at h1024
    | cons x y => exact ⟨x, y, rfl⟩
  have hfin : ∀ (o : Array Nat), (Out.ok o).bind (fun o =>
      if o.size ≥ (a :: rest).length then (Out.err "savings" : Res) else .ok o.toList) ≠ .fault e := by
    intro o; simp only [Out.bind_ok]; split <;> simp
  split
  · rename_i h240
    by_cases h255 : (absentSyms (histogram (a :: rest))).length = 255
    · rw [h255, fwdPack_one (a :: rest) a rest dstLen _ rfl (by omega)]; exact hfin _
    · by_cases h252 : (absentSyms (histogram (a :: rest))).length ≥ 252
      · rw [fwdPack_four (a :: rest) dstLen _ _ h255 h252 (by omega)]; exact hfin _
      · rw [fwdPack_sixteen (a :: rest) dstLen _ _ h255 h252 (by omega)]; exact hfin _
  · rename_i h240
    rcases fwdDigram_spec a rest (absentSyms (histogram (a :: rest))) dstLen (by omega) (by omega) (by omega)
      (fun x hx => absent_fresh _ hx) (absentSyms_nodup _) with he | he | ⟨_, o, _, _, _, hok, _⟩
    · rw [he]; simp
    · rw [he]; simp
    · rw [hok]; exact hfin _

/-! ## non-vacuity: one-symbol blocks are accepted -/

theorem filter_eq_range_nil (c : Nat) : ∀ n, n ≤ c → (List.range n).filter (fun i => decide (i = c)) = [] := by
  intro n hn
  apply List.filter_eq_nil_iff.mpr
  intro i hi
  have : i < n := List.mem_range.mp hi
  simp; omega

theorem filter_eq_range (c : Nat) : ∀ n, c < n → (List.range n).filter (fun i => decide (i = c)) = [c] := by
  intro n
  induction n with
  | zero => intro h; omega
  | succ m ih =>
    intro h
    rw [List.range_succ, List.filter_append]
    by_cases hc : c < m
    · rw [ih hc]
      have : ¬ m = c := by omega
      simp [this]
    · have hcm : c = m := by omega
      subst hcm
      rw [filter_eq_range_nil c c (Nat.le_refl _)]
      simp

theorem presentSyms_replicate (c k : Nat) (hc : c < 256) (hk : 1 ≤ k) :
    presentSyms (histogram (List.replicate k c)) = [c] := by
  unfold presentSyms
  rw [← filter_eq_range c 256 hc]
  apply List.filter_congr
  intro i hi
  have hi' : i < 256 := List.mem_range.mp hi
  rw [fq_histogram _ i hi', List.count_replicate]
  by_cases h : c = i
  · subst h; simp; omega
  · have h' : ¬ i = c := fun e => h e.symm
    simp [h, h']

theorem aliasForward_one_symbol (c k : Nat) (hc : c < 256) (hk : 1024 ≤ k) :
    aliasForward false 0 (List.replicate k c) (aliasMaxEncodedLen k) = .ok ([255, c] ++ le32Bytes k) := by
  have hp := presentSyms_replicate c k hc (by omega)
  have hsum := absent_present_length (histogram (List.replicate k c))
  rw [hp] at hsum
  have h255 : (absentSyms (histogram (List.replicate k c))).length = 255 := by simpa using hsum
  obtain ⟨k', rfl⟩ : ∃ k', k = k' + 1 := ⟨k - 1, by omega⟩
  unfold aliasForward
  simp only [List.length_replicate, aliasMaxEncodedLen, MIN_BLOCKSIZE, binaryType, DT_UNDEFINED, DT_MULTIMEDIA,
    DT_UTF8, DT_EXE, DT_BIN, DT_DNA]
  rw [if_neg (by omega), if_neg (by omega), if_neg (by omega), if_neg (by decide), if_neg (by simp)]
  simp only [h255]
  rw [if_neg (by omega), if_neg (by simp), if_pos (by omega)]
  rw [fwdPack_one (List.replicate (k' + 1) c) c (List.replicate k' c) _ _ (by simp [List.replicate_succ]) (by omega)]
  simp only [Out.bind_ok]
  rw [if_neg (by simp [le32Bytes]; omega)]
  simp

end Kanzi.Alias
