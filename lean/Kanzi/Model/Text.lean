/-
Model of the dictionary text transform `transform.TextCodec` (v2/transform/TextCodec.go, transform name
"TEXT"), slice `text`, property C13.

  * `dictEN`, `createDictionary`, `staticInit`
                                 Go `_TC_DICT_EN_1024` (the raw string of the source file, line breaks and tabs
                                 included), `createDictionary`, (`_TC_STATIC_DICT_WORDS`, `_TC_STATIC_DICTIONARY`)
  * `isText`, `isLower`, `isUpper`, `isDelimiter`   the character classes
  * `hashStep`, `hashWord`       Go `h = h*_TC_HASH1 ^ int32(c)*_TC_HASH2` (int32 arithmetic, explicit `% 2^32`)
  * `computeStats strict block`  Go `computeTextStats` (+ `detectTextType`): the mode byte
  * `logHash1`, `logHash2`       the `logHashSize` computed by `newTextCodec1WithCtx` / `newTextCodec2WithCtx`
                                 from the ctx entries `blockSize` and `entropy`
  * `reset sw sd tc2 hsz count`  Go `textCodec1.reset` / `textCodec2.reset` on a fresh instance (`sw`, `sd`: the static
                                 dictionary, see the note before `Dict`)
  * `findEntry`, `fwdLookup`, `learn`, `expand`   dictionary look-up, insertion (ring replacement), `expandDictionary`
  * `wordIndex1`, `wordIndex2`   Go `emitWordIndex1` / `emitWordIndex2` (the bytes stored)
  * `emitSymbols1`, `emitSymbols2`  Go `textCodec1.emitSymbols` / `textCodec2.emitSymbols`
  * `codecForward tc2 hsz dt src n`  Go `textCodec{1,2}.Forward(src, dst)` with `len(dst) = n`
  * `codecInverse tc2 old hsz src n` Go `textCodec{1,2}.Inverse(src, dst)` with `len(dst) = n`
  * `textForward`, `textInverse`  the wrappers `TextCodec.Forward` / `TextCodec.Inverse`
  * `textCtxWrite`               the `dataType` entry Forward stores into the ctx map
  * `codecForwardLoop`, `codecInverseLoop`  the state at the end of the main loop of Forward / Inverse
                                 (specification only, used by the lock-step theorem)
  (the functions that read the static dictionary exist as `...S sw sd ...` with the dictionary as arguments; the
  Go functions are these at `staticInit`)

Core Lean only (linked into `kmodel`).  Bytes are `Nat` (< 256).  The source is an `Array Nat`; the
destination is the `Array Nat` of the bytes written so far (`out.size` is the Go `dstIdx`; every Go write is
`dst[dstIdx] = v; dstIdx++`, i.e. an append, checked against `len(dst)` by `wr`).

The two Go codecs `textCodec1` / `textCodec2` are two copies of the same code that differ in: the strictness
of the block analysis, the two special dictionary entries of codec 1 (escape bytes 0x0E / 0x0F), the token
format, `emitSymbols`, and the margin (`dstEnd4` / `dstEnd3`).  The model is ONE set of functions with the flag
`tc2`; every place where the copies differ is an explicit `if tc2`.

Dictionary state (`Dict`): `list` = Go `dictList` (`Entry`: `hash`, `len` and `idx` = the two fields packed
in Go `data` = `len<<24 | idx`, `ptr` = the first `len` bytes of the Go slice `ptr`, `none` = nil), `map` =
Go `dictMap` as indices into `list` (`0` = nil, `k+1` = `&dictList[k]`), `size` = `dictSize`, `ssz` =
`staticDictSize`, `hsz` = `1 << logHashSize` = `len(dictMap)` (`hashMask = hsz - 1`).  After
`expandDictionary` the Go `dictMap` still points into the old backing array of `dictList`; an entry is only
modified (after the ring index wrapped at 2^19, when no further expansion happens) right after the map slot
of its old hash was cleared, so no stale copy is ever observable: indices are a faithful picture.
`delimAnchor` (which is -1 for a block that starts with a letter) is kept as `ws = delimAnchor + 1`
(the start of the current word).

Outcomes (`Kanzi.RLT.Out`): `.ok` = nil error, `.err c` = non-nil Go error of class `c` (Forward "declines",
Inverse "fails"), `.fault k` = a Go run-time panic (index / slice bounds out of range, nil slice) or
exhausted model fuel; all `.fault`s of Forward are proved unreachable (`C13_text_total`).

The ctx of `NewTextCodecWithCtx` enters through explicit parameters: `tc2` (entry `textcodec` = 2), `hsz`
(from `blockSize` and `entropy`, see `logHash1/2`; `NewTextCodec()` is `hsz = 2^24`), `dt` (the `dataType`
entry, 0 = none / DT_UNDEFINED), `old` (codec 2 only: entry `bsVersion` < 6).
Not modelled: the aliasing test `&src[0] == &dst[0]`, re-use of one codec instance for several blocks
(the compressor builds a new transform per block; see the `reuse` oracle of the stream).
-/
import Kanzi.Model.RLT
import Kanzi.Model.FSD

namespace Kanzi.Text
open Kanzi.RLT (Out Res wr fq detectSimpleType)

/-! ## constants -/

def THRESHOLD1 : Nat := 128
def THRESHOLD2 : Nat := THRESHOLD1 * THRESHOLD1
def THRESHOLD3 : Nat := 64
def THRESHOLD4 : Nat := THRESHOLD3 * 128
def MAX_DICT_SIZE : Nat := 1 <<< 19
def MAX_WORD_LENGTH : Nat := 31
def LOG_HASHES_SIZE : Nat := 24
def MIN_BLOCK_SIZE : Nat := 1024
def MAX_BLOCK_SIZE : Nat := 1 <<< 30
def ESCAPE_TOKEN1 : Nat := 0x0F
def ESCAPE_TOKEN2 : Nat := 0x0E
def MASK_FLIP_CASE : Nat := 0x80
def MASK_NOT_TEXT : Nat := 0x80
def MASK_CRLF : Nat := 0x40
def MASK_XML_HTML : Nat := 0x20
def MASK_DT : Nat := 0x0F
def MASK_LENGTH : Nat := 0x0007FFFF
def HASH1 : Nat := 0x7FEB352D
/-- `int32(-2073254261)` as a bit pattern -/
def HASH2 : Nat := 0x846CA68B
def LF : Nat := 0x0A
def CR : Nat := 0x0D
def DT_TEXT : Nat := 1

/-- Go: `_TC_DICT_EN_1024` (raw string literal: every source line but the first starts with a tab) -/
def dictEN : String :=
  "TheBeAndOfInToWithItThatForYouHeHaveOnSaidSayAtButWeByHadTheyAsW\n" ++
  "\touldWhoOrCanMayDoThisWasIsMuchAnyFromNotSheWhatTheirWhichGetGive\n" ++
  "\tHasAreHimHerComeMyOurWereWillSomeBecauseThereThroughTellWhenWork\n" ++
  "\tThemYetUpOwnOutIntoJustCouldOverOldThinkDayWayThanLikeOtherHowTh\n" ++
  "\tenItsPeopleTwoMoreTheseBeenNowWantFirstNewUseSeeTimeManManyThing\n" ++
  "\tMakeHereWellOnlyHisVeryAfterWithoutAnotherNoAllBelieveBeforeOffT\n" ++
  "\thoughSoAgainstWhileLastTooDownTodaySameBackTakeEachDifferentWher\n" ++
  "\teBetweenThoseEvenSeenUnderAboutOneAlsoFactMustActuallyPreventExp\n" ++
  "\tectContainConcernIfSchoolYearGoingCannotDueEverTowardGirlFirmGla\n" ++
  "\tssGasKeepWorldStillWentShouldSpendStageDoctorMightJobGoContinueE\n" ++
  "\tveryoneNeverAnswerFewMeanDifferenceTendNeedLeaveTryNiceHoldSomet\n" ++
  "\thingAskWarmLipCoverIssueHappenTurnLookSureDiscoverFightMadDirect\n" ++
  "\tionAgreeSomeoneFailRespectNoticeChoiceBeginThreeSystemLevelFeelM\n" ++
  "\teetCompanyBoxShowPlayLiveLetterEggNumberOpenProblemFatHandMeasur\n" ++
  "\teQuestionCallRememberCertainPutNextChairStartRunRaiseGoalReallyH\n" ++
  "\tomeTeaCandidateMoneyBusinessYoungGoodCourtFindKnowKindHelpNightC\n" ++
  "\thildLotYourUsEyeYesWordBitVanMonthHalfLowMillionHighOrganization\n" ++
  "\tRedGreenBlueWhiteBlackYourselfEightBothLittleHouseLetDespiteProv\n" ++
  "\tideServiceHimselfFriendDescribeFatherDevelopmentAwayKillTripHour\n" ++
  "\tGameOftenPlantPlaceEndAmongSinceStandDesignParticularSuddenlyMem\n" ++
  "\tberPayLawBookSilenceAlmostIncludeAgainEitherToolFourOnceLeastExp\n" ++
  "\tlainIdentifyUntilSiteMinuteCoupleWeekMatterBringDetailInformatio\n" ++
  "\tnNothingAnythingEverythingAgoLeadSometimesUnderstandWhetherNatur\n" ++
  "\teTogetherFollowParentStopIndeedDifficultPublicAlreadySpeakMainta\n" ++
  "\tinRemainHearAllowMediaOfficeBenefitDoorHugPersonLaterDuringWarHi\n" ++
  "\tstoryArgueWithinSetArticleStationMorningWalkEventWinChooseBehavi\n" ++
  "\torShootFireFoodTitleAroundAirTeacherGapSubjectEnoughProveAcrossA\n" ++
  "\tlthoughHeadFootSecondBoyMainLieAbleCivilTableLoveProcessOfferStu\n" ++
  "\tdentConsiderAppearStudyBuyNearlyHumanEvidenceTextMethodIncluding\n" ++
  "\tSendRealizeSenseBuildControlAudienceSeveralCutCollegeInterestSuc\n" ++
  "\tcessSpecialRiskExperienceBehindBetterResultTreatFiveRelationship\n" ++
  "\tAnimalImproveHairStayTopReducePerhapsLateWriterPickElseSignifica\n" ++
  "\tntChanceHotelGeneralRockRequireAlongFitThemselvesReportCondition\n" ++
  "\tReachTruthEffortDecideRateEducationForceGardenDrugLeaderVoiceQui\n" ++
  "\tteWholeSeemMindFinallySirReturnFreeStoryRespondPushAccordingBrot\n" ++
  "\therLearnSonHopeDevelopFeelingReadCarryDiseaseRoadVariousBallCase\n" ++
  "\tOperationCloseVisitReceiveBuildingValueResearchFullModelJoinSeas\n" ++
  "\tonKnownDirectorPositionPlayerSportErrorRecordRowDataPaperTheoryS\n" ++
  "\tpaceEveryFormSupportActionOfficialWhoseIdeaHappyHeartBestTeamPro\n" ++
  "\tjectHitBaseRepresentTownPullBusMapDryMomCatDadRoomSmileFieldImpa\n" ++
  "\tctFundLargeDogHugePrepareEnvironmentalProduceHerselfTeachOilSuch\n" ++
  "\tSituationTieCostIndustrySkinStreetImageItselfPhonePriceWearMostS\n" ++
  "\tunSoonClearPracticePieceWaitRecentImportantProductLeftWallSeries\n" ++
  "\tNewsShareMovieKidNorSimplyWifeOntoCatchMyselfFineComputerSongAtt\n" ++
  "\tentionDrawFilmRepublicanSecurityScoreTestStockPositiveCauseCentu\n" ++
  "\tryWindowMemoryExistListenStraightCultureBillionFormerDecisionEne\n" ++
  "\trgyMoveSummerWonderRelateAvailableLineLikelyOutsideShotShortCoun\n" ++
  "\ttryRoleAreaSingleRuleDaughterMarketIndicatePresentLandCampaignMa\n" ++
  "\tterialPopulationEconomyMedicalHospitalChurchGroundThousandAuthor\n" ++
  "\tityInsteadRecentlyFutureWrongInvolveLifeHeightIncreaseRightBankC\n" ++
  "\tulturalCertainlyWestExecutiveBoardSeekLongOfficerStatementRestBa\n" ++
  "\tyDealWorkerResourceThrowForwardPolicyScienceEyesBedItemWeaponFil\n" ++
  "\tlPlanMilitaryGunHotHeatAddressColdFocusForeignTreatmentBloodUpon\n" ++
  "\tCourseThirdWatchAffectEarlyStoreThusSoundEverywhereBabyAdministr\n" ++
  "\tationMouthPageEnterProbablyPointSeatNaturalRaceFarChallengePassA\n" ++
  "\tpplyMailUsuallyMixToughClearlyGrowFactorStateLocalGuyEastSaveSou\n" ++
  "\tthSceneMotherCareerQuicklyCentralFaceIceAboveBeyondPictureNetwor\n" ++
  "\tkManagementIndividualWomanSizeSpeedBusySeriousOccurAddReadySignC\n" ++
  "\tollectionListApproachChargeQualityPressureVoteNotePartRealWebCur\n" ++
  "\trentDetermineTrueSadWhateverBreakWorryCupParticularlyAmountAbili\n" ++
  "\ttyEatRecognizeSitCharacterSomebodyLossDegreeEffectAttackStaffMid\n" ++
  "\tdleTelevisionWhyLegalCapitalTradeElectionEverybodyDropMajorViewS\n" ++
  "\ttandardBillEmployeeDiscussionOpportunityAnalysisTenSuggestLawyer\n" ++
  "\tHusbandSectionBecomeSkillSisterStyleCrimeProgramCompareCapMissBa\n" ++
  "\tdSortTrainingEasyNearRegionStrategyPurposePerformTechnologyEcono\n" ++
  "\tmicBudgetExampleCheckEnvironmentDoneDarkTermRatherLaughGuessCarL\n" ++
  "\towerHangPastSocialForgetHundredRemoveManagerEnjoyExactlyDieFinal\n" ++
  "\tMaybeHealthFloorChangeAmericanPoorFunEstablishTrialSpringDinnerB\n" ++
  "\tigThankProtectAvoidImagineTonightStarArmFinishMusicOwnerCryArtPr\n" ++
  "\tivateOthersSimplePopularReflectEspeciallySmallLightMessageStepKe\n" ++
  "\tyPeaceProgressMadeSideGreatFixInterviewManageNationalFishLoseCam\n" ++
  "\teraDiscussEqualWeightPerformanceSevenWaterProductionPersonalCell\n" ++
  "\tPowerEveningColorInsideBarUnitLessAdultWideRangeMentionDeepEdgeS\n" ++
  "\ttrongHardTroubleNecessarySafeCommonFearFamilySeaDreamConferenceR\n" ++
  "\teplyPropertyMeetingAlwaysStuffAgencyDeathGrowthSellSoldierActHea\n" ++
  "\tvyWetBagMarriageDeadSingRiseDecadeWhomFigurePoliceBodyMachineCat\n" ++
  "\tegoryAheadFrontCareOrderRealityPartnerYardBeatViolenceTotalDefen\n" ++
  "\tseWriteConsumerCenterGroupThoughtModernTaskCoachReasonAgeFingerS\n" ++
  "\tpecificConnectionWishResponsePrettyMovementCardLogNumberSumTreeE\n" ++
  "\tntireCitizenThroughoutPetSimilarVictimNewspaperThreatClassShakeS\n" ++
  "\tourceAccountPainFallRichPossibleAcceptSolidTravelTalkSaidCreateN\n" ++
  "\tonePlentyPeriodDefineNormalRevealDrinkAuthorServeNameMomentAgent\n" ++
  "\tDocumentActivityAnywayAfraidTypeActiveTrainInterestingRadioDange\n" ++
  "\trGenerationLeafCopyMatchClaimAnyoneSoftwarePartyDeviceCodeLangua\n" ++
  "\tgeLinkHoweverConfirmCommentCityAnywhereSomewhereDebateDriveHighe\n" ++
  "\trBeautifulOnlineFanPriorityTraditionalSixUnited"

/-! ## character classes -/

def isLower (c : Nat) : Bool := decide (97 ≤ c ∧ c ≤ 122)
def isUpper (c : Nat) : Bool := decide (65 ≤ c ∧ c ≤ 90)
/-- Go: `isText(val) = isLowerCase(val | 0x20)` -/
def isText (c : Nat) : Bool := isLower (c ||| 0x20)

/-- Go: `_TC_DELIMITER_CHARS[val]` (`initDelimiterChars`) -/
def isDelimiter (c : Nat) : Bool :=
  decide ((32 ≤ c ∧ c ≤ 47) ∨ (58 ≤ c ∧ c ≤ 63)) || c == 10 || c == 13 || c == 9 || c == 95 || c == 124 ||
    c == 123 || c == 125 || c == 91 || c == 93

/-! ## word hashes -/

/-- Go: `h = h*_TC_HASH1 ^ int32(c)*_TC_HASH2` on `int32` values, as bit patterns.  (`irreducible`: the
    elaborator must never try to evaluate the products with the 31-bit constants by unfolding.) -/
@[irreducible] def hashStep (h c : Nat) : Nat := ((h * HASH1) % 2 ^ 32) ^^^ ((c * HASH2) % 2 ^ 32)

/-- Go: `h1` of a word (start value `_TC_HASH1`) -/
def hashWord (w : List Nat) : Nat := w.foldl hashStep HASH1

/-- the word with the case bit of its first byte flipped (Go: `h2`, `dst[dstIdx] ^= 0x20`) -/
def flipFirst : List Nat → List Nat
  | [] => []
  | c :: r => (c ^^^ 0x20) :: r

/-! ## dictionary -/

/-- Go: `dictEntry`; `data = len<<24 | idx`, `ptr[0:len]` -/
structure Entry where
  hash : Nat
  len : Nat
  idx : Nat
  ptr : Option (List Nat)
deriving Repr, DecidableEq, Inhabited

/-- the zero value of `dictEntry` -/
def Entry.zero : Entry := ⟨0, 0, 0, none⟩
/-- Go: `dictEntry{ptr: nil, hash: 0, data: int32(i)}` -/
def Entry.fresh (i : Nat) : Entry := ⟨0, 0, i, none⟩

/-- loop state of `createDictionary`: the (lower-cased) bytes since `anchor`, `h`, `nbWords`, `dict` -/
structure CD where
  cur : Array Nat
  h : Nat
  nb : Nat
  dict : Array Entry

/-- Go: one iteration of the main loop of `createDictionary` (the loop stops when `nbWords = maxWords`) -/
def cdStep (maxWords : Nat) (s : CD) (c : Nat) : CD :=
  if s.nb < maxWords then
    if isUpper c then
      if s.cur.size > 0 then
        { cur := #[c ^^^ 0x20], h := hashStep HASH1 (c ^^^ 0x20), nb := s.nb + 1,
          dict := s.dict.setIfInBounds s.nb ⟨s.h, s.cur.size, s.nb, some s.cur.toList⟩ }
      else { s with cur := s.cur.push (c ^^^ 0x20), h := hashStep s.h (c ^^^ 0x20) }
    else { s with cur := s.cur.push c, h := hashStep s.h c }
  else s

/-- Go: `createDictionary(words, dict, maxWords, startWord)`: `(nbWords, dict)`.  The in-place edits of
    `words` (non-letters removed, capitals lower-cased) are visible through the `ptr` slices: an entry
    holds the lower-cased bytes. -/
def createDictionary (raw : List Nat) (dict : Array Entry) (maxWords startWord : Nat) : Nat × Array Entry :=
  let s := (raw.filter isText).foldl (cdStep maxWords) ⟨#[], HASH1, startWord, dict⟩
  if s.nb < maxWords then
    (s.nb + 1, s.dict.setIfInBounds s.nb ⟨s.h, s.cur.size, s.nb, some s.cur.toList⟩)
  else (s.nb, s.dict)

/-- (`irreducible`: the elaborator must not evaluate the dictionary when it meets `staticInit.1`.) -/
@[irreducible] def staticInit : Nat × Array Entry :=
  createDictionary (dictEN.toList.map Char.toNat) (Array.replicate 1024 Entry.zero) 1024 0

/-! The functions that read the static dictionary (`reset` and everything above it) take it as the two
explicit arguments `sw` (Go `_TC_STATIC_DICT_WORDS`) and `sd` (Go `_TC_STATIC_DICTIONARY`): the names with
the suffix `S`.  The Go functions are these instantiated with `staticInit.1`, `staticInit.2` (end of the
file).  (The theorems are proved for any well-formed static dictionary, and `createDictionary` is proved to
produce a well-formed one for ANY word string: nothing in the proofs evaluates the 1024 words.) -/

/-- Go: the codec state that concerns the dictionary -/
structure Dict where
  map : Array Nat
  list : Array Entry
  size : Nat
  ssz : Nat
  hsz : Nat

def entryAt (d : Dict) (k : Nat) : Entry := d.list.getD k Entry.zero

/-- Go: `this.dictMap[h&this.hashMask]` (`none` = nil, `some k` = `&this.dictList[k]`) -/
def findEntry (d : Dict) (h : Nat) : Option Nat :=
  let p := d.map.getD (h % d.hsz) 0
  if p = 0 then none else some (p - 1)

/-- Go: `log, _ := internal.Log2(uint32(x))` (0 with a dropped error for 0) -/
def log2u32 (x : Nat) : Nat := if x % 2 ^ 32 = 0 then 0 else Kanzi.FSD.log2NoCheck (x % 2 ^ 32)

/-- Go: `logHashSize` of `newTextCodec1WithCtx`: `bs` = the `blockSize` entry, `tpaqx` = the `entropy` entry
    upper-cased is "TPAQX" -/
def logHash1 (bs : Option Nat) (tpaqx : Bool) : Nat :=
  let log := match bs with
    | some b => if b ≥ 8 then max (min (log2u32 (b / 8)) 26) 13 else 13
    | none => 13
  if tpaqx then log + 1 else log

/-- Go: `logHashSize` of `newTextCodec2WithCtx` -/
def logHash2 (bs : Option Nat) (tpaqx : Bool) : Nat :=
  let log := match bs with
    | some b => if b ≥ 32 then max (min (log2u32 (b / 32)) 24) 13 else 13
    | none => 13
  if tpaqx then log + 1 else log

/-- Go: the `dictSize` chosen by `reset(count)` (initial value `1 << 13`) -/
def dictSizeFor (count : Nat) : Nat :=
  if count ≥ 1024 then 1 <<< (max (min (log2u32 (count / 128)) 18) 13) else 1 <<< 13

/-- Go: `staticDictSize` after `reset` -/
def staticSize (sw : Nat) (tc2 : Bool) : Nat := if tc2 then sw else sw + 2

/-- Go: `dictList` after `reset` on a fresh instance: the static dictionary, for codec 1 the two escape
    entries, then the pre-allocated empty entries -/
def resetList (sw : Nat) (sd : Array Entry) (tc2 : Bool) (size : Nat) : Array Entry :=
  Array.ofFn (n := size) fun i =>
    if i.val < sw then sd.getD i.val Entry.zero
    else if tc2 then Entry.fresh i.val
    else if i.val = sw then ⟨0, 1, sw, some [ESCAPE_TOKEN2]⟩
    else if i.val = sw + 1 then ⟨0, 1, sw + 1, some [ESCAPE_TOKEN1]⟩
    else Entry.fresh i.val

/-- Go: "Update map": `for i < staticDictSize { dictMap[dictList[i].hash&hashMask] = &dictList[i] }` -/
def resetMap (hsz ssz : Nat) (list : Array Entry) : Array Nat :=
  (List.range ssz).foldl (fun m i => m.setIfInBounds ((list.getD i Entry.zero).hash % hsz) (i + 1))
    (Array.replicate hsz 0)

/-- Go: `reset(count)` on a fresh instance -/
def reset (sw : Nat) (sd : Array Entry) (tc2 : Bool) (hsz count : Nat) : Dict :=
  let size := dictSizeFor count
  let list := resetList sw sd tc2 size
  ⟨resetMap hsz (staticSize sw tc2) list, list, size, staticSize sw tc2, hsz⟩

/-- Go: `expandDictionary` when it returns true -/
def expand (d : Dict) : Dict :=
  let size := d.size
  { d with
    list := (List.range size).foldl (fun l k => l.setIfInBounds (size + k) (Entry.fresh (size + k)))
      (d.list ++ Array.replicate size Entry.zero)
    size := size * 2 }

/-- Go: "Replace entry if not in static dictionary ... Dictionary full ?": store the word in
    `dictList[words]`, update the map, advance the ring index.  Returns the dictionary and `words`. -/
def learn (d : Dict) (words : Nat) (word : List Nat) (h1 : Nat) : Out (Dict × Nat) :=
  if words ≥ d.list.size then .fault "dict-index"
  else
    let pe := entryAt d words
    let hsz := d.hsz
    let d1 : Dict :=
      if pe.idx % (MASK_LENGTH + 1) ≥ d.ssz then
        { d with
          map := d.map.setIfInBounds (pe.hash % hsz) 0
          list := d.list.setIfInBounds words ⟨h1, word.length, words, some word⟩ }
      else d
    let d2 : Dict := { d1 with map := d1.map.setIfInBounds (h1 % hsz) (words + 1) }
    if words + 1 ≥ d2.size then
      if d2.size ≥ MAX_DICT_SIZE then
        let ssz := d2.ssz
        .ok (d2, ssz)
      else .ok (expand d2, words + 1)
    else .ok (d2, words + 1)

/-- Go: `pe != nil && pe.hash == h && pe.data>>24 == length` -/
def hit (d : Dict) (p : Option Nat) (h len : Nat) : Bool :=
  match p with
  | none => false
  | some k => (entryAt d k).hash = h && (entryAt d k).len = len

/-- Go: `sameWords(pe.ptr[1:length], src[delimAnchor+2:])` -/
def sameTail (w word : List Nat) : Bool := (w.take word.length).drop 1 == word.drop 1

/-- Go (Forward): "Check word in dictionary" + "Check for hash collisions": `(pe, pe1)` -/
def fwdLookup (d : Dict) (word : List Nat) : Out (Option Nat × Option Nat) :=
  let h1 := hashWord word
  let p1 := findEntry d h1
  let cand :=
    if hit d p1 h1 word.length then p1
    else
      let h2 := hashWord (flipFirst word)
      let p2 := findEntry d h2
      if hit d p2 h2 word.length then p2 else none
  match cand with
  | none => .ok (none, p1)
  | some k =>
    match (entryAt d k).ptr with
    | none => .fault "nil-ptr"
    | some w => if sameTail w word then .ok (some k, p1) else .ok (none, p1)

/-! ## token formats -/

/-- Go: `emitWordIndex1` (the bytes stored) -/
def wordIndex1 (val : Nat) : List Nat :=
  if val < THRESHOLD1 then [val]
  else if val < THRESHOLD2 then [(0x80 ||| (val >>> 7)) % 256, val &&& 0x7F]
  else [(0xE0 ||| (val >>> 14)) % 256, (0x80 ||| (val >>> 7)) % 256, val &&& 0x7F]

/-- Go: `emitWordIndex2` (the bytes stored) -/
def wordIndex2 (val : Nat) : List Nat :=
  let w := val + 1
  if w ≥ THRESHOLD3 then
    if w ≥ THRESHOLD4 then [(0xF0 ||| (w >>> 16)) % 256, (w >>> 8) % 256, w % 256]
    else [(0xC0 ||| (w >>> 8)) % 256, w % 256]
  else [0x80 ||| w]

/-- Go: `textCodec1.emitSymbols(src, dst[dstIdx:dstEnd])`; `none` = the overflow result `len(dst)+1` -/
def emitSymbols1 (crlf : Bool) (ssz dstEnd : Nat) : List Nat → Array Nat → Option (Array Nat)
  | [], out => some out
  | cur :: rest, out =>
    if out.size ≥ dstEnd then none
    else if cur = ESCAPE_TOKEN1 ∨ cur = ESCAPE_TOKEN2 then
      let idx := if cur = ESCAPE_TOKEN1 then ssz - 1 else ssz - 2
      let lenIdx := if idx ≥ THRESHOLD2 then 3 else if idx < THRESHOLD1 then 1 else 2
      if out.size + 1 + lenIdx ≥ dstEnd then none
      else emitSymbols1 crlf ssz dstEnd rest (out.push ESCAPE_TOKEN1 ++ wordIndex1 idx)
    else if cur = CR ∧ crlf = true then emitSymbols1 crlf ssz dstEnd rest out
    else emitSymbols1 crlf ssz dstEnd rest (out.push cur)

/-- the bytes codec 2 stores for one source byte -/
def sym2 (crlf : Bool) (cur : Nat) : List Nat :=
  if cur = ESCAPE_TOKEN1 then [ESCAPE_TOKEN1, ESCAPE_TOKEN1]
  else if cur = CR then (if crlf then [] else [cur])
  else if cur ≥ 0x80 then [ESCAPE_TOKEN1, cur]
  else [cur]

/-- Go: the checked branch of `textCodec2.emitSymbols` -/
def emitSymbols2Slow (crlf : Bool) (dstEnd : Nat) : List Nat → Array Nat → Option (Array Nat)
  | [], out => some out
  | cur :: rest, out =>
    if cur = ESCAPE_TOKEN1 then
      if out.size + 1 ≥ dstEnd then none
      else emitSymbols2Slow crlf dstEnd rest ((out.push ESCAPE_TOKEN1).push ESCAPE_TOKEN1)
    else if cur = CR then
      if crlf then emitSymbols2Slow crlf dstEnd rest out
      else if out.size ≥ dstEnd then none
      else emitSymbols2Slow crlf dstEnd rest (out.push cur)
    else if cur ≥ 0x80 then
      if out.size ≥ dstEnd then none
      else if out.size + 1 ≥ dstEnd then none
      else emitSymbols2Slow crlf dstEnd rest ((out.push ESCAPE_TOKEN1).push cur)
    else if out.size ≥ dstEnd then none
    else emitSymbols2Slow crlf dstEnd rest (out.push cur)

/-- Go: `textCodec2.emitSymbols(src, dst[dstIdx:dstEnd])` (unchecked branch when `2*len(src) < len(dst)`) -/
def emitSymbols2 (crlf : Bool) (dstEnd : Nat) (bs : List Nat) (out : Array Nat) : Option (Array Nat) :=
  if 2 * bs.length < dstEnd - out.size then some (out ++ bs.flatMap (sym2 crlf))
  else emitSymbols2Slow crlf dstEnd bs out

def emitSymbols (tc2 crlf : Bool) (ssz dstEnd : Nat) (bs : List Nat) (out : Array Nat) : Option (Array Nat) :=
  if tc2 then emitSymbols2 crlf dstEnd bs out else emitSymbols1 crlf ssz dstEnd bs out

/-! ## block analysis -/

/-- Go: `freqs1[prv][cur]++` over the block (`prv` starts at 0); cell `[p][c]` is index `256 p + c` -/
def order1Go : List Nat → Nat → Array Nat → Array Nat
  | [], _, a => a
  | c :: r, prv, a => order1Go r c (a.modify (prv * 256 + c) (· + 1))

def f1 (a : Array Nat) (p c : Nat) : Nat := a.getD (p * 256 + c) 0

def sumIf (freqs : Array Nat) (p : Nat → Bool) (n : Nat) : Nat :=
  ((List.range n).filter p).foldl (fun s i => s + fq freqs i) 0

def sumRows (fr1 : Array Nat) (lo n c : Nat) : Nat :=
  (List.range n).foldl (fun s k => s + f1 fr1 (lo + k) c) 0

/-- Go: what one iteration `i` of the loop "Check rules for first 2 bytes" adds to `sum` -/
def utf8Bad (fr1 : Array Nat) (i : Nat) : Nat :=
  (if i < 0xA0 ∨ i > 0xBF then f1 fr1 0xE0 i else 0) +
  (if i < 0x80 ∨ i > 0x9F then f1 fr1 0xED i else 0) +
  (if i < 0x90 ∨ i > 0xBF then f1 fr1 0xF0 i else 0) +
  (if i < 0x80 ∨ i > 0x8F then f1 fr1 0xF4 i else 0) +
  (if i < 0x80 ∨ i > 0xBF then
      sumRows fr1 0xC2 30 i + sumRows fr1 0xE1 12 i + f1 fr1 0xF1 i + f1 fr1 0xF2 i + f1 fr1 0xF3 i +
        f1 fr1 0xEE i + f1 fr1 0xEF i
    else 0)

/-- Go: `detectTextType(freqs0, freqs, count)` -/
def detectTextType (freqs0 fr1 : Array Nat) (count : Nat) : Nat :=
  let dt := detectSimpleType count freqs0
  if dt ≠ 0 then MASK_NOT_TEXT ||| dt
  else if fq freqs0 0xC0 + fq freqs0 0xC1 + (List.range 11).foldl (fun s k => s + fq freqs0 (0xF5 + k)) 0 ≠ 0 then
    MASK_NOT_TEXT
  else if (List.range 256).foldl (fun s i => s + utf8Bad fr1 i) 0 ≠ 0 then MASK_NOT_TEXT
  else if (List.range 64).foldl (fun s k => s + fq freqs0 (0x80 + k)) 0 ≥ count / 8 then
    MASK_NOT_TEXT ||| Kanzi.RLT.DT_UTF8
  else MASK_NOT_TEXT

/-- Go: the XML / HTML test of `computeTextStats` -/
def xmlFlag (freqs0 fr1 : Array Nat) (count nbBin : Nat) : Nat :=
  if nbBin ≤ count - count / 10 then
    let a := fq freqs0 60
    let b := fq freqs0 62
    let f3 := f1 fr1 38 97 + f1 fr1 38 103 + f1 fr1 38 108 + f1 fr1 38 113
    let minFreq := max ((count - nbBin) >>> 9) 2
    if a ≥ minFreq ∧ b ≥ minFreq ∧ f3 > 0 then
      if a < b then (if a ≥ b - b / 100 then MASK_XML_HTML else 0)
      else if b < a then (if b ≥ a - a / 100 then MASK_XML_HTML else 0)
      else MASK_XML_HTML
    else 0
  else 0

/-- Go: the CR+LF test of `computeTextStats` -/
def crlfFlag (freqs0 fr1 : Array Nat) : Nat :=
  if fq freqs0 CR ≠ 0 ∧ fq freqs0 CR = fq freqs0 LF then
    if (List.range 256).all (fun i => !((i ≠ LF ∧ f1 fr1 CR i ≠ 0) ∨ (i ≠ CR ∧ f1 fr1 i LF ≠ 0))) then MASK_CRLF else 0
  else 0

/-- Go: `notText` of `computeTextStats` -/
def notText (strict : Bool) (freqs0 : Array Nat) (count : Nat) : Bool :=
  let nbText := fq freqs0 CR + fq freqs0 LF + sumIf freqs0 isText 128
  let nbASCII := sumIf freqs0 (fun _ => true) 128
  let nbBin := count - nbASCII
  if nbBin > count >>> 2 then true
  else
    decide (nbText < count / 4) ||
      (if strict then decide (fq freqs0 0 ≥ count / 100) || decide (nbASCII / 95 < count / 100)
       else decide (fq freqs0 32 < count / 50))

/-- Go: `computeTextStats(block, freqs0, freqs1, strict)` on zeroed `freqs0`: the mode byte -/
def computeStats (strict : Bool) (block : List Nat) : Nat :=
  if strict = false ∧ Kanzi.FSD.getMagicType block ≠ 0 then MASK_NOT_TEXT
  else
    let count := block.length
    let freqs0 := Kanzi.RLT.histogram block
    let fr1 := order1Go block 0 (Array.replicate 65536 0)
    if notText strict freqs0 count then detectTextType freqs0 fr1 count
    else xmlFlag freqs0 fr1 count (count - sumIf freqs0 (fun _ => true) 128) ||| crlfFlag freqs0 fr1

/-! ## Forward -/

/-- loop state of Forward: `srcIdx`, `delimAnchor + 1`, `emitAnchor`, `words`, the dictionary, `dst[0:dstIdx]` -/
structure FSt where
  i : Nat
  ws : Nat
  ea : Nat
  words : Nat
  d : Dict
  out : Array Nat

/-- Go: the token of a dictionary word: codec 1 `ESCAPE_TOKEN1/2` + `emitWordIndex1`, codec 2 the optional
    flip byte 0x80 + `emitWordIndex2` -/
def fwdToken (tc2 : Bool) (dstLen : Nat) (out : Array Nat) (viaP1 : Bool) (idx : Nat) : Out (Array Nat) :=
  if tc2 then wr dstLen out ((if viaP1 then [] else [MASK_FLIP_CASE]) ++ wordIndex2 idx)
  else wr dstLen out ((if viaP1 then ESCAPE_TOKEN1 else ESCAPE_TOKEN2) :: wordIndex1 idx)

/-- Go: "Skip space if only delimiter between 2 word references":
    `if (emitAnchor != delimAnchor) || (src[delimAnchor] != ' ') { dstIdx += emitSymbols(src[emitAnchor:delimAnchor+1], dst[dstIdx:dstEnd]) }`;
    the overflow result of `emitSymbols` makes the following test `dstIdx >= dstEnd4` fail: `.err "full"` -/
def emitPending (tc2 crlf : Bool) (ssz dstEnd : Nat) (src : Array Nat) (ea ws : Nat) (out : Array Nat) :
    Out (Array Nat) :=
  if ea + 1 ≠ ws ∨ src.getD (ws - 1) 0 ≠ 32 then
    if ea > ws then .fault "src-slice"
    else if out.size > dstEnd then .fault "dst-slice"
    else
      match emitSymbols tc2 crlf ssz dstEnd (src.extract ea ws).toList out with
      | some o => .ok o
      | none => .err "full"
  else .ok out

/-- Go: the body of `if (srcIdx > delimAnchor+2) && isDelimiter(src[srcIdx])` of Forward at the non-letter
    byte `c = src[srcIdx]` (everything before "Reset delimiter position") -/
def fwdWord (tc2 : Bool) (src : Array Nat) (dstLen dstEnd : Nat) (crlf : Bool) (s : FSt) (c : Nat) : Out FSt :=
  let i := s.i
  let ws := s.ws
  let ea := s.ea
  let words := s.words
  let d := s.d
  let out := s.out
  if i ≥ ws + 2 ∧ isDelimiter c = true ∧ i - ws ≤ MAX_WORD_LENGTH then
    let word := (src.extract ws i).toList
    match fwdLookup d word with
    | .err e => .err e
    | .fault e => .fault e
    | .ok r =>
      match r.1 with
      | none =>
        if (i - ws > 3 ∨ (i - ws = 3 ∧ words < THRESHOLD2)) ∧ r.2 = none then
          match learn d words word (hashWord word) with
          | .ok p => .ok ⟨i, ws, ea, p.2, p.1, out⟩
          | .err e => .err e
          | .fault e => .fault e
        else .ok ⟨i, ws, ea, words, d, out⟩
      | some k =>
        match emitPending tc2 crlf d.ssz dstEnd src ea ws out with
        | .err e => .err e
        | .fault e => .fault e
        | .ok o =>
          if o.size + (if tc2 then 3 else 4) ≥ dstEnd then .err "full"
          else
            match fwdToken tc2 dstLen o (r.2 = some k) ((entryAt d k).idx % (MASK_LENGTH + 1)) with
            | .ok o2 => .ok ⟨i, ws, ws + (entryAt d k).len, words, d, o2⟩
            | .err e => .err e
            | .fault e => .fault e
  else .ok ⟨i, ws, ea, words, d, out⟩

/-- Go: the main loop of Forward -/
def fwdLoop (tc2 : Bool) (src : Array Nat) (dstLen dstEnd : Nat) (crlf : Bool) : Nat → FSt → Out FSt
  | 0, _ => .fault "fuel"
  | f + 1, s =>
    let i := s.i
    if i < src.size then
      if isText (src.getD i 0) then fwdLoop tc2 src dstLen dstEnd crlf f { s with i := i + 1 }
      else
        match fwdWord tc2 src dstLen dstEnd crlf s (src.getD i 0) with
        | .ok s' => fwdLoop tc2 src dstLen dstEnd crlf f { s' with ws := i + 1, i := i + 1 }
        | .err e => .err e
        | .fault e => .fault e
    else .ok s

/-- Go: `for srcIdx < srcEnd && src[srcIdx] == ' ' { dst[dstIdx] = ' '; srcIdx++; dstIdx++; emitAnchor++ }` -/
def leadSpaces (src : Array Nat) (dstLen : Nat) : Nat → Nat → Array Nat → Out (Nat × Array Nat)
  | 0, _, _ => .fault "fuel"
  | f + 1, i, out =>
    if i < src.size ∧ src.getD i 0 = 32 then (wr dstLen out [32]).bind fun o => leadSpaces src dstLen f (i + 1) o
    else .ok (i, out)

/-- Go: "Emit last symbols" and the final checks of Forward -/
def fwdFinish (tc2 : Bool) (src : Array Nat) (dstEnd : Nat) (crlf : Bool) (s : FSt) : Res :=
  if s.ea > src.size then .fault "src-slice"
  else if s.out.size > dstEnd then .fault "dst-slice"
  else
    match emitSymbols tc2 crlf s.d.ssz dstEnd (src.extract s.ea src.size).toList s.out with
    | none => .err "full"
    | some o => if s.i ≠ src.size then .err "srcidx" else .ok o.toList

/-- Go: the part of `Forward` from `reset` to the end of the main loop: the final loop state -/
def codecForwardLoopS (sw : Nat) (sd : Array Entry) (tc2 : Bool) (hsz mode : Nat) (src : List Nat) (dstLen : Nat) :
    Out FSt :=
  let a := src.toArray
  let d := reset sw sd tc2 hsz src.length
  let crlf : Bool := mode &&& MASK_CRLF ≠ 0
  (wr dstLen #[] [mode]).bind fun o0 =>
    (leadSpaces a dstLen (a.size + 1) 0 o0).bind fun p =>
      match a[p.1]? with
      | none => .fault "src-index"
      | some c =>
        fwdLoop tc2 a dstLen a.size crlf (a.size + 1) ⟨p.1, if isText c then p.1 else p.1 + 1, p.1, d.ssz, d, p.2⟩

/-- Go: `textCodec1.Forward` (`tc2 = false`) / `textCodec2.Forward` (`tc2 = true`) with `len(dst) = dstLen`
    (`codecForwardLoopS`: everything from `reset` to the end of the main loop, for the accepted mode byte) -/
def codecForwardS (sw : Nat) (sd : Array Entry) (tc2 : Bool) (hsz dt : Nat) (src : List Nat) (dstLen : Nat) : Res :=
  if dstLen < src.length then .err "dst"
  else if dt ≠ 0 ∧ dt ≠ DT_TEXT ∧ dt ≠ Kanzi.RLT.DT_BIN then .err "nottext"
  else
    let mode := computeStats (!tc2) src
    if mode &&& MASK_NOT_TEXT ≠ 0 then .err "nottext"
    else
      (codecForwardLoopS sw sd tc2 hsz mode src dstLen).bind fun s =>
        fwdFinish tc2 src.toArray src.toArray.size (mode &&& MASK_CRLF ≠ 0) s

/-- Go: `TextCodec.Forward` -/
def textForwardS (sw : Nat) (sd : Array Entry) (tc2 : Bool) (hsz dt : Nat) (src : List Nat) (dstLen : Nat) : Res :=
  if src.length = 0 ∨ dstLen = 0 then .ok []
  else if src.length < MIN_BLOCK_SIZE then .err "small"
  else if src.length > MAX_BLOCK_SIZE then .err "big"
  else codecForwardS sw sd tc2 hsz dt src dstLen

/-- Go: `MaxEncodedLen` (both codecs) -/
def textMaxEncodedLen (srcLen : Nat) : Nat := srcLen

/-- the `dataType` entry Forward stores into the ctx map (`none`: the map is left alone) -/
def textCtxWrite (tc2 : Bool) (dt : Nat) (src : List Nat) (dstLen : Nat) : Option Nat :=
  if src.length = 0 ∨ dstLen = 0 ∨ src.length < MIN_BLOCK_SIZE ∨ src.length > MAX_BLOCK_SIZE ∨ dstLen < src.length then none
  else if dt ≠ 0 ∧ dt ≠ DT_TEXT ∧ dt ≠ Kanzi.RLT.DT_BIN then none
  else
    let mode := computeStats (!tc2) src
    if mode &&& MASK_NOT_TEXT ≠ 0 then some (mode &&& MASK_DT) else some DT_TEXT

/-! ## Inverse -/

/-- loop state of Inverse: `srcIdx`, `delimAnchor + 1`, `words`, `wordRun`, the dictionary, `dst[0:dstIdx]` -/
structure ISt where
  i : Nat
  ws : Nat
  words : Nat
  run : Bool
  d : Dict
  out : Array Nat

/-- Go: the body of `if length <= _TC_MAX_WORD_LENGTH` of Inverse for the word `src[delimAnchor+1:srcIdx]`
    (`length = len(word)`): look the word up, learn it when it is absent and its slot is free: `(dictionary, words)` -/
def invLearnW (word : List Nat) (words : Nat) (d : Dict) : Out (Dict × Nat) :=
  let h1 := hashWord word
  let p1 := findEntry d h1
  match (match p1 with
    | none => (.ok false : Out Bool)
    | some k =>
      if (entryAt d k).hash = h1 ∧ (entryAt d k).len = word.length then
        match (entryAt d k).ptr with
        | none => .fault "nil-ptr"
        | some w => .ok (sameTail w word)
      else .ok false) with
  | .err e => .err e
  | .fault e => .fault e
  | .ok found =>
    if found = false ∧ (word.length > 3 ∨ words < THRESHOLD2) ∧ p1 = none then learn d words word h1
    else .ok (d, words)

/-- Go: `if (srcIdx > delimAnchor+3) && isDelimiter(cur) { length := ...; if length <= _TC_MAX_WORD_LENGTH {...} }`
    of Inverse -/
def invLearn (src : Array Nat) (i ws words : Nat) (d : Dict) (cur : Nat) : Out (Dict × Nat) :=
  if i ≥ ws + 3 ∧ isDelimiter cur = true ∧ i - ws ≤ MAX_WORD_LENGTH then
    invLearnW (src.extract ws i).toList words d
  else .ok (d, words)

/-- Go: `dst[dstIdx] ^= flipMask` on the copied word -/
def flipHead (flip : Nat) : List Nat → List Nat
  | [] => []
  | c :: r => (c ^^^ flip) :: r

/-- Go: "Emit word" of Inverse for `pe = &dictList[idx]`; `i2` = `srcIdx` after the token, `flip` = 0x20 or 0 -/
def emitWord (dstLen : Nat) (s : ISt) (i2 idx flip : Nat) : Out ISt :=
  let words := s.words
  let run := s.run
  let d := s.d
  let out := s.out
  if idx ≥ d.list.size then .fault "dict-index"
  else
    let e := entryAt d idx
    let length := e.len % 256
    let o1 := if length > 1 ∧ run = true then out.push 32 else out
    match e.ptr with
    | none => .err "data"
    | some w =>
      if o1.size + length ≥ dstLen then .err "data"
      else
        .ok ⟨i2, if length > 1 then i2 + 1 else i2, words, decide (length > 1), d, o1 ++ flipHead flip (w.take length)⟩

/-- Go: the `else` branch of Inverse for an ordinary byte (`s.i` = `srcIdx` after `srcIdx++`) -/
def invLit (dstLen : Nat) (crlf : Bool) (s : ISt) (cur : Nat) : Out ISt :=
  if crlf = true ∧ cur = LF then
    if s.out.size + 1 ≥ dstLen then .err "data"
    else .ok { s with run := false, ws := s.i, out := (s.out.push CR).push cur }
  else .ok { s with run := false, ws := s.i, out := s.out.push cur }

/-- Go (codec 1): "read word index (varint 5 bits + 7 bits + 7 bits)": `(idx, srcIdx)` -/
def readIdx1 (src : Array Nat) (i dsize : Nat) : Out (Nat × Nat) :=
  match src[i]? with
  | none => .fault "src-index"
  | some b0 =>
    if b0 ≥ 128 then
      match src[i + 1]? with
      | none => .fault "src-index"
      | some b1 =>
        if b1 ≥ 0x80 then
          match src[i + 2]? with
          | none => .fault "src-index"
          | some b2 =>
            let idx := (((((b0 &&& 0x7F) &&& 0x1F) <<< 7) ||| (b1 &&& 0x7F)) <<< 7) ||| b2
            if idx ≥ dsize then .err "index" else .ok (idx, i + 3)
        else
          let idx := ((b0 &&& 0x7F) <<< 7) ||| b1
          if idx ≥ dsize then .err "index" else .ok (idx, i + 2)
    else .ok (b0, i + 1)

/-- Go (codec 1): the rest of one Inverse iteration after `srcIdx++` -/
def invTok1 (src : Array Nat) (dstLen : Nat) (crlf : Bool) (s : ISt) (cur : Nat) : Out ISt :=
  if cur = ESCAPE_TOKEN1 ∨ cur = ESCAPE_TOKEN2 then
    match readIdx1 src s.i s.d.size with
    | .ok p => emitWord dstLen s p.2 p.1 (if cur = ESCAPE_TOKEN2 then 0x20 else 0)
    | .err e => .err e
    | .fault e => .fault e
  else invLit dstLen crlf s cur

/-- Go (codec 2, bsVersion >= 6): the second and third byte of a word index whose first byte has the low
    bits `idx >= 64`: `(idx before "Adjust index", srcIdx)` -/
def readIdx2Multi (src : Array Nat) (idx i : Nat) : Out (Nat × Nat) :=
  if idx ≥ 112 then
    match src[i]?, src[i + 1]? with
    | some b1, some b2 => .ok (((idx &&& 0x0F) <<< 16) ||| (b1 <<< 8) ||| b2, i + 2)
    | _, _ => .fault "src-index"
  else
    match src[i]? with
    | some b1 => .ok (((idx &&& 0x1F) <<< 8) ||| b1, i + 1)
    | none => .fault "src-index"

/-- Go (codec 2, bsVersion >= 6): "Read word index" for the first index byte `c` (`i` = `srcIdx` after it):
    `(idx, srcIdx, flipMask)`, idx already decremented.  An index 0 in the multi-byte form is not rejected by
    the Go code and then indexes `dictList[-1]`. -/
def readIdx2Core (src : Array Nat) (c i flip dsize : Nat) : Out (Nat × Nat × Nat) :=
  if c &&& 0x7F ≥ 64 then
    match readIdx2Multi src (c &&& 0x7F) i with
    | .ok r =>
      if r.1 > dsize then .err "index"
      else if r.1 = 0 then .fault "dict-index"
      else .ok (r.1 - 1, r.2, flip)
    | .err e => .err e
    | .fault e => .fault e
  else if c &&& 0x7F = 0 then .err "index"
  else .ok ((c &&& 0x7F) - 1, i, flip)

/-- Go (codec 2, bsVersion >= 6): the optional flip marker, then "Read word index" -/
def readIdx2 (src : Array Nat) (i cur dsize : Nat) : Out (Nat × Nat × Nat) :=
  if cur = MASK_FLIP_CASE then
    match src[i]? with
    | none => .fault "src-index"
    | some c => readIdx2Core src c (i + 1) 0x20 dsize
  else readIdx2Core src cur i 0 dsize

/-- Go (codec 2, bsVersion < 6): the old token format: `(idx, srcIdx, flipMask)` -/
def readIdx2Old (src : Array Nat) (i cur dsize : Nat) : Out (Nat × Nat × Nat) :=
  let idx := cur &&& 0x1F
  let flip := cur &&& 0x20
  if cur &&& 0x40 ≠ 0 then
    match src[i]? with
    | none => .fault "src-index"
    | some b1 =>
      (if b1 ≥ 128 then
          match src[i + 1]? with
          | none => (.fault "src-index" : Out (Nat × Nat))
          | some b2 => .ok ((((idx <<< 7) ||| (b1 &&& 0x7F)) <<< 7) ||| b2, i + 2)
        else .ok ((idx <<< 7) ||| b1, i + 1)).bind fun r =>
        if r.1 ≥ dsize then .err "index" else .ok (r.1, r.2, flip)
  else .ok (idx, i, flip)

/-- Go (codec 2): the rest of one Inverse iteration after `srcIdx++` -/
def invTok2 (old : Bool) (src : Array Nat) (dstLen : Nat) (crlf : Bool) (s : ISt) (cur : Nat) : Out ISt :=
  if cur ≥ 128 then
    match (if old then readIdx2Old src s.i cur s.d.size else readIdx2 src s.i cur s.d.size) with
    | .ok p => emitWord dstLen s p.2.1 p.1 p.2.2
    | .err e => .err e
    | .fault e => .fault e
  else if cur = ESCAPE_TOKEN1 then
    match src[s.i]? with
    | none => .fault "src-index"
    | some b => .ok { s with run := false, i := s.i + 1, ws := s.i + 1, out := s.out.push b }
  else invLit dstLen crlf s cur

/-- Go: one iteration of the loop of Inverse -/
def invStep (tc2 old : Bool) (src : Array Nat) (dstLen : Nat) (crlf : Bool) (s : ISt) : Out ISt :=
  let i := s.i
  let cur := src.getD i 0
  if isText cur then .ok { s with i := i + 1, out := s.out.push cur }
  else
    let ws := s.ws
    let words := s.words
    let run := s.run
    let d := s.d
    let out := s.out
    match invLearn src i ws words d cur with
    | .err e => .err e
    | .fault e => .fault e
    | .ok p =>
      if tc2 then invTok2 old src dstLen crlf ⟨i + 1, ws, p.2, run, p.1, out⟩ cur
      else invTok1 src dstLen crlf ⟨i + 1, ws, p.2, run, p.1, out⟩ cur

/-- Go: the loop of Inverse -/
def invLoop (tc2 old : Bool) (src : Array Nat) (dstLen : Nat) (crlf : Bool) : Nat → ISt → Out ISt
  | 0, _ => .fault "fuel"
  | f + 1, s =>
    if s.i < src.size ∧ s.out.size < dstLen then
      match invStep tc2 old src dstLen crlf s with
      | .ok s' => invLoop tc2 old src dstLen crlf f s'
      | .err e => .err e
      | .fault e => .fault e
    else .ok s

/-- Go: `Inverse` up to the end of its loop: the final loop state -/
def codecInverseLoopS (sw : Nat) (sd : Array Entry) (tc2 old : Bool) (hsz : Nat) (src : List Nat) (dstLen : Nat) :
    Out ISt :=
  let a := src.toArray
  let d := reset sw sd tc2 hsz dstLen
  match a[0]?, a[1]? with
  | some m, some c1 =>
    invLoop tc2 old a dstLen (m &&& MASK_CRLF ≠ 0) (a.size + 1) ⟨1, if isText c1 then 1 else 2, d.ssz, false, d, #[]⟩
  | _, _ => .fault "src-index"

/-- Go: `textCodec1.Inverse` / `textCodec2.Inverse` with `len(dst) = dstLen`; `old` = `bsVersion < 6` (codec 2)
    (`codecInverseLoopS`: everything up to the end of the loop) -/
def codecInverseS (sw : Nat) (sd : Array Entry) (tc2 old : Bool) (hsz : Nat) (src : List Nat) (dstLen : Nat) : Res :=
  (codecInverseLoopS sw sd tc2 old hsz src dstLen).bind fun s =>
    if s.i ≠ src.toArray.size then .err "srcidx" else .ok s.out.toList

/-- Go: `TextCodec.Inverse` -/
def textInverseS (sw : Nat) (sd : Array Entry) (tc2 old : Bool) (hsz : Nat) (src : List Nat) (dstLen : Nat) : Res :=
  if src.length = 0 ∨ dstLen = 0 then .ok []
  else if src.length < 2 then .err "small"
  else if src.length > MAX_BLOCK_SIZE then .err "big"
  else codecInverseS sw sd tc2 old hsz src dstLen

/-! ## the Go functions: the static dictionary is the one built from `dictEN` -/

/-- Go: `textCodec1.Forward` (`tc2 = false`) / `textCodec2.Forward` (`tc2 = true`) with `len(dst) = dstLen` -/
def codecForward (tc2 : Bool) (hsz dt : Nat) (src : List Nat) (dstLen : Nat) : Res :=
  codecForwardS staticInit.1 staticInit.2 tc2 hsz dt src dstLen

/-- Go: `TextCodec.Forward` -/
def textForward (tc2 : Bool) (hsz dt : Nat) (src : List Nat) (dstLen : Nat) : Res :=
  textForwardS staticInit.1 staticInit.2 tc2 hsz dt src dstLen

/-- Go: `textCodec1.Inverse` / `textCodec2.Inverse` with `len(dst) = dstLen`; `old` = `bsVersion < 6` (codec 2) -/
def codecInverse (tc2 old : Bool) (hsz : Nat) (src : List Nat) (dstLen : Nat) : Res :=
  codecInverseS staticInit.1 staticInit.2 tc2 old hsz src dstLen

/-- Go: `TextCodec.Inverse` -/
def textInverse (tc2 old : Bool) (hsz : Nat) (src : List Nat) (dstLen : Nat) : Res :=
  textInverseS staticInit.1 staticInit.2 tc2 old hsz src dstLen

/-- the state of Forward at the end of its main loop (specification only, used by the lock-step theorem) -/
def codecForwardLoop (tc2 : Bool) (hsz : Nat) (src : List Nat) (dstLen : Nat) : Out FSt :=
  codecForwardLoopS staticInit.1 staticInit.2 tc2 hsz (computeStats (!tc2) src) src dstLen

/-- the state of Inverse at the end of its loop (specification only, used by the lock-step theorem) -/
def codecInverseLoop (tc2 old : Bool) (hsz : Nat) (src : List Nat) (dstLen : Nat) : Out ISt :=
  codecInverseLoopS staticInit.1 staticInit.2 tc2 old hsz src dstLen

end Kanzi.Text
