import Kanzi.Model.Normalize
import Kanzi.Model.Protocol
