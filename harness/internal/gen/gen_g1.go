package gen

// Additions for the G1 search streams (rt, det, namesrt, shortread).  Nothing in gen.go is changed;
// the extra shapes live in ShapesG1 and Generate() is the single entry point used by the streams so
// that a scenario line (shape, size, dseed, bs) always regenerates the same bytes.

import (
	"encoding/binary"
	"math/rand"
)

// Fibonacci: histogram where symbol k occurs ~F(k) times (deep Huffman trees, extreme frequency
// ratios for the range/ANS normalisation), in random order.  total <= n, padded with symbol 0.
func Fibonacci(r *rand.Rand, n int) []byte {
	b := make([]byte, 0, n)
	a, c := 1, 1
	for s := 0; s < 256 && len(b) < n; s++ {
		cnt := a
		if cnt > n-len(b) {
			cnt = n - len(b)
		}
		for k := 0; k < cnt; k++ {
			b = append(b, byte(s*7+1))
		}
		a, c = c, a+c
		if a > n {
			a = n
		}
	}
	for len(b) < n {
		b = append(b, 0)
	}
	r.Shuffle(len(b), func(i, j int) { b[i], b[j] = b[j], b[i] })
	return b
}

// FibonacciSorted: same histogram, symbols in runs (not shuffled).
func FibonacciSorted(r *rand.Rand, n int) []byte {
	b := make([]byte, 0, n)
	a, c := 1, 1
	for s := 0; len(b) < n; s++ {
		cnt := a
		if cnt > n-len(b) {
			cnt = n - len(b)
		}
		for k := 0; k < cnt; k++ {
			b = append(b, byte(s))
		}
		a, c = c, a+c
		if a > n {
			a, c = 1, 1
		}
	}
	return b
}

// x86-looking code: call/jmp/jcc with plausible relative targets
func x86Code(r *rand.Rand, b []byte) {
	n := len(b)
	for i := 0; i+6 < n; {
		switch r.Intn(6) {
		case 0:
			b[i] = 0xE8
			binary.LittleEndian.PutUint32(b[i+1:], uint32(int32(r.Intn(1<<16)-(1<<15))))
			i += 5
		case 1:
			b[i] = 0xE9
			binary.LittleEndian.PutUint32(b[i+1:], uint32(int32(r.Intn(4096)-2048)))
			i += 5
		case 2:
			b[i] = 0x0F
			b[i+1] = 0x80 + byte(r.Intn(16))
			binary.LittleEndian.PutUint32(b[i+2:], uint32(int32(r.Intn(4096)-2048)))
			i += 6
		case 3:
			b[i] = 0x8B
			b[i+1] = byte(r.Intn(256))
			i += 2
		case 4:
			b[i] = 0x48
			b[i+1] = 0x89
			b[i+2] = byte(r.Intn(256))
			i += 3
		default:
			b[i] = byte(r.Intn(256))
			i++
		}
	}
}

// ElfSections: ELF64 little-endian x86-64 image with a section table INSIDE the block.  When
// wild is false the table is consistent (one or two PROGBITS sections covering the code); when wild
// is true the table position is valid but every entry has random type/offset/length fields
// (including values >= 2^63 and offset+length overflow).
func ElfSections(r *rand.Rand, n int, wild bool) []byte {
	b := make([]byte, n)
	if n < 256 {
		r.Read(b)
		if n >= 8 {
			copy(b, []byte{0x7F, 'E', 'L', 'F', 2, 1, 1, 0})
		}
		return b
	}
	x86Code(r, b)
	copy(b, []byte{0x7F, 'E', 'L', 'F', 2, 1, 1, 0})
	for i := 8; i < 64; i++ {
		b[i] = 0
	}
	binary.LittleEndian.PutUint16(b[16:], 2)    // ET_EXEC
	binary.LittleEndian.PutUint16(b[18:], 0x3E) // x86-64
	if r.Intn(8) == 0 {
		binary.LittleEndian.PutUint16(b[18:], 0xB7) // aarch64
	}
	nb := 1 + r.Intn(4)
	sz := 0x40
	pos := 64
	if r.Intn(2) == 0 && n > 2*(64+nb*sz) {
		pos = n - nb*sz - 0x30 - r.Intn(64)
	}
	binary.LittleEndian.PutUint64(b[0x28:], uint64(pos))
	binary.LittleEndian.PutUint16(b[0x3A:], uint16(sz))
	binary.LittleEndian.PutUint16(b[0x3C:], uint16(nb))
	codeOff := 64 + nb*sz
	for i := 0; i < nb; i++ {
		e := pos + i*sz
		if e+sz > n {
			break
		}
		for k := 0; k < sz; k++ {
			b[e+k] = 0
		}
		if wild {
			binary.LittleEndian.PutUint32(b[e+4:], uint32(r.Intn(3)))
			var off, ln uint64
			switch r.Intn(5) {
			case 0:
				off, ln = r.Uint64(), r.Uint64()
			case 1:
				off, ln = uint64(r.Intn(n)), r.Uint64()
			case 2:
				off, ln = r.Uint64(), uint64(r.Intn(n))
			case 3:
				off, ln = uint64(r.Intn(2*n)), uint64(r.Intn(2*n))
			default:
				off, ln = uint64(1)<<63-uint64(r.Intn(n)), uint64(r.Intn(2*n))
			}
			binary.LittleEndian.PutUint64(b[e+0x18:], off)
			binary.LittleEndian.PutUint64(b[e+0x20:], ln)
		} else {
			binary.LittleEndian.PutUint32(b[e+4:], 1) // SHT_PROGBITS
			ln := (n - codeOff) / nb
			binary.LittleEndian.PutUint64(b[e+0x18:], uint64(codeOff+i*ln))
			binary.LittleEndian.PutUint64(b[e+0x20:], uint64(ln))
		}
	}
	return b
}

// PE: MZ/PE image; wild: e_lfanew and the code offsets random.
func PE(r *rand.Rand, n int, wild bool) []byte {
	b := make([]byte, n)
	if n < 512 {
		r.Read(b)
		if n >= 2 {
			copy(b, []byte{'M', 'Z'})
		}
		return b
	}
	x86Code(r, b)
	for i := 0; i < 256; i++ {
		b[i] = 0
	}
	copy(b, []byte{'M', 'Z'})
	pe := 128
	binary.LittleEndian.PutUint32(b[60:], uint32(pe))
	copy(b[pe:], []byte{'P', 'E', 0, 0})
	binary.LittleEndian.PutUint16(b[pe+4:], 0x8664)
	binary.LittleEndian.PutUint32(b[pe+28:], uint32(n-512)) // size of code
	binary.LittleEndian.PutUint32(b[pe+44:], 512)           // base of code
	if wild {
		switch r.Intn(4) {
		case 0:
			binary.LittleEndian.PutUint32(b[60:], r.Uint32())
		case 1:
			binary.LittleEndian.PutUint32(b[pe+28:], r.Uint32())
			binary.LittleEndian.PutUint32(b[pe+44:], r.Uint32())
		case 2:
			binary.LittleEndian.PutUint32(b[pe+28:], 0xFFFFFFFF)
			binary.LittleEndian.PutUint32(b[pe+44:], uint32(r.Intn(n)))
		default:
			binary.LittleEndian.PutUint32(b[pe+44:], 0x80000000+uint32(r.Intn(n)))
		}
	}
	return b
}

// WaveFull: RIFF/WAVE with a complete 44-byte header followed by 16-bit stereo samples.
func WaveFull(r *rand.Rand, n int) []byte {
	b := Wave(r, n, false)
	if n < 64 {
		return b
	}
	copy(b, []byte("RIFF"))
	binary.LittleEndian.PutUint32(b[4:], uint32(n-8))
	copy(b[8:], []byte("WAVEfmt "))
	binary.LittleEndian.PutUint32(b[16:], 16)
	binary.LittleEndian.PutUint16(b[20:], 1)
	binary.LittleEndian.PutUint16(b[22:], 2)
	binary.LittleEndian.PutUint32(b[24:], 44100)
	binary.LittleEndian.PutUint32(b[28:], 44100*4)
	binary.LittleEndian.PutUint16(b[32:], 4)
	binary.LittleEndian.PutUint16(b[34:], 16)
	copy(b[36:], []byte("data"))
	binary.LittleEndian.PutUint32(b[40:], uint32(n-44))
	return b
}

// RepText: text with long repeated phrases (ROLZ/LZ/LZP friendly, TEXT friendly).
func RepText(r *rand.Rand, n int) []byte {
	base := Text(r, 2000+r.Intn(2000))
	b := make([]byte, 0, n+512)
	for len(b) < n {
		if r.Intn(4) == 0 {
			b = append(b, Text(r, 20+r.Intn(100))...)
		} else {
			st := r.Intn(len(base) - 300)
			b = append(b, base[st:st+20+r.Intn(280)]...)
		}
	}
	return b[:n]
}

// Mixed: concatenation of different shapes, one shape per block of `block` bytes (the last block may
// be short).  The sequence of shapes is random but every run of three consecutive blocks has
// different shapes, so per-block content detection must not carry over.
func Mixed(r *rand.Rand, n int, block int) []byte {
	if block <= 0 {
		block = 4096
	}
	pool := mixedPool
	b := make([]byte, 0, n)
	prev, prev2 := -1, -1
	for len(b) < n {
		k := r.Intn(len(pool))
		for k == prev || k == prev2 {
			k = r.Intn(len(pool))
		}
		prev2, prev = prev, k
		l := block
		if l > n-len(b) {
			l = n - len(b)
		}
		p := pool[k].F(r, l)
		if len(p) > l {
			p = p[:l]
		}
		for len(p) < l {
			p = append(p, ' ')
		}
		b = append(b, p...)
	}
	return b
}

var mixedPool = []Shape{
	{"text", Text},
	{"utf8-50", func(r *rand.Rand, n int) []byte { return UTF8(r, n, 50) }},
	{"dnarep", DNARepeats},
	{"dna", DNA},
	{"exe-elfsec", func(r *rand.Rand, n int) []byte { return ElfSections(r, n, false) }},
	{"exe-pe", func(r *rand.Rand, n int) []byte { return PE(r, n, false) }},
	{"wavefull", WaveFull},
	{"wave", func(r *rand.Rand, n int) []byte { return Wave(r, n, false) }},
	{"runs", Runs},
	{"random", Random},
	{"alpha4", func(r *rand.Rand, n int) []byte { return SmallAlpha(r, n, 4) }},
	{"base64", Base64},
	{"numeric", Numeric},
	{"zeros", func(r *rand.Rand, n int) []byte { return make([]byte, n) }},
	{"skew-250-6", func(r *rand.Rand, n int) []byte { return Skewed(r, n, 250, 6) }},
	{"reptext", RepText},
}

// MixedSafe: like Mixed but without the shapes known to crash forward transforms today
// (DNA-like blocks: F7a; random ELF tables / wild PE: F7c; thousands of code points: F7b), so that
// determinism / name / short-read streams are not drowned by the round-trip findings.
func MixedSafe(r *rand.Rand, n int, block int) []byte {
	if block <= 0 {
		block = 4096
	}
	pool := []Shape{mixedPool[0], mixedPool[1], mixedPool[6], mixedPool[7], mixedPool[8], mixedPool[9],
		mixedPool[10], mixedPool[11], mixedPool[12], mixedPool[13], mixedPool[14], mixedPool[15]}
	b := make([]byte, 0, n)
	prev := -1
	for len(b) < n {
		k := r.Intn(len(pool))
		for k == prev {
			k = r.Intn(len(pool))
		}
		prev = k
		l := block
		if l > n-len(b) {
			l = n - len(b)
		}
		p := pool[k].F(r, l)
		if len(p) > l {
			p = p[:l]
		}
		for len(p) < l {
			p = append(p, ' ')
		}
		b = append(b, p...)
	}
	return b
}

// ShapesG1 = Shapes + the G1 additions (block-independent ones).
var ShapesG1 = append(append([]Shape{}, Shapes...),
	Shape{"fib", Fibonacci},
	Shape{"fibsorted", FibonacciSorted},
	Shape{"exe-elfsec", func(r *rand.Rand, n int) []byte { return ElfSections(r, n, false) }},
	Shape{"exe-elfwild", func(r *rand.Rand, n int) []byte { return ElfSections(r, n, true) }},
	Shape{"exe-pe", func(r *rand.Rand, n int) []byte { return PE(r, n, false) }},
	Shape{"exe-pewild", func(r *rand.Rand, n int) []byte { return PE(r, n, true) }},
	Shape{"wavefull", WaveFull},
	Shape{"reptext", RepText},
	Shape{"skew-3-200", func(r *rand.Rand, n int) []byte { return Skewed(r, n, 3, 200) }},
	Shape{"skew-20-1", func(r *rand.Rand, n int) []byte { return Skewed(r, n, 20, 1) }},
	Shape{"alpha16", func(r *rand.Rand, n int) []byte { return SmallAlpha(r, n, 7) }},
)

// ShapeNames lists every name accepted by Generate.
func ShapeNames() []string {
	out := []string{}
	for _, s := range ShapesG1 {
		out = append(out, s.Name)
	}
	return append(out, "mixed", "mixedsafe")
}

// Generate returns exactly `size` bytes of the named shape from the seed (bs is only used by the
// block-structured shapes "mixed"/"mixedsafe").  ok=false for an unknown name.
func Generate(shape string, size int, seed int64, bs int) (data []byte, ok bool) {
	r := rand.New(rand.NewSource(seed))
	if size <= 0 {
		return []byte{}, true
	}
	switch shape {
	case "uniqwords":
		return UniqWords(r, size), true
	case "mixed":
		return Mixed(r, size, bs), true
	case "mixedsafe":
		return MixedSafe(r, size, bs), true
	}
	for _, s := range ShapesG1 {
		if s.Name == shape {
			b := s.F(r, size)
			if len(b) > size {
				b = b[:size]
			}
			for len(b) < size {
				b = append(b, byte(len(b)))
			}
			return b, true
		}
	}
	return nil, false
}

// UniqWords: text made of pseudo-random lower-case words that never repeat: dictionary based
// transforms cannot shrink it (their output is slightly LONGER than their input), which makes the
// decision "apply or decline" sit exactly on the output-size bound.
func UniqWords(r *rand.Rand, n int) []byte {
	out := make([]byte, 0, n+16)
	for len(out) < n {
		wl := 7 + r.Intn(4)
		for i := 0; i < wl; i++ {
			out = append(out, byte('a'+r.Intn(26)))
		}
		out = append(out, ' ')
	}
	return out[:n]
}
