/-
Proofs for the `lzp` slice, part 1: the pieces of `Kanzi/Model/LZP.lean` (writes, little-endian reads,
`findMatch`, `emitLen`, `skipFE`, `copySeq`, the hash table).  Part 2 (`LZPRound.lean`): the lock-step
simulation of Forward by Inverse; part 3 (`LZPTotal.lean`): absence of faults.
-/
import Kanzi.Model.LZP

namespace Kanzi.LZP

/-! ## Out -/

@[simp] theorem Out.bind_ok {α β : Type} (a : α) (f : α → Out β) : (Out.ok a).bind f = f a := rfl
@[simp] theorem Out.bind_err {α β : Type} (e : String) (f : α → Out β) : (Out.err e : Out α).bind f = .err e := rfl
@[simp] theorem Out.bind_fault {α β : Type} (k : String) (i l : Nat) (f : α → Out β) :
    (Out.fault k i l : Out α).bind f = .fault k i l := rfl

theorem Out.bind_eq_ok {α β : Type} (x : Out α) (f : α → Out β) (b : β) (h : x.bind f = .ok b) :
    ∃ a, x = .ok a ∧ f a = .ok b := by
  cases x with
  | ok a => exact ⟨a, rfl, h⟩
  | err e => simp at h
  | fault k i l => simp at h

theorem MIN_MATCH64_eq : MIN_MATCH64 = 64 := rfl
theorem MATCH_FLAG_eq : MATCH_FLAG = 0xFC := rfl

theorem lzpMaxEncodedLen_ge (k : Nat) : k ≤ lzpMaxEncodedLen k := by
  unfold lzpMaxEncodedLen; split <;> omega

/-! ## writes -/

theorem wr_ok (dstLen : Nat) (out : Array Nat) (bs : List Nat) (h : out.size + bs.length ≤ dstLen) :
    wr dstLen out bs = .ok (out ++ bs) := by
  unfold wr; rw [if_pos h]

theorem wr_fault (dstLen : Nat) (out : Array Nat) (bs : List Nat) (h : ¬ out.size + bs.length ≤ dstLen) :
    wr dstLen out bs = .fault "dst-index" dstLen dstLen := by
  unfold wr; rw [if_neg h]

@[simp] theorem size_appendList (out : Array Nat) (l : List Nat) : (out ++ l).size = out.size + l.length := by
  rw [← Array.length_toList, Array.toList_appendList]; simp

theorem appendList_assoc (out : Array Nat) (l1 l2 : List Nat) : out ++ l1 ++ l2 = out ++ (l1 ++ l2) := by
  apply Array.toList_inj.1; simp

theorem appendList_nil (out : Array Nat) : out ++ ([] : List Nat) = out := by
  simp

theorem push_eq_appendList (out : Array Nat) (v : Nat) : out.push v = out ++ [v] := by
  simp

/-! ## reading an array whose list is known as `p ++ (l ++ rest)` -/

theorem get_split (a : Array Nat) (p l rest : List Nat) (h : a.toList = p ++ (l ++ rest)) (j : Nat)
    (hj : j < l.length) : a[p.length + j]? = l[j]? := by
  rw [← Array.getElem?_toList, h, List.getElem?_append_right (by omega)]
  rw [show p.length + j - p.length = j by omega, List.getElem?_append_left hj]

theorem get_split' (a out : Array Nat) (l rest : List Nat) (h : a.toList = out.toList ++ (l ++ rest)) (j : Nat)
    (hj : j < l.length) : a[out.size + j]? = l[j]? := by
  have := get_split a out.toList l rest h j hj
  rwa [Array.length_toList] at this

theorem size_split (a : Array Nat) (p l rest : List Nat) (h : a.toList = p ++ (l ++ rest)) :
    p.length + l.length ≤ a.size := by
  rw [← Array.length_toList, h]; simp

theorem size_split' (a out : Array Nat) (l rest : List Nat) (h : a.toList = out.toList ++ (l ++ rest)) :
    out.size + l.length ≤ a.size := by
  have := size_split a out.toList l rest h
  rwa [Array.length_toList] at this

/-! ## little-endian reads -/

theorem le32_some (a : Array Nat) (i : Nat) (h : i + 4 ≤ a.size) : ∃ c, le32 a i = some c := by
  unfold le32
  have h0 : a[i]? = some a[i] := Array.getElem?_eq_getElem (by omega)
  have h1 : a[i + 1]? = some a[i + 1] := Array.getElem?_eq_getElem (by omega)
  have h2 : a[i + 2]? = some a[i + 2] := Array.getElem?_eq_getElem (by omega)
  have h3 : a[i + 3]? = some a[i + 3] := Array.getElem?_eq_getElem (by omega)
  rw [h0, h1, h2, h3]; exact ⟨_, rfl⟩

/-- `le32` only depends on the four bytes read -/
theorem le32_congr (a b : Array Nat) (i j : Nat) (h : ∀ k, k < 4 → a[i + k]? = b[j + k]?) :
    le32 a i = le32 b j := by
  unfold le32
  have h0 := h 0 (by omega)
  have h1 := h 1 (by omega)
  have h2 := h 2 (by omega)
  have h3 := h 3 (by omega)
  simp only [Nat.add_zero] at h0
  rw [h0, h1, h2, h3]

theorem chunk8_some (a : Array Nat) (i : Nat) (h : i + 8 ≤ a.size) : ∃ x, chunk8 a i = some x := by
  unfold chunk8; rw [if_pos h]; exact ⟨_, rfl⟩

theorem le64_some (a : Array Nat) (i : Nat) (h : i + 8 ≤ a.size) : ∃ x, le64 a i = some x := by
  obtain ⟨x, hx⟩ := chunk8_some a i h
  unfold le64; rw [hx]; exact ⟨_, rfl⟩

theorem chunk8_get (a : Array Nat) (i : Nat) (x : List Nat) (h : chunk8 a i = some x) :
    x.length = 8 ∧ ∀ k, k < 8 → x[k]? = a[i + k]? := by
  unfold chunk8 at h
  split at h
  · rename_i h8
    injection h with h
    subst h
    constructor
    · simp; omega
    · intro k hk
      rw [Array.getElem?_toList, Array.getElem?_extract, if_pos (by omega)]
  · simp at h

/-! ## common prefix length -/

theorem cpl_le (x y : List Nat) : cpl x y ≤ x.length := by
  induction x generalizing y with
  | nil => simp [cpl]
  | cons a xs ih =>
    cases y with
    | nil => simp [cpl]
    | cons b ys =>
      unfold cpl
      split
      · have := ih ys; simp; omega
      · simp

theorem cpl_get (x y : List Nat) : ∀ k, k < cpl x y → x[k]? = y[k]? := by
  induction x generalizing y with
  | nil => intro k hk; simp [cpl] at hk
  | cons a xs ih =>
    cases y with
    | nil => intro k hk; simp [cpl] at hk
    | cons b ys =>
      intro k hk
      unfold cpl at hk
      split at hk
      · rename_i hab
        subst hab
        cases k with
        | zero => simp
        | succ k => simp only [List.getElem?_cons_succ]; exact ih ys k (by omega)
      · omega

/-! ## findMatch -/

/-- `findMatch` returns a length `r ≤ maxMatch` such that the `r` bytes at `i` and at `ref` agree -/
theorem findMatch_spec (src : Array Nat) (i ref mm : Nat) : ∀ (f bl r : Nat),
    findMatch src i ref mm f bl = .ok r → bl ≤ mm → (∀ k, k < bl → src[i + k]? = src[ref + k]?) →
    bl ≤ r ∧ r ≤ mm ∧ ∀ k, k < r → src[i + k]? = src[ref + k]? := by
  intro f
  induction f with
  | zero => intro bl r h; simp [findMatch] at h
  | succ f ih =>
    intro bl r h hbl hk
    unfold findMatch at h
    split at h
    · rename_i h8
      split at h
      · rename_i x y hx hy
        obtain ⟨lx, gx⟩ := chunk8_get _ _ _ hx
        obtain ⟨ly, gy⟩ := chunk8_get _ _ _ hy
        split at h
        · rename_i hxy
          subst hxy
          have := ih (bl + 8) r h h8 (by
            intro k hk8
            by_cases hlt : k < bl
            · exact hk k hlt
            · have e1 := gx (k - bl) (by omega)
              have e2 := gy (k - bl) (by omega)
              rw [show i + bl + (k - bl) = i + k by omega] at e1
              rw [show ref + bl + (k - bl) = ref + k by omega] at e2
              rw [← e1, ← e2])
          exact ⟨by omega, this.2⟩
        · injection h with h
          subst h
          have hc := cpl_le x y
          refine ⟨by omega, by omega, ?_⟩
          intro k hk8
          by_cases hlt : k < bl
          · exact hk k hlt
          · have e0 := cpl_get x y (k - bl) (by omega)
            have e1 := gx (k - bl) (by omega)
            have e2 := gy (k - bl) (by omega)
            rw [show i + bl + (k - bl) = i + k by omega] at e1
            rw [show ref + bl + (k - bl) = ref + k by omega] at e2
            rw [← e1, ← e2, e0]
      · simp at h
    · injection h with h
      subst h
      exact ⟨Nat.le_refl _, hbl, hk⟩

/-- `findMatch` neither faults nor errs when the reads are in range and the fuel suffices -/
theorem findMatch_ok (src : Array Nat) (i ref mm : Nat) (hi : i + mm ≤ src.size) (hr : ref ≤ i) :
    ∀ (f bl : Nat), bl ≤ mm → mm < bl + 8 * f → ∃ r, findMatch src i ref mm f bl = .ok r := by
  intro f
  induction f with
  | zero => intro bl h0 h; omega
  | succ f ih =>
    intro bl h0 h
    unfold findMatch
    by_cases h8 : bl + 8 ≤ mm
    · rw [if_pos h8]
      obtain ⟨x, hx⟩ := chunk8_some src (i + bl) (by omega)
      obtain ⟨y, hy⟩ := chunk8_some src (ref + bl) (by omega)
      rw [hx, hy]
      simp only []
      split
      · exact ih (bl + 8) h8 (by omega)
      · exact ⟨_, rfl⟩
    · rw [if_neg h8]; exact ⟨_, rfl⟩

/-! ## emitLen -/

/-- the bytes of a match length: `k` times 0xFE and a last byte below 254, unless the loop was left
    because the output reached `dstEnd`; no store is out of range when `dstEnd + 2 ≤ len(dst)` -/
theorem emitLen_spec (dstLen dstEnd : Nat) (hd : dstEnd + 2 ≤ dstLen) : ∀ (f bl : Nat) (out : Array Nat),
    bl < 254 * f → out.size ≤ dstEnd →
    ∃ l : List Nat, emitLen dstLen dstEnd f bl out = .ok (out ++ l) ∧ l ≠ [] ∧ (∀ y ∈ l, y < 256) ∧
      ((∃ k r, bl = 254 * k + r ∧ r < 254 ∧ l = List.replicate k 0xFE ++ [r]) ∨ dstEnd ≤ out.size + l.length) := by
  intro f
  induction f with
  | zero => intro bl out h; omega
  | succ f ih =>
    intro bl out hf ho
    unfold emitLen
    split
    · rename_i h254
      rw [wr_ok _ _ _ (by simp; omega), Out.bind_ok]
      split
      · rename_i hend
        rw [wr_ok _ _ _ (by simp; omega), appendList_assoc]
        refine ⟨_, rfl, by simp, ?_, Or.inr ?_⟩
        · intro y hy
          simp at hy
          omega
        · simp at hend ⊢; omega
      · rename_i hend
        obtain ⟨l, e, hne, hb, hsh⟩ := ih (bl - 254) (out ++ [0xFE]) (by omega) (by simp at hend ⊢; omega)
        rw [e, appendList_assoc]
        refine ⟨_, rfl, by simp, ?_, ?_⟩
        · intro y hy
          simp at hy
          rcases hy with hy | hy
          · omega
          · exact hb y hy
        · rcases hsh with ⟨k, r, e1, e2, e3⟩ | hsh
          · left
            refine ⟨k + 1, r, by omega, e2, ?_⟩
            rw [e3, List.replicate_succ]; simp
          · right; simp at hsh ⊢; omega
    · rename_i h254
      rw [wr_ok _ _ _ (by simp; omega)]
      refine ⟨_, rfl, by simp, ?_, Or.inl ⟨0, bl, by omega, by omega, ?_⟩⟩
      · intro y hy
        simp at hy
        omega
      · have : bl % 256 = bl := by omega
        simp [this]

/-! ## skipFE -/

theorem skipFE_spec (a : Array Nat) (r : Nat) (hr : r ≠ 0xFE) : ∀ (k f i m : Nat),
    (∀ j, j < k → a[i + j]? = some 0xFE) → a[i + k]? = some r → k < f →
    skipFE a f i m = (i + k, m + 254 * k) := by
  intro k
  induction k with
  | zero =>
    intro f i m _ hk hf
    cases f with
    | zero => omega
    | succ f =>
      unfold skipFE
      simp only [Nat.add_zero] at hk
      rw [hk, if_neg (by simpa using hr)]
      simp
  | succ k ih =>
    intro f i m hj hk hf
    cases f with
    | zero => omega
    | succ f =>
      unfold skipFE
      have h0 := hj 0 (by omega)
      simp only [Nat.add_zero] at h0
      rw [h0, if_pos rfl]
      rw [ih f (i + 1) (m + 254) (by
        intro j hjk
        have := hj (j + 1) (by omega)
        rw [show i + 1 + j = i + (j + 1) by omega]; exact this) (by
        rw [show i + 1 + k = i + (k + 1) by omega]; exact hk) (by omega)]
      congr 1 <;> omega

/-- on any input: the index moves forward, stays within the array (given enough fuel it stops at the
    first byte that is not 0xFE or at the end) -/
theorem skipFE_bounds (a : Array Nat) : ∀ (f i m : Nat), i ≤ a.size →
    i ≤ (skipFE a f i m).1 ∧ (skipFE a f i m).1 ≤ a.size := by
  intro f
  induction f with
  | zero => intro i m h; simp [skipFE]; exact h
  | succ f ih =>
    intro i m h
    unfold skipFE
    split
    · rename_i hfe
      have hlt : i < a.size := by
        by_cases hlt : i < a.size
        · exact hlt
        · rw [Array.getElem?_eq_none (by omega)] at hfe; simp at hfe
      have := ih (i + 1) (m + 254) (by omega)
      exact ⟨by omega, this.2⟩
    · exact ⟨Nat.le_refl _, h⟩

/-! ## copySeq -/

/-- copying a match byte by byte reproduces the plain block when the reference lies in the part already
    written and the plain block repeats itself there -/
theorem copySeq_spec (L : List Nat) : ∀ (m r p : Nat) (out : Array Nat), out.toList = L.take p → r < p →
    p + m ≤ L.length → (∀ j, j < m → L[p + j]? = L[r + j]?) →
    ∃ o, copySeq m r out = .ok o ∧ o.toList = L.take (p + m) := by
  intro m
  induction m with
  | zero => intro r p out ho _ _ _; exact ⟨out, rfl, by simpa using ho⟩
  | succ m ih =>
    intro r p out ho hr hp hj
    unfold copySeq
    have hp' : p < L.length := by omega
    have e0 : out[r]? = some L[p] := by
      rw [← Array.getElem?_toList, ho, List.getElem?_take, if_pos hr]
      have := hj 0 (by omega)
      simp only [Nat.add_zero] at this
      rw [← this, List.getElem?_eq_getElem hp']
    rw [e0]
    simp only []
    obtain ⟨o, e1, e2⟩ := ih (r + 1) (p + 1) (out.push L[p]) (by
      rw [Array.toList_push, ho, List.take_append_getElem hp']) (by omega) (by omega) (by
      intro j hjm
      have := hj (j + 1) (by omega)
      rw [show p + 1 + j = p + (j + 1) by omega, show r + 1 + j = r + (j + 1) by omega]; exact this)
    exact ⟨o, e1, by rw [e2]; congr 1; omega⟩

/-- on any input: `copySeq` either succeeds with `m` more bytes or the read position was not yet
    written -/
theorem copySeq_total : ∀ (m r : Nat) (out : Array Nat), r < out.size →
    ∃ o, copySeq m r out = .ok o ∧ o.size = out.size + m := by
  intro m
  induction m with
  | zero => intro r out _; exact ⟨out, rfl, rfl⟩
  | succ m ih =>
    intro r out hr
    unfold copySeq
    rw [Array.getElem?_eq_getElem hr]
    simp only []
    obtain ⟨o, e1, e2⟩ := ih (r + 1) (out.push out[r]) (by simp; omega)
    exact ⟨o, e1, by rw [e2]; simp; omega⟩

/-- the `copy()` branch of Inverse (reference and copy do not overlap) -/
theorem copyExt_spec (L : List Nat) (m r p : Nat) (out : Array Nat) (ho : out.toList = L.take p)
    (hr : r + m < p) (hp : p + m ≤ L.length) (hj : ∀ j, j < m → L[p + j]? = L[r + j]?) :
    (out ++ out.extract r (r + m)).toList = L.take (p + m) := by
  apply List.ext_getElem?
  intro k
  rw [Array.toList_append, Array.toList_extract, ho]
  have hlen : (L.take p).length = p := by simp; omega
  by_cases hk : k < p
  · rw [List.getElem?_append_left (by omega), List.getElem?_take, List.getElem?_take, if_pos hk, if_pos (by omega)]
  · rw [List.getElem?_append_right (by omega), hlen]
    simp only [List.extract_eq_take_drop, List.getElem?_take, List.getElem?_drop]
    by_cases hk2 : k < p + m
    · have := hj (k - p) (by omega)
      rw [show p + (k - p) = k by omega] at this
      rw [if_pos (by omega), if_pos (by omega), if_pos hk2, this]
    · rw [if_neg (by omega), if_neg hk2]

/-! ## the hash table -/

theorem getD_set (tbl : Array Nat) (h v k : Nat) :
    (tbl.setIfInBounds h v).getD k 0 = if h = k ∧ h < tbl.size then v else tbl.getD k 0 := by
  rw [Array.getD_eq_getD_getElem?, Array.getD_eq_getD_getElem?, Array.getElem?_setIfInBounds]
  by_cases hk : h = k
  · subst hk
    by_cases hs : h < tbl.size
    · simp [hs]
    · simp [hs]
  · simp [hk]

/-- table invariant: every stored position is below the current one -/
theorem tbl_inv_step (tbl : Array Nat) (h i i' : Nat) (hinv : ∀ k, tbl.getD k 0 < i) (hi : i < i') :
    ∀ k, (tbl.setIfInBounds h i).getD k 0 < i' := by
  intro k
  rw [getD_set]
  split
  · exact hi
  · have := hinv k; omega

theorem tbl0_get (k : Nat) : tbl0.getD k 0 = 0 := by
  unfold tbl0
  rw [Array.getD_eq_getD_getElem?, Array.getElem?_replicate]
  split <;> rfl

end Kanzi.LZP
