/-
C19 (partial) — command-line tool: which files a run reads and which files it writes.
Property theorems only.  Model: `Kanzi/Model/CliPaths.lean` (`plan` = `app.BlockCompressor.Compress`
/ `app.BlockDecompressor.Decompress` up to the creation of the file tasks, with
`relativeToInputDir` (`filepath.Rel`, fallback `filepath.Base`), the pre-flight `checkOutputNames`
of the multi-file branch and `fileOutputName`; `createFileList` = `internal.CreateFileList`;
`clean` / `walkPath` = `filepath.Clean` / the names `filepath.Walk` reports).
Proofs: `Kanzi/Proofs/CliPaths*.lean`.  Tie to /repo: the `clipath` stream runs the real binary on
trees with adversarial names and compares refusal class, printed (input, output) names, new files
and exit status with the model (harness/cmd/kv/clipath.go).

Strings are byte lists.  The file system enters through oracles (`FS`); the theorems assume about
them only what is written in their hypotheses:
  `DirInput fs a`   both `Stat` calls on the `-i` argument say "directory";
  `TreeOK l`        the directory walk reports every entry once, under directory entry names
                    (not empty, not `.`, not `..`, no `/`);
  `KnzTree l`       (decompression) every name is `<directory entry name>.knz`: what compression writes.
EVERY spelling of `-i` is covered (`./T`, `T//`, `T/../T`, `.`, `..`, `X/..`, a directory called
`T.`, absolute, `X/.`), in place and with `-o <dir>`, with NO hypothesis on the spelling: the former
residual hypothesis `FinOK inp` ("`formattedInName` still names the listed directory") is proved
for every non-empty `-i` (`C19_paths_formatted_input_ok`) since the tool drops the trailing dot of
the `-i` string only in `X/.` (repair f45672a of finding P5).
`NoShadow` / `OutApart` are no longer hypotheses of the safety theorems: a run whose names clash is
refused (status 7) before any file is opened (`C19_paths_dichotomy`, `C19_paths_refusal_real`), a
run that is not refused has distinct outputs none of which is an input (`C19_paths_checked`,
`C19_paths_output_not_input`).  They remain as hypotheses of `C19_paths_no_spurious_refusal`:
trees without such names are never refused.
-/
import Kanzi.Model.CliPaths
import Kanzi.Proofs.CliPathsThm

namespace Kanzi.C19
open Kanzi.CliPaths

/-! ### the pre-flight check: dichotomy -/

/-- The outputs of a run that is not refused are pairwise distinct: no hypothesis on the tree,
the names or the spelling (several files: `checkOutputNames`; one file: trivial). -/
theorem C19_paths_outputs_distinct (fs : FS) (a : Args) (ts : List (Str × Str))
    (h : plan fs a = .tasks ts) (hsp : isSpecial a.out = false) : (ts.map (·.2)).Nodup :=
  plan_outputs_nodup fs a ts h hsp

/-- A run on several files that is not refused has passed the check: after `filepath.Clean` no
output equals an input of the run, and no two outputs are equal. -/
theorem C19_paths_checked (fs : FS) (a : Args) (ts : List (Str × Str)) (h : plan fs a = .tasks ts)
    (hsp : isSpecial a.out = false) (hlen : ts.length ≠ 1) :
    (∀ t ∈ ts, ∀ u ∈ ts, clean t.2 ≠ clean u.1) ∧ (ts.map fun t => clean t.2).Nodup := by
  have hc := plan_checked fs a ts h hsp hlen
  exact ⟨fun t ht u hu e => hc (Or.inl ⟨t, ht, u, hu, e⟩), Decidable.of_not_not (fun hn => hc (Or.inr hn))⟩

/-- DICHOTOMY.  Let `N` be the (input, output) names the tool computes (`planUnchecked`: the tool
without its check) for several files and a real output.  Either the names clash (`Clash N`: an
output is an input, or two outputs coincide) and the run is refused with status 7 — `Plan.err`:
before any file is opened — or they do not clash and exactly these tasks are run. -/
theorem C19_paths_dichotomy (fs : FS) (a : Args) (N : List (Str × Str))
    (h : planUnchecked fs a = .tasks N) (hsp : isSpecial a.out = false) (hlen : N.length ≠ 1) :
    (Clash N ∧ plan fs a = .err ERR_OVERWRITE_FILE) ∨ (¬ Clash N ∧ plan fs a = .tasks N) :=
  plan_dichotomy fs a N h hsp hlen

/-- A refusal with status 7 is never spurious: the names do clash. -/
theorem C19_paths_refusal_real (fs : FS) (a : Args) (h : plan fs a = .err ERR_OVERWRITE_FILE) :
    ∃ N, planUnchecked fs a = .tasks N ∧ N.length ≠ 1 ∧ isSpecial a.out = false ∧ Clash N :=
  plan_refusal_real fs a h

/-- Trees of directory entry names without shadowing names (in place) / apart from the output
directory (`-o`) are never refused: the check changes nothing for them. -/
theorem C19_paths_no_spurious_refusal (fs : FS) (a : Args)
    (hc : a.decomp = false) (hsp : isSpecial a.out = false) (hd : DirInput fs a)
    (ht : TreeOK (fs.tree (rootOf a.inp)))
    (hin : a.out = [] → NoShadow (fs.tree (rootOf a.inp)))
    (hout : a.out ≠ [] → OutApart a (fs.tree (rootOf a.inp))) :
    plan fs a = planUnchecked fs a :=
  no_spurious_refusal fs a (fun N hN =>
    no_clash_c _ fs a N hc hsp hd (fun _ => finOK_of_tasks _ fs a N hN) ht hin hout hN)

theorem C19_paths_no_spurious_refusal_decompress (fs : FS) (a : Args)
    (hc : a.decomp = true) (hsp : isSpecial a.out = false) (hd : DirInput fs a)
    (hnd : ((fs.tree (rootOf a.inp)).map (·.1)).Nodup) (hk : KnzTree (fs.tree (rootOf a.inp)))
    (hin : a.out = [] → NoShadow (fs.tree (rootOf a.inp)))
    (hout : a.out ≠ [] → OutApart a (fs.tree (rootOf a.inp))) :
    plan fs a = planUnchecked fs a :=
  no_spurious_refusal fs a (fun N hN =>
    no_clash_d _ fs a N hc hsp hd (fun _ => finOK_of_tasks _ fs a N hN) hnd hk hin hout hN)

/-! ### injectivity -/

/-- Compression of a directory, in place or with `-o <dir>`, for every spelling of `-i`: two
distinct input files never get the same output path — not even after `filepath.Clean` — and the
input paths are distinct. -/
theorem C19_paths_injective (fs : FS) (a : Args) (ts : List (Str × Str))
    (hc : a.decomp = false) (hsp : isSpecial a.out = false) (hd : DirInput fs a)
    (ht : TreeOK (fs.tree (rootOf a.inp)))
    (h : plan fs a = .tasks ts) :
    (ts.map (·.1)).Nodup ∧ (ts.map (·.2)).Nodup ∧ (ts.map fun t => clean t.2).Nodup := by
  have := paths_injective_c _ fs a ts hc hsp hd (fun _ => finOK_of_tasks _ fs a ts h) ht h
  exact ⟨this.1, this.2.1, this.2.2.1⟩

theorem C19_paths_injective_decompress (fs : FS) (a : Args) (ts : List (Str × Str))
    (hc : a.decomp = true) (hsp : isSpecial a.out = false) (hd : DirInput fs a)
    (hnd : ((fs.tree (rootOf a.inp)).map (·.1)).Nodup) (hk : KnzTree (fs.tree (rootOf a.inp)))
    (h : plan fs a = .tasks ts) :
    (ts.map (·.1)).Nodup ∧ (ts.map (·.2)).Nodup ∧ (ts.map fun t => clean t.2).Nodup := by
  have := paths_injective_d _ fs a ts hc hsp hd (fun _ => finOK_of_tasks _ fs a ts h) hnd hk h
  exact ⟨this.1, this.2.1, this.2.2.1⟩

/-- In place no hypothesis on the spelling at all. -/
theorem C19_paths_injective_inplace (fs : FS) (a : Args) (ts : List (Str × Str))
    (hc : a.decomp = false) (ho : a.out = []) (hd : DirInput fs a)
    (ht : TreeOK (fs.tree (rootOf a.inp))) (h : plan fs a = .tasks ts) :
    (ts.map (·.1)).Nodup ∧ (ts.map (·.2)).Nodup := by
  have := paths_injective_c _ fs a ts hc (by rw [ho]; decide) hd (fun hne => absurd ho hne) ht h
  exact ⟨this.1, this.2.1⟩

theorem C19_paths_injective_inplace_decompress (fs : FS) (a : Args) (ts : List (Str × Str))
    (hc : a.decomp = true) (ho : a.out = []) (hd : DirInput fs a)
    (hnd : ((fs.tree (rootOf a.inp)).map (·.1)).Nodup) (hk : KnzTree (fs.tree (rootOf a.inp)))
    (h : plan fs a = .tasks ts) : (ts.map (·.2)).Nodup :=
  (paths_injective_d _ fs a ts hc (by rw [ho]; decide) hd (fun hne => absurd ho hne) hnd hk h).2.1

/-! ### no output is an input -/

/-- No task writes a path that is an input path of the run — its own or another task's, compared
after `filepath.Clean` — whatever the names in the tree (no `NoShadow`, no `OutApart`): clashing
runs are refused, see the dichotomy. -/
theorem C19_paths_output_not_input (fs : FS) (a : Args) (ts : List (Str × Str))
    (hc : a.decomp = false) (hsp : isSpecial a.out = false) (hd : DirInput fs a)
    (ht : TreeOK (fs.tree (rootOf a.inp)))
    (h : plan fs a = .tasks ts) : ∀ t ∈ ts, ∀ u ∈ ts, clean t.2 ≠ clean u.1 :=
  output_not_input_of fs a ts hsp h (paths_injective_c _ fs a ts hc hsp hd (fun _ => finOK_of_tasks _ fs a ts h) ht h).2.2.2

theorem C19_paths_output_not_input_decompress (fs : FS) (a : Args) (ts : List (Str × Str))
    (hc : a.decomp = true) (hsp : isSpecial a.out = false) (hd : DirInput fs a)
    (hnd : ((fs.tree (rootOf a.inp)).map (·.1)).Nodup) (hk : KnzTree (fs.tree (rootOf a.inp)))
    (h : plan fs a = .tasks ts) : ∀ t ∈ ts, ∀ u ∈ ts, clean t.2 ≠ clean u.1 :=
  output_not_input_of fs a ts hsp h (paths_injective_d _ fs a ts hc hsp hd (fun _ => finOK_of_tasks _ fs a ts h) hnd hk h).2.2.2

theorem C19_paths_output_not_input_inplace (fs : FS) (a : Args) (ts : List (Str × Str))
    (hc : a.decomp = false) (ho : a.out = []) (hd : DirInput fs a)
    (ht : TreeOK (fs.tree (rootOf a.inp))) (h : plan fs a = .tasks ts) :
    ∀ t ∈ ts, ∀ u ∈ ts, clean t.2 ≠ clean u.1 :=
  C19_paths_output_not_input fs a ts hc (by rw [ho]; decide) hd ht h

/-! ### inside the output directory -/

/-- With `-o <dir>` every output path is `<dir>/` followed by a relative path made of directory
entry names (no `..`, no empty or absolute component), for every spelling of `-i`. -/
theorem C19_paths_within_outdir (fs : FS) (a : Args) (ts : List (Str × Str))
    (hc : a.decomp = false) (hsp : isSpecial a.out = false) (ho : a.out ≠ []) (hd : DirInput fs a)
    (ht : TreeOK (fs.tree (rootOf a.inp)))
    (h : plan fs a = .tasks ts) : ∀ t ∈ ts, Under (foutOf a.out) t.2 :=
  within_outdir_c _ fs a ts hc hsp ho hd (finOK_of_tasks _ fs a ts h) ht h

theorem C19_paths_within_outdir_decompress (fs : FS) (a : Args) (ts : List (Str × Str))
    (hc : a.decomp = true) (hsp : isSpecial a.out = false) (ho : a.out ≠ []) (hd : DirInput fs a)
    (hk : KnzTree (fs.tree (rootOf a.inp)))
    (h : plan fs a = .tasks ts) : ∀ t ∈ ts, Under (foutOf a.out) t.2 :=
  within_outdir_d _ fs a ts hc hsp ho hd (finOK_of_tasks _ fs a ts h) hk h

/-! ### round trip of the names -/

/-- Stripping undoes appending, for EVERY byte string. -/
theorem C19_paths_roundtrip_names (p : Str) : dName (cName p) = p := dName_cName p

/-- In place: the decompressor maps the name the compressor wrote back to the input name (when
that name does not read as `none` / `stdout`: then it is written as `./name`, the same file). -/
theorem C19_paths_roundtrip_inplace (isDir sp : Bool) (fin i : Str) (h : isSpecial i = false) :
    oName false isDir sp fin [] i = i ++ KNZ ∧ oName true isDir sp fin [] (i ++ KNZ) = i :=
  paths_roundtrip_inplace isDir sp fin i h

/-- Tree `inT` compressed into directory `oC`, then `inC` — the same directory, spelled in any
way (`hsame`) — decompressed into `oD`: for the entry `init/last` the compressor writes
`oC/init/last.knz`; that is, after `filepath.Clean`, the name under which the decompressor finds
it; and the decompressor writes `oD/init/last`: the relative path is preserved. -/
theorem C19_paths_roundtrip (inT oC inC oD : Str) (init : List Str) (last : Str)
    (hv : ∀ n ∈ init ++ [last], ValidName n) (hT : inT ≠ []) (hC : inC ≠ [])
    (hoC : oC ≠ []) (hoD : oD ≠ [])
    (hsame : stackOf (foutOf oC) = stackOf (rootOf inC) ∧ isRooted (foutOf oC) = isRooted (rootOf inC)) :
    oName false true false (finOf inT) (foutOf oC) (pathOf inT (init ++ [last]))
        = foutOf oC ++ joinSep (init ++ [last ++ KNZ]) ∧
    clean (foutOf oC ++ joinSep (init ++ [last ++ KNZ])) = clean (pathOf inC (init ++ [last ++ KNZ])) ∧
    oName true true false (finOf inC) (foutOf oD) (pathOf inC (init ++ [last ++ KNZ]))
        = foutOf oD ++ joinSep (init ++ [last]) :=
  paths_roundtrip inT oC inC oD init last hv hT hC (finOK_all inT hT) (finOK_all inC hC) hoC hoD hsame

/-- For every non-empty `-i` string `formattedInName` names the directory that is listed (same
component stack after `filepath.Clean`, same rootedness); they are even the same string, except
for `-i /.`. -/
theorem C19_paths_formatted_input_ok (inp : Str) (hi : inp ≠ []) :
    FinOK inp ∧ (finOf inp = rootOf inp ∨ inp = [SEP, DOT]) :=
  ⟨finOK_all inp hi, finOf_eq_rootOf inp hi⟩

/-! ### special outputs, single file, `filepath.Clean` -/

/-- An output name the tool derives from an input file name (no `-o`, or below the `-o`
directory) is never interpreted as `NONE` / `STDOUT` by the file task. -/
theorem C19_paths_no_special_output (fs : FS) (a : Args) (ts : List (Str × Str))
    (h : plan fs a = .tasks ts)
    (hder : a.out = [] ∨ (isSpecial a.out = false ∧ ∃ n, fs.stat a.inp = some (.dir, n))) :
    ∀ t ∈ ts, isSpecial t.2 = false :=
  no_special_output _ fs a ts h hder

/-- A regular file as input: one task, reading that file, writing `-o` when given, else the
mapped name. -/
theorem C19_paths_file (fs : FS) (a : Args) (ts : List (Str × Str)) (hf : FileInput fs a)
    (h : plan fs a = .tasks ts) :
    ts = [(targetOf a.inp, oName a.decomp false (isSpecial a.out) [] a.out (targetOf a.inp))] :=
  plan_file _ fs a ts hf h

theorem C19_clean_idempotent (p : Str) : clean (clean p) = clean p := clean_idem p

theorem C19_walk_names_injective (root : Str) (r1 r2 : List Str) (hp : root ≠ []) (h1 : r1 ≠ [])
    (h2 : r2 ≠ []) (v1 : ∀ n ∈ r1, ValidName n) (v2 : ∀ n ∈ r2, ValidName n)
    (h : walkPath root r1 = walkPath root r2) : r1 = r2 :=
  walkPath_inj root r1 r2 hp h1 h2 v1 v2 h

/-! ### the hypotheses are satisfiable; the repaired behaviour; the residual finding -/

private def T : Str := [84]                       -- "T"
private def dotT : Str := [46, 47, 84]            -- "./T"
private def Tdot : Str := [84, 46]                -- "T."
private def out : Str := [111, 117, 116]          -- "out"
private def x : Str := [120]                      -- "x"
private def a1 : Str := [97]                      -- "a"
private def abcdef : Str := [97, 98, 99, 100, 101, 102]

private def w1 : World :=
  { base := [[119]], cwd := [[119]],
    ents := [⟨[T], .dir⟩, ⟨[T, abcdef], .file⟩, ⟨[T, a1], .file⟩, ⟨[out], .dir⟩] }

/-- the tree {x, x.knz} -/
private def w2 : World :=
  { base := [[119]], cwd := [[119]],
    ents := [⟨[T], .dir⟩, ⟨[T, x], .file⟩, ⟨[T, x ++ KNZ], .file⟩, ⟨[out], .dir⟩] }

/-- every spelling of a directory, also a last element ending with a dot (REPAIRED, P5) -/
example : FinOK T ∧ FinOK (T ++ [SEP]) ∧ FinOK dotT ∧ FinOK [DOT] ∧ FinOK (T ++ [SEP, SEP]) ∧
    FinOK (T ++ [SEP, DOT, DOT, SEP] ++ T) ∧ FinOK (T ++ [SEP, DOT]) ∧ FinOK [SEP] ∧
    FinOK Tdot ∧ FinOK [DOT, DOT] ∧ FinOK (T ++ [SEP, DOT, DOT]) ∧ FinOK [SEP, DOT] := by decide

example : DirInput w1.fs ⟨false, dotT, out, false, false, false, false⟩ := ⟨⟨2, by decide⟩, ⟨2, by decide⟩⟩
example : TreeOK (w1.fs.tree (rootOf dotT)) := by unfold TreeOK; decide
example : NoShadow (w1.fs.tree (rootOf dotT)) := by unfold NoShadow; decide
example : OutApart ⟨false, dotT, out, false, false, false, false⟩ (w1.fs.tree (rootOf dotT)) := by
  unfold OutApart; decide
example : KnzTree [([x, x ++ KNZ], Kind.file)] := by
  intro e he
  have : e = ([x, x ++ KNZ], Kind.file) := by simpa using he
  subst this
  exact ⟨[x], x, rfl, by decide, by decide⟩

/-- REPAIRED (P1): `-i ./T -o out` keeps the names, also the one-letter name -/
example : plan w1.fs ⟨false, dotT, out, false, false, false, false⟩ = .tasks
    [(T ++ SEP :: abcdef, out ++ SEP :: abcdef ++ KNZ), (T ++ SEP :: a1, out ++ SEP :: a1 ++ KNZ)] := by decide

/-- REPAIRED (P2): in place the tree {x, x.knz} is refused with status 7, with or without -f,
because the output of x is the input x.knz; into another directory it is not -/
example : plan w2.fs ⟨false, T, [], true, false, false, false⟩ = .err ERR_OVERWRITE_FILE := by decide
example : planUnchecked w2.fs ⟨false, T, [], true, false, false, false⟩ = .tasks
    [(T ++ SEP :: x, T ++ SEP :: x ++ KNZ), (T ++ SEP :: x ++ KNZ, T ++ SEP :: x ++ KNZ ++ KNZ)] := by decide
example : plan w2.fs ⟨false, T, out, false, false, false, false⟩ = .tasks
    [(T ++ SEP :: x, out ++ SEP :: x ++ KNZ), (T ++ SEP :: x ++ KNZ, out ++ SEP :: x ++ KNZ ++ KNZ)] := by decide

/-- REPAIRED (P3): decompression of {a.knz, a.KNZ}: both names give `a`; refused with status 7 -/
example : plan { w2 with ents := [⟨[T], .dir⟩, ⟨[T, a1 ++ KNZ], .file⟩, ⟨[T, a1 ++ KNZU], .file⟩, ⟨[out], .dir⟩] }.fs
    ⟨true, T, out, true, true, false, false⟩ = .err ERR_OVERWRITE_FILE := by decide

/-- REPAIRED (P4): `none.knz` decompressed in place is written to `./none` -/
example : oName true false false [] [] ([110, 111, 110, 101] ++ KNZ) = [DOT, SEP, 110, 111, 110, 101] := by decide

/-- REPAIRED (P5): a directory called `T.` with `-o out` (before f45672a: `out/../T./abcdef.knz`) -/
example : plan { w1 with ents := [⟨[Tdot], .dir⟩, ⟨[Tdot, abcdef], .file⟩, ⟨[out], .dir⟩] }.fs
      ⟨false, Tdot, out, false, false, false, false⟩ =
    .tasks [(Tdot ++ SEP :: abcdef, out ++ SEP :: abcdef ++ KNZ)] := by decide

end Kanzi.C19
