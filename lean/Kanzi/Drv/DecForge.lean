/-
Line-protocol driver of the `decforge` correspondence stream (model side; property C03: the entropy
decoders are total on forged input).  Core Lean only.

ops (one per line; identical to harness/cmd/kv/decforge.go): ONE decoder over ONE bitstream made of
the given bytes, then `Read` calls of the listed lengths, until one of them fails
  rd <chunkSize> <c1,c2,..> <hex|->     RangeDecoder(chunkSize)          model `Kanzi.RangeDec.read`
  bd <pred> <c1,c2,..> <hex|->          BinaryEntropyDecoder, `<pred>` = a test predictor of the `binent`
                                        stream or `cm` (the real CMPredictor / its model)
  fd <c1,c2,..> <hex|->                 FPAQDecoder (bitstream version 4 and later: `decodeBitV2`)
  f3 <c1,c2,..> <hex|->                 FPAQDecoder created for bitstream version 3 (`decodeBitV1`)
  bx ...                                oracle-only runs with the real CM / TPAQ / TPAQX predictors: `ok`
answer:  one token per `Read`, `ok:<n>:<FNV-1a 64 of the n bytes stored>` (n = the value returned),
then, if every `Read` returned without error, `cap=<len of the decoder's buffer / f2s slice> read=<bits consumed>`;
a failing `Read` ends the line with its class and the capacity at that moment:
  `err cap=<c>` | `panic:eos cap=<c>` | `panic:index cap=<c>` | `panic:div0 cap=<c>` | `hang cap=<c>`
-/
import Kanzi.Model.RangeDec
import Kanzi.Model.BinDecCap
import Kanzi.Drv.Range
import Kanzi.Drv.BinEnt

namespace Kanzi.Drv

namespace DF
open Kanzi.Bits Kanzi.EntSmall

def parseCounts (s : String) : Option (List Nat) :=
  if s = "-" then some [] else (s.splitOn ",").mapM (fun x => x.toNat?)

def okTok (out : List Nat) : String := s!"ok:{out.length}:{RG.hex16 (RG.fnv64 out)}"

def clsTok : Kanzi.RangeDec.Cls → String
  | .err => "err"
  | .eos => "panic:eos"
  | .fault => "panic:index"
  | .div0 => "panic:div0"
  | .hang => "hang"

def errTok : Kanzi.BinEnt.Err → String
  | .index => "panic:index"
  | .eos => "panic:eos"
  | .invalid => "err"
  | .size => "err"

/-- the `Read` calls of a Range decoder -/
def rangeReads (chunk total : Nat) : List Nat → Array Nat → Bits → List String → String
  | [], f2s, bs, acc => " ".intercalate (acc.reverse ++ [s!"cap={f2s.size}", s!"read={total - bs.length}"])
  | c :: cs, f2s, bs, acc =>
    match Kanzi.RangeDec.read f2s bs c chunk with
    | .fail cl cap => " ".intercalate (acc.reverse ++ [clsTok cl, s!"cap={cap}"])
    | .done out t r => rangeReads chunk total cs t r (okTok out :: acc)

/-- the `Read` calls of a binary decoder with predictor `P` -/
def binReads {σ : Type} (P : Kanzi.BinEnt.Pred σ) (total : Nat) :
    List Nat → Kanzi.BinEnt.Dec σ → Bits → List String → String
  | [], d, bs, acc => " ".intercalate (acc.reverse ++ [s!"cap={d.buffer.length}", s!"read={total - bs.length}"])
  | c :: cs, d, bs, acc =>
    match Kanzi.BinEnt.Dec.readBlockCap P Kanzi.BinEnt.MAX_CHUNK d bs c with
    | (.error x, cap) => " ".intercalate (acc.reverse ++ [errTok x, s!"cap={cap}"])
    | (.ok r, _) => binReads P total cs r.2.1 r.2.2 (okTok r.1 :: acc)

def fpaqReads (P : Kanzi.BinEnt.Pred Kanzi.Fpaq.FState) (total : Nat) :
    List Nat → Kanzi.BinEnt.Dec Kanzi.Fpaq.FState → Bits → List String → String
  | [], d, bs, acc => " ".intercalate (acc.reverse ++ [s!"cap={d.buffer.length}", s!"read={total - bs.length}"])
  | c :: cs, d, bs, acc =>
    match Kanzi.Fpaq.fReadCap P Kanzi.Fpaq.DEFAULT_CHUNK d bs c with
    | (.error x, cap) => " ".intercalate (acc.reverse ++ [errTok x, s!"cap={cap}"])
    | (.ok r, _) => fpaqReads P total cs r.2.1 r.2.2 (okTok r.1 :: acc)

end DF

open DF in
/-- the `decforge` stream -/
def decforge (line : String) : String :=
  match ES.words line with
  | ["rd", cks, cs, hs] =>
    match cks.toNat?, parseCounts cs, ES.parseHex hs with
    | some chunk, some counts, some stream =>
      if chunk < 1024 ∨ chunk > Kanzi.Range.maxChunkSize then "err:ctor"
      else
        let bs := Kanzi.Bits.ofBytes stream
        rangeReads chunk bs.length counts #[] bs []
    | _, _, _ => "bad-op"
  | ["bd", spec, cs, hs] =>
    match parseCounts cs, ES.parseHex hs with
    | some counts, some stream =>
      let bs := Kanzi.Bits.ofBytes stream
      if spec = "cm" then
        binReads (Kanzi.BinEnt.Pred.ofImpure Kanzi.CM.cmGet Kanzi.CM.cmUpdate) bs.length counts
          (Kanzi.BinEnt.Dec.init (Kanzi.CM.cmInit false)) bs []
      else
        BE.withPred spec (fun _ P s0 => binReads P bs.length counts (Kanzi.BinEnt.Dec.init s0) bs [])
    | _, _ => "bad-op"
  | ["fd", cs, hs] =>
    match parseCounts cs, ES.parseHex hs with
    | some counts, some stream =>
      let bs := Kanzi.Bits.ofBytes stream
      fpaqReads Kanzi.Fpaq.fpaqP bs.length counts (Kanzi.BinEnt.Dec.init Kanzi.Fpaq.FState.init) bs []
    | _, _ => "bad-op"
  | ["f3", cs, hs] =>
    match parseCounts cs, ES.parseHex hs with
    | some counts, some stream =>
      let bs := Kanzi.Bits.ofBytes stream
      fpaqReads Kanzi.Fpaq.fpaqP1 bs.length counts (Kanzi.BinEnt.Dec.init Kanzi.Fpaq.FState.init) bs []
    | _, _ => "bad-op"
  | "bx" :: _ => "ok"
  | _ => "bad-op"

end Kanzi.Drv
