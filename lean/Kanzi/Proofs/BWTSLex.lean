/-
Slice `bwts` (C13): the lexicographic order `lexLt`, Lyndon words, and the Lyndon factorisation
`lyndonFactors` (existence: non-increasing Lyndon factors; uniqueness: Chen–Fox–Lyndon).
-/
import Kanzi.Model.BWTS

namespace Kanzi.BWTS

/-! ## `lexLt` -/

@[simp] theorem lexLt_nil_right (u : List Nat) : lexLt u [] = false := by
  cases u <;> rfl

@[simp] theorem lexLt_nil_cons (b : Nat) (v : List Nat) : lexLt [] (b :: v) = true := rfl

@[simp] theorem lexLt_cons_cons (a b : Nat) (u v : List Nat) :
    lexLt (a :: u) (b :: v) = (decide (a < b) || (decide (a = b) && lexLt u v)) := rfl

/-- `lexLt` is the strict order `<` of core Lean on `List Nat` -/
theorem lexLt_iff_lt (u v : List Nat) : lexLt u v = true ↔ u < v := by
  induction u generalizing v with
  | nil => cases v <;> simp
  | cons a u ih =>
    cases v with
    | nil => simp
    | cons b v =>
      simp only [lexLt_cons_cons, Bool.or_eq_true, decide_eq_true_eq, Bool.and_eq_true, ih,
        List.cons_lt_cons_iff]

theorem lexLt_irrefl (u : List Nat) : lexLt u u = false := by
  induction u with
  | nil => rfl
  | cons a u ih => simp [ih]

theorem lexLt_trans {u v w : List Nat} (h1 : lexLt u v = true) (h2 : lexLt v w = true) :
    lexLt u w = true := by
  induction u generalizing v w with
  | nil =>
    cases v with
    | nil => simp at h1
    | cons b v => cases w with
      | nil => simp at h2
      | cons c w => rfl
  | cons a u ih =>
    cases v with
    | nil => simp at h1
    | cons b v =>
      cases w with
      | nil => simp at h2
      | cons c w =>
        simp only [lexLt_cons_cons, Bool.or_eq_true, decide_eq_true_eq, Bool.and_eq_true] at h1 h2 ⊢
        rcases h1 with h1 | ⟨h1, h1'⟩
        · rcases h2 with h2 | ⟨h2, _⟩
          · left; omega
          · left; omega
        · rcases h2 with h2 | ⟨h2, h2'⟩
          · left; omega
          · right; exact ⟨by omega, ih h1' h2'⟩

theorem lexLt_total {u v : List Nat} (h1 : lexLt u v = false) (h2 : lexLt v u = false) : u = v := by
  induction u generalizing v with
  | nil => cases v with
    | nil => rfl
    | cons b v => simp at h1
  | cons a u ih =>
    cases v with
    | nil => simp at h2
    | cons b v =>
      simp only [lexLt_cons_cons, Bool.or_eq_false_iff, decide_eq_false_iff_not,
        Bool.and_eq_false_iff] at h1 h2
      have hab : a = b := by omega
      subst hab
      have h1' : lexLt u v = false := by
        rcases h1.2 with h | h
        · exact absurd rfl h
        · exact h
      have h2' : lexLt v u = false := by
        rcases h2.2 with h | h
        · exact absurd rfl h
        · exact h
      rw [ih h1' h2']

theorem lexLt_asymm {u v : List Nat} (h : lexLt u v = true) : lexLt v u = false := by
  cases h' : lexLt v u with
  | false => rfl
  | true => have := lexLt_trans h h'; rw [lexLt_irrefl] at this; cases this

theorem lexLt_append_left (p u v : List Nat) : lexLt (p ++ u) (p ++ v) = lexLt u v := by
  induction p with
  | nil => rfl
  | cons a p ih => simp [ih]

theorem lexLt_prefix (u v : List Nat) (hv : v ≠ []) : lexLt u (u ++ v) = true := by
  have := lexLt_append_left u [] v
  rw [List.append_nil] at this
  rw [this]
  cases v with
  | nil => exact absurd rfl hv
  | cons b v => rfl

/-- `u ≤ v` -/
def lexLe (u v : List Nat) : Prop := lexLt v u = false

theorem lexLe_iff {u v : List Nat} : lexLe u v ↔ u = v ∨ lexLt u v = true := by
  unfold lexLe
  constructor
  · intro h
    cases h' : lexLt u v with
    | true => exact Or.inr rfl
    | false => exact Or.inl (lexLt_total h' h)
  · rintro (h | h)
    · subst h; exact lexLt_irrefl u
    · exact lexLt_asymm h

theorem lexLt_of_lt_of_le {u v w : List Nat} (h1 : lexLt u v = true) (h2 : lexLe v w) :
    lexLt u w = true := by
  rcases lexLe_iff.1 h2 with h | h
  · exact h ▸ h1
  · exact lexLt_trans h1 h

theorem lexLt_of_le_of_lt {u v w : List Nat} (h1 : lexLe u v) (h2 : lexLt v w = true) :
    lexLt u w = true := by
  rcases lexLe_iff.1 h1 with h | h
  · exact h ▸ h2
  · exact lexLt_trans h h2

theorem lexLe_trans {u v w : List Nat} (h1 : lexLe u v) (h2 : lexLe v w) : lexLe u w := by
  rcases lexLe_iff.1 h1 with h | h
  · exact h ▸ h2
  · exact lexLe_iff.2 (Or.inr (lexLt_of_lt_of_le h h2))

theorem lexLe_prefix (u v : List Nat) : lexLe u (u ++ v) := by
  cases v with
  | nil => rw [List.append_nil]; exact lexLt_irrefl u
  | cons b v => exact lexLe_iff.2 (Or.inr (lexLt_prefix u _ (by simp)))

/-- a strict mismatch: common prefix `p`, then a smaller letter on the left -/
def Mis (u v : List Nat) : Prop :=
  ∃ p a b u' v', u = p ++ a :: u' ∧ v = p ++ b :: v' ∧ a < b

theorem Mis.lexLt {u v : List Nat} (h : Mis u v) (x y : List Nat) : lexLt (u ++ x) (v ++ y) = true := by
  obtain ⟨p, a, b, u', v', rfl, rfl, hab⟩ := h
  simp [List.append_assoc, lexLt_append_left, hab]

/-- `u < v` is a strict mismatch or `u` is a proper prefix of `v` -/
theorem lexLt_cases {u v : List Nat} (h : lexLt u v = true) :
    Mis u v ∨ ∃ x, x ≠ [] ∧ v = u ++ x := by
  induction u generalizing v with
  | nil =>
    cases v with
    | nil => simp at h
    | cons b v => exact Or.inr ⟨b :: v, by simp, rfl⟩
  | cons a u ih =>
    cases v with
    | nil => simp at h
    | cons b v =>
      simp only [lexLt_cons_cons, Bool.or_eq_true, decide_eq_true_eq, Bool.and_eq_true] at h
      rcases h with h | ⟨h, h'⟩
      · exact Or.inl ⟨[], a, b, u, v, rfl, rfl, h⟩
      · subst h
        rcases ih h' with ⟨p, c, d, u', v', rfl, rfl, hcd⟩ | ⟨x, hx, rfl⟩
        · exact Or.inl ⟨a :: p, c, d, u', v', rfl, rfl, hcd⟩
        · exact Or.inr ⟨x, hx, rfl⟩

theorem lexLt_mis_of_length {u v : List Nat} (h : lexLt u v = true) (hl : v.length ≤ u.length) :
    Mis u v := by
  rcases lexLt_cases h with h | ⟨x, hx, rfl⟩
  · exact h
  · have : x.length ≠ 0 := fun h0 => hx (List.eq_nil_of_length_eq_zero h0)
    simp at hl; omega

/-! ## Lyndon words -/

theorem lyndon_iff (w : List Nat) :
    Lyndon w ↔ w ≠ [] ∧ ∀ x y, w = x ++ y → x ≠ [] → y ≠ [] → lexLt w y = true := by
  unfold Lyndon
  constructor
  · rintro ⟨h0, h⟩
    refine ⟨h0, ?_⟩
    rintro x y rfl hx hy
    have hxl : x.length ≠ 0 := fun h0 => hx (List.eq_nil_of_length_eq_zero h0)
    have hyl : y.length ≠ 0 := fun h0 => hy (List.eq_nil_of_length_eq_zero h0)
    have := h x.length (by omega) (by simp; omega)
    simpa using this
  · rintro ⟨h0, h⟩
    refine ⟨h0, fun k hk hkl => ?_⟩
    refine h (w.take k) (w.drop k) (by simp) ?_ ?_
    · intro hc; have := congrArg List.length hc
      rw [List.length_take, List.length_nil] at this; omega
    · intro hc; have := congrArg List.length hc
      rw [List.length_drop, List.length_nil] at this; omega

theorem isLyndon_iff (w : List Nat) : isLyndon w = true ↔ Lyndon w := by
  unfold isLyndon Lyndon
  simp only [Bool.and_eq_true, Bool.not_eq_true', List.isEmpty_eq_false_iff, List.all_eq_true,
    List.mem_range, Bool.or_eq_true, beq_iff_eq, ne_eq]
  constructor
  · rintro ⟨h0, h⟩
    exact ⟨h0, fun k hk hkl => (h k hkl).resolve_left (by omega)⟩
  · rintro ⟨h0, h⟩
    refine ⟨h0, fun k hkl => ?_⟩
    by_cases hk : k = 0
    · exact Or.inl hk
    · exact Or.inr (h k (by omega) hkl)

theorem lyndon_singleton (c : Nat) : Lyndon [c] := by
  refine ⟨by simp, fun k hk hkl => ?_⟩
  simp at hkl; omega

theorem Lyndon.ne_nil {w : List Nat} (h : Lyndon w) : w ≠ [] := h.1

/-- the key closure property: `u < v` Lyndon ⇒ `uv` Lyndon -/
theorem lyndon_append {u v : List Nat} (hu : Lyndon u) (hv : Lyndon v) (huv : lexLt u v = true) :
    Lyndon (u ++ v) := by
  rw [lyndon_iff] at hu hv ⊢
  obtain ⟨hu0, hu⟩ := hu
  obtain ⟨hv0, hv⟩ := hv
  -- `uv < v`
  have huvv : lexLt (u ++ v) v = true := by
    rcases lexLt_cases huv with h | ⟨x, hx, rfl⟩
    · have := h.lexLt v []
      rwa [List.append_nil] at this
    · rw [lexLt_append_left]
      exact hv u x rfl hu0 hx
  refine ⟨by simp [hu0], ?_⟩
  intro x y hxy hx hy
  rcases List.append_eq_append_iff.1 hxy with ⟨a', rfl, hva⟩ | ⟨c', huc, rfl⟩
  · -- `x = u ++ a'`, `v = a' ++ y`: `y` is a suffix of `v`
    by_cases ha : a' = []
    · subst ha
      simp only [List.nil_append] at hva
      subst hva; exact huvv
    · exact lexLt_trans huvv (hv a' y hva ha hy)
  · -- `u = x ++ c'`, `y = c' ++ v`: `c'` is a suffix of `u`
    by_cases hc : c' = []
    · subst hc; simpa using huvv
    · have h1 := hu x c' huc hx hc
      have h2 := lexLt_mis_of_length h1 (by rw [huc]; simp)
      exact h2.lexLt v v

/-! ## the factorisation -/

/-- stack invariant (top first): Lyndon words, every deeper word is `≥` every higher word -/
def GoodStack (st : List (List Nat)) : Prop :=
  (∀ w ∈ st, Lyndon w) ∧ st.Pairwise (fun a b => lexLt b a = false)

theorem pushMerge_spec (st : List (List Nat)) :
    ∀ v, Lyndon v → GoodStack st →
      GoodStack (pushMerge v st) ∧ (pushMerge v st).reverse.flatten = st.reverse.flatten ++ v := by
  induction st with
  | nil =>
    intro v hv _
    exact ⟨⟨by simpa [pushMerge] using hv, by simp [pushMerge]⟩, by simp [pushMerge]⟩
  | cons u st ih =>
    intro v hv hg
    have hu : Lyndon u := hg.1 u (by simp)
    have hst : GoodStack st := ⟨fun w hw => hg.1 w (by simp [hw]), (List.pairwise_cons.1 hg.2).2⟩
    unfold pushMerge
    by_cases huv : lexLt u v = true
    · simp only [huv, if_true]
      obtain ⟨h1, h2⟩ := ih (u ++ v) (lyndon_append hu hv huv) hst
      refine ⟨h1, ?_⟩
      rw [h2]; simp
    · simp only [huv]
      have huv' : lexLt u v = false := by simpa using huv
      refine ⟨⟨?_, ?_⟩, by simp⟩
      · intro w hw
        rcases List.mem_cons.1 hw with h | h
        · exact h ▸ hv
        · exact hg.1 w h
      · refine List.pairwise_cons.2 ⟨?_, hg.2⟩
        intro b hb
        rcases List.mem_cons.1 hb with h | h
        · exact h ▸ huv'
        · -- `b ≥ u ≥ v`
          have hbu : lexLt b u = false := (List.pairwise_cons.1 hg.2).1 b h
          exact lexLe_trans (u := v) (v := u) (w := b) huv' hbu

theorem lyndonStack_spec (s : List Nat) (st : List (List Nat)) (hg : GoodStack st) :
    GoodStack (s.foldl (fun st c => pushMerge [c] st) st) ∧
      (s.foldl (fun st c => pushMerge [c] st) st).reverse.flatten = st.reverse.flatten ++ s := by
  induction s generalizing st with
  | nil => simpa using hg
  | cons c s ih =>
    obtain ⟨h1, h2⟩ := pushMerge_spec st [c] (lyndon_singleton c) hg
    obtain ⟨h3, h4⟩ := ih _ h1
    refine ⟨h3, ?_⟩
    rw [List.foldl_cons, h4, h2]; simp

/-- a Lyndon factorisation of `s`: Lyndon words, non-increasing, whose product is `s` -/
def IsLyndonFactorisation (fs : List (List Nat)) (s : List Nat) : Prop :=
  fs.flatten = s ∧ (∀ w ∈ fs, Lyndon w) ∧ fs.Pairwise (fun a b => lexLt a b = false)

theorem lyndonFactors_spec (s : List Nat) : IsLyndonFactorisation (lyndonFactors s) s := by
  obtain ⟨⟨h1, h2⟩, h3⟩ := lyndonStack_spec s [] ⟨by simp, by simp⟩
  refine ⟨by simpa [lyndonFactors, lyndonStack] using h3, ?_, ?_⟩
  · intro w hw
    exact h1 w (by simpa [lyndonFactors, lyndonStack] using hw)
  · unfold lyndonFactors lyndonStack
    rw [List.pairwise_reverse]
    exact h2

/-! ## uniqueness (Chen–Fox–Lyndon) -/

theorem cfl_aux (w v : List Nat) (hw : Lyndon w) (hvw : lexLt v w = true) (F : List Nat) :
    ∀ (gs : List (List Nat)) (y : List Nat), y ≠ [] → (∃ x, x ≠ [] ∧ w = x ++ y) →
      y ++ F = gs.flatten → (∀ g ∈ gs, g ≠ [] ∧ lexLt v g = false) → False := by
  rw [lyndon_iff] at hw
  intro gs
  induction gs with
  | nil =>
    intro y hy _ h _
    simp at h; exact hy h.1
  | cons g gs ih =>
    intro y hy hsuf h hall
    obtain ⟨x, hx, hwxy⟩ := hsuf
    have hwy : lexLt w y = true := hw.2 x y hwxy hx hy
    have hg := hall g (by simp)
    rw [List.flatten_cons] at h
    rcases List.append_eq_append_iff.1 h with ⟨a', rfl, _⟩ | ⟨c', rfl, hc⟩
    · -- `y` is a prefix of `g`: `v < w < y ≤ g ≤ v`
      have h1 : lexLt v (y ++ a') = true :=
        lexLt_of_lt_of_le (lexLt_trans hvw hwy) (lexLe_prefix y a')
      rw [hg.2] at h1; cases h1
    · by_cases hc0 : c' = []
      · subst hc0
        have h1 : lexLt v (g ++ []) = true := lexLt_trans hvw hwy
        rw [List.append_nil, hg.2] at h1; cases h1
      · refine ih c' hc0 ⟨x ++ g, by simp [hx], by simp [hwxy]⟩ hc.symm ?_
        intro g' hg'
        exact hall g' (by simp [hg'])

theorem cfl_unique_aux (fs : List (List Nat)) :
    ∀ (gs : List (List Nat)) (s : List Nat), IsLyndonFactorisation fs s → IsLyndonFactorisation gs s →
      fs = gs := by
  induction fs with
  | nil =>
    intro gs s hf hg
    cases gs with
    | nil => rfl
    | cons g gs =>
      have h0 : s = [] := by simpa using hf.1.symm
      have := hg.1
      rw [h0] at this
      have hgne := (hg.2.1 g (by simp)).1
      simp at this
      exact absurd this.1 hgne
  | cons w fs ih =>
    intro gs s hf hg
    cases gs with
    | nil =>
      have h0 : s = [] := by simpa using hg.1.symm
      have := hf.1
      rw [h0] at this
      have hwne := (hf.2.1 w (by simp)).1
      simp at this
      exact absurd this.1 hwne
    | cons v gs =>
      have hwL := hf.2.1 w (by simp)
      have hvL := hg.2.1 v (by simp)
      have hfp := List.pairwise_cons.1 hf.2.2
      have hgp := List.pairwise_cons.1 hg.2.2
      have heq : w ++ fs.flatten = v ++ gs.flatten := by
        have h1 := hf.1; have h2 := hg.1
        simp only [List.flatten_cons] at h1 h2
        rw [h1, h2]
      have hwv : w = v := by
        rcases List.append_eq_append_iff.1 heq with ⟨a', rfl, ha⟩ | ⟨c', rfl, hc⟩
        · -- `v = w ++ a'`
          by_cases ha0 : a' = []
          · simp [ha0]
          · exfalso
            refine cfl_aux (w ++ a') w hvL (lexLt_prefix w a' ha0) gs.flatten fs a' ha0
              ⟨w, hwL.1, rfl⟩ ha.symm ?_
            intro g hg'
            exact ⟨(hf.2.1 g (by simp [hg'])).1, hfp.1 g hg'⟩
        · by_cases hc0 : c' = []
          · simp [hc0]
          · exfalso
            refine cfl_aux (v ++ c') v hwL (lexLt_prefix v c' hc0) fs.flatten gs c' hc0
              ⟨v, hvL.1, rfl⟩ hc.symm ?_
            intro g hg'
            exact ⟨(hg.2.1 g (by simp [hg'])).1, hgp.1 g hg'⟩
      subst hwv
      have hrest : fs.flatten = gs.flatten := List.append_cancel_left heq
      have := ih gs fs.flatten
        ⟨rfl, fun x hx => hf.2.1 x (by simp [hx]), hfp.2⟩
        ⟨hrest.symm, fun x hx => hg.2.1 x (by simp [hx]), hgp.2⟩
      rw [this]

/-- Chen–Fox–Lyndon: the factorisation into non-increasing Lyndon words is unique -/
theorem lyndonFactors_unique (s : List Nat) (fs : List (List Nat)) (h : IsLyndonFactorisation fs s) :
    fs = lyndonFactors s :=
  cfl_unique_aux fs (lyndonFactors s) s h (lyndonFactors_spec s)

end Kanzi.BWTS
