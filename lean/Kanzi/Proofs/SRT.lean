/-
Slice `srt` (C13, sorted rank transform): round trip, size bound, bytes, faults.  The statements
used by `Kanzi/Properties/C13_srt.lean`.
-/
import Kanzi.Proofs.SRTInv

namespace Kanzi.SRT

/-- `b.length < 2^28` is enough for the frequency hypothesis -/
theorem count_lt_of_length_lt (b : List Nat) (N : Nat) (h : b.length < N) : ∀ c, b.count c < N :=
  fun _ => Nat.lt_of_le_of_lt List.count_le_length h

theorem srtForward_empty (fill dstLen : Nat) : srtForwardFill fill [] dstLen = .ok [] := by
  simp [srtForwardFill]

theorem srtInverse_empty (n : Nat) : srtInverse [] n = .ok [] := by
  simp [srtInverse]

/-- round trip + size bound -/
theorem srt_roundtrip (fill : Nat) (b : List Nat) (dstLen : Nat) (hb : ∀ x ∈ b, x < 256)
    (hfreq : ∀ c, b.count c < 2 ^ 31) (hdst : maxEncodedLen b.length ≤ dstLen) :
    ∃ t, srtForwardFill fill b dstLen = .ok t ∧ t.length ≤ maxEncodedLen b.length ∧
      ∀ n, b.length ≤ n → srtInverse t n = .ok b := by
  by_cases hne : b = []
  · subst hne
    exact ⟨[], srtForward_empty fill dstLen, by simp, fun n _ => srtInverse_empty n⟩
  · obtain ⟨data, h1, h2, h3⟩ := srtForward_spec fill b dstLen hb hne hdst hfreq
    refine ⟨_, h1, ?_, ?_⟩
    · have := encodeHeader_length (freqsOf b).toList (freqsOf_toList_lt b hb _ hfreq)
      rw [Array.length_toList, freqsOf_size b hb] at this
      rw [List.length_append, h2]; unfold maxEncodedLen; omega
    · intro n hn
      exact srtInverse_spec b data n hb hne hfreq h2 h3 hn

/-- sharper size bound: the header needs a fifth byte only for a symbol with 2^28 occurrences -/
theorem srtForward_length_sharp (fill : Nat) (b t : List Nat) (dstLen : Nat)
    (hb : ∀ x ∈ b, x < 256) (hfreq : ∀ c, b.count c < 2 ^ 31)
    (hdst : maxEncodedLen b.length ≤ dstLen) (h : srtForwardFill fill b dstLen = .ok t) :
    t.length ≤ b.length + 4 * 256 + b.length / 2 ^ 28 := by
  by_cases hne : b = []
  · subst hne
    rw [srtForward_empty] at h
    cases h; simp
  · obtain ⟨data, h1, h2, _⟩ := srtForward_spec fill b dstLen hb hne hdst hfreq
    have hs := encodeHeader_length_sum (freqsOf b).toList (freqsOf_toList_lt b hb _ hfreq)
    have hl : (freqsOf b).toList.length = 256 := by rw [Array.length_toList, freqsOf_size b hb]
    rw [hl, freqsOf_sum b hb] at hs
    rw [h1] at h
    have ht : t = encodeHeader (freqsOf b).toList ++ data := by injection h with h; exact h.symm
    rw [ht, List.length_append, h2]; omega

/-! ## Forward never faults, and its output consists of bytes -/

theorem srtForward_no_fault (fill : Nat) (b : List Nat) (dstLen : Nat) (hb : ∀ x ∈ b, x < 256)
    (hfreq : ∀ c, b.count c < 2 ^ 31) : srtForwardFill fill b dstLen ≠ .fault := by
  by_cases hdst : maxEncodedLen b.length ≤ dstLen
  · obtain ⟨t, h1, _, _⟩ := srt_roundtrip fill b dstLen hb hfreq hdst
    rw [h1]; intro h; cases h
  · unfold srtForwardFill
    by_cases hA : b.length = 0 ∨ dstLen = 0
    · rw [if_pos hA]; intro h; cases h
    · rw [if_neg hA, if_pos (by omega)]; intro h; cases h

theorem rd_wr_lt {a : Array Nat} {N v : Nat} (h : ∀ k, rd a k < N) (hv : v < N) (i : Nat) :
    ∀ k, rd (wr a i v) k < N := by
  intro k; rw [rd_wr]; split
  · exact hv
  · exact h k

theorem fwdCount_s2r_lt : ∀ (q : List Nat) (prev : Option Nat) (st : CSt),
    (∀ x, rd st.s2r x < 256) → ∀ x, rd (fwdCount q prev st).s2r x < 256 := by
  intro q
  induction q with
  | nil => intro prev st h; exact h
  | cons y q ih =>
    intro prev st h
    simp only [fwdCount]
    split
    · exact ih _ _ h
    · split
      · exact ih _ _ (rd_wr_lt h (Nat.mod_lt _ (by omega)) _)
      · exact ih _ _ h

theorem mtfUp_s2r_lt : ∀ (r : Nat) (s2r r2s : Array Nat), r < 256 → (∀ x, rd s2r x < 256) →
    ∀ x, rd (mtfUp r s2r r2s).1 x < 256 := by
  intro r
  induction r with
  | zero => intro s2r r2s _ h; exact h
  | succ r ih =>
    intro s2r r2s hr h
    simp only [mtfUp]
    exact ih _ _ (by omega) (rd_wr_lt h hr _)

theorem fwdEncode_bytes : ∀ (q : List Nat) (prev : Option Nat) (st st' : ESt),
    fwdEncode q prev st = some st' → (∀ x, rd st.s2r x < 256) → (∀ k, rd st.data k < 256) →
    ∀ k, rd st'.data k < 256 := by
  intro q
  induction q with
  | nil => intro prev st st' h _ hd; simp [fwdEncode] at h; subst h; exact hd
  | cons y q ih =>
    intro prev st st' h hs hd
    simp only [fwdEncode] at h
    split at h
    · cases h
    · split at h
      · exact ih _ _ _ h hs (rd_wr_lt hd (by omega) _)
      · split at h
        · exact ih _ _ _ h (rd_wr_lt (mtfUp_s2r_lt _ _ _ (hs y) hs) (by omega) _)
            (rd_wr_lt hd (hs y) _)
        · exact ih _ _ _ h hs (rd_wr_lt hd (hs y) _)

theorem srtForward_bytes (fill : Nat) (b t : List Nat) (dstLen : Nat) (hfill : fill < 256)
    (h : srtForwardFill fill b dstLen = .ok t) : ∀ y ∈ t, y < 256 := by
  unfold srtForwardFill at h
  split at h
  · cases h; intro y hy; simp at hy
  · split at h
    · cases h
    · simp only at h
      split at h
      · cases h
      · split at h
        · cases h
        · rename_i es hes
          cases h
          intro y hy
          rcases List.mem_append.1 hy with hy | hy
          · exact encodeHeader_bytes _ y hy
          · have hy' := List.mem_of_mem_take hy
            rw [Array.mem_toList_iff, Array.mem_iff_getElem] at hy'
            obtain ⟨i, hi, e⟩ := hy'
            rw [← e, ← rd_eq_getElem _ _ hi]
            apply fwdEncode_bytes _ _ _ _ hes
            · exact fwdCount_s2r_lt _ _ _ (by intro x; simp [rd_zeros])
            · intro k
              simp only [rd, Array.getD_eq_getD_getElem?, Array.getElem?_replicate]
              split <;> simp <;> omega

/-! ## Inverse: a sufficient condition for "no fault", and forged inputs that do fault -/

theorem invInit_no_fault (fr D : Array Nat) : ∀ (suf : List Nat) (pos : Nat) (st : ISt),
    pos + total fr suf ≤ D.size → (∀ c ∈ suf, 0 < rd fr c) → (∀ c, rd st.ends c ≤ D.size) →
    ∃ st', invInit fr D suf pos st = .ok st' ∧ ∀ c, rd st'.ends c ≤ D.size := by
  intro suf
  induction suf with
  | nil => intro pos st _ _ h; exact ⟨st, rfl, h⟩
  | cons c suf ih =>
    intro pos st hp hf he
    have hc := hf c (by simp)
    simp only [total] at hp
    simp only [invInit]
    rw [if_neg (by omega), if_neg (by omega)]
    apply ih _ _ (by omega) (fun c' hc' => hf c' (by simp [hc']))
    intro c'
    show rd (wr st.ends c (pos + rd fr c)) c' ≤ D.size
    rw [rd_wr]; split
    · omega
    · exact he c'

theorem invGo_no_fault (D ends : Array Nat) (he : ∀ c, rd ends c ≤ D.size) :
    ∀ (k c : Nat) (r2s buckets : Array Nat) (nb : Nat) (out : Array Nat),
      ∃ res, invGo D ends k c r2s buckets nb out = some res := by
  intro k
  induction k with
  | zero => intro c r2s buckets nb out; exact ⟨out, rfl⟩
  | succ k ih =>
    intro c r2s buckets nb out
    simp only [invGo]
    split
    · have := he c
      rw [if_neg (by omega)]
      split
      · exact ih _ _ _ _ _
      · exact ih _ _ _ _ _
    · split
      · exact ih _ _ _ _ _
      · exact ih _ _ _ _ _

/-- Inverse does not fault when the header parses and the announced frequencies fit in the data
    that follows (the check the Go code does not make) -/
theorem srtInverse_no_fault (src fs data : List Nat) (n : Nat)
    (hd : decodeHeader src = some (fs, data))
    (hsum : total fs.toArray (preprocess fs.toArray) ≤ data.length) :
    srtInverse src n ≠ .fault := by
  unfold srtInverse
  split
  · intro h; cases h
  · rw [hd]
    simp only
    split
    · intro h; cases h
    · obtain ⟨st', h1, h2⟩ := invInit_no_fault fs.toArray data.toArray (preprocess fs.toArray) 0
        ⟨zeros, zeros, zeros⟩ (by simpa using hsum)
        (fun c hc => Nat.pos_of_ne_zero ((mem_preprocess _ c).1 hc).2)
        (by intro c; simp [rd_zeros])
      rw [h1]
      simp only
      obtain ⟨res, h3⟩ := invGo_no_fault data.toArray st'.ends h2 n (rd st'.r2s 0) st'.r2s
        st'.buckets (preprocess fs.toArray).length #[]
      rw [h3]
      intro h; cases h

/-- every non-empty source shorter than the 256 header entries makes Inverse index out of range -/
theorem srtInverse_short_fault (src : List Nat) (n : Nat) (h0 : src ≠ []) (hn : n ≠ 0)
    (h : src.length < 256) : srtInverse src n = .fault := by
  unfold srtInverse
  have hA : ¬ (src.length = 0 ∨ n = 0) := by
    intro h'; rcases h' with h' | h'
    · exact h0 (List.length_eq_zero_iff.1 h')
    · exact hn h'
  rw [if_neg hA, decodeHeader_short src h]

end Kanzi.SRT
