/-
`BinaryEntropyDecoder.Read` (v2/entropy/BinaryEntropyCodec.go) and `FPAQDecoder.Read`
(v2/entropy/FPAQCodec.go) on ARBITRARY input, with the allocation made visible (property C03).

The decoders of `Kanzi.BinEnt` / `Kanzi.Fpaq` are already faithful on forged input: every slice
access of `read()` is checked (`.index`), the bitstream running out is `.eos`, the size tests are
`.invalid` / `.size`, the buffer keeps its stale bytes.  What they do not show is `len(this.buffer)`
on the failing paths.  The functions below run the SAME chunk functions (`Dec.readChunk`,
`fReadChunk`) and return, next to the unchanged result, `cap` = `len(this.buffer)` when `Read`
returns or panics.  The only allocations of the two decoders are the `make([]byte, n)` of that
buffer, so `cap` bounds them.  Core Lean only (linked into `kmodel`).
-/
import Kanzi.Model.BinEnt
import Kanzi.Model.Fpaq

namespace Kanzi.BinEnt
open Kanzi.Bits Kanzi.EntSmall

/-- `len(this.buffer)` when one iteration of the chunk loop of `BinaryEntropyDecoder.Read` fails:
    the buffer is (re)allocated after `ReadVarInt` and the size test, before anything else is read -/
def chunkCap (bufSize length : Nat) (d : Dec σ) (bs : Bits) : Nat :=
  match readVarInt bs with
  | none => d.buffer.length
  | some (sz, _) =>
    if sz > bufSize ∧ sz ≥ 2 * length then d.buffer.length
    else (decBufFor d.buffer bufSize sz).length

/-- the chunk loop of `Read` (same as `Dec.readChunks`) and `len(this.buffer)` at the end -/
def Dec.readChunksCap (P : Pred σ) : Nat → Nat → Nat → Dec σ → Nat → Bits →
    Except Err (List Nat × Dec σ × Bits) × Nat
  | 0, _, _, d, _, bs => (.ok ([], d, bs), d.buffer.length)
  | fuel + 1, length, bufSize, d, count, bs =>
    if count = 0 then (.ok ([], d, bs), d.buffer.length)
    else
      match Dec.readChunk P bufSize length (min length count) d bs with
      | .error x => (.error x, chunkCap bufSize length d bs)
      | .ok c =>
        match Dec.readChunksCap P fuel length bufSize c.2.1 (count - min length count) c.2.2 with
        | (.error x, cap) => (.error x, cap)
        | (.ok t, cap) => (.ok (c.1 ++ t.1, t.2), cap)

/-- Go `Read(block)` with `len(block) = count` (same as `Dec.readBlock`) and `len(this.buffer)` -/
def Dec.readBlockCap (P : Pred σ) (M : Nat) (d : Dec σ) (bs : Bits) (count : Nat) :
    Except Err (List Nat × Dec σ × Bits) × Nat :=
  if count > MAX_BLOCK then (.error .size, d.buffer.length)
  else
    Dec.readChunksCap P count (chunkLenOf M count) (bufSizeOf (chunkLenOf M count))
      (if d.buffer.length < bufSizeOf (chunkLenOf M count)
        then { d with buffer := List.replicate (bufSizeOf (chunkLenOf M count)) 0 } else d)
      count bs

end Kanzi.BinEnt

namespace Kanzi.Fpaq
open Kanzi.Bits Kanzi.EntSmall Kanzi.BinEnt

/-- the model of `decodeBitV1` (bitstream version 3, selected by the stream header, hence reachable
    from forged input): the same tables and update, but the coder is given `p >> 4` as a 12-bit
    probability with first shift 4: `split = (((high-low) >> 4) * (p >> 4)) >> 8`.  The refill of
    `decodeBitV1` is written `for (low^high)>>24 == 0 { read() }`; after one `read()` the condition is
    false (`Kanzi.C03.C03_fpaq_v1_refill_once`), so it is the `if` of `Dec.decodeBit`. -/
def fpaqP1 : Pred FState := { get := fun s => s.get >>> 4, update := FState.update, shift := 4 }

/-- `len(this.buffer)` when one iteration of the chunk loop of `FPAQDecoder.Read` fails -/
def fChunkCap (total : Nat) (d : Dec FState) (bs : Bits) : Nat :=
  match readVarInt bs with
  | none => d.buffer.length
  | some (sz, _) =>
    if sz ≥ 2 * total then d.buffer.length else (fBufAlloc d.buffer sz).length

/-- one iteration of the chunk loop of `FPAQDecoder.Read` for either bit decoder (`P = fpaqP`:
    `decodeBitV2`, this is `fReadChunk`; `P = fpaqP1`: `decodeBitV1`) -/
def fReadChunkP (P : Pred FState) (total chunkSize : Nat) (d : Dec FState) (bs : Bits) :
    Except Err (List Nat × Dec FState × Bits) :=
  match readVarInt bs with
  | none => .error .eos
  | some (sz, r) =>
    if sz ≥ 2 * total then .error .invalid
    else
      match readBits 56 r with
      | none => .error .eos
      | some (cur, r1) =>
        match readBytes sz r1 with
        | none => .error .eos
        | some (bytes, r2) =>
          match Dec.decodeBytes P chunkSize
              { d with ps := d.ps.chunkStart, current := cur,
                       buffer := fBufLoad (fBufAlloc d.buffer sz) sz bytes,
                       rem := fBufLoad (fBufAlloc d.buffer sz) sz bytes } [] with
          | .error x => .error x
          | .ok res => .ok (res.1, res.2, r2)

/-- the chunk loop of `FPAQDecoder.Read` and `len(this.buffer)` at the end -/
def fReadChunksCap (P : Pred FState) (C total : Nat) : Nat → Dec FState → Nat → Bits →
    Except Err (List Nat × Dec FState × Bits) × Nat
  | 0, d, _, bs => (.ok ([], d, bs), d.buffer.length)
  | fuel + 1, d, count, bs =>
    if count = 0 then (.ok ([], d, bs), d.buffer.length)
    else
      match fReadChunkP P total (min C count) d bs with
      | .error x => (.error x, fChunkCap total d bs)
      | .ok c =>
        match fReadChunksCap P C total fuel c.2.1 (count - min C count) c.2.2 with
        | (.error x, cap) => (.error x, cap)
        | (.ok t, cap) => (.ok (c.1 ++ t.1, t.2), cap)

/-- `FPAQDecoder.Read(block)` with `len(block) = count` on the decoder `d` (`Dec.init FState.init`
    after `NewFPAQDecoder`), bitstream version ≥ 4 -/
def fRead (C : Nat) (d : Dec FState) (bs : Bits) (count : Nat) :
    Except Err (List Nat × Dec FState × Bits) :=
  if count > MAX_BLOCK then .error .size else fReadChunks C count count d count bs

/-- `FPAQDecoder.Read` with `len(this.buffer)`, for either bit decoder -/
def fReadCap (P : Pred FState) (C : Nat) (d : Dec FState) (bs : Bits) (count : Nat) :
    Except Err (List Nat × Dec FState × Bits) × Nat :=
  if count > MAX_BLOCK then (.error .size, d.buffer.length) else fReadChunksCap P C count count d count bs

end Kanzi.Fpaq
