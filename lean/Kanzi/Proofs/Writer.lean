import Kanzi.Model.Writer
import Kanzi.Spec.Stream
namespace Kanzi.Writer
open Kanzi.Spec

theorem healthy_run (c : Cfg) (hB : 0 < c.B) (hJ : 0 < c.J) (parts : List (List Nat)) :
    let r := run c (init c) (healthyProgram parts)
    r.2 = parts.map (fun d => Out.wrote d.length none) ++ [Out.closedR none] ∧
    r.1.emitted = chunks c.B parts.flatten ∧
    r.1.closed = true ∧ r.1.endOut = true ∧ r.1.headerOut = !c.headless ∧ r.1.failed = false := by sorry

theorem closed_absorbing (c : Cfg) (s : St) (h : s.closed = true) (op : Op) :
    (step c s op).1 = s ∧
    (match op with
     | .write _ _ => (step c s op).2 = Out.wrote 0 (some Err.closed)
     | .close _ => (step c s op).2 = Out.closedR none
     | .getWritten => (step c s op).2 = Out.written (getWritten s)) := by sorry

theorem getWritten_mono (c : Cfg) (s : St) (op : Op) : getWritten s ≤ getWritten (step c s op).1 := by sorry

theorem getWritten_final (c : Cfg) (hB : 0 < c.B) (hJ : 0 < c.J) (parts : List (List Nat)) :
    getWritten (run c (init c) (healthyProgram parts)).1 =
      ((if c.headless then 0 else c.headerBits) +
        ((chunks c.B parts.flatten).map c.frameBits).sum + 8 + 7) / 8 := by sorry

theorem closed_means_complete (c : Cfg) (hB : 0 < c.B) (hJ : 0 < c.J) (ops : List Op) :
    let r := run c (init c) ops
    r.1.closed = true →
      r.1.emitted = chunks c.B (accepted ops r.2) ∧ r.1.endOut = true ∧ r.1.headerOut = !c.headless ∧
      r.1.failed = false := by sorry

theorem failed_sticky (c : Cfg) (s : St) (h : s.failed = true) (hc : s.closed = false) (op : Op) :
    (step c s op).1.failed = true ∧ (step c s op).1.closed = false ∧
    (match op with
     | .write _ _ => ∃ e, (step c s op).2 = Out.wrote 0 (some e)
     | .close _ => ∃ e, (step c s op).2 = Out.closedR (some e)
     | .getWritten => True) := by sorry

theorem close_fault_reported (c : Cfg) (s : St) (f : Fault) (hf : f = .endMarker ∨ f = .finalFlush ∨ f = .closer)
    (hc : s.closed = false) : (close c s f).2 ≠ none ∨ (close c s f).1.closed = false ∨
      (f = .finalFlush ∧ s.obsClosed = true) ∨ (f = .closer ∧ s.closerClosed = true) ∨ (f = .endMarker ∧ s.finalized = true) := by sorry

end Kanzi.Writer
