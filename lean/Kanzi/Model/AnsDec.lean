/-
TOTAL model of the ANS range DECODER of kanzi-go on ARBITRARY (forged) input — property C03, slice
`anstotal`.  Go: `ANSRangeDecoder` of v2/entropy/ANSRangeCodec.go (constructors, `Read`,
`decodeHeader`, `decodeChunkV2`, `decodeSymbol`, `decSymbol.reset`, and the legacy `decodeChunkV1`),
`DecodeAlphabet` / `ReadVarInt` of v2/entropy/EntropyUtils.go.  Core Lean only (linked into `kmodel`).

The models of `Model/EntSmall.lean` / `Model/Ans1.lean` are the INVERSE of the encoder: they idealise
everything that cannot happen on encoder output (natural-number subtraction, unbounded buffers,
zero bytes after the payload, two-level tables).  This file is the decoder as the Go code runs it
on any bit string:

  * every slice expression and index of the Go code is checked against the real length of the real
    object (`this.f2s`, `this.symbols`, `this.buffer`): out of range = `.fault` (Go: a runtime
    panic "index out of range" / "slice bounds out of range");
  * the input bit string running out = `.eos` (Go: the panic of the input bitstream, "No more data
    to read in the bitstream" / io.EOF);
  * the clean `return ..., err` paths = `.err`;
  * `ReadArray(this.buffer, 8*sz)` asked for more bytes than the buffer holds = `.overrun` (Go:
    `DefaultInputBitStream.ReadArray` always panics then, with an index panic or with the
    end-of-stream panic depending on its internal buffer state; the stream wrapper of the harness
    recognises the call);
  * the four ANS states are Go `int` (64 bit, two's complement): `Int` here with `wrap64` after every
    operation that can leave the range.  With tables that are stale (order 1: a context whose
    alphabet is empty keeps the `symbols` / `f2s` entries of an earlier chunk, possibly built for
    another log range) the states do become negative and do wrap;
  * the decoder OBJECT is modelled: `symbols`, `f2s`, `buffer` persist from chunk to chunk and from
    `Read` to `Read`, with the real (re)allocation rules and the real sizes.  `this.freqs` is not
    state: every iteration of `decodeHeader` that reads it has written all the entries it reads
    (`clear(f)` or a full alphabet) — it is the local table `tbl` here;
  * loops: `Read`'s chunk loop takes fuel (`readLoop`, `.fuel` when exhausted: never, see
    Properties/C03_ans.lean); every other loop of the Go code has a bound that does not depend on
    the data (`for i < 256`, `for k < dim`, `for i < 4`, `len(block)/4` rounds) or is bounded by a
    value the code has just checked (`sz <= len(buffer)`, `f[i] <= scale`), and is structural here.

  * bitstream version 1 (`this.bsVersion == 1`, a value read from the stream header by the Reader)
    selects `decodeChunkV1`: modelled too (`stepV1`), with its data-driven renormalisation loops on
    fuel `len(buffer)/2 + 1` (always enough) and its buffer of `sz + sz/8` bytes, `sz` being the
    stream's VarInt, rejected above `max(2*len(block), 256)` (the repair of the forged-size allocation finding).  When
    its payload size is 0 it returns before writing anything: the caller's block keeps its bytes,
    which the model takes to be zeros (a block obtained from `make`, as in the harness).

Structure: `read` = `Read`; `readLoop` = its chunk loop over `chunkStep` (one iteration:
`decodeHeader` = `hdrBody`, then the one-symbol shortcut, `stepV1` or `stepV2`); the `Result` of a
`Read` also reports `len(this.f2s)` / `len(this.buffer)` at the moment the call ended, however it
ended (these are the allocations made).

What is reused unchanged from `Model/EntSmall.lean`: `readBits`, `readBytes`, `readVarInt`,
`decodeAlphabet` (their only failure is the end of the input), `chkSizeOf`, `llrOf`, `setFreqs`,
`decSymReset`, `ansTop`; from `Model/Ans1.lean`: `Quad`, `quartersOf`.
-/
import Kanzi.Model.EntSmall
import Kanzi.Model.Ans1

namespace Kanzi.AnsDec
open Kanzi.Bits Kanzi.EntSmall

/-! ### outcomes -/

/-- result of a piece of the decoder: a value, or how it stopped -/
inductive R (α : Type) where
  | ok (a : α)
  | err        -- clean error return of the Go code
  | eos        -- the input bitstream ran out (Go: panic of the bitstream)
  | fault      -- index / slice bounds out of range in the decoder's own code (Go: runtime panic)
  | overrun    -- `ReadArray(buf, 8*sz)` with `sz > len(buf)` (Go: panic inside the bitstream)
deriving Repr

/-- how a piece stopped without a value -/
inductive Stop where
  | err | eos | fault | overrun
deriving Repr, DecidableEq

def R.bind {α β : Type} : R α → (α → R β) → R β
  | .ok a, f => f a
  | .err, _ => .err
  | .eos, _ => .eos
  | .fault, _ => .fault
  | .overrun, _ => .overrun

def R.toOpt {α : Type} : R α → Option α
  | .ok a => some a
  | _ => none

/-- `ReadBits(n)` -/
def rBits (n : Nat) (bs : Bits) : R (Nat × Bits) :=
  match readBits n bs with
  | none => .eos
  | some x => .ok x

/-! ### frequencies (Go: the inner loops of `decodeHeader`) -/

/-- `for j := i; j < endj; j++`: read `n` frequencies of `logMax` bits.
    Go: `freq := 1; if logMax > 0 { freq = 1 + ReadBits(logMax); if freq <= 0 || freq >= scale { return err } }` -/
def decFreqsR : Nat → Nat → Nat → Bits → R (List Nat × Bits)
  | 0, _, _, bs => .ok ([], bs)
  | n + 1, logMax, scale, bs =>
    if logMax = 0 then
      (decFreqsR n logMax scale bs).bind fun p => .ok (1 :: p.1, p.2)
    else
      match readBits logMax bs with
      | none => .eos
      | some (v, r) =>
        if 1 + v ≥ scale then .err
        else (decFreqsR n logMax scale r).bind fun p => .ok ((1 + v) :: p.1, p.2)

/-- `for i := 1; i < alphabetSize; i += chkSize`: `logMax := ReadBits(llr)`,
    `if 1<<logMax > scale { return err }`, then `min(chkSize, left)` frequencies.
    `count` = frequencies still to read; the fuel is the alphabet size (at least one per round). -/
def decFreqChunksR : Nat → Nat → Nat → Nat → Nat → Bits → R (List Nat × Bits)
  | 0, _, _, _, _, bs => .ok ([], bs)
  | fuel + 1, chk, llr, scale, count, bs =>
    if count = 0 then .ok ([], bs)
    else
      match readBits llr bs with
      | none => .eos
      | some (logMax, r) =>
        if 2 ^ logMax > scale then .err
        else
          (decFreqsR (min chk count) logMax scale r).bind fun c =>
            (decFreqChunksR fuel chk llr scale (count - min chk count) c.2).bind fun t =>
              .ok (c.1 ++ t.1, t.2)

/-- the table `f` of one context once its alphabet `a` (non empty) is known: the other
    frequencies, `if scale <= sum { return err }`, `f[alphabet[0]] = scale - sum`.
    Starts from zeros (`clear(f)`; a full alphabet overwrites every entry). -/
def freqTableR (a : List Nat) (lr : Nat) (bs : Bits) : R (List Nat × Bits) :=
  (decFreqChunksR a.length (chkSizeOf a.length) (llrOf lr) (2 ^ lr) (a.length - 1) bs).bind fun p =>
    if 2 ^ lr ≤ p.1.sum then .err
    else .ok ((setFreqs (List.replicate 256 0) (a.drop 1) p.1).set (a.headD 0) (2 ^ lr - p.1.sum), p.2)

/-! ### reverse mapping (Go: "Create reverse mapping" in `decodeHeader`) -/

/-- `arr[start .. start+cnt) = v` (Go: `for j := f[i]-1; j >= 0; j-- { freq2sym[sum+j] = byte(i) }`,
    `clear(...)`); the caller has checked the bounds -/
def fill (start v : Nat) : Nat → Array Nat → Array Nat
  | 0, arr => arr
  | c + 1, arr => fill start v c (arr.setIfInBounds (start + c) v)

/-- `for i := range f { if f[i] == 0 { continue }; fill; symb[i].reset(sum, f[i], lr); sum += f[i] }`
    where `freq2sym = this.f2s[base : base + 2^lr]` and `symb = this.symbols[sbase : sbase+256]`.
    `freq2sym[sum+j]` with `sum + f[i] > 2^lr` is out of range. -/
def mapLoop (base sbase lr : Nat) : List Nat → Nat → Nat → Array Nat → Array DecSym →
    R (Array Nat × Array DecSym)
  | [], _, _, f2s, syms => .ok (f2s, syms)
  | fi :: fs, i, sum, f2s, syms =>
    if fi = 0 then mapLoop base sbase lr fs (i + 1) sum f2s syms
    else if sum + fi > 2 ^ lr then .fault
    else mapLoop base sbase lr fs (i + 1) (sum + fi) (fill (base + sum) i fi f2s)
           (syms.setIfInBounds (sbase + i) (decSymReset sum fi lr))

/-- what one context of `decodeHeader` leaves -/
structure Ctx where
  a : List Nat            -- the alphabet of this context
  f2s : Array Nat
  syms : Array DecSym
  rest : Bits

/-- one iteration `k` of the context loop of `decodeHeader` -/
def hdrCtx (k lr : Nat) (f2s : Array Nat) (syms : Array DecSym) (bs : Bits) : R Ctx :=
  match decodeAlphabet bs with
  | none => .eos
  | some (a, r) =>
    if a.length = 0 then .ok ⟨a, f2s, syms, r⟩           -- `continue`
    else
      (freqTableR a lr r).bind fun t =>
        if (k + 1) * 256 > syms.size then .fault           -- `this.symbols[k<<8 : (k+1)<<8]`
        else if (k + 1) * 2 ^ lr > f2s.size then .fault    -- `this.f2s[k<<lr : (k+1)<<lr]`
        else (mapLoop (k * 2 ^ lr) (k * 256) lr t.1 0 0 f2s syms).bind fun m =>
          .ok ⟨a, m.1, m.2, t.2⟩

/-- what `decodeHeader` leaves -/
structure Hdr where
  res : Nat               -- the returned `alphabetSize` (sum over the contexts)
  a0 : Nat                -- `alphabet[0]` as left by context 0 (read by `Read` for order 0 only)
  f2s : Array Nat
  syms : Array DecSym
  rest : Bits

/-- `for k := 0; k < dim; k++`; `m` = contexts left -/
def hdrCtxs (lr : Nat) : Nat → Nat → Nat → Nat → Array Nat → Array DecSym → Bits → R Hdr
  | 0, _, res, a0, f2s, syms, bs => .ok ⟨res, a0, f2s, syms, bs⟩
  | m + 1, k, res, a0, f2s, syms, bs =>
    (hdrCtx k lr f2s syms bs).bind fun c =>
      hdrCtxs lr m (k + 1) (res + c.a.length) (if k = 0 then c.a.headD 0 else a0) c.f2s c.syms c.rest

/-- `if len(this.f2s) < dim*scale { this.f2s = make([]byte, dim*scale) }` -/
def f2sAlloc (dim lr : Nat) (f2s : Array Nat) : Array Nat :=
  if f2s.size < dim * 2 ^ lr then Array.replicate (dim * 2 ^ lr) 0 else f2s

/-- `decodeHeader` after the 3 bits of the log range (`8 + l`, so the test `[8..16]` cannot fail) -/
def hdrBody (dim lr : Nat) (f2s : Array Nat) (syms : Array DecSym) (bs : Bits) : R Hdr :=
  hdrCtxs lr dim 0 0 0 (f2sAlloc dim lr f2s) syms bs

/-! ### the rANS states (Go `int`) -/

/-- value of a Go `int` after an operation whose exact result is `x` -/
def wrap64 (x : Int) : Int := (x + 9223372036854775808) % 18446744073709551616 - 9223372036854775808

/-- Go `decodeSymbol(n, st, sym, mask)`: `st = sym.freq*(st>>lr) + (st&mask) - sym.cumFreq`;
    `if st < _ANS_TOP { st = (st<<16) | int(buffer[n])<<8 | int(buffer[n+1]); n += 2 }`.
    `buffer[n+1]` / `buffer[n]` past the end = fault. -/
def stepSym (lr : Nat) (buf : Array Nat) (n : Nat) (st : Int) (sym : DecSym) : R (Nat × Int) :=
  let st1 := wrap64 ((sym.freq : Int) * (st / (2 ^ lr : Int)) + st % (2 ^ lr : Int) - (sym.cumFreq : Int))
  if st1 < 32768 then
    if n + 1 < buf.size then
      .ok (n + 2, wrap64 (st1 * 65536) + ((buf.getD n 0 * 256 + buf.getD (n + 1) 0 : Nat) : Int))
    else .fault
  else .ok (n, st1)

/-- `cur := this.f2s[(prv<<lr)+(st&mask)]`, `sym := this.symbols[(prv<<8)+cur]`
    (order 0: `prv = 0`, through the slices `f2s[0:mask+1]`, `symbols[0:256]`) -/
def look (lr : Nat) (f2s : Array Nat) (syms : Array DecSym) (prv : Nat) (st : Int) : R (Nat × DecSym) :=
  let idx := prv * 2 ^ lr + (st % (2 ^ lr : Int)).toNat
  if idx < f2s.size then
    let cur := f2s.getD idx 0
    if cur < 256 ∧ prv * 256 + cur < syms.size then .ok (cur, syms.getD (prv * 256 + cur) ⟨0, 0⟩)
    else .fault
  else .fault

/-- the four states and the read position in `this.buffer` -/
structure Sts where
  st0 : Int
  st1 : Int
  st2 : Int
  st3 : Int
  n : Nat

abbrev Quad := Kanzi.Ans1.Quad

/-- one iteration of the main loop of `decodeChunkV2` (either order): contexts `p = (prv0..prv3)`,
    result `(cur0..cur3)`.  Order of the Go statements: state 3, 2, 1, 0. -/
def round (lr : Nat) (f2s : Array Nat) (syms : Array DecSym) (buf : Array Nat) (p : Quad) (s : Sts) :
    R (Quad × Sts) :=
  (look lr f2s syms p.2.2.2 s.st3).bind fun c3 =>
  (stepSym lr buf s.n s.st3 c3.2).bind fun d3 =>
  (look lr f2s syms p.2.2.1 s.st2).bind fun c2 =>
  (stepSym lr buf d3.1 s.st2 c2.2).bind fun d2 =>
  (look lr f2s syms p.2.1 s.st1).bind fun c1 =>
  (stepSym lr buf d2.1 s.st1 c1.2).bind fun d1 =>
  (look lr f2s syms p.1 s.st0).bind fun c0 =>
  (stepSym lr buf d1.1 s.st0 c0.2).bind fun d0 =>
    .ok ((c0.1, c1.1, c2.1, c3.1), ⟨d0.2, d1.2, d2.2, d3.2, d0.1⟩)

/-- order 0: `for i := 0; i < end4; i += 4` (all contexts 0; `block[i..i+3] = cur3, cur2, cur1, cur0`) -/
def rounds0 (lr : Nat) (f2s : Array Nat) (syms : Array DecSym) (buf : Array Nat) : Nat → Sts → R (List Nat × Sts)
  | 0, s => .ok ([], s)
  | m + 1, s =>
    (round lr f2s syms buf (0, 0, 0, 0) s).bind fun r =>
      (rounds0 lr f2s syms buf m r.2).bind fun t =>
        .ok (r.1.2.2.2 :: r.1.2.2.1 :: r.1.2.1 :: r.1.1 :: t.1, t.2)

/-- order 1: `for i0 < quarter` (`prv_k = cur_k` of the previous iteration) -/
def rounds1 (lr : Nat) (f2s : Array Nat) (syms : Array DecSym) (buf : Array Nat) : Nat → Quad → Sts → R (List Quad × Sts)
  | 0, _, s => .ok ([], s)
  | m + 1, p, s =>
    (round lr f2s syms buf p s).bind fun r =>
      (rounds1 lr f2s syms buf m r.1 r.2).bind fun t => .ok (r.1 :: t.1, t.2)

/-- `for i := end4; i < len(block); i++ { block[i] = this.buffer[n]; n++ }` -/
def tailBytes (buf : Array Nat) : Nat → Nat → R (List Nat)
  | 0, _ => .ok []
  | c + 1, n => if n < buf.size then (tailBytes buf c (n + 1)).bind fun t => .ok (buf.getD n 0 :: t) else .fault

/-! ### decodeChunkV2 -/

/-- `dst[0..len(bytes)) = bytes` (the effect of `ReadArray(this.buffer, 8*sz)`) -/
def writePrefix : List Nat → Nat → Array Nat → Array Nat
  | [], _, arr => arr
  | b :: bs, i, arr => writePrefix bs (i + 1) (arr.setIfInBounds i b)

/-- what precedes the payload: `sz := ReadVarInt(); if sz >= _ANS_MAX_CHUNK_SIZE { return false }`, four
    times `ReadBits(32)` -/
structure Pre where
  sz : Nat
  st0 : Nat
  st1 : Nat
  st2 : Nat
  st3 : Nat
  rest : Bits

def chunkPre (bs : Bits) : R Pre :=
  match readVarInt bs with
  | none => .eos
  | some (sz, r) =>
    if sz ≥ 2 ^ 27 then .err
    else
      (rBits 32 r).bind fun x0 => (rBits 32 x0.2).bind fun x1 => (rBits 32 x1.2).bind fun x2 =>
        (rBits 32 x2.2).bind fun x3 => .ok ⟨sz, x0.1, x1.1, x2.1, x3.1, x3.2⟩

/-- `minBufSize := max(2*len(block), 256); if len(this.buffer) < minBufSize { this.buffer = make([]byte, minBufSize) }` -/
def bufAlloc (len : Nat) (buf : Array Nat) : Array Nat :=
  if buf.size < max (2 * len) 256 then Array.replicate (max (2 * len) 256) 0 else buf

/-- `ReadArray(this.buffer, 8*sz)` then `clear(this.buffer[sz : min(sz+64, len(this.buffer))])` -/
def loadPayload (sz : Nat) (buf : Array Nat) (bs : Bits) : R (Array Nat × Bits) :=
  if sz > buf.size then .overrun
  else
    match readBytes sz bs with
    | none => .eos
    | some (bytes, r) => .ok (fill sz 0 (min (sz + 64) buf.size - sz) (writePrefix bytes 0 buf), r)

/-- the decoding part of `decodeChunkV2` for a chunk of `len > 0` bytes, once the payload is in
    `buf`: the main loop of the given order and the raw tail -/
def chunkBody (order lr len : Nat) (f2s : Array Nat) (syms : Array DecSym) (buf : Array Nat) (p : Pre) :
    R (List Nat) :=
  let s0 : Sts := ⟨p.st0, p.st1, p.st2, p.st3, 0⟩
  if order = 0 then
    if 2 ^ lr > f2s.size ∨ 256 > syms.size then .fault      -- `this.f2s[0:mask+1]`, `this.symbols[0:256]`
    else
      (rounds0 lr f2s syms buf (len / 4) s0).bind fun d =>
        (tailBytes buf (len % 4) d.2.n).bind fun t => .ok (d.1 ++ t)
  else
    (rounds1 lr f2s syms buf (len / 4) (0, 0, 0, 0) s0).bind fun d =>
      (tailBytes buf (len % 4) d.2.n).bind fun t => .ok (Kanzi.Ans1.quartersOf d.1 ++ t)

/-! ### decodeChunkV1 (bitstream version 1 only; reachable: the version comes from the stream header) -/

/-- `for st < _ANS_TOP { st = (st<<8)|buffer[n]; st = (st<<8)|buffer[n+1]; n += 2 }`.  Not bounded by
    the data: a state that stays below `_ANS_TOP` (zero bytes, or a negative state) runs until `n`
    leaves the buffer.  The fuel is `len(buffer)/2 + 1` iterations, which always suffices. -/
def renormV1 (buf : Array Nat) : Nat → Nat → Int → R (Nat × Int)
  | 0, _, _ => .fault
  | fuel + 1, n, st =>
    if st < 32768 then
      if n + 1 < buf.size then
        renormV1 buf fuel (n + 2)
          (wrap64 (wrap64 (st * 256 + (buf.getD n 0 : Int)) * 256) + (buf.getD (n + 1) 0 : Int))
      else .fault
    else .ok (n, st)

/-- V1 state update: no wrap to 16 bits at once, a loop -/
def stepSymV1 (lr : Nat) (buf : Array Nat) (n : Nat) (st : Int) (sym : DecSym) : R (Nat × Int) :=
  renormV1 buf (buf.size / 2 + 1) n
    (wrap64 ((sym.freq : Int) * (st / (2 ^ lr : Int)) + st % (2 ^ lr : Int) - (sym.cumFreq : Int)))

/-- V1, order 0: `for i := 0; i < end2; i += 2` with two states -/
def roundsV1o0 (lr : Nat) (f2s : Array Nat) (syms : Array DecSym) (buf : Array Nat) :
    Nat → Int → Int → Nat → R (List Nat × Nat)
  | 0, _, _, n => .ok ([], n)
  | m + 1, st0, st1, n =>
    (look lr f2s syms 0 st1).bind fun c1 =>
    (look lr f2s syms 0 st0).bind fun c0 =>
    (stepSymV1 lr buf n st1 c1.2).bind fun d1 =>
    (stepSymV1 lr buf d1.1 st0 c0.2).bind fun d0 =>
    (roundsV1o0 lr f2s syms buf m d0.2 d1.2 d0.1).bind fun t => .ok (c1.1 :: c0.1 :: t.1, t.2)

/-- V1, order 1: `for i := range block` with one state -/
def roundsV1o1 (lr : Nat) (f2s : Array Nat) (syms : Array DecSym) (buf : Array Nat) :
    Nat → Nat → Int → Nat → R (List Nat)
  | 0, _, _, _ => .ok []
  | m + 1, prv, st0, n =>
    (look lr f2s syms prv st0).bind fun c =>
    (stepSymV1 lr buf n st0 c.2).bind fun d =>
    (roundsV1o1 lr f2s syms buf m c.1 d.2 d.1).bind fun t => .ok (c.1 :: t)

structure PreV1 where
  sz : Nat
  st0 : Nat
  st1 : Nat
  rest : Bits

/-- `sz := ReadVarInt() & (MAX-1)`; `if int(sz) > max(2*len(block), 256) { return false }` (the repair of
    the forged-size allocation: checked BEFORE the states are read); `st0 := ReadBits(32)`, order 0
    only: `st1 := ReadBits(32)` -/
def chunkPreV1 (order len : Nat) (bs : Bits) : R PreV1 :=
  match readVarInt bs with
  | none => .eos
  | some (v, r) =>
    if v % 2 ^ 27 > max (2 * len) 256 then .err
    else
      (rBits 32 r).bind fun x0 =>
        if order = 0 then (rBits 32 x0.2).bind fun x1 => .ok ⟨v % 2 ^ 27, x0.1, x1.1, x1.2⟩
        else .ok ⟨v % 2 ^ 27, x0.1, 0, x0.2⟩

/-- `if len(this.buffer) < sz { this.buffer = make([]byte, sz+(sz>>3)) }` -/
def bufAllocV1 (sz : Nat) (buf : Array Nat) : Array Nat :=
  if buf.size < sz then Array.replicate (sz + sz / 8) 0 else buf

/-- `ReadArray(this.buffer[0:sz], 8*sz)`: the slice is exact, no guard bytes are cleared -/
def loadPayloadV1 (sz : Nat) (buf : Array Nat) (bs : Bits) : R (Array Nat × Bits) :=
  match readBytes sz bs with
  | none => .eos
  | some (bytes, r) => .ok (writePrefix bytes 0 buf, r)

/-- V1 decoding part (`sz > 0`) -/
def chunkBodyV1 (order lr len : Nat) (f2s : Array Nat) (syms : Array DecSym) (buf : Array Nat) (p : PreV1) :
    R (List Nat) :=
  if order = 0 then
    if 2 ^ lr > f2s.size ∨ 256 > syms.size then .fault
    else
      -- `end2 := (len & -2) - 1`; `for i := 0; i < end2; i += 2` runs `len/2` times
      (roundsV1o0 lr f2s syms buf (len / 2) p.st0 p.st1 0).bind fun d =>
        if len % 2 = 1 then
          -- `block[len-1] = this.buffer[sz-1]`
          if p.sz - 1 < buf.size then .ok (d.1 ++ [buf.getD (p.sz - 1) 0]) else .fault
        else .ok d.1
  else roundsV1o1 lr f2s syms buf len 0 p.st0 0

/-! ### the decoder object and `Read` -/

structure Params where
  order : Nat          -- 0 or 1
  chunkSize : Nat      -- as stored by the constructor
  bsVersion : Nat
deriving Repr, DecidableEq

/-- the constructors.  `chunkArg`: the optional second argument; `ctxBsv`: `none` for
    `NewANSRangeDecoder` (bitstream version 6), `some v` for `NewANSRangeDecoderWithCtx` with
    `ctx["bsVersion"] = v` (default chunk size 32768 below version 4).  `orderArg = none`: no
    argument at all.  `none` = constructor error. -/
def mkParams (orderArg chunkArg ctxBsv : Option Nat) : Option Params :=
  let bsv := ctxBsv.getD 6
  let dflt := if bsv < 4 then 32768 else 16384
  match orderArg with
  | none => some ⟨0, dflt, bsv⟩
  | some order =>
    if order ≠ 0 ∧ order ≠ 1 then none
    else
      match chunkArg with
      | none => some ⟨order, if order = 1 then min (dflt * 256) (2 ^ 27) else dflt, bsv⟩
      | some chk =>
        if chk < 1024 ∨ chk > 2 ^ 27 then none
        else some ⟨order, if order = 1 then min (chk * 256) (2 ^ 27) else chk, bsv⟩

def dimOf (order : Nat) : Nat := 255 * order + 1

/-- the mutable part of the decoder object -/
structure St where
  syms : Array DecSym      -- `this.symbols`, `dim*256` entries
  f2s : Array Nat          -- `this.f2s`
  buf : Array Nat          -- `this.buffer`

def fresh (order : Nat) : St := ⟨Array.replicate (dimOf order * 256) ⟨0, 0⟩, #[], #[]⟩

/-- how one `Read` call ended -/
inductive Cls where
  | ret (n : Nat) (err : Bool)    -- `return n, err`
  | stop (s : Stop)               -- a panic of class eos / fault / overrun (never `.err`)
  | fuel                          -- the model's chunk loop ran out of fuel (never happens)
deriving Repr, DecidableEq

/-- one `Read`.  `out` = `block[0:n]`; `st`, `rest` = decoder object and input after the call (only
    meaningful after `ret`).  `f2sSz`, `bufSz` = `len(this.f2s)`, `len(this.buffer)` when the call
    ended, HOWEVER it ended: both slices are only ever replaced by longer ones, so these are the
    largest allocations made. -/
structure Result where
  cls : Cls
  out : List Nat
  st : St
  rest : Bits
  f2sSz : Nat
  bufSz : Nat

def stopOf {α : Type} : R α → Stop
  | .err => .err
  | .eos => .eos
  | .overrun => .overrun
  | _ => .fault

/-- `len(this.f2s)` after the allocation rule of `decodeHeader` -/
def f2sSizeAfter (dim lr sz : Nat) : Nat := if sz < dim * 2 ^ lr then dim * 2 ^ lr else sz

/-- `len(this.buffer)` after the allocation rule of `decodeChunkV2` -/
def bufSizeAfter (len sz : Nat) : Nat := if sz < max (2 * len) 256 then max (2 * len) 256 else sz

/-- `len(this.buffer)` after the allocation rule of `decodeChunkV1` -/
def bufSizeAfterV1 (psz sz : Nat) : Nat := if sz < psz then psz + psz / 8 else sz

/-- the decoder object after a call that did not return normally: not observable -/
def noSt : St := ⟨#[], #[], #[]⟩

/-- one iteration of the chunk loop of `Read`: either the call ends, or the loop goes on -/
inductive Step where
  | done (r : Result)
  | next (count : Nat) (acc : List Nat) (syms : Array DecSym) (f2s : Array Nat) (buf : Array Nat) (bs : Bits)

/-- `decodeChunkV2` and the end of the loop body.  `len` = `endChunk - startChunk`, `rem` = bytes
    left after this chunk, `h` = what `decodeHeader` left, `fsz` = `len(this.f2s)` -/
def stepV2 (order lr len rem : Nat) (acc : List Nat) (h : Hdr) (buf : Array Nat) (bs0 : Bits) (fsz : Nat) : Step :=
  let bz := buf.size
  match chunkPre h.rest with
  | .err => .done ⟨.ret acc.length true, acc, noSt, bs0, fsz, bz⟩   -- "incorrect chunk size"
  | .ok q =>
    match loadPayload q.sz (bufAlloc len buf) q.rest with
    | .ok pl =>
      match chunkBody order lr len h.f2s h.syms pl.1 q with
      | .ok c => .next rem (acc ++ c) h.syms h.f2s pl.1 pl.2
      | e => .done ⟨.stop (stopOf e), acc, noSt, bs0, fsz, bufSizeAfter len bz⟩
    | e => .done ⟨.stop (stopOf e), acc, noSt, bs0, fsz, bufSizeAfter len bz⟩
  | e => .done ⟨.stop (stopOf e), acc, noSt, bs0, fsz, bz⟩

/-- `decodeChunkV1` and the end of the loop body -/
def stepV1 (order lr len rem : Nat) (acc : List Nat) (h : Hdr) (buf : Array Nat) (bs0 : Bits) (fsz : Nat) : Step :=
  let bz := buf.size
  match chunkPreV1 order len h.rest with
  | .err => .done ⟨.ret acc.length true, acc, noSt, bs0, fsz, bz⟩   -- "incorrect chunk size"
  | .ok q =>
    if q.sz = 0 then
      -- `return` before anything is written: the caller's block keeps its bytes (zeros here)
      .next rem (acc ++ List.replicate len 0) h.syms h.f2s buf q.rest
    else
      match loadPayloadV1 q.sz (bufAllocV1 q.sz buf) q.rest with
      | .ok pl =>
        match chunkBodyV1 order lr len h.f2s h.syms pl.1 q with
        | .ok c => .next rem (acc ++ c) h.syms h.f2s pl.1 pl.2
        | e => .done ⟨.stop (stopOf e), acc, noSt, bs0, fsz, bufSizeAfterV1 q.sz bz⟩
      | e => .done ⟨.stop (stopOf e), acc, noSt, bs0, fsz, bufSizeAfterV1 q.sz bz⟩
  | e => .done ⟨.stop (stopOf e), acc, noSt, bs0, fsz, bz⟩

/-- the body of `for startChunk < end` (`count = end - startChunk > 0`): `decodeHeader`, the
    single-symbol shortcut, `decodeChunkV1` / `decodeChunkV2` -/
def chunkStep (p : Params) (count : Nat) (acc : List Nat) (syms : Array DecSym) (f2s buf : Array Nat)
    (bs : Bits) : Step :=
  let fs := f2s.size
  let bz := buf.size
  match readBits 3 bs with
  | none => .done ⟨.stop .eos, acc, noSt, bs, fs, bz⟩
  | some (l, r) =>
    match hdrBody (dimOf p.order) (8 + l) f2s syms r with
    | .ok h =>
      if h.res = 0 then
        .done ⟨.ret acc.length false, acc, ⟨h.syms, h.f2s, buf⟩, h.rest,
          f2sSizeAfter (dimOf p.order) (8 + l) fs, bz⟩
      else if p.order = 0 ∧ h.res = 1 then
        -- "Shortcut for chunks with only one symbol"
        .next (count - min p.chunkSize count) (acc ++ List.replicate (min p.chunkSize count) h.a0)
          h.syms h.f2s buf h.rest
      else if p.bsVersion = 1 then
        stepV1 p.order (8 + l) (min p.chunkSize count) (count - min p.chunkSize count) acc h buf bs
          (f2sSizeAfter (dimOf p.order) (8 + l) fs)
      else
        stepV2 p.order (8 + l) (min p.chunkSize count) (count - min p.chunkSize count) acc h buf bs
          (f2sSizeAfter (dimOf p.order) (8 + l) fs)
    | .err => .done ⟨.ret acc.length true, acc, noSt, bs, f2sSizeAfter (dimOf p.order) (8 + l) fs, bz⟩
    | e => .done ⟨.stop (stopOf e), acc, noSt, bs, f2sSizeAfter (dimOf p.order) (8 + l) fs, bz⟩

/-- the chunk loop of `Read`: `for startChunk < end`.  `acc` = `block[0:startChunk]`, `count` =
    `end - startChunk`; `syms`, `f2s`, `buf` = the decoder object. -/
def readLoop (p : Params) : Nat → Nat → List Nat → Array DecSym → Array Nat → Array Nat → Bits → Result
  | 0, _, acc, syms, f2s, buf, bs => ⟨.fuel, acc, ⟨syms, f2s, buf⟩, bs, f2s.size, buf.size⟩
  | fuel + 1, count, acc, syms, f2s, buf, bs =>
    if count = 0 then ⟨.ret acc.length false, acc, ⟨syms, f2s, buf⟩, bs, f2s.size, buf.size⟩
    else
      match chunkStep p count acc syms f2s buf bs with
      | .done r => r
      | .next c a s f b r => readLoop p fuel c a s f b r

/-- the fuel `Read` needs: at most `count / chunkSize + 1` chunks, and one more test `startChunk < end` -/
def chunksOf (chunkSize count : Nat) : Nat := count / chunkSize + 2

/-- `ANSRangeDecoder.Read(block)` with `len(block) = count` (non nil) on the decoder object `s` -/
def read (p : Params) (s : St) (bs : Bits) (count : Nat) : Result :=
  if count ≤ 32 then
    -- `this.bitstream.ReadArray(block, uint(8*len(block)))`
    match readBytes count bs with
    | none => ⟨.stop .eos, [], noSt, bs, s.f2s.size, s.buf.size⟩
    | some (b, r) => ⟨.ret count false, b, s, r, s.f2s.size, s.buf.size⟩
  else readLoop p (chunksOf p.chunkSize count) count [] s.syms s.f2s s.buf bs

end Kanzi.AnsDec
