/-
The stream header of bitstream format version 6 (/repo/v2/io/CompressedStream.go,
`(*Writer).writeHeader` and `(*Reader).readHeader`) over abstract bit strings (`Kanzi.Bits`).
Core Lean only.  All constants are written by hand from the format.

Layout (MSB first): magic 32 | version 4 | ckSize 2 | entropy 5 | transform 48 | blockSize>>4 28 |
szMask 2 | origSize 16·szMask | padding 15 | crc 24.

`parseHeader` mirrors `readHeader` for version 6, in the order of the Go code: every `ReadBits`
that runs out of data is `eos` (Go: panic recovered into ERR_PROCESS_BLOCK); the checks are
magic, version ≤ 6 (versions < 6 are not modelled: `unsupported`), ckSize ≠ 3, known entropy
code, known transform codes in all eight 6-bit slots, block size in [1024, 2^30], CRC.  As in the Go
code the 15 padding bits are read and ignored (neither checked nor covered by the CRC).
-/
import Kanzi.Spec.Bits

namespace Kanzi.Header

open Kanzi.Bits

structure Header where
  /-- 0 = no block checksum, 1 = XXHash32, 2 = XXHash64 -/
  ckSize : Nat
  /-- 5-bit entropy codec code -/
  entropyType : Nat
  /-- eight 6-bit transform codes, first transform in the most significant slot -/
  transformType : Nat
  /-- block size in bytes (multiple of 16) -/
  blockSize : Nat
  /-- 0 = original size absent, k = original size stored on 16·k bits -/
  szMask : Nat
  origSize : Nat
deriving DecidableEq, Repr

inductive Err where
  | eos | magic | version | unsupported | ckSize | entropy | transform | blockSize | crc
deriving DecidableEq, Repr

/-! ### constants of the format -/

def magic : Nat := 0x4B414E5A        -- "KANZ"
def version : Nat := 6
def minBlockSize : Nat := 1024
def maxBlockSize : Nat := 1024 * 1024 * 1024
def crcHash : BitVec 32 := 0x1E35A7BD#32
def crcSeed : BitVec 32 := BitVec.ofNat 32 (0x01030507 * 6)

/-- entropy codes accepted by `entropy.GetName`: NONE 0, HUFFMAN 1, FPAQ 2, RANGE 4, ANS0 5, CM 6,
TPAQ 7, ANS1 8, TPAQX 9 (3 = obsolete PAQ is rejected) -/
def validEntropy (e : Nat) : Bool := e ≤ 9 && e != 3

/-- transform codes accepted by `transform.getByteFunctionNameToken`: 0 … 19 except 4 (SNAPPY) -/
def validToken (t : Nat) : Bool := t ≤ 19 && t != 4

/-- slot `i` (0 = first transform) of a 48-bit transform word; Go: `(t >> (42 - 6*i)) & 63` -/
def slot (t i : Nat) : Nat := (t >>> (42 - 6 * i)) % 64

/-- Go: `transform.GetName` succeeds -/
def validTransform (t : Nat) : Bool := (List.range 8).all (fun i => validToken (slot t i))

/-! ### header CRC -/

/-- Go: `uint32(^x)` for an integer `x` of at least 32 bits -/
def notLo (x : Nat) : BitVec 32 := ~~~ (BitVec.ofNat 32 x)

/-- Go: `uint32((^x) >> 32)` for a 64-bit integer `x` -/
def notHi (x : Nat) : BitVec 32 := ((~~~ (BitVec.ofNat 64 x)) >>> 32).setWidth 32

/-- the 32-bit accumulator before the final fold -/
def crcAcc (h : Header) : BitVec 32 :=
  let c0 := crcHash * crcSeed
  let c1 := c0 ^^^ (crcHash * notLo h.ckSize)
  let c2 := c1 ^^^ (crcHash * notLo h.entropyType)
  let c3 := c2 ^^^ (crcHash * notHi h.transformType)
  let c4 := c3 ^^^ (crcHash * notLo h.transformType)
  let c5 := c4 ^^^ (crcHash * notLo h.blockSize)
  if h.szMask > 0 then
    (c5 ^^^ (crcHash * notHi h.origSize)) ^^^ (crcHash * notLo h.origSize)
  else c5

/-- Go: `cksum = (cksum >> 23) ^ (cksum >> 3)` -/
def crcFold (c : BitVec 32) : BitVec 32 := (c >>> 23) ^^^ (c >>> 3)

/-- the value handed to `WriteBits(…, 24)` (29 significant bits; the low 24 are stored) -/
def headerCrc (h : Header) : Nat := (crcFold (crcAcc h)).toNat

/-! ### writer -/

/-- Go: the `switch` on `this.inputSize` in `writeHeader` (non-negative sizes) -/
def szMaskOf (inputSize : Nat) : Nat :=
  if inputSize = 0 then 0
  else if inputSize ≥ 2 ^ 48 then 0
  else if inputSize ≥ 2 ^ 32 then 3
  else if inputSize ≥ 2 ^ 16 then 2
  else 1

/-- the header a `Writer` built with these parameters emits (`inputSize` = the `fileSize` hint) -/
def mkHeader (ckSize entropyType transformType blockSize inputSize : Nat) : Header :=
  { ckSize, entropyType, transformType, blockSize,
    szMask := szMaskOf inputSize,
    origSize := if szMaskOf inputSize > 0 then inputSize else 0 }

/-- Go: `writeHeader` -/
def headerBits (h : Header) : Bits :=
  natBits magic 32 ++ natBits version 4 ++ natBits h.ckSize 2 ++ natBits h.entropyType 5 ++
  natBits h.transformType 48 ++ natBits (h.blockSize >>> 4) 28 ++ natBits h.szMask 2 ++
  (if h.szMask > 0 then natBits h.origSize (16 * h.szMask) else []) ++
  natBits 0 15 ++ natBits (headerCrc h) 24

/-! ### reader -/

/-- Go: `ibs.ReadBits(n)`; running out of data panics, recovered by `readHeader` -/
def readBits (n : Nat) (bs : Bits) : Except Err (Nat × Bits) :=
  if bs.length < n then .error .eos else .ok (bitsNat (bs.take n), bs.drop n)

/-- Go: `readHeader` for bitstream version 6 -/
def parseHeader (bs : Bits) : Except Err (Header × Bits) := do
  let m ← readBits 32 bs
  if m.1 ≠ magic then throw .magic
  let v ← readBits 4 m.2
  if v.1 > version then throw .version
  if v.1 < version then throw .unsupported
  let ck ← readBits 2 v.2
  if ck.1 = 3 then throw .ckSize
  let e ← readBits 5 ck.2
  if !validEntropy e.1 then throw .entropy
  let t ← readBits 48 e.2
  if !validTransform t.1 then throw .transform
  let b ← readBits 28 t.2
  let blockSize := b.1 <<< 4
  if blockSize < minBlockSize ∨ blockSize > maxBlockSize then throw .blockSize
  let sm ← readBits 2 b.2
  let sz ← (if sm.1 ≠ 0 then readBits (16 * sm.1) sm.2 else pure (0, sm.2))
  let pad ← readBits 15 sz.2
  let c ← readBits 24 pad.2
  let h : Header := { ckSize := ck.1, entropyType := e.1, transformType := t.1, blockSize := blockSize,
                      szMask := sm.1, origSize := sz.1 }
  if c.1 ≠ headerCrc h % 2 ^ 24 then throw .crc
  return (h, c.2)

/-- field ranges accepted by the `Writer` constructor (`createWriterWithCtx`) and produced by
`writeHeader` -/
structure WF (h : Header) : Prop where
  ck : h.ckSize ≤ 2
  ent : validEntropy h.entropyType = true
  trLt : h.transformType < 2 ^ 48
  tr : validTransform h.transformType = true
  bsLo : 1024 ≤ h.blockSize
  bsHi : h.blockSize ≤ 2 ^ 30
  bs16 : h.blockSize % 16 = 0
  mask : h.szMask ≤ 3
  size : h.origSize < 2 ^ (16 * h.szMask)

instance (h : Header) : Decidable (WF h) :=
  if c : h.ckSize ≤ 2 ∧ validEntropy h.entropyType = true ∧ h.transformType < 2 ^ 48 ∧
      validTransform h.transformType = true ∧ 1024 ≤ h.blockSize ∧ h.blockSize ≤ 2 ^ 30 ∧
      h.blockSize % 16 = 0 ∧ h.szMask ≤ 3 ∧ h.origSize < 2 ^ (16 * h.szMask) then
    isTrue ⟨c.1, c.2.1, c.2.2.1, c.2.2.2.1, c.2.2.2.2.1, c.2.2.2.2.2.1, c.2.2.2.2.2.2.1,
            c.2.2.2.2.2.2.2.1, c.2.2.2.2.2.2.2.2⟩
  else isFalse (fun w => c ⟨w.ck, w.ent, w.trLt, w.tr, w.bsLo, w.bsHi, w.bs16, w.mask, w.size⟩)

end Kanzi.Header
