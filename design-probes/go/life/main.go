package main

import (
	"bytes"
	"fmt"
	"io"
	"math/rand"

	kio "github.com/flanglet/kanzi-go/v2/io"
	"scratch/gen"
)

type sinkBuf struct {
	bytes.Buffer
	closes int
}

func (s *sinkBuf) Close() error { s.closes++; return nil }

type rc struct{ io.Reader }

func (rc) Close() error { return nil }

func comp(data []byte, tr, en string, bs, jobs, ck uint, hint int64, splits []int) []byte {
	var buf sinkBuf
	w, err := kio.NewWriter(&buf, tr, en, bs, jobs, ck, hint, false)
	if err != nil {
		panic(err)
	}
	off := 0
	i := 0
	for off < len(data) {
		n := len(data) - off
		if len(splits) > 0 {
			n = min(n, splits[i%len(splits)])
			i++
		}
		m, err := w.Write(data[off : off+n])
		if err != nil || m != n {
			panic(fmt.Sprint(err, m, n))
		}
		off += n
	}
	if err := w.Close(); err != nil {
		panic(err)
	}
	if w.GetWritten() != uint64(buf.Len()) {
		fmt.Println("  GetWritten", w.GetWritten(), "sink", buf.Len())
	}
	return buf.Bytes()
}

func main() {
	r := rand.New(rand.NewSource(5))
	data := gen.Text(r, 40*1024+123)
	fmt.Println("== C04 determinism across jobs & splits")
	for _, cfg := range [][2]string{{"NONE", "NONE"}, {"BWT", "ANS0"}, {"TEXT+LZ", "HUFFMAN"}, {"ROLZ", "NONE"}} {
		ref := comp(data, cfg[0], cfg[1], 4096, 1, 32, 0, nil)
		for _, jobs := range []uint{1, 2, 3, 4, 7, 8, 16, 32, 63, 64} {
			for _, sp := range [][]int{nil, {1}, {4096}, {4095, 1, 2}, {10000}, {0, 5, 0, 70000}} {
				if len(sp) == 1 && sp[0] == 1 && jobs > 2 {
					continue
				}
				c := comp(data, cfg[0], cfg[1], 4096, jobs, 32, 0, sp)
				if !bytes.Equal(c, ref) {
					fmt.Printf("  DIFF cfg=%v jobs=%d splits=%v len=%d ref=%d\n", cfg, jobs, sp, len(c), len(ref))
				}
			}
		}
	}
	fmt.Println("== C17 lifecycle")
	{
		var buf sinkBuf
		w, _ := kio.NewWriter(&buf, "NONE", "NONE", 1024, 2, 0, 0, false)
		fmt.Println("  close-empty", w.Close(), "again", w.Close(), "sink closes", buf.closes, "len", buf.Len(), "GetWritten", w.GetWritten())
		n, err := w.Write([]byte("abc"))
		fmt.Println("  write after close", n, err)
		n, err = w.Write(nil)
		fmt.Println("  write(0) after close", n, err)
		rd, _ := kio.NewReader(rc{bytes.NewReader(buf.Bytes())}, 1)
		d, err := io.ReadAll(rd)
		fmt.Println("  decode empty", len(d), err)
		n, err = rd.Read(make([]byte, 0))
		fmt.Println("  read(0) at EOF", n, err)
		n, err = rd.Read(make([]byte, 10))
		fmt.Println("  read(10) at EOF", n, err)
		fmt.Println("  rd close", rd.Close(), rd.Close())
		n, err = rd.Read(make([]byte, 10))
		fmt.Println("  read after close", n, err)
		fmt.Println("  GetRead", rd.GetRead())
	}
	{
		var buf sinkBuf
		w, _ := kio.NewWriter(&buf, "NONE", "NONE", 1024, 2, 0, 0, false)
		prev := uint64(0)
		mono := true
		for i := 0; i < 50; i++ {
			w.Write(data[i*100 : i*100+r.Intn(300)])
			g := w.GetWritten()
			if g < prev {
				mono = false
			}
			prev = g
		}
		w.Close()
		fmt.Println("  monotone", mono, "final", w.GetWritten(), buf.Len())
	}
}
