/-
The BWTBlockCodec header: big endian index coding, mode byte, exact header length, round trip
`parseHeader (headerBytes ..) = ..`, what an accepted header guarantees, and the width
`pIndexSizeOf n` being large enough for every index of a block of `n` bytes.
-/
import Kanzi.Model.BWT

namespace Kanzi.BWT

theorem beBytes_length (k v : Nat) : (beBytes k v).length = k := by
  induction k with
  | zero => rfl
  | succ k ih => simp [beBytes, ih]

theorem beBytes_lt (k v : Nat) : ∀ b ∈ beBytes k v, b < 256 := by
  induction k with
  | zero => intro b hb; simp [beBytes] at hb
  | succ k ih =>
    intro b hb
    simp only [beBytes, List.mem_cons] at hb
    rcases hb with rfl | hb
    · exact Nat.mod_lt _ (by decide)
    · exact ih b hb

theorem beValue_append (acc : Nat) (a b : List Nat) : beValue acc (a ++ b) = beValue (beValue acc a) b := by
  induction a generalizing acc with
  | nil => rfl
  | cons x xs ih => simp [beValue, ih]

theorem beValue_beBytes (k v acc : Nat) : beValue acc (beBytes k v) = acc * 256 ^ k + v % 256 ^ k := by
  induction k generalizing acc with
  | zero => simp [beBytes, beValue, Nat.mod_one]
  | succ k ih =>
    simp only [beBytes, beValue, ih]
    rw [Nat.shiftRight_eq_div_pow, Nat.pow_mul]
    have h256 : (2 : Nat) ^ 8 = 256 := by decide
    rw [h256, Nat.pow_succ]
    have e1 : v % (256 ^ k * 256) = v % 256 ^ k + 256 ^ k * (v / 256 ^ k % 256) := Nat.mod_mul
    rw [e1, Nat.add_mul, Nat.mul_assoc, Nat.mul_comm 256 (256 ^ k), Nat.mul_comm (v / 256 ^ k % 256) (256 ^ k)]
    omega

theorem beValue_beBytes_small (k v : Nat) (h : v < 256 ^ k) : beValue 0 (beBytes k v) = v := by
  rw [beValue_beBytes, Nat.mod_eq_of_lt h]; omega

theorem beValue_lt (l : List Nat) (acc : Nat) (hb : ∀ b ∈ l, b < 256) :
    beValue acc l < (acc + 1) * 256 ^ l.length := by
  induction l generalizing acc with
  | nil => simp [beValue]
  | cons x xs ih =>
    have hx := hb x List.mem_cons_self
    have := ih (acc * 256 + x) (fun b h => hb b (List.mem_cons_of_mem _ h))
    simp only [beValue, List.length_cons, Nat.pow_succ]
    calc beValue (acc * 256 + x) xs < (acc * 256 + x + 1) * 256 ^ xs.length := this
      _ ≤ ((acc + 1) * 256) * 256 ^ xs.length := Nat.mul_le_mul_right _ (by omega)
      _ = (acc + 1) * (256 ^ xs.length * 256) := by rw [Nat.mul_assoc, Nat.mul_comm 256]

/-- chunk `i` of a concatenation of chunks of equal length `k` -/
theorem chunk_of_flatten (ls : List (List Nat)) (k : Nat) (hk : ∀ l ∈ ls, l.length = k) (rest : List Nat)
    (i : Nat) (hi : i < ls.length) :
    ((ls.flatten ++ rest).drop (i * k)).take k = ls.getD i [] := by
  induction ls generalizing i with
  | nil => simp at hi
  | cons l ls ih =>
    have hl := hk l List.mem_cons_self
    cases i with
    | zero =>
      simp only [Nat.zero_mul, List.drop_zero, List.flatten_cons, List.append_assoc, List.getD_cons_zero]
      exact List.take_left' hl
    | succ i =>
      have e : (i + 1) * k = l.length + i * k := by rw [hl, Nat.succ_mul]; omega
      rw [List.flatten_cons, List.append_assoc, e, ← List.drop_drop, List.drop_left' rfl]
      simp only [List.getD_cons_succ]
      exact ih (fun x hx => hk x (List.mem_cons_of_mem _ hx)) i (by simpa using hi)

/-- the data of the header as `Forward` lays it out (without the mode byte) -/
abbrev indexBytes (chunks psz : Nat) (pidx : List Nat) : List Nat :=
  ((List.range chunks).map (fun i => beBytes psz (usub1 (pidx.getD i 0)))).flatten

theorem indexBytes_length (chunks psz : Nat) (pidx : List Nat) : (indexBytes chunks psz pidx).length = chunks * psz := by
  simp only [indexBytes, List.length_flatten, List.map_map, Function.comp_def, beBytes_length]
  induction chunks with
  | zero => simp
  | succ c ih => rw [List.range_succ, List.map_append, List.sum_append, ih, Nat.succ_mul]; simp

theorem headerBytes_eq (chunks psz : Nat) (pidx : List Nat) :
    headerBytes chunks psz pidx = ((log2 chunks) <<< 2 ||| (psz - 1)) % 256 :: indexBytes chunks psz pidx := rfl

theorem headerBytes_length (chunks psz : Nat) (pidx : List Nat) :
    (headerBytes chunks psz pidx).length = chunks * psz + 1 := by
  rw [headerBytes_eq, List.length_cons, indexBytes_length]

/-- mode byte decoding for the two chunk counts and four widths the encoder can emit -/
theorem mode_decode (chunks psz : Nat) (hc : chunks = 1 ∨ chunks = 8) (hp : 1 ≤ psz ∧ psz ≤ 4) :
    let mode := ((log2 chunks) <<< 2 ||| (psz - 1)) % 256
    1 <<< ((mode >>> 2) &&& 7) = chunks ∧ (mode &&& 3) + 1 = psz := by
  obtain ⟨h1, h2⟩ := hp
  have : psz = 1 ∨ psz = 2 ∨ psz = 3 ∨ psz = 4 := by omega
  rcases hc with rfl | rfl <;> rcases this with rfl | rfl | rfl | rfl <;> decide

/-- HEADER ROUND TRIP.  For the chunk count of the block (1 or 8), every index width 1..4 and every
primary index in `1 .. 256^psz` (so every index below 2^32 + 1 with four bytes): parsing the emitted
header followed by the data returns exactly the indexes, the exact header length, and leaves the
other slots alone. -/
theorem parseHeader_headerBytes (old pidx data : List Nat) (psz : Nat) (hp : 1 ≤ psz ∧ psz ≤ 4)
    (hidx : ∀ i, i < getBWTChunks data.length → 1 ≤ pidx.getD i 0 ∧ pidx.getD i 0 ≤ 256 ^ psz) :
    parseHeader old (headerBytes (getBWTChunks data.length) psz pidx ++ data)
      = .ok { pidx := (List.range (getBWTChunks data.length)).map (fun i => pidx.getD i 0)
                        ++ old.drop (getBWTChunks data.length),
              headerSize := getBWTChunks data.length * psz + 1 } := by
  have hc : getBWTChunks data.length = 1 ∨ getBWTChunks data.length = 8 := by
    unfold getBWTChunks; split <;> simp
  generalize hch : getBWTChunks data.length = chunks at *
  obtain ⟨hm1, hm2⟩ := mode_decode chunks psz hc hp
  have hlen : (headerBytes chunks psz pidx ++ data).length = chunks * psz + 1 + data.length := by
    rw [List.length_append, headerBytes_length]
  simp only [parseHeader, parseHeaderN, hlen]
  rw [headerBytes_eq]
  simp only [List.cons_append, List.headD_cons, hm1, hm2]
  have h1 : ¬ chunks * psz + 1 + data.length < chunks * psz + 1 := by omega
  have h2 : chunks * psz + 1 + data.length - (chunks * psz + 1) = data.length := by omega
  simp only [h1, ite_false, h2, hch, ne_eq, not_true_eq_false]
  congr 2
  congr 1
  apply List.map_congr_left
  intro i hi
  have hi' := List.mem_range.1 hi
  rw [← List.drop_drop]
  simp only [List.drop_succ_cons, List.drop_zero]
  rw [chunk_of_flatten _ psz (by
      intro l hl
      obtain ⟨j, _, rfl⟩ := List.mem_map.1 hl
      exact beBytes_length _ _) data i (by simpa using hi')]
  have hg : ((List.range chunks).map (fun i => beBytes psz (usub1 (pidx.getD i 0)))).getD i []
      = beBytes psz (usub1 (pidx.getD i 0)) := by
    simp [List.getD_eq_getElem?_getD, hi']
  obtain ⟨hlo, hhi⟩ := hidx i hi'
  have hpow : 256 ^ psz ≤ 256 ^ 4 := Nat.pow_le_pow_right (by decide) hp.2
  have hu : usub1 (pidx.getD i 0) = pidx.getD i 0 - 1 := by
    unfold usub1
    have : (256 : Nat) ^ 4 < 2 ^ 64 := by decide
    omega
  rw [hg, beValue_beBytes_small _ _ (by rw [hu]; omega), hu]
  omega

/-- WHAT AN ACCEPTED HEADER GUARANTEES (the validation of `BWTBlockCodec.Inverse`): the header fits, the
chunk count is the one of the data length, every extracted primary index is in `1 .. 2^32`, the other
slots are untouched. -/
theorem parseHeader_ok (old src : List Nat) (hb : ∀ b ∈ src, b < 256) (h : Header)
    (hok : parseHeader old src = .ok h) :
    h.headerSize ≤ src.length ∧ 2 ≤ h.headerSize ∧ h.headerSize ≤ MAX_HEADER_SIZE ∧
    (∀ i, i < getBWTChunks (src.length - h.headerSize) →
        1 ≤ h.pidx.getD i 0 ∧ h.pidx.getD i 0 ≤ 2 ^ 32) ∧
    h.pidx.drop (getBWTChunks (src.length - h.headerSize)) = old.drop (getBWTChunks (src.length - h.headerSize)) := by
  simp only [parseHeader, parseHeaderN] at hok
  generalize hmode : src.headD 0 = mode at hok
  generalize hl : (mode >>> 2) &&& 7 = l at hok
  generalize hp : (mode &&& 3) = p at hok
  have hp3 : p ≤ 3 := by rw [← hp]; exact Nat.and_le_right
  have hl7 : l ≤ 7 := by rw [← hl]; exact Nat.and_le_right
  split at hok
  · cases hok
  · split at hok
    · cases hok
    · next h1 h2 =>
      injection hok with hok
      subst hok
      simp only
      have hch : 1 <<< l = getBWTChunks (src.length - (1 <<< l * (p + 1) + 1)) := by
        simpa using h2
      have hc18 : 1 <<< l = 1 ∨ 1 <<< l = 8 := by
        rw [hch]; unfold getBWTChunks; split <;> simp
      refine ⟨by omega, ?_, ?_, ?_, ?_⟩
      · rcases hc18 with h | h <;> rw [h] <;> omega
      · unfold MAX_HEADER_SIZE
        rcases hc18 with h | h <;> rw [h] <;> omega
      · intro i hi
        rw [← hch] at hi
        rw [List.getD_eq_getElem?_getD, List.getElem?_append_left (by simpa using hi)]
        simp only [List.getElem?_map, List.getElem?_range hi, Option.map_some, Option.getD_some]
        have hbl := beValue_lt ((src.drop (1 + i * (p + 1))).take (p + 1)) 0
          (fun b hb' => hb b (List.mem_of_mem_drop (List.mem_of_mem_take hb')))
        have hlen : ((src.drop (1 + i * (p + 1))).take (p + 1)).length ≤ 4 := by
          rw [List.length_take]; omega
        have : 256 ^ ((src.drop (1 + i * (p + 1))).take (p + 1)).length ≤ 256 ^ 4 :=
          Nat.pow_le_pow_right (by decide) hlen
        have e : (256 : Nat) ^ 4 = 2 ^ 32 := by decide
        omega
      · rw [← hch]
        exact List.drop_left' (by simp)

/-! ### the index width chosen by Forward is large enough -/

theorem testBit_top (x l : Nat) (h1 : 2 ^ l ≤ x) (h2 : x < 2 ^ (l + 1)) : x.testBit l = true := by
  rw [Nat.testBit_eq_decide_div_mod_eq]
  have : x / 2 ^ l = 1 := by
    apply Nat.div_eq_of_lt_le
    · omega
    · rw [Nat.pow_succ] at h2; omega
  simp [this]

/-- `n & (n-1) == 0` only for powers of two -/
theorem pow2_of_and_pred (n : Nat) (hn : n ≠ 0) (h : n &&& (n - 1) = 0) : n = 2 ^ Nat.log2 n := by
  have h1 := Nat.log2_self_le hn
  have h2 : n < 2 ^ (Nat.log2 n + 1) := Nat.lt_log2_self
  refine Classical.byContradiction fun hne => ?_
  have h3 : 2 ^ Nat.log2 n ≤ n - 1 := by omega
  have t1 := testBit_top n _ h1 h2
  have t2 := testBit_top (n - 1) _ h3 (by omega)
  have := Nat.testBit_and n (n - 1) (Nat.log2 n)
  rw [h, t1, t2] at this
  simp at this

/-- every row number `1 .. n` fits the width `pIndexSizeOf n` (the header stores row - 1) -/
theorem le_pow_pIndexSize (n : Nat) (hn : n ≠ 0) : n ≤ 256 ^ pIndexSizeOf n := by
  unfold pIndexSizeOf log2
  simp only
  have h256 : ∀ k, (256 : Nat) ^ k = 2 ^ (8 * k) := by
    intro k; rw [Nat.pow_mul]
  rw [h256, Nat.shiftRight_eq_div_pow]
  have h2 : n < 2 ^ (Nat.log2 n + 1) := Nat.lt_log2_self
  split
  · have : Nat.log2 n + 1 ≤ 8 * ((Nat.log2 n + 1 + 7) / 2 ^ 3) := by omega
    exact Nat.le_trans (Nat.le_of_lt h2) (Nat.pow_le_pow_right (by decide) this)
  · next h =>
    have hz : n &&& (n - 1) = 0 := by simpa using h
    have hp := pow2_of_and_pred n hn hz
    have : Nat.log2 n ≤ 8 * ((Nat.log2 n + 7) / 2 ^ 3) := by omega
    calc n = 2 ^ Nat.log2 n := hp
      _ ≤ _ := Nat.pow_le_pow_right (by decide) this

theorem pIndexSize_range (n : Nat) (h2 : 2 ≤ n) (hmax : n ≤ MAX_BLOCK_SIZE) :
    1 ≤ pIndexSizeOf n ∧ pIndexSizeOf n ≤ 4 := by
  have hn : n ≠ 0 := by omega
  have hl1 : 1 ≤ Nat.log2 n := by
    have : ¬ Nat.log2 n < 1 := by
      rw [Nat.log2_lt hn]; omega
    omega
  have hl2 : Nat.log2 n < 31 := by
    rw [Nat.log2_lt hn]
    unfold MAX_BLOCK_SIZE at hmax
    omega
  unfold pIndexSizeOf log2
  simp only [Nat.shiftRight_eq_div_pow]
  split <;> omega

end Kanzi.BWT
