/-
Proofs for `Kanzi/Model/BlockGen2.lean`, part 4: what a header announces (`cfgOfHeader2`), and the byte
image of a whole stream (`streamImageGen2` read back by `parseImageGen2`).
-/
import Kanzi.Proofs.BlockGen2
import Kanzi.Proofs.BlockGenStream

namespace Kanzi.BlockGen2
open Kanzi.Bits Kanzi.TrSmall Kanzi.Block Kanzi.BlockGen

/-! ### headers -/

theorem kindsOfTokens_length (fast : Bool) : ∀ (ts : List Nat) (dna : Bool) (ks : List Kind),
    kindsOfTokens fast ts dna = some ks → ks.length = ts.length := by
  intro ts
  induction ts with
  | nil => intro dna ks h; simp [kindsOfTokens] at h; subst h; rfl
  | cons t ts ih =>
    intro dna ks h
    unfold kindsOfTokens at h
    cases h1 : tokenKind fast dna t with
    | none => rw [h1] at h; simp at h
    | some k =>
      cases h2 : kindsOfTokens fast ts (dna || t == 19) with
      | none => rw [h1, h2] at h; simp at h
      | some ks' =>
        rw [h1, h2] at h
        simp at h
        subst h
        simp [ih _ _ h2]

/-- the entropy codecs whose instance is conditional (`fits2`) -/
def IsCondEnt (e : Ent) : Prop := e = fpaqEnt ∨ e = cmEnt

theorem entOf2_cases (e : Nat) (ent : Ent) (h : entOf2 e = some ent) :
    (IsModelledEnt ent ∧ (e = 0 ∨ e = 1 ∨ e = 4 ∨ e = 5 ∨ e = 8)) ∨ (IsCondEnt ent ∧ (e = 2 ∨ e = 6)) := by
  unfold entOf2 at h
  unfold IsModelledEnt IsCondEnt
  split at h
  · injection h with h; exact Or.inl ⟨Or.inl h.symm, by omega⟩
  · split at h
    · injection h with h; exact Or.inl ⟨Or.inr (Or.inr (Or.inr (Or.inr h.symm))), by omega⟩
    · split at h
      · injection h with h; exact Or.inl ⟨Or.inr (Or.inr (Or.inr (Or.inl h.symm))), by omega⟩
      · split at h
        · injection h with h; exact Or.inl ⟨Or.inr (Or.inl h.symm), by omega⟩
        · split at h
          · injection h with h; exact Or.inl ⟨Or.inr (Or.inr (Or.inl h.symm)), by omega⟩
          · split at h
            · injection h with h; exact Or.inr ⟨Or.inl h.symm, by omega⟩
            · split at h
              · injection h with h; exact Or.inr ⟨Or.inr h.symm, by omega⟩
              · cases h

/-- the five unconditional codecs -/
def uncondEntropy (e : Nat) : Prop := e = 0 ∨ e = 1 ∨ e = 4 ∨ e = 5 ∨ e = 8

theorem entOf2_modelled (e : Nat) (ent : Ent) (h : entOf2 e = some ent) (he : uncondEntropy e) :
    IsModelledEnt ent := by
  rcases entOf2_cases e ent h with ⟨h1, _⟩ | ⟨_, h2⟩
  · exact h1
  · unfold uncondEntropy at he; omega

theorem cfgOfHeader2_spec (h : Header.Header) (sb : Bool) (c : Cfg2) (hc : cfgOfHeader2 h sb = some c) :
    c.ck = 32 * h.ckSize ∧ c.skipBlocks = sb ∧ c.bs = some h.blockSize ∧ entOf2 h.entropyType = some c.ent ∧
      ∃ ks, newSeq2 h.transformType h.entropyType = some ks ∧ c.trs = kindTrs ks ∧ ks.length ≤ 8 := by
  unfold cfgOfHeader2 at hc
  cases h1 : newSeq2 h.transformType h.entropyType with
  | none => rw [h1] at hc; simp at hc
  | some ks =>
    cases h2 : entOf2 h.entropyType with
    | none => rw [h1, h2] at hc; simp at hc
    | some ent =>
      rw [h1, h2] at hc
      simp at hc
      subst hc
      refine ⟨rfl, rfl, rfl, rfl, ks, rfl, rfl, ?_⟩
      rw [kindsOfTokens_length _ _ _ _ h1]
      exact seqTokens_length _

/-! ### whole streams -/

/-- the encoding task succeeds whatever the length of its output buffer, the decoding task returns the
block, the payload fits a frame -/
def BlockOK2 (ce : Cfg2) (cd : Cfg) (B : Nat) (b : List Nat) : Prop :=
  ∀ obuf, ∃ p, encodeTaskGen2 ce obuf b = .ok p ∧ decodeTaskGen cd B p = ⟨b.length, .ok b⟩ ∧ FrameFit B p

theorem encodeBlocks2_ok (ce : Cfg2) (cd : Cfg) (B : Nat) :
    ∀ (blocks : List (List Nat)) (k : Nat) (obufs : List Nat),
      (∀ b ∈ blocks, BlockOK2 ce cd B b ∧ 0 < b.length ∧ b.length ≤ B) →
      ∃ ps, encodeBlocks2 ce blocks k obufs = .ok ps ∧ ps.length = blocks.length ∧
        (∀ p ∈ ps, 0 < p.length ∧ p.length < 2 ^ 34 ∧ p.length ≤ maxFrameBits B) ∧
        BlockGen.decodeFrames cd B (ps.map Container.Item.payload ++ [Container.Item.endMark]) = (blocks, .endOfStream) := by
  intro blocks
  induction blocks with
  | nil => intro k obufs _; exact ⟨[], rfl, rfl, by simp, by simp [BlockGen.decodeFrames]⟩
  | cons b bs ih =>
    intro k obufs h
    obtain ⟨hok, h0, hB⟩ := h b (by simp)
    obtain ⟨p, hp, hd, hf⟩ := hok (obufs.getD (k % obufs.length) 0)
    obtain ⟨ps, hps, hl, hfit, hdec⟩ := ih (k + 1)
      (obufs.set (k % obufs.length) (nextObuf ce (obufs.getD (k % obufs.length) 0) b))
      (fun q hq => h q (by simp [hq]))
    refine ⟨p :: ps, ?_, by simp [hl], ?_, ?_⟩
    · rw [encodeBlocks2, hp]
      simp only [hps]
    · intro q hq
      rcases List.mem_cons.mp hq with hq | hq
      · subst hq; exact hf
      · exact hfit q hq
    · simp only [List.map_cons, List.cons_append]
      rw [BlockGen.decodeFrames, hd]
      simp only [hdec]
      rw [if_neg (by omega), if_neg (by omega)]

/-- the whole image: written by a Writer (any job count) whose tasks use `ce`, read with the
configuration `cd` announced by the header -/
theorem parseImageGen2_streamImageGen2 (h : Header.Header) (wf : Header.WF h) (ce cd : Cfg2) (jobs : Nat)
    (hcfg : cfgOfHeader2 h false = some cd) (blocks : List (List Nat))
    (hok : ∀ b ∈ blocks, BlockOK2 ce cd.toCfg h.blockSize b ∧ 0 < b.length ∧ b.length ≤ h.blockSize) :
    ∃ img, streamImageGen2 h ce jobs blocks = .ok img ∧
      parseImageGen2 img = (some h, blocks, .endOfStream) := by
  obtain ⟨ps, hps, hl, hfit, hdec⟩ := encodeBlocks2_ok ce cd.toCfg h.blockSize blocks 0 (List.replicate jobs 0) hok
  refine ⟨packBytes (streamBitsOf h ps), ?_, ?_⟩
  · unfold streamImageGen2
    rw [hps]
  · unfold parseImageGen2 streamBitsOf
    rw [ofBytes_packBytes, List.append_assoc, List.append_assoc, Header.parseHeader_headerBits h wf]
    simp only [hcfg]
    rw [← List.append_assoc,
      parseFrames_stream h.blockSize _ _ hfit _
      (by
        have := flatMap_frameBits_length ps
        simp only [List.length_append] at this ⊢
        omega)]
    rw [hdec]

end Kanzi.BlockGen2
