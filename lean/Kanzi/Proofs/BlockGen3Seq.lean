/-
Proofs for `Kanzi/Model/BlockGen3.lean`, part 0: the forward loop of the transform sequence (`BlockGen2.seqFwdGo2`)
against the inverse loop of `TrSmall`, for a WEAKER per-transform law than `Tr2.Law` of `Proofs/BlockGen2Seq.lean`:

  `Law3 t g lim P`: as `Tr2.Law`, but Inverse is only required to restore the block into a destination that is
  STRICTLY longer than the block and whose size satisfies `P` (an admissible destination size).

This is what `transform.TextCodec` satisfies (slice text): codec 1 fails into a destination of exactly the block
length when the block ends with an escape byte, and both codecs compute `uint32(len(dst)/128)`, which wraps from
2^39 on.  The sequence always inverts into buffers longer than the block (`dl ≥ blockSize + 512`), so nothing is
lost: the price is the STRICT version `gboundS` of the bound that links the output bound `g` to `MaxEncodedLen`
(an input shorter than the bound handed to `MaxEncodedLen` has an output shorter than the next bound), which all
nineteen kinds satisfy.  `Tr2.Law` + `gboundS` gives `Law3` for every `P` (`Law3.ofLaw`).
-/
import Kanzi.Model.BlockGen3
import Kanzi.Proofs.BlockGen2Seq

namespace Kanzi.BlockGen3
open Kanzi.Bits Kanzi.TrSmall Kanzi.Block Kanzi.BlockGen Kanzi.BlockGen2

/-- the law of one transform, with strict destination sizes restricted to `P` -/
structure Law3 (t : Tr2) (g : Nat → Nat) (lim : Nat) (P : Nat → Prop) : Prop where
  gmono : ∀ a b, a ≤ b → g a ≤ g b
  gbound : ∀ s r, s ≤ r → s ≤ lim → g s ≤ max r (t.maxLen r)
  gboundS : ∀ s r, s < r → s ≤ lim → max s (g s) < max r (t.maxLen r)
  rt : ∀ dt x d y, Bytes x → x.length ≤ lim → 0 < d → t.fwd dt x d = .ok y →
    Bytes y ∧ y.length ≤ g x.length ∧ (x ≠ [] → y ≠ []) ∧ ∀ n, x.length < n → P n → t.inv y n = .ok x

/-- the law of `BlockGen2` (Inverse restores into every destination of at least the block length) is stronger -/
theorem Law3.ofLaw {t : Tr2} {g : Nat → Nat} {lim : Nat} (h : t.Law g lim)
    (hS : ∀ s r, s < r → s ≤ lim → max s (g s) < max r (t.maxLen r)) (P : Nat → Prop) : Law3 t g lim P where
  gmono := h.gmono
  gbound := h.gbound
  gboundS := hS
  rt := by
    intro dt x d y hb hl hd hf
    obtain ⟨h1, h2, h3⟩ := h.rt dt x d y hb hl hd hf
    refine ⟨h1, h2, fun hx hy => ?_, fun n hn _ => h3 n (Nat.le_of_lt hn)⟩
    subst hy
    have := h3 x.length (Nat.le_refl _)
    rw [h.invNil] at this
    injection this with this
    exact hx this.symm

/-- the sharp bound stays below `MaxEncodedLen` of the sequence -/
theorem runG_le_runMax3 (lim : Nat) (P : Nat → Prop) : ∀ (ls : List LTr), (∀ l ∈ ls, Law3 l.t l.g lim P) →
    ∀ s m, s ≤ m → runG ls s ≤ lim → runG ls s ≤ runMax ls m := by
  intro ls
  induction ls with
  | nil => intro _ s m h _; exact h
  | cons l ls ih =>
    intro hlaw s m hsm hlim
    have hL := hlaw l (List.mem_cons_self ..)
    rw [runG] at hlim ⊢
    rw [runMax]
    have hslim : s ≤ lim := Nat.le_trans (Nat.le_trans (Nat.le_max_left s (l.g s)) (le_runG ls _)) hlim
    have hs' : max s (l.g s) ≤ (if l.t.maxLen m > m then l.t.maxLen m else m) := by
      have h1 := hL.gbound s m hsm hslim
      split <;> omega
    exact ih (fun l' h' => hlaw l' (List.mem_cons_of_mem _ h')) _ _ hs' hlim

/-! ### forward loop against inverse loop -/

theorem seqGo3_roundtrip (lim req l0 n : Nat) (P : Nat → Prop) (hreq0 : 0 < req) (hl0 : 0 < l0) :
    ∀ (ls : List LTr) (i : Nat) (even : Bool) (dt : Nat) (cur : List Nat) (f m s : Nat),
      (∀ l ∈ ls, Law3 l.t l.g lim P) →
      i + ls.length ≤ 8 →
      (∀ k, i ≤ k → k < 8 → flagSet f k = true) →
      Bytes cur → cur.length ≤ s →
      runG ls s ≤ lim →
      (s < m → runMax ls m ≤ n → P n →
        seqInvGo (stagesOf (trsOf (ltrs ls)) 0 n) i (seqFwdGo2 req l0 (ltrs ls) i even dt cur f).2
          (seqFwdGo2 req l0 (ltrs ls) i even dt cur f).1 = .ok cur) ∧
        Bytes (seqFwdGo2 req l0 (ltrs ls) i even dt cur f).1 ∧
        (seqFwdGo2 req l0 (ltrs ls) i even dt cur f).1.length ≤ runG ls s ∧
        (cur ≠ [] → (seqFwdGo2 req l0 (ltrs ls) i even dt cur f).1 ≠ []) := by
  intro ls
  induction ls with
  | nil =>
    intro i even dt cur f m s _ _ _ hb hs _
    exact ⟨fun _ _ _ => rfl, hb, hs, fun h => h⟩
  | cons l rest ih =>
    intro i even dt cur f m s hlaw hlen hset hb hs hlim
    simp only [List.length_cons] at hlen
    have hL := hlaw l (List.mem_cons_self ..)
    have hrestL : ∀ l' ∈ rest, Law3 l'.t l'.g lim P := fun l' h => hlaw l' (List.mem_cons_of_mem _ h)
    rw [runG] at hlim
    -- bounds
    have hslim : s ≤ lim := Nat.le_trans (Nat.le_trans (Nat.le_max_left s (l.g s)) (le_runG rest _)) hlim
    have hd : 0 < (if even then l0 else req) := by split <;> omega
    have hm'eq : (if l.t.maxLen m > m then l.t.maxLen m else m) = max m (l.t.maxLen m) := by split <;> omega
    show (s < m → runMax (l :: rest) m ≤ n → P n →
        seqInvGo (stagesOf (trsOf (l.t :: ltrs rest)) 0 n) i
          (seqFwdGo2 req l0 (l.t :: ltrs rest) i even dt cur f).2
          (seqFwdGo2 req l0 (l.t :: ltrs rest) i even dt cur f).1 = .ok cur) ∧
      Bytes (seqFwdGo2 req l0 (l.t :: ltrs rest) i even dt cur f).1 ∧
      (seqFwdGo2 req l0 (l.t :: ltrs rest) i even dt cur f).1.length ≤ runG (l :: rest) s ∧
      (cur ≠ [] → (seqFwdGo2 req l0 (l.t :: ltrs rest) i even dt cur f).1 ≠ [])
    rw [stagesOf_cons, seqFwdGo2, runG, runMax]
    cases hfw : l.t.fwd dt cur (if even then l0 else req) with
    | error e =>
      simp only
      obtain ⟨h1, h2, h3, h4⟩ := ih (i + 1) even ((l.t.ctxw dt cur (if even then l0 else req)).getD dt) cur f
        (if l.t.maxLen m > m then l.t.maxLen m else m) (max s (l.g s)) hrestL (by omega)
        (fun k hk hk8 => hset k (by omega) hk8) hb (by omega) hlim
      refine ⟨fun hsm hn hP => ?_, h2, h3, h4⟩
      have hs' : max s (l.g s) < (if l.t.maxLen m > m then l.t.maxLen m else m) := by
        rw [hm'eq]; exact hL.gboundS s m hsm hslim
      rw [seqInvGo, h1 hs' hn hP]
      simp only
      have : flagSet (seqFwdGo2 req l0 (ltrs rest) (i + 1) even
          ((l.t.ctxw dt cur (if even then l0 else req)).getD dt) cur f).2 i = true := by
        rw [seqFwdGo2_flag_preserved req l0 (ltrs rest) (i + 1) _ _ cur f i (by omega)
          (by simp only [ltrs, List.length_map]; omega)]
        exact hset i (Nat.le_refl _) (by omega)
      rw [this]
      rfl
    | ok y =>
      simp only
      obtain ⟨hyb, hyl, hyne, hyinv⟩ := hL.rt dt cur _ y hb (by omega) hd hfw
      have hyl' : y.length ≤ max s (l.g s) := by
        have := hL.gmono cur.length s hs
        omega
      have hset' : ∀ k, i + 1 ≤ k → k < 8 → flagSet (clearFlag f i) k = true := by
        intro k hk hk8
        rw [flagSet_clear_other f k i hk8 (by omega) (by omega)]
        exact hset k (by omega) hk8
      obtain ⟨h1, h2, h3, h4⟩ := ih (i + 1) (!even) ((l.t.ctxw dt cur (if even then l0 else req)).getD dt) y
        (clearFlag f i) (if l.t.maxLen m > m then l.t.maxLen m else m) (max s (l.g s)) hrestL (by omega)
        hset' hyb hyl' hlim
      refine ⟨fun hsm hn hP => ?_, h2, h3, fun hc => h4 (hyne hc)⟩
      have hs' : max s (l.g s) < (if l.t.maxLen m > m then l.t.maxLen m else m) := by
        rw [hm'eq]; exact hL.gboundS s m hsm hslim
      have hle1 := le_runMax rest (if l.t.maxLen m > m then l.t.maxLen m else m)
      rw [seqInvGo, h1 hs' hn hP]
      simp only
      have : flagSet (seqFwdGo2 req l0 (ltrs rest) (i + 1) (!even)
          ((l.t.ctxw dt cur (if even then l0 else req)).getD dt) y (clearFlag f i)).2 i = false := by
        rw [seqFwdGo2_flag_preserved req l0 (ltrs rest) (i + 1) _ _ y _ i (by omega)
          (by simp only [ltrs, List.length_map]; omega)]
        exact flagSet_clear_self f i (by omega)
      rw [this]
      exact hyinv n (by omega) hP

/-- the sequence: the output of `Forward` (into non-empty destinations) consists of bytes, is at most `runG ls len`
bytes long and is empty only for an empty block; `Inverse` into buffers of `n` bytes, `n` admissible and at least
`MaxEncodedLen` of the sequence on some `m` above the block length, undoes it -/
theorem seq3_roundtrip (lim req l0 n dt m : Nat) (P : Nat → Prop) (ls : List LTr) (x : List Nat)
    (hlaw : ∀ l ∈ ls, Law3 l.t l.g lim P) (hlen : ls.length ≤ 8) (hreq0 : 0 < req) (hl0 : 0 < l0)
    (hb : Bytes x) (hlim : runG ls x.length ≤ lim) :
    (x.length < m → runMax ls m ≤ n → P n →
      seqInverse (stagesOf (trsOf (ltrs ls)) 0 n) (seqForward2 (ltrs ls) req l0 dt x).2
        (seqForward2 (ltrs ls) req l0 dt x).1 = .ok x) ∧
      Bytes (seqForward2 (ltrs ls) req l0 dt x).1 ∧
      (seqForward2 (ltrs ls) req l0 dt x).1.length ≤ runG ls x.length ∧
      (x ≠ [] → (seqForward2 (ltrs ls) req l0 dt x).1 ≠ []) := by
  unfold seqForward2
  by_cases hx : x.length = 0
  · have : x = [] := List.eq_nil_of_length_eq_zero hx
    subst this
    rw [if_pos hx]
    refine ⟨fun _ _ _ => ?_, ?_, ?_, ?_⟩
    · simp [seqInverse]
    · intro b hb; cases hb
    · simp
    · intro h; exact absurd rfl h
  · have hx' : x ≠ [] := fun h => hx (by rw [h]; rfl)
    rw [if_neg hx]
    obtain ⟨h1, h2, h3, h4⟩ := seqGo3_roundtrip lim req l0 n P hreq0 hl0 ls 0 true dt x 0xFF m x.length hlaw
      (by omega) (fun k _ hk => flagSet_ff k hk) hb (Nat.le_refl _) hlim
    refine ⟨fun hm hn hP => ?_, h2, h3, h4⟩
    have h1 := h1 hm hn hP
    unfold seqInverse
    have hne : ¬ (seqFwdGo2 req l0 (ltrs ls) 0 true dt x 0xFF).1.length = 0 := by
      intro h; exact h4 hx' (List.eq_nil_of_length_eq_zero h)
    rw [if_neg hne]
    by_cases hff : (seqFwdGo2 req l0 (ltrs ls) 0 true dt x 0xFF).2 = 0xFF
    · rw [if_pos hff]
      rw [hff, seqInvGo_all_skipped _ 0 0xFF _
        (by rw [stagesOf_length]; simp only [trsOf, ltrs, List.length_map]; omega) flagSet_ff] at h1
      exact h1
    · rw [if_neg hff]; exact h1

end Kanzi.BlockGen3
