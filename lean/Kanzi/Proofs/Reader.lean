import Kanzi.Model.Reader
import Kanzi.Spec.Stream
namespace Kanzi.Reader
open Kanzi.Spec

theorem reader_refines_spec (c : Cfg) (hB : 0 < c.B) (hJ : 0 < c.J) (blocks : List (List Nat))
    (hv : validBlocks c.B blocks) (sizes : List Nat) :
    let expected := (selectRange c.from_ c.to_ blocks).flatten
    ∀ k, (hk : k < sizes.length) →
      let pos := (sizes.take k).sum
      let n := sizes[k]
      ((readSeq c (init (validFrames blocks)) sizes).2)[k]? =
        some (if n = 0 then ReadRes.data [] none
              else if pos ≥ expected.length then ReadRes.eof
              else ReadRes.data (specRead expected pos n) none) := by sorry

theorem decoded_in_range (c : Cfg) (hB : 0 < c.B) (hJ : 0 < c.J) (frames : List Frame) (sizes : List Nat) :
    ∀ id ∈ (readSeq c (init frames) sizes).1.decodedIds, inRange c id = true := by sorry

theorem nothing_after_error (c : Cfg) (hB : 0 < c.B) (hJ : 0 < c.J) (s : St) (n : Nat)
    (h : (read c s n).2.isErr = true) (hcl : s.closed = false) (sizes : List Nat) :
    ∀ r ∈ (readSeq c (read c s n).1 sizes).2, r.bytes = [] := by sorry

theorem no_eof_without_marker (c : Cfg) (hB : 0 < c.B) (hJ : 0 < c.J) (frames : List Frame)
    (hno : Frame.endMarker ∉ frames) (sizes : List Nat) :
    ∀ k : Nat, ((readSeq c (init frames) sizes).2)[k]? = some ReadRes.eof →
      ∃ j : Nat, j < k ∧ (((readSeq c (init frames) sizes).2)[j]?.map ReadRes.isErr) = some true := by sorry

theorem error_position (c : Cfg) (hB : 0 < c.B) (hJ : 0 < c.J) (blocks : List (List Nat))
    (hv : ∀ b ∈ blocks, b.length = c.B) (bad : Frame) (hbad : bad = .badCrit ∨ bad = .badPost)
    (hin : inRange c (blocks.length + 1) = true)
    (rest : List Frame) (sizes : List Nat) :
    let outs := (readSeq c (init (blocks.map Frame.block ++ bad :: rest)) sizes).2
    (outs.map ReadRes.bytes).flatten <+: (selectRange c.from_ c.to_ blocks).flatten ∧
    ReadRes.stale ∉ outs := by sorry

theorem closed_absorbing (c : Cfg) (s : St) (n : Nat) :
    close (close s) = close s ∧ read c (close s) n = (close s, ReadRes.data [] (some Err.closed)) := by sorry

end Kanzi.Reader
