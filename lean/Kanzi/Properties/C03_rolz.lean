/-
C03 (the decoder is total) for the INVERSE side of v2/transform/ROLZCodec.go on ARBITRARY (forged) input:
`ROLZCodec.Inverse` (dispatch and size checks), `rolzCodec2.Inverse` (ROLZX: binary range decoder `rolzDecoder`
with its own predictor, per-chunk loop) and `rolzCodec1.Inverse` (ROLZ: four ANS coded sub-streams per chunk).
Property theorems only; proofs in `Kanzi/Proofs/RolzxDecTotal.lean` and `Kanzi/Proofs/Rolz1DecTotal.lean`.

The models are those of slice `rolz` (`rolzxInverse` of `Kanzi/Model/ROLZX.lean`, `rolzInverse` of
`Kanzi/Model/ROLZ1.lean`: every read of `src`, of the chunk, of the side buffers and of the tables, and every
store, carries the bounds check of the Go code; `.fault k` = run-time panic of class `k`, or `"fuel"` = a loop of
the model ran out of fuel, i.e. the Go loop would not have ended within the bound the model gives it) plus
`Kanzi/Model/RolzDec.lean` (what one call allocates / what the codec object keeps).  They are tied to /repo by
the `rolzdec` stream: the real `Inverse` of both variants on forged inputs (mutated sizes / flags / sub-stream
lengths, truncations, garbage, destinations too small / exact / larger, two calls on one object) must end
exactly as the model says (same bytes, same error class, panic or not, same `len(matches)`, `len(counters)`),
with an allocation oracle on `runtime.MemStats`.

Parameters: `cs` = `_ROLZ_CHUNK_SIZE` (Go: 2^24; the theorems need `0 < cs` only), `lpc` / `lpc0` = the
`logPosChecks` the codec OBJECT was built with (5 for ROLZX; 4 for ROLZ by name, 2..8 through `NewROLZCodec`),
`bsv` = ctx entry `bsVersion`, `src` = the input (any list of numbers), `dst0` = the destination before the call.

In the real code every decoding task runs under a deferred `recover`: a panic on a forged block is an
observation (block error).  A violation of C03 would be an unbounded loop or an allocation unrelated to the
declared sizes; neither exists here (`C03_rolzx_terminates`, `C03_rolz_terminates_partial`, `C03_rolz*_alloc*`).
-/
import Kanzi.Model.RolzDec
import Kanzi.Proofs.RolzxDecTotal
import Kanzi.Proofs.Rolz1DecTotal
import Kanzi.Proofs.RolzxRound
import Kanzi.Proofs.Rolz1Block
import Kanzi.Properties.C03_ans

namespace Kanzi.C03
open Kanzi.ROLZ

/-! ## ROLZX (`rolzCodec2`) -/

/-- **C03_rolzx_terminates.**  For EVERY input `src`, destination, `logPosChecks`, bitstream version and chunk
size `cs > 0`, `ROLZCodec.Inverse` with a `rolzCodec2` delegate ends: no loop of the model exhausts its fuel.
  * chunk loop `for startChunk < chunksEnd`: fuel `dstEnd / min(len(dst), cs) + 2`; every chunk but the last
    advances `startChunk` by `sizeChunk = min(len(dst), cs) > 0` (`len(dst) = 0` is answered by the wrapper);
  * main loop of a chunk `for dstIdx < sizeChunk`: fuel `sizeChunk + 1`; every iteration advances `dstIdx` by 1
    (literal) or by `matchLen + minMatch ≥ 3` (match), whatever the decoder returns;
  * first / last literals: 8 (2) and 4 iterations; `decode9Bits` / `decodeBits(logPosChecks)`: 9 / `logPosChecks`
    calls of `decodeBit`, whose refill loop `for (low ^ high) >> 24 == 0` runs AT MOST ONCE per bit (after one
    pass the low 32 bits of `low` are 0 and those of `high` are 1; the model has it as an `if`, and the stream
    checks the outputs bit-exactly); `emitCopy`: `matchLen + minMatch ≤ 262` byte copies.
So the time is `O(len(dst) · (9 + logPosChecks))` plus `O(2^(16+logPosChecks))` per chunk for `clear(matches)` and
`2^17 + 2^(8+logPosChecks)` for `reset()`, independent of the contents of `src`. -/
theorem C03_rolzx_terminates {cs lpc bsv : Nat} {src : List Nat} {dst0 : Array Nat} (hcs : 0 < cs) :
    rolzxInverse cs lpc bsv src dst0 ≠ .fault "fuel" := by
  intro h
  exact absurd (rolzxInverse_fault hcs h) (by decide)

/-- **C03_rolzx_refill_once.**  The refill loop of `decodeBit` (and of `encodeBit`), `for (low ^ high) >> 24 == 0
{ low = (low << 32) & MASK_0_56; high = ((high << 32) | MASK_0_32) & MASK_0_56; ...; idx += 4 }`, is modelled as an
`if` (`Dec.decodeBit`).  This is why: for ANY register values, after one pass bit 24 of `low` is 0 and bit 24 of
`high` is 1, so the loop condition is false: the loop body runs at most once per decoded bit, at most 4 bytes of
`src` are consumed per bit. -/
theorem C03_rolzx_refill_once (low high : Nat) :
    ((((low <<< 32) % 2 ^ 64) % 2 ^ 56) ^^^ ((((high <<< 32) % 2 ^ 64) ||| MASK_0_32) % 2 ^ 56)) >>> 24 ≠ 0 :=
  refill_once low high

/-- **C03_rolzx_fault_classes.**  The run-time faults reachable on forged input are index errors of exactly three
classes: `"src-index"` (`newRolzDecoder` reads 8 bytes after the header without a test), `"src-slice"` (the
32-bit refill of `decodeBit` reads `buf[idx:idx+4]` past the end of `src`), `"dst-index"` (a store, a key read
or an overlapping `emitCopy` leaves the chunk / `dst`).  Nothing else: no fault in the tables (`matches`,
`counters`, probabilities: indexes in range by construction). -/
theorem C03_rolzx_fault_classes {cs lpc bsv : Nat} {src : List Nat} {dst0 : Array Nat} (hcs : 0 < cs) {k : String}
    (h : rolzxInverse cs lpc bsv src dst0 = .fault k) : k = "src-index" ∨ k = "src-slice" ∨ k = "dst-index" := by
  have := rolzxInverse_fault hcs h
  simpa [XFaults, IFaults] using this

/-- **C03_rolzx_short_input.**  The EXACT condition of the first class: the call passes the wrapper's tests
(`len(src) ≥ 5`, `len(dst) > 0`, `len(src) ≤ 2^30`) and the size test (`0 < dstEnd ≤ len(dst)`, `rolzxReaches`), and
fewer than 8 bytes follow the header (`len(src) < 13`; `< 12` for `bsVersion < 3`).  The wrapper's "input array
too small" test accepts 5 bytes, the range decoder needs 13: inputs of 5..12 bytes with a plausible size field
panic instead of returning an error. -/
theorem C03_rolzx_short_input {cs lpc bsv : Nat} {src : List Nat} {dst0 : Array Nat} (hcs : 0 < cs) :
    rolzxInverse cs lpc bsv src dst0 = .fault "src-index" ↔
      (rolzxReaches src.length dst0.size (beN src.toArray 0 4) = true ∧ src.length < (if bsv ≥ 3 then 5 else 4) + 8) :=
  rolzxInverse_srcindex hcs

/-- a 12-byte input announcing 40 bytes: panic (index out of range) in `newRolzDecoder` -/
example : rolzxInverse CHUNK_SIZE 5 6 [0, 0, 0, 40, 0, 1, 2, 3, 4, 5, 6, 7] (Array.replicate 40 0xAA) = .fault "src-index" :=
  (C03_rolzx_short_input (by decide)).2 (by decide)

/-- the same 12 bytes for bitstream version 2 (header of 4 bytes): the decoder is created, no "src-index" -/
example : rolzxInverse CHUNK_SIZE 5 2 [0, 0, 0, 40, 0, 1, 2, 3, 4, 5, 6, 7] (Array.replicate 40 0xAA) ≠ .fault "src-index" :=
  fun h => absurd ((C03_rolzx_short_input (by decide)).1 h).2 (by decide)

/-- the second class at the level of one bit: an empty interval forces a refill, nothing is left in `src` -/
example : (Dec.decodeBit #[1, 2, 3] ⟨0, 0, 0, 0⟩ 32768).faultIs "src-slice" = true := by decide

/-- the third class at the level of `emitCopy`: an overlapping match of 5 bytes at position 2 of a 3-byte chunk -/
example : emitCopy #[1, 2, 3] 3 2 1 5 = .fault "dst-index" := by decide

/-- a non-overlapping match that does not fit is silently SHORTENED by `copy` (no fault); the returned position
lies beyond the chunk, the main loop ends, and the final tests reject the block -/
example : emitCopy #[1, 2, 3, 4] 4 3 0 2 = .ok (#[1, 2, 3, 1], 5) := by decide

/-- **C03_rolzx_alloc_bound.**  What one call of `rolzCodec2.Inverse` allocates does not depend on the contents
of `src` at all: the two probability tables of `newRolzDecoder` (`256 << logPosChecks` and `256 << 9` ints), or
nothing (early error / panic).  `matches` and `counters` are made by the constructor.  No size is read from
the stream. -/
theorem C03_rolzx_alloc_bound (lpc bsv srcLen dstLen hdr : Nat) :
    ∀ x ∈ rolzxAllocs lpc bsv srcLen dstLen hdr, x = 256 <<< lpc ∨ x = 256 <<< 9 :=
  rolzxAllocs_bound lpc bsv srcLen dstLen hdr

/-- **C03_rolzx_output_bound.**  On success the destination keeps its length (all stores are in-place, bounds
checked), and for bitstream version 4 or later the reported number of bytes written is at most `len(dst)`. -/
theorem C03_rolzx_output_bound {cs lpc bsv : Nat} {src : List Nat} {dst0 : Array Nat} {w : Nat} {dst : Array Nat}
    (h : rolzxInverse cs lpc bsv src dst0 = .ok (w, dst)) : dst.size = dst0.size ∧ (4 ≤ bsv → w ≤ dst0.size) :=
  rolzxInverse_ok h

/-- **C03_rolzx_agree.**  On the output of the encoder the total decoder is the decoder of C13: it returns the
block (so none of the faults / errors above). -/
theorem C03_rolzx_agree {cs lpc : Nat} {hasCtx : Bool} {dt : Nat} {src t : List Nat} {dstLen : Nat} (bsv : Nat)
    (dst0 : Array Nat) (hcs : 0 < cs ∧ cs ≤ 2 ^ 24) (hb : ∀ x ∈ src, x < 256) (hbsv : 4 ≤ bsv)
    (hdst : maxEncodedLen2 src.length ≤ dstLen) (hd : src.length ≤ dst0.size)
    (h : rolzxForward cs lpc hasCtx dt src dstLen = .ok t) :
    ∃ dst, rolzxInverse cs lpc bsv t dst0 = .ok (src.length, dst) ∧ dst.size = dst0.size ∧
      ∀ k, k < src.length → dst.getD k 0 = src.getD k 0 :=
  rolzx_roundtrip bsv dst0 hcs hb hbsv hdst hd h

/-! ## ROLZ (`rolzCodec1`) -/

/-- **C03_rolz_terminates_partial.**  For EVERY input, destination, `logPosChecks` of the object, ctx and chunk
size `cs > 0`, the loops of `rolzCodec1.Inverse` itself end (no fuel exhausted):
  * chunk loop `for startChunk < dstEnd`: fuel `dstEnd / min(len(dst), cs) + 2`, as for ROLZX;
  * main loop of a chunk: fuel `sizeChunk + 1`; an iteration either `break`s, fails, or advances `dstIdx` by
    `litLen + matchLen + minMatch ≥ 3`;
  * the registration loop of a literal run `for n := 0; n < litLen; n++ { ...; n += srcInc >> 6; srcInc++ }`: fuel
    `litLen + 1`; `copy`, `emitCopy`: structural.
PARTIAL: the four `ANSRangeDecoder.Read` calls per chunk are the Option-valued ANS models of slice `rolz`
(`ans0DecodeB`, `ansLitDecode`), whose own chunk loops return normally when out of fuel; that `Read` ends on
every input, and what it allocates, is `C03_ans_terminates` / `C03_ans_alloc_bound` (model `Kanzi/Model/AnsDec.lean`,
stream `ansdec`) — the two ANS models are not linked by a theorem here.  `Read` is called with blocks of at most
`len(litBuf) ≤ len(dst)` bytes (`C03_rolz_forged_length`). -/
theorem C03_rolz_terminates_partial {cs lpc0 : Nat} {hasBsv : Bool} {bsv : Nat} {src : List Nat} {dst0 : Array Nat}
    (hcs : 0 < cs) : rolzInverse cs lpc0 hasBsv bsv src dst0 ≠ .fault "fuel" := by
  intro h
  exact absurd (rolzInverse_fault hcs h) (by decide)

/-- **C03_rolz_fault_classes.**  The run-time faults of `rolzCodec1.Inverse` on forged input are index errors of
nine classes: reads of the token / length / literal / match-index side buffers past their end (`"tk-index"`,
`"len-slice"`, `"lit-slice"`, `"mix-index"`, `"first-index"`: the stream announced fewer entries than its tokens
consume — only the four lengths are validated, not their consistency with the tokens), key reads before the
chunk start (`"dst-slice"`), `matches` indexed beyond its length (`"matches-index"`, `"matches-slice"`: the flags
byte announces a `logPosChecks` above the one the object was built with — the table is sized from the OBJECT's
value before the flags are read, `len(this.matches) < int(this.logPosChecks)`), overlapping `emitCopy` past the
chunk (`"dst-index"`). -/
theorem C03_rolz_fault_classes {cs lpc0 : Nat} {hasBsv : Bool} {bsv : Nat} {src : List Nat} {dst0 : Array Nat}
    (hcs : 0 < cs) {k : String} (h : rolzInverse cs lpc0 hasBsv bsv src dst0 = .fault k) : k ∈ R1Faults :=
  rolzInverse_fault hcs h

/-- **C03_rolz_forged_length.**  The four 32-bit sub-stream lengths of a chunk header (literals, tokens, match
lengths, match indexes) come from the forged input; each is compared with the length of the buffer made for it
(`min(len(dst), cs)`, `/4`, `/5`, `/4`) BEFORE any entropy decoder is created: a forged length beyond its buffer
(`len(src)+1`, `2^31-1`, `2^32-1`, ...) is rejected with an error, nothing is allocated from it.  (`int(ReadBits(32))`
is never negative on a 64-bit `int`.)  Stated for the first chunk of a call that passes the header tests. -/
theorem C03_rolz_forged_length {cs lpc0 : Nat} {hasBsv : Bool} {bsv : Nat} {src : List Nat} {dst0 : Array Nat}
    (hreach : rolz1Reaches src.length dst0.size (beN src.toArray 0 4) = true)
    (hlpc : 2 ≤ src.toArray.getD 4 0 >>> 4 ∧ src.toArray.getD 4 0 >>> 4 ≤ 8)
    {a b c d : Nat} {r0 : Kanzi.Bits.Bits}
    (hh : readHdr (Kanzi.Bits.ofBytes (src.toArray.extract 5 src.toArray.size).toList) = some ((a, b, c, d), r0))
    (hbig : a > min dst0.size cs ∨ b > min dst0.size cs / 4 ∨ c > min dst0.size cs / 5 ∨ d > min dst0.size cs / 4) :
    rolzInverse cs lpc0 hasBsv bsv src dst0 = .err "length" :=
  rolzInverse_length hreach hlpc hh hbig

/-- **C03_rolz_alloc_bound.**  The buffers made by one call of `rolzCodec1.Inverse` (`rolz1Allocs`: `litBuf`,
`mLenBuf`, `mIdxBuf`, `tkBuf`, and `matches` on the first call of an object) are each at most `len(dst)` bytes or
the constant `65536 << logPosChecks` of the object; together at most `2·len(dst) + (65536 << logPosChecks)` elements,
on every path (they are made before the flags byte is validated).  None depends on the contents of `src`. -/
theorem C03_rolz_alloc_bound (cs lpc0 srcLen dstLen hdr mLen : Nat) :
    (∀ x ∈ rolz1Allocs cs lpc0 srcLen dstLen hdr mLen, x ≤ dstLen ∨ x = HASH_SIZE * 2 ^ lpc0) ∧
    (rolz1Allocs cs lpc0 srcLen dstLen hdr mLen).sum ≤ 2 * dstLen + HASH_SIZE * 2 ^ lpc0 :=
  rolz1Allocs_bound cs lpc0 srcLen dstLen hdr mLen

/-- **C03_rolz_ans_alloc.**  The entropy decoders of a chunk: `rolzCodec1.Inverse` calls `ANSRangeDecoder.Read` four
times per chunk (`litDec` once, `mDec` three times on one object) with blocks `litBuf[0:litLen]`, `tkBuf[0:tkLen]`, ...
whose lengths were checked against the buffers (`C03_rolz_forged_length`), so `count ≤ len(dst)`.  By
`C03_ans_alloc_bound` (model `Kanzi.AnsDec.read` of the same Go function) such a `Read`, whatever the input bits
and however it ends, leaves `len(this.buffer) ≤ max(before, 2·len(dst), 256)` and `len(this.f2s) ≤ max(before,
dim·32768)`: the allocation of a whole call is `O(len(dst))` plus constants of the object, never a function of a
value read from the stream. -/
theorem C03_rolz_ans_alloc (p : Kanzi.AnsDec.Params) (hv : p.bsVersion ≠ 1) (hcs : 0 < p.chunkSize) (s : Kanzi.AnsDec.St)
    (bs : Kanzi.Bits.Bits) (count dstLen : Nat) (hc : count ≤ dstLen) (hinv : Kanzi.AnsDec.Inv p.order s.syms s.f2s) :
    (Kanzi.AnsDec.read p s bs count).f2sSz ≤ max s.f2s.size (Kanzi.AnsDec.dimOf p.order * 2 ^ 15) ∧
    (Kanzi.AnsDec.read p s bs count).bufSz ≤ max s.buf.size (max (2 * dstLen) 256) := by
  have h := C03_ans_alloc_bound p hv hcs s bs count hinv
  refine ⟨h.1, Nat.le_trans h.2 ?_⟩
  omega

/-- **C03_rolz_output_bound.**  On success the destination keeps its length (every store of literals, matches and
last literals is in-place and bounds checked) and the reported number of bytes written is at most `len(dst)`. -/
theorem C03_rolz_output_bound {cs lpc0 : Nat} {hasBsv : Bool} {bsv : Nat} {src : List Nat} {dst0 : Array Nat} {w : Nat}
    {dst : Array Nat} (h : rolzInverse cs lpc0 hasBsv bsv src dst0 = .ok (w, dst)) :
    dst.size = dst0.size ∧ w ≤ dst0.size :=
  rolzInverse_ok h

/-- **C03_rolz_agree.**  On the output of the encoder (codec objects built with the same `logPosChecks`) the
total decoder returns the block: none of the faults / errors above. -/
theorem C03_rolz_agree {cs lpc : Nat} {hasCtx : Bool} {dt : Nat} {src t : List Nat} {dstLen : Nat} (hasBsv : Bool)
    (bsv : Nat) (dst0 : Array Nat) (hcs : 64 ≤ cs ∧ cs ≤ 2 ^ 24) (hlpc : 2 ≤ lpc ∧ lpc ≤ 8) (hb : ∀ x ∈ src, x < 256)
    (hbsv : hasBsv = true → 4 ≤ bsv) (hdst : maxEncodedLen1 src.length ≤ dstLen) (hd : src.length ≤ dst0.size)
    (h : rolzForward cs lpc hasCtx dt src dstLen = .ok t) :
    ∃ dst, rolzInverse cs lpc hasBsv bsv t dst0 = .ok (src.length, dst) ∧ dst.size = dst0.size ∧
      ∀ k, k < src.length → dst.getD k 0 = src.getD k 0 :=
  rolz_roundtrip hasBsv bsv dst0 hcs hlpc hb hbsv hdst hd h

/-- the table fault at the level of the registration loop: `logPosChecks = 8` from the flags, a table of (at most)
`65536 << 4` entries (object built by name), key `0x1000`: index `0x1000 * 256 + c` is out of range -/
example (mts cn : Array Nat) (h : mts.size ≤ 65536 * 16) :
    regRun 3 2 8 0 4 2 1 2 0 0 ⟨⟨mts, cn⟩, #[0, 16, 0, 0]⟩ = .fault "matches-index" := by
  have hk : getKey 3 2 #[0, 16, 0, 0] 0 4 (2 + 0) = some 4096 := by decide
  rw [regRun, if_pos (by decide)]
  simp only [hk]
  rw [if_neg (by omega)]

set_option maxRecDepth 20000 in
/-- the hypotheses of `C03_rolz_forged_length` are satisfiable: a literal length of `2^32 - 1` -/
example : rolzInverse CHUNK_SIZE 4 false 6
    ([0, 0, 0, 44, 0x40, 255, 255, 255, 255, 0, 0, 0, 0, 0, 0, 0, 0, 0, 0, 0, 0, 1, 2, 3, 4]) (Array.replicate 40 0xAA) =
      .err "length" :=
  C03_rolz_forged_length (a := 4294967295) (b := 0) (c := 0) (d := 0) (r0 := Kanzi.Bits.ofBytes [1, 2, 3, 4])
    (by decide) (by decide) (by decide) (by decide)

end Kanzi.C03
