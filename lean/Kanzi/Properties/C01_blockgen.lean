/-
C01 for the GENERIC block codec: H_codec ("the decoding task run on what the encoding task wrote
returns the block, consuming exactly the frame") reduced to per-component laws, proved outright for
every chain of 1..8 transforms over NONE / ZRLT / MTFT / RANK with entropy NONE and with entropy ANS0,
and carried down to the byte image of a whole stream.
Property theorems only; proofs in `Kanzi/Proofs/BlockGen.lean` (decode ∘ encode), `BlockGenInst.lean`
(instances), `BlockGenNone.lean` (NONE / NONE = `Kanzi/Model/Block.lean`), `BlockGenStream.lean` (image).

Model: `Kanzi/Model/BlockGen.lean` — `encodeTaskGen` mirrors `encodingTask.encode` from "Compute block
checksum" to `obs.Close()`, `decodeTaskGen` mirrors `decodingTask.decode` from "Create a bitstream local
to the task" to the checksum comparison, for a configuration `Cfg` = (checksum width, transform sequence
as a list of `Tr`, entropy codec `Ent`, option skipBlocks); `streamImageGen` / `parseImageGen` are the
byte image of a stream and its reader.  Tied to /repo by the `imagegen` correspondence stream: the bytes
produced by the REAL Writer are `streamImageGen` byte for byte (chains of 1..8 names over
NONE/ZRLT/MTFT/RANK, entropy NONE/ANS0, checksum 0/32/64, skipBlocks on/off), and what the REAL Reader
returns on intact and damaged streams is `parseImageGen`.

Conventions: a block is a `List Nat` of byte values; `B` is the block size of the stream (the
constructors enforce 1024 ≤ B ≤ 2^30; only the upper bound is used); `IsBlock N x` = byte values, at
most `N` bytes.
-/
import Kanzi.Model.BlockGen
import Kanzi.Model.Names
import Kanzi.Proofs.BlockGen
import Kanzi.Proofs.BlockGenInst
import Kanzi.Proofs.BlockGenNone
import Kanzi.Proofs.BlockGenStream
import Kanzi.Proofs.BlockGenAns0Size
import Kanzi.Properties.C01_none
import Kanzi.Properties.C12_ans0
import Kanzi.Properties.C13_small

namespace Kanzi.C01gen
open Kanzi.Bits Kanzi.Block Kanzi.BlockGen Kanzi.TrSmall Kanzi.Header

/-! ## 1. H_codec reduced to the laws of the components -/

/-- **C01_block_roundtrip.**  `c` = any configuration (any checksum width, skipBlocks on or off), `D` =
a class of blocks, `b ∈ D` a block of 1..B bytes, B ≤ 2^30.  Hypotheses, all about the components:
  * `SeqLaw D c.trs |b| (taskBlockLength B)`: at most 8 transforms, and each of them, called with a
    forward destination of at least `MaxEncodedLen` of the sequence and an inverse destination of at
    least the task block length (what the two Go sequences allocate), satisfies the stage law of
    `C13_sequence` on `D` (`Stage.GoodOn D`: forward ok t ⇒ t ∈ D, t ≠ [] for a non-empty input, inverse t
    = ok input; a stage may decline);
  * `EntLaw D c.ent`: the exact-consumption law `dec |x| (enc x ++ rest) = (x, rest)` on `D`;
  * every block of `D` is at most `maxTransformLength B` bytes long (the bound the decoder puts on the
    pre-transform length: "Invalid compressed block size").
Then the encoding task succeeds and the decoding task returns exactly the block, with `decoded = |b|` —
through the copy-block branch (≤ 15 bytes, or skipBlocks decided: NONE/NONE forced), every pattern of
declined stages incl. all declined, both layouts of the skip flags (nibble of the mode byte for ≤ 4
transforms, extra byte for 5..8), the 1/2/3/4-byte length field, the checksum field and its comparison. -/
theorem C01_block_roundtrip (c : Cfg) (B : Nat) (D : List Nat → Prop) (b : List Nat)
    (hseq : SeqLaw D c.trs b.length (taskBlockLength B)) (hent : EntLaw D c.ent)
    (hfits : ∀ x, D x → x.length ≤ maxTransformLength B) (hD : D b)
    (hbytes : ∀ x ∈ b, x < 256) (h0 : 0 < b.length) (hB : b.length ≤ B) (hmax : B ≤ 2 ^ 30) :
    ∃ p, encodeTaskGen c b = .ok p ∧ decodeTaskGen c B p = ⟨b.length, .ok b⟩ :=
  block_roundtrip c B D b hseq hent hfits hD hbytes h0 hB hmax

/-- the two laws, spelled out (definitions unfolded) -/
theorem C01_laws_spelled_out (D : List Nat → Prop) (trs : List Tr) (ent : Ent) (len dmin : Nat) :
    (SeqLaw D trs len dmin ↔
      (trs.length ≤ 8 ∧ ∀ t ∈ trs, ∀ req n, seqMaxLen trs len ≤ req → dmin ≤ n →
        ∀ x y, D x → t.fwd x req = .ok y → D y ∧ (x ≠ [] → y ≠ []) ∧ t.inv y n = .ok x)) ∧
    (EntLaw D ent ↔
      ∀ x, D x → ∃ e, ent.enc x = some e ∧ ∀ rest : Bits, ent.dec x.length (e ++ rest) = some (x, rest)) :=
  ⟨Iff.rfl, Iff.rfl⟩

/-- the encoder never takes its two error exits before the entropy coder on blocks a stream can hold:
`Log2NoCheck(0)` needs a post-transform length that is a multiple of 2^32, and the test "Invalid block
data length" (`dataSize > 4`) is dead code (`Log2NoCheck(uint32(x)) ≤ 31`).  (`fallback`: the block handed
to the entropy coder after the bound of fix F43 on the post-transform length.) -/
theorem C01_encode_errors (copy : Bool) (trs : List Tr) (ent : Ent) (ckw sum : Nat) (lim : Option Nat)
    (b : List Nat)
    (h : (fallback lim (seqMaxLen trs b.length) b (seqForward (fwdStages trs b.length) b)).1.length < 2 ^ 32) :
    encodeWith copy trs ent ckw sum lim b ≠ .error .panic ∧
      encodeWith copy trs ent ckw sum lim b ≠ .error .length := by
  cases he : ent.enc (fallback lim (seqMaxLen trs b.length) b (seqForward (fwdStages trs b.length) b)).1 with
  | none =>
    unfold encodeWith encodeOf
    simp only [dataSizeGen_eq _ h]
    have h4 := dataSizeOf_le _ h
    rw [if_neg (by omega), if_neg (by omega), he]
    exact ⟨by simp, by simp⟩
  | some e =>
    rw [encodeWith_eq copy trs ent ckw sum lim b e h he]
    exact ⟨by simp, by simp⟩

/-- fix F43 (/repo dfafae0): when `MaxEncodedLen` of the sequence exceeds `maxLength` (the decoder's bound
`maxTransformLength` for the block size stored in the ctx, 2^30 without it) and the transformed block is
longer than `maxLength`, the block is handed to the entropy coder untransformed with every stage flagged as
skipped; otherwise the output of the sequence is used as it is -/
theorem C01_fallback_spelled_out (lim : Option Nat) (req : Nat) (b : List Nat) (f : List Nat × Nat) :
    fallback lim req b f =
      (if req > maxLengthOf lim ∧ f.1.length > maxLengthOf lim then (b, 0xFF) else f) ∧
    (∀ B, maxLengthOf (some B) = maxTransformLength B) ∧ maxLengthOf none = 2 ^ 30 :=
  ⟨rfl, fun _ => rfl, rfl⟩

/-! ## 2. instances with no remaining hypothesis -/

/-- **C01_codec_small_none.**  Every chain of 1 to 8 transforms (0 is covered too) drawn from
NullTransform (NONE), ZRLT, SBRT in any mode (MTFT = mode 1, RANK = mode 2; repeats allowed), entropy
NONE, every checksum width, skipBlocks on or off, every block size B ≤ 2^30 and every block of 1..B
bytes, whatever `ctx["blockSize"]` holds (`bs`: the bound of fix F43 never applies to these transforms, and
would be harmless): decode (encode b) = b with `decoded = |b|`. -/
theorem C01_codec_small_none (ck : Nat) (trs : List Tr) (sb : Bool) (bs : Option Nat) (B : Nat) (b : List Nat)
    (hn : trs.length ≤ 8) (hs : ∀ t ∈ trs, IsSmallTr t)
    (hbytes : ∀ x ∈ b, x < 256) (h0 : 0 < b.length) (hB : b.length ≤ B) (hmax : B ≤ 2 ^ 30) :
    ∃ p, encodeTaskGen ⟨ck, trs, noneEnt, sb, bs⟩ b = .ok p ∧
      decodeTaskGen ⟨ck, trs, noneEnt, sb, bs⟩ B p = ⟨b.length, .ok b⟩ :=
  small_roundtrip ⟨ck, trs, noneEnt, sb, bs⟩ B b hn hs (entLaw_none _) hbytes h0 hB hmax

/-- **C01_codec_small_ans0.**  The same chains with the order-0 ANS codec as the factory builds it
(`C12_ans0_block` with chunks of 16384 bytes and log range 12). -/
theorem C01_codec_small_ans0 (ck : Nat) (trs : List Tr) (sb : Bool) (bs : Option Nat) (B : Nat) (b : List Nat)
    (hn : trs.length ≤ 8) (hs : ∀ t ∈ trs, IsSmallTr t)
    (hbytes : ∀ x ∈ b, x < 256) (h0 : 0 < b.length) (hB : b.length ≤ B) (hmax : B ≤ 2 ^ 30) :
    ∃ p, encodeTaskGen ⟨ck, trs, ans0Ent, sb, bs⟩ b = .ok p ∧
      decodeTaskGen ⟨ck, trs, ans0Ent, sb, bs⟩ B p = ⟨b.length, .ok b⟩ :=
  small_roundtrip ⟨ck, trs, ans0Ent, sb, bs⟩ B b hn hs (entLaw_ans0 _) hbytes h0 hB hmax

/-- the stage hypothesis of the instances, spelled out; and the names of the transform factory:
NONE = 0, ZRLT = 6, MTFT = 7 (SBRT mode 1), RANK = 8 (SBRT mode 2) -/
theorem C01_small_transforms :
    (∀ t, IsSmallTr t ↔ (t = nullTr ∨ t = zrltTr ∨ ∃ mode, t = sbrtTr mode)) ∧
    tokenTr 0 = some nullTr ∧ tokenTr 6 = some zrltTr ∧ tokenTr 7 = some (sbrtTr 1) ∧
    tokenTr 8 = some (sbrtTr 2) :=
  ⟨fun _ => Iff.rfl, rfl, rfl, rfl, rfl⟩

/-- C01_codec_of_header: whatever a header of the modelled codecs announces (`cfgOfHeader h = some c`:
every slot of the transform word is NONE / ZRLT / MTFT / RANK, entropy NONE or ANS0), the configuration the
Reader derives from it decodes what a Writer with the same parameters (skipBlocks on or off) encoded. -/
theorem C01_codec_of_header (h : Header) (sb : Bool) (c : Cfg) (hc : cfgOfHeader h false = some c)
    (b : List Nat) (hbytes : ∀ x ∈ b, x < 256) (h0 : 0 < b.length) (hB : b.length ≤ h.blockSize)
    (hmax : h.blockSize ≤ 2 ^ 30) :
    ∃ p, encodeTaskGen { c with skipBlocks := sb } b = .ok p ∧
      decodeTaskGen c h.blockSize p = ⟨b.length, .ok b⟩ := by
  obtain ⟨_, _, hn, hs, he⟩ := cfgOfHeader_spec h false c hc
  have hent : EntLaw (IsBlock b.length) c.ent := by
    rcases he with ⟨_, he⟩ | ⟨_, he⟩ <;> rw [he]
    · exact entLaw_none _
    · exact entLaw_ans0 _
  exact small_roundtrip { c with skipBlocks := sb } h.blockSize b hn hs hent hbytes h0 hB hmax

/-- the abstraction of destination sizes is harmless for the modelled transforms: into any destination
of at least `MaxEncodedLen` bytes `Forward` returns the same result -/
theorem C01_small_dst_independent (t : Tr) (h : IsSmallTr t) (b : List Nat) (req req' : Nat)
    (h1 : t.maxLen b.length ≤ req) (h2 : t.maxLen b.length ≤ req') : t.fwd b req = t.fwd b req' :=
  small_fwd_dst_indep t h b req req' h1 h2

/-! ## 3. NONE / NONE: the generic model is the model of `Kanzi/Model/Block.lean` -/

/-- the generic encoder with the NONE sequence and the NONE entropy codec writes `encodeNone` -/
theorem C01_gen_none_encode (ck : Nat) (data : List Nat) (h0 : 0 < data.length) (h30 : data.length ≤ 2 ^ 30) :
    encodeTaskGen (noneCfg ck) data = .ok (encodeNone ck data) :=
  encodeTaskGen_none ck data h0 h30

/-- the generic decoder with the NONE sequence and the NONE entropy codec is `decodeTask`, on EVERY
payload (well formed or not; error classes: entropy / inverse failures are `eos` = ERR_PROCESS_BLOCK) -/
theorem C01_gen_none_decode (ck B : Nat) (p : Bits) :
    (decodeTaskGen (noneCfg ck) B p).toBlock = decodeTask ck B p :=
  decodeTaskGen_none ck B p

/-- and the generic stream image of a NONE / NONE stream is `streamImage` (so `C01_none_end_to_end` and
the `image` correspondence stream are statements about the generic model too) -/
theorem C01_gen_none_image (h : Header) (ck : Nat) (blocks : List (List Nat))
    (hv : ∀ b ∈ blocks, 0 < b.length ∧ b.length ≤ 2 ^ 30) :
    streamImageGen h (noneCfg ck) blocks = .ok (streamImage h ck blocks) :=
  streamImageGen_none h ck blocks hv

/-! ## 4. the byte image of a whole stream -/

/-- **C01_stream_image_gen** (generic).  `ce` = configuration of the Writer's tasks, `cd` = the one the
Reader derives from the header.  If for every block the encoding task succeeds, the decoding task
returns the block, and the payload fits a frame (`FrameFit`: non empty, below 2^34 bits and below the
reader's `maxFrameLength` bound), then the image exists and reading it back — header, frames with the
`maxFrameLength` bound, decoding tasks, result loop — yields the header, exactly the blocks, and stops
at the end marker. -/
theorem C01_stream_image_gen (h : Header) (wf : WF h) (ce cd : Cfg) (hcfg : cfgOfHeader h false = some cd)
    (blocks : List (List Nat))
    (hok : ∀ b ∈ blocks, BlockOK ce cd h.blockSize b ∧ 0 < b.length ∧ b.length ≤ h.blockSize) :
    ∃ img, streamImageGen h ce blocks = .ok img ∧ parseImageGen img = (some h, blocks, .endOfStream) := by
  obtain ⟨img, h1, _, h3⟩ := parseImageGen_streamImageGen h wf ce cd hcfg blocks hok
  exact ⟨img, h1, h3⟩

/-- **C01_stream_image_small_none**: no remaining hypothesis.  Every well-formed header announcing
entropy NONE and a transform word over NONE / ZRLT / MTFT / RANK, every list of blocks of 1..blockSize
bytes, Writer tasks with skipBlocks on or off: the image parses back to the blocks. -/
theorem C01_stream_image_small_none (h : Header) (wf : WF h) (hent : h.entropyType = 0) (cd : Cfg)
    (hcfg : cfgOfHeader h false = some cd) (sb : Bool) (blocks : List (List Nat))
    (hv : ValidBlocks h.blockSize blocks) :
    ∃ img, streamImageGen h { cd with skipBlocks := sb } blocks = .ok img ∧
      parseImageGen img = (some h, blocks, .endOfStream) := by
  obtain ⟨_, _, hn, hs, he⟩ := cfgOfHeader_spec h false cd hcfg
  have hne : cd.ent = noneEnt := by
    rcases he with ⟨_, he⟩ | ⟨h5, _⟩
    · exact he
    · omega
  apply C01_stream_image_gen h wf _ cd hcfg blocks
  intro b hb
  obtain ⟨h0, hB, hx⟩ := hv b hb
  obtain ⟨p, hp, hd⟩ := C01_codec_of_header h sb cd hcfg b hx h0 hB wf.bsHi
  exact ⟨⟨p, hp, hd, small_none_fit { cd with skipBlocks := sb } h.blockSize b p hn hs hne hx h0 hB wf.bsHi hp⟩, h0, hB⟩

/-- **C01_stream_image_small_ans0_partial**: entropy ANS0.  The round trip of every block is proved
(`C01_codec_small_ans0`); what remains as a hypothesis is that every payload respects the reader's
`maxFrameLength` bound (≈ 1.79·B bytes) — an explicit, decidable size condition that the `imagegen`
stream evaluates on every scenario (the real Writer's frames are parsed by the real Reader).  The proved
ANS bound is 2 bytes per input byte plus 575 bytes per chunk (`C01_ans0_block_size`; 2 bytes per byte is
tight for an arbitrary table), which discharges the hypothesis for block sizes up to 128 KiB
(`C01_stream_image_small_ans0`) but not beyond; a bound for the NORMALISED table of the block itself
needs an information-theoretic argument that is not formalised. -/
theorem C01_stream_image_small_ans0_partial (h : Header) (wf : WF h) (cd : Cfg)
    (hcfg : cfgOfHeader h false = some cd) (sb : Bool) (blocks : List (List Nat))
    (hv : ValidBlocks h.blockSize blocks)
    (hfit : ∀ b ∈ blocks, (payloadOf { cd with skipBlocks := sb } b).length ≤ maxFrameBits h.blockSize) :
    ∃ img, streamImageGen h { cd with skipBlocks := sb } blocks = .ok img ∧
      parseImageGen img = (some h, blocks, .endOfStream) := by
  apply C01_stream_image_gen h wf _ cd hcfg blocks
  intro b hb
  obtain ⟨h0, hB, hx⟩ := hv b hb
  obtain ⟨p, hp, hd⟩ := C01_codec_of_header h sb cd hcfg b hx h0 hB wf.bsHi
  have hf := hfit b hb
  rw [payloadOf_of_ok _ b p hp] at hf
  obtain ⟨e, _, h8, _⟩ : ∃ e, True ∧ 8 ≤ p.length ∧ True := by
    unfold encodeTaskGen at hp
    split at hp
    · obtain ⟨e, _, h8, _⟩ := encodeWith_shape _ _ _ _ _ _ _ _ hp; exact ⟨e, trivial, h8, trivial⟩
    · obtain ⟨e, _, h8, _⟩ := encodeWith_shape _ _ _ _ _ _ _ _ hp; exact ⟨e, trivial, h8, trivial⟩
  exact ⟨⟨p, hp, hd, by omega, Nat.lt_of_le_of_lt hf (maxFrameBits_lt _), hf⟩, h0, hB⟩

/-- size of an order-0 ANS block as the factory configures the codec (chunks of 16384 bytes, log range
12): at most 2 bytes per input byte plus 575 bytes per chunk (header of at most 4345 bits, VarInt,
four states) -/
theorem C01_ans0_block_size (blk : List Nat) (enc : Bits) (hb : ∀ b ∈ blk, b < 256)
    (h : ans0Ent.enc blk = some enc) :
    enc.length ≤ 16 * blk.length + 4600 * ((blk.length + 16383) / 16384) :=
  Ans0Size.ans0Encode_length_le blk enc hb h

/-- **C01_stream_image_small_ans0**: no remaining hypothesis for block sizes up to 128 KiB (2^17),
entropy NONE or ANS0: the bound of `C01_ans0_block_size` is below the reader's `maxFrameLength` (which
is at least 288 KiB + 64 whatever the block size). -/
theorem C01_stream_image_small_ans0 (h : Header) (wf : WF h) (h17 : h.blockSize ≤ 2 ^ 17) (cd : Cfg)
    (hcfg : cfgOfHeader h false = some cd) (sb : Bool) (blocks : List (List Nat))
    (hv : ValidBlocks h.blockSize blocks) :
    ∃ img, streamImageGen h { cd with skipBlocks := sb } blocks = .ok img ∧
      parseImageGen img = (some h, blocks, .endOfStream) := by
  obtain ⟨_, _, hn, hs, he⟩ := cfgOfHeader_spec h false cd hcfg
  apply C01_stream_image_gen h wf _ cd hcfg blocks
  intro b hb
  obtain ⟨h0, hB, hx⟩ := hv b hb
  obtain ⟨p, hp, hd⟩ := C01_codec_of_header h sb cd hcfg b hx h0 hB wf.bsHi
  refine ⟨⟨p, hp, hd, ?_⟩, h0, hB⟩
  rcases he with ⟨_, he⟩ | ⟨_, he⟩
  · exact small_none_fit { cd with skipBlocks := sb } h.blockSize b p hn hs he hx h0 hB wf.bsHi hp
  · exact small_ans0_fit { cd with skipBlocks := sb } h.blockSize b p hn hs he hx h0 hB h17 hp

/-- the driver of the `imagegen` stream prints `streamImageGenFast`: it is `streamImageGen` -/
theorem C01_stream_image_gen_fast (h : Header) (c : Cfg) (blocks : List (List Nat)) :
    streamImageGenFast h c blocks = streamImageGen h c blocks :=
  streamImageGenFast_eq h c blocks

/-! ## 5. end to end: the Writer model, the byte image, the reader -/

/-- **C01_gen_end_to_end** (entropy NONE, every chain over NONE / ZRLT / MTFT / RANK; no codec
hypothesis).  Run the Writer model (any partition into Write calls, any job count, any size hint) with
the frame size of the generic encoder (`frameBitsGen`: 5 + lw + payload bits of THIS block); take the byte
image of the header and of the blocks it emitted.  Then the image exists, has exactly `GetWritten`
bytes, and reading it back yields the header, stops at the end marker, and the blocks concatenate to
the data written. -/
theorem C01_gen_end_to_end (h : Header) (wf : WF h) (hent : h.entropyType = 0) (cd : Cfg)
    (hcfg : cfgOfHeader h false = some cd) (sb : Bool)
    (c : Writer.Cfg) (hB : c.B = h.blockSize) (hJ : 0 < c.J) (hhl : c.headless = false)
    (hhb : c.headerBits = (headerBits h).length)
    (hfb : c.frameBits = frameBitsGen { cd with skipBlocks := sb })
    (parts : List (List Nat)) (hbytes : ∀ d ∈ parts, ∀ x ∈ d, x < 256) :
    let w := Writer.run c (Writer.init c) (Writer.healthyProgram parts)
    ∃ img, streamImageGen h { cd with skipBlocks := sb } w.1.emitted = .ok img ∧
      img.length = Writer.getWritten w.1 ∧
      (parseImageGen img).1 = some h ∧ (parseImageGen img).2.2 = BlockGen.Stop.endOfStream ∧
      (parseImageGen img).2.1.flatten = parts.flatten := by
  intro w
  obtain ⟨_, _, hn, hs, he⟩ := cfgOfHeader_spec h false cd hcfg
  have hne : cd.ent = noneEnt := by
    rcases he with ⟨_, he⟩ | ⟨h5, _⟩
    · exact he
    · omega
  apply end_to_end h wf _ cd hcfg c hB hJ hhl hhb hfb parts hbytes
  intro b _ h0 hBb hx
  obtain ⟨p, hp, hd⟩ := C01_codec_of_header h sb cd hcfg b hx h0 hBb wf.bsHi
  exact ⟨p, hp, hd, small_none_fit { cd with skipBlocks := sb } h.blockSize b p hn hs hne hx h0 hBb wf.bsHi hp⟩

/-- **C01_gen_end_to_end_ans0_partial**: the same for entropy ANS0 (and NONE), with the frame-size
condition of `C01_stream_image_small_ans0_partial` on the blocks the Writer cuts as the only
hypothesis about the codec. -/
theorem C01_gen_end_to_end_ans0_partial (h : Header) (wf : WF h) (cd : Cfg)
    (hcfg : cfgOfHeader h false = some cd) (sb : Bool)
    (c : Writer.Cfg) (hB : c.B = h.blockSize) (hJ : 0 < c.J) (hhl : c.headless = false)
    (hhb : c.headerBits = (headerBits h).length)
    (hfb : c.frameBits = frameBitsGen { cd with skipBlocks := sb })
    (parts : List (List Nat)) (hbytes : ∀ d ∈ parts, ∀ x ∈ d, x < 256)
    (hfit : ∀ b ∈ Spec.chunks c.B parts.flatten,
      (payloadOf { cd with skipBlocks := sb } b).length ≤ maxFrameBits h.blockSize) :
    let w := Writer.run c (Writer.init c) (Writer.healthyProgram parts)
    ∃ img, streamImageGen h { cd with skipBlocks := sb } w.1.emitted = .ok img ∧
      img.length = Writer.getWritten w.1 ∧
      (parseImageGen img).1 = some h ∧ (parseImageGen img).2.2 = BlockGen.Stop.endOfStream ∧
      (parseImageGen img).2.1.flatten = parts.flatten := by
  intro w
  apply end_to_end h wf _ cd hcfg c hB hJ hhl hhb hfb parts hbytes
  intro b hb h0 hBb hx
  obtain ⟨p, hp, hd⟩ := C01_codec_of_header h sb cd hcfg b hx h0 hBb wf.bsHi
  have hf := hfit b hb
  rw [payloadOf_of_ok _ b p hp] at hf
  have h8 : 8 ≤ p.length := by
    unfold encodeTaskGen at hp
    split at hp
    · obtain ⟨e, _, h8, _⟩ := encodeWith_shape _ _ _ _ _ _ _ _ hp; exact h8
    · obtain ⟨e, _, h8, _⟩ := encodeWith_shape _ _ _ _ _ _ _ _ hp; exact h8
  exact ⟨p, hp, hd, by omega, Nat.lt_of_le_of_lt hf (maxFrameBits_lt _), hf⟩

/-- **C01_gen_end_to_end_ans0**: entropy ANS0 (or NONE), block sizes up to 128 KiB: no codec
hypothesis at all. -/
theorem C01_gen_end_to_end_ans0 (h : Header) (wf : WF h) (h17 : h.blockSize ≤ 2 ^ 17) (cd : Cfg)
    (hcfg : cfgOfHeader h false = some cd) (sb : Bool)
    (c : Writer.Cfg) (hB : c.B = h.blockSize) (hJ : 0 < c.J) (hhl : c.headless = false)
    (hhb : c.headerBits = (headerBits h).length)
    (hfb : c.frameBits = frameBitsGen { cd with skipBlocks := sb })
    (parts : List (List Nat)) (hbytes : ∀ d ∈ parts, ∀ x ∈ d, x < 256) :
    let w := Writer.run c (Writer.init c) (Writer.healthyProgram parts)
    ∃ img, streamImageGen h { cd with skipBlocks := sb } w.1.emitted = .ok img ∧
      img.length = Writer.getWritten w.1 ∧
      (parseImageGen img).1 = some h ∧ (parseImageGen img).2.2 = BlockGen.Stop.endOfStream ∧
      (parseImageGen img).2.1.flatten = parts.flatten := by
  intro w
  obtain ⟨_, _, hn, hs, he⟩ := cfgOfHeader_spec h false cd hcfg
  apply end_to_end h wf _ cd hcfg c hB hJ hhl hhb hfb parts hbytes
  intro b _ h0 hBb hx
  obtain ⟨p, hp, hd⟩ := C01_codec_of_header h sb cd hcfg b hx h0 hBb wf.bsHi
  refine ⟨p, hp, hd, ?_⟩
  rcases he with ⟨_, he⟩ | ⟨_, he⟩
  · exact small_none_fit { cd with skipBlocks := sb } h.blockSize b p hn hs he hx h0 hBb wf.bsHi hp
  · exact small_ans0_fit { cd with skipBlocks := sb } h.blockSize b p hn hs he hx h0 hBb h17 hp

/-! ## 6. the hypotheses are satisfiable -/

/-- a header of the modelled codecs: XXHash32, ANS0, ZRLT+MTFT+RANK+ZRLT+MTFT (five transforms: extra
skip-flag byte), 64 KiB blocks -/
example : WF (mkHeader 1 5 (Names.chainType [6, 7, 8, 6, 7]) 65536 0) ∧
    (cfgOfHeader (mkHeader 1 5 (Names.chainType [6, 7, 8, 6, 7]) 65536 0) false).isSome = true :=
  ⟨by decide, rfl⟩

/-- the sequence `transform.New` builds for it has five transforms -/
example : ((newSeq (Names.chainType [6, 7, 8, 6, 7])).map List.length) = some 5 := rfl

/-- a declining first stage: ZRLT refuses a block without zeros that contains 0xFF (the output would be
longer than the input), MTFT accepts: flags 0xBF -/
example : (seqForward (fwdStages [zrltTr, sbrtTr 1] 3) [9, 8, 0xFF]).2 = 0xBF := by
  set_option maxRecDepth 20000 in rfl

/-- the frame-size hypothesis of the `_partial` theorems is decidable block by block (here: 40 bytes of
a single value through ZRLT+ANS0, a 12-byte payload) -/
example : (payloadOf ⟨0, [zrltTr], ans0Ent, false, some 1024⟩ (List.replicate 40 7)).length ≤ maxFrameBits 1024 := by
  set_option maxRecDepth 100000 in decide

end Kanzi.C01gen
