/-
C03, ANS range decoder on forged input: the concrete counter-examples (evaluated in the kernel by
`decide`) that go with `Properties/C03_ans.lean`.  Each is a complete input of a complete `Read` on
a new decoder; the same inputs are in the `ansdec` corpus, where the real decoder must end the
same way.
-/
import Kanzi.Model.AnsDec

namespace Kanzi.C03
open Kanzi.Bits Kanzi.EntSmall Kanzi.AnsDec

/-- a two-symbol header at log range 8 (alphabet {0,1}, frequencies 156 / 100) -/
def exHdr : Bits := natBits 0 3 ++ [true] ++ natBits 0 5 ++ natBits 3 8 ++ natBits 7 4 ++ natBits 99 7

/-- counter-example (order 0, a new default decoder, `Read` of 40 bytes): header, then a forged
payload size 300 > max(2·40, 256) = 256: the real code panics inside `ReadArray` (recovered by the
task); nothing beyond 256 bytes is allocated -/
theorem C03_ans_overrun_example :
    (read ⟨0, 16384, 6⟩ (fresh 0)
      (exHdr ++ writeVarInt 300 ++ natBits 40000 32 ++ natBits 40000 32 ++ natBits 40000 32 ++ natBits 40000 32) 40).cls
      = .stop .overrun := by
  set_option maxRecDepth 100000 in decide

theorem C03_ans_overrun_example_alloc :
    (read ⟨0, 16384, 6⟩ (fresh 0)
      (exHdr ++ writeVarInt 300 ++ natBits 40000 32 ++ natBits 40000 32 ++ natBits 40000 32 ++ natBits 40000 32) 40).bufSz
      = 256 := by
  set_option maxRecDepth 100000 in decide

/-- the same header with a payload size that fits: the forged payload decodes to 40 bytes -/
example : (read ⟨0, 16384, 6⟩ (fresh 0)
      (exHdr ++ writeVarInt 3 ++ natBits 40000 32 ++ natBits 40000 32 ++ natBits 40000 32 ++ natBits 40000 32
        ++ ofBytes [1, 2, 3]) 40).cls = .ret 40 false := by
  set_option maxRecDepth 100000 in decide

/-! ## bitstream version 1 -/

/-- counter-example to "no fault" for version 1: two zero states and three zero payload bytes make
the renormalisation loop `for st < _ANS_TOP` run off the end of `this.buffer` (index panic, recovered
by the task).  An observation, not a violation. -/
theorem C03_ans_v1_fault_example :
    (read ⟨0, 16384, 1⟩ (fresh 0) (exHdr ++ writeVarInt 3 ++ natBits 0 32 ++ natBits 0 32 ++ ofBytes [0, 0, 0]) 40).cls
      = .stop .fault := by
  set_option maxRecDepth 100000 in decide

/-- version 1 allocates from the forged size alone: `sz + sz/8` bytes with `sz < 2^27` whatever the
block length (here 2000 + 250 bytes for a `Read` of 40 bytes whose `max(2·len, 256)` is 256).  The
largest value is `2^27 - 1 + (2^27 - 1)/8 ≈ 144 MiB` per decoder. -/
theorem C03_ans_v1_alloc_example :
    (read ⟨0, 16384, 1⟩ (fresh 0) (exHdr ++ writeVarInt 2000 ++ natBits 0 32 ++ natBits 0 32) 40).bufSz = 2250 := by
  set_option maxRecDepth 100000 in decide

theorem C03_ans_v1_alloc_example_cls :
    (read ⟨0, 16384, 1⟩ (fresh 0) (exHdr ++ writeVarInt 2000 ++ natBits 0 32 ++ natBits 0 32) 40).cls = .stop .eos := by
  set_option maxRecDepth 100000 in decide

end Kanzi.C03
