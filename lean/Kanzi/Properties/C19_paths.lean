/-
C19 (partial) — command-line tool: which files a run reads and which files it writes.
Property theorems only.  Model: `Kanzi/Model/CliPaths.lean` (`plan` = `app.BlockCompressor.Compress`
/ `app.BlockDecompressor.Decompress` up to the creation of the file tasks, `createFileList` =
`internal.CreateFileList`, `clean` / `walkPath` = `filepath.Clean` / the names `filepath.Walk`
reports).  Proofs: `Kanzi/Proofs/CliPaths.lean`.  Tie to /repo: the `clipath` stream runs the real
binary on trees with adversarial names and compares refusal class, printed (input, output) names,
new files and exit status with the model (harness/cmd/kv/clipath.go).

Strings are byte lists.  The file system enters through oracles (`FS`): the theorems assume about
them only what is written in their hypotheses:
  `DirInput fs a`   both `Stat` calls on the `-i` argument say "directory";
  `TreeOK l`        the directory walk reports every entry once, under directory entry names
                    (not empty, not `.`, not `..`, no `/`);
  `KnzTree l`       (decompression) every name is `<directory entry name>.knz`: what compression writes;
  `SpecOK inp`      the `-i` argument is `/`, or `B` or `B/` where `B` is its own `filepath.Clean`, is
                    not `.` and does not end with a dot;  `isNonRec inp`: it is `X/.` (not recursive).
`SpecOK` is NOT implied by what the tool accepts: for `./T`, `T//`, `T/../T`, `.` the tool computes
`iName[len(formattedInName):]` on names that `filepath.Walk` has cleaned, so with `-o <dir>` output
names lose leading characters, collide, or the slice faults (examples at the end; finding).
  `NoShadow l`      no entry is named like another entry followed by `.knz`;
  `OutApart a l`    no entry of the input tree lies below the output directory.
Without `NoShadow` a run in place writes (with -f) or refuses to write (without) a file that is
an input of the same run: the tool checks "output == input" per task only (example; finding).
-/
import Kanzi.Model.CliPaths
import Kanzi.Proofs.CliPaths
import Kanzi.Proofs.CliPathsClean

namespace Kanzi.C19
open Kanzi.CliPaths

/-- Compression of a directory (in place or with `-o <dir>`): two distinct input files of one run
never get the same output path (and the input paths themselves are distinct). -/
theorem C19_paths_injective (fs : FS) (a : Args) (ts : List (Str × Str))
    (hc : a.decomp = false) (hsp : isSpecial a.out = false) (hd : DirInput fs a)
    (hs : SpecOK a.inp ∨ isNonRec a.inp = true) (ht : TreeOK (fs.tree (rootOf a.inp)))
    (h : plan fs a = .tasks ts) :
    (ts.map (·.1)).Nodup ∧ (ts.map (·.2)).Nodup :=
  paths_injective_c fs a ts hc hsp hd hs ht h

/-- Decompression of a directory whose entries are all named `<name>.knz`: distinct outputs.
(Without `KnzTree` false: `a.knz` and `a.KNZ`, or `a` and `a.bak.knz`, share an output; see below.) -/
theorem C19_paths_injective_decompress (fs : FS) (a : Args) (ts : List (Str × Str))
    (hc : a.decomp = true) (hsp : isSpecial a.out = false) (hd : DirInput fs a)
    (hs : SpecOK a.inp ∨ isNonRec a.inp = true)
    (hnd : ((fs.tree (rootOf a.inp)).map (·.1)).Nodup) (hk : KnzTree (fs.tree (rootOf a.inp)))
    (h : plan fs a = .tasks ts) :
    (ts.map (·.1)).Nodup ∧ (ts.map (·.2)).Nodup :=
  paths_injective_d fs a ts hc hsp hd hs hnd hk h

/-- In place (no `-o`) the spelling of `-i` does not matter: for EVERY `-i` string the inputs are
distinct and the outputs are distinct (the offending slice `iName[len(formattedInName):]` is not
evaluated in place). -/
theorem C19_paths_injective_inplace (fs : FS) (a : Args) (ts : List (Str × Str))
    (hc : a.decomp = false) (ho : a.out = []) (hd : DirInput fs a)
    (ht : TreeOK (fs.tree (rootOf a.inp))) (h : plan fs a = .tasks ts) :
    (ts.map (·.1)).Nodup ∧ (ts.map (·.2)).Nodup :=
  paths_injective_inplace_c fs a ts hc ho hd ht h

theorem C19_paths_injective_inplace_decompress (fs : FS) (a : Args) (ts : List (Str × Str))
    (hc : a.decomp = true) (ho : a.out = []) (hd : DirInput fs a)
    (hnd : ((fs.tree (rootOf a.inp)).map (·.1)).Nodup) (hk : KnzTree (fs.tree (rootOf a.inp)))
    (h : plan fs a = .tasks ts) : (ts.map (·.2)).Nodup :=
  paths_injective_inplace_d fs a ts hc ho hd hnd hk h

/-- In place, for every `-i` string: no output is an input of the run, provided no entry of the
tree is named like another entry followed by `.knz`. -/
theorem C19_paths_output_not_input_inplace (fs : FS) (a : Args) (ts : List (Str × Str))
    (hc : a.decomp = false) (ho : a.out = []) (hd : DirInput fs a)
    (ht : TreeOK (fs.tree (rootOf a.inp))) (hin : NoShadow (fs.tree (rootOf a.inp)))
    (h : plan fs a = .tasks ts) : ∀ t ∈ ts, ∀ u ∈ ts, t.2 ≠ u.1 :=
  paths_output_not_input_inplace_c fs a ts hc ho hd ht hin h

/-- The model of `filepath.Clean` is idempotent, and the names the directory walk reports
(iterated `filepath.Join`) determine the relative path for every root. -/
theorem C19_clean_idempotent (p : Str) : clean (clean p) = clean p := clean_idem p

theorem C19_walk_names_injective (root : Str) (r1 r2 : List Str) (hp : root ≠ []) (h1 : r1 ≠ [])
    (h2 : r2 ≠ []) (v1 : ∀ n ∈ r1, ValidName n) (v2 : ∀ n ∈ r2, ValidName n)
    (h : walkPath root r1 = walkPath root r2) : r1 = r2 :=
  walkPath_inj root r1 r2 hp h1 h2 v1 v2 h

/-- No task writes a path that is an input path of the run (its own or another task's):
in place when no entry shadows the compressed name of another one, with `-o <dir>` when the
input tree has nothing below the output directory. -/
theorem C19_paths_output_not_input (fs : FS) (a : Args) (ts : List (Str × Str))
    (hc : a.decomp = false) (hsp : isSpecial a.out = false) (hd : DirInput fs a)
    (hs : SpecOK a.inp ∨ isNonRec a.inp = true) (ht : TreeOK (fs.tree (rootOf a.inp)))
    (hin : a.out = [] → NoShadow (fs.tree (rootOf a.inp)))
    (hout : a.out ≠ [] → OutApart a (fs.tree (rootOf a.inp)))
    (h : plan fs a = .tasks ts) : ∀ t ∈ ts, ∀ u ∈ ts, t.2 ≠ u.1 :=
  paths_output_not_input_c fs a ts hc hsp hd hs ht hin hout h

theorem C19_paths_output_not_input_decompress (fs : FS) (a : Args) (ts : List (Str × Str))
    (hc : a.decomp = true) (hsp : isSpecial a.out = false) (hd : DirInput fs a)
    (hs : SpecOK a.inp ∨ isNonRec a.inp = true) (hk : KnzTree (fs.tree (rootOf a.inp)))
    (hin : a.out = [] → NoShadow (fs.tree (rootOf a.inp)))
    (hout : a.out ≠ [] → OutApart a (fs.tree (rootOf a.inp)))
    (h : plan fs a = .tasks ts) : ∀ t ∈ ts, ∀ u ∈ ts, t.2 ≠ u.1 :=
  paths_output_not_input_d fs a ts hc hsp hd hs hk hin hout h

/-- With `-o <dir>` every output path is `<dir>/` followed by a relative path made of directory
entry names (so no `..`, no empty or absolute component: nothing is written outside `<dir>`). -/
theorem C19_paths_within_outdir (fs : FS) (a : Args) (ts : List (Str × Str))
    (hc : a.decomp = false) (hsp : isSpecial a.out = false) (ho : a.out ≠ []) (hd : DirInput fs a)
    (hs : SpecOK a.inp ∨ isNonRec a.inp = true) (ht : TreeOK (fs.tree (rootOf a.inp)))
    (h : plan fs a = .tasks ts) : ∀ t ∈ ts, Under (foutOf a.out) t.2 :=
  paths_within_outdir_c fs a ts hc hsp ho hd hs ht h

theorem C19_paths_within_outdir_decompress (fs : FS) (a : Args) (ts : List (Str × Str))
    (hc : a.decomp = true) (hsp : isSpecial a.out = false) (ho : a.out ≠ []) (hd : DirInput fs a)
    (hs : SpecOK a.inp ∨ isNonRec a.inp = true) (hk : KnzTree (fs.tree (rootOf a.inp)))
    (h : plan fs a = .tasks ts) : ∀ t ∈ ts, Under (foutOf a.out) t.2 :=
  paths_within_outdir_d fs a ts hc hsp ho hd hs hk h

/-- Name mapping: stripping undoes appending, for EVERY byte string (names that already end with
`.knz`, several dots, no extension, any bytes). -/
theorem C19_paths_roundtrip_names (p : Str) : dName (cName p) = p := dName_cName p

/-- In place: the decompressor maps the name the compressor wrote back to the input name. -/
theorem C19_paths_roundtrip_inplace (isDir sp : Bool) (fin i : Str) :
    oName false isDir sp fin [] i = some (i ++ KNZ) ∧ oName true isDir sp fin [] (i ++ KNZ) = some i :=
  paths_roundtrip_inplace isDir sp fin i

/-- Tree `inT` compressed into directory `outC`, then directory `inC` (the same directory:
`foutOf outC = finOf inC`) decompressed into `outD`: for every entry `rel` of the tree the
decompressor finds its input under exactly the name the compressor wrote, and writes
`outD/rel`: the relative path is preserved. -/
theorem C19_paths_roundtrip (inT outC inC outD : Str) (rel : List Str) (hrel : rel ≠ [])
    (hv : ∀ n ∈ rel, ValidName n) (hT : SpecOK inT) (hC : SpecOK inC)
    (hsame : foutOf outC = finOf inC) (hoC : outC ≠ []) (hoD : outD ≠ []) :
    ∃ init last, rel = init ++ [last] ∧
      oName false true false (finOf inT) (foutOf outC) (walkPath (addSep inT) rel)
        = some (walkPath (addSep inC) (init ++ [last ++ KNZ])) ∧
      oName true true false (finOf inC) (foutOf outD) (walkPath (addSep inC) (init ++ [last ++ KNZ]))
        = some (foutOf outD ++ joinSep rel) :=
  paths_roundtrip inT outC inC outD rel hrel hv hT hC hsame hoC hoD

/-- A regular file as input: one task, reading that file, writing `-o` when given, else the
mapped name. -/
theorem C19_paths_file (fs : FS) (a : Args) (ts : List (Str × Str)) (hf : FileInput fs a)
    (h : plan fs a = .tasks ts) :
    ∃ o, ts = [(targetOf a.inp, o)] ∧
      oName a.decomp false (isSpecial a.out) [] a.out (targetOf a.inp) = some o :=
  plan_file fs a ts hf h

/-! ### the hypotheses are satisfiable, and what happens without them -/

private def T : Str := [84]                       -- "T"
private def dotT : Str := [46, 47, 84]            -- "./T"
private def out : Str := [111, 117, 116]          -- "out"
private def x : Str := [120]                      -- "x"
private def abcdef : Str := [97, 98, 99, 100, 101, 102]

private def w1 : World :=
  { base := [[119]], cwd := [[119]],
    ents := [⟨[T], .dir⟩, ⟨[T, abcdef], .file⟩, ⟨[T, x], .file⟩, ⟨[T, x ++ KNZ], .file⟩, ⟨[out], .dir⟩] }

example : SpecOK T ∧ SpecOK (T ++ [SEP]) ∧ SpecOK [SEP] ∧ ¬ SpecOK dotT ∧ ¬ SpecOK [DOT] ∧
    ¬ SpecOK (T ++ [SEP, SEP]) := by decide

/-- all hypotheses of the theorems hold for this small world (run in place / with `-o out`) -/
example : DirInput w1.fs ⟨false, T, out, false, false, false, false⟩ := ⟨⟨2, by decide⟩, ⟨2, by decide⟩⟩
example : TreeOK (w1.fs.tree (rootOf T)) := by unfold TreeOK; decide
example : OutApart ⟨false, T, out, false, false, false, false⟩ (w1.fs.tree (rootOf T)) := by
  unfold OutApart; decide
example : KnzTree [([x, x ++ KNZ], Kind.file)] := by
  intro e he
  have : e = ([x, x ++ KNZ], Kind.file) := by simpa using he
  subst this
  exact ⟨[x], x, rfl, by decide, by decide⟩

/-- canonical spelling, `-o out`: names preserved -/
example : plan w1.fs ⟨false, T, out, false, false, false, false⟩ = .tasks
    [(T ++ SEP :: abcdef, out ++ SEP :: abcdef ++ KNZ), (T ++ SEP :: x, out ++ SEP :: x ++ KNZ),
     (T ++ SEP :: x ++ KNZ, out ++ SEP :: x ++ KNZ ++ KNZ)] := by decide

/-- FINDING (spelling): `-i ./T -o out`: `T/abcdef` is written to `out/cdef.knz`, and the
one-letter name makes the slice `iName[len("./T/"):]` fault (real binary: exit status 127; with
names that differ only in their first two bytes: two inputs, one output, exit status 0 with -f) -/
example : plan { w1 with ents := [⟨[T], .dir⟩, ⟨[T, abcdef], .file⟩, ⟨[out], .dir⟩] }.fs
      ⟨false, dotT, out, false, false, false, false⟩ =
    .tasks [(T ++ SEP :: abcdef, out ++ SEP :: [99, 100, 101, 102] ++ KNZ)] := by decide
example : plan w1.fs ⟨false, dotT, out, false, false, false, false⟩ = .fault := by decide

/-- FINDING (output of one task = input of another): in place the tree {x, x.knz} gives the task
x -> x.knz although x.knz is an input of the same run; `NoShadow` fails -/
example : plan w1.fs ⟨false, T, [], true, false, false, false⟩ = .tasks
    [(T ++ SEP :: abcdef, T ++ SEP :: abcdef ++ KNZ), (T ++ SEP :: x, T ++ SEP :: x ++ KNZ),
     (T ++ SEP :: x ++ KNZ, T ++ SEP :: x ++ KNZ ++ KNZ)] := by decide
example : ¬ NoShadow (w1.fs.tree (T ++ [SEP])) := by
  intro h
  exact h ([x], .file) (by decide) ([x ++ KNZ], .file) (by decide) (by decide)

/-- decompression without `KnzTree`: `a.knz` and `a.KNZ` are both written to `a`;
`none.knz` in the working directory is "written" to the null output -/
example : dName ([97] ++ KNZ) = [97] ∧ dName ([97] ++ KNZU) = [97] ∧
    dName [97] = [97] ++ BAK ∧ dName ([97] ++ BAK ++ KNZ) = [97] ++ BAK := by decide
example : isSpecial (dName ([110, 111, 110, 101] ++ KNZ)) = true := by decide

end Kanzi.C19
