/-
Proofs for `Kanzi/Properties/C07.lean` (block hand-off protocol).  Core Lean only.

Structure: one inductive invariant per side (`EncInv`, `DecInv`), proved for the initial state and
preserved by every `Step` (case split on the counter, then on the event; each of the resulting
goals is closed by `grind` after unfolding `upd`).  All safety theorems are projections of the
invariant; progress uses the invariant to find the task whose turn it is; the measure lemmas,
`*_cancel_stable`, `firstFailed_*` and `runTrace_sound` need no reachability.
-/
import Kanzi.Model.Protocol
namespace Kanzi.Protocol

def holds' (p : Pc) : Prop := p = .crit ∨ p = .io

/-! ## Encode side: invariant -/

structure EncInv (N : Nat) (s : St) : Prop where
  idle : ∀ i, N ≤ i → s.pc i = .work
  low : ∀ c, s.ctr = some c → ∀ i, i < c → s.pc i = .fin ∨ s.pc i = .done
  high : ∀ c, s.ctr = some c → ∀ i, c < i → s.pc i = .work ∨ s.pc i = .wait ∨ s.pc i = .dErr
  cur : ∀ c, s.ctr = some c →
    s.pc c = .work ∨ s.pc c = .wait ∨ s.pc c = .crit ∨ s.pc c = .io ∨ s.pc c = .dOk ∨ s.pc c = .dErr
  len : ∀ c, s.ctr = some c →
    (s.pc c = .dOk → s.log.length = c + 1) ∧ (s.pc c ≠ .dOk → s.log.length = c)
  mutex : ∀ i j, (s.pc i = .crit ∨ s.pc i = .io) → (s.pc j = .crit ∨ s.pc j = .io) → i = j
  hlen : ∀ i, (s.pc i = .crit ∨ s.pc i = .io) → s.log.length = i
  sorted : s.log = List.range' 1 s.log.length
  bound : s.log.length ≤ N
  derr : ∀ i, s.pc i = .dErr → s.failed i = true
  cancelled : s.ctr = none → ∃ i, i < N ∧ s.failed i = true
  nopub : ∀ i, s.pc i ≠ .pub ∧ s.pc i ≠ .post
  cf : ∀ i, s.critFail i = true →
    s.log.length = i ∧ (∀ j, ¬ (s.pc j = .crit ∨ s.pc j = .io)) ∧
      (s.ctr = none ∨ (s.ctr = some i ∧ s.pc i = .dErr))

theorem encInv_init (N : Nat) : EncInv N encInit := by
  constructor <;> simp [encInit]

theorem EncInv.holder {N : Nat} {s : St} (hI : EncInv N s) {c i : Nat} (hc : s.ctr = some c)
    (hp : s.pc i = .crit ∨ s.pc i = .io ∨ s.pc i = .dOk) : i = c := by
  have h1 := hI.low c hc i
  have h2 := hI.high c hc i
  rcases Nat.lt_trichotomy i c with h | h | h
  · have := h1 h; grind
  · exact h
  · have := h2 h; grind

theorem log_snoc {l : List Nat} {i : Nat} (hs : l = List.range' 1 l.length) (hl : l.length = i) :
    l ++ [i + 1] = List.range' 1 (l ++ [i + 1]).length := by
  rw [List.length_append, List.length_singleton, List.range'_concat, ← hs, hl]
  simp [Nat.add_comm]

theorem encInv_step_none {N : Nat} {s t : St} (hI : EncInv N s) (e : Ev) (hN : e.task < N)
    (he : encStep s e = some t) (hc : s.ctr = none) : EncInv N t := by
  obtain ⟨idle, low, high, cur, len, mutex, hlen, sorted, bound, derr, cancelled, nopub, cf⟩ := hI
  have hsn := fun i => log_snoc (i := i) sorted
  clear low high cur len
  cases e <;> simp only [Ev.task] at hN <;> simp only [encStep, hc, cas] at he
  all_goals repeat' split at he
  all_goals cases he
  all_goals constructor <;> simp only [upd] <;> grind

theorem encInv_step_some {N : Nat} {s t : St} (hI : EncInv N s) (e : Ev) (hN : e.task < N)
    (he : encStep s e = some t) (c : Nat) (hc : s.ctr = some c) : EncInv N t := by
  obtain ⟨idle, low, high, cur, len, mutex, hlen, sorted, bound, derr, cancelled, nopub, cf⟩ := hI
  have hsn := fun i => log_snoc (i := i) sorted
  have low := low c hc
  have high := high c hc
  have cur := cur c hc
  have len := len c hc
  cases e <;> simp only [Ev.task] at hN <;> simp only [encStep, hc, cas] at he
  all_goals repeat' split at he
  all_goals cases he
  all_goals constructor <;> simp only [upd] <;> grind

theorem encInv_step {N : Nat} {s t : St} (hI : EncInv N s) (hs : Step encStep N s t) : EncInv N t := by
  obtain ⟨e, hN, he⟩ := hs
  obtain hc | ⟨c, hc⟩ : s.ctr = none ∨ ∃ c, s.ctr = some c := by cases s.ctr <;> simp
  · exact encInv_step_none hI e hN he hc
  · exact encInv_step_some hI e hN he c hc

theorem enc_inv {N : Nat} {s : St} (h : Reach encStep encInit N s) : EncInv N s := by
  induction h with
  | init => exact encInv_init N
  | step _ hs ih => exact encInv_step ih hs

theorem enc_mutex (N : Nat) (s : St) (h : Reach encStep encInit N s) (i j : Nat)
    (hi : s.pc i = .crit ∨ s.pc i = .io) (hj : s.pc j = .crit ∨ s.pc j = .io) : i = j :=
  (enc_inv h).mutex i j hi hj

theorem enc_ordered (N : Nat) (s : St) (h : Reach encStep encInit N s) :
    s.log = List.range' 1 s.log.length ∧ s.log.length ≤ N :=
  ⟨(enc_inv h).sorted, (enc_inv h).bound⟩

theorem enc_crit_failure_blocks (N : Nat) (s : St) (h : Reach encStep encInit N s) (i : Nat)
    (hf : s.critFail i = true) : s.log.length ≤ i ∧ ∀ j, i < j → ¬ (s.pc j = .crit ∨ s.pc j = .io) := by
  obtain ⟨h1, h2, _⟩ := (enc_inv h).cf i hf
  exact ⟨Nat.le_of_eq h1, fun j _ => h2 j⟩

theorem enc_terminal_ok (N : Nat) (s : St) (h : Reach encStep encInit N s) (hd : allDone N s)
    (hok : ∀ i, i < N → s.failed i = false) : s.log = List.range' 1 N ∧ s.ctr = some N := by
  have hI := enc_inv h
  obtain hc | ⟨c, hc⟩ : s.ctr = none ∨ ∃ c, s.ctr = some c := by cases s.ctr <;> simp
  · obtain ⟨i, hi, hf⟩ := hI.cancelled hc
    rw [hok i hi] at hf; cases hf
  · have hcN : c = N := by
      rcases Nat.lt_trichotomy c N with hlt | heq | hgt
      · have := hI.cur c hc
        have := hd c hlt
        grind
      · exact heq
      · have := hI.low c hc N hgt
        have := hI.idle N (Nat.le_refl N)
        grind
    subst hcN
    have hw := hI.idle c (Nat.le_refl c)
    have hl := (hI.len c hc).2 (by rw [hw]; decide)
    refine ⟨?_, hc⟩
    have := hI.sorted
    rw [hl] at this
    exact this


/-! ## Decode side: invariant -/

structure DecInv (N : Nat) (s : St) : Prop where
  idle : ∀ i, N ≤ i → s.pc i = .wait
  low : ∀ c, s.ctr = some c → ∀ i, i < c →
    s.pc i = .post ∨ s.pc i = .dOk ∨ s.pc i = .dErr ∨ s.pc i = .fin ∨ s.pc i = .done
  high : ∀ c, s.ctr = some c → ∀ i, c < i → s.pc i = .wait
  cur : ∀ c, s.ctr = some c →
    s.pc c = .wait ∨ s.pc c = .crit ∨ s.pc c = .io ∨ s.pc c = .pub ∨ s.pc c = .dErr
  len : ∀ c, s.ctr = some c →
    (s.pc c = .pub → s.log.length = c + 1) ∧ (s.pc c ≠ .pub → s.log.length = c)
  mutex : ∀ i j, ((s.pc i = .crit ∨ s.pc i = .io) ∨ s.pc i = .pub) →
    ((s.pc j = .crit ∨ s.pc j = .io) ∨ s.pc j = .pub) → i = j
  hlen : ∀ i, (s.pc i = .crit ∨ s.pc i = .io) → s.log.length = i
  plen : ∀ i, s.pc i = .pub → s.log.length = i + 1
  sorted : s.log = List.range' 1 s.log.length
  bound : s.log.length ≤ N
  derr : ∀ i, s.pc i = .dErr → s.failed i = true ∨ s.eos i = true ∨ s.ctr = none
  cancelled : s.ctr = none → ∃ i, i < N ∧ (s.failed i = true ∨ s.eos i = true)
  nowork : ∀ i, s.pc i ≠ .work
  cf : ∀ i, (s.critFail i = true ∨ s.eos i = true) →
    s.log.length = i ∧ (∀ j, ¬ ((s.pc j = .crit ∨ s.pc j = .io) ∨ s.pc j = .pub)) ∧
      (s.ctr = none ∨ (s.ctr = some i ∧ s.pc i = .dErr))

theorem decInv_init (N : Nat) : DecInv N decInit := by
  constructor <;> simp [decInit]

theorem decInv_step_none {N : Nat} {s t : St} (hI : DecInv N s) (e : Ev) (hN : e.task < N)
    (he : decStep s e = some t) (hc : s.ctr = none) : DecInv N t := by
  obtain ⟨idle, low, high, cur, len, mutex, hlen, plen, sorted, bound, derr, cancelled, nowork, cf⟩ := hI
  have hsn := fun i => log_snoc (i := i) sorted
  clear low high cur len
  cases e <;> simp only [Ev.task] at hN <;> simp only [decStep, hc, cas] at he
  all_goals repeat' split at he
  all_goals cases he
  all_goals constructor <;> (try simp only [upd]) <;> grind

/-- splits the events in two groups (only to keep each preservation lemma small) -/
def lateEv : Ev → Bool
  | .fail _ | .postDone _ | .dpub _ | .cancel _ | .exit _ | .pub _ => true
  | _ => false

theorem decInv_step_some_a {N : Nat} {s t : St} (hI : DecInv N s) (e : Ev) (hN : e.task < N)
    (he : decStep s e = some t) (c : Nat) (hc : s.ctr = some c) (hk : lateEv e = false) : DecInv N t := by
  obtain ⟨idle, low, high, cur, len, mutex, hlen, plen, sorted, bound, derr, cancelled, nowork, cf⟩ := hI
  have hsn := fun i => log_snoc (i := i) sorted
  have low := low c hc
  have high := high c hc
  have cur := cur c hc
  have len := len c hc
  cases e <;> first | (cases hk; done) | skip
  all_goals simp only [Ev.task] at hN
  all_goals simp only [decStep, hc] at he
  all_goals repeat' split at he
  all_goals cases he
  all_goals constructor <;> (try simp only [upd]) <;> grind

theorem decInv_step_some_b {N : Nat} {s t : St} (hI : DecInv N s) (e : Ev) (hN : e.task < N)
    (he : decStep s e = some t) (c : Nat) (hc : s.ctr = some c) (hk : lateEv e = true) : DecInv N t := by
  obtain ⟨idle, low, high, cur, len, mutex, hlen, plen, sorted, bound, derr, cancelled, nowork, cf⟩ := hI
  have low := low c hc
  have high := high c hc
  have cur := cur c hc
  have len := len c hc
  cases e <;> first | (cases hk; done) | skip
  all_goals simp only [Ev.task] at hN
  all_goals simp only [decStep, hc, cas] at he
  all_goals repeat' split at he
  all_goals cases he
  all_goals constructor <;> (try simp only [upd]) <;> grind

theorem decInv_step {N : Nat} {s t : St} (hI : DecInv N s) (hs : Step decStep N s t) : DecInv N t := by
  obtain ⟨e, hN, he⟩ := hs
  obtain hc | ⟨c, hc⟩ : s.ctr = none ∨ ∃ c, s.ctr = some c := by cases s.ctr <;> simp
  · exact decInv_step_none hI e hN he hc
  · cases hk : lateEv e
    · exact decInv_step_some_a hI e hN he c hc hk
    · exact decInv_step_some_b hI e hN he c hc hk

theorem dec_inv {N : Nat} {s : St} (h : Reach decStep decInit N s) : DecInv N s := by
  induction h with
  | init => exact decInv_init N
  | step _ hs ih => exact decInv_step ih hs

theorem dec_mutex (N : Nat) (s : St) (h : Reach decStep decInit N s) (i j : Nat)
    (hi : (s.pc i = .crit ∨ s.pc i = .io) ∨ s.pc i = .pub)
    (hj : (s.pc j = .crit ∨ s.pc j = .io) ∨ s.pc j = .pub) : i = j :=
  (dec_inv h).mutex i j hi hj

theorem dec_ordered (N : Nat) (s : St) (h : Reach decStep decInit N s) :
    s.log = List.range' 1 s.log.length ∧ s.log.length ≤ N :=
  ⟨(dec_inv h).sorted, (dec_inv h).bound⟩

theorem dec_crit_failure_blocks (N : Nat) (s : St) (h : Reach decStep decInit N s) (i : Nat)
    (hf : s.critFail i = true ∨ s.eos i = true) :
    s.log.length ≤ i ∧ ∀ j, i < j → ¬ (s.pc j = .crit ∨ s.pc j = .io) := by
  obtain ⟨h1, h2, _⟩ := (dec_inv h).cf i hf
  exact ⟨Nat.le_of_eq h1, fun j _ hj => h2 j (Or.inl hj)⟩

theorem dec_terminal_ok (N : Nat) (s : St) (h : Reach decStep decInit N s) (hd : allDone N s)
    (hok : ∀ i, i < N → s.failed i = false ∧ s.eos i = false) :
    s.log = List.range' 1 N ∧ s.ctr = some N := by
  have hI := dec_inv h
  obtain hc | ⟨c, hc⟩ : s.ctr = none ∨ ∃ c, s.ctr = some c := by cases s.ctr <;> simp
  · obtain ⟨i, hi, hf⟩ := hI.cancelled hc
    have := hok i hi
    grind
  · have hcN : c = N := by
      rcases Nat.lt_trichotomy c N with hlt | heq | hgt
      · have := hI.cur c hc
        have := hd c hlt
        grind
      · exact heq
      · have := hI.low c hc N hgt
        have := hI.idle N (Nat.le_refl N)
        grind
    subst hcN
    have hw := hI.idle c (Nat.le_refl c)
    have hl := (hI.len c hc).2 (by rw [hw]; decide)
    refine ⟨?_, hc⟩
    have := hI.sorted
    rw [hl] at this
    exact this


/-! ## Measure -/

theorem measure_congr (N : Nat) (s s' : St) (h : ∀ j, j < N → s'.pc j = s.pc j) :
    measure N s' = measure N s := by
  induction N with
  | zero => rfl
  | succ n ih =>
    simp only [measure]
    rw [ih (fun j hj => h j (by omega)), h n (by omega)]

theorem measure_step (N : Nat) (s s' : St) (i : Nat) (hi : i < N)
    (h : ∀ j, j ≠ i → s'.pc j = s.pc j) :
    measure N s' + rank (s.pc i) = measure N s + rank (s'.pc i) := by
  induction N with
  | zero => omega
  | succ n ih =>
    simp only [measure]
    by_cases hin : i = n
    · subst hin
      have := measure_congr i s s' (fun j hj => h j (by omega))
      omega
    · have := ih (by omega)
      rw [h n (by omega)]
      omega

theorem measure_le_of_rank (N : Nat) (s t : St) (i : Nat) (hi : i < N)
    (h : ∀ j, j ≠ i → t.pc j = s.pc j) (hr : rank (t.pc i) ≤ rank (s.pc i)) :
    measure N t ≤ measure N s := by
  have := measure_step N s t i hi h; omega

theorem step_decr (step : St → Ev → Option St) (N : Nat) (s t : St) (e : Ev) (hN : e.task < N)
    (he : step s e = some t) (hf : ∀ j, j ≠ e.task → t.pc j = s.pc j)
    (hr : rank (t.pc e.task) < rank (s.pc e.task)) :
    ∃ t, Step step N s t ∧ measure N t < measure N s :=
  ⟨t, ⟨e, hN, he⟩, by have := measure_step N s t e.task hN hf; omega⟩

theorem enc_measure_init (N : Nat) : measure N encInit = 9 * N := by
  induction N with
  | zero => rfl
  | succ n ih => simp only [measure, ih]; simp [encInit, rank]; omega

theorem dec_measure_init (N : Nat) : measure N decInit = 8 * N := by
  induction N with
  | zero => rfl
  | succ n ih => simp only [measure, ih]; simp [decInit, rank]; omega

theorem enc_step_rank {s t : St} {e : Ev} (he : encStep s e = some t) :
    (∀ j, j ≠ e.task → t.pc j = s.pc j) ∧ rank (t.pc e.task) ≤ rank (s.pc e.task) := by
  cases e <;> simp only [encStep] at he
  all_goals repeat' split at he
  all_goals cases he
  all_goals simp only [Ev.task]
  all_goals constructor
  all_goals (try (intro j hj; simp [upd, hj]))
  all_goals simp only [upd_same]
  all_goals grind [rank]

theorem dec_step_rank {s t : St} {e : Ev} (he : decStep s e = some t) :
    (∀ j, j ≠ e.task → t.pc j = s.pc j) ∧ rank (t.pc e.task) ≤ rank (s.pc e.task) := by
  cases e <;> simp only [decStep] at he
  all_goals repeat' split at he
  all_goals cases he
  all_goals simp only [Ev.task]
  all_goals constructor
  all_goals (try (intro j hj; simp [upd, hj]))
  all_goals (try simp only [upd_same])
  all_goals grind [rank]

theorem enc_measure_mono (N : Nat) (s t : St) (h : Step encStep N s t) : measure N t ≤ measure N s := by
  obtain ⟨e, hN, he⟩ := h
  obtain ⟨h1, h2⟩ := enc_step_rank he
  exact measure_le_of_rank N s t e.task hN h1 h2

theorem dec_measure_mono (N : Nat) (s t : St) (h : Step decStep N s t) : measure N t ≤ measure N s := by
  obtain ⟨e, hN, he⟩ := h
  obtain ⟨h1, h2⟩ := dec_step_rank he
  exact measure_le_of_rank N s t e.task hN h1 h2

/-! ## Progress -/

/-- a task that is not spinning on somebody else's turn has an enabled, measure-decreasing step -/
theorem enc_enabled (N : Nat) (s : St) (i : Nat) (hi : i < N) (hd : s.pc i ≠ .done)
    (hp : s.pc i ≠ .pub ∧ s.pc i ≠ .post)
    (hw : s.pc i = .wait → s.ctr = none ∨ s.ctr = some i) :
    ∃ t, Step encStep N s t ∧ measure N t < measure N s := by
  have hf : ∀ p : Pc, ∀ j, j ≠ i → upd s.pc i p j = s.pc j := fun p j hj => upd_other _ _ _ _ hj
  cases h : s.pc i with
  | work =>
    exact step_decr encStep N s { s with pc := upd s.pc i .dErr, failed := upd s.failed i true }
      (.fail i) hi (by simp [encStep, h]) (hf _) (by simp [Ev.task, h, rank])
  | wait =>
    rcases hw h with hc | hc
    · exact step_decr encStep N s { s with pc := upd s.pc i .dOk }
        (.load i none) hi (by simp [encStep, h, hc]) (hf _) (by simp [Ev.task, h, rank])
    · exact step_decr encStep N s { s with pc := upd s.pc i .crit }
        (.load i (some i)) hi (by simp [encStep, h, hc]) (hf _) (by simp [Ev.task, h, rank])
  | crit =>
    exact step_decr encStep N s { s with pc := upd s.pc i .io }
      (.ioBegin i) hi (by simp [encStep, h]) (hf _) (by simp [Ev.task, h, rank])
  | io =>
    exact step_decr encStep N s { s with pc := upd s.pc i .dOk, log := s.log ++ [i + 1] }
      (.ioEnd i) hi (by simp [encStep, h]) (hf _) (by simp [Ev.task, h, rank])
  | pub => exact absurd h hp.1
  | post => exact absurd h hp.2
  | dOk =>
    exact step_decr encStep N s { s with pc := upd s.pc i .fin, ctr := cas s.ctr i }
      (.dpub i) hi (by simp [encStep, h]) (hf _) (by simp [Ev.task, h, rank])
  | dErr =>
    exact step_decr encStep N s { s with pc := upd s.pc i .fin, ctr := none }
      (.cancel i) hi (by simp [encStep, h]) (hf _) (by simp [Ev.task, h, rank])
  | fin =>
    exact step_decr encStep N s { s with pc := upd s.pc i .done }
      (.exit i) hi (by simp [encStep, h]) (hf _) (by simp [Ev.task, h, rank])
  | done => exact absurd h hd

theorem enc_progress (N : Nat) (s : St) (h : Reach encStep encInit N s) (hnd : ¬ allDone N s) :
    ∃ t, Step encStep N s t ∧ measure N t < measure N s := by
  have hI := enc_inv h
  have ⟨i, hi, hpi⟩ : ∃ i, i < N ∧ s.pc i ≠ .done := by
    apply Classical.byContradiction
    intro hne
    exact hnd (fun i hi => Classical.byContradiction fun hp => hne ⟨i, hi, hp⟩)
  by_cases hgood : s.pc i = .wait → s.ctr = none ∨ s.ctr = some i
  · exact enc_enabled N s i hi hpi (hI.nopub i) hgood
  · -- task i spins: the counter is `some c`, c ≠ i; task c can move
    have hwi : s.pc i = .wait := Classical.byContradiction fun hp => hgood (fun h => absurd h hp)
    obtain hc | ⟨c, hc⟩ : s.ctr = none ∨ ∃ c, s.ctr = some c := by cases s.ctr <;> simp
    · exact absurd (fun _ => Or.inl hc) hgood
    · have hci : c < i := by
        rcases Nat.lt_trichotomy c i with hlt | heq | hgt
        · exact hlt
        · subst heq; exact absurd (fun _ => Or.inr hc) hgood
        · have := hI.low c hc i hgt; grind
      have hcur := hI.cur c hc
      exact enc_enabled N s c (by omega) (by grind) (hI.nopub c) (fun _ => Or.inr hc)

theorem dec_enabled (N : Nat) (s : St) (i : Nat) (hi : i < N) (hd : s.pc i ≠ .done)
    (hp : s.pc i ≠ .work)
    (hw : s.pc i = .wait → s.ctr = none ∨ s.ctr = some i) :
    ∃ t, Step decStep N s t ∧ measure N t < measure N s := by
  have hf : ∀ p : Pc, ∀ j, j ≠ i → upd s.pc i p j = s.pc j := fun p j hj => upd_other _ _ _ _ hj
  cases h : s.pc i with
  | work => exact absurd h hp
  | wait =>
    rcases hw h with hc | hc
    · exact step_decr decStep N s { s with pc := upd s.pc i .dErr }
        (.load i none) hi (by simp [decStep, h, hc]) (hf _) (by simp [Ev.task, h, rank])
    · exact step_decr decStep N s { s with pc := upd s.pc i .crit }
        (.load i (some i)) hi (by simp [decStep, h, hc]) (hf _) (by simp [Ev.task, h, rank])
  | crit =>
    exact step_decr decStep N s { s with pc := upd s.pc i .io }
      (.ioBegin i) hi (by simp [decStep, h]) (hf _) (by simp [Ev.task, h, rank])
  | io =>
    exact step_decr decStep N s { s with pc := upd s.pc i .pub, log := s.log ++ [i + 1] }
      (.ioEnd i) hi (by simp [decStep, h]) (hf _) (by simp [Ev.task, h, rank])
  | pub =>
    exact step_decr decStep N s { s with pc := upd s.pc i .post, ctr := cas s.ctr i }
      (.pub i) hi (by simp [decStep, h]) (hf _) (by simp [Ev.task, h, rank])
  | post =>
    exact step_decr decStep N s { s with pc := upd s.pc i .dOk }
      (.postDone i) hi (by simp [decStep, h]) (hf _) (by simp [Ev.task, h, rank])
  | dOk =>
    exact step_decr decStep N s { s with pc := upd s.pc i .fin, ctr := cas s.ctr i }
      (.dpub i) hi (by simp [decStep, h]) (hf _) (by simp [Ev.task, h, rank])
  | dErr =>
    exact step_decr decStep N s { s with pc := upd s.pc i .fin, ctr := none }
      (.cancel i) hi (by simp [decStep, h]) (hf _) (by simp [Ev.task, h, rank])
  | fin =>
    exact step_decr decStep N s { s with pc := upd s.pc i .done }
      (.exit i) hi (by simp [decStep, h]) (hf _) (by simp [Ev.task, h, rank])
  | done => exact absurd h hd

theorem dec_progress (N : Nat) (s : St) (h : Reach decStep decInit N s) (hnd : ¬ allDone N s) :
    ∃ t, Step decStep N s t ∧ measure N t < measure N s := by
  have hI := dec_inv h
  have ⟨i, hi, hpi⟩ : ∃ i, i < N ∧ s.pc i ≠ .done := by
    apply Classical.byContradiction
    intro hne
    exact hnd (fun i hi => Classical.byContradiction fun hp => hne ⟨i, hi, hp⟩)
  by_cases hgood : s.pc i = .wait → s.ctr = none ∨ s.ctr = some i
  · exact dec_enabled N s i hi hpi (hI.nowork i) hgood
  · have hwi : s.pc i = .wait := Classical.byContradiction fun hp => hgood (fun h => absurd h hp)
    obtain hc | ⟨c, hc⟩ : s.ctr = none ∨ ∃ c, s.ctr = some c := by cases s.ctr <;> simp
    · exact absurd (fun _ => Or.inl hc) hgood
    · have hci : c < i := by
        rcases Nat.lt_trichotomy c i with hlt | heq | hgt
        · exact hlt
        · subst heq; exact absurd (fun _ => Or.inr hc) hgood
        · have := hI.low c hc i hgt; grind
      have hcur := hI.cur c hc
      exact dec_enabled N s c (by omega) (by grind) (hI.nowork c) (fun _ => Or.inr hc)

/-! ## Cancel is stable (any state, not only reachable ones) -/

theorem enc_cancel_stable (N : Nat) (s t : St) (h : Step encStep N s t) (hc : s.ctr = none) :
    t.ctr = none ∧ (∀ i, (t.pc i = .crit ∨ t.pc i = .io) → (s.pc i = .crit ∨ s.pc i = .io)) ∧
      t.log.length ≤ s.log.length + 1 := by
  obtain ⟨e, _, he⟩ := h
  cases e <;> simp only [encStep, hc, cas] at he
  all_goals repeat' split at he
  all_goals cases he
  all_goals refine ⟨?_, ?_, ?_⟩ <;> (try simp only [upd]) <;> grind

theorem dec_cancel_stable (N : Nat) (s t : St) (h : Step decStep N s t) (hc : s.ctr = none) :
    t.ctr = none ∧ (∀ i, (t.pc i = .crit ∨ t.pc i = .io) → (s.pc i = .crit ∨ s.pc i = .io)) := by
  obtain ⟨e, _, he⟩ := h
  cases e <;> simp only [decStep, hc, cas] at he
  all_goals repeat' split at he
  all_goals cases he
  all_goals refine ⟨?_, ?_⟩ <;> (try simp only [upd]) <;> grind

/-! ## Failure reporting -/

theorem firstFailed_isSome (N : Nat) (f : Nat → Bool) :
    (firstFailed N f).isSome ↔ ∃ i, i < N ∧ f i = true := by
  induction N with
  | zero => simp [firstFailed]
  | succ n ih =>
    simp only [firstFailed]
    cases hff : firstFailed n f with
    | some k =>
      rw [hff] at ih
      obtain ⟨i, hi, hfi⟩ := ih.1 rfl
      simp only [Option.isSome_some, true_iff]
      exact ⟨i, by omega, hfi⟩
    | none =>
      rw [hff] at ih
      simp only
      constructor
      · intro h
        split at h
        · exact ⟨n, by omega, by assumption⟩
        · cases h
      · rintro ⟨i, hi, hfi⟩
        by_cases hin : i = n
        · subst hin; simp [hfi]
        · have := ih.2 ⟨i, by omega, hfi⟩
          cases this

theorem firstFailed_spec (N : Nat) (f : Nat → Bool) (i : Nat) (h : firstFailed N f = some i) :
    i < N ∧ f i = true ∧ ∀ j, j < i → f j = false := by
  induction N with
  | zero => cases h
  | succ n ih =>
    simp only [firstFailed] at h
    cases hff : firstFailed n f with
    | some k =>
      rw [hff] at h
      cases h
      obtain ⟨h1, h2, h3⟩ := ih hff
      exact ⟨by omega, h2, h3⟩
    | none =>
      rw [hff] at h
      simp only at h
      split at h
      · cases h
        rename_i hfn
        refine ⟨by omega, hfn, ?_⟩
        intro j hj
        have hn : ¬ (firstFailed i f).isSome := by rw [hff]; simp
        rw [firstFailed_isSome] at hn
        cases hfj : f j with
        | false => rfl
        | true => exact absurd ⟨j, hj, hfj⟩ hn
      · cases h

/-! ## The trace runner only follows `Step` -/

theorem runTrace_sound (step : St → Ev → Option St) (init : St) (N : Nat) (s t : St) (es : List Ev)
    (hs : Reach step init N s) (h : runTrace step N s es = some t) : Reach step init N t := by
  induction es generalizing s with
  | nil => simp only [runTrace] at h; cases h; exact hs
  | cons e es ih =>
    simp only [runTrace] at h
    split at h
    · cases hse : step s e with
      | none => rw [hse] at h; cases h
      | some u =>
        rw [hse] at h
        exact ih u (Reach.step hs ⟨e, by assumption, hse⟩) h
    · cases h

/-! ## Non-vacuity: concrete runs of the model -/

/-- an interleaved failure-free encode run of 3 tasks (task 2 and 1 load first and spin) -/
def exEncOk : List Ev :=
  [.load 2 (some 0), .load 1 (some 0), .load 0 (some 0), .ioBegin 0, .load 2 (some 0), .ioEnd 0,
   .dpub 0, .load 1 (some 1), .exit 0, .ioBegin 1, .load 2 (some 1), .ioEnd 1, .dpub 1, .exit 1,
   .load 2 (some 2), .ioBegin 2, .ioEnd 2, .dpub 2, .exit 2]

def pcsDone (N : Nat) (s : St) : Bool := (List.range N).all (fun i => s.pc i == .done)

example : (runTrace encStep 3 encInit exEncOk).map (·.log) = some [1, 2, 3] := by decide
example : (runTrace encStep 3 encInit exEncOk).map (·.ctr) = some (some 3) := by decide
example : (runTrace encStep 3 encInit exEncOk).map (pcsDone 3) = some true := by decide
example : (runTrace encStep 3 encInit exEncOk).map (fun s => firstFailed 3 s.failed) = some none := by
  decide
/-- the final state of that run is reachable, so the theorems apply to it -/
example : ∃ s, runTrace encStep 3 encInit exEncOk = some s ∧ Reach encStep encInit 3 s := by
  cases h : runTrace encStep 3 encInit exEncOk with
  | none => exact absurd (congrArg Option.isSome h) (by decide)
  | some s => exact ⟨s, rfl, runTrace_sound _ _ _ _ _ _ .init h⟩

/-- task 1 fails while holding the token; task 2 (already spinning) sees the cancel value -/
def exEncFail : List Ev :=
  [.load 0 (some 0), .ioBegin 0, .ioEnd 0, .dpub 0, .exit 0, .load 1 (some 1), .ioBegin 1,
   .load 2 (some 1), .ioFail 1, .load 2 (some 1), .cancel 1, .load 2 none, .dpub 2, .exit 2, .exit 1]

example : (runTrace encStep 3 encInit exEncFail).map (·.log) = some [1] := by decide
example : (runTrace encStep 3 encInit exEncFail).map (·.ctr) = some none := by decide
example : (runTrace encStep 3 encInit exEncFail).map (pcsDone 3) = some true := by decide
example : (runTrace encStep 3 encInit exEncFail).map (fun s => firstFailed 3 s.failed) = some (some 1) := by
  decide
example : (runTrace encStep 3 encInit exEncFail).map (fun s => s.critFail 1) = some true := by decide
/-- after the failure task 2 cannot acquire the token: this event is not an enabled transition -/
example : (runTrace encStep 3 encInit
    [.load 0 (some 0), .ioBegin 0, .ioEnd 0, .dpub 0, .load 1 (some 1), .ioFail 1, .cancel 1,
     .load 2 (some 2)]).isNone = true := by decide
/-- events of tasks outside the batch are rejected -/
example : (runTrace encStep 3 encInit [.load 3 (some 0)]).isNone = true := by decide

/-- decode, 3 tasks: frame 1 and 2 are read, task 2 finds the end marker -/
def exDecEos : List Ev :=
  [.load 1 (some 0), .load 0 (some 0), .ioBegin 0, .ioEnd 0, .pub 0, .load 1 (some 1), .postDone 0,
   .ioBegin 1, .ioEnd 1, .dpub 0, .pub 1, .load 2 (some 2), .ioBegin 2, .ioEos 2, .fail 1, .exit 0,
   .cancel 2, .cancel 1, .exit 1, .exit 2]

example : (runTrace decStep 3 decInit exDecEos).map (·.log) = some [1, 2] := by decide
example : (runTrace decStep 3 decInit exDecEos).map (·.ctr) = some none := by decide
example : (runTrace decStep 3 decInit exDecEos).map (pcsDone 3) = some true := by decide
example : (runTrace decStep 3 decInit exDecEos).map (fun s => (s.eos 2, firstFailed 3 s.failed)) =
    some (true, some 1) := by decide

/-- decode, failure-free run of 2 tasks -/
def exDecOk : List Ev :=
  [.load 0 (some 0), .ioBegin 0, .load 1 (some 0), .ioEnd 0, .pub 0, .load 1 (some 1), .ioBegin 1,
   .postDone 0, .ioEnd 1, .pub 1, .dpub 0, .postDone 1, .dpub 1, .exit 1, .exit 0]

example : (runTrace decStep 2 decInit exDecOk).map (·.log) = some [1, 2] := by decide
example : (runTrace decStep 2 decInit exDecOk).map (·.ctr) = some (some 2) := by decide
example : (runTrace decStep 2 decInit exDecOk).map (pcsDone 2) = some true := by decide

end Kanzi.Protocol
