import Kanzi.Model.Reader
import Kanzi.Spec.Stream
import Kanzi.Proofs.ReaderLemmas
/-!
Proofs of the reader-side property theorems over `Model.Reader`.  All helper lemmas (step equations
for `readLoop` / `processBlock`, `runTasks` as an iteration of `taskStep`, `scan`, buffer/cursor
invariants `BInv` / `RInv`, the central `readLoop_blocks`) live in `Kanzi/Proofs/ReaderLemmas.lean`.
-/
namespace Kanzi.Reader
open Kanzi.Spec

set_option linter.unusedVariables false

theorem reader_refines_spec (c : Cfg) (hB : 0 < c.B) (hJ : 0 < c.J) (blocks : List (List Nat))
    (hv : validBlocks c.B blocks) (sizes : List Nat) :
    let expected := (selectRange c.from_ c.to_ blocks).flatten
    ∀ k, (hk : k < sizes.length) →
      let pos := (sizes.take k).sum
      let n := sizes[k]
      ((readSeq c (init (validFrames blocks)) sizes).2)[k]? =
        some (if n = 0 then ReadRes.data [] none
              else if pos ≥ expected.length then ReadRes.eof
              else ReadRes.data (specRead expected pos n) none) := by
  intro expected k hk
  have hI : BInv c (init (validFrames blocks)) := by simp [BInv, init, WFB]
  have hR : RInv c [Frame.endMarker] (init (validFrames blocks)) expected :=
    Or.inr ⟨0, blocks, rfl, rfl, hv, by simp [expected, selectRange_eq], Or.inl rfl⟩
  have := readSeq_valid c hB hJ sizes _ expected hI hR rfl k hk
  have hp : pending (init (validFrames blocks)) = [] := by simp [pending, init]
  rw [hp, List.nil_append] at this
  exact this

theorem decoded_in_range (c : Cfg) (hB : 0 < c.B) (hJ : 0 < c.J) (frames : List Frame) (sizes : List Nat) :
    ∀ id ∈ (readSeq c (init frames) sizes).1.decodedIds, inRange c id = true :=
  readSeq_dec c _ sizes (by simp [init])

theorem nothing_after_error (c : Cfg) (hB : 0 < c.B) (hJ : 0 < c.J) (s : St) (n : Nat)
    (h : (read c s n).2.isErr = true) (hcl : s.closed = false) (sizes : List Nat) :
    ∀ r ∈ (readSeq c (read c s n).1 sizes).2, r.bytes = [] := by
  have hd : Dead (read c s n).1 := by
    unfold read at h ⊢
    simp only [hcl, Bool.false_eq_true, if_false] at h ⊢
    exact readLoop_err_dead c _ _ _ s h
  exact fun r hr => (readSeq_dead c _ sizes hd r hr).1

/-
ORIGINAL STATEMENT (FALSE for the model as written):

theorem no_eof_without_marker (c : Cfg) (hB : 0 < c.B) (hJ : 0 < c.J) (frames : List Frame)
    (hno : Frame.endMarker ∉ frames) (sizes : List Nat) :
    ∀ k : Nat, ((readSeq c (init frames) sizes).2)[k]? = some ReadRes.eof →
      ∃ j : Nat, j < k ∧ (((readSeq c (init frames) sizes).2)[j]?.map ReadRes.isErr) = some true

Counterexample (`no_eof_without_marker_counterexample` below): B = 2, J = 1, no range,
frames = [Frame.block []] (a frame that decodes, without error, to ZERO bytes; `Frame.oversize 0`
behaves identically), sizes = [1].  The single task delivers an empty, non-skipped, non-error result,
`scan` reports 0 decoded bytes without error, and `readLoop` turns "0 bytes, no error" into `.eof` at
k = 0, with no earlier call that could have reported an error.  The model's comment says that block
frames are non-empty, but the type does not enforce it; with that side condition the statement holds
(`no_eof_without_marker_partial`).
-/
theorem no_eof_without_marker_counterexample :
    let c : Cfg := { B := 2, J := 1, nbIn := 0, from_ := none, to_ := none }
    Frame.endMarker ∉ [Frame.block []] ∧
    (readSeq c (init [Frame.block []]) [1]).2 = [ReadRes.eof] ∧
    (readSeq c (init [Frame.oversize 0]) [1]).2 = [ReadRes.eof] := by
  refine ⟨by simp, ?_, ?_⟩ <;> decide

/-- PARTIAL version of `no_eof_without_marker`: additionally no frame decodes to zero bytes -/
theorem no_eof_without_marker_partial (c : Cfg) (hB : 0 < c.B) (hJ : 0 < c.J) (frames : List Frame)
    (hno : Frame.endMarker ∉ frames)
    (hne : ∀ f ∈ frames, f ≠ Frame.block [] ∧ f ≠ Frame.oversize 0) (sizes : List Nat) :
    ∀ k : Nat, ((readSeq c (init frames) sizes).2)[k]? = some ReadRes.eof →
      ∃ j : Nat, j < k ∧ (((readSeq c (init frames) sizes).2)[j]?.map ReadRes.isErr) = some true :=
  readSeq_fok c hJ sizes (init frames) ⟨by simp [init], hno, hne⟩

theorem error_position (c : Cfg) (hB : 0 < c.B) (hJ : 0 < c.J) (blocks : List (List Nat))
    (hv : ∀ b ∈ blocks, b.length = c.B) (bad : Frame) (hbad : bad = .badCrit ∨ bad = .badPost)
    (hin : inRange c (blocks.length + 1) = true)
    (rest : List Frame) (sizes : List Nat) :
    let outs := (readSeq c (init (blocks.map Frame.block ++ bad :: rest)) sizes).2
    (outs.map ReadRes.bytes).flatten <+: (selectRange c.from_ c.to_ blocks).flatten ∧
    ReadRes.stale ∉ outs := by
  intro outs
  have hI : BInv c (init (blocks.map Frame.block ++ bad :: rest)) := by simp [BInv, init, WFB]
  have hR : RInv c (bad :: rest) (init (blocks.map Frame.block ++ bad :: rest))
      (selectRange c.from_ c.to_ blocks).flatten :=
    Or.inr ⟨0, blocks, rfl, rfl, validBlocks_of_full c.B hB blocks hv, by simp [selectRange_eq],
      Or.inr ⟨bad, rest, rfl, hbad, by simpa using hin⟩⟩
  have := readSeq_prefix c hB hJ (bad :: rest) sizes _ _ hI hR rfl
  have hp : pending (init (blocks.map Frame.block ++ bad :: rest)) = [] := by simp [pending, init]
  rw [hp, List.nil_append] at this
  exact this

theorem closed_absorbing (c : Cfg) (s : St) (n : Nat) :
    close (close s) = close s ∧ read c (close s) n = (close s, ReadRes.data [] (some Err.closed)) := by
  unfold close read
  cases h : s.closed <;> simp [h]

end Kanzi.Reader
